"""Regenerate /verif/pins.json: for every property, the functions its anchors name, with a digest of their source at /repo HEAD.

usage: python3 tools/mkpins.py            (run by the maintainer of /verif after a legitimate change of /repo, e.g. a fix: commit)

The anchors of properties.jsonl give file:line ranges at the pinned commit; they are mapped to function qualnames there and the
digests are taken from the same qualnames in the current tree.  mode "deco": only the decorators (numba signature / options) and
the parameter list are pinned -- used for kernels whose body is regenerated into coq/Gen by a translator; mode "full": the whole
function (docstring and comments excluded) -- used for code that is hand-modelled and tied by the correspondence run only.
"""
import os
import sys
if os.path.realpath(sys.executable) != os.path.realpath("/venv/bin/python"):
    # digests are of ast.dump output, which differs between Python versions (f-string nodes): use the interpreter the checks run under
    os.execv("/venv/bin/python", ["/venv/bin/python"] + sys.argv)
import ast
import glob
import json
import os
import re
import subprocess
import sys

sys.path.insert(0, os.path.join(os.path.dirname(os.path.abspath(__file__)), "harness"))
import pins as P

BASE = "fc376ec"


def functions(src):
    out = []
    def walk(node, prefix):
        for ch in ast.iter_child_nodes(node):
            if isinstance(ch, (ast.FunctionDef, ast.AsyncFunctionDef)):
                lo = min([ch.lineno] + [d.lineno for d in ch.decorator_list])
                out.append((prefix + ch.name, lo, ch.end_lineno))
                walk(ch, prefix + ch.name + ".")
            elif isinstance(ch, ast.ClassDef):
                walk(ch, prefix + ch.name + ".")
    walk(ast.parse(src), "")
    return out


SKIP_DIRS = ("sigpyproc/viz/", "sigpyproc/apps/", "sigpyproc/simulation/")


def index_repo():
    """all functions / classes / module constants of the library at HEAD: (file, qual) -> node, and name -> [(file, qual, kind)]"""
    files = subprocess.run(["git", "-C", "/repo", "ls-tree", "-r", "--name-only", "HEAD", "sigpyproc"], capture_output=True, text=True).stdout.split()
    nodes, by_name, srcs = {}, {}, {}
    for f in files:
        if not f.endswith(".py") or f.startswith(SKIP_DIRS):
            continue
        src = subprocess.run(["git", "-C", "/repo", "show", f"HEAD:{f}"], capture_output=True, text=True).stdout
        srcs[f] = src
        tree = ast.parse(src)
        def walk(node, prefix):
            for ch in ast.iter_child_nodes(node):
                if isinstance(ch, (ast.FunctionDef, ast.AsyncFunctionDef)):
                    nodes[(f, prefix + ch.name)] = ch
                    by_name.setdefault(ch.name, []).append((f, prefix + ch.name, "func"))
                    walk(ch, prefix + ch.name + ".")
                elif isinstance(ch, ast.ClassDef):
                    nodes[(f, prefix + ch.name)] = ch
                    by_name.setdefault(ch.name, []).append((f, prefix + ch.name, "class"))
                    walk(ch, prefix + ch.name + ".")
        walk(tree, "")
        for b in tree.body:
            tg = b.targets if isinstance(b, ast.Assign) else [b.target] if isinstance(b, ast.AnnAssign) else []
            for t in tg:
                if isinstance(t, ast.Name) and not t.id.startswith("__") and t.id not in ("logger",):
                    nodes[(f, "=" + t.id)] = b
                    by_name.setdefault(t.id, []).append((f, t.id, "const"))
    return nodes, by_name, srcs


RECEIVER_CLASS = {"header": ["Header"], "hdr": ["Header"], "hdr_in": ["Header"], "out_hdr": ["Header"], "new_hdr": ["Header"], "sub_hdr": ["SubintHdr", "Header"],
                  "pri_hdr": ["PrimaryHdr"], "bitsinfo": ["BitsInfo"], "sinfo": ["StreamInfo"], "stream_info": ["StreamInfo"], "_file": ["FileReader"],
                  "out_file": ["FileWriter"], "chan_stats": ["ChannelStats"], "_fitsfile": ["PFITSFile"], "fitsfile": ["PFITSFile"], "rfimask": ["RFIMask"],
                  "block": ["FilterbankBlock", "BaseBlock"], "tim": ["TimeSeries"], "fil": ["FilReader", "Filterbank"], "freqs": ["FrequencyChannels"]}


def class_family(cls_file, cls_name, nodes, by_name):
    """the class and its bases (by name, across files)"""
    fam, todo = [], [(cls_file, cls_name)]
    while todo:
        f, c = todo.pop()
        if (f, c) in fam or (f, c) not in nodes or not isinstance(nodes[(f, c)], ast.ClassDef):
            continue
        fam.append((f, c))
        for b in nodes[(f, c)].bases:
            bn = b.id if isinstance(b, ast.Name) else b.attr if isinstance(b, ast.Attribute) else None
            for (bf, bq, kind) in by_name.get(bn, []):
                if kind == "class":
                    todo.append((bf, bq))
        # subclasses too: a method called on self may be the override of a derived class (Filterbank.read_plan -> FilReader.read_plan)
        for (of, oq), onode in nodes.items():
            if isinstance(onode, ast.ClassDef) and any((b.id if isinstance(b, ast.Name) else getattr(b, "attr", None)) == c.rsplit(".", 1)[-1] for b in onode.bases):
                todo.append((of, oq))
    return fam


def referenced(fnode, ffile, fqual, nodes, by_name):
    """(name, candidate definitions) read or called by the function: self.X -> the class family; recv.X with a known receiver name ->
    that class family; module.X / bare X -> by name (same file first); any other recv.X only when the name is rare in the library"""
    out = {}
    def add(name, cands):
        if cands:
            out.setdefault(name, [])
            for c in cands:
                if c not in out[name]:
                    out[name].append(c)
    own = fqual.rsplit(".", 1)[0] if "." in fqual else None
    for n in ast.walk(fnode):
        # dynamic attribute access on self (getattr(self, name) / vars(type(self))): every method and property of the class family
        if (isinstance(n, ast.Call) and isinstance(n.func, ast.Name) and n.func.id in ("getattr", "vars") and own and n.args
                and (ast.unparse(n.args[0]) in ("self", "type(self)"))):
            for (f, q) in class_family(ffile, own, nodes, by_name):
                for (kf, kq), knode in nodes.items():
                    if kf == f and kq.startswith(q + ".") and kq.count(".") == q.count(".") + 1 and isinstance(knode, ast.FunctionDef):
                        add(kq.rsplit(".", 1)[1], [(kf, kq, "func")])
        if isinstance(n, ast.Attribute):
            v = n.value
            recv = v.id if isinstance(v, ast.Name) else v.attr if isinstance(v, ast.Attribute) else None
            cands = by_name.get(n.attr, [])
            if recv == "self" and own:
                fam = class_family(ffile, own, nodes, by_name)
                add(n.attr, [c for c in cands if c[2] == "func" and any(c[0] == f and c[1] == q + "." + n.attr for f, q in fam)])
            elif recv in RECEIVER_CLASS:
                fams = [fq for cn in RECEIVER_CLASS[recv] for (cf, cq, kind) in by_name.get(cn, []) if kind == "class" for fq in class_family(cf, cq, nodes, by_name)]
                add(n.attr, [c for c in cands if c[2] == "func" and any(c[0] == f and c[1] == q + "." + n.attr for f, q in fams)])
            else:
                top = [c for c in cands if "." not in c[1]]            # module.X: top-level functions / classes / constants
                add(n.attr, top if recv in MODULE_ALIASES else [])
                if len(cands) <= 2:
                    add(n.attr, cands)
        elif isinstance(n, ast.Name):
            cands = [c for c in by_name.get(n.id, []) if "." not in c[1]]
            same = [c for c in cands if c[0] == ffile]
            add(n.id, same or (cands if len(cands) <= 2 else []))
    return out


MODULE_ALIASES = {"kernels", "stats", "utils", "params", "sigproc", "bits", "fileio", "rfi", "filters", "pfits", "np_utils", "custom_types"}


def helpers_of(roots, nodes, by_name, depth=3):
    """what the root functions call / read, to the given depth: functions, methods, properties, classes (their statement without
    methods, plus __init__ / __attrs_post_init__) and module constants of the library"""
    seen = set(roots)
    frontier = list(roots)
    out = []
    for _ in range(depth):
        nxt = []
        for (f, q) in frontier:
            node = nodes.get((f, q))
            if node is None or isinstance(node, ast.ClassDef):
                continue
            for name, cands in sorted(referenced(node, f, q, nodes, by_name).items()):
                for (cf, cq, kind) in cands:
                    key = (cf, cq if kind != "const" else "=" + cq)
                    if key in seen:
                        continue
                    seen.add(key)
                    out.append((cf, cq, kind))
                    if kind == "func":
                        nxt.append((cf, cq))
                    elif kind == "class":
                        for init in ("__init__", "__attrs_post_init__"):
                            if (cf, cq + "." + init) in nodes and (cf, cq + "." + init) not in seen:
                                seen.add((cf, cq + "." + init)); out.append((cf, cq + "." + init, "func")); nxt.append((cf, cq + "." + init))
        frontier = nxt
    return out


def main():
    nodes, by_name, srcs = index_repo()
    gen_text = "\n".join(open(f).read() for f in glob.glob("/verif/coq/Gen/*.v"))
    props = [json.loads(l) for l in open("/verif/properties.jsonl")]
    table = {}
    for p in props:
        names = []
        for m in p["anchors"]["mechanism"]:
            for part in m["where"].split(","):
                mm = re.match(r"\s*(?:(\S+\.py):)?([\d\-, ]+)", part.strip())
                if not mm:
                    continue
                if mm.group(1):
                    cur = mm.group(1)
                for rng in mm.group(2).split(","):
                    rng = rng.strip()
                    if not rng:
                        continue
                    lo, hi = (rng.split("-") + [rng])[:2]
                    lo, hi = int(lo), int(hi)
                    src = subprocess.run(["git", "-C", "/repo", "show", f"{BASE}:{cur}"], capture_output=True, text=True).stdout
                    fns = functions(src)
                    hit = [f for f in fns if f[1] <= hi and f[2] >= lo]
                    # innermost only
                    hit = [f for f in hit if not any(g[0].startswith(f[0] + ".") for g in hit)]
                    for f in hit:
                        names.append((cur, f[0]))
        names += P.EXTRA.get(p["id"], [])
        seen, entries = set(), []
        for fpath, q in names:
            if (fpath, q) in seen or (fpath, q) in P.SKIP.get(p["id"], []):
                continue
            seen.add((fpath, q))
            translated = fpath.endswith("core/kernels.py") and re.search(r"\b" + re.escape(q) + r"(_run|_body|_iter)?\b", gen_text) is not None
            mode = "deco" if translated else "full"
            mode = P.MODE.get((fpath, q), mode)
            try:
                head_src = subprocess.run(["git", "-C", "/repo", "show", f"HEAD:{fpath}"], capture_output=True, text=True).stdout
                h = P.digest("/repo", fpath, q, mode, src=head_src)   # the committed HEAD, whatever the working tree holds
            except KeyError as e:
                print("  not found at HEAD:", fpath, q, e)
                continue
            entries.append({"file": fpath, "function": q, "mode": mode, "sha": h})
        # helpers: what the pinned functions call or read (depth 3)
        roots = [(e["file"], e["function"]) for e in entries]
        nroot = len(entries)
        for (cf, cq, kind) in helpers_of(roots, nodes, by_name):
            if any(e["file"] == cf and e["function"] == cq for e in entries) or (cf, cq) in P.SKIP.get(p["id"], []):
                continue
            if kind == "func":
                translated = cf.endswith("core/kernels.py") and re.search(r"\b" + re.escape(cq) + r"(_run|_body|_iter)?\b", gen_text) is not None
                mode = "deco" if translated else "full"
            else:
                mode = kind
            try:
                h = P.digest_node("/repo", cf, cq, mode, src=srcs[cf])
            except KeyError:
                continue
            entries.append({"file": cf, "function": cq, "mode": mode, "sha": h, "via": "helper"})
        table[p["id"]] = entries
        print(p["id"], f"{nroot} anchors + {len(entries) - nroot} helpers:", ", ".join(f"{e['function']}[{e['mode'][0]}]" for e in entries[nroot:])[:900])
    # digest of the library's sources at HEAD (from a scratch export, so that a dirty working tree does not matter)
    import tempfile, shutil
    tmp = tempfile.mkdtemp(prefix="mkpins-")
    try:
        subprocess.run(f"git -C /repo archive HEAD sigpyproc | tar -x -C {tmp}", shell=True, check=True)
        tree = P.tree_digest(tmp)
    finally:
        shutil.rmtree(tmp, ignore_errors=True)
    json.dump({"python": list(sys.version_info[:2]), "tree": tree, "base": subprocess.run(["git", "-C", "/repo", "rev-parse", "HEAD"], capture_output=True, text=True).stdout.strip(), "pins": table},
              open("/verif/pins.json", "w"), indent=1)


if __name__ == "__main__":
    main()
