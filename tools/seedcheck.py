"""Confirm a seeded change and run the checks against it.

usage: tools/seedcheck.py <seed-id e.g. C01-1> [--checks C01,C06] [--skip-suite]
  worktree  /tmp/seed-<id>     (scratch git worktree of /repo with the change applied, uncommitted)
  delivery  /tmp/seedout-<id>/ (patch.diff, demo.py, notes.md)
Steps: (1) demo.py exits 0 on the clean tree and 1 on the changed tree, (2) the full existing test suite passes on the changed tree,
(3) the patch is applied to /repo, the named checks are run, and /repo is restored, (4) the change is stored under /verif/seeded/<id>/.
"""
import json
import os
import re
import shutil
import subprocess
import sys
import time

ENV = dict(os.environ, PYTHONHASHSEED="0", NUMBA_NUM_THREADS="4", TERM="dumb")


def sh(cmd, cwd=None, env=None, timeout=3600):
    p = subprocess.run(cmd, shell=True, cwd=cwd, env=env or ENV, capture_output=True, text=True, timeout=timeout)
    return p.returncode, p.stdout + p.stderr


def main():
    sid = sys.argv[1]
    pid = sid.split("-")[0]
    checks = [pid]
    skip_suite = "--skip-suite" in sys.argv
    for i, a in enumerate(sys.argv):
        if a == "--checks":
            checks = sys.argv[i + 1].split(",")
    wt, out = f"/tmp/seed-{sid}", f"/tmp/seedout-{sid}"
    meta = {"id": sid, "breaks_property": pid, "checked_at": time.strftime("%Y-%m-%d %H:%M:%S")}
    patch = open(f"{out}/patch.diff").read()
    rc, cur = sh("git diff", cwd=wt)
    if cur.strip() != patch.strip():
        open(f"{out}/patch.diff", "w").write(cur)   # trust the worktree
        patch = cur
    meta["files_changed"] = re.findall(r"^\+\+\+ b/(.*)$", patch, flags=re.M)
    env = dict(ENV, PYTHONPATH=wt, NUMBA_CACHE_DIR=f"/root/.cache/numba-seedcheck-{sid}")
    # --suite-only: just the full suite on the changed tree; result kept in <delivery>/suite.json for a later --skip-suite run
    if "--suite-only" in sys.argv:
        rc, o = sh("/venv/bin/python -m pytest -q -p no:cacheprovider --timeout=900 -x --deselect tests/test_utils.py::TestPaths::test_permission_validation "
                   "--deselect tests/test_utils.py::TestPaths::test_read_permission 2>&1 | tail -4", cwd=wt, env=env, timeout=3000)
        m = re.search(r"(\d+) passed", o)
        json.dump({"suite_tail": o.strip()[-300:], "suite_passed": int(m.group(1)) if m else 0, "suite_ok": bool(m) and " failed" not in o},
                  open(f"{out}/suite.json", "w"))
        print(sid, "suite:", o.strip().splitlines()[-1] if o.strip() else "?")
        return
    # (1) demo with and without
    rc_with, o_with = sh(f"/venv/bin/python -W ignore {out}/demo.py", cwd=out, env=env, timeout=1200)
    sh(f"git apply -R {out}/patch.diff", cwd=wt)      # not `git stash`: the stash is shared between worktrees
    try:
        rc_wo, o_wo = sh(f"/venv/bin/python -W ignore {out}/demo.py", cwd=out, env=env, timeout=1200)
    finally:
        sh(f"git apply {out}/patch.diff", cwd=wt)
    meta["demo_exit_with_change"], meta["demo_exit_without_change"] = rc_with, rc_wo
    meta["demo_output_with_change"] = o_with[-600:]
    print(f"demo: with change -> {rc_with}, without -> {rc_wo}")
    # (2) full suite on the changed tree
    if skip_suite and os.path.exists(f"{out}/suite.json"):
        meta.update(json.load(open(f"{out}/suite.json")))
        skip_suite = False
        print("suite (run earlier on this worktree):", meta["suite_tail"].splitlines()[-1])
    elif not skip_suite:
        rc, o = sh("/venv/bin/python -m pytest -q -p no:cacheprovider --timeout=900 -x --deselect tests/test_utils.py::TestPaths::test_permission_validation "
                   "--deselect tests/test_utils.py::TestPaths::test_read_permission 2>&1 | tail -4", cwd=wt, env=env, timeout=3000)
        meta["suite_tail"] = o.strip()[-300:]
        m = re.search(r"(\d+) passed", o)
        meta["suite_passed"] = int(m.group(1)) if m else 0
        meta["suite_ok"] = bool(m) and " failed" not in o
        print("suite:", meta["suite_tail"].splitlines()[-1] if meta["suite_tail"] else "?")
    # (3) run the checks against it
    rc, o = sh("git status --short", cwd="/repo")
    if o.strip():
        print("REFUSING: /repo has uncommitted changes"); sys.exit(2)
    results = {}
    rc, o = sh(f"git apply {out}/patch.diff", cwd="/repo")
    if rc != 0:
        print("patch does not apply to /repo HEAD:", o); meta["applies_to_head"] = False
    else:
        try:
            for c in checks:
                t0 = time.time()
                rc, o = sh(f"bin/check {c}", cwd="/verif", env=dict(os.environ), timeout=3000)
                viol = [l for l in o.splitlines() if l.startswith("VIOLATION")]
                classes = [l for l in o.splitlines() if "failing classes" in l]
                results[c] = {"exit": rc, "violation_line": viol[0] if viol else None, "failing_classes": classes[0].strip() if classes else None,
                              "summary": [l for l in o.splitlines() if l.startswith(c + ":")][-1:] , "wall_s": round(time.time() - t0, 1)}
                print(f"check {c}: exit {rc} {viol[0] if viol else ''} {classes[0].strip() if classes else ''}")
                if viol:
                    mm = re.search(r"replay=(\S+)", viol[0])
                    if mm and os.path.exists(mm.group(1)):
                        os.makedirs(f"/verif/seeded/{sid}", exist_ok=True)
                        shutil.copy(mm.group(1), f"/verif/seeded/{sid}/replay_{c}.json")
        finally:
            sh("git checkout -- .", cwd="/repo")
            # restore Gen/ and evidence to the unchanged tree's
            for c in checks:
                sh(f"bin/check {c}", cwd="/verif", env=dict(os.environ), timeout=3000)
    meta["checks"] = results
    meta["caught"] = any(r["exit"] != 0 for r in results.values())
    os.makedirs(f"/verif/seeded/{sid}", exist_ok=True)
    for f in ("patch.diff", "demo.py", "notes.md"):
        if os.path.exists(f"{out}/{f}"):
            shutil.copy(f"{out}/{f}", f"/verif/seeded/{sid}/{f}")
    ok = rc_with != 0 and rc_wo == 0 and (skip_suite or meta.get("suite_ok"))
    meta["confirmed"] = bool(ok)
    meta["what_ran"] = ["demo.py with/without the change (PYTHONPATH=worktree)", "full pytest suite on the changed worktree" if not skip_suite else "suite skipped",
                        "git -C /repo apply patch.diff; bin/check <ids>; git -C /repo checkout -- ."]
    json.dump(meta, open(f"/verif/seeded/{sid}/meta.json", "w"), indent=1)
    print("confirmed:", ok, " caught:", meta["caught"])


if __name__ == "__main__":
    main()
