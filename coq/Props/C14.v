(** C14 -- time-domain filters and decimators equal their definitions.
    Only property theorems here; each is closed by [exact] of a lemma from Proofs/C14_*.v.  Their subjects:
      - Gen/Kernels.v    downsample_1d_mean_run, downsample_2d_mean_flat_run   (regenerated from kernels.py)
      - Gen/C14_stats.v  pad sizes / slice offset of running_filter, kernel-call argument order, crop / reshape / axes of the
                         NumPy decimation paths, call sites in timeseries.py / block.py, detrend_1d over Q
                         (regenerated from stats.py, kernels.py, timeseries.py, block.py by tools/py2coq/gen_c14.py)
      - Model/C14_filters.v  hand model of np.pad(symmetric), of C-order reshape + axis reduction and of the composition
    Sample values are integers (exact sums); the moving aggregate, the group aggregate and the "true division + cast"
    of the mean kernels are parameters, so the statements hold for the mean, the median and every store dtype. *)
From Coq Require Import ZArith QArith List Bool.
Require Import SPP.Base.Rt SPP.Gen.Kernels SPP.Gen.C14_stats SPP.Model.C14_filters SPP.Model.C14_nppad SPP.Model.C14_pinned.
Require Import SPP.Proofs.C14_decimate SPP.Proofs.C14_callsites SPP.Proofs.C14_options SPP.Proofs.C14_running SPP.Proofs.C14_nppad SPP.Proofs.C14_detrend SPP.Proofs.C14_pinned.
Import ListNotations.
Open Scope Z_scope.

(** * Running filter *)

(** For every length n >= 1 and EVERY width w >= 1 (odd, even, larger than the data), and every moving-window function
    that returns the aggregate of the trailing w entries from position w-1 on (bottleneck's contract with
    min_count = window): the output has the input's length, and entry i is the aggregate of the w samples at offsets
    -(w/2) .. w-1-(w/2) around sample i of the symmetrically reflected series.  The moving function is only consulted
    where it is defined and inside the padded array; every window sample is a sample of the input. *)
Theorem C14_running_window : forall (agg : list Z -> Z) (move : arr -> Z -> Z -> arr),
  (forall a len w t, 1 <= w -> w - 1 <= t < len -> move a len w t = agg (trailing a w t)) ->
  forall x n w, 1 <= n -> 1 <= w ->
    running_filter_len n w = n /\
    forall i, 0 <= i < n ->
      running_filter_model move x n w i = agg (centred_window x n w i) /\
      w - 1 <= i + rf_slice_start w < pad_len n (rf_pad_left w) (rf_pad_right w) /\
      (forall j, 0 <= sym n (i - w / 2 + j) < n).
Proof. exact running_filter_spec. Qed.
Print Assumptions C14_running_window.

(** the reflection: identity inside, mirror images with the edge sample repeated outside, period 2n *)
Theorem C14_symmetric_reflection : forall n, 1 <= n ->
  (forall k, 0 <= k < n -> sym n k = k) /\
  (forall k, 0 <= k < n -> sym n (- 1 - k) = k) /\
  (forall k, 0 <= k < n -> sym n (n + k) = n - 1 - k) /\
  (forall k, sym n (k + 2 * n) = sym n k) /\
  (forall k, 0 <= sym n k < n).
Proof. exact sym_edges. Qed.
Print Assumptions C14_symmetric_reflection.

(** away from the edges the window is the plain w-sample window (no reflection) *)
Theorem C14_window_interior : forall x n w i, 1 <= w -> w / 2 <= i -> i + (w - 1 - w / 2) < n ->
  centred_window x n w i = map (fun j => x (i - w / 2 + j)) (zrange w).
Proof. exact centred_window_interior. Qed.
Print Assumptions C14_window_interior.

(** Windows wider than the data.  [C14_running_window] above is stated over the closed-form padded array [pad_sym] (index map
    [sym]) and holds for EVERY w, so also for pads longer than the series.  What NumPy itself does for such pads is different
    in form: np.pad(mode='symmetric') reflects chunk by chunk, re-reflecting an already reflected buffer until the pad area is
    full (Model/C14_nppad.v follows numpy/lib/_arraypad_impl.py, _set_reflect_both).  For EVERY n >= 1 and EVERY pad pair
    pl, pr >= 0 -- shorter than, equal to, or many times the length -- and whatever the uninitialised buffer held, that loop
    ends with both pads filled and its buffer is the closed form on all pl + n + pr positions. *)
Theorem C14_numpy_symmetric_pad_every_length : forall junk x n pl pr, 1 <= n -> 0 <= pl -> 0 <= pr ->
  snd (fst (np_pad_symmetric junk x n pl pr)) = 0 /\ snd (np_pad_symmetric junk x n pl pr) = 0 /\
  forall q, 0 <= q < pad_len n pl pr -> np_pad_symmetric_array junk x n pl pr q = pad_sym x n pl q.
Proof. exact np_pad_symmetric_is_sym. Qed.
Print Assumptions C14_numpy_symmetric_pad_every_length.

(** ... in particular with the pad sizes stats.running_filter computes, for every window width w >= 1 *)
Theorem C14_running_filter_pad_any_width : forall junk x n w, 1 <= n -> 1 <= w ->
  forall q, 0 <= q < pad_len n (rf_pad_left w) (rf_pad_right w) ->
    np_pad_symmetric_array junk x n (rf_pad_left w) (rf_pad_right w) q = pad_sym x n (rf_pad_left w) q.
Proof. exact running_filter_pad_any_width. Qed.
Print Assumptions C14_running_filter_pad_any_width.

(** a one-sample series is padded with that sample (NumPy's singleton branch) *)
Theorem C14_symmetric_pad_singleton : forall x pl q, pad_sym x 1 pl q = x 0.
Proof. exact pad_sym_singleton. Qed.
Print Assumptions C14_symmetric_pad_singleton.

(** TimeSeries.deredden: the input minus its running filter *)
Theorem C14_deredden : forall (agg : list Z -> Z) (move : arr -> Z -> Z -> arr),
  (forall a len w t, 1 <= w -> w - 1 <= t < len -> move a len w t = agg (trailing a w t)) ->
  forall x n w i, 1 <= n -> 1 <= w -> 0 <= i < n ->
    deredden_model move x n w i = x i - agg (centred_window x n w i).
Proof. exact deredden_spec. Qed.
Print Assumptions C14_deredden.

(** * Decimation of a series *)

(** kernels.downsample_1d_mean for every length n >= 0 and factor f >= 1: exactly the positions [0, n/f) of the fresh
    (uninitialised) buffer are written, entry k is divcast(sum of x[k f .. k f + f)) -- so it does not depend on the
    buffer's previous content -- and nothing else is touched *)
Theorem C14_decimate_1d_kernel : forall divcast n junk x f, 0 <= n -> 1 <= f ->
  forall k, downsample_1d_mean_run divcast n junk x f k =
    if (0 <=? k) && (k <? n / f) then divcast (sumZ (group1 x f k)) f else junk k.
Proof. exact ds1_kernel_spec. Qed.
Print Assumptions C14_decimate_1d_kernel.

Theorem C14_decimate_1d_in_bounds : forall n f k j, 0 <= n -> 1 <= f -> 0 <= k < n / f -> 0 <= j < f ->
  0 <= k * f + j < n / f * f /\ n / f * f <= n.
Proof. exact ds1_reads_in_bounds. Qed.
Print Assumptions C14_decimate_1d_in_bounds.

(** the incomplete remainder x[(n/f) f ..] is dropped: it cannot influence the result *)
Theorem C14_decimate_1d_remainder_dropped : forall divcast n junk x x' f, 0 <= n -> 1 <= f ->
  (forall t, 0 <= t < n / f * f -> x t = x' t) ->
  forall k, downsample_1d_mean_run divcast n junk x f k = downsample_1d_mean_run divcast n junk x' f k.
Proof. exact ds1_ignores_remainder. Qed.
Print Assumptions C14_decimate_1d_remainder_dropped.

(** stats.downsample_1d, mean: accepted exactly for 1 <= f <= n, arguments reach the kernel in its own order *)
Theorem C14_decimate_1d_mean : forall divcast n junk x f, ds1_rejects n f = false -> 0 <= n ->
  1 <= f <= n /\
  forall k, ds1_mean_call divcast n junk x f k =
    if (0 <=? k) && (k <? n / f) then divcast (sumZ (group1 x f k)) f else junk k.
Proof. exact ds1_mean_call_spec. Qed.
Print Assumptions C14_decimate_1d_mean.

(** stats.downsample_1d, median path (crop, reshape(-1, f), reduce axis 1), any aggregate *)
Theorem C14_decimate_1d_numpy : forall agg x n f, 1 <= f -> 0 <= n ->
  ds1_median_len n f = n / f /\ forall i, ds1_median_model agg x n f i = agg (group1 x f i).
Proof. exact ds1_median_spec. Qed.
Print Assumptions C14_decimate_1d_numpy.

(** what the hook [divcast] stands for in the compiled kernels: float64 accumulator, a true division that is not replaced by
    a multiplication with the reciprocal (both read from the njit options by the translator, which refuses anything else);
    with the truncating store into uint8 a group whose mean is a whole number yields that number, any other the floor *)
Theorem C14_mean_kernel_options : ds_accumulator_is_f8 = true /\ ds_division_is_exact = true.
Proof. exact mean_kernel_options. Qed.
Print Assumptions C14_mean_kernel_options.

Theorem C14_integer_mean_exact : forall q f, 0 <= q < 256 -> 1 <= f -> divcast_u8 (q * f) f = q.
Proof. exact divcast_u8_exact. Qed.
Print Assumptions C14_integer_mean_exact.

Theorem C14_integer_mean_floor : forall t f, 1 <= f -> 0 <= t < 256 * f ->
  divcast_u8 t f = t / f /\ f * (t / f) <= t < f * (t / f + 1).
Proof. exact divcast_u8_floor. Qed.
Print Assumptions C14_integer_mean_floor.

(** * Decimation of a block *)

(** kernels.downsample_2d_mean_flat for every dim1, dim2 >= 0, factors >= 1, [dim2] the fastest axis: exactly the positions
    [0, (dim1/f1)(dim2/f2)) are written, entry k = (k / nd2, k mod nd2) is divcast(sum of rows i f1 .. i f1 + f1 - 1 and
    columns j f2 .. j f2 + f2 - 1, f1 f2) *)
Theorem C14_decimate_2d_flat_kernel : forall divcast junk x f1 f2 dim1 dim2, 1 <= f1 -> 1 <= f2 -> 0 <= dim1 -> 0 <= dim2 ->
  forall k, downsample_2d_mean_flat_run divcast junk x f1 f2 dim1 dim2 k =
    if (0 <=? k) && (k <? (dim1 / f1) * (dim2 / f2))
    then divcast (sumZ (group2 x dim2 f1 f2 (k / (dim2 / f2)) (k mod (dim2 / f2)))) (f1 * f2) else junk k.
Proof. exact ds2_kernel_spec. Qed.
Print Assumptions C14_decimate_2d_flat_kernel.

Theorem C14_decimate_2d_in_bounds : forall f1 f2 dim1 dim2 i j a b, 1 <= f1 -> 1 <= f2 -> 0 <= dim1 -> 0 <= dim2 ->
  0 <= i < dim1 / f1 -> 0 <= j < dim2 / f2 -> 0 <= a < f1 -> 0 <= b < f2 ->
  0 <= i * f1 + a < dim1 / f1 * f1 /\ dim1 / f1 * f1 <= dim1 /\
  0 <= j * f2 + b < dim2 / f2 * f2 /\ dim2 / f2 * f2 <= dim2 /\
  0 <= dim2 * (i * f1 + a) + (j * f2 + b) < dim1 * dim2.
Proof. exact ds2_reads_in_bounds. Qed.
Print Assumptions C14_decimate_2d_in_bounds.

(** every output position is written by exactly one (i, j) iteration *)
Theorem C14_decimate_2d_written_once : forall c i j i' j', 0 <= j < c -> 0 <= j' < c -> c * i + j = c * i' + j' -> i = i' /\ j = j'.
Proof. exact ds2_write_index_inj. Qed.
Print Assumptions C14_decimate_2d_written_once.
Theorem C14_decimate_2d_written_all : forall c n k, 0 <= k < n * c -> 0 <= n ->
  0 <= k / c < n /\ 0 <= k mod c < c /\ c * (k / c) + k mod c = k.
Proof. exact ds2_write_index_onto. Qed.
Print Assumptions C14_decimate_2d_written_all.

Theorem C14_decimate_2d_remainder_dropped : forall divcast junk x x' f1 f2 dim1 dim2, 1 <= f1 -> 1 <= f2 -> 0 <= dim1 -> 0 <= dim2 ->
  (forall r c, 0 <= r < dim1 / f1 * f1 -> 0 <= c < dim2 / f2 * f2 -> x (dim2 * r + c) = x' (dim2 * r + c)) ->
  forall k, downsample_2d_mean_flat_run divcast junk x f1 f2 dim1 dim2 k = downsample_2d_mean_flat_run divcast junk x' f1 f2 dim1 dim2 k.
Proof. exact ds2_ignores_remainder. Qed.
Print Assumptions C14_decimate_2d_remainder_dropped.

(** stats.downsample_2d_flat, mean: arguments reach the kernel in its own order *)
Theorem C14_decimate_2d_flat_mean : forall divcast junk x n f1 f2 dim1 dim2, ds2f_rejects n f1 f2 dim1 dim2 = false -> 0 <= dim1 -> 0 <= dim2 ->
  1 <= f1 /\ 1 <= f2 /\ n = dim1 * dim2 /\
  forall k, ds2f_mean_call divcast junk x f1 f2 dim1 dim2 k =
    if (0 <=? k) && (k <? (dim1 / f1) * (dim2 / f2))
    then divcast (sumZ (group2 x dim2 f1 f2 (k / (dim2 / f2)) (k mod (dim2 / f2)))) (f1 * f2) else junk k.
Proof. exact ds2f_mean_call_spec. Qed.
Print Assumptions C14_decimate_2d_flat_mean.

(** stats.downsample_2d (both methods): shape (dim1/f1, dim2/f2), entry (i, j) is the aggregate of group (i, j) *)
Theorem C14_decimate_2d : forall agg x dim1 dim2 f1 f2 i j, 1 <= f1 -> 1 <= f2 -> 0 <= i -> 0 <= j < dim2 / f2 ->
  (let '(s0, _, s2, _) := ds2_shape dim1 dim2 f1 f2 in (s0, s2)) = (dim1 / f1, dim2 / f2) /\
  ds2_model agg x dim1 dim2 f1 f2 i j = agg (group2 x dim2 f1 f2 i j).
Proof. exact ds2_model_spec. Qed.
Print Assumptions C14_decimate_2d.

Theorem C14_decimate_2d_flat_numpy : forall agg x f1 f2 dim1 dim2 k, 1 <= f1 -> 1 <= f2 -> 0 <= dim1 -> 0 <= dim2 ->
  0 <= k < (dim1 / f1) * (dim2 / f2) ->
  ds2f_median_model agg x f1 f2 dim1 dim2 k = agg (group2 x dim2 f1 f2 (k / (dim2 / f2)) (k mod (dim2 / f2))).
Proof. exact ds2f_median_spec. Qed.
Print Assumptions C14_decimate_2d_flat_numpy.

(** the flat kernel and the 2-D path give rows and columns the same roles *)
Theorem C14_flat_agrees_with_2d : forall divcast junk x f1 f2 dim1 dim2 k, 1 <= f1 -> 1 <= f2 -> 0 <= dim1 -> 0 <= dim2 ->
  0 <= k < (dim1 / f1) * (dim2 / f2) ->
  ds2f_mean_call divcast junk x f1 f2 dim1 dim2 k =
  ds2_model (fun l => divcast (sumZ l) (f1 * f2)) x dim1 dim2 f1 f2 (k / (dim2 / f2)) (k mod (dim2 / f2)).
Proof. exact ds2_flat_agrees_2d. Qed.
Print Assumptions C14_flat_agrees_with_2d.

(** FilterbankBlock.downsample: groups of [ffactor] channels (rows) by [tfactor] samples (columns) *)
Theorem C14_block_downsample : forall agg x nchans nsamps ff tf i j, 1 <= ff -> 1 <= tf -> 0 <= i -> 0 <= j < nsamps / tf ->
  block_downsample_model agg x nchans nsamps ff tf i j = agg (group2 x nsamps ff tf i j).
Proof. exact block_downsample_spec. Qed.
Print Assumptions C14_block_downsample.

(** shape of the result (nchans / ffactor, nsamps / tfactor), and the incomplete last channel group / time group is never used *)
Theorem C14_block_downsample_shape : forall nchans nsamps ff tf,
  (let '(f1, f2) := block_downsample_factors ff tf in
   let '(s0, _, s2, _) := ds2_shape nchans nsamps f1 f2 in (s0, s2)) = (nchans / ff, nsamps / tf).
Proof. exact block_downsample_shape. Qed.
Print Assumptions C14_block_downsample_shape.

Theorem C14_block_downsample_remainder_dropped : forall agg x x' nchans nsamps ff tf i j, 1 <= ff -> 1 <= tf -> 0 <= nsamps ->
  0 <= i < nchans / ff -> 0 <= j < nsamps / tf ->
  (forall r c, 0 <= r < nchans / ff * ff -> 0 <= c < nsamps / tf * tf -> x (nsamps * r + c) = x' (nsamps * r + c)) ->
  block_downsample_model agg x nchans nsamps ff tf i j = block_downsample_model agg x' nchans nsamps ff tf i j.
Proof. exact block_downsample_ignores_remainder. Qed.
Print Assumptions C14_block_downsample_remainder_dropped.

(** * TimeSeries.downsample: call site (regenerated from timeseries.py) -> stats.downsample_1d -> mean kernel / NumPy median path *)

(** accepted exactly for 1 <= factor <= nsamples *)
Theorem C14_timeseries_downsample_accepts : forall n f, 1 <= n -> (ts_downsample_rejects n f = false <-> 1 <= f <= n).
Proof. exact ts_downsample_accepts. Qed.
Print Assumptions C14_timeseries_downsample_accepts.

(** mean: the result has nsamples / factor samples, sample k is divcast(sum of x[k f .. k f + f), f), nothing else of the fresh
    buffer is written; the `factor == 1 -> return self` shortcut agrees with this because the mean of one sample is that sample *)
Theorem C14_timeseries_downsample_mean : forall divcast n junk x f, (forall t, divcast t 1 = t) -> 1 <= f <= n ->
  ts_downsample_rejects n f = false /\ (ts_downsample_len n f = n / f) /\
  (forall k, 0 <= k < n / f -> ts_downsample_mean_model divcast n junk x f k = divcast (sumZ (group1 x f k)) f) /\
  (f <> 1 -> forall k, ~ 0 <= k < n / f -> ts_downsample_mean_model divcast n junk x f k = junk k).
Proof. exact ts_downsample_mean_spec. Qed.
Print Assumptions C14_timeseries_downsample_mean.

(** median (any aggregate that maps a one-sample group to that sample) *)
Theorem C14_timeseries_downsample_numpy : forall agg n x f, (forall v, agg [v] = v) -> 1 <= f <= n ->
  (ts_downsample_len n f = n / f) /\ forall i, ts_downsample_median_model agg x n f i = agg (group1 x f i).
Proof. exact ts_downsample_median_spec. Qed.
Print Assumptions C14_timeseries_downsample_numpy.

(** the trailing partial group x[(n/f) f ..] is dropped: it cannot influence any sample of the result, whichever method *)
Theorem C14_timeseries_downsample_remainder_dropped : forall divcast agg n junk x x' f,
  (forall t, divcast t 1 = t) -> (forall v, agg [v] = v) -> 1 <= f <= n ->
  (forall t, 0 <= t < n / f * f -> x t = x' t) ->
  forall k, 0 <= k < n / f ->
    ts_downsample_mean_model divcast n junk x f k = ts_downsample_mean_model divcast n junk x' f k /\
    ts_downsample_median_model agg x n f k = ts_downsample_median_model agg x' n f k.
Proof. exact ts_downsample_ignores_remainder. Qed.
Print Assumptions C14_timeseries_downsample_remainder_dropped.

(** factor 1 is the identity, for every length and every hook *)
Theorem C14_timeseries_downsample_factor1 : forall divcast agg n junk x,
  ts_downsample_len n 1 = n /\
  (forall k, ts_downsample_mean_model divcast n junk x 1 k = x k) /\
  (forall k, ts_downsample_median_model agg x n 1 k = x k).
Proof. exact ts_downsample_factor1. Qed.
Print Assumptions C14_timeseries_downsample_factor1.

(** * Linear detrending (exact arithmetic; float rounding is not modelled) *)

(** for every length m >= 1 the output satisfies both normal equations of the straight-line fit ... *)
Theorem C14_detrend_normal_equations : forall m arr, 1 <= m ->
  (sumQ (Z.to_nat m) (detrend_1d_run m arr) == 0)%Q /\
  (sumQ (Z.to_nat m) (fun i => inject_Z i * detrend_1d_run m arr i) == 0)%Q.
Proof. exact detrend_normal_equations. Qed.
Print Assumptions C14_detrend_normal_equations.

(** ... it is the input minus a straight line ... *)
Theorem C14_detrend_line_residual : forall m arr, 1 <= m ->
  exists s c, forall k, 0 <= k < m -> (detrend_1d_run m arr k == arr k - (s * inject_Z k + c))%Q.
Proof. exact detrend_is_line_residual. Qed.
Print Assumptions C14_detrend_line_residual.

(** ... and no straight line leaves a smaller sum of squares: it is the least-squares residual *)
Theorem C14_detrend_least_squares : forall m arr a b, 1 <= m ->
  (sumQ (Z.to_nat m) (fun k => detrend_1d_run m arr k * detrend_1d_run m arr k) <=
   sumQ (Z.to_nat m) (fun k => (arr k - (a * inject_Z k + b)) * (arr k - (a * inject_Z k + b))))%Q.
Proof. exact detrend_least_squares. Qed.
Print Assumptions C14_detrend_least_squares.

(** ** Record of the pinned tree (frozen copy of its translation, Model/C14_pinned.v); see findings.d/C14.md *)
Theorem C14_detrend_pinned_partial : forall (cast : Q -> Q) m arr, (forall q, cast q == q)%Q ->
  2 <= m -> m * (m - 1) * (2 * m - 1) < 2 ^ 63 ->
  (sumQ (Z.to_nat m) (detrend_1d_pinned cast m arr) == 0)%Q /\
  (sumQ (Z.to_nat m) (fun i => inject_Z i * detrend_1d_pinned cast m arr i) == 0)%Q.
Proof. exact detrend_pinned_partial. Qed.
Print Assumptions C14_detrend_pinned_partial.

Theorem C14_detrend_pinned_int64_refuted : exists m arr, 2 <= m /\
  ~ (sumQ (Z.to_nat m) (fun i => inject_Z i * detrend_1d_pinned (fun q => q) m arr i) == 0)%Q.
Proof. exact detrend_pinned_int64_refuted. Qed.
Print Assumptions C14_detrend_pinned_int64_refuted.

Theorem C14_detrend_pinned_uint8_refuted : exists m arr, 2 <= m /\ (forall k, 0 <= k < m -> (cast_u8 (arr k) == arr k)%Q) /\
  ~ (sumQ (Z.to_nat m) (detrend_1d_pinned cast_u8 m arr) == 0)%Q.
Proof. exact detrend_pinned_uint8_refuted. Qed.
Print Assumptions C14_detrend_pinned_uint8_refuted.

(** * Non-vacuity *)

(** the hypothesis on the moving function is satisfiable (the trailing-window function itself), and the model computes
    the expected running sums for an odd width, an even width and a width larger than twice the data *)
Example C14_moving_hypothesis_satisfiable : forall agg a len w t, 1 <= w -> w - 1 <= t < len ->
  move_trailing agg a len w t = agg (trailing a w t).
Proof. exact move_trailing_spec. Qed.

Example C14_running_example :
  to_list 4 (running_filter_model (move_trailing sumZ) (of_list [1; 2; 3; 4]) 4 3) = [4; 6; 9; 11] /\
  to_list 4 (running_filter_model (move_trailing sumZ) (of_list [1; 2; 3; 4]) 4 4) = [6; 7; 10; 13] /\
  to_list 4 (running_filter_model (move_trailing sumZ) (of_list [1; 2; 3; 4]) 4 11) = [31; 29; 26; 24] /\
  centred_window (of_list [1; 2; 3; 4]) 4 4 0 = [2; 1; 1; 2] /\
  running_filter_len 4 11 = 4.
Proof. vm_compute. repeat split; reflexivity. Qed.

(** the mean kernels on concrete arrays (divcast := floor division, junk := -1 everywhere): remainders dropped, nothing
    else written; a 3 x 5 block by (2, 2): one output row, two output columns *)
Example C14_decimate_example :
  to_list 4 (downsample_1d_mean_run Z.div 7 (fun _ => -1) (of_list [1; 2; 3; 4; 5; 6; 100]) 3) = [2; 5; -1; -1] /\
  to_list 3 (downsample_2d_mean_flat_run Z.div (fun _ => -1) (of_list [1; 3; 5; 7; 100;  5; 7; 9; 11; 100;  100; 100; 100; 100; 100]) 2 2 3 5) = [4; 8; -1] /\
  ds1_rejects 7 3 = false /\ ds1_rejects 7 8 = true /\ ds2f_rejects 15 2 2 3 5 = false /\
  ds2_model sumZ (of_list [1; 3; 5; 7; 100;  5; 7; 9; 11; 100;  100; 100; 100; 100; 100]) 3 5 2 2 0 1 = 32 /\
  block_downsample_model sumZ (of_list [1; 2; 3; 4; 5; 6]) 2 3 2 1 0 2 = 9.
Proof. vm_compute. repeat split; reflexivity. Qed.

(** pads (8, 7) around 3 samples: NumPy's loop needs three steps (after the first, 5 and 4 positions are still to fill; after
    the second, 0 and 0 only because the chunk grew to 9), the buffer is np.pad([1, 2, 3], (8, 7), 'symmetric') and no
    uninitialised (-7) position is left; a window of 16 on 3 samples gives exactly these pads *)
Example C14_numpy_symmetric_pad_example :
  to_list 18 (np_pad_symmetric_array (fun _ => -7) (of_list [1; 2; 3]) 3 8 7) = [2; 1; 1; 2; 3; 3; 2; 1; 1; 2; 3; 3; 2; 1; 1; 2; 3; 3] /\
  (let '(_, lp, rp) := np_reflect_step 3 18 (np_pad_init (fun _ => -7) (of_list [1; 2; 3]) 3 8, 8, 7) in (lp, rp)) = (5, 4) /\
  to_list 18 (pad_sym (of_list [1; 2; 3]) 3 8) = [2; 1; 1; 2; 3; 3; 2; 1; 1; 2; 3; 3; 2; 1; 1; 2; 3; 3] /\
  (rf_pad_left 16, rf_pad_right 16) = (8, 7) /\
  to_list 6 (np_pad_symmetric_array (fun _ => -7) (of_list [5]) 1 2 3) = [5; 5; 5; 5; 5; 5].
Proof. vm_compute. repeat split; reflexivity. Qed.

(** TimeSeries.downsample: the hypotheses on the hooks are satisfiable (floor division / exact numerator, sum), and the model
    on a concrete 7-sample series: factor 3 -> two samples and an untouched buffer, factor 1 -> the series, factor 7 -> one
    sample, factors 0 and 8 refused; the block model on a 3 x 5 block by (2, 2) has shape (1, 2) *)
Example C14_timeseries_downsample_hooks : (forall t, Z.div t 1 = t) /\ (forall t, divcast_num t 1 = t) /\ (forall v, sumZ [v] = v).
Proof. exact ts_hooks_satisfiable. Qed.

Example C14_timeseries_downsample_example :
  to_list 4 (ts_downsample_mean_model Z.div 7 (fun _ => -1) (of_list [1; 2; 3; 4; 5; 6; 100]) 3) = [2; 5; -1; -1] /\
  to_list 7 (ts_downsample_mean_model Z.div 7 (fun _ => -1) (of_list [1; 2; 3; 4; 5; 6; 100]) 1) = [1; 2; 3; 4; 5; 6; 100] /\
  to_list 2 (ts_downsample_mean_model Z.div 7 (fun _ => -1) (of_list [1; 2; 3; 4; 5; 6; 100]) 7) = [17; -1] /\
  to_list 2 (ts_downsample_median_model sumZ (of_list [1; 2; 3; 4; 5; 6; 100]) 7 3) = [6; 15] /\
  ts_downsample_len 7 3 = 2 /\ ts_downsample_len 7 1 = 7 /\
  ts_downsample_rejects 7 0 = true /\ ts_downsample_rejects 7 8 = true /\ ts_downsample_rejects 7 7 = false /\ ts_downsample_rejects 7 1 = false /\
  (let '(f1, f2) := block_downsample_factors 2 2 in let '(s0, _, s2, _) := ds2_shape 3 5 f1 f2 in (s0, s2)) = (1, 2).
Proof. vm_compute. repeat split; reflexivity. Qed.

(** detrending [1; 2; 4] leaves [1/6; -1/3; 1/6] *)
Example C14_detrend_example :
  map Qred (map (detrend_1d_run 3 (fun k => inject_Z (nth (Z.to_nat k) [1; 2; 4] 0))) [0; 1; 2]) = [(1 # 6)%Q; (-1 # 3)%Q; (1 # 6)%Q].
Proof. vm_compute. reflexivity. Qed.
