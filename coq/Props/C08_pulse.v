(** C08, extension: the block returned by readers.PulseExtractor.get_data describes the file samples it claims to.
    Subject: Gen/Pulse.v (regenerated from the property methods of PulseExtractor, the body of get_data and BaseBlock.pad_samples).
    [disp_delay] (the largest DM delay plus five pulse widths) is an input here; the delays themselves are C09.
    With (tdec, bdel, ns, nst, nstf, nsf, toa_block) = px_geom toa pw dd mn N  (decimation step, half width, block length, first
    sample, first sample read, samples read, position of the pulse in the block): *)
From Coq Require Import ZArith List Bool.
Import ListNotations.
Require Import SPP.Base.Rt SPP.Gen.Pulse SPP.Proofs.C08_pulse.
Open Scope Z_scope.

Theorem C08_pulse_geometry : forall toa pw dd mn N, 0 <= dd ->
  px_geom toa pw dd mn N = (tdec pw, bdel pw dd, ns pw dd mn, nst toa pw dd mn, nstf toa pw dd mn, nsf toa pw dd mn N, toa - nst toa pw dd mn) /\
  1 <= tdec pw /\ ns pw dd mn mod tdec pw = 0 /\ dd < bdel pw dd /\ 2 * bdel pw dd <= ns pw dd mn /\
  (** the pulse is at the centre sample, and the block covers the dispersion sweep on both sides of it *)
  toa - nst toa pw dd mn = ns pw dd mn / 2 /\ 0 <= ns pw dd mn / 2 < ns pw dd mn /\
  nst toa pw dd mn <= toa - dd - 1 /\ toa + dd < nst toa pw dd mn + ns pw dd mn.
Proof. intros toa pw dd mn N Hdd. split; [apply geom_eq|]. split; [apply tdec_pos|]. split; [apply ns_mult|]. split; [apply bdel_gt; exact Hdd|].
  split; [apply ns_ge|]. destruct (toa_block toa pw dd mn Hdd) as [A B]. destruct (covers toa pw dd mn Hdd) as [C D]. auto. Qed.
Print Assumptions C08_pulse_geometry.

(** whenever the block overlaps the file: the read is in range and non-empty, the padded copy fits (neither read_block nor the slice
    assignment of pad_samples can fail), the returned row has exactly [ns] samples (header nsamples = data shape), and sample k of the
    block is file sample nst + k wherever that lies inside the file and the pad value everywhere else -- nothing is shifted or repeated *)
Theorem C08_pulse_block : forall toa pw dd mn N, 0 <= dd -> 1 <= N ->
  0 < nst toa pw dd mn + ns pw dd mn -> nst toa pw dd mn < N ->
  (0 <= nstf toa pw dd mn /\ 1 <= nsf toa pw dd mn N /\ nstf toa pw dd mn + nsf toa pw dd mn N <= N /\
   0 <= px_offset (nst toa pw dd mn) /\ px_offset (nst toa pw dd mn) + nsf toa pw dd mn N <= ns pw dd mn) /\
  forall x padv,
    snd (px_get_row x padv toa pw dd mn N) = ns pw dd mn /\
    (forall k, 0 <= k < ns pw dd mn ->
       fst (px_get_row x padv toa pw dd mn N) k =
       if (0 <=? nst toa pw dd mn + k) && (nst toa pw dd mn + k <? N) then x (nst toa pw dd mn + k) else padv) /\
    (0 <= toa < N -> fst (px_get_row x padv toa pw dd mn N) (ns pw dd mn / 2) = x toa).
Proof. intros toa pw dd mn N Hdd HN Hlo Hhi. split; [apply read_ok; assumption|]. intros x padv.
  destruct (get_row_spec toa pw dd mn N Hdd HN Hlo Hhi x padv) as [L S]. split; [exact L|]. split; [exact S|].
  apply centre_is_toa; assumption. Qed.
Print Assumptions C08_pulse_block.

(** tstart of the returned block refers to the sample in its first column: read_block(start = nstart_file) advances tstart by nstart_file
    samples and, when the block is padded, pad_samples(offset) moves it back by the leading pad (C08_block_pad_samples in Props/C08.v) *)
Theorem C08_pulse_header_sample : forall toa pw dd mn N,
  (if px_pad_cond (nst toa pw dd mn) (ns pw dd mn) N then nstf toa pw dd mn - px_offset (nst toa pw dd mn) else nstf toa pw dd mn) = nst toa pw dd mn.
Proof. exact header_sample. Qed.
Print Assumptions C08_pulse_header_sample.

(** non-vacuity: a pulse 3 samples into a 40-sample file, width 4, sweep 9: block of 20 samples starting at -7, padded in front *)
Example C08_pulse_example :
  px_geom 3 4 9 2 40 = (2, 10, 20, -7, 0, 13, 10) /\
  to_list 20 (fst (px_get_row (fun k => 100 + k) 55 3 4 9 2 40)) = [55;55;55;55;55;55;55; 100;101;102;103;104;105;106;107;108;109;110;111;112]%list /\
  snd (px_get_row (fun k => 100 + k) 55 3 4 9 2 40) = 20.
Proof. vm_compute. repeat split; reflexivity. Qed.
