(** C18 -- PSRFITS reads are position independent and agree with the SIGPROC path.
    Subject: Model/C18_PFits.v (hand glue: concatenate rows, slice, reshape test, iterate the plan) over
    Gen/C18Pfits.v and Gen/Plan.v.pfits_plan, both REGENERATED on every run from readers.py (PFITSReader.read_block,
    read_plan), io/pfits.py (read_subints, read_subint_pol, read_subint) and header.py (Header.from_pfits).
    [F] ranges over ALL files: any number of rows (sub-integrations) of any length NSBLK, any NPOL/NCHAN, any samples,
    scales, offsets, weights, either channel order.  Results are time-major: element t of [read_block F start n] is
    column t of FilterbankBlock.data; [wf F] says the sizes are positive, NSTOT fits and the layout is one the reader can
    read at all ([file_status F = None]: the property's "opens and can read in full").

    The three verdict theorems are dichotomies decided by proof search on the arithmetic read from the source today
    (flag [true]: the property clause for ALL files and requests; flag [false]: a concrete counterexample of the
    faithful model); the check reports the flags.  Theorems named _partial hold whatever the verdict. *)
From Coq Require Import ZArith QArith List Bool.
Require Import SPP.Base.Rt SPP.Gen.Plan SPP.Gen.C18Pfits SPP.Model.Stream SPP.Model.Plan SPP.Model.C06_pipe SPP.Model.C18_PFits SPP.Model.C18_reduce
               SPP.Proofs.C01_plan SPP.Proofs.C06_reduce SPP.Proofs.C18_pfits SPP.Proofs.C18_reduce SPP.Proofs.C18_cards.
Import ListNotations.
Open Scope Z_scope.

(** ** the whole-file read and what it contains *)

(** the whole-file read succeeds and is the first NSTOT rows of the table *)
Theorem C18_whole_file : forall F, wf F -> whole F = ROk (pyslice (all_rows F) 0 (p_nstot F)) /\ lenr (pyslice (all_rows F) 0 (p_nstot F)) = p_nstot F.
Proof. exact whole_file. Qed.
Print Assumptions C18_whole_file.

(** sample t, delivered channel c: row t / NSBLK, position t mod NSBLK, file channel [chan_src] (reversed when the
    file's channels ascend), value = the polarisation combination of the scaled, offset and weighted samples *)
Theorem C18_element : forall F t c, wf F -> 0 <= t < p_nsub F * p_nsblk F -> 0 <= c < p_nchan F ->
  exists r, pyslice (all_rows F) t (t + 1) = [r] /\ lenr r = p_nchan F /\
    nth (Z.to_nat c) r 0 = pol_elem F (t / p_nsblk F) (t mod p_nsblk F) (chan_src (p_df F) (p_nchan F) c).
Proof. exact element. Qed.
Print Assumptions C18_element.

(** zero offset, then scale, then offset, then weight (weights are applied after the offsets) *)
Theorem C18_scale_offset_weight : forall raw z s o w, sub_value raw z s o w = ((raw - z) * s + o) * w.
Proof. exact sub_value_order. Qed.
Print Assumptions C18_scale_offset_weight.

(** Coherence: (pol0 + pol1) * scale; Stokes and Intensity: pol0; PPQQ: unsupported or as Coherence *)
Theorem C18_pol_value : forall csc v,
  pol_value 0 csc v = Some ((v 0 + v 1) * csc) /\ pol_value 1 csc v = Some (v 0) /\ pol_value 2 csc v = Some (v 0) /\
  (pol_value 3 csc v = None \/ pol_value 3 csc v = Some ((v 0 + v 1) * csc)).
Proof. exact pol_value_spec. Qed.
Print Assumptions C18_pol_value.

(** delivered channels are in descending-frequency order for both channel orders of the file *)
Theorem C18_descending : forall f0 df nchan c, df <> 0 -> 0 <= c -> c + 1 < nchan ->
  data_freq f0 df nchan (c + 1) < data_freq f0 df nchan c.
Proof. exact data_descending. Qed.
Print Assumptions C18_descending.

(** ** read_block *)

(** every in-range request, aligned or not, returns the corresponding columns of the whole-file read -- or a counterexample *)
Theorem C18_read_block_verdict : if rb_sound then RBSpec else RBRefuted.
Proof. exact rb_verdict. Qed.
Print Assumptions C18_read_block_verdict.

Theorem C18_read_block_refuted_is_violation : RBRefuted -> ~ RBSpec.
Proof. exact rb_refuted_not_spec. Qed.
Print Assumptions C18_read_block_refuted_is_violation.

(** whatever the verdict: a request whose computed sub-integrations cover it is answered correctly ... *)
Theorem C18_read_block_covered_partial : forall F start nsamps, wf F -> in_range F start nsamps -> rb_cov (p_nsub F) (p_nsblk F) start nsamps ->
  exists w, whole F = ROk w /\ read_block F start nsamps = ROk (pyslice w start (start + nsamps)).
Proof. exact read_block_covered_whole. Qed.
Print Assumptions C18_read_block_covered_partial.

(** ... in particular every request that begins on a sub-integration boundary *)
Theorem C18_read_block_aligned_partial : forall F start nsamps, wf F -> in_range F start nsamps -> start mod p_nsblk F = 0 ->
  exists w, whole F = ROk w /\ read_block F start nsamps = ROk (pyslice w start (start + nsamps)).
Proof. exact read_block_aligned. Qed.
Print Assumptions C18_read_block_aligned_partial.

(** a layout the reader rejects is rejected with the same error by the whole-file read (the property then says nothing) *)
Theorem C18_unreadable_whole : forall F e, 1 <= p_nsub F -> 1 <= p_nsblk F -> 1 <= p_nstot F <= p_nsub F * p_nsblk F ->
  file_status F = Some e -> whole F = RErr e.
Proof. exact unreadable_whole. Qed.
Print Assumptions C18_unreadable_whole.

(** ** read_plan *)

(** for every gulp and skipback below it the trace of blocks is the trace FilReader.read_plan (C01's model) delivers on the
    SIGPROC file holding the same samples -- or a counterexample *)
Theorem C18_plan_verdict : if plan_sound_flag then PlanSpec else PlanRefuted.
Proof. exact plan_verdict. Qed.
Print Assumptions C18_plan_verdict.

Theorem C18_plan_refuted_is_violation : PlanRefuted -> ~ PlanSpec.
Proof. exact plan_refuted_not_spec. Qed.
Print Assumptions C18_plan_refuted_is_violation.

(** what PlanSpec gives: each requested sample exactly once, in order, block sizes and indices right *)
Theorem C18_plan_sound : PlanSpec -> forall F g0 start nsamps s0, wf F -> in_range F start nsamps -> 1 <= g0 -> Z.abs s0 < Z.min nsamps g0 ->
  exists bl, pf_run_plan F g0 start nsamps s0 = TOk bl /\
    stitch (Z.abs s0 * p_nchan F) bl = concat (pyslice (all_rows F) start (start + nsamps)) /\
    Forall (block_ok (p_nchan F) g0) bl /\
    map (fun b => snd (fst b)) bl = zrange (len (map (fun _ => 0) bl)).
Proof. exact plan_spec_stitch. Qed.
Print Assumptions C18_plan_sound.

(** whatever the verdict: the glue is right -- if the regenerated plan arithmetic meets C01's plan_facts and the regenerated
    loop body reads exactly the block, the property holds *)
Theorem C18_plan_cond_partial : PlanArith -> BodyArith -> PlanSpec.
Proof. exact plan_sound_cond. Qed.
Print Assumptions C18_plan_cond_partial.

(** whatever the verdict: one block (gulp >= nsamps) from a sub-integration boundary is delivered correctly *)
Theorem C18_plan_one_block_aligned_partial : forall F g0 start n, wf F -> in_range F start n -> n <= g0 -> start mod p_nsblk F = 0 ->
  plan_good F g0 start n 0.
Proof. exact plan_one_block_aligned. Qed.
Print Assumptions C18_plan_one_block_aligned_partial.

(** ** reductions: collapse and bandpass over the PSRFITS reader = over the SIGPROC file with the same samples = their definitions (C06) *)
Theorem C18_collapse_same : PlanSpec -> forall F gulp start nsamps, wf F -> in_range F start nsamps -> 1 <= gulp ->
  pf_collapse_pipe F gulp start nsamps = collapse_pipe (sigproc_of F) (p_nchan F) gulp start nsamps /\
  exists out, pf_collapse_pipe F gulp start nsamps = Some out /\
    forall t, 0 <= t < nsamps -> out t = chansum (sigproc_of F) (p_nchan F) (start + t).
Proof. exact collapse_same. Qed.
Print Assumptions C18_collapse_same.

Theorem C18_bandpass_same : PlanSpec -> forall F gulp start nsamps, wf F -> in_range F start nsamps -> 1 <= gulp ->
  pf_bandpass_pipe F gulp start nsamps = bandpass_pipe (sigproc_of F) (p_nchan F) gulp start nsamps /\
  exists out n, pf_bandpass_pipe F gulp start nsamps = Some (out, n) /\ n = nsamps /\
    forall c, 0 <= c < p_nchan F -> out c = chancol (sigproc_of F) (p_nchan F) start c (Z.to_nat nsamps).
Proof. exact bandpass_same. Qed.
Print Assumptions C18_bandpass_same.

(** ** header labels: fch1 + c * foff is the frequency of delivered channel c -- or a counterexample *)
Theorem C18_labels_verdict : if label_sound then LabelSpec else LabelRefuted.
Proof. exact label_verdict. Qed.
Print Assumptions C18_labels_verdict.

Theorem C18_labels_refuted_is_violation : LabelRefuted -> ~ LabelSpec.
Proof. exact label_refuted_not_spec. Qed.
Print Assumptions C18_labels_refuted_is_violation.

Theorem C18_labels_descending_partial : forall f0 df nchan c, df < 0 -> 0 <= c < nchan -> label_freq f0 df nchan c = data_freq f0 df nchan c.
Proof. exact label_descending. Qed.
Print Assumptions C18_labels_descending_partial.

(** ** optional arguments of read_plan *)
(** nsamps = None: every sample from [start] to the end of the file exactly once, in order, for every gulp and skipback of either sign *)
Theorem C18_plan_default_nsamps : PlanSpec -> forall F g0 start s0, wf F -> 0 <= start < p_nstot F -> 1 <= g0 -> Z.abs s0 < Z.min (p_nstot F - start) g0 ->
  exists bl, pf_run_plan_default F g0 start s0 = TOk bl /\
    stitch (Z.abs s0 * p_nchan F) bl = concat (pyslice (all_rows F) start (p_nstot F)) /\
    Forall (block_ok (p_nchan F) g0) bl /\
    map (fun b => snd (fst b)) bl = zrange (len (map (fun _ => 0) bl)).
Proof. exact plan_default_stitch. Qed.
Print Assumptions C18_plan_default_nsamps.

(** a negative skipback is the same request as its magnitude *)
Theorem C18_plan_skipback_sign : forall F g0 start nsamps s0, pf_run_plan F g0 start nsamps (- s0) = pf_run_plan F g0 start nsamps s0.
Proof. exact plan_skipback_sign_all. Qed.
Print Assumptions C18_plan_skipback_sign.

(** ** optional cards: no NSTOT card = every sample of the table (the whole-file read is the whole table); no ZERO_OFF card = zero offset 0 *)
Theorem C18_no_nstot_card : forall F, wf F -> p_nstot F = hdr_nstot None (p_nsblk F) (p_nsub F) -> whole F = ROk (all_rows F).
Proof. exact no_nstot_whole. Qed.
Print Assumptions C18_no_nstot_card.
Theorem C18_no_zero_off_card : forall raw s o w, sub_value raw (hdr_zero_off None) s o w = (raw * s + o) * w.
Proof. exact no_zero_off. Qed.
Print Assumptions C18_no_zero_off_card.
Theorem C18_cards_present : forall n z nsblk nsub, hdr_nstot (Some n) nsblk nsub = n /\ hdr_zero_off (Some z) = z.
Proof. exact cards_present. Qed.
Print Assumptions C18_cards_present.

(** ** fractional ZERO_OFF = zn/dz, DAT_SCL = sn/ds, DAT_OFFS = on/(dz*ds), DAT_WTS = wn/dw (any rationals have this form): the value the
    rational decode delivers for (row, sample, channel) is exactly 1/(dz*ds*dw) of the value the integer file [scaled_file] (samples times
    dz, the numerators as scales / offsets / weights, same layout) delivers there -- so C18_whole_file, C18_element, the read_block and
    read_plan verdicts and the reduction theorems, which hold for every integer file, say where each fractional value lands *)
Theorem C18_fractional_element : forall F V dz ds dw zn sn on wn isub t c, dz <> 0 -> ds <> 0 -> dw <> 0 -> numerators V dz ds dw zn sn on wn ->
  match pol_elem_q F V (inject_Z (p_csc F)) isub t c,
        pol_value (p_state F) (p_csc F) (fun p => sub_elem (scaled_file F dz zn sn on wn) isub t p c) with
  | Some xq, Some x => (xq * inject_Z (dz * ds * dw) == inject_Z x)%Q /\ x = pol_elem (scaled_file F dz zn sn on wn) isub t c
  | None, None => True
  | _, _ => False
  end.
Proof. exact fractional_element. Qed.
Print Assumptions C18_fractional_element.
Theorem C18_fractional_layout : forall F dz zn sn on wn, wf F -> wf (scaled_file F dz zn sn on wn).
Proof. exact scaled_wf. Qed.
Print Assumptions C18_fractional_layout.

(** ** POL_TYPE: the spellings whose two polarisations are summed (times the factor), those whose first polarisation is taken, and
    for a spelling the table does not know the state follows NPOL *)
Theorem C18_pol_type_sum : forall card npol csc v, In card sum_spellings ->
  exists s, poln_state_of card npol = Some s /\ pol_value s csc v = Some ((v 0 + v 1) * csc).
Proof. exact pol_spellings_sum. Qed.
Print Assumptions C18_pol_type_sum.
Theorem C18_pol_type_first : forall card npol csc v, In card first_spellings ->
  exists s, poln_state_of card npol = Some s /\ pol_value s csc v = Some (v 0).
Proof. exact pol_spellings_first. Qed.
Print Assumptions C18_pol_type_first.
Theorem C18_pol_type_unknown : forall card npol csc v, ~ In card (map fst pol_table) ->
  (npol = 1 \/ npol = 4 -> exists s, poln_state_of card npol = Some s /\ pol_value s csc v = Some (v 0)) /\
  (npol = 2 -> exists s, poln_state_of card npol = Some s /\ pol_value s csc v = Some ((v 0 + v 1) * csc)).
Proof. exact pol_spellings_other. Qed.
Print Assumptions C18_pol_type_unknown.

(** ** non-vacuity *)
(** a readable file (2 rows x 2 samples x 4 polarisations x 2 descending channels, Stokes): the hypotheses are satisfiable;
    an aligned request starting on the second row; one block from the start; the same file with ascending channels is
    delivered with the channel axis reversed *)
Example C18_example :
  wf wit_file /\ in_range wit_file 2 2 /\
  whole wit_file = ROk [[0; 1]; [10; 11]; [20; 21]; [30; 31]] /\
  read_block wit_file 2 2 = ROk [[20; 21]; [30; 31]] /\
  plan_good wit_file 4 0 4 0 /\
  pf_run_plan wit_file 5 0 4 0 = TOk [(4, 0, [0; 1; 10; 11; 20; 21; 30; 31])] /\
  whole (mkpf 2 2 4 2 4 8 1 3 0 1 (p_raw wit_file) (fun _ _ => 1) (fun _ _ => 0) (fun _ _ => 1)) = ROk [[1; 0]; [11; 10]; [21; 20]; [31; 30]].
Proof. split; [exact wit_wf|]. split; [unfold in_range; cbn; repeat split; discriminate|].
  split; [vm_compute; reflexivity|]. split; [vm_compute; reflexivity|].
  split; [apply plan_one_block_aligned; [exact wit_wf|unfold in_range; cbn; repeat split; discriminate|discriminate|reflexivity]|].
  split; vm_compute; reflexivity. Qed.

(** the verdicts' counterexample files satisfy the hypotheses too *)
Example C18_witness_files : wf wit_file /\ wf wit_file3 /\ in_range wit_file 1 2 /\ in_range wit_file3 0 6.
Proof. split; [exact wit_wf|]. split; [exact wit3_wf|]. unfold in_range; cbn; repeat split; discriminate. Qed.

(** a total-intensity file is unreadable exactly while every unit axis is squeezed away *)
Example C18_single_pol : file_status wit_file_1pol = if keeps_unit_axes then None else Some PValueError.
Proof. exact one_pol_status. Qed.
Example C18_two_pol : file_status wit_file_2pol = None \/ file_status wit_file_2pol = Some PUnbound.
Proof. exact two_pol_status. Qed.

(** ** non-vacuity of the theorems on optional arguments, optional cards, fractional values and POL_TYPE *)
Require Coq.Strings.String.
Import String.
(** the new hypotheses are satisfiable: a default-nsamps plan from inside a row with a negative skipback; a file without NSTOT / ZERO_OFF
    cards; fractional values ZERO_OFF 7.5, DAT_SCL 0.25, DAT_OFFS -3.5, DAT_WTS 0.5 with their numerators; table spellings *)
Example C18_example_options :
  (wf wit_file /\ 0 <= 1 < p_nstot wit_file /\ Z.abs (-1) < Z.min (p_nstot wit_file - 1) 3) /\
  pf_run_plan_default wit_file 3 1 (-1) = TOk [(3, 0, [10; 11; 20; 21; 30; 31])] /\
  (wf wit_nostot /\ p_nstot wit_nostot = hdr_nstot None (p_nsblk wit_nostot) (p_nsub wit_nostot)) /\
  (numerators wit_qv 2 4 2 15 (fun _ _ => 1) (fun _ _ => -28) (fun _ _ => 1) /\
   pol_elem_q wit_file wit_qv 1 1 0 1 = Some (sub_value_q 21 (15 # 2) (1 # 4) ((-7) # 2) (1 # 2))) /\
  (In "LLRR"%string sum_spellings /\ In "INTEN"%string first_spellings /\ ~ In "IQUV"%string (map fst pol_table) /\
   poln_state_of "IQUV" 4 = Some 1 /\ poln_state_of "LLRRCRCI" 4 = Some 0).
Proof. split; [split; [exact wit_wf|exact wit_default_hyp]|]. split; [vm_compute; reflexivity|].
  split; [split; [exact wit_nostot_wf|reflexivity]|]. split; [split; [exact wit_numerators|reflexivity]|].
  split; [cbn; tauto|]. split; [cbn; tauto|]. split; [|split; reflexivity].
  cbn. intros H. repeat (destruct H as [H|H]; [discriminate H|]). exact H. Qed.

