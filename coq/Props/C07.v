(** C07 -- streaming file-to-file transforms equal their whole-array definitions.
    Subject: Model/C07_pipe.v = Model.Plan.run_plan (C01) o Gen.TransformSites per-block functions (regenerated from
    base.py: kernel call with its argument order, what is handed to FileWriter.cwrite and how many elements) o
    Gen.Kernels loop nests (regenerated from kernels.py).  The data section of the output is the concatenation of the
    emitted blocks.  [Sel fs nch start t c] = sample start+t, channel c of the input stream.
    Zero-DM removal: the data flow is proved over the integers (C07_remove_zerodm: the kernel uses only ring operations); float32 rounding and
    the reduction to the output depth ("within one quantisation level") are checked by the oracle. *)
From Coq Require Import ZArith List Bool.
Require Import SPP.Base.Rt SPP.Base.Iter SPP.Gen.Kernels SPP.Gen.Plan SPP.Gen.TransformSites SPP.Model.Stream SPP.Model.Plan SPP.Model.C07_pipe
               SPP.Model.C16_File SPP.Model.C14_filters SPP.Proofs.C02_stream SPP.Proofs.C01_plan SPP.Proofs.C06_reduce SPP.Proofs.C07_transforms SPP.Proofs.C07_zerodm SPP.Proofs.C07_batches.
Import ListNotations.
Open Scope Z_scope.

(** generic: any per-block function that maps a block of samples [s0, s0+len) (s0 a multiple of tf) to output rows
    [s0/tf, s0/tf + len/tf), streamed with a gulp that is a multiple of tf, yields rows [0, nsamps/tf) for every gulp *)
Theorem C07_stream_map : forall fs nch N gulp start nsamps tf,
  1 <= nfiles fs -> 1 <= nch -> SPP.Model.Stream.total fs = N * nch -> 0 <= start -> 1 <= nsamps -> start + nsamps <= N -> 1 <= gulp ->
  1 <= tf -> gulp mod tf = 0 -> forall f rowf,
  (forall s0 len_, 0 <= s0 -> s0 mod tf = 0 -> 1 <= len_ -> s0 + len_ <= nsamps ->
     emit (f len_ (of_list (slice (flat fs) ((start + s0) * nch) (len_ * nch)))) = flat_map rowf (zrange_from (s0 / tf) (len_ / tf))) ->
  stream_map f fs nch gulp start nsamps = Some (flat_map rowf (zrange (nsamps / tf))).
Proof. exact stream_map_spec. Qed.
Print Assumptions C07_stream_map.

Theorem C07_extract_samps : forall fs nch N gulp start nsamps,
  1 <= nfiles fs -> 1 <= nch -> SPP.Model.Stream.total fs = N * nch -> 0 <= start -> 1 <= nsamps -> start + nsamps <= N -> 1 <= gulp ->
  samps_pipe fs nch gulp start nsamps = Some (flat_map (fun t => map (Sel fs nch start t) (zrange nch)) (zrange nsamps)).
Proof. exact samps_spec. Qed.
Print Assumptions C07_extract_samps.

(** channel order reversed, independent of the uninitialised kernel buffer *)
Theorem C07_invert_freq : forall fs nch N gulp start nsamps,
  1 <= nfiles fs -> 1 <= nch -> SPP.Model.Stream.total fs = N * nch -> 0 <= start -> 1 <= nsamps -> start + nsamps <= N -> 1 <= gulp ->
  forall junk, invert_pipe fs nch gulp start nsamps junk =
    Some (flat_map (fun t => map (fun c => Sel fs nch start t (nch - 1 - c)) (zrange nch)) (zrange nsamps)).
Proof. exact invert_spec. Qed.
Print Assumptions C07_invert_freq.

Theorem C07_channel_mask : forall fs nch N gulp start nsamps,
  1 <= nfiles fs -> 1 <= nch -> SPP.Model.Stream.total fs = N * nch -> 0 <= start -> 1 <= nsamps -> start + nsamps <= N -> 1 <= gulp ->
  forall mask mv, mask_pipe fs nch gulp start nsamps mask mv =
    Some (flat_map (fun t => map (fun c => if masked mask c then mv else Sel fs nch start t c) (zrange nch)) (zrange nsamps)).
Proof. exact mask_spec. Qed.
Print Assumptions C07_channel_mask.

Theorem C07_extract_chans : forall fs nch N gulp start nsamps,
  1 <= nfiles fs -> 1 <= nch -> SPP.Model.Stream.total fs = N * nch -> 0 <= start -> 1 <= nsamps -> start + nsamps <= N -> 1 <= gulp ->
  forall chan, 0 <= chan < nch ->
  chans_pipe fs nch gulp start nsamps chan = Some (flat_map (fun t => [Sel fs nch start t chan]) (zrange nsamps)).
Proof. exact chans_spec. Qed.
Print Assumptions C07_extract_chans.

Theorem C07_extract_bands : forall fs nch N gulp start nsamps,
  1 <= nfiles fs -> 1 <= nch -> SPP.Model.Stream.total fs = N * nch -> 0 <= start -> 1 <= nsamps -> start + nsamps <= N -> 1 <= gulp ->
  forall chanstart cps iband, 1 <= cps -> 0 <= chanstart + iband * cps -> chanstart + iband * cps + cps <= nch ->
  bands_pipe fs nch gulp start nsamps chanstart cps iband =
    Some (flat_map (fun t => map (fun c => Sel fs nch start t (chanstart + iband * cps + c)) (zrange cps)) (zrange nsamps)).
Proof. exact bands_spec. Qed.
Print Assumptions C07_extract_bands.

Theorem C07_bands_count : forall nchans_sel cps, bands_count nchans_sel cps = nchans_sel / cps.
Proof. reflexivity. Qed.
Print Assumptions C07_bands_count.

(** block means: [divcast] is "true division then cast to the output dtype" (C14 fixes it for integer dtypes);
    floor(nsamps/tfactor) output rows, the incomplete remainder dropped, for every gulp *)
Theorem C07_downsample : forall fs nch N gulp start nsamps,
  1 <= nfiles fs -> 1 <= nch -> SPP.Model.Stream.total fs = N * nch -> 0 <= start -> 1 <= nsamps -> start + nsamps <= N -> 1 <= gulp ->
  forall divcast junk tf ff, 1 <= tf -> 1 <= ff -> nch mod ff = 0 ->
  downsample_pipe fs nch gulp start nsamps divcast junk tf ff =
    Some (flat_map (fun q => map (fun j => divcast (sumZ (dgroup fs nch start tf ff q j)) (tf * ff)) (zrange (nch / ff))) (zrange (nsamps / tf))).
Proof. exact downsample_spec. Qed.
Print Assumptions C07_downsample.

(** per-sub-band sums of delay-shifted channels; the accumulator is cleared before every block, so the result does not
    depend on what the buffer held; any gulp (gulp < 2*maxdelay, 2*maxdelay > nsamps included) *)
Theorem C07_subband : forall fs nch N gulp start nsamps md nsub delays,
  1 <= nfiles fs -> 1 <= nch -> SPP.Model.Stream.total fs = N * nch -> 0 <= start -> 1 <= nsamps -> start + nsamps <= N -> 1 <= gulp ->
  0 <= md < nsamps -> (forall c, 0 <= c < nch -> 0 <= delays c <= md) -> 1 <= nsub -> nch mod nsub = 0 ->
  forall junk, subband_pipe fs nch gulp start nsamps md nsub delays junk = Some (flat_map (subrow fs nch start nsub delays) (zrange (nsamps - md))).
Proof. exact subband_spec. Qed.
Print Assumptions C07_subband.

(** zero-DM removal: every output sample is x[t,c] - (sum over channels of x[t,.]) * chanwts[c] + bpass[c], for every gulp and whatever
    the output buffer (reused from block to block) held; no sample of another time step enters *)
Theorem C07_remove_zerodm : forall fs nch N gulp start nsamps,
  1 <= nfiles fs -> 1 <= nch -> SPP.Model.Stream.total fs = N * nch -> 0 <= start -> 1 <= nsamps -> start + nsamps <= N -> 1 <= gulp ->
  forall junk bp w, zerodm_pipe fs nch gulp start nsamps junk bp w =
    Some (flat_map (fun t => map (fun c => Sel fs nch start t c - zdm fs nch start t * w c + bp c) (zrange nch)) (zrange nsamps)).
Proof. exact zerodm_spec. Qed.
Print Assumptions C07_remove_zerodm.

(** the multi-file extractions open their output files in batches of batch_size ([batched], with batch_end / chans_batch_index / bands_batch_c0
    regenerated from base.py): the batching loops visit every file index exactly once, in order, for every batch size *)
Theorem C07_batches_enumerate : forall (A : Type) (g : Z -> A) n bs, 0 <= n -> 1 <= bs ->
  batched n bs (fun batch_start ifile => g (batch_start + ifile)) = map g (zrange n).
Proof. exact @batched_enum. Qed.
Print Assumptions C07_batches_enumerate.

(** extract_chans as a whole: file i of the returned list is the column of channel chans[i] of the selected samples -- for every gulp, sub-range,
    batch size, and every list of in-range channels (any length, any order, repetitions allowed) *)
Theorem C07_extract_chans_files : forall fs nch N gulp start nsamps,
  1 <= nfiles fs -> 1 <= nch -> SPP.Model.Stream.total fs = N * nch -> 0 <= start -> 1 <= nsamps -> start + nsamps <= N -> 1 <= gulp ->
  forall batch_size chans, 1 <= batch_size -> Forall (fun c => 0 <= c < nch) chans ->
  chans_files fs nch gulp start nsamps batch_size chans = map (fun chan => Some (flat_map (fun t => [Sel fs nch start t chan]) (zrange nsamps))) chans.
Proof. exact chans_files_spec. Qed.
Print Assumptions C07_extract_chans_files.

(** extract_bands as a whole: nchans/chanpersub files; file i holds channels [chanstart + i*chanpersub, chanstart + (i+1)*chanpersub) of the selected
    samples -- for every gulp, sub-range and batch size *)
Theorem C07_extract_bands_files : forall fs nch N gulp start nsamps,
  1 <= nfiles fs -> 1 <= nch -> SPP.Model.Stream.total fs = N * nch -> 0 <= start -> 1 <= nsamps -> start + nsamps <= N -> 1 <= gulp ->
  forall batch_size chanstart nchans_sel cps, 1 <= batch_size -> 1 <= cps -> 0 <= chanstart -> 0 <= nchans_sel -> chanstart + nchans_sel <= nch ->
  bands_files fs nch gulp start nsamps batch_size chanstart nchans_sel cps =
    map (fun iband => Some (flat_map (fun t => map (fun c => Sel fs nch start t (chanstart + iband * cps + c)) (zrange cps)) (zrange nsamps)))
        (zrange (nchans_sel / cps)).
Proof. exact bands_files_spec. Qed.
Print Assumptions C07_extract_bands_files.

(** non-vacuity of the batched extractions: 2 files, 6 samples x 4 channels, sub-range [1,4), gulp 2; three channels out of order in batches of 2;
    two bands of 2 channels from channel 0 in batches of 1, and a single band from channel 1 *)
Example C07_files_example :
  let fs := [mkfile [224] [1;2;3;4; 5;6;7;8]; mkfile [225] [9;10;11;12; 13;14;15;16; 17;18;19;20; 21;22;23;24]] in
  chans_files fs 4 2 1 3 2 [3;0;2] = [Some [8;12;16]; Some [5;9;13]; Some [7;11;15]] /\
  bands_files fs 4 2 1 3 1 0 4 2 = [Some [5;6; 9;10; 13;14]; Some [7;8; 11;12; 15;16]] /\
  bands_files fs 4 3 1 3 200 1 2 2 = [Some [6;7; 10;11; 14;15]] /\
  mask_pipe fs 4 2 1 3 (of_list [0;1;0;1]) 99 = Some [5;99;7;99; 9;99;11;99; 13;99;15;99] /\
  samps_pipe fs 4 2 1 3 = Some [5;6;7;8; 9;10;11;12; 13;14;15;16] /\
  batched 5 2 (fun b i => b + i) = [0;1;2;3;4].
Proof. vm_compute. repeat split; reflexivity. Qed.

(** non-vacuity: 2 files, 6 samples x 4 channels, sub-range [1,6) *)
Example C07_example :
  let fs := [mkfile [224] [1;2;3;4; 5;6;7;8]; mkfile [225] [9;10;11;12; 13;14;15;16; 17;18;19;20; 21;22;23;24]] in
  invert_pipe fs 4 2 1 3 (fun _ => 99) = Some [8;7;6;5; 12;11;10;9; 16;15;14;13] /\
  downsample_pipe fs 4 1 1 5 div_floor (fun _ => 99) 2 2 = Some [(5+6+9+10)/4; (7+8+11+12)/4; (13+14+17+18)/4; (15+16+19+20)/4] /\
  subband_pipe fs 4 2 1 5 1 2 (of_list [0;1;0;1]) (fun _ => 99) = Some [5+10; 7+12; 9+14; 11+16; 13+18; 15+20; 17+22; 19+24] /\
  zerodm_pipe fs 4 2 1 2 (fun _ => 99) (of_list [1;0;0;0]) (of_list [0;1;0;-1]) = Some [5+1; 6-26; 7; 8+26; 9+1; 10-42; 11; 12+42].
Proof. vm_compute. repeat split; reflexivity. Qed.
