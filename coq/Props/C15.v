(** C15 -- robust normalisation is finite, affine-equivariant and axis-consistent.
    Subject: the definitions REGENERATED from sigpyproc/core/stats.py and sigpyproc/utils.py (Gen/Stats.v) over the NumPy
    model Model/C15_np.v, exact rationals, with the materialising [nd_memo] that the correspondence run evaluates.
    External functions (np.sqrt, np.pi, np.std of a lane, astropy's biweight_scale of a lane, np.cov) are universally
    quantified.  Not covered by these theorems (numerical relation checks only): biweight and diffcov equivariance, float
    rounding, the float32 cast of estimate_zscore, np.isclose thresholds.
    This file holds for the tree with fixes/C15-*.diff applied; Pinned/C15_props.v is its counterpart for the tree without. *)
From Coq Require Import ZArith List Bool QArith Qcanon Qcabs Lia.
Require Import SPP.Base.Rt SPP.Model.C15_np SPP.Gen.Stats.
Require Import SPP.Proofs.C15_lib SPP.Proofs.C15_order SPP.Proofs.C15_rel SPP.Proofs.C15_view SPP.Proofs.C15_lanes
               SPP.Proofs.C15_lanes2 SPP.Proofs.C15_glue SPP.Proofs.C15_main SPP.Proofs.C15_fields.
Import ListNotations.
Open Scope Z_scope.

(** * |a|-equivariance.  [rel_of f X X'] : X' has the shape of X and X'[i] = f(X[i]) at every index.
    [lanes_nonempty A axis] : the lanes (or the whole array) that `axis` reduces over are not empty. *)

(** scale(a x + b) = |a| scale(x) for iqr, mad, qn, sn and the Gapper estimator, every shape, every axis (None or an int) *)
Theorem C15_scale_equivariant : forall np_sqrt np_pi biweight1 np_cov01 (a b : Qc) A axis,
  a <> Q2Qc 0 -> forall m F, In m [S_iqr; S_mad; S_qn; S_sn; S_gapper] -> scale_fn np_sqrt np_pi biweight1 np_cov01 m = Some F ->
  lanes_nonempty A axis ->
  rel_of (scale (Qcabs a)) (F A axis) (F (nd_map (affine a b) A) axis).
Proof. exact main_equivariant. Qed.
Print Assumptions C15_scale_equivariant.

(** doublemad (one scale per sample): |a|-equivariant at every sample, for either sign of a *)
Theorem C15_doublemad_equivariant : forall np_sqrt np_pi (a b : Qc) A axis, a <> Q2Qc 0 -> forall sh I,
  sh <> nil -> shape A = sh -> lanes_nonempty A axis -> length I = length sh ->
  rd (scale_doublemad np_sqrt np_pi nd_memo (nd_map (affine a b) A) axis) I
  = scale (Qcabs a) (rd (scale_doublemad np_sqrt np_pi nd_memo A axis) I).
Proof. exact main_doublemad_equivariant. Qed.
Print Assumptions C15_doublemad_equivariant.

(** std: the variance (np.std squared) is multiplied by a^2; hence any non-negative root by |a| *)
Theorem C15_variance_equivariant : forall (a b : Qc) A axis kd, lanes_nonempty A axis ->
  rel_of (scale (a * a)) (np_reduce var1 A axis kd) (np_reduce var1 (nd_map (affine a b) A) axis kd).
Proof. exact main_var_equivariant. Qed.
Print Assumptions C15_variance_equivariant.
Theorem C15_std_equivariant : forall (a b : Qc) l s s', l <> nil -> (Q2Qc 0 <= s)%Qc -> (Q2Qc 0 <= s')%Qc ->
  (s * s = var1 l)%Qc -> (s' * s' = var1 (map (affine a b) l))%Qc -> s' = scale (Qcabs a) s.
Proof. exact std_affine. Qed.
Print Assumptions C15_std_equivariant.

(** the two location estimators follow the affine map *)
Theorem C15_loc_equivariant : forall (a b : Qc) A axis, a <> Q2Qc 0 -> forall kd, lanes_nonempty A axis ->
  rel_of (affine a b) (np_reduce median1 A axis kd) (np_reduce median1 (nd_map (affine a b) A) axis kd) /\
  rel_of (affine a b) (np_reduce mean1 A axis kd) (np_reduce mean1 (nd_map (affine a b) A) axis kd).
Proof. exact main_loc_equivariant. Qed.
Print Assumptions C15_loc_equivariant.

(** * lanes.  [axis_of sh k0] is the axis number as NumPy normalises it; [lane A k I] the 1-D section of A through I. *)

(** computing along an axis = the same estimator on each lane (as a 1-D array, axis=None): all 7 non-std scalar methods *)
Theorem C15_lanes_axis : forall np_sqrt np_pi biweight1 np_cov01 sh A, sh <> nil -> shape A = sh ->
  forall k0 I0, in_range sh I0 -> 1 <= nth (axis_of sh k0) sh 0 ->
  forall m F, scale_fn np_sqrt np_pi biweight1 np_cov01 m = Some F ->
  shape (F A (Some k0)) = remove_nth (axis_of sh k0) sh /\
  get (F A (Some k0)) (remove_nth (axis_of sh k0) I0) = get (F (of_vec (lane A (axis_of sh k0) I0)) None) nil.
Proof. exact main_lane. Qed.
Print Assumptions C15_lanes_axis.

(** over the whole array (axis=None) = the estimator of the flattened data *)
Theorem C15_lanes_flat : forall np_sqrt np_pi biweight1 np_cov01 sh A, sh <> nil -> shape A = sh -> all_idx sh <> nil ->
  forall m F, scale_fn np_sqrt np_pi biweight1 np_cov01 m = Some F ->
  shape (F A None) = nil /\ get (F A None) nil = get (F (of_vec (ravel A)) None) nil.
Proof. exact main_flat. Qed.
Print Assumptions C15_lanes_flat.

(** doublemad keeps the shape of the data; along a lane / over the whole array it is the 1-D estimator *)
Theorem C15_doublemad_lanes_axis : forall np_sqrt np_pi sh A, sh <> nil -> shape A = sh ->
  forall k0 I0, in_range sh I0 -> 1 <= nth (axis_of sh k0) sh 0 -> forall j, 0 <= j < nth (axis_of sh k0) sh 0 ->
  shape (scale_doublemad np_sqrt np_pi nd_memo A (Some k0)) = sh /\
  get (scale_doublemad np_sqrt np_pi nd_memo A (Some k0)) (set_nth (axis_of sh k0) j I0)
  = get (scale_doublemad np_sqrt np_pi nd_memo (of_vec (lane A (axis_of sh k0) I0)) None) (j :: nil).
Proof. exact main_doublemad_lane. Qed.
Print Assumptions C15_doublemad_lanes_axis.
Theorem C15_doublemad_lanes_flat : forall np_sqrt np_pi sh A, sh <> nil -> shape A = sh ->
  forall j, 0 <= j < Z.of_nat (length (all_idx sh)) ->
  shape (scale_doublemad np_sqrt np_pi nd_memo A None) = sh /\
  get (scale_doublemad np_sqrt np_pi nd_memo A None) (nth (Z.to_nat j) (all_idx sh) nil)
  = get (scale_doublemad np_sqrt np_pi nd_memo (of_vec (ravel A)) None) (j :: nil).
Proof. exact main_doublemad_flat. Qed.
Print Assumptions C15_doublemad_lanes_flat.

(** NumPy's own reductions (np.median / np.mean / np.std as used by estimate_loc and estimate_scale 'std') *)
Theorem C15_reduce_lanes : forall sh A, sh <> nil -> shape A = sh -> forall k0 I0, in_range sh I0 ->
  forall f j, 0 <= j < nth (axis_of sh k0) sh 0 ->
  (shape (np_reduce f A (Some k0) false) = remove_nth (axis_of sh k0) sh /\
   get (np_reduce f A (Some k0) false) (remove_nth (axis_of sh k0) I0) = f (lane A (axis_of sh k0) I0)) /\
  (shape (np_reduce f A (Some k0) true) = set_nth (axis_of sh k0) 1 sh /\ bc sh (shape (np_reduce f A (Some k0) true)) /\
   rd (np_reduce f A (Some k0) true) (set_nth (axis_of sh k0) j I0) = f (lane A (axis_of sh k0) I0)).
Proof. exact main_reduce_lane. Qed.
Print Assumptions C15_reduce_lanes.

(** * estimate_scale(keepdims=True): the result broadcasts against the input ([bc sh s]: s is a scalar shape, or has the rank
    of sh and every dimension 1 or equal), and every sample reads what estimate_scale returns for its lane *)
Theorem C15_keepdims_axis : forall np_sqrt np_pi np_std1 biweight1 np_cov01 sh A m F, sh <> nil -> shape A = sh ->
  scale_fn np_sqrt np_pi biweight1 np_cov01 m = Some F ->
  forall k0 I0, in_range sh I0 -> - Z.of_nat (length sh) <= k0 < Z.of_nat (length sh) ->
  let k := axis_of sh k0 in 1 <= nth k sh 0 ->
  exists B v, estimate_scale np_sqrt np_pi np_std1 biweight1 np_cov01 nd_memo A m (Some k0) true = Some B /\
              shape B = set_nth k 1 sh /\ bc sh (shape B) /\
              estimate_scale np_sqrt np_pi np_std1 biweight1 np_cov01 nd_memo (of_vec (lane A k I0)) m None false = Some (scalar v) /\
              forall j, 0 <= j < nth k sh 0 -> rd B (set_nth k j I0) = v.
Proof. exact main_keepdims_axis. Qed.
Print Assumptions C15_keepdims_axis.

Theorem C15_keepdims_none : forall np_sqrt np_pi np_std1 biweight1 np_cov01 sh A m F, sh <> nil -> shape A = sh ->
  scale_fn np_sqrt np_pi biweight1 np_cov01 m = Some F -> all_idx sh <> nil ->
  exists B v, estimate_scale np_sqrt np_pi np_std1 biweight1 np_cov01 nd_memo A m None true = Some B /\
              shape B = map (fun _ => 1) sh /\ bc sh (shape B) /\
              estimate_scale np_sqrt np_pi np_std1 biweight1 np_cov01 nd_memo (of_vec (ravel A)) m None false = Some (scalar v) /\
              forall I, length I = length sh -> rd B I = v.
Proof. exact main_keepdims_none. Qed.
Print Assumptions C15_keepdims_none.

(** * Z-scores.  The zero-scale guard: the divisor is strictly positive at every sample, so every Z-score is the quotient
    (sample - location) / divisor of rationals with a non-zero denominator; the result has the shape of the data. *)
Theorem C15_zscore_finite : forall np_sqrt np_pi np_std1 biweight1 np_cov01 sh data lm sm axis loc scale I,
  sh <> nil -> shape data = sh ->
  (if loc_method_eqb lm L_norm then Some (const1 (qz 0)) else estimate_loc data lm axis true) = Some loc ->
  (if scale_method_eqb sm S_norm then Some (const1 (qz 1))
   else estimate_scale np_sqrt np_pi np_std1 biweight1 np_cov01 nd_memo data sm axis true) = Some scale ->
  bc sh (shape loc) -> bc sh (shape scale) -> in_range sh I ->
  exists z s, estimate_zscore np_sqrt np_pi np_std1 biweight1 np_cov01 nd_memo data lm sm axis = Some (z, nd_memo loc, s) /\
    (Q2Qc 0 < rd s I)%Qc /\ rd z I = ((rd data I - rd loc I) / rd s I)%Qc /\ shape z = sh.
Proof. exact main_zscore_finite. Qed.
Print Assumptions C15_zscore_finite.

(** Z-scores of a x + b: when the location follows the map and the scale is multiplied by |a| (theorems above), the guard
    fires at the same samples; where it does not fire the Z-score is multiplied by a/|a| = sign(a).  Where it fires (zero
    scale: unit scale on both sides, as the property prescribes) the Z-score is multiplied by a. *)
Theorem C15_zscore_equivariant : forall (np_sqrt : Qc -> Qc) sh (a b : Qc) data data' loc loc' sc sc' axis I,
  a <> Q2Qc 0 -> sh <> nil -> shape data = sh -> bc sh (shape loc) -> bc sh (shape sc) -> in_range sh I ->
  rel_of (affine a b) data data' -> rel_of (affine a b) loc loc' -> rel_of (scale (Qcabs a)) sc sc' ->
  let '(z, _, s) := ztail nd_memo data loc sc axis in
  let '(z', _, s') := ztail nd_memo data' loc' sc' axis in
  let fired := Qcleb (rd sc I) (rd (nd_memo (np_mul (scalar float32_tiny) (np_reduce max1 (np_abs (nd_memo (np_sub data loc))) axis true))) I) in
  (rd s' I = if fired then qz 1 else scale (Qcabs a) (rd s I)) /\
  (fired = false -> rd z' I = (a / Qcabs a * rd z I)%Qc) /\ (fired = true -> rd z' I = (a * rd z I)%Qc).
Proof. exact (fun np_sqrt => zscore_equivariant np_sqrt nd_memo memo_ok_nd_memo). Qed.
Print Assumptions C15_zscore_equivariant.

(** * the other two fields of the result (ZScoreResult.loc, .scale), along an axis: the location returned is the location of the
    lane; the divisor returned is what estimate_scale returns for the lane as a 1-D array, or 1; it is 1, and the Z-scores are
    x - loc, when that estimate is zero; both broadcast against the data.  ([loc_fn]: median / mean.) *)
Theorem C15_zscore_fields_axis : forall np_sqrt np_pi np_std1 biweight1 np_cov01 sh A m F lm f k0 I0,
  sh <> nil -> shape A = sh -> scale_fn np_sqrt np_pi biweight1 np_cov01 m = Some F -> loc_fn lm = Some f ->
  in_range sh I0 -> - Z.of_nat (length sh) <= k0 < Z.of_nat (length sh) -> let k := axis_of sh k0 in 1 <= nth k sh 0 ->
  exists z l s v, estimate_zscore np_sqrt np_pi np_std1 biweight1 np_cov01 nd_memo A lm m (Some k0) = Some (z, l, s) /\
    estimate_scale np_sqrt np_pi np_std1 biweight1 np_cov01 nd_memo (of_vec (lane A k I0)) m None false = Some (scalar v) /\
    bc sh (shape l) /\ bc sh (shape s) /\ shape z = sh /\
    forall j, 0 <= j < nth k sh 0 -> let I := set_nth k j I0 in
      rd l I = f (lane A k I0) /\ (rd s I = qz 1 \/ rd s I = v) /\ (Q2Qc 0 < rd s I)%Qc /\
      rd z I = ((rd A I - f (lane A k I0)) / rd s I)%Qc /\
      (v = qz 0 -> rd s I = qz 1 /\ rd z I = (rd A I - f (lane A k I0))%Qc).
Proof. exact main_zscore_fields_axis. Qed.
Print Assumptions C15_zscore_fields_axis.

(** the same over the whole array (axis=None): location and divisor of the flattened data *)
Theorem C15_zscore_fields_none : forall np_sqrt np_pi np_std1 biweight1 np_cov01 sh A m F lm f,
  sh <> nil -> shape A = sh -> scale_fn np_sqrt np_pi biweight1 np_cov01 m = Some F -> loc_fn lm = Some f -> all_idx sh <> nil ->
  exists z l s v, estimate_zscore np_sqrt np_pi np_std1 biweight1 np_cov01 nd_memo A lm m None = Some (z, l, s) /\
    estimate_scale np_sqrt np_pi np_std1 biweight1 np_cov01 nd_memo (of_vec (ravel A)) m None false = Some (scalar v) /\
    bc sh (shape l) /\ bc sh (shape s) /\ shape z = sh /\
    forall I, in_range sh I ->
      rd l I = f (ravel A) /\ (rd s I = qz 1 \/ rd s I = v) /\ (Q2Qc 0 < rd s I)%Qc /\
      rd z I = ((rd A I - f (ravel A)) / rd s I)%Qc /\
      (v = qz 0 -> rd s I = qz 1 /\ rd z I = (rd A I - f (ravel A))%Qc).
Proof. exact main_zscore_fields_none. Qed.
Print Assumptions C15_zscore_fields_none.

(** a sample whose scale estimate is zero, under x -> a x + b: unit divisor on both sides, Z-scores x - loc and a (x - loc) *)
Theorem C15_zscore_zero_scale_affine : forall (np_sqrt : Qc -> Qc) sh (a b : Qc) data data' loc loc' sc sc' axis I,
  a <> Q2Qc 0 -> sh <> nil -> shape data = sh -> bc sh (shape loc) -> bc sh (shape sc) -> in_range sh I ->
  rel_of (affine a b) data data' -> rel_of (affine a b) loc loc' -> rel_of (scale (Qcabs a)) sc sc' ->
  rd sc I = qz 0 ->
  let '(z, _, s) := ztail nd_memo data loc sc axis in
  let '(z', _, s') := ztail nd_memo data' loc' sc' axis in
  rd s I = qz 1 /\ rd s' I = qz 1 /\ rd z I = (rd data I - rd loc I)%Qc /\ rd z' I = (a * (rd data I - rd loc I))%Qc.
Proof. exact (zscore_zero_scale_affine nd_memo memo_ok_nd_memo). Qed.
Print Assumptions C15_zscore_zero_scale_affine.

(** the 'norm' methods on 1-D data: scale method 'norm' divides by 1 (Z-scores x - loc, for every location method); location
    method 'norm' returns a location that reads 0.  PARTIAL: 1-D data only (np.ones(1) against data of rank >= 2 is outside [bc]). *)
Theorem C15_zscore_norm_1d_partial : forall np_sqrt np_pi np_std1 biweight1 np_cov01 n A lm axis loc I, shape A = n :: nil ->
  (if loc_method_eqb lm L_norm then Some (const1 (qz 0)) else estimate_loc A lm axis true) = Some loc ->
  bc (n :: nil) (shape loc) -> in_range (n :: nil) I ->
  exists z s, estimate_zscore np_sqrt np_pi np_std1 biweight1 np_cov01 nd_memo A lm S_norm axis = Some (z, nd_memo loc, s) /\
    rd s I = qz 1 /\ rd z I = (rd A I - rd loc I)%Qc /\ shape z = n :: nil /\ (lm = L_norm -> rd (nd_memo loc) I = qz 0).
Proof. exact main_zscore_norm_1d_partial. Qed.
Print Assumptions C15_zscore_norm_1d_partial.

(** estimate_scale(keepdims=False) along an axis: the per-lane estimates in the input's shape without the reduced axis; a single lane
    comes back as a scalar holding that lane's estimate *)
Theorem C15_nokeepdims_axis : forall np_sqrt np_pi np_std1 biweight1 np_cov01 sh A m F k0 I0,
  sh <> nil -> shape A = sh -> scale_fn np_sqrt np_pi biweight1 np_cov01 m = Some F -> in_range sh I0 ->
  let k := axis_of sh k0 in 1 <= nth k sh 0 ->
  exists B, estimate_scale np_sqrt np_pi np_std1 biweight1 np_cov01 nd_memo A m (Some k0) false = Some B /\
    (size (F A (Some k0)) = 1 -> shape B = nil /\ get B nil = get (F (of_vec (lane A k I0)) None) nil) /\
    (size (F A (Some k0)) <> 1 -> shape B = remove_nth k sh /\ get B (remove_nth k I0) = get (F (of_vec (lane A k I0)) None) nil).
Proof. exact main_nokd_axis. Qed.
Print Assumptions C15_nokeepdims_axis.

(** * non-vacuity *)
Definition exA : nd := nd_of_list [2; 3] (qz 1 :: qz 5 :: qz 2 :: qz 4 :: qz 0 :: qz 9 :: nil).
(** the hypotheses of the lane theorems are met by a 2 x 3 array, axis 0, lane through (1, 2) *)
Example C15_ex_hyps : [2; 3] <> nil /\ shape exA = [2; 3] /\ in_range [2; 3] [1; 2] /\ 1 <= nth (axis_of [2; 3] 0) [2; 3] 0 /\
  all_idx [2; 3] <> nil /\ lanes_nonempty exA (Some 0) /\ lanes_nonempty exA None /\ lane exA (axis_of [2; 3] 0) [1; 2] = qz 2 :: qz 9 :: nil.
Proof. repeat split; try discriminate; try (cbn; lia); try reflexivity; try (intro idx; apply lane_nonempty_dim; cbn; lia). Qed.
(** ... and the statements say what one expects on it: mad along axis 0 with keepdims has shape (1, 3); its column 2 is the
    mad of (2, 9); 2 x + 1 doubles it; the Z-score guard turns a zero scale into 1 *)
Example C15_ex_values :
  let est := estimate_scale approx_sqrt approx_pi std1 (fun _ => qz 0) cov01 nd_memo in
  let zsc := estimate_zscore approx_sqrt approx_pi std1 (fun _ => qz 0) cov01 nd_memo in
  (match est exA S_mad (Some 0) true, est (of_vec (qz 2 :: qz 9 :: nil)) S_mad None false,
         est (nd_map (affine (qz 2) (qz 1)) exA) S_mad (Some 0) true with
   | Some B, Some v, Some B2 => shape_eqb (shape B) [1; 3] && Qceqb (get B [0; 2]) (item v) && Qceqb (get B2 [0; 2]) (qz 2 * item v)%Qc
                                && negb (Qceqb (item v) (qz 0))
   | _, _, _ => false end) = true /\
  (match zsc (nd_of_list [1; 3] (qz 4 :: qz 4 :: qz 4 :: nil)) L_median S_mad (Some 1) with
   | Some (z, _, s) => Qceqb (get s [0; 0]) (qz 1) && Qceqb (get z [0; 1]) (qz 0) | None => false end) = true.
Proof. vm_compute. split; reflexivity. Qed.

(** the hypotheses of the field / norm / keepdims=False theorems are met: exA, axis 0, mad + median; a 1-D array with 'norm' *)
Example C15_ex_fields_hyps :
  scale_fn approx_sqrt approx_pi (fun _ => qz 0) cov01 S_mad = Some (scale_mad approx_sqrt approx_pi nd_memo) /\ loc_fn L_median = Some median1 /\
  - Z.of_nat (length [2; 3]) <= 0 < Z.of_nat (length [2; 3]) /\ size (scale_mad approx_sqrt approx_pi nd_memo exA (Some 0)) <> 1 /\
  (if loc_method_eqb L_norm L_norm then Some (const1 (qz 0)) else estimate_loc (of_vec (qz 1 :: qz 5 :: nil)) L_norm None true) = Some (const1 (qz 0)) /\
  bc (2 :: nil) (shape (const1 (qz 0))) /\ in_range (2 :: nil) (1 :: nil).
Proof. split; [reflexivity|]. split; [reflexivity|]. split; [cbn; lia|]. split; [intro H; vm_compute in H; discriminate|].
  split; [reflexivity|]. split; [right; constructor; [now left|constructor]|]. cbn. lia. Qed.
(** ... and they say what one expects.  exB: row 0 is heavily tied (IQR 0, a zero scale estimate with non-zero deviations), row 1
    is not.  iqr + median along axis 1: the location field is the median of each row; the divisor field is 1 on row 0 and the IQR
    scale on row 1; row 0 of the Z-scores is x - median, and under x -> -3 x + 1 it is -3 (x - median); the keepdims=False result
    has shape (2,).  A small-amplitude array (multiples of 2^-30) under a = 2^-6: the MAD scale is multiplied by 2^-6 and is not 0. *)
Definition exB : nd := nd_of_list [2; 8] (map qz [2; 2; 2; 2; 2; 2; 2; 9;  1; 5; 2; 4; 0; 9; 7; 3]).
Definition exT : nd := nd_map (fun x => x * qfrac 1 1073741824)%Qc exA.
Example C15_ex_fields_values :
  let est := estimate_scale approx_sqrt approx_pi std1 (fun _ => qz 0) cov01 nd_memo in
  let zsc := estimate_zscore approx_sqrt approx_pi std1 (fun _ => qz 0) cov01 nd_memo in
  (match zsc exB L_median S_iqr (Some 1), zsc (nd_map (affine (qz (-3)) (qz 1)) exB) L_median S_iqr (Some 1), est exB S_iqr (Some 1) false with
   | Some (z, l, s), Some (z', _, s'), Some B =>
       shape_eqb (shape l) [2; 1] && shape_eqb (shape s) [2; 1] && shape_eqb (shape B) [2] &&
       Qceqb (get l [0; 0]) (qz 2) && Qceqb (get l [1; 0]) (qfrac 7 2) &&
       Qceqb (get s [0; 0]) (qz 1) && Qceqb (get s' [0; 0]) (qz 1) && Qceqb (get s [1; 0]) (get B [1]) && negb (Qceqb (get B [1]) (qz 0)) &&
       Qceqb (get B [0]) (qz 0) && Qceqb (get z [0; 7]) (qz 7) && Qceqb (get z' [0; 7]) (qz (-21)) && Qceqb (get z [0; 0]) (qz 0)
   | _, _, _ => false end) = true /\
  (match zsc (of_vec (qz 1 :: qz 5 :: nil)) L_norm S_norm (Some 0) with
   | Some (z, l, s) => Qceqb (get z [1]) (qz 5) && Qceqb (get l [0]) (qz 0) && Qceqb (get s [0]) (qz 1) | None => false end) = true /\
  (match est exT S_mad (Some 0) true, est (nd_map (affine (qfrac 1 64) (qz 0)) exT) S_mad (Some 0) true with
   | Some B, Some B2 => Qceqb (get B2 [0; 2]) (Qcmult (qfrac 1 64) (get B [0; 2])) && negb (Qceqb (get B [0; 2]) (qz 0)) && Qcltb (get B2 [0; 2]) (qdec 1 8)
   | _, _ => false end) = true.
Proof. vm_compute. repeat split; reflexivity. Qed.

(** axis=None and the single-lane case: the hypotheses are met (exA is not empty; a 1 x 8 array reduced along axis 1 has one lane) ... *)
Definition exC : nd := nd_of_list [1; 8] (map qz [1; 5; 2; 4; 0; 9; 7; 3]).
Definition exD : nd := nd_of_list [2; 4] (map qz [2; 2; 2; 2; 2; 2; 9; 2]).
Example C15_ex_none_hyps :
  all_idx [2; 3] <> nil /\ in_range [2; 3] [1; 2] /\ shape exC = [1; 8] /\ in_range [1; 8] [0; 3] /\ 1 <= nth (axis_of [1; 8] 1) [1; 8] 0 /\
  size (scale_mad approx_sqrt approx_pi nd_memo exC (Some 1)) = 1.
Proof. split; [discriminate|]. split; [cbn; lia|]. split; [reflexivity|]. split; [cbn; lia|]. split; [vm_compute; intro H; discriminate|]. vm_compute. reflexivity. Qed.
(** ... and the statements say what one expects: over the whole of exA (mad + median, axis=None) the location field has shape (1, 1) and
    reads the median 3 of the six values, the divisor field reads the MAD scale of the flattened data; over the heavily tied exD
    (iqr, axis=None) the estimate is 0, the divisor 1 and the Z-scores x - median; the single lane of exC comes back as a scalar
    equal to the estimate of that lane as a 1-D array, which is not 0 *)
Example C15_ex_none_values :
  let est := estimate_scale approx_sqrt approx_pi std1 (fun _ => qz 0) cov01 nd_memo in
  let zsc := estimate_zscore approx_sqrt approx_pi std1 (fun _ => qz 0) cov01 nd_memo in
  (match zsc exA L_median S_mad None, est (of_vec (ravel exA)) S_mad None false with
   | Some (z, l, s), Some v => shape_eqb (shape l) [1; 1] && shape_eqb (shape s) [1; 1] && Qceqb (get l [0; 0]) (qz 3) &&
                               Qceqb (get s [0; 0]) (item v) && negb (Qceqb (item v) (qz 0)) && shape_eqb (shape z) [2; 3]
   | _, _ => false end) = true /\
  (match zsc exD L_median S_iqr None, est (of_vec (ravel exD)) S_iqr None false with
   | Some (z, l, s), Some v => Qceqb (item v) (qz 0) && Qceqb (get s [0; 0]) (qz 1) && Qceqb (get z [1; 2]) (qz 7) && Qceqb (get z [0; 0]) (qz 0)
   | _, _ => false end) = true /\
  (match est exC S_mad (Some 1) false, est (of_vec (map qz [1; 5; 2; 4; 0; 9; 7; 3])) S_mad None false with
   | Some B, Some v => shape_eqb (shape B) [] && Qceqb (get B []) (item v) && negb (Qceqb (item v) (qz 0))
   | _, _ => false end) = true.
Proof. vm_compute. repeat split; reflexivity. Qed.
