(** C08, extension.  Only property theorems, each closed by [exact] of a lemma of Proofs/C08_ext.v; subjects regenerated into
    Gen/C08.v from the current source (header sites of TimeSeries.normalise / apply_boxcar / deredden / correlate and
    BaseBlock.normalise, the shift Filterbank.dedisperse / subband apply to their delays, the columns kernels.roll_block_valid
    keeps) plus the hand model [fileset] of a set of two files (Model/C08_spec.v, tied by the correspondence). *)
From Coq Require Import ZArith QArith Qround Qabs Qminmax String List Bool.
Require Import SPP.Model.C08_rt SPP.Model.C08_spec SPP.Gen.C08 SPP.Proofs.C08_pinned SPP.Proofs.C08_ext.
Import ListNotations.
Open Scope Z_scope.

(** ===== the DM recorded by the input is carried by every product that does not dedisperse ==================== *)
(** (read_block: C08_read_block_consistent; collapse / read_chan set 0, dedisperse / subband / get_tim / to_file record the DM
    applied: Props/C08.v) *)
Theorem C08_dm_carried_readers : forall h,
  (forall start nsamps dm, h_dm (hdr_read_dedisp_block h start nsamps dm) == h_dm h)%Q /\
  (forall start nsamps b, h_dm (hdr_bandpass h start nsamps b) == h_dm h)%Q.
Proof. exact dm_carried_readers. Qed.
Print Assumptions C08_dm_carried_readers.

Theorem C08_dm_carried_files : forall h,
  (forall start, h_dm (hdr_invert_freq h start) == h_dm h)%Q /\
  (forall start, h_dm (hdr_apply_channel_mask h start) == h_dm h)%Q /\
  (forall tf ff start, h_dm (hdr_downsample h tf ff start) == h_dm h)%Q /\
  (forall start nsamps, h_dm (hdr_extract_samps h start nsamps) == h_dm h)%Q /\
  (forall chan start, h_dm (hdr_extract_chans h chan start) == h_dm h)%Q /\
  (forall chanstart cps batch_start i start, h_dm (hdr_extract_bands h chanstart cps batch_start i start) == h_dm h)%Q /\
  (forall nbits_out start, h_dm (hdr_requantize h nbits_out start) == h_dm h)%Q /\
  (forall start, h_dm (hdr_remove_zerodm h start) == h_dm h)%Q.
Proof. exact dm_carried_files. Qed.
Print Assumptions C08_dm_carried_files.

(** blocks: the header's dm AND the block's own dm attribute [d] (downsample; normalise / pad_samples through _new_like) *)
Theorem C08_dm_carried_blocks : forall h d,
  (forall n off, h_dm (hdr_block_pad_samples h n off) == h_dm h)%Q /\
  (forall ff tf, h_dm (hdr_block_downsample h ff tf d) == h_dm h /\ cdm_block_downsample h ff tf d == d)%Q /\
  (h_dm (hdr_block_normalise h) == h_dm h)%Q /\ (cdm_block_new_like d == d)%Q /\
  (forall dm n, h_dm (hdr_block_dedisperse h dm n) == h_dm h)%Q.
Proof. exact dm_carried_blocks. Qed.
Print Assumptions C08_dm_carried_blocks.

Theorem C08_dm_carried_series : forall h,
  (forall factor n, h_dm (hdr_ts_downsample h factor n) == h_dm h)%Q /\
  (forall n, h_dm (hdr_ts_pad h n) == h_dm h)%Q /\ (forall n, h_dm (hdr_ts_resample h n) == h_dm h)%Q /\
  (forall n, h_dm (hdr_ts_correlate h n) == h_dm h)%Q /\ (h_dm (hdr_ts_to_tim h) == h_dm h)%Q.
Proof. exact dm_carried_series. Qed.
Print Assumptions C08_dm_carried_series.
(** non-vacuity: a header that records a DM *)
Definition hD : Hdr := mkHdr 8 8 100 1500 (- (1 # 10)) (64 # 1000000) 58000 (25 # 2) 1.
Example C08_dm_carried_nonvacuous :
  (h_dm (hdr_downsample hD 2 2 10) == 25 # 2)%Q /\ (h_dm (hdr_requantize hD 2 7) == 25 # 2)%Q /\ (h_dm (hdr_ts_pad hD 105) == 25 # 2)%Q /\
  (h_dm (hdr_block_pad_samples hD 120 7) == 25 # 2)%Q /\ ~ (h_dm hD == 0)%Q.
Proof. repeat split; try (vm_compute; reflexivity). vm_compute. discriminate. Qed.

(** ===== TimeSeries / block methods that hand the header on unchanged ========================================= *)
Theorem C08_unchanged_headers : forall h,
  hdr_ts_normalise h = h /\ hdr_ts_apply_boxcar h = h /\ hdr_ts_deredden h = h /\ hdr_block_normalise h = h.
Proof. exact unchanged_headers. Qed.
Print Assumptions C08_unchanged_headers.

Theorem C08_ts_correlate : forall h n, let h' := hdr_ts_correlate h n in
  h_nsamples h' = n /\ h_nchans h' = h_nchans h /\ (h_tsamp h' == h_tsamp h)%Q /\ (h_dm h' == h_dm h)%Q.
Proof. exact ts_correlate_hdr. Qed.
Print Assumptions C08_ts_correlate.

Theorem C08_ts_pad_resample : forall h n,
  (h_nsamples (hdr_ts_pad h n) = n /\ (h_tsamp (hdr_ts_pad h n) == h_tsamp h)%Q /\ (h_tstart (hdr_ts_pad h n) == h_tstart h)%Q) /\
  (h_nsamples (hdr_ts_resample h n) = n /\ (h_tsamp (hdr_ts_resample h n) == h_tsamp h)%Q /\ (h_tstart (hdr_ts_resample h n) == h_tstart h)%Q).
Proof. exact ts_pad_resample_hdr. Qed.
Print Assumptions C08_ts_pad_resample.

(** ===== dispersion delays of either sign (ascending band, negative DM) ======================================= *)
(** dmin, dmax: the extreme delays as get_dmdelays returns them.  Every delay is referred to the earliest channel (so none
    is negative), the largest becomes the spread when some delay was negative, and the output loses exactly that many samples *)
Theorem C08_delays_referred : forall dmin dmax, dmin <= dmax ->
  (forall d, dmin <= d <= dmax -> 0 <= d - delay_shift dmin <= max_delay_referred dmin dmax) /\
  (0 <= dmin -> delay_shift dmin = 0 /\ max_delay_referred dmin dmax = dmax) /\
  (dmin <= 0 -> delay_shift dmin = dmin /\ max_delay_referred dmin dmax = dmax - dmin).
Proof. exact delays_referred. Qed.
Print Assumptions C08_delays_referred.

Theorem C08_dedisperse_either_sign : forall h dm start nsamps b dmin dmax, dmin <= dmax ->
  let md := max_delay_referred dmin dmax in let h' := hdr_dedisperse h dm start nsamps b md in
  0 <= md /\ h_nsamples h' = datalen_dedisperse h dm start nsamps b md /\
  datalen_dedisperse h dm start nsamps false md = nsamps - (dmax - Z.min 0 dmin) /\
  datalen_dedisperse h dm start nsamps true md = h_nsamples h - start - (dmax - Z.min 0 dmin) /\
  advanced h h' start /\ (h_dm h' == dm)%Q /\ (h_tsamp h' == h_tsamp h)%Q.
Proof. exact dedisperse_either_sign. Qed.
Print Assumptions C08_dedisperse_either_sign.
Example C08_dedisperse_either_sign_nonvacuous :
  -8 <= 0 /\ max_delay_referred (-8) 0 = 8 /\ datalen_dedisperse hB (- (40 # 1)) 20 200 false (max_delay_referred (-8) 0) = 192 /\
  h_nsamples (hdr_dedisperse hB (- (40 # 1)) 20 200 false (max_delay_referred (-8) 0)) = 192.
Proof. repeat split; vm_compute; try reflexivity; discriminate. Qed.

(** ===== FilterbankBlock.dedisperse(only_valid_samples=True) ================================================== *)
(** n: samples of the block; dmin <= 0 <= dmax: extreme delays (the reference channel has delay 0).  The block returned has
    n - (dmax - dmin) samples, column j of the channel with delay d is block sample (-dmin) + d + j (inside the block) *)
Theorem C08_block_dedisperse_valid : forall h dm n dmin dmax, dmin <= 0 -> 0 <= dmax -> dmax - dmin < n ->
  let m := block_valid_cols n dmin dmax in let h' := hdr_block_dedisperse h dm m in
  m = n - (dmax - dmin) /\ 0 < m /\ h_nsamples h' = m /\ block_valid_start n dmin dmax = - dmin /\
  (forall d, dmin <= d <= dmax -> 0 <= block_valid_start n dmin dmax + d /\ block_valid_start n dmin dmax + d + m <= n) /\
  (h_tstart h' == h_tstart h)%Q /\ (cdm_block_dedisperse h dm m == dm)%Q.
Proof. exact block_valid. Qed.
Print Assumptions C08_block_dedisperse_valid.
Example C08_block_dedisperse_valid_nonvacuous : -8 <= 0 /\ 0 <= 5 /\ 5 - -8 < 200 /\ block_valid_cols 200 (-8) 5 = 187 /\ block_valid_start 200 (-8) 5 = 8.
Proof. repeat split; vm_compute; try reflexivity; discriminate. Qed.

(** PARTIAL: tstart describes the first column kept only when no delay is negative (descending band and dm >= 0, reference =
    first channel).  Missing: with dmin < 0 column 0 of the reference channel is block sample -dmin while tstart is unchanged
    (C08_block_dedisperse_valid: block_valid_start = -dmin, h_tstart h' == h_tstart h) -- the oracle does not demand it there. *)
Theorem C08_block_dedisperse_valid_tstart_partial : forall h dm n dmin dmax, 0 <= dmin -> dmin <= 0 -> 0 <= dmax -> dmax - dmin < n ->
  let m := block_valid_cols n dmin dmax in let h' := hdr_block_dedisperse h dm m in
  block_valid_start n dmin dmax = 0 /\ advanced h h' (block_valid_start n dmin dmax).
Proof. exact block_valid_tstart_partial. Qed.
Print Assumptions C08_block_dedisperse_valid_tstart_partial.
Example C08_block_dedisperse_valid_tstart_nonvacuous : 0 <= 0 /\ 0 <= 9 /\ 9 - 0 < 64 /\ block_valid_start 64 0 9 = 0 /\ block_valid_cols 64 0 9 = 55.
Proof. repeat split; vm_compute; try reflexivity; discriminate. Qed.

(** ===== a sub-range of a set of two contiguous files ========================================================== *)
Theorem C08_fileset_mjd : forall h1 h2 start, contiguous h1 h2 ->
  (mjd_after_nsamps (fileset h1 h2) start == mjd_after_nsamps h2 (start - h_nsamples h1))%Q.
Proof. exact fileset_mjd. Qed.
Print Assumptions C08_fileset_mjd.

(** a block read from the set (wherever it starts: in the first file, in the second, or across the boundary) is stamped with
    the time of its first sample counted from either file, labelled with the channels it holds, and keeps the DM *)
Theorem C08_fileset_read_block : forall h1 h2 start nsamps f n nsr cs rows h', contiguous h1 h2 -> 0 <= n ->
  read_block_model (fileset h1 h2) start nsamps f n nsr = Some (cs, rows, h') ->
  advanced h1 h' start /\ advanced h2 h' (start - h_nsamples h1) /\ copies_channels h1 h' cs /\ h_nchans h' = n /\ rows = n /\
  (h_dm h' == h_dm h1)%Q /\ cs + n <= h_nchans h1 /\ start + nsamps <= h_nsamples h1 + h_nsamples h2.
Proof. exact fileset_read_block. Qed.
Print Assumptions C08_fileset_read_block.
Definition hA2 : Hdr := mkHdr 8 8 50 1500 (- (1 # 10)) (64 # 1000000) (58000 + (100 # 1) * (64 # 1000000) / 86400) 0 1.
Example C08_fileset_nonvacuous : contiguous hA hA2 /\
  exists h', read_block_model (fileset hA hA2) 120 20 (label hA 3) 2 20 = Some (3, 2, h') /\ (h_tstart h' == h_tstart hA2 + (20 # 1) * (64 # 1000000) / 86400)%Q.
Proof. split; [split; vm_compute; reflexivity |]. eexists. split; [vm_compute; reflexivity | vm_compute; reflexivity]. Qed.
