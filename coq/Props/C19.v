(** C19 -- parallel kernels give the same answer for every thread count and schedule  (PARTIAL: see the end).
    Only property theorems here, each closed by [exact] of a lemma of Proofs/C19_*.v.  Their subjects are the bodies
    of the [prange] loops of sigpyproc/core/kernels.py, regenerated load by load and store by store from the
    source on every run (Gen/C19Threads.v), in the thread/memory model of Model/C19_Prog.v:
    a scheduler step lets ANY unfinished iteration perform its next single load or store. *)
From Coq Require Import ZArith List Bool String.
Require Import SPP.Base.Rt SPP.Model.C19_Prog SPP.Gen.C19Threads SPP.Model.C19_Footprints.
Require Import SPP.Proofs.C19_sched SPP.Proofs.C19_kernels SPP.Proofs.C19_site SPP.Proofs.C19_seq SPP.Proofs.C19_seq2.
Import ListNotations.
Open Scope Z_scope.

(** the generic theorem: if what iteration i stores is neither stored nor loaded by any other iteration, every
    complete interleaving ends in the memory of the index-order sequential run -- whatever the number of
    threads, the chunking, or the interleaving, and whatever values the loads return to steer control *)
Theorem C19_prange_schedule_independent :
  forall (P : loc -> Z -> Prop) (W R : Z -> loc -> Prop) (f : Z -> prog) (n : nat),
  (forall i, 0 <= i < Z.of_nat n -> fp P (W i) (R i) (f i)) ->
  (forall i j l, 0 <= i < Z.of_nat n -> 0 <= j < Z.of_nat n -> i <> j -> W i l -> ~ W j l /\ ~ R j l) ->
  (forall i l v, 0 <= i < Z.of_nat n -> W i l -> P l v) ->
  forall m ps' m', okm P m -> steps (threads_of f n, m) (ps', m') -> all_done ps' ->
  ext_eq m' (seq_run (threads_of f n) m).
Proof. exact prange_schedule_independent. Qed.
Print Assumptions C19_prange_schedule_independent.

(** complete schedules exist (the hypotheses [steps ... /\ all_done] below are satisfiable for every kernel) *)
Theorem C19_a_complete_schedule_exists : forall ps A m, all_done A ->
  exists ps', steps ((A ++ ps)%list, m) (ps', seq_run ps m) /\ all_done ps'.
Proof. exact seq_schedule_exists. Qed.
Print Assumptions C19_a_complete_schedule_exists.

(** per kernel, for ALL sizes, offsets and memories: footprint of the generated body + disjointness from index
    arithmetic => schedule independence.  [schedule_independent_from ts m] unfolds to
    forall ps' m', steps (ts, m) (ps', m') -> all_done ps' -> ext_eq m' (seq_run ts m). *)
Theorem C19_extract_tim : forall nchans nsamps index m,
  schedule_independent_from (extract_tim_threads nchans nsamps index) m.
Proof. exact extract_tim_sched. Qed.
Print Assumptions C19_extract_tim.

Theorem C19_extract_bpass : forall nchans nsamps m,
  schedule_independent_from (extract_bpass_threads nchans nsamps) m.
Proof. exact extract_bpass_sched. Qed.
Print Assumptions C19_extract_bpass.

Theorem C19_mask_channels : forall maskvalue nchans nsamps m,
  schedule_independent_from (mask_channels_threads maskvalue nchans nsamps) m.
Proof. exact mask_channels_sched. Qed.
Print Assumptions C19_mask_channels.

Theorem C19_dedisperse : forall maxdelay nchans nsamps index m,
  schedule_independent_from (dedisperse_threads maxdelay nchans nsamps index) m.
Proof. exact dedisperse_sched. Qed.
Print Assumptions C19_dedisperse.

Theorem C19_invert_freq : forall nchans nsamps m,
  schedule_independent_from (invert_freq_threads nchans nsamps) m.
Proof. exact invert_freq_sched. Qed.
Print Assumptions C19_invert_freq.

Theorem C19_remove_zerodm : forall nchans nsamps m,
  schedule_independent_from (remove_zerodm_threads nchans nsamps) m.
Proof. exact remove_zerodm_sched. Qed.
Print Assumptions C19_remove_zerodm.

Theorem C19_compute_online_moments : forall divcast moments_size array_size startflag m,
  schedule_independent_from (compute_online_moments_threads divcast moments_size array_size startflag) m.
Proof. exact moments_sched. Qed.
Print Assumptions C19_compute_online_moments.

Theorem C19_compute_online_moments_basic : forall divcast moments_size array_size startflag m,
  schedule_independent_from (compute_online_moments_basic_threads divcast moments_size array_size startflag) m.
Proof. exact moments_basic_sched. Qed.
Print Assumptions C19_compute_online_moments_basic.

Theorem C19_downsample_1d_mean_parallel : forall divcast array_size factor m,
  schedule_independent_from (downsample_1d_mean_parallel_threads divcast array_size factor) m.
Proof. exact downsample_1d_sched. Qed.
Print Assumptions C19_downsample_1d_mean_parallel.

Theorem C19_downsample_2d_mean_parallel : forall divcast factor1 factor2 dim1 dim2 m,
  schedule_independent_from (downsample_2d_mean_parallel_threads divcast factor1 factor2 dim1 dim2) m.
Proof. exact downsample_2d_sched. Qed.
Print Assumptions C19_downsample_2d_mean_parallel.

(** subband: holds in the regime where the caller keeps its obligation (every chan_to_sub entry below nsubs) ... *)
Theorem C19_subband_partial : forall maxdelay nchans nsubs nsamps m,
  okm (subband_inv nchans nsubs) m ->
  schedule_independent_from (subband_threads maxdelay nchans nsubs nsamps) m.
Proof. exact subband_sched. Qed.
Print Assumptions C19_subband_partial.

(** ... which the table built by Filterbank.subband does when nsub divides nchans ... *)
Theorem C19_subband_site_partial : forall nchans nsub c, 0 < nsub -> nchans mod nsub = 0 -> 0 <= c < nchans ->
  0 <= subband_site_chan_to_sub nchans nsub c < nsub.
Proof. exact subband_site_range. Qed.
Print Assumptions C19_subband_site_partial.

Theorem C19_subband_with_site_table_partial : forall maxdelay nchans nsub nsamps m, 0 < nsub -> nchans mod nsub = 0 ->
  (forall c, 0 <= c < nchans -> m (subband_ID_chan_to_sub, c) = subband_site_chan_to_sub nchans nsub c) ->
  schedule_independent_from (subband_threads maxdelay nchans nsub nsamps) m.
Proof. exact subband_sched_site. Qed.
Print Assumptions C19_subband_with_site_table_partial.

(** ... and does NOT when it does not: as long as the call site has no guard, a table reaching nsub gets through *)
Theorem C19_subband_site_refuted : subband_site_guarded = false ->
  exists nchans nsub c, 0 < nsub <= nchans /\ 0 <= c < nchans /\ subband_site_guard nchans nsub = true /\
                        nsub <= subband_site_chan_to_sub nchans nsub c.
Proof. exact subband_site_refuted. Qed.
Print Assumptions C19_subband_site_refuted.

(** ... and then the kernel is NOT schedule independent: with the table Filterbank.subband builds for 3 channels and
    2 sub-bands, two complete interleavings of one call end with different values in outarray[2] (a lost update) *)
Theorem C19_subband_race_refuted :
  exists ps1 m1 ps2 m2,
    steps (race_threads, race_mem) (ps1, m1) /\ all_done ps1 /\
    steps (race_threads, race_mem) (ps2, m2) /\ all_done ps2 /\
    m1 (subband_ID_outarray, 2) = 7 /\ m2 (subband_ID_outarray, 2) = 3 /\
    seq_run race_threads race_mem (subband_ID_outarray, 2) = 7.
Proof. exact subband_race_refuted. Qed.
Print Assumptions C19_subband_race_refuted.

(** once the call site rejects sub-band counts that do not divide the channels, everything that reaches the kernel
    meets the obligation *)
Theorem C19_subband_site_guarded : subband_site_guarded = true ->
  forall nchans nsub c, subband_site_guard nchans nsub = true -> 0 < nsub -> 0 <= c < nchans ->
  0 <= subband_site_chan_to_sub nchans nsub c < nsub.
Proof. exact subband_site_ok. Qed.
Print Assumptions C19_subband_site_guarded.

(** exactly one of the two previous statements is live for the tree at hand *)
Theorem C19_subband_site_status :
  subband_site_guarded = true \/
  (exists nchans nsub c, 0 < nsub <= nchans /\ 0 <= c < nchans /\ subband_site_guard nchans nsub = true /\
                         nsub <= subband_site_chan_to_sub nchans nsub c).
Proof. exact subband_site_status. Qed.
Print Assumptions C19_subband_site_status.

(** the index-order sequential run of the generated threads IS the kernel's own sequential definition
    (the functional terms of Gen/Kernels.v, generated from the same source by the C03/C06 translator) *)
Theorem C19_extract_tim_seq_is_pyfunc : forall nchans nsamps index m k,
  seq_run (extract_tim_threads nchans nsamps index) m (extract_tim_ID_outarray, k) =
  SPP.Gen.Kernels.extract_tim_run (arr_of m extract_tim_ID_inarray) (arr_of m extract_tim_ID_outarray) nchans nsamps index k.
Proof. exact extract_tim_seq. Qed.
Print Assumptions C19_extract_tim_seq_is_pyfunc.

Theorem C19_extract_bpass_seq_is_pyfunc : forall nchans nsamps m k,
  seq_run (extract_bpass_threads nchans nsamps) m (extract_bpass_ID_outarray, k) =
  SPP.Gen.Kernels.extract_bpass_run (arr_of m extract_bpass_ID_inarray) (arr_of m extract_bpass_ID_outarray) nchans nsamps k.
Proof. exact extract_bpass_seq. Qed.
Print Assumptions C19_extract_bpass_seq_is_pyfunc.

Theorem C19_dedisperse_seq_is_pyfunc : forall maxdelay nchans nsamps index m k,
  seq_run (dedisperse_threads maxdelay nchans nsamps index) m (dedisperse_ID_outarray, k) =
  SPP.Gen.Kernels.dedisperse_run (arr_of m dedisperse_ID_inarray) (arr_of m dedisperse_ID_outarray)
     (arr_of m dedisperse_ID_delays) maxdelay nchans nsamps index k.
Proof. exact dedisperse_seq. Qed.
Print Assumptions C19_dedisperse_seq_is_pyfunc.

Theorem C19_subband_seq_is_pyfunc : forall maxdelay nchans nsubs nsamps m k,
  seq_run (subband_threads maxdelay nchans nsubs nsamps) m (subband_ID_outarray, k) =
  SPP.Gen.Kernels.subband_run (arr_of m subband_ID_inarray) (arr_of m subband_ID_outarray) (arr_of m subband_ID_delays)
     (arr_of m subband_ID_chan_to_sub) maxdelay nchans nsubs nsamps k.
Proof. exact subband_seq. Qed.
Print Assumptions C19_subband_seq_is_pyfunc.

Theorem C19_mask_channels_seq_is_pyfunc : forall maskvalue nchans nsamps m k,
  seq_run (mask_channels_threads maskvalue nchans nsamps) m (mask_channels_ID_array, k) =
  SPP.Gen.Kernels.mask_channels_run (arr_of m mask_channels_ID_array) (arr_of m mask_channels_ID_mask) maskvalue nchans nsamps k.
Proof. exact mask_channels_seq. Qed.
Print Assumptions C19_mask_channels_seq_is_pyfunc.

Theorem C19_invert_freq_seq_is_pyfunc : forall nchans nsamps m k,
  seq_run (invert_freq_threads nchans nsamps) m (invert_freq_ID_outarray, k) =
  SPP.Gen.Kernels.invert_freq_run (arr_of m invert_freq_ID_outarray) (arr_of m invert_freq_ID_array) nchans nsamps k.
Proof. exact invert_freq_seq. Qed.
Print Assumptions C19_invert_freq_seq_is_pyfunc.

Theorem C19_remove_zerodm_seq_is_pyfunc : forall nchans nsamps m k,
  seq_run (remove_zerodm_threads nchans nsamps) m (remove_zerodm_ID_outarray, k) =
  SPP.Gen.Kernels.remove_zerodm_run (arr_of m remove_zerodm_ID_inarray) (arr_of m remove_zerodm_ID_outarray)
     (arr_of m remove_zerodm_ID_bpass) (arr_of m remove_zerodm_ID_chanwts) nchans nsamps k.
Proof. exact remove_zerodm_seq. Qed.
Print Assumptions C19_remove_zerodm_seq_is_pyfunc.

(** the parallel decimators are compiled from the Python definitions of downsample_1d_mean / downsample_2d_mean_flat
    (njit(f.py_func, parallel=True, ...)): their sequential definition is the functional term of that function.  The fresh
    result array (np.empty) starts with whatever the memory holds there.  True division is ONE uninterpreted [divcast] on both
    sides: see C19_decimation_divides_like_its_definition below for why that is sound (FASTMATH_EXACT_DIV: no arcp). *)
Theorem C19_downsample_1d_mean_parallel_seq_is_pyfunc : forall divcast array_size factor m k,
  seq_run (downsample_1d_mean_parallel_threads divcast array_size factor) m (downsample_1d_mean_parallel_ID_result, k) =
  SPP.Gen.Kernels.downsample_1d_mean_run divcast array_size (arr_of m downsample_1d_mean_parallel_ID_result)
     (arr_of m downsample_1d_mean_parallel_ID_array) factor k.
Proof. exact downsample_1d_seq. Qed.
Print Assumptions C19_downsample_1d_mean_parallel_seq_is_pyfunc.

Theorem C19_downsample_2d_mean_parallel_seq_is_pyfunc : forall divcast factor1 factor2 dim1 dim2 m k,
  seq_run (downsample_2d_mean_parallel_threads divcast factor1 factor2 dim1 dim2) m (downsample_2d_mean_parallel_ID_result, k) =
  SPP.Gen.Kernels.downsample_2d_mean_flat_run divcast (arr_of m downsample_2d_mean_parallel_ID_result)
     (arr_of m downsample_2d_mean_parallel_ID_array) factor1 factor2 dim1 dim2 k.
Proof. exact downsample_2d_seq. Qed.
Print Assumptions C19_downsample_2d_mean_parallel_seq_is_pyfunc.

(** ... hence EVERY complete schedule of the parallel loop leaves, in every output element, the value the kernel's Python
    definition computes (schedule independence composed with the three statements above) *)
Theorem C19_remove_zerodm_any_schedule_is_pyfunc : forall nchans nsamps m ps' m' k,
  steps (remove_zerodm_threads nchans nsamps, m) (ps', m') -> all_done ps' ->
  m' (remove_zerodm_ID_outarray, k) =
  SPP.Gen.Kernels.remove_zerodm_run (arr_of m remove_zerodm_ID_inarray) (arr_of m remove_zerodm_ID_outarray)
     (arr_of m remove_zerodm_ID_bpass) (arr_of m remove_zerodm_ID_chanwts) nchans nsamps k.
Proof. exact remove_zerodm_any_schedule. Qed.
Print Assumptions C19_remove_zerodm_any_schedule_is_pyfunc.

Theorem C19_downsample_1d_mean_parallel_any_schedule_is_pyfunc : forall divcast array_size factor m ps' m' k,
  steps (downsample_1d_mean_parallel_threads divcast array_size factor, m) (ps', m') -> all_done ps' ->
  m' (downsample_1d_mean_parallel_ID_result, k) =
  SPP.Gen.Kernels.downsample_1d_mean_run divcast array_size (arr_of m downsample_1d_mean_parallel_ID_result)
     (arr_of m downsample_1d_mean_parallel_ID_array) factor k.
Proof. exact downsample_1d_any_schedule. Qed.
Print Assumptions C19_downsample_1d_mean_parallel_any_schedule_is_pyfunc.

Theorem C19_downsample_2d_mean_parallel_any_schedule_is_pyfunc : forall divcast factor1 factor2 dim1 dim2 m ps' m' k,
  steps (downsample_2d_mean_parallel_threads divcast factor1 factor2 dim1 dim2, m) (ps', m') -> all_done ps' ->
  m' (downsample_2d_mean_parallel_ID_result, k) =
  SPP.Gen.Kernels.downsample_2d_mean_flat_run divcast (arr_of m downsample_2d_mean_parallel_ID_result)
     (arr_of m downsample_2d_mean_parallel_ID_array) factor1 factor2 dim1 dim2 k.
Proof. exact downsample_2d_any_schedule. Qed.
Print Assumptions C19_downsample_2d_mean_parallel_any_schedule_is_pyfunc.

(** non-vacuity of the three: an interleaved complete schedule (thread 1 first, then alternating) of a call with two
    non-trivial iterations exists -- [steps] and [all_done] hold for it -- and ends in the values of the functional kernel
    (2 channels x 2 samples; 5 samples by 2; 4 x 4 by 2 x 2, with divcast := Z.div) *)
Definition alt_schedule : list nat := [1; 0; 1; 0; 1; 0; 1; 0; 1; 0; 1; 0; 1; 0; 1; 0; 1; 0; 1; 0; 1; 0; 1; 0]%nat.

Example C19_remove_zerodm_example :
  let ts := remove_zerodm_threads 2 2 in
  let m := mem_of [(remove_zerodm_ID_inarray, [1; 2; 3; 4]); (remove_zerodm_ID_outarray, [9; 9; 9; 9]);
                   (remove_zerodm_ID_bpass, [10; 20]); (remove_zerodm_ID_chanwts, [1; 2])] in
  let c := sched_run alt_schedule (ts, m) in
  steps (ts, m) c /\ all_done (fst c) /\ forallb is_done ts = false /\
  dump (snd c) remove_zerodm_ID_outarray 4 = [8; 16; 6; 10] /\
  to_list 4 (SPP.Gen.Kernels.remove_zerodm_run (arr_of m remove_zerodm_ID_inarray) (arr_of m remove_zerodm_ID_outarray)
               (arr_of m remove_zerodm_ID_bpass) (arr_of m remove_zerodm_ID_chanwts) 2 2) = [8; 16; 6; 10].
Proof. cbv zeta. split; [apply sched_run_steps|]. split; [apply is_done_all; vm_compute; reflexivity|].
  vm_compute. repeat split; reflexivity. Qed.

Example C19_downsample_1d_example :
  let ts := downsample_1d_mean_parallel_threads Z.div 5 2 in
  let m := mem_of [(downsample_1d_mean_parallel_ID_array, [2; 4; 6; 8; 5]); (downsample_1d_mean_parallel_ID_result, [77; 77])] in
  let c := sched_run alt_schedule (ts, m) in
  steps (ts, m) c /\ all_done (fst c) /\ forallb is_done ts = false /\
  dump (snd c) downsample_1d_mean_parallel_ID_result 2 = [3; 7] /\
  to_list 2 (SPP.Gen.Kernels.downsample_1d_mean_run Z.div 5 (arr_of m downsample_1d_mean_parallel_ID_result)
               (arr_of m downsample_1d_mean_parallel_ID_array) 2) = [3; 7].
Proof. cbv zeta. split; [apply sched_run_steps|]. split; [apply is_done_all; vm_compute; reflexivity|].
  vm_compute. repeat split; reflexivity. Qed.

Example C19_downsample_2d_example :
  let ts := downsample_2d_mean_parallel_threads Z.div 2 2 4 4 in
  let m := mem_of [(downsample_2d_mean_parallel_ID_array, [1; 2; 3; 4; 5; 6; 7; 8; 9; 10; 11; 12; 13; 14; 15; 16]);
                   (downsample_2d_mean_parallel_ID_result, [77; 77; 77; 77])] in
  let c := sched_run alt_schedule (ts, m) in
  steps (ts, m) c /\ all_done (fst c) /\ forallb is_done ts = false /\
  dump (snd c) downsample_2d_mean_parallel_ID_result 4 = [3; 5; 11; 13] /\
  to_list 4 (SPP.Gen.Kernels.downsample_2d_mean_flat_run Z.div (arr_of m downsample_2d_mean_parallel_ID_result)
               (arr_of m downsample_2d_mean_parallel_ID_array) 2 2 4 4) = [3; 5; 11; 13].
Proof. cbv zeta. split; [apply sched_run_steps|]. split; [apply is_done_all; vm_compute; reflexivity|].
  vm_compute. repeat split; reflexivity. Qed.

(** the set of kernels compiled parallel=True and their parallel loop variables are the ones proved about *)
Example C19_kernel_set : parallel_kernels =
  ["compute_online_moments"; "compute_online_moments_basic"; "dedisperse"; "downsample_1d_mean_parallel";
   "downsample_2d_mean_parallel"; "extract_bpass"; "extract_tim"; "invert_freq"; "mask_channels"; "remove_zerodm"; "subband"]%string.
Proof. reflexivity. Qed.

Example C19_all_parallel :
  forallb (fun b => b) [extract_tim_parallel; extract_bpass_parallel; mask_channels_parallel; dedisperse_parallel;
     invert_freq_parallel; subband_parallel; remove_zerodm_parallel; compute_online_moments_parallel;
     compute_online_moments_basic_parallel; downsample_1d_mean_parallel_parallel; downsample_2d_mean_parallel_parallel] = true.
Proof. reflexivity. Qed.

(** in the theorems true division is ONE uninterpreted function [divcast], shared by the parallel threads and by the
    kernel's Python definition; that is sound only if the compiled parallel alias divides like the definition, i.e. its
    fastmath flags (regenerated from the njit call) do not allow the reciprocal rewrite x / n -> x * (1 / n), and like its
    serial twin *)
Example C19_decimation_divides_like_its_definition :
  downsample_1d_mean_parallel_recip_division = false /\ downsample_2d_mean_parallel_recip_division = false /\
  downsample_1d_mean_parallel_recip_division = downsample_1d_mean_recip_division /\
  downsample_2d_mean_parallel_recip_division = downsample_2d_mean_flat_recip_division.
Proof. repeat split; reflexivity. Qed.

(** non-vacuity: a concrete kernel call (3 channels, 2 samples) whose threads are not trivial, with an interleaved
    complete schedule (thread 1 first, then alternating) that indeed ends in the sequential memory *)
Example C19_example_interleaving :
  let ts := extract_bpass_threads 3 2 in
  let m := mem_of [(extract_bpass_ID_inarray, [1; 2; 3; 4; 5; 6]); (extract_bpass_ID_outarray, [10; 20; 30])] in
  let c := sched_run [1; 0; 2; 1; 0; 2; 2; 1; 0; 0; 1; 2; 2; 1; 0; 0; 1; 2]%nat (ts, m) in
  forallb is_done (fst c) = true /\ dump (snd c) extract_bpass_ID_outarray 3 = [15; 27; 39] /\
  dump (seq_run ts m) extract_bpass_ID_outarray 3 = [15; 27; 39] /\
  forallb is_done ts = false.
Proof. vm_compute. repeat split; reflexivity. Qed.

(** PARTIAL.  Not expressible in any executable model, and therefore NOT proved: that numba/OpenMP run every
    iteration of a prange loop exactly once on some thread, and that the hardware gives sequentially consistent
    behaviour to data-race-free programs.  That part is supported only by the runtime sweep of the harness
    (thread counts 1..16 x chunk sizes x repetitions x shapes, bit-exact against .py_func and NumPy). *)
