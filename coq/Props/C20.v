(** C20 -- a partially written output is always a valid prefix of the final file.
    Only property theorems here; each is closed by [exact] of a lemma from Proofs/C20_trace.v.

    Subject.  [all_sites] (Gen/C20Sites.v) is regenerated on every run from the ast of base.py / block.py /
    timeseries.py: for invert_freq, apply_channel_mask, downsample, extract_samps, requantize, remove_zerodm, subband,
    extract_chans, extract_bands, FilterbankBlock.to_file, TimeSeries.to_tim and FourierSeries.to_spec, the writer calls made on the output
    before / inside / after the loop over read_plan.  What those calls do to the file object (opener, opening mode,
    write, cwrite, close, prep_outfile) and the arithmetic by which the reader infers the sample count and reads a
    block are regenerated from io/fileio.py, header.py, io/sigproc.py, readers.py and io/bits.py.
    Model/C20_Trace.v gives the primitives their meaning (position, overwrite, truncate, buffered vs raw writes);
    [at_crash s old h bs k] is the output path after the first [k] primitive operations of a call whose header encodes
    to [h] and whose loop produces the blocks [bs], the path holding [old] beforehand. *)
From Coq Require Import ZArith List Bool Lia.
Require Import SPP.Base.Rt SPP.Gen.C20Sites SPP.Model.Stream SPP.Model.C20_Trace SPP.Proofs.C20_trace.
Import ListNotations.
Open Scope Z_scope.

(** every streaming writer of the library has the shape: prep_outfile, one cwrite per pass through the loop,
    at most a close afterwards -- no seek, truncate, re-open or second header write on the output *)
Theorem C20_sites_shape : Forall site_ok all_sites.
Proof. exact all_sites_ok. Qed.
Print Assumptions C20_sites_shape.

(** append only, header first, never patched: at EVERY crash point from the header write on, for all header bytes,
    all block lists (any gulp, any block sizes, empty blocks included) and whatever the path held before, the disk holds
    exactly the header followed by the blocks written so far, which is a byte prefix of the final data section; nothing
    is pending in a buffer *)
Theorem C20_append_only : forall s old h bs k, In s all_sites -> (2 <= k)%nat ->
  let st := at_crash s old h bs k in
  disk st = h ++ concat (firstn (k - 2) bs) /\ pend st = [] /\
  disk st = h ++ firstn (length (concat (firstn (k - 2) bs))) (concat bs).
Proof. exact lib_append_only. Qed.
Print Assumptions C20_append_only.

(** before the header write the path holds its previous content (not yet opened) or nothing (opened with truncation):
    there is no crash point at which stale bytes follow a new header *)
Theorem C20_before_header : forall s old h bs, In s all_sites ->
  disk (at_crash s old h bs 0) = old /\ disk (at_crash s old h bs 1) = [].
Proof. exact lib_before_header. Qed.
Print Assumptions C20_before_header.

(** the file only grows: a later crash point extends an earlier one, byte for byte *)
Theorem C20_only_grows : forall s old h bs k k', In s all_sites -> (2 <= k <= k')%nat ->
  exists t, disk (at_crash s old h bs k') = disk (at_crash s old h bs k) ++ t.
Proof. exact lib_only_grows. Qed.
Print Assumptions C20_only_grows.

(** time order, one block per gulp: after the j-th pass through the loop exactly the first j blocks are on disk *)
Theorem C20_block_per_gulp : forall s old h bs j, In s all_sites -> (j <= length bs)%nat ->
  disk (at_crash s old h bs (2 + j)) = h ++ concat (firstn j bs).
Proof. exact lib_block_per_gulp. Qed.
Print Assumptions C20_block_per_gulp.

(** when the call returns the file is complete, whether or not the site closes the writer *)
Theorem C20_complete_on_return : forall s old h bs, In s all_sites ->
  disk (on_return s old h bs) = h ++ concat bs /\ pend (on_return s old h bs) = [].
Proof. exact lib_complete_on_return. Qed.
Print Assumptions C20_complete_on_return.

(** the header carries no sample or byte count, so there is nothing a writer would have to go back and patch *)
Theorem C20_no_stored_count : header_stores_count = false.
Proof. exact no_stored_count. Qed.
Print Assumptions C20_no_stored_count.

(** every byte-length truncation L of the final file at or after the header: the reader sees the same header bytes,
    infers floor(8(L-|h|)/(nbits*nchans)) samples, and read_block(0, that many) returns exactly the bytes of the first
    that many samples of what it returns for the whole file (all depths; a sample a whole number of bytes) *)
Theorem C20_truncation_readable : forall nbits nchans h d L,
  In nbits [1; 2; 4; 8; 16; 32] -> 1 <= nchans -> (nchans * nbits) mod 8 = 0 -> len h <= L <= len h + len d ->
  let f := cut h d L in
  let k := open_nsamples f nbits nchans in
  let N := open_nsamples (mkfile h d) nbits nchans in
  let sb := sbytes nbits nchans in
  raw f = firstn (Z.to_nat L) (h ++ d) /\ hdr f = h /\
  k = 8 * (L - len h) / (nbits * nchans) /\ 0 <= k <= N /\
  (1 <= k -> exists full,
     read_block_file (mkfile h d) nbits nchans N 0 N = OBytes full /\
     read_block_file f nbits nchans k 0 k = OBytes (firstn (Z.to_nat (k * sb)) full) /\
     firstn (Z.to_nat (k * sb)) full = firstn (Z.to_nat (k * sb)) d).
Proof. exact truncation_readable. Qed.
Print Assumptions C20_truncation_readable.

(** the two together: what survives a crash at any point of any streaming writer is a file the library's reader opens,
    and it yields exactly the first ks complete samples of the full data *)
Theorem C20_crash_readable : forall s old h bs k nbits nchans, In s all_sites -> (2 <= k)%nat ->
  In nbits [1; 2; 4; 8; 16; 32] -> 1 <= nchans -> (nchans * nbits) mod 8 = 0 ->
  let data := concat bs in
  let m := len (concat (firstn (k - 2) bs)) in
  let f := cut h data (len h + m) in
  let ks := open_nsamples f nbits nchans in
  disk (at_crash s old h bs k) = raw f /\ m <= len data /\ ks = 8 * m / (nbits * nchans) /\
  (1 <= ks -> read_block_file f nbits nchans ks 0 ks = OBytes (firstn (Z.to_nat (ks * sbytes nbits nchans)) data)).
Proof. exact lib_crash_readable. Qed.
Print Assumptions C20_crash_readable.

(** at depth 8 the single-file reader used above is the read_block of C02's stream model *)
Theorem C20_reader_is_C02 : forall f nchans nsamples start nsamps,
  read_block_file f 8 nchans nsamples start nsamps = read_block_bytes [f] nchans nsamples start nsamps.
Proof. exact read_block_file_bytes. Qed.
Print Assumptions C20_reader_is_C02.

(** multi-output writers work through their outputs in batches: `for batch_start in range(0, n, batch_size)` opens
    filenames[lo:hi] with lo, hi regenerated from extract_chans / extract_bands.  For every number of outputs and every
    batch size the slices are valid and output i is opened in batch i / batch_size and in no other: no output path is
    re-opened (truncated, header re-written) later in the same call, so the per-path statements above cover the whole call *)
Theorem C20_each_output_opened_once :
  batch_partition batch_lo_extract_chans batch_hi_extract_chans /\
  batch_partition batch_lo_extract_bands batch_hi_extract_bands.
Proof. exact (conj batch_extract_chans batch_extract_bands). Qed.
Print Assumptions C20_each_output_opened_once.

(** FourierSeries.to_spec (one-shot: prep_outfile, one cwrite of the whole spectrum, __exit__) is one of the regenerated sites, so
    every theorem above covers it; for its single block [b], whatever the path held before and for all header and block bytes:
    the path goes old -> empty -> header -> header ++ b, every state from the header write on has nothing pending and is a byte
    prefix of the final file, nothing changes after the data write, and on return the file is header ++ b *)
Theorem C20_to_spec_prefix : forall old h b,
  In site_to_spec all_sites /\
  map (fun k => disk (at_crash site_to_spec old h [b] k)) [0; 1; 2; 3]%nat = [old; []; h; h ++ b] /\
  (forall k, (3 <= k)%nat -> disk (at_crash site_to_spec old h [b] k) = h ++ b) /\
  (forall k, (2 <= k)%nat -> pend (at_crash site_to_spec old h [b] k) = [] /\
     exists t, h ++ b = disk (at_crash site_to_spec old h [b] k) ++ t) /\
  disk (on_return site_to_spec old h [b]) = h ++ b /\ pend (on_return site_to_spec old h [b]) = [].
Proof. exact to_spec_prefix. Qed.
Print Assumptions C20_to_spec_prefix.

(** * non-vacuity *)
(** to_spec on a path holding stale bytes, 2-byte header, one block of two complex bins (16 bytes): the states of the path; a cut of
    the finished file after 11 data bytes reads as 2 floats = the first 8 bytes (a .spec file is 32-bit, 1 channel for the reader) *)
Example C20_example_to_spec :
  let b := [1; 2; 3; 4; 5; 6; 7; 8; 9; 10; 11; 12; 13; 14; 15; 16] in
  map (fun k => disk (at_crash site_to_spec [9; 9; 9] [72; 69] [b] k)) [0; 1; 2; 3; 4; 5]%nat =
    [[9; 9; 9]; []; [72; 69]; [72; 69] ++ b; [72; 69] ++ b; [72; 69] ++ b] /\
  on_return site_to_spec [9; 9; 9] [72; 69] [b] = mkof ([72; 69] ++ b) [] 18 false /\
  open_nsamples (cut [72; 69] b 13) 32 1 = 2 /\
  read_block_file (cut [72; 69] b 13) 32 1 2 0 2 = OBytes [1; 2; 3; 4; 5; 6; 7; 8].
Proof. vm_compute. repeat split. Qed.

(** the hypotheses are met: the site list is not empty, and a concrete call (stale content at the path, 2-byte header,
    three blocks one of them empty) goes through the states old / empty / header / header+blocks *)
Example C20_example_trace :
  In site_apply_channel_mask all_sites /\ In site_invert_freq all_sites /\ length all_sites = 12%nat /\
  map (fun k => disk (at_crash site_apply_channel_mask [9; 9; 9; 9; 9; 9; 9; 9; 9] [72; 69] [[1; 2]; []; [3]] k)) [0; 1; 2; 3; 4; 5; 6]%nat =
    [[9; 9; 9; 9; 9; 9; 9; 9; 9]; []; [72; 69]; [72; 69; 1; 2]; [72; 69; 1; 2]; [72; 69; 1; 2; 3]; [72; 69; 1; 2; 3]] /\
  on_return site_invert_freq [9] [72; 69] [[1; 2]; [3]] = mkof [72; 69; 1; 2; 3] [] 5 false /\
  on_return site_apply_channel_mask [9] [72; 69] [[1; 2]; [3]] = mkof [72; 69; 1; 2; 3] [] 5 true.
Proof. vm_compute. repeat split; auto 20. Qed.

(** the model is able to express the failures the property is about (so the theorems above are not true by construction):
    a buffered opener leaves nothing on disk after the header write and an incomplete file on return when the site does not
    close; a seek back rewrites the header; opening without truncation leaves stale bytes after the data *)
Example C20_model_detects :
  disk (run_prims false [] (firstn 2 (norm_trace [72; 69] [[1; 2]; [3]] false))) = [] /\
  disk (run_prims false [] (norm_trace [72; 69] [[1; 2]; [3]] false)) = [] /\
  disk (run_prims false [] (norm_trace [72; 69] [[1; 2]; [3]] true)) = [72; 69; 1; 2; 3] /\
  disk (run_prims true [] [POpen MTrunc; PPut [72; 69]; PPut [1; 2]; PSeek0; PPut [80]]) = [80; 69; 1; 2] /\
  disk (run_prims true [9; 9; 9; 9; 9] [POpen MKeep; PPut [72; 69]; PPut [1]]) = [72; 69; 1; 9; 9] /\
  disk (run_prims true [9; 9] [POpen MAppend; PPut [72; 69]]) = [9; 9; 72; 69].
Proof. vm_compute. repeat split. Qed.

(** the reader on truncations: 16-bit, 2 channels (4 bytes per sample), header of 2 bytes, 10 data bytes;
    cut inside the third sample -> 2 samples = the first 8 bytes; cut at the header end -> 0 samples *)
Example C20_example_truncation :
  let h := [72; 69] in let d := [1; 2; 3; 4; 5; 6; 7; 8; 9; 10] in
  open_nsamples (cut h d 12) 16 2 = 2 /\ open_nsamples (cut h d 11) 16 2 = 2 /\ open_nsamples (cut h d 2) 16 2 = 0 /\
  read_block_file (cut h d 11) 16 2 2 0 2 = OBytes [1; 2; 3; 4; 5; 6; 7; 8] /\
  read_block_file (cut h d 9) 16 2 1 0 1 = OBytes [1; 2; 3; 4] /\
  read_block_file (cut h d 9) 16 2 1 0 2 = OErr ValueError /\
  read_block_file (cut h d 12) 1 16 5 0 5 = OBytes [1; 2; 3; 4; 5; 6; 7; 8; 9; 10] /\
  (16 * 1) mod 8 = 0 /\ In 16 [1; 2; 4; 8; 16; 32].
Proof. vm_compute. repeat split; auto 10. Qed.

(** batches of 3 over 8 outputs: [0,3) [3,6) [6,8); an inclusive end without the matching -1 would give [0,4) [3,7) [6,8) *)
Example C20_example_batches :
  map (fun k => (batch_lo_extract_bands (k * 3) 3 8, batch_hi_extract_bands (k * 3) 3 8)) [0; 1; 2] = [(0, 3); (3, 6); (6, 8)] /\
  ~ batch_partition (fun b _ _ => b) (fun b bs n => Z.min (b + bs) (n - 1) + 1).
Proof. split; [reflexivity|]. intro H. destruct (H 8 3 0 ltac:(lia) ltac:(lia) ltac:(lia)) as (_ & _ & Hi).
  specialize (Hi 3 ltac:(lia)). vm_compute in Hi. destruct Hi as [Hi _].
  assert (E : 0 = 1) by (apply Hi; split; [intro X; discriminate X|reflexivity]). discriminate E. Qed.
