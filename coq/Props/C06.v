(** C06 -- streaming reductions are independent of the gulp size and equal their definitions.
    Subject: Model/C06_pipe.v = Model.Plan.run_plan (C01) o Gen.BaseSites per-block functions and output lengths
    (regenerated from base.py) o Gen.Kernels loop nests (regenerated from kernels.py).
    [X fs k] is the k-th data sample of the (multi-file) stream, sample t channel c at index t*nchans + c. *)
From Coq Require Import ZArith List Bool.
Require Import SPP.Base.Rt SPP.Gen.Kernels SPP.Gen.Plan SPP.Gen.BaseSites SPP.Model.Stream SPP.Model.Plan SPP.Model.C06_pipe
               SPP.Model.Bits SPP.Model.PlanPacked SPP.Proofs.C02_stream SPP.Proofs.C01_plan SPP.Proofs.C01_packed SPP.Proofs.C06_reduce SPP.Model.C10_moments SPP.Proofs.C07_transforms SPP.Proofs.C06_stats SPP.Model.C06_pipe_more SPP.Proofs.C06_more.
Import ListNotations.
Open Scope Z_scope.

Theorem C06_collapse : forall fs nch N gulp start nsamps,
  1 <= nfiles fs -> 1 <= nch -> total fs = N * nch -> 0 <= start -> 1 <= nsamps -> start + nsamps <= N -> 1 <= gulp ->
  exists out, collapse_pipe fs nch gulp start nsamps = Some out /\
    forall t, 0 <= t < nsamps -> out t = chansum fs nch (start + t).
Proof. exact collapse_spec. Qed.
Print Assumptions C06_collapse.

Theorem C06_collapse_len : forall N start nsamps, collapse_len N start nsamps 0 = nsamps /\ collapse_len N start nsamps 1 = N - start.
Proof. exact collapse_len_spec. Qed.
Print Assumptions C06_collapse_len.

(** the accumulated sums are the per-channel sums over the selected samples and the divisor is their number *)
Theorem C06_bandpass : forall fs nch N gulp start nsamps,
  1 <= nfiles fs -> 1 <= nch -> total fs = N * nch -> 0 <= start -> 1 <= nsamps -> start + nsamps <= N -> 1 <= gulp ->
  exists out n, bandpass_pipe fs nch gulp start nsamps = Some (out, n) /\ n = nsamps /\
    forall c, 0 <= c < nch -> out c = chancol fs nch start c (Z.to_nat nsamps).
Proof. exact bandpass_spec. Qed.
Print Assumptions C06_bandpass.

(** independent of the uninitialised output buffer [junk] *)
Theorem C06_read_chan : forall fs nch N gulp start nsamps ichan junk,
  1 <= nfiles fs -> 1 <= nch -> total fs = N * nch -> 0 <= start -> 1 <= nsamps -> start + nsamps <= N -> 1 <= gulp ->
  0 <= ichan < nch ->
  exists out, read_chan_pipe fs nch gulp start nsamps ichan junk = Some out /\
    forall t, 0 <= t < nsamps -> out t = X fs ((start + t) * nch + ichan).
Proof. exact read_chan_spec. Qed.
Print Assumptions C06_read_chan.

(** any delay vector with 0 <= d_c <= maxdelay < nsamps, any gulp >= 1 (gulp < 2*maxdelay and 2*maxdelay > nsamps included) *)
Theorem C06_dedisperse : forall fs nch N gulp start nsamps md delays,
  1 <= nfiles fs -> 1 <= nch -> total fs = N * nch -> 0 <= start -> 1 <= nsamps -> start + nsamps <= N -> 1 <= gulp ->
  0 <= md < nsamps -> (forall c, 0 <= c < nch -> 0 <= delays c <= md) ->
  exists out, dedisperse_pipe fs nch gulp start nsamps md delays = Some out /\
    forall t, 0 <= t < nsamps - md -> out t = dedisp fs nch start delays t.
Proof. exact dedisperse_spec. Qed.
Print Assumptions C06_dedisperse.

Theorem C06_dedisperse_len : forall N start nsamps md, dedisperse_len N start nsamps 0 md = nsamps - md.
Proof. exact dedisperse_len_spec. Qed.
Print Assumptions C06_dedisperse_len.

(** the variance/skewness/kurtosis divisor of compute_stats is the number of samples pushed *)
Theorem C06_stats_divisor : forall N start nsamps, stats_divisor N start nsamps 0 = nsamps /\ stats_divisor N start nsamps 1 = N - start.
Proof. intros; split; reflexivity. Qed.
Print Assumptions C06_stats_divisor.

(** compute_stats(_basic): for every gulp the accumulator of channel c satisfies the C10 invariant (count, mean and central sums
    in closed form, min, max) of exactly the selected samples of that channel; with C10's theorems these are the two-pass moments *)
Theorem C06_stats : forall fs nch N gulp start nsamps c full,
  1 <= nfiles fs -> 1 <= nch -> SPP.Model.Stream.total fs = N * nch -> 0 <= start -> 1 <= nsamps -> start + nsamps <= N -> 1 <= gulp ->
  0 <= c < nch -> nsamps < 2 ^ 31 ->
  exists s, stats_pipe fs nch gulp start nsamps full c = Some s /\
    inv full (column fs nch start nsamps c) s /\ inv_minmax (column fs nch start nsamps c) s.
Proof. exact stats_spec. Qed.
Print Assumptions C06_stats.

(** changing only the gulp never changes the result *)
Corollary C06_gulp_irrelevant_collapse : forall fs nch N g1 g2 start nsamps,
  1 <= nfiles fs -> 1 <= nch -> total fs = N * nch -> 0 <= start -> 1 <= nsamps -> start + nsamps <= N -> 1 <= g1 -> 1 <= g2 ->
  exists o1 o2, collapse_pipe fs nch g1 start nsamps = Some o1 /\ collapse_pipe fs nch g2 start nsamps = Some o2 /\
    forall t, 0 <= t < nsamps -> o1 t = o2 t.
Proof. intros fs nch N g1 g2 start nsamps H1 H2 H3 H4 H5 H6 H7 H8.
  destruct (collapse_spec fs nch N g1 start nsamps H1 H2 H3 H4 H5 H6 H7) as [o1 [E1 S1]].
  destruct (collapse_spec fs nch N g2 start nsamps H1 H2 H3 H4 H5 H6 H8) as [o2 [E2 S2]].
  exists o1, o2. repeat split; try assumption. intros t Ht. rewrite S1, S2 by assumption. reflexivity. Qed.
Print Assumptions C06_gulp_irrelevant_collapse.

Corollary C06_gulp_irrelevant_dedisperse : forall fs nch N g1 g2 start nsamps md delays,
  1 <= nfiles fs -> 1 <= nch -> total fs = N * nch -> 0 <= start -> 1 <= nsamps -> start + nsamps <= N -> 1 <= g1 -> 1 <= g2 ->
  0 <= md < nsamps -> (forall c, 0 <= c < nch -> 0 <= delays c <= md) ->
  exists o1 o2, dedisperse_pipe fs nch g1 start nsamps md delays = Some o1 /\ dedisperse_pipe fs nch g2 start nsamps md delays = Some o2 /\
    forall t, 0 <= t < nsamps - md -> o1 t = o2 t.
Proof. intros fs nch N g1 g2 start nsamps md delays H1 H2 H3 H4 H5 H6 H7 H8 H9 H10.
  destruct (dedisperse_spec fs nch N g1 start nsamps md delays H1 H2 H3 H4 H5 H6 H7 H9 H10) as [o1 [E1 S1]].
  destruct (dedisperse_spec fs nch N g2 start nsamps md delays H1 H2 H3 H4 H5 H6 H8 H9 H10) as [o2 [E2 S2]].
  exists o1, o2. repeat split; try assumption. intros t Ht. rewrite S1, S2 by assumption. reflexivity. Qed.
Print Assumptions C06_gulp_irrelevant_dedisperse.

(** packed depths (1, 2, 4 bits): reading a packed set is reading the byte-wide set of its unpacked samples
    (Proofs/C01_packed.v: plan o generated unpack kernels), so the reductions equal their definitions on the unpacked samples *)
Theorem C06_packed_transfer : forall fs nch nbits big N gulp0 start nsamps skipback0 junk,
  In nbits [1; 2; 4] -> (nch * nbits) mod 8 = 0 -> 1 <= nch ->
  1 <= nfiles fs -> total fs = N * samp_bytes nch nbits -> Forall is_byte (flat fs) ->
  0 <= start -> 1 <= nsamps -> start + nsamps <= N -> 1 <= gulp0 -> Z.abs skipback0 < Z.min nsamps gulp0 ->
  run_plan_packed fs nch nbits big gulp0 start nsamps skipback0 junk =
  run_plan (unpacked_set fs nbits big) nch gulp0 start nsamps skipback0
  /\ 1 <= nfiles (unpacked_set fs nbits big) /\ total (unpacked_set fs nbits big) = N * nch.
Proof. exact run_plan_packed_as_bytes. Qed.
Print Assumptions C06_packed_transfer.

Theorem C06_collapse_packed : forall fs nch nbits big N gulp start nsamps junk,
  In nbits [1; 2; 4] -> (nch * nbits) mod 8 = 0 -> 1 <= nch ->
  1 <= nfiles fs -> total fs = N * samp_bytes nch nbits -> Forall is_byte (flat fs) ->
  0 <= start -> 1 <= nsamps -> start + nsamps <= N -> 1 <= gulp ->
  exists out, collapse_pipe_packed fs nch nbits big gulp start nsamps junk = Some out /\
    forall t, 0 <= t < nsamps -> out t = sum_n (Z.to_nat nch) (fun c => packed_sample fs nbits big ((start + t) * nch + c)).
Proof. exact collapse_spec_packed. Qed.
Print Assumptions C06_collapse_packed.

Theorem C06_dedisperse_packed : forall fs nch nbits big N gulp start nsamps md delays junk,
  In nbits [1; 2; 4] -> (nch * nbits) mod 8 = 0 -> 1 <= nch ->
  1 <= nfiles fs -> total fs = N * samp_bytes nch nbits -> Forall is_byte (flat fs) ->
  0 <= start -> 1 <= nsamps -> start + nsamps <= N -> 1 <= gulp ->
  0 <= md < nsamps -> (forall c, 0 <= c < nch -> 0 <= delays c <= md) ->
  exists out, dedisperse_pipe_packed fs nch nbits big gulp start nsamps md delays junk = Some out /\
    forall t, 0 <= t < nsamps - md -> out t = sum_n (Z.to_nat nch) (fun c => packed_sample fs nbits big ((start + t + delays c) * nch + c)).
Proof. exact dedisperse_spec_packed. Qed.
Print Assumptions C06_dedisperse_packed.

(** non-vacuity: 2 files, 6 samples x 2 channels, sub-range [1,6), gulp 2 < 2*maxdelay, delays (0,2) *)
Example C06_example :
  let fs := [mkfile [224] [1; 2; 3; 4]; mkfile [225] [5; 6; 7; 8; 9; 10; 11; 12]] in
  option_map (to_list 5) (collapse_pipe fs 2 2 1 5) = Some [7; 11; 15; 19; 23] /\
  option_map (to_list 3) (dedisperse_pipe fs 2 2 1 5 2 (of_list [0; 2])) = Some [3 + 8; 5 + 10; 7 + 12] /\
  option_map (fun p => (to_list 2 (fst p), snd p)) (bandpass_pipe fs 2 3 1 5) = Some ([3 + 5 + 7 + 9 + 11; 4 + 6 + 8 + 10 + 12], 5).
Proof. vm_compute. repeat split; reflexivity. Qed.

(** ---- the remaining reductions at the packed depths (1, 2, 4 bits; unpack after read), Proofs/C06_more.v ---- *)
Theorem C06_bandpass_packed : forall fs nch nbits big N gulp start nsamps junk,
  In nbits [1; 2; 4] -> (nch * nbits) mod 8 = 0 -> 1 <= nch ->
  1 <= nfiles fs -> total fs = N * samp_bytes nch nbits -> Forall is_byte (flat fs) ->
  0 <= start -> 1 <= nsamps -> start + nsamps <= N -> 1 <= gulp ->
  exists out n, bandpass_pipe_packed fs nch nbits big gulp start nsamps junk = Some (out, n) /\ n = nsamps /\
    forall c, 0 <= c < nch -> out c = sum_n (Z.to_nat nsamps) (fun t => packed_sample fs nbits big ((start + t) * nch + c)).
Proof. exact bandpass_spec_packed. Qed.
Print Assumptions C06_bandpass_packed.

(** independent of the reused unpack buffer [junk] and of the uninitialised output [out0] *)
Theorem C06_read_chan_packed : forall fs nch nbits big N gulp start nsamps junk,
  In nbits [1; 2; 4] -> (nch * nbits) mod 8 = 0 -> 1 <= nch ->
  1 <= nfiles fs -> total fs = N * samp_bytes nch nbits -> Forall is_byte (flat fs) ->
  0 <= start -> 1 <= nsamps -> start + nsamps <= N -> 1 <= gulp ->
  forall ichan out0, 0 <= ichan < nch ->
  exists out, read_chan_pipe_packed fs nch nbits big gulp start nsamps ichan junk out0 = Some out /\
    forall t, 0 <= t < nsamps -> out t = packed_sample fs nbits big ((start + t) * nch + ichan).
Proof. exact read_chan_spec_packed. Qed.
Print Assumptions C06_read_chan_packed.

(** the column is that of the byte-wide set holding the unpacked samples (X_unpacked: its sample k is packed_sample fs nbits big k) *)
Theorem C06_stats_packed : forall fs nch nbits big N gulp start nsamps junk,
  In nbits [1; 2; 4] -> (nch * nbits) mod 8 = 0 -> 1 <= nch ->
  1 <= nfiles fs -> total fs = N * samp_bytes nch nbits -> Forall is_byte (flat fs) ->
  0 <= start -> 1 <= nsamps -> start + nsamps <= N -> 1 <= gulp ->
  forall c full, 0 <= c < nch -> nsamps < 2 ^ 31 ->
  exists s, stats_pipe_packed fs nch nbits big gulp start nsamps full c junk = Some s /\
    inv full (column (unpacked_set fs nbits big) nch start nsamps c) s /\ inv_minmax (column (unpacked_set fs nbits big) nch start nsamps c) s.
Proof. exact stats_spec_packed. Qed.
Print Assumptions C06_stats_packed.

(** ---- item-wide samples: w bytes per sample, [dec] = the (integer) value of one item; 32-bit float data is w = 4 with dec the
    float32 decoding (integer-valued by the property's stipulation, so that the float32 sums are these exact sums).  Holds for
    EVERY width w >= 1 and EVERY decoding function. ---- *)
Theorem C06_items_transfer : forall fs nch w dec N start nsamps,
  1 <= w -> 1 <= nch -> 1 <= nfiles fs -> total fs = N * (nch * w) -> 0 <= start -> 1 <= nsamps -> start + nsamps <= N ->
  forall gulp0 skipback0, 1 <= gulp0 -> Z.abs skipback0 < Z.min nsamps gulp0 ->
  run_plan_items fs nch w dec gulp0 start nsamps skipback0 = run_plan (items_set fs w dec) nch gulp0 start nsamps skipback0.
Proof. exact run_plan_items_as_samples. Qed.
Print Assumptions C06_items_transfer.

Theorem C06_collapse_items : forall fs nch w dec N gulp start nsamps,
  1 <= w -> 1 <= nch -> 1 <= nfiles fs -> total fs = N * (nch * w) -> 0 <= start -> 1 <= nsamps -> start + nsamps <= N -> 1 <= gulp ->
  exists out, collapse_pipe_items fs nch w dec gulp start nsamps = Some out /\
    forall t, 0 <= t < nsamps -> out t = sum_n (Z.to_nat nch) (fun c => item_sample fs w dec ((start + t) * nch + c)).
Proof. exact collapse_spec_items. Qed.
Print Assumptions C06_collapse_items.

Theorem C06_bandpass_items : forall fs nch w dec N gulp start nsamps,
  1 <= w -> 1 <= nch -> 1 <= nfiles fs -> total fs = N * (nch * w) -> 0 <= start -> 1 <= nsamps -> start + nsamps <= N -> 1 <= gulp ->
  exists out n, bandpass_pipe_items fs nch w dec gulp start nsamps = Some (out, n) /\ n = nsamps /\
    forall c, 0 <= c < nch -> out c = sum_n (Z.to_nat nsamps) (fun t => item_sample fs w dec ((start + t) * nch + c)).
Proof. exact bandpass_spec_items. Qed.
Print Assumptions C06_bandpass_items.

Theorem C06_read_chan_items : forall fs nch w dec N gulp start nsamps,
  1 <= w -> 1 <= nch -> 1 <= nfiles fs -> total fs = N * (nch * w) -> 0 <= start -> 1 <= nsamps -> start + nsamps <= N -> 1 <= gulp ->
  forall ichan out0, 0 <= ichan < nch ->
  exists out, read_chan_pipe_items fs nch w dec gulp start nsamps ichan out0 = Some out /\
    forall t, 0 <= t < nsamps -> out t = item_sample fs w dec ((start + t) * nch + ichan).
Proof. exact read_chan_spec_items. Qed.
Print Assumptions C06_read_chan_items.

Theorem C06_dedisperse_items : forall fs nch w dec N gulp start nsamps,
  1 <= w -> 1 <= nch -> 1 <= nfiles fs -> total fs = N * (nch * w) -> 0 <= start -> 1 <= nsamps -> start + nsamps <= N -> 1 <= gulp ->
  forall md delays, 0 <= md < nsamps -> (forall c, 0 <= c < nch -> 0 <= delays c <= md) ->
  exists out, dedisperse_pipe_items fs nch w dec gulp start nsamps md delays = Some out /\
    forall t, 0 <= t < nsamps - md -> out t = sum_n (Z.to_nat nch) (fun c => item_sample fs w dec ((start + t + delays c) * nch + c)).
Proof. exact dedisperse_spec_items. Qed.
Print Assumptions C06_dedisperse_items.

Theorem C06_stats_items : forall fs nch w dec N gulp start nsamps,
  1 <= w -> 1 <= nch -> 1 <= nfiles fs -> total fs = N * (nch * w) -> 0 <= start -> 1 <= nsamps -> start + nsamps <= N -> 1 <= gulp ->
  forall c full, 0 <= c < nch -> nsamps < 2 ^ 31 ->
  exists s, stats_pipe_items fs nch w dec gulp start nsamps full c = Some s /\
    inv full (column (items_set fs w dec) nch start nsamps c) s /\ inv_minmax (column (items_set fs w dec) nch start nsamps c) s.
Proof. exact stats_spec_items. Qed.
Print Assumptions C06_stats_items.

(** ---- changing only the gulp never changes the result: the reductions that had no corollary yet ---- *)
Theorem C06_gulp_irrelevant_bandpass : forall fs nch N g1 g2 start nsamps,
  1 <= nfiles fs -> 1 <= nch -> total fs = N * nch -> 0 <= start -> 1 <= nsamps -> start + nsamps <= N -> 1 <= g1 -> 1 <= g2 ->
  exists o1 n1 o2 n2, bandpass_pipe fs nch g1 start nsamps = Some (o1, n1) /\ bandpass_pipe fs nch g2 start nsamps = Some (o2, n2) /\
    n1 = n2 /\ forall c, 0 <= c < nch -> o1 c = o2 c.
Proof. exact gulp_irrelevant_bandpass. Qed.
Print Assumptions C06_gulp_irrelevant_bandpass.

Theorem C06_gulp_irrelevant_read_chan : forall fs nch N g1 g2 start nsamps,
  1 <= nfiles fs -> 1 <= nch -> total fs = N * nch -> 0 <= start -> 1 <= nsamps -> start + nsamps <= N -> 1 <= g1 -> 1 <= g2 ->
  forall ichan junk1 junk2, 0 <= ichan < nch ->
  exists o1 o2, read_chan_pipe fs nch g1 start nsamps ichan junk1 = Some o1 /\ read_chan_pipe fs nch g2 start nsamps ichan junk2 = Some o2 /\
    forall t, 0 <= t < nsamps -> o1 t = o2 t.
Proof. exact gulp_irrelevant_read_chan. Qed.
Print Assumptions C06_gulp_irrelevant_read_chan.

(** the two accumulator states agree field by field as rationals (count, mean, M2, min, max; M3 and M4 in full mode) *)
Theorem C06_gulp_irrelevant_stats : forall fs nch N g1 g2 start nsamps c full,
  1 <= nfiles fs -> 1 <= nch -> SPP.Model.Stream.total fs = N * nch -> 0 <= start -> 1 <= nsamps -> start + nsamps <= N -> 1 <= g1 -> 1 <= g2 ->
  0 <= c < nch -> nsamps < 2 ^ 31 ->
  exists s1 s2, stats_pipe fs nch g1 start nsamps full c = Some s1 /\ stats_pipe fs nch g2 start nsamps full c = Some s2 /\ st_agree full s1 s2.
Proof. exact gulp_irrelevant_stats. Qed.
Print Assumptions C06_gulp_irrelevant_stats.

Theorem C06_gulp_irrelevant_packed : forall fs nch nbits big N g1 g2 start nsamps md delays ichan junk1 junk2 out1 out2,
  In nbits [1; 2; 4] -> (nch * nbits) mod 8 = 0 -> 1 <= nch ->
  1 <= nfiles fs -> total fs = N * samp_bytes nch nbits -> Forall is_byte (flat fs) ->
  0 <= start -> 1 <= nsamps -> start + nsamps <= N -> 1 <= g1 -> 1 <= g2 ->
  0 <= md < nsamps -> (forall c, 0 <= c < nch -> 0 <= delays c <= md) -> 0 <= ichan < nch ->
  (exists a b, collapse_pipe_packed fs nch nbits big g1 start nsamps junk1 = Some a /\ collapse_pipe_packed fs nch nbits big g2 start nsamps junk2 = Some b /\
     forall t, 0 <= t < nsamps -> a t = b t) /\
  (exists a n b m, bandpass_pipe_packed fs nch nbits big g1 start nsamps junk1 = Some (a, n) /\ bandpass_pipe_packed fs nch nbits big g2 start nsamps junk2 = Some (b, m) /\
     n = m /\ forall c, 0 <= c < nch -> a c = b c) /\
  (exists a b, read_chan_pipe_packed fs nch nbits big g1 start nsamps ichan junk1 out1 = Some a /\ read_chan_pipe_packed fs nch nbits big g2 start nsamps ichan junk2 out2 = Some b /\
     forall t, 0 <= t < nsamps -> a t = b t) /\
  (exists a b, dedisperse_pipe_packed fs nch nbits big g1 start nsamps md delays junk1 = Some a /\ dedisperse_pipe_packed fs nch nbits big g2 start nsamps md delays junk2 = Some b /\
     forall t, 0 <= t < nsamps - md -> a t = b t).
Proof. exact gulp_irrelevant_packed. Qed.
Print Assumptions C06_gulp_irrelevant_packed.

Theorem C06_gulp_irrelevant_items : forall fs nch w dec N g1 g2 start nsamps md delays ichan out1 out2,
  1 <= w -> 1 <= nch -> 1 <= nfiles fs -> total fs = N * (nch * w) ->
  0 <= start -> 1 <= nsamps -> start + nsamps <= N -> 1 <= g1 -> 1 <= g2 ->
  0 <= md < nsamps -> (forall c, 0 <= c < nch -> 0 <= delays c <= md) -> 0 <= ichan < nch ->
  (exists a b, collapse_pipe_items fs nch w dec g1 start nsamps = Some a /\ collapse_pipe_items fs nch w dec g2 start nsamps = Some b /\
     forall t, 0 <= t < nsamps -> a t = b t) /\
  (exists a n b m, bandpass_pipe_items fs nch w dec g1 start nsamps = Some (a, n) /\ bandpass_pipe_items fs nch w dec g2 start nsamps = Some (b, m) /\
     n = m /\ forall c, 0 <= c < nch -> a c = b c) /\
  (exists a b, read_chan_pipe_items fs nch w dec g1 start nsamps ichan out1 = Some a /\ read_chan_pipe_items fs nch w dec g2 start nsamps ichan out2 = Some b /\
     forall t, 0 <= t < nsamps -> a t = b t) /\
  (exists a b, dedisperse_pipe_items fs nch w dec g1 start nsamps md delays = Some a /\ dedisperse_pipe_items fs nch w dec g2 start nsamps md delays = Some b /\
     forall t, 0 <= t < nsamps - md -> a t = b t).
Proof. exact gulp_irrelevant_items. Qed.
Print Assumptions C06_gulp_irrelevant_items.

(** non-vacuity, packed: 2-bit, 4 channels (one byte per sample), 2 files, 5 samples [27;228;0;255;57], sub-range [1,5), gulp 3 (two blocks).
    byte 228 = 0b11100100 holds the little-endian fields 0,1,2,3 *)
Example C06_example_packed :
  let fs := [mkfile [7; 7] [27; 228]; mkfile [9] [0; 255; 57]] in
  let junk := fun _ : Z => -9 in
  (In 2 [1; 2; 4] /\ (4 * 2) mod 8 = 0 /\ total fs = 5 * samp_bytes 4 2 /\ Forall is_byte (flat fs)) /\
  option_map (to_list 4) (read_chan_pipe_packed fs 4 2 false 3 1 4 1 junk (fun _ => -7)) = Some [1; 0; 3; 2] /\
  option_map (fun p => (to_list 4 (fst p), snd p)) (bandpass_pipe_packed fs 4 2 false 3 1 4 junk) = Some ([0 + 0 + 3 + 1; 1 + 0 + 3 + 2; 2 + 0 + 3 + 3; 3 + 0 + 3 + 0], 4) /\
  option_map (to_list 4) (collapse_pipe_packed fs 4 2 false 3 1 4 junk) = Some [6; 0; 12; 6].
Proof. vm_compute. repeat split; try reflexivity; try discriminate; repeat constructor; discriminate. Qed.

(** non-vacuity, item-wide: w = 4 bytes per sample with a toy decoding (first byte + 256 * second byte), 2 channels, 2 files whose
    boundary falls inside the stream, 4 samples, sub-range [1,4), gulp 2 (one full block + a partial one), delays (0,1) *)
Definition toy_dec (l : list Z) : Z := nth 0 l 0 + 256 * nth 1 l 0.
Example C06_example_items :
  let fs := [mkfile [1] [1;0;9;9; 2;0;9;9; 3;0;9;9; 4;0;9;9]; mkfile [2; 2] [5;0;9;9; 6;0;9;9; 7;1;9;9; 8;0;9;9]] in
  total fs = 4 * (2 * 4) /\
  option_map (to_list 3) (collapse_pipe_items fs 2 4 toy_dec 2 1 3) = Some [3 + 4; 5 + 6; 263 + 8] /\
  option_map (to_list 3) (read_chan_pipe_items fs 2 4 toy_dec 2 1 3 0 (fun _ => -7)) = Some [3; 5; 263] /\
  option_map (fun p => (to_list 2 (fst p), snd p)) (bandpass_pipe_items fs 2 4 toy_dec 2 1 3) = Some ([3 + 5 + 263; 4 + 6 + 8], 3) /\
  option_map (to_list 2) (dedisperse_pipe_items fs 2 4 toy_dec 1 1 3 1 (of_list [0; 1])) = Some [3 + 6; 5 + 8].
Proof. vm_compute. repeat split; reflexivity. Qed.

(** ---- statistics at the packed depths / for item-wide samples, pointwise: the accumulator of channel c satisfies the C10 invariant
    (count, mean and central sums in closed form, min, max) of the list of the selected samples of that channel themselves ---- *)
Theorem C06_stats_packed_pointwise : forall fs nch nbits big N gulp start nsamps junk c full,
  In nbits [1; 2; 4] -> (nch * nbits) mod 8 = 0 -> 1 <= nch ->
  1 <= nfiles fs -> total fs = N * samp_bytes nch nbits -> Forall is_byte (flat fs) ->
  0 <= start -> 1 <= nsamps -> start + nsamps <= N -> 1 <= gulp -> 0 <= c < nch -> nsamps < 2 ^ 31 ->
  exists s, stats_pipe_packed fs nch nbits big gulp start nsamps full c junk = Some s /\
    inv full (map (fun t => QArith_base.inject_Z (packed_sample fs nbits big ((start + t) * nch + c))) (zrange nsamps)) s /\
    inv_minmax (map (fun t => QArith_base.inject_Z (packed_sample fs nbits big ((start + t) * nch + c))) (zrange nsamps)) s.
Proof. exact stats_pointwise_packed. Qed.
Print Assumptions C06_stats_packed_pointwise.

Theorem C06_stats_items_pointwise : forall fs nch w dec N gulp start nsamps c full,
  1 <= w -> 1 <= nch -> 1 <= nfiles fs -> total fs = N * (nch * w) ->
  0 <= start -> 1 <= nsamps -> start + nsamps <= N -> 1 <= gulp -> 0 <= c < nch -> nsamps < 2 ^ 31 ->
  exists s, stats_pipe_items fs nch w dec gulp start nsamps full c = Some s /\
    inv full (map (fun t => QArith_base.inject_Z (item_sample fs w dec ((start + t) * nch + c))) (zrange nsamps)) s /\
    inv_minmax (map (fun t => QArith_base.inject_Z (item_sample fs w dec ((start + t) * nch + c))) (zrange nsamps)) s.
Proof. exact stats_pointwise_items. Qed.
Print Assumptions C06_stats_items_pointwise.

Theorem C06_gulp_irrelevant_stats_packed : forall fs nch nbits big N g1 g2 start nsamps junk1 junk2 c full,
  In nbits [1; 2; 4] -> (nch * nbits) mod 8 = 0 -> 1 <= nch ->
  1 <= nfiles fs -> total fs = N * samp_bytes nch nbits -> Forall is_byte (flat fs) ->
  0 <= start -> 1 <= nsamps -> start + nsamps <= N -> 1 <= g1 -> 1 <= g2 -> 0 <= c < nch -> nsamps < 2 ^ 31 ->
  exists s1 s2, stats_pipe_packed fs nch nbits big g1 start nsamps full c junk1 = Some s1 /\
                stats_pipe_packed fs nch nbits big g2 start nsamps full c junk2 = Some s2 /\ st_agree full s1 s2.
Proof. exact gulp_irrelevant_stats_packed. Qed.
Print Assumptions C06_gulp_irrelevant_stats_packed.

Theorem C06_gulp_irrelevant_stats_items : forall fs nch w dec N g1 g2 start nsamps c full,
  1 <= w -> 1 <= nch -> 1 <= nfiles fs -> total fs = N * (nch * w) ->
  0 <= start -> 1 <= nsamps -> start + nsamps <= N -> 1 <= g1 -> 1 <= g2 -> 0 <= c < nch -> nsamps < 2 ^ 31 ->
  exists s1 s2, stats_pipe_items fs nch w dec g1 start nsamps full c = Some s1 /\
                stats_pipe_items fs nch w dec g2 start nsamps full c = Some s2 /\ st_agree full s1 s2.
Proof. exact gulp_irrelevant_stats_items. Qed.
Print Assumptions C06_gulp_irrelevant_stats_items.

(** non-vacuity: the files of C06_example_packed / C06_example_items; channel 1 of the 2-bit set over [1,5) is 1,0,3,2 (gulp 3: two
    blocks), channel 0 of the item-wide set over [1,4) is 3,5,263 (gulp 2: a full and a partial block) *)
Example C06_example_stats_pointwise :
  let fp := [mkfile [7; 7] [27; 228]; mkfile [9] [0; 255; 57]] in
  let fi := [mkfile [1] [1;0;9;9; 2;0;9;9; 3;0;9;9; 4;0;9;9]; mkfile [2; 2] [5;0;9;9; 6;0;9;9; 7;1;9;9; 8;0;9;9]] in
  let view := fun s => (s_cnt s, Qreduction.Qred (s_m1 s), Qreduction.Qred (s_m2 s), Qreduction.Qred (s_min s), Qreduction.Qred (s_max s)) in
  map Qreduction.Qred (packed_column fp 2 false 4 1 4 1) = map QArith_base.inject_Z [1; 0; 3; 2] /\
  option_map view (stats_pipe_packed fp 4 2 false 3 1 4 true 1 (fun _ => -9)) = Some (4, QArith_base.Qmake 3 2, QArith_base.Qmake 5 1, QArith_base.Qmake 0 1, QArith_base.Qmake 3 1) /\
  option_map view (stats_pipe_packed fp 4 2 false 1 1 4 true 1 (fun _ => -9)) = Some (4, QArith_base.Qmake 3 2, QArith_base.Qmake 5 1, QArith_base.Qmake 0 1, QArith_base.Qmake 3 1) /\
  map Qreduction.Qred (item_column fi 4 toy_dec 2 1 3 0) = map QArith_base.inject_Z [3; 5; 263] /\
  option_map (fun s => (s_cnt s, Qreduction.Qred (s_m1 s), Qreduction.Qred (s_min s), Qreduction.Qred (s_max s))) (stats_pipe_items fi 2 4 toy_dec 2 1 3 false 0)
    = Some (3, QArith_base.Qmake 271 3, QArith_base.Qmake 3 1, QArith_base.Qmake 263 1).
Proof. vm_compute. repeat split; reflexivity. Qed.

(** ---- delays of either sign (ascending band, negative DM): [raw] are the law delays (C09), [mn] a lower bound of them over the band
    (the code uses their minimum); the vector handed to the kernel is Gen.BaseSites.dedisperse_norm, regenerated from
    Filterbank.dedisperse.  No sign hypothesis on [raw]: if the source stops referring the delays to the earliest channel this
    theorem no longer builds. ---- *)
Theorem C06_dedisperse_anysign : forall fs nch N gulp start nsamps md raw mn,
  1 <= nfiles fs -> 1 <= nch -> total fs = N * nch -> 0 <= start -> 1 <= nsamps -> start + nsamps <= N -> 1 <= gulp ->
  (forall c, 0 <= c < nch -> mn <= raw c) ->
  (forall c, 0 <= c < nch -> dedisperse_norm mn (raw c) <= md) -> 0 <= md < nsamps ->
  exists out, dedisperse_pipe fs nch gulp start nsamps md (fun c => dedisperse_norm mn (raw c)) = Some out /\
    forall t, 0 <= t < nsamps - md -> out t = dedisp fs nch start (fun c => dedisperse_norm mn (raw c)) t.
Proof. exact dedisperse_spec_anysign. Qed.
Print Assumptions C06_dedisperse_anysign.

Theorem C06_read_chan_len : forall N start nsamps, read_chan_len N start nsamps 0 = nsamps /\ read_chan_len N start nsamps 1 = N - start.
Proof. exact read_chan_len_spec. Qed.
Print Assumptions C06_read_chan_len.

(** non-vacuity: the files of C06_example, ascending-band law delays (0,-2): referred to the earliest channel they are (2,0) *)
Example C06_example_anysign :
  let fs := [mkfile [224] [1; 2; 3; 4]; mkfile [225] [5; 6; 7; 8; 9; 10; 11; 12]] in
  let raw := of_list [0; -2] in
  Forall (fun c => -2 <= raw c) [0; 1] /\ map (fun c => dedisperse_norm (-2) (raw c)) [0; 1] = [2; 0] /\
  option_map (to_list 3) (dedisperse_pipe fs 2 2 1 5 2 (fun c => dedisperse_norm (-2) (raw c))) = Some [7 + 4; 9 + 6; 11 + 8].
Proof. split; [repeat constructor; vm_compute; discriminate|]. vm_compute. split; reflexivity. Qed.
