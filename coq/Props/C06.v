(** C06 -- streaming reductions are independent of the gulp size and equal their definitions.
    Subject: Model/C06_pipe.v = Model.Plan.run_plan (C01) o Gen.BaseSites per-block functions and output lengths
    (regenerated from base.py) o Gen.Kernels loop nests (regenerated from kernels.py).
    [X fs k] is the k-th data sample of the (multi-file) stream, sample t channel c at index t*nchans + c. *)
From Coq Require Import ZArith List Bool.
Require Import SPP.Base.Rt SPP.Gen.Kernels SPP.Gen.Plan SPP.Gen.BaseSites SPP.Model.Stream SPP.Model.Plan SPP.Model.C06_pipe
               SPP.Model.Bits SPP.Model.PlanPacked SPP.Proofs.C02_stream SPP.Proofs.C01_plan SPP.Proofs.C01_packed SPP.Proofs.C06_reduce SPP.Model.C10_moments SPP.Proofs.C07_transforms SPP.Proofs.C06_stats.
Import ListNotations.
Open Scope Z_scope.

Theorem C06_collapse : forall fs nch N gulp start nsamps,
  1 <= nfiles fs -> 1 <= nch -> total fs = N * nch -> 0 <= start -> 1 <= nsamps -> start + nsamps <= N -> 1 <= gulp ->
  exists out, collapse_pipe fs nch gulp start nsamps = Some out /\
    forall t, 0 <= t < nsamps -> out t = chansum fs nch (start + t).
Proof. exact collapse_spec. Qed.
Print Assumptions C06_collapse.

Theorem C06_collapse_len : forall N start nsamps, collapse_len N start nsamps 0 = nsamps /\ collapse_len N start nsamps 1 = N - start.
Proof. exact collapse_len_spec. Qed.
Print Assumptions C06_collapse_len.

(** the accumulated sums are the per-channel sums over the selected samples and the divisor is their number *)
Theorem C06_bandpass : forall fs nch N gulp start nsamps,
  1 <= nfiles fs -> 1 <= nch -> total fs = N * nch -> 0 <= start -> 1 <= nsamps -> start + nsamps <= N -> 1 <= gulp ->
  exists out n, bandpass_pipe fs nch gulp start nsamps = Some (out, n) /\ n = nsamps /\
    forall c, 0 <= c < nch -> out c = chancol fs nch start c (Z.to_nat nsamps).
Proof. exact bandpass_spec. Qed.
Print Assumptions C06_bandpass.

(** independent of the uninitialised output buffer [junk] *)
Theorem C06_read_chan : forall fs nch N gulp start nsamps ichan junk,
  1 <= nfiles fs -> 1 <= nch -> total fs = N * nch -> 0 <= start -> 1 <= nsamps -> start + nsamps <= N -> 1 <= gulp ->
  0 <= ichan < nch ->
  exists out, read_chan_pipe fs nch gulp start nsamps ichan junk = Some out /\
    forall t, 0 <= t < nsamps -> out t = X fs ((start + t) * nch + ichan).
Proof. exact read_chan_spec. Qed.
Print Assumptions C06_read_chan.

(** any delay vector with 0 <= d_c <= maxdelay < nsamps, any gulp >= 1 (gulp < 2*maxdelay and 2*maxdelay > nsamps included) *)
Theorem C06_dedisperse : forall fs nch N gulp start nsamps md delays,
  1 <= nfiles fs -> 1 <= nch -> total fs = N * nch -> 0 <= start -> 1 <= nsamps -> start + nsamps <= N -> 1 <= gulp ->
  0 <= md < nsamps -> (forall c, 0 <= c < nch -> 0 <= delays c <= md) ->
  exists out, dedisperse_pipe fs nch gulp start nsamps md delays = Some out /\
    forall t, 0 <= t < nsamps - md -> out t = dedisp fs nch start delays t.
Proof. exact dedisperse_spec. Qed.
Print Assumptions C06_dedisperse.

Theorem C06_dedisperse_len : forall N start nsamps md, dedisperse_len N start nsamps 0 md = nsamps - md.
Proof. exact dedisperse_len_spec. Qed.
Print Assumptions C06_dedisperse_len.

(** the variance/skewness/kurtosis divisor of compute_stats is the number of samples pushed *)
Theorem C06_stats_divisor : forall N start nsamps, stats_divisor N start nsamps 0 = nsamps /\ stats_divisor N start nsamps 1 = N - start.
Proof. intros; split; reflexivity. Qed.
Print Assumptions C06_stats_divisor.

(** compute_stats(_basic): for every gulp the accumulator of channel c satisfies the C10 invariant (count, mean and central sums
    in closed form, min, max) of exactly the selected samples of that channel; with C10's theorems these are the two-pass moments *)
Theorem C06_stats : forall fs nch N gulp start nsamps c full,
  1 <= nfiles fs -> 1 <= nch -> SPP.Model.Stream.total fs = N * nch -> 0 <= start -> 1 <= nsamps -> start + nsamps <= N -> 1 <= gulp ->
  0 <= c < nch -> nsamps < 2 ^ 31 ->
  exists s, stats_pipe fs nch gulp start nsamps full c = Some s /\
    inv full (column fs nch start nsamps c) s /\ inv_minmax (column fs nch start nsamps c) s.
Proof. exact stats_spec. Qed.
Print Assumptions C06_stats.

(** changing only the gulp never changes the result *)
Corollary C06_gulp_irrelevant_collapse : forall fs nch N g1 g2 start nsamps,
  1 <= nfiles fs -> 1 <= nch -> total fs = N * nch -> 0 <= start -> 1 <= nsamps -> start + nsamps <= N -> 1 <= g1 -> 1 <= g2 ->
  exists o1 o2, collapse_pipe fs nch g1 start nsamps = Some o1 /\ collapse_pipe fs nch g2 start nsamps = Some o2 /\
    forall t, 0 <= t < nsamps -> o1 t = o2 t.
Proof. intros fs nch N g1 g2 start nsamps H1 H2 H3 H4 H5 H6 H7 H8.
  destruct (collapse_spec fs nch N g1 start nsamps H1 H2 H3 H4 H5 H6 H7) as [o1 [E1 S1]].
  destruct (collapse_spec fs nch N g2 start nsamps H1 H2 H3 H4 H5 H6 H8) as [o2 [E2 S2]].
  exists o1, o2. repeat split; try assumption. intros t Ht. rewrite S1, S2 by assumption. reflexivity. Qed.
Print Assumptions C06_gulp_irrelevant_collapse.

Corollary C06_gulp_irrelevant_dedisperse : forall fs nch N g1 g2 start nsamps md delays,
  1 <= nfiles fs -> 1 <= nch -> total fs = N * nch -> 0 <= start -> 1 <= nsamps -> start + nsamps <= N -> 1 <= g1 -> 1 <= g2 ->
  0 <= md < nsamps -> (forall c, 0 <= c < nch -> 0 <= delays c <= md) ->
  exists o1 o2, dedisperse_pipe fs nch g1 start nsamps md delays = Some o1 /\ dedisperse_pipe fs nch g2 start nsamps md delays = Some o2 /\
    forall t, 0 <= t < nsamps - md -> o1 t = o2 t.
Proof. intros fs nch N g1 g2 start nsamps md delays H1 H2 H3 H4 H5 H6 H7 H8 H9 H10.
  destruct (dedisperse_spec fs nch N g1 start nsamps md delays H1 H2 H3 H4 H5 H6 H7 H9 H10) as [o1 [E1 S1]].
  destruct (dedisperse_spec fs nch N g2 start nsamps md delays H1 H2 H3 H4 H5 H6 H8 H9 H10) as [o2 [E2 S2]].
  exists o1, o2. repeat split; try assumption. intros t Ht. rewrite S1, S2 by assumption. reflexivity. Qed.
Print Assumptions C06_gulp_irrelevant_dedisperse.

(** packed depths (1, 2, 4 bits): reading a packed set is reading the byte-wide set of its unpacked samples
    (Proofs/C01_packed.v: plan o generated unpack kernels), so the reductions equal their definitions on the unpacked samples *)
Theorem C06_packed_transfer : forall fs nch nbits big N gulp0 start nsamps skipback0 junk,
  In nbits [1; 2; 4] -> (nch * nbits) mod 8 = 0 -> 1 <= nch ->
  1 <= nfiles fs -> total fs = N * samp_bytes nch nbits -> Forall is_byte (flat fs) ->
  0 <= start -> 1 <= nsamps -> start + nsamps <= N -> 1 <= gulp0 -> Z.abs skipback0 < Z.min nsamps gulp0 ->
  run_plan_packed fs nch nbits big gulp0 start nsamps skipback0 junk =
  run_plan (unpacked_set fs nbits big) nch gulp0 start nsamps skipback0
  /\ 1 <= nfiles (unpacked_set fs nbits big) /\ total (unpacked_set fs nbits big) = N * nch.
Proof. exact run_plan_packed_as_bytes. Qed.
Print Assumptions C06_packed_transfer.

Theorem C06_collapse_packed : forall fs nch nbits big N gulp start nsamps junk,
  In nbits [1; 2; 4] -> (nch * nbits) mod 8 = 0 -> 1 <= nch ->
  1 <= nfiles fs -> total fs = N * samp_bytes nch nbits -> Forall is_byte (flat fs) ->
  0 <= start -> 1 <= nsamps -> start + nsamps <= N -> 1 <= gulp ->
  exists out, collapse_pipe_packed fs nch nbits big gulp start nsamps junk = Some out /\
    forall t, 0 <= t < nsamps -> out t = sum_n (Z.to_nat nch) (fun c => packed_sample fs nbits big ((start + t) * nch + c)).
Proof. exact collapse_spec_packed. Qed.
Print Assumptions C06_collapse_packed.

Theorem C06_dedisperse_packed : forall fs nch nbits big N gulp start nsamps md delays junk,
  In nbits [1; 2; 4] -> (nch * nbits) mod 8 = 0 -> 1 <= nch ->
  1 <= nfiles fs -> total fs = N * samp_bytes nch nbits -> Forall is_byte (flat fs) ->
  0 <= start -> 1 <= nsamps -> start + nsamps <= N -> 1 <= gulp ->
  0 <= md < nsamps -> (forall c, 0 <= c < nch -> 0 <= delays c <= md) ->
  exists out, dedisperse_pipe_packed fs nch nbits big gulp start nsamps md delays junk = Some out /\
    forall t, 0 <= t < nsamps - md -> out t = sum_n (Z.to_nat nch) (fun c => packed_sample fs nbits big ((start + t + delays c) * nch + c)).
Proof. exact dedisperse_spec_packed. Qed.
Print Assumptions C06_dedisperse_packed.

(** non-vacuity: 2 files, 6 samples x 2 channels, sub-range [1,6), gulp 2 < 2*maxdelay, delays (0,2) *)
Example C06_example :
  let fs := [mkfile [224] [1; 2; 3; 4]; mkfile [225] [5; 6; 7; 8; 9; 10; 11; 12]] in
  option_map (to_list 5) (collapse_pipe fs 2 2 1 5) = Some [7; 11; 15; 19; 23] /\
  option_map (to_list 3) (dedisperse_pipe fs 2 2 1 5 2 (of_list [0; 2])) = Some [3 + 8; 5 + 10; 7 + 12] /\
  option_map (fun p => (to_list 2 (fst p), snd p)) (bandpass_pipe fs 2 3 1 5) = Some ([3 + 5 + 7 + 9 + 11; 4 + 6 + 8 + 10 + 12], 5).
Proof. vm_compute. repeat split; reflexivity. Qed.
