(** C05 -- SIGPROC headers survive encode/parse; in-place edits touch only their key.

    Only property theorems here, each closed by [exact] of a lemma from Proofs/C05_*.v.  Subjects:
    the executable model Model/C05_HeaderCodec.v / Model/C05_RaDec.v (which follows io/sigproc.py statement by
    statement; the text of the modelled functions is pinned by tools/py2coq/gen_c05.py) over the tables, the
    length-prefix modes of [encode_key], the formatting modes of [parse_radec] and the frame functions
    REGENERATED from the current source into Gen/C05Header.v.

    A theorem of the form [if <mode> then A else B] is the full-strength property in the branch selected by a
    correct source and, in the other branch, a refutation witness together with the theorem for the regime that
    still holds ("partial"); [<mode>] is a closed boolean of Gen/C05Header.v, so the statement reduces to one
    branch for the tree being checked (the check prints which). *)
From Coq Require Import ZArith List Bool QArith.
Require Import SPP.Gen.C05Header SPP.Model.C05_HeaderCodec SPP.Model.C05_RaDec.
Require Import SPP.Proofs.C05_codec SPP.Proofs.C05_radec SPP.Proofs.C05_status SPP.Proofs.C05_chars SPP.Proofs.C05_pointing.
Import ListNotations.
Open Scope Z_scope.

(** ** 1. Codec *)

(** The parser accepts the SIGPROC layout of every well-formed header (recognised keys in any order, each at most
    once, values in range, [nbits] and [nchans] present and non-zero as [parse_header] itself requires), returns
    exactly that dictionary and the header length, whatever follows the header.  No mode involved. *)
Theorem C05_parse_layout : forall h rest, wf_header h -> has_layout h = true ->
  parse_header (fmt_header h ++ rest) = Some (h, blen (fmt_header h)).
Proof. exact parse_fmt. Qed.
Print Assumptions C05_parse_layout.

(** parse (encode h ++ rest) = (h, |encode h|).
    Full strength when string lengths are counted in bytes; when [encode_key] counts characters (pinned tree):
    partial -- strings without multi-byte characters -- and refuted by a header with a two-byte character. *)
Theorem C05_parse_encode :
  if vallen_chars return Prop
  then (forall h rest, wf_header h -> has_layout h = true -> header_no_cont h = true ->
          exists b, encode_header h = Some b /\ parse_header (b ++ rest) = Some (h, blen b))
       /\ (exists h b, wf_header h /\ has_layout h = true /\ encode_header h = Some b /\ parse_header b = None)
  else forall h rest, wf_header h -> has_layout h = true ->
          exists b, encode_header h = Some b /\ parse_header (b ++ rest) = Some (h, blen b).
Proof. exact parse_encode_status. Qed.
Print Assumptions C05_parse_encode.

(** encode (parse bytes) = the header bytes, for every well-formed header region [fmt_header h] followed by
    arbitrary data.  Same modes as above. *)
Theorem C05_encode_parse :
  if vallen_chars return Prop
  then (forall h rest, wf_header h -> has_layout h = true -> header_no_cont h = true ->
          exists h' n, parse_header (fmt_header h ++ rest) = Some (h', n) /\ 0 <= n <= blen (fmt_header h ++ rest) /\
                       encode_header h' = Some (firstn (Z.to_nat n) (fmt_header h ++ rest)))
       /\ (exists h h' n b, wf_header h /\ has_layout h = true /\ parse_header (fmt_header h) = Some (h', n) /\
                            encode_header h' = Some b /\ b <> fmt_header h)
  else forall h rest, wf_header h -> has_layout h = true ->
          exists h' n, parse_header (fmt_header h ++ rest) = Some (h', n) /\ 0 <= n <= blen (fmt_header h ++ rest) /\
                       encode_header h' = Some (firstn (Z.to_nat n) (fmt_header h ++ rest)).
Proof. exact encode_parse_status. Qed.
Print Assumptions C05_encode_parse.

(** ** 2. edit_header *)

(** a call that returns leaves the file length and every byte behind the header unchanged (every mode) *)
Theorem C05_edit_preserves_data : forall h data k v file', wf_header h -> has_layout h = true ->
  edit_header (fmt_header h ++ data) k v = Some file' ->
  exists nb, file' = nb ++ data /\ length nb = length (fmt_header h).
Proof. exact edit_preserves_data_cur. Qed.
Print Assumptions C05_edit_preserves_data.

(** a call that raises leaves the file byte-identical (in the model the single write follows every raise; the
    correspondence and the oracle compare whole files around raising calls) *)
Theorem C05_edit_err : forall file k v, edit_header file k v = None -> file_after_edit file k v = file.
Proof. exact edit_err. Qed.
Print Assumptions C05_edit_err.

(** a call that returns has rewritten exactly the value of key [k] (which was present), by a value of the same
    encoded length: [file = pre ++ old ++ post], [file' = pre ++ new ++ post], and [file'] is the layout of the
    dictionary with that one value replaced.  Full strength / partial + refuted as for the codec: when lengths
    count characters a same-length edit with a multi-byte string writes a header that no longer parses. *)
Theorem C05_edit_ok :
  if vallen_chars return Prop
  then (forall h data k v file', wf_header h -> has_layout h = true -> header_no_cont h = true -> value_no_cont v = true -> value_utf8 v = true ->
          edit_header (fmt_header h ++ data) k v = Some file' -> edit_rewrites_value h data k v file')
       /\ (exists h data k v file', wf_header h /\ has_layout h = true /\
             edit_header (fmt_header h ++ data) k v = Some file' /\ parse_header file' = None)
  else forall h data k v file', wf_header h -> has_layout h = true -> value_utf8 v = true ->
          edit_header (fmt_header h ++ data) k v = Some file' -> edit_rewrites_value h data k v file'.
Proof. exact edit_status. Qed.
Print Assumptions C05_edit_ok.

Theorem C05_edit_reparse : forall h data k v file', edit_rewrites_value h data k v file' ->
  exists h1 old h2 v', h = h1 ++ (k, old) :: h2 /\ edit_value h k v = Some v' /\
    (has_layout (h1 ++ (k, v') :: h2) = true ->
     parse_header file' = Some (h1 ++ (k, v') :: h2, blen (fmt_header h))).
Proof. exact edit_reparse. Qed.
Print Assumptions C05_edit_reparse.

(** ** 2b. characters and bytes in edit_header: every byte string (multi-byte code points, control characters)

    [edit_header] pads / truncates a new source name by CHARACTERS ([pad_name] follows the Python slice on code points);
    the layout counts BYTES.  For every pair of byte strings: the padded name has the character count of the old one, *)
Theorem C05_pad_name_chars : forall old new, py_len (pad_name old new) = py_len old.
Proof. exact py_len_pad_name. Qed.
Print Assumptions C05_pad_name_chars.

(** is the new name itself when the character counts agree, *)
Theorem C05_pad_name_same : forall old new, py_len new = py_len old -> pad_name old new = new.
Proof. exact pad_name_same_chars. Qed.
Print Assumptions C05_pad_name_same.

(** is the whole new name followed by the missing blanks when it is shorter (no character is ever split), *)
Theorem C05_pad_name_shorter : forall old new, py_len new <= py_len old ->
  pad_name old new = new ++ repeat 32 (nchars old - nchars new).
Proof. exact pad_name_shorter. Qed.
Print Assumptions C05_pad_name_shorter.

(** and is the byte arithmetic [value[:n] + blanks] on names without multi-byte characters. *)
Theorem C05_pad_name_ascii : forall old new, no_cont old = true -> no_cont new = true ->
  pad_name old new = firstn (length old) new ++ repeat 32 (length old - length new).
Proof. exact pad_name_ascii. Qed.
Print Assumptions C05_pad_name_ascii.

(** Strings are Python str objects, i.e. well-formed UTF-8 ([wf_value] demands [valid_utf8], the strict decoder of
    [_read_string]; every string in the codec theorems above ranges over ALL such byte strings).  The character slice and
    the blank padding of [edit_header] never split a code point: the padded name is again well-formed UTF-8, so the header
    it writes parses ([C05_edit_reparse]). *)
Theorem C05_utf8_pad_name : forall old s, valid_utf8 s = true -> valid_utf8 (pad_name old s) = true.
Proof. exact valid_pad_name. Qed.
Print Assumptions C05_utf8_pad_name.

Theorem C05_utf8_app : forall a b, valid_utf8 a = true -> valid_utf8 b = true -> valid_utf8 (a ++ b) = true.
Proof. exact valid_utf8_app. Qed.
Print Assumptions C05_utf8_app.

(** Conversely to [C05_edit_ok]: an edit whose (padded) value is well-typed and has the ENCODED length of the value in the
    file is accepted, and the file becomes the layout of the dictionary with that one value replaced.  Full strength
    when lengths count bytes; in the character-counting mode only for strings without multi-byte characters. *)
Theorem C05_edit_accepts :
  if vallen_chars return Prop
  then forall h1 k old h2 data v v' t,
         wf_header (h1 ++ (k, old) :: h2) -> has_layout (h1 ++ (k, old) :: h2) = true -> lookup k header_keys = Some t ->
         edit_value (h1 ++ (k, old) :: h2) k v = Some v' -> wf_value t v' -> length (fmt_value t v') = length (fmt_value t old) ->
         header_no_cont (h1 ++ (k, old) :: h2) = true -> value_no_cont v' = true ->
         edit_header (fmt_header (h1 ++ (k, old) :: h2) ++ data) k v = Some (fmt_header (h1 ++ (k, v') :: h2) ++ data)
  else forall h1 k old h2 data v v' t,
         wf_header (h1 ++ (k, old) :: h2) -> has_layout (h1 ++ (k, old) :: h2) = true -> lookup k header_keys = Some t ->
         edit_value (h1 ++ (k, old) :: h2) k v = Some v' -> wf_value t v' -> length (fmt_value t v') = length (fmt_value t old) ->
         edit_header (fmt_header (h1 ++ (k, old) :: h2) ++ data) k v = Some (fmt_header (h1 ++ (k, v') :: h2) ++ data).
Proof. exact edit_accepts_status. Qed.
Print Assumptions C05_edit_accepts.

(** Strings: a new value with the BYTE length of the old one (for [source_name] also its character count) is written
    over exactly the span of the old one -- [pre ++ |new| new ++ post] with the same [pre] and [post] -- whatever code
    points (multi-byte, control) either holds. *)
Theorem C05_edit_string_same_counts :
  if vallen_chars return Prop
  then forall h1 k so h2 data sn,
         wf_header (h1 ++ (k, VStr so) :: h2) -> has_layout (h1 ++ (k, VStr so) :: h2) = true -> lookup k header_keys = Some Tstr ->
         blen sn = blen so -> valid_utf8 sn = true -> (k = key_source_name -> py_len sn = py_len so) ->
         header_no_cont (h1 ++ (k, VStr so) :: h2) = true -> no_cont sn = true ->
         edit_header (fmt_header (h1 ++ (k, VStr so) :: h2) ++ data) k (VStr sn)
         = Some ((fmt_string kw_header_start ++ fmt_entries h1 ++ fmt_string k) ++ fmt_string sn
                 ++ (fmt_entries h2 ++ fmt_string kw_header_end ++ data))
  else forall h1 k so h2 data sn,
         wf_header (h1 ++ (k, VStr so) :: h2) -> has_layout (h1 ++ (k, VStr so) :: h2) = true -> lookup k header_keys = Some Tstr ->
         blen sn = blen so -> valid_utf8 sn = true -> (k = key_source_name -> py_len sn = py_len so) ->
         edit_header (fmt_header (h1 ++ (k, VStr so) :: h2) ++ data) k (VStr sn)
         = Some ((fmt_string kw_header_start ++ fmt_entries h1 ++ fmt_string k) ++ fmt_string sn
                 ++ (fmt_entries h2 ++ fmt_string kw_header_end ++ data)).
Proof. exact edit_string_status. Qed.
Print Assumptions C05_edit_string_same_counts.

(** ** 3. RA / Dec sexagesimal packing (exact decimals, every resolution S) *)

(** declination: for EVERY sign, degree, minute, second -- including degree 0 with a negative sign -- provided
    the source passes the sign as text and prints seconds in fixed notation; otherwise exactly the stated
    inputs are excluded *)
Theorem C05_dec_roundtrip : forall S c, 1 <= S -> wf_sexa S c ->
  dec_sign_numeric = false \/ sx_neg c = false \/ 0 < sx_deg c ->
  dec_sec_repr = false \/ repr_rejected S (Z.abs (pack S c)) = false ->
  exists c', unpack_dec S (pack S c) = Some c' /\ angle S c' = angle S c.
Proof. exact dec_roundtrip_cur. Qed.
Print Assumptions C05_dec_roundtrip.

(** full strength (no side condition) on a correct source; refuted on the pinned tree *)
Theorem C05_dec_status :
  if dec_sign_numeric || dec_sec_repr return Prop
  then exists S c, 1 <= S /\ wf_sexa S c /\
         ~ exists c', unpack_dec S (pack S c) = Some c' /\ angle S c' = angle S c
  else forall S c, 1 <= S -> wf_sexa S c ->
         exists c', unpack_dec S (pack S c) = Some c' /\ angle S c' = angle S c.
Proof. exact dec_status. Qed.
Print Assumptions C05_dec_status.

Theorem C05_ra_roundtrip : forall S c, 1 <= S -> wf_sexa S c -> sx_neg c = false ->
  ra_sec_repr = false \/ repr_rejected S (pack S c) = false ->
  unpack_ra S (pack S c) = Some c.
Proof. exact ra_roundtrip_cur. Qed.
Print Assumptions C05_ra_roundtrip.

Theorem C05_ra_status :
  if ra_sec_repr return Prop
  then exists S c, 1 <= S /\ wf_sexa S c /\ sx_neg c = false /\ unpack_ra S (pack S c) = None
  else forall S c, 1 <= S -> wf_sexa S c -> sx_neg c = false -> unpack_ra S (pack S c) = Some c.
Proof. exact ra_status. Qed.
Print Assumptions C05_ra_status.

(** the seconds rejected in repr mode are below 1e-4: positions on a 0.01 arcsec grid are never affected *)
Theorem C05_repr_rejected_small : forall S P, repr_rejected S P = true -> 0 < P /\ P * 10000 < S.
Proof. exact repr_rejected_small. Qed.
Print Assumptions C05_repr_rejected_small.

(** ** 4. Frame flags <-> frame (the regenerated [flags_of_frame] / [frame_of_flags]; three frames) *)
Theorem C05_frame_status :
  if frames_ok
  then forall f, In f all_frames -> frame_roundtrip f = f
  else (forall f, In f [0; 1] -> frame_roundtrip f = f) /\ frame_roundtrip 2 <> 2.
Proof. exact frame_status. Qed.
Print Assumptions C05_frame_status.

(** ** 4b. Pointing angles: [to_sigproc] must store degrees whatever unit the Header's Angle is held in, and
    [from_sigproc] must read each key back into the attribute it came from.  Exact rationals, every unit
    (deg, arcmin, arcsec, hourangle, rad with an arbitrary conversion factor), every value.  Otherwise: partial
    (Angles already in degrees, keys not crossed) + refuted by (1 h, 2 h). *)
Theorem C05_pointing_status :
  if pointing_ok return Prop
  then forall r zen az, (fst (pointing_roundtrip r zen az) == deg_of r zen /\ snd (pointing_roundtrip r zen az) == deg_of r az)%Q
  else (forall r zen az, snd zen = UDeg -> snd az = UDeg ->
          (za_start_attr =? 0) && (az_start_attr =? 1) && (zenith_read_key =? 0) && (azimuth_read_key =? 1) = true ->
          (fst (pointing_roundtrip r zen az) == deg_of r zen /\ snd (pointing_roundtrip r zen az) == deg_of r az)%Q)
       /\ ~ (fst (pointing_roundtrip 57 zen_w az_w) == deg_of 57 zen_w /\ snd (pointing_roundtrip 57 zen_w az_w) == deg_of 57 az_w)%Q.
Proof. exact pointing_status. Qed.
Print Assumptions C05_pointing_status.

(** ** 4c. Pointing angles of any sign and size (negative, beyond a full turn, beyond the horizon): the number stored is
    [Angle.deg], a linear injective map of the number the Angle holds (exact rationals, any positive degrees-per-radian):
    the sign is kept, a full turn more in the Angle is exactly 360 more in the file (no wrap), [c] times the angle is [c]
    times the number (no clip), and two different Angles never share a stored number. *)
Theorem C05_pointing_sign : forall r a, (0 < r)%Q ->
  ((0 < fst a -> 0 < deg_of r a) /\ (fst a < 0 -> deg_of r a < 0) /\ (fst a == 0 -> deg_of r a == 0))%Q.
Proof. exact deg_of_sign. Qed.
Print Assumptions C05_pointing_sign.

Theorem C05_pointing_no_wrap : forall r x u, (~ r == 0 -> deg_of r (x + 360 / deg_per r u, u) == deg_of r (x, u) + 360)%Q.
Proof. exact deg_of_turn. Qed.
Print Assumptions C05_pointing_no_wrap.

Theorem C05_pointing_linear : forall r c x y u,
  (deg_of r (x + y, u) == deg_of r (x, u) + deg_of r (y, u) /\ deg_of r (c * x, u) == c * deg_of r (x, u))%Q.
Proof. intros r c x y u. split; [apply deg_of_add|apply deg_of_scale]. Qed.
Print Assumptions C05_pointing_linear.

Theorem C05_pointing_injective : forall r x y u, (0 < r -> deg_of r (x, u) == deg_of r (y, u) -> x == y)%Q.
Proof. exact deg_of_inj. Qed.
Print Assumptions C05_pointing_injective.

(** and the current source stores exactly that number under each key (whenever the generator reads "degrees, keys not
    crossed" off [to_sigproc]; the other case is refuted in [C05_pointing_status]) *)
Theorem C05_pointing_written :
  if pointing_ok return Prop
  then forall r zen az, (za_start_written r zen az == deg_of r zen /\ az_start_written r zen az == deg_of r az)%Q
  else True.
Proof. exact pointing_written_status. Qed.
Print Assumptions C05_pointing_written.

(** ** 5. Telescope / backend identifiers (every entry of the regenerated tables; unknown names -> default) *)
Theorem C05_telescope_ids :
  (forall e, In e telescope_ids -> telescope_of_id (telescope_to_id (fst e)) = fst e /\ 0 <= snd e < 4294967296 /\
                                   telescope_to_id (telescope_of_id (snd e)) = snd e) /\
  (forall name, lookup name telescope_ids = None -> telescope_of_id (telescope_to_id name) = telescope_default_name).
Proof. exact telescope_ids_roundtrip. Qed.
Print Assumptions C05_telescope_ids.

Theorem C05_machine_ids :
  (forall e, In e machine_ids -> backend_of_id (backend_to_id (fst e)) = fst e /\ 0 <= snd e < 4294967296 /\
                                 backend_to_id (backend_of_id (snd e)) = snd e) /\
  (forall name, lookup name machine_ids = None -> backend_of_id (backend_to_id name) = backend_default_name).
Proof. exact machine_ids_roundtrip. Qed.
Print Assumptions C05_machine_ids.

(** ** Non-vacuity *)
(** a well-formed header with a string, its layout, and what the model's encoder and parser do with it *)
Example C05_example_codec :
  wf_header h_ascii /\ has_layout h_ascii = true /\ header_no_cont h_ascii = true /\
  encode_header h_ascii = Some (fmt_header h_ascii) /\
  parse_header (fmt_header h_ascii ++ [7; 7]) = Some (h_ascii, 80) /\
  firstn 19 (fmt_header h_ascii) = [12; 0; 0; 0; 72; 69; 65; 68; 69; 82; 95; 83; 84; 65; 82; 84; 11; 0; 0].
Proof.
  destruct wf_h_ascii as (W & L & N). repeat split; try assumption; try apply W; vm_compute; reflexivity.
Qed.

(** edits that return and edits that raise both exist *)
Example C05_example_edit :
  edit_header (fmt_header h_ascii ++ [1; 2; 3]) key_nchans (VInt 2000)
    = Some (fmt_header [(k_rawdatafile, VStr [97; 98; 99; 100]); (key_nbits, VInt 8); (key_nchans, VInt 2000)] ++ [1; 2; 3]) /\
  edit_header (fmt_header h_ascii ++ [1; 2; 3]) key_nchans (VInt (-1)) = None /\
  edit_header (fmt_header h_ascii ++ [1; 2; 3]) k_rawdatafile (VStr [97; 98; 99]) = None /\
  edit_header (fmt_header h_ascii ++ [1; 2; 3]) key_source_name (VStr [97]) = None /\
  edit_header (fmt_header h_ascii ++ [1; 2; 3]) [120] (VInt 0) = None.
Proof. vm_compute. repeat split; reflexivity. Qed.

(** the hypotheses of the RA/Dec theorems are satisfiable, also by the critical input -00:30:00 *)
Example C05_example_radec :
  wf_sexa S8 c_south /\ sx_neg c_south = true /\ sx_deg c_south = 0 /\ pack S8 c_south = -300000000000 /\
  angle S8 c_south = -180000000000 /\ repr_rejected S8 (Z.abs (pack S8 c_south)) = false /\
  wf_sexa S8 (mk_sexa true 89 59 5999999999) /\
  unpack_dec_with false false S8 (pack S8 c_south) = Some c_south /\
  repr_rejected S8 1000 = true /\ repr_rejected S8 1500 = false /\ repr_rejected S8 10000 = false.
Proof. unfold wf_sexa, S8. cbn [sx_neg sx_deg sx_min sx_sec c_south]. repeat split; try reflexivity; try (vm_compute; congruence). Qed.

(** multi-byte code points and control characters: [h_mb] holds the source name "e-acute NUL a b" (4 characters, 5 bytes)
    and the raw data file name "U+4E2D LF" (2 characters, 4 bytes).  It is well formed, encodes with BYTE prefixes (5, 4) and
    parses back; a 3-character new source name "u-umlaut LF c" is padded by ONE blank (4 characters, 5 bytes) and written over
    the old one; three ASCII characters replace the 3-byte code point of the raw data file name; the same three characters
    as source name are cut to 4 characters = 4 bytes and refused; a 5-byte name of 5 ASCII characters is cut to 4 and refused *)
Example C05_example_multibyte :
  wf_header h_mb /\ has_layout h_mb = true /\ header_no_cont h_mb = false /\
  encode_header_with false false h_mb = Some (fmt_header h_mb) /\
  parse_header (fmt_header h_mb ++ [9]) = Some (h_mb, blen (fmt_header h_mb)) /\
  firstn 9 (skipn 31 (fmt_header h_mb)) = [5; 0; 0; 0; 195; 169; 0; 97; 98] /\
  pad_name [195; 169; 0; 97; 98] [195; 188; 10; 99] = [195; 188; 10; 99; 32] /\
  edit_header_with false false (fmt_header h_mb ++ [9]) key_source_name (VStr [195; 188; 10; 99])
    = Some (fmt_header ((key_source_name, VStr [195; 188; 10; 99; 32]) :: tl h_mb) ++ [9]) /\
  edit_header_with false false (fmt_header h_mb ++ [9]) k_rawdatafile (VStr [97; 0; 127; 9])
    = Some (fmt_header [(key_source_name, VStr [195; 169; 0; 97; 98]); (key_nbits, VInt 8); (k_rawdatafile, VStr [97; 0; 127; 9]); (key_nchans, VInt 4)] ++ [9]) /\
  edit_header_with false false (fmt_header h_mb ++ [9]) key_source_name (VStr [228; 184; 173; 97; 98; 99]) = None /\
  edit_header_with false false (fmt_header h_mb ++ [9]) key_source_name (VStr [97; 98; 99; 100; 101]) = None.
Proof.
  destruct wf_h_mb as (W & L & N). repeat split; try assumption; try apply W; vm_compute; reflexivity.
Qed.

(** the strict decoder: first and last code point of every encoded length are accepted (U+0000, U+007F, U+0080, U+07FF,
    U+0800, U+D7FF, U+E000, U+FFFF, U+10000, U+10FFFF); overlong forms, surrogates, code points beyond U+10FFFF, stray and
    missing continuation bytes are rejected; and a header whose source name is Latin-1 (b"PSR" + E9) does not parse
    (UnicodeDecodeError in the implementation) although the same header with the UTF-8 of that name does *)
Example C05_example_utf8 :
  valid_utf8 [0; 127; 194; 128; 223; 191; 224; 160; 128; 237; 159; 191; 238; 128; 128; 239; 191; 191;
              240; 144; 128; 128; 244; 143; 191; 191] = true /\
  map valid_utf8 [[192; 128]; [193; 191]; [224; 159; 191]; [237; 160; 128]; [240; 143; 191; 191]; [244; 144; 128; 128];
                  [245; 128; 128; 128]; [128]; [228; 184]; [228; 184; 65]; [80; 83; 82; 233]; [255]]
    = [false; false; false; false; false; false; false; false; false; false; false; false] /\
  parse_header (fmt_string kw_header_start ++ fmt_string key_nbits ++ le32 8 ++ fmt_string key_nchans ++ le32 4
                ++ fmt_string key_source_name ++ fmt_string [80; 83; 82; 233] ++ fmt_string kw_header_end) = None /\
  parse_header (fmt_string kw_header_start ++ fmt_string key_nbits ++ le32 8 ++ fmt_string key_nchans ++ le32 4
                ++ fmt_string key_source_name ++ fmt_string [80; 83; 82; 195; 169] ++ fmt_string kw_header_end)
    = Some ([(key_nbits, VInt 8); (key_nchans, VInt 4); (key_source_name, VStr [80; 83; 82; 195; 169])], 81).
Proof. vm_compute. repeat split; reflexivity. Qed.

(** pointing angles outside the usual ranges: -0.25 h is stored as -3.75 deg, 725.5 deg as 725.5, -1/16 rad as -57/16 deg (for
    57 degrees per radian), 43530 arcmin as 725.5 deg; storing the raw number of the Angle instead would differ *)
Example C05_example_pointing_range :
  (angle_written true 57 (-(1 # 4), UHour) == -(15 # 4) /\ angle_written true 57 (1451 # 2, UDeg) == 1451 # 2 /\
   angle_written true 57 (-(1 # 16), URad) == -(57 # 16) /\ deg_of 57 (43530, UArcmin) == 1451 # 2 /\
   ~ angle_written false 57 (-(1 # 4), UHour) == -(15 # 4))%Q.
Proof. repeat split; try (vm_compute; reflexivity). vm_compute. discriminate. Qed.
