(** C05 -- SIGPROC headers survive encode/parse; in-place edits touch only their key.

    Only property theorems here, each closed by [exact] of a lemma from Proofs/C05_*.v.  Subjects:
    the executable model Model/C05_HeaderCodec.v / Model/C05_RaDec.v (which follows io/sigproc.py statement by
    statement; the text of the modelled functions is pinned by tools/py2coq/gen_c05.py) over the tables, the
    length-prefix modes of [encode_key], the formatting modes of [parse_radec] and the frame functions
    REGENERATED from the current source into Gen/C05Header.v.

    A theorem of the form [if <mode> then A else B] is the full-strength property in the branch selected by a
    correct source and, in the other branch, a refutation witness together with the theorem for the regime that
    still holds ("partial"); [<mode>] is a closed boolean of Gen/C05Header.v, so the statement reduces to one
    branch for the tree being checked (the check prints which). *)
From Coq Require Import ZArith List Bool QArith.
Require Import SPP.Gen.C05Header SPP.Model.C05_HeaderCodec SPP.Model.C05_RaDec.
Require Import SPP.Proofs.C05_codec SPP.Proofs.C05_radec SPP.Proofs.C05_status.
Import ListNotations.
Open Scope Z_scope.

(** ** 1. Codec *)

(** The parser accepts the SIGPROC layout of every well-formed header (recognised keys in any order, each at most
    once, values in range, [nbits] and [nchans] present and non-zero as [parse_header] itself requires), returns
    exactly that dictionary and the header length, whatever follows the header.  No mode involved. *)
Theorem C05_parse_layout : forall h rest, wf_header h -> has_layout h = true ->
  parse_header (fmt_header h ++ rest) = Some (h, blen (fmt_header h)).
Proof. exact parse_fmt. Qed.
Print Assumptions C05_parse_layout.

(** parse (encode h ++ rest) = (h, |encode h|).
    Full strength when string lengths are counted in bytes; when [encode_key] counts characters (pinned tree):
    partial -- strings without multi-byte characters -- and refuted by a header with a two-byte character. *)
Theorem C05_parse_encode :
  if vallen_chars return Prop
  then (forall h rest, wf_header h -> has_layout h = true -> header_no_cont h = true ->
          exists b, encode_header h = Some b /\ parse_header (b ++ rest) = Some (h, blen b))
       /\ (exists h b, wf_header h /\ has_layout h = true /\ encode_header h = Some b /\ parse_header b = None)
  else forall h rest, wf_header h -> has_layout h = true ->
          exists b, encode_header h = Some b /\ parse_header (b ++ rest) = Some (h, blen b).
Proof. exact parse_encode_status. Qed.
Print Assumptions C05_parse_encode.

(** encode (parse bytes) = the header bytes, for every well-formed header region [fmt_header h] followed by
    arbitrary data.  Same modes as above. *)
Theorem C05_encode_parse :
  if vallen_chars return Prop
  then (forall h rest, wf_header h -> has_layout h = true -> header_no_cont h = true ->
          exists h' n, parse_header (fmt_header h ++ rest) = Some (h', n) /\ 0 <= n <= blen (fmt_header h ++ rest) /\
                       encode_header h' = Some (firstn (Z.to_nat n) (fmt_header h ++ rest)))
       /\ (exists h h' n b, wf_header h /\ has_layout h = true /\ parse_header (fmt_header h) = Some (h', n) /\
                            encode_header h' = Some b /\ b <> fmt_header h)
  else forall h rest, wf_header h -> has_layout h = true ->
          exists h' n, parse_header (fmt_header h ++ rest) = Some (h', n) /\ 0 <= n <= blen (fmt_header h ++ rest) /\
                       encode_header h' = Some (firstn (Z.to_nat n) (fmt_header h ++ rest)).
Proof. exact encode_parse_status. Qed.
Print Assumptions C05_encode_parse.

(** ** 2. edit_header *)

(** a call that returns leaves the file length and every byte behind the header unchanged (every mode) *)
Theorem C05_edit_preserves_data : forall h data k v file', wf_header h -> has_layout h = true ->
  edit_header (fmt_header h ++ data) k v = Some file' ->
  exists nb, file' = nb ++ data /\ length nb = length (fmt_header h).
Proof. exact edit_preserves_data_cur. Qed.
Print Assumptions C05_edit_preserves_data.

(** a call that raises leaves the file byte-identical (in the model the single write follows every raise; the
    correspondence and the oracle compare whole files around raising calls) *)
Theorem C05_edit_err : forall file k v, edit_header file k v = None -> file_after_edit file k v = file.
Proof. exact edit_err. Qed.
Print Assumptions C05_edit_err.

(** a call that returns has rewritten exactly the value of key [k] (which was present), by a value of the same
    encoded length: [file = pre ++ old ++ post], [file' = pre ++ new ++ post], and [file'] is the layout of the
    dictionary with that one value replaced.  Full strength / partial + refuted as for the codec: when lengths
    count characters a same-length edit with a multi-byte string writes a header that no longer parses. *)
Theorem C05_edit_ok :
  if vallen_chars return Prop
  then (forall h data k v file', wf_header h -> has_layout h = true -> header_no_cont h = true -> value_no_cont v = true ->
          edit_header (fmt_header h ++ data) k v = Some file' -> edit_rewrites_value h data k v file')
       /\ (exists h data k v file', wf_header h /\ has_layout h = true /\
             edit_header (fmt_header h ++ data) k v = Some file' /\ parse_header file' = None)
  else forall h data k v file', wf_header h -> has_layout h = true ->
          edit_header (fmt_header h ++ data) k v = Some file' -> edit_rewrites_value h data k v file'.
Proof. exact edit_status. Qed.
Print Assumptions C05_edit_ok.

Theorem C05_edit_reparse : forall h data k v file', edit_rewrites_value h data k v file' ->
  exists h1 old h2 v', h = h1 ++ (k, old) :: h2 /\ edit_value h k v = Some v' /\
    (has_layout (h1 ++ (k, v') :: h2) = true ->
     parse_header file' = Some (h1 ++ (k, v') :: h2, blen (fmt_header h))).
Proof. exact edit_reparse. Qed.
Print Assumptions C05_edit_reparse.

(** ** 3. RA / Dec sexagesimal packing (exact decimals, every resolution S) *)

(** declination: for EVERY sign, degree, minute, second -- including degree 0 with a negative sign -- provided
    the source passes the sign as text and prints seconds in fixed notation; otherwise exactly the stated
    inputs are excluded *)
Theorem C05_dec_roundtrip : forall S c, 1 <= S -> wf_sexa S c ->
  dec_sign_numeric = false \/ sx_neg c = false \/ 0 < sx_deg c ->
  dec_sec_repr = false \/ repr_rejected S (Z.abs (pack S c)) = false ->
  exists c', unpack_dec S (pack S c) = Some c' /\ angle S c' = angle S c.
Proof. exact dec_roundtrip_cur. Qed.
Print Assumptions C05_dec_roundtrip.

(** full strength (no side condition) on a correct source; refuted on the pinned tree *)
Theorem C05_dec_status :
  if dec_sign_numeric || dec_sec_repr return Prop
  then exists S c, 1 <= S /\ wf_sexa S c /\
         ~ exists c', unpack_dec S (pack S c) = Some c' /\ angle S c' = angle S c
  else forall S c, 1 <= S -> wf_sexa S c ->
         exists c', unpack_dec S (pack S c) = Some c' /\ angle S c' = angle S c.
Proof. exact dec_status. Qed.
Print Assumptions C05_dec_status.

Theorem C05_ra_roundtrip : forall S c, 1 <= S -> wf_sexa S c -> sx_neg c = false ->
  ra_sec_repr = false \/ repr_rejected S (pack S c) = false ->
  unpack_ra S (pack S c) = Some c.
Proof. exact ra_roundtrip_cur. Qed.
Print Assumptions C05_ra_roundtrip.

Theorem C05_ra_status :
  if ra_sec_repr return Prop
  then exists S c, 1 <= S /\ wf_sexa S c /\ sx_neg c = false /\ unpack_ra S (pack S c) = None
  else forall S c, 1 <= S -> wf_sexa S c -> sx_neg c = false -> unpack_ra S (pack S c) = Some c.
Proof. exact ra_status. Qed.
Print Assumptions C05_ra_status.

(** the seconds rejected in repr mode are below 1e-4: positions on a 0.01 arcsec grid are never affected *)
Theorem C05_repr_rejected_small : forall S P, repr_rejected S P = true -> 0 < P /\ P * 10000 < S.
Proof. exact repr_rejected_small. Qed.
Print Assumptions C05_repr_rejected_small.

(** ** 4. Frame flags <-> frame (the regenerated [flags_of_frame] / [frame_of_flags]; three frames) *)
Theorem C05_frame_status :
  if frames_ok
  then forall f, In f all_frames -> frame_roundtrip f = f
  else (forall f, In f [0; 1] -> frame_roundtrip f = f) /\ frame_roundtrip 2 <> 2.
Proof. exact frame_status. Qed.
Print Assumptions C05_frame_status.

(** ** 4b. Pointing angles: [to_sigproc] must store degrees whatever unit the Header's Angle is held in, and
    [from_sigproc] must read each key back into the attribute it came from.  Exact rationals, every unit
    (deg, arcmin, arcsec, hourangle, rad with an arbitrary conversion factor), every value.  Otherwise: partial
    (Angles already in degrees, keys not crossed) + refuted by (1 h, 2 h). *)
Theorem C05_pointing_status :
  if pointing_ok return Prop
  then forall r zen az, (fst (pointing_roundtrip r zen az) == deg_of r zen /\ snd (pointing_roundtrip r zen az) == deg_of r az)%Q
  else (forall r zen az, snd zen = UDeg -> snd az = UDeg ->
          (za_start_attr =? 0) && (az_start_attr =? 1) && (zenith_read_key =? 0) && (azimuth_read_key =? 1) = true ->
          (fst (pointing_roundtrip r zen az) == deg_of r zen /\ snd (pointing_roundtrip r zen az) == deg_of r az)%Q)
       /\ ~ (fst (pointing_roundtrip 57 zen_w az_w) == deg_of 57 zen_w /\ snd (pointing_roundtrip 57 zen_w az_w) == deg_of 57 az_w)%Q.
Proof. exact pointing_status. Qed.
Print Assumptions C05_pointing_status.

(** ** 5. Telescope / backend identifiers (every entry of the regenerated tables; unknown names -> default) *)
Theorem C05_telescope_ids :
  (forall e, In e telescope_ids -> telescope_of_id (telescope_to_id (fst e)) = fst e /\ 0 <= snd e < 4294967296 /\
                                   telescope_to_id (telescope_of_id (snd e)) = snd e) /\
  (forall name, lookup name telescope_ids = None -> telescope_of_id (telescope_to_id name) = telescope_default_name).
Proof. exact telescope_ids_roundtrip. Qed.
Print Assumptions C05_telescope_ids.

Theorem C05_machine_ids :
  (forall e, In e machine_ids -> backend_of_id (backend_to_id (fst e)) = fst e /\ 0 <= snd e < 4294967296 /\
                                 backend_to_id (backend_of_id (snd e)) = snd e) /\
  (forall name, lookup name machine_ids = None -> backend_of_id (backend_to_id name) = backend_default_name).
Proof. exact machine_ids_roundtrip. Qed.
Print Assumptions C05_machine_ids.

(** ** Non-vacuity *)
(** a well-formed header with a string, its layout, and what the model's encoder and parser do with it *)
Example C05_example_codec :
  wf_header h_ascii /\ has_layout h_ascii = true /\ header_no_cont h_ascii = true /\
  encode_header h_ascii = Some (fmt_header h_ascii) /\
  parse_header (fmt_header h_ascii ++ [7; 7]) = Some (h_ascii, 80) /\
  firstn 19 (fmt_header h_ascii) = [12; 0; 0; 0; 72; 69; 65; 68; 69; 82; 95; 83; 84; 65; 82; 84; 11; 0; 0].
Proof.
  destruct wf_h_ascii as (W & L & N). repeat split; try assumption; try apply W; vm_compute; reflexivity.
Qed.

(** edits that return and edits that raise both exist *)
Example C05_example_edit :
  edit_header (fmt_header h_ascii ++ [1; 2; 3]) key_nchans (VInt 2000)
    = Some (fmt_header [(k_rawdatafile, VStr [97; 98; 99; 100]); (key_nbits, VInt 8); (key_nchans, VInt 2000)] ++ [1; 2; 3]) /\
  edit_header (fmt_header h_ascii ++ [1; 2; 3]) key_nchans (VInt (-1)) = None /\
  edit_header (fmt_header h_ascii ++ [1; 2; 3]) k_rawdatafile (VStr [97; 98; 99]) = None /\
  edit_header (fmt_header h_ascii ++ [1; 2; 3]) key_source_name (VStr [97]) = None /\
  edit_header (fmt_header h_ascii ++ [1; 2; 3]) [120] (VInt 0) = None.
Proof. vm_compute. repeat split; reflexivity. Qed.

(** the hypotheses of the RA/Dec theorems are satisfiable, also by the critical input -00:30:00 *)
Example C05_example_radec :
  wf_sexa S8 c_south /\ sx_neg c_south = true /\ sx_deg c_south = 0 /\ pack S8 c_south = -300000000000 /\
  angle S8 c_south = -180000000000 /\ repr_rejected S8 (Z.abs (pack S8 c_south)) = false /\
  wf_sexa S8 (mk_sexa true 89 59 5999999999) /\
  unpack_dec_with false false S8 (pack S8 c_south) = Some c_south /\
  repr_rejected S8 1000 = true /\ repr_rejected S8 1500 = false /\ repr_rejected S8 10000 = false.
Proof. unfold wf_sexa, S8. cbn [sx_neg sx_deg sx_min sx_sec c_south]. repeat split; try reflexivity; try (vm_compute; congruence). Qed.
