(** C13 -- "the standardised data": what MatchedFilter hands to the kernel is (x - location) / divisor, sample by sample, for EVERY
    location / scale estimator pair offered (2 + 'norm' x 9 + 'norm'), every data length; the divisor is the scale estimate, or 1
    where the zero-scale guard fires, and is strictly positive.  Subject: Gen/MatchedFilterZ.v (MatchedFilter.__init__'s call,
    regenerated) over Gen/Stats.v (stats.estimate_zscore, regenerated; C15).  Exact rationals: the float32 cast is not modelled;
    np.sqrt, np.pi, np.std, biweight_scale, np.cov are universally quantified external functions. *)
From Coq Require Import ZArith List Bool QArith Qcanon Qcabs Lia.
Require Import SPP.Base.Rt SPP.Model.C15_np SPP.Gen.Stats SPP.Gen.MatchedFilterZ.
Require Import SPP.Proofs.C15_lib SPP.Proofs.C15_order SPP.Proofs.C15_rel SPP.Proofs.C15_view SPP.Proofs.C15_lanes
               SPP.Proofs.C15_lanes2 SPP.Proofs.C15_glue SPP.Proofs.C15_main.
Import ListNotations.
Open Scope Z_scope.

Theorem C13_zscores_standardised : forall np_sqrt np_pi np_std1 biweight1 np_cov01 (n : Z) data lm sm loc scale (t : Z),
  shape data = (n :: nil) ->
  (if loc_method_eqb lm L_norm then Some (const1 (qz 0)) else estimate_loc data lm mf_zscores_axis true) = Some loc ->
  (if scale_method_eqb sm S_norm then Some (const1 (qz 1))
   else estimate_scale np_sqrt np_pi np_std1 biweight1 np_cov01 nd_memo data sm mf_zscores_axis true) = Some scale ->
  bc (n :: nil) (shape loc) -> bc (n :: nil) (shape scale) -> in_range (n :: nil) (t :: nil) ->
  exists z s, mf_zscores np_sqrt np_pi np_std1 biweight1 np_cov01 nd_memo data lm sm = Some (z, nd_memo loc, s) /\
    (Q2Qc 0 < rd s (t :: nil))%Qc /\ rd z (t :: nil) = ((rd data (t :: nil) - rd loc (t :: nil)) / rd s (t :: nil))%Qc /\ shape z = (n :: nil).
Proof. intros np_sqrt np_pi np_std1 biweight1 np_cov01 n data lm sm loc scale t Hd El Es Bl Bs HI.
  unfold mf_zscores. apply (main_zscore_finite np_sqrt np_pi np_std1 biweight1 np_cov01 (n :: nil) data lm sm mf_zscores_axis loc scale (t :: nil));
    try assumption. discriminate. Qed.
Print Assumptions C13_zscores_standardised.

(** non-vacuity: nine samples with a pulse, the default pair (median, iqr): the call returns Z-scores of shape (9,), the pulse sample
    is (9 - median) / scale with median 1 and a positive scale; all-equal data: the guard gives divisor 1 and Z-scores 0 *)
Example C13_zscores_example :
  let zsc := mf_zscores approx_sqrt approx_pi std1 (fun _ => qz 0) cov01 nd_memo in
  let x := nd_of_list (9%Z :: nil) (qz 0 :: qz 2 :: qz 1 :: qz 9 :: qz 1 :: qz 0 :: qz 2 :: qz 1 :: qz 1 :: nil) in
  (match zsc x L_median S_iqr with
   | Some (z, l, s) => shape_eqb (shape z) (9%Z :: nil) && Qceqb (get l (0%Z :: nil)) (qz 1) && negb (Qceqb (get s (0%Z :: nil)) (qz 0))
                       && Qceqb (get z (3%Z :: nil) * get s (0%Z :: nil))%Qc (qz 8) && Qceqb (get z (2%Z :: nil)) (qz 0)
   | None => false end) = true /\
  (match zsc (nd_of_list (4%Z :: nil) (qz 4 :: qz 4 :: qz 4 :: qz 4 :: nil)) L_mean S_mad with
   | Some (z, _, s) => Qceqb (get s (0%Z :: nil)) (qz 1) && Qceqb (get z (1%Z :: nil)) (qz 0) | None => false end) = true.
Proof. vm_compute. split; reflexivity. Qed.
