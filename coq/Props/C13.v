(** C13 -- matched-filter S/N is the normalised template correlation and its arg-max  (PARTIAL).
    Proved here, over the definitions REGENERATED from the source (Gen/MatchedFilter.v, Gen/Kernels.v), for all data
    lengths, template banks and reference bins, given the behaviour [fft_laws] of the external transform (C12): every row
    of kernels.convolve_templates is the direct sum  sum_k dpad[(t + k - ref) mod N] * tnorm[k]  (circular padding, roll by
    -ref, reversal + roll by 1, normalisation after the flip, slice [:nbins]); MatchedFilter._compute returns the maximum
    response and its first location; invariance given estimator equivariance; the Cauchy-Schwarz core of boxcar recovery.
    [fft_laws] holds for the exact DFT (C13_response_formula_with_exact_dft).  NOT proved: that pocketfft computes the DFT, float32 error, np.mean / sqrt of normalize_template (external, [norm_ops]), equivariance of
    the location / scale estimators (C15), and the link from the response sums to overlap counts in boxcar recovery.
    Second part of the file (lemmas of Proofs/C13_bank.v): the current source form without hypothesis and the response formula /
    arg-max statement for every data length; the boxcar width ladder; the on-pulse extent; the support of the peaked templates.
    Props/C13_zscore.v (required below): the standardisation relation over the regenerated estimate_zscore call.
    Only property theorems here; each is closed by [exact] of a lemma of Proofs/C13_mf.v or Proofs/C13_bank.v. *)
From Coq Require Import ZArith List Bool QArith Ring_theory Sorted.
Require Import SPP.Base.Rt SPP.Model.C12_np SPP.Model.C12_conv SPP.Model.C13_np SPP.Gen.Kernels SPP.Gen.MatchedFilter
        SPP.Model.C13_mf SPP.Proofs.C12_conv SPP.Proofs.C13_mf SPP.Proofs.C13_bank SPP.Proofs.C12_dft SPP.Proofs.C12_dft_fft.
Require SPP.Props.C13_zscore.   (* built with this file: the standardisation theorem over Gen/MatchedFilterZ.v + Gen/Stats.v *)
Import ListNotations.
Open Scope Z_scope.

(** the source of convolve_templates is one of four forms: data_pad = periodic good-size padding | the data itself, and
    inverse transform called without a length | with len(data_pad) *)
Theorem C13_source_form : forall F Nm,
  src_is F Nm (cpad F) (ilen_default F) \/ src_is F Nm (cpad F) (ilen_given F) \/
  src_is F Nm nopad (ilen_default F) \/ src_is F Nm nopad (ilen_given F).
Proof. exact ct_form. Qed.
Print Assumptions C13_source_form.

(** response formula for any padding P = padfn data (len data <= len P) and any form whose inverse returns len P samples:
    row i, bin t  =  sum_k P[(t + k - ref_i) mod N] * tnorm_i[k],  N = len P, templates normalised over N *)
Theorem C13_response_formula_model : forall F Nm, fft_laws F -> forall padfn ilen data bank refs,
  let P := padfn data in
  1 <= len data <= len P -> (forall k, In k bank -> len k <= len P) ->
  (forall a b, ilen (fft_smul F (fft_rfft F a (len P)) (fft_rfft F b (len P))) (len P) = len P) ->
  ct_rows_gen F Nm padfn ilen data bank refs = responses_p Nm P (len data) bank refs.
Proof. exact response_formula_gen. Qed.
Print Assumptions C13_response_formula_model.

(** PARTIAL: over the current source (whichever form) the formula is proved for EVEN padded lengths, with P the padded
    series the source uses.  Missing: odd padded lengths ([C13_default_len_odd_refuted]) and, for the property's reading
    "inner product with the standardised data", P = data ([C13_circular_pad_recovery_refuted]) *)
Theorem C13_response_formula_partial : forall F Nm, fft_laws F -> forall data bank refs,
  1 <= len data -> (forall k, In k bank -> len k <= len data) ->
  exists P, (P = cpad F data \/ P = data) /\
    (Z.even (len P) = true -> convolve_templates_run F Nm data bank refs = responses_p Nm P (len data) bank refs).
Proof. exact response_formula_even. Qed.
Print Assumptions C13_response_formula_partial.

(** full strength, every data length: once the source transforms at the data length and hands it to the inverse,
    convs[i][t] = sum_k z[(t + k - ref_i) mod n] * tnorm_i[k], templates normalised over n *)
Theorem C13_response_formula_exact_length : forall F Nm, fft_laws F -> forall data bank refs,
  1 <= len data -> (forall k, In k bank -> len k <= len data) -> src_is F Nm nopad (ilen_given F) ->
  convolve_templates_run F Nm data bank refs = responses_p Nm data (len data) bank refs.
Proof. exact response_formula_exact. Qed.
Print Assumptions C13_response_formula_exact_length.

(** the formula of DESIGN 5 C13 (periodic padding to the good size N kept, inverse length given):
    convs[i][t] = sum_k dpad[(t + k - ref_i) mod N] * tnorm_i[k],  dpad[j] = z[j mod n] *)
Theorem C13_response_formula_circular_pad : forall F Nm, fft_laws F -> forall data bank refs,
  1 <= len data -> (forall k, In k bank -> len k <= len data) -> src_is F Nm (cpad F) (ilen_given F) ->
  convolve_templates_run F Nm data bank refs =
  map (fun itemp => to_list (len data) (response Nm data (nth (Z.to_nat itemp) bank []) (nth (Z.to_nat itemp) refs 0) (fft_good_size F (len data))))
      (zrange (len bank)).
Proof. exact response_formula_cpad. Qed.
Print Assumptions C13_response_formula_circular_pad.

(** the response formula with the EXACT discrete Fourier transform in place of the FFT library (Props/C12_dft.v: the DFT over any
    commutative ring with principal roots of unity, e.g. the complex numbers, satisfies [fft_laws]) *)
Theorem C13_response_formula_with_exact_dft : forall (R : Type) (r0 r1 : R) (radd rmul rsub : R -> R -> R) (ropp : R -> R),
  ring_theory r0 r1 radd rmul rsub ropp eq ->
  forall (inj : Z -> R) (toZ : R -> Z),
  inj 0 = r0 -> (forall a b, inj (a + b) = radd (inj a) (inj b)) -> (forall a b, inj (a * b) = rmul (inj a) (inj b)) -> (forall z, toZ (inj z) = z) ->
  forall w ninv : nat -> R,
  (forall n, (0 < n)%nat -> rpow R r1 rmul (w n) n = r1) ->
  (forall n, (0 < n)%nat -> rmul (rnat R r0 r1 radd n) (ninv n) = r1) ->
  (forall n d, (0 < d < n)%nat -> rsum R r0 radd n (fun k => rpow R r1 rmul (w n) (k * d)) = r0) ->
  forall gs : Z -> Z, (forall n, 1 <= n -> n <= gs n) ->
  let F := dft_fft R r0 r1 radd rmul inj toZ w ninv gs in
  forall Nm data bank refs,
  1 <= len data -> (forall k, In k bank -> len k <= len data) -> src_is F Nm (cpad F) (ilen_given F) ->
  convolve_templates_run F Nm data bank refs =
  map (fun itemp => to_list (len data) (response Nm data (nth (Z.to_nat itemp) bank []) (nth (Z.to_nat itemp) refs 0) (fft_good_size F (len data))))
      (zrange (len bank)).
Proof. intros R r0 r1 radd rmul rsub ropp Rth inj toZ I0 Ia Im It w ninv Hw Hn Ho gs Hgs F Nm data bank refs.
  apply response_formula_cpad. apply (dft_laws R r0 r1 radd rmul rsub ropp Rth inj toZ I0 Ia Im It w ninv Hw Hn Ho gs Hgs). Qed.
Print Assumptions C13_response_formula_with_exact_dft.

(** inverse without a length: when the padded length N is ODD and equals the data length (3, 5, 9, 15, 25, 27, 45, ...)
    every row has nbins - 1 values, so the row store fails (for odd N > nbins the N - 1 values returned are not constrained
    by the laws at all; the oracle shows them wrong) *)
Theorem C13_default_len_odd_refuted : forall F Nm, fft_laws F -> forall padfn data bank refs row,
  let N := len (padfn data) in
  1 <= len data -> len data = N -> Z.odd N = true -> (forall k, In k bank -> len k <= N) ->
  In row (ct_rows_gen F Nm padfn (ilen_default F) data bank refs) -> len row = len data - 1.
Proof. exact ct_default_len_odd. Qed.
Print Assumptions C13_default_len_odd_refuted.

(** np.argmax + unravel_index: the maximum and its first location, for any matrix of ntemps >= 1 rows of nbins >= 1 *)
Theorem C13_argmax_spec : forall convs nb, 1 <= nb -> 1 <= len convs -> (forall r, In r convs -> len r = nb) ->
  let '(i, t, s) := mf_pick convs nb in
  0 <= i < len convs /\ 0 <= t < nb /\ s = entry convs i t /\
  (forall i' t', 0 <= i' < len convs -> 0 <= t' < nb -> entry convs i' t' <= s) /\
  (forall i' t', 0 <= i' < len convs -> 0 <= t' < nb -> i' * nb + t' < i * nb + t -> entry convs i' t' < s).
Proof. exact mf_pick_spec. Qed.
Print Assumptions C13_argmax_spec.

(** MatchedFilter._compute: S/N = maximum of the direct response sums, (best template, peak bin) = its first location *)
Theorem C13_snr_is_max_response : forall F Nm z bank refs P, 1 <= len z -> 1 <= len bank ->
  convolve_templates_run F Nm z bank refs = responses_p Nm P (len z) bank refs ->
  let R := fun i t => response_p Nm P (nth (Z.to_nat i) bank []) (nth (Z.to_nat i) refs 0) t in
  let '(i, t, s) := mf_compute_run F Nm z bank refs in
  0 <= i < len bank /\ 0 <= t < len z /\ s = R i t /\
  (forall i' t', 0 <= i' < len bank -> 0 <= t' < len z -> R i' t' <= s) /\
  (forall i' t', 0 <= i' < len bank -> 0 <= t' < len z -> i' * len z + t' < i * len z + t -> R i' t' < s).
Proof. exact mf_compute_spec. Qed.
Print Assumptions C13_snr_is_max_response.

(** invariance: the filter sees the data only through the standardised series, and equivariant location / scale
    estimates (assumed; C15) make the standardised series invariant under x -> a x + b, a > 0 *)
Theorem C13_invariance_given_equal_zscores : forall F Nm (std : list Z -> list Z) x x' bank refs,
  std x = std x' -> mf_compute_run F Nm (std x) bank refs = mf_compute_run F Nm (std x') bank refs.
Proof. exact mf_through_zscores. Qed.
Print Assumptions C13_invariance_given_equal_zscores.

Theorem C13_zscore_affine_invariant : forall a b x l s : Q, (0 < a)%Q -> ~ (s == 0)%Q ->
  (zscore_q (a * x + b) (a * l + b) (a * s) == zscore_q x l s)%Q.
Proof. exact zscore_affine_invariant. Qed.
Print Assumptions C13_zscore_affine_invariant.

(** boxcar recovery, PARTIAL: the Cauchy-Schwarz core.  For a pulse of W samples in a padded window of N, a boxcar template
    of width v overlapping o pulse samples has squared response at most that of the exact match (v = o = W), strictly
    less when it misses a pulse sample or covers a non-pulse sample.  Missing: the link response = box_num / sqrt box_norm2
    (needs exact np.mean / sqrt) and the position bookkeeping *)
Theorem C13_boxcar_recovered_partial : forall N W v o, 0 < W < N -> 0 < v < N -> 0 <= o -> o <= v -> o <= W -> v + W - o <= N ->
  box_num N W v o * box_num N W v o * box_norm2 N W <= box_num N W W W * box_num N W W W * box_norm2 N v.
Proof. exact boxcar_match_is_max. Qed.
Print Assumptions C13_boxcar_recovered_partial.

Theorem C13_boxcar_mismatch_strict_partial : forall N W v o, 0 < W < N -> 0 < v < N -> 0 < o -> o <= v -> o <= W -> v + W - o < N ->
  (o < v \/ o < W) ->
  box_num N W v o * box_num N W v o * box_norm2 N W < box_num N W W W * box_num N W W W * box_norm2 N v.
Proof. exact boxcar_mismatch_is_smaller. Qed.
Print Assumptions C13_boxcar_mismatch_strict_partial.

(** template generators: the reference bin of a peak-referenced template is the bin of abscissa 0; boxcar starts at 0 *)
Theorem C13_ref_bins : forall size, 0 <= size ->
  gaussian_abscissa size (gaussian_ref_bin size) = 0 /\ 0 <= gaussian_ref_bin size < gaussian_len size /\
  lorentzian_abscissa size (lorentzian_ref_bin size) = 0 /\ 0 <= lorentzian_ref_bin size < lorentzian_len size.
Proof. exact peak_ref_bins. Qed.
Print Assumptions C13_ref_bins.

Theorem C13_boxcar_template : forall w, 1 <= w -> snd (boxcar_template w) = 0 /\ len (fst (boxcar_template w)) = w /\
  forall k, 0 <= k < w -> of_list (fst (boxcar_template w)) k = 1.
Proof. exact boxcar_ref_bin. Qed.
Print Assumptions C13_boxcar_template.

(** non-vacuity.  Instance: time-domain transform with the 5-smooth good size; "normalisation" with exact integer mean
    (templates with sum divisible by N) and no division by the norm.  Data of length 6 (N = 6, even), template [6;6]
    with reference bin 0 and template [0;12;0] with reference bin 1: rows = direct sums; the pick is the FIRST maximum
    (36 occurs three times). *)
Definition ex_nm : norm_ops := {| nrm_mean_of_sum := fun n s => s / n; nrm_div_norm := fun x _ => x |}.
Example C13_example :
  let F := td_fft good5 in
  convolve_templates_run F ex_nm [0; 1; 5; 5; 1; 0] [[6; 6]; [0; 12; 0]] [0; 1]
    = responses_p ex_nm [0; 1; 5; 5; 1; 0] 6 [[6; 6]; [0; 12; 0]] [0; 1] /\
  responses_p ex_nm [0; 1; 5; 5; 1; 0] 6 [[6; 6]; [0; 12; 0]] [0; 1] = [[-18; 12; 36; 12; -18; -24]; [-24; -12; 36; 36; -12; -24]] /\
  mf_compute_run F ex_nm [0; 1; 5; 5; 1; 0] [[6; 6]; [0; 12; 0]] [0; 1] = (0, 2, 36) /\
  (* odd padded length: data of length 5 (N = 5): the default-length forms yield rows of 4 values *)
  map len (ct_rows_gen F ex_nm (cpad F) (ilen_default F) [0; 1; 5; 1; 0] [[5; 5]] [0]) = [4] /\
  map len (ct_rows_gen F ex_nm nopad (ilen_default F) [0; 1; 5; 1; 0] [[5; 5]] [0]) = [4] /\
  ct_rows_gen F ex_nm nopad (ilen_given F) [0; 1; 5; 1; 0] [[5; 5]] [0] = responses_p ex_nm [0; 1; 5; 1; 0] 5 [[5; 5]] [0] /\
  (* the periodic padding: data of length 7 is padded to N = 8 with a copy of sample 0 *)
  cpad F [1; 2; 3; 4; 5; 6; 7] = [1; 2; 3; 4; 5; 6; 7; 1].
Proof. vm_compute. repeat split; reflexivity. Qed.

(** boxcar recovery REFUTED for the periodic good-size padding (exact arithmetic, no FFT involved): a one-sample pulse in
    bin 0 of 11 samples (N = 12; sample 0 is counted twice).  With r = response and q = squared norm of the un-normalised
    zero-mean template (templates scaled by N so the mean is an integer), the width-3 template placed at bin 10 beats the
    width-1 template placed at the pulse:  r3/sqrt(q3) > r1/sqrt(q1) > 0.  Over the data itself (n = 11) the width-1
    template at bin 0 wins. *)
Theorem C13_circular_pad_recovery_refuted :
  let d := [5; 0; 0; 0; 0; 0; 0; 0; 0; 0; 0] in
  let r1 := response ex_nm d [12] 0 12 0 in let q1 := tnorm2 ex_nm 12 (of_list (pad [12] 12)) in
  let r3 := response ex_nm d [12; 12; 12] 0 12 10 in let q3 := tnorm2 ex_nm 12 (of_list (pad [12; 12; 12] 12)) in
  let e1 := response_p ex_nm d [11] 0 0 in let p1 := tnorm2 ex_nm 11 (of_list (pad [11] 11)) in
  let e3 := response_p ex_nm d [11; 11; 11] 0 10 in let p3 := tnorm2 ex_nm 11 (of_list (pad [11; 11; 11] 11)) in
  (0 < r1 /\ 0 < r3 /\ r1 * r1 * q3 < r3 * r3 * q1) /\ (0 < e1 /\ 0 < e3 /\ e3 * e3 * p1 < e1 * e1 * p3).
Proof. vm_compute. repeat split; reflexivity. Qed.
Print Assumptions C13_circular_pad_recovery_refuted.

(** the hypotheses of the boxcar and Z-score statements are satisfiable *)
Example C13_example_boxcar :
  box_num 12 2 3 2 * box_num 12 2 3 2 * box_norm2 12 2 < box_num 12 2 2 2 * box_num 12 2 2 2 * box_norm2 12 3 /\
  box_num 12 2 2 2 * box_num 12 2 2 2 * box_norm2 12 2 <= box_num 12 2 2 2 * box_num 12 2 2 2 * box_norm2 12 2.
Proof. vm_compute. split; [reflexivity|discriminate]. Qed.

Example C13_example_zscore : (zscore_q (2 * 3 + 1) (2 * 1 + 1) (2 * 2) == zscore_q 3 1 2)%Q.
Proof. vm_compute. reflexivity. Qed.

(** ------------------------------------------------------------------------------------------------------------------
    Over the CURRENT source (no hypothesis on its form): the regenerated kernel transforms at the data length and hands that
    length to the inverse transform.  This theorem stops compiling as soon as the source leaves that form. *)
Theorem C13_current_source_form : forall F Nm, src_is F Nm nopad (ilen_given F).
Proof. exact current_form. Qed.
Print Assumptions C13_current_source_form.

(** full strength, every data length (odd ones included), no form hypothesis:
    convs[i][t] = sum_k z[(t + k - ref_i) mod n] * tnorm_i[k] *)
Theorem C13_response_formula : forall F Nm, fft_laws F -> forall data bank refs,
  1 <= len data -> (forall k, In k bank -> len k <= len data) ->
  convolve_templates_run F Nm data bank refs = responses_p Nm data (len data) bank refs.
Proof. exact response_formula_current. Qed.
Print Assumptions C13_response_formula.

(** S/N, best template and peak bin are the maximum of the inner products with the standardised data and its first location *)
Theorem C13_snr_is_max_inner_product : forall F Nm, fft_laws F -> forall z bank refs,
  1 <= len z -> 1 <= len bank -> (forall k, In k bank -> len k <= len z) ->
  let R := fun i t => response_p Nm z (nth (Z.to_nat i) bank []) (nth (Z.to_nat i) refs 0) t in
  let '(i, t, s) := mf_compute_run F Nm z bank refs in
  0 <= i < len bank /\ 0 <= t < len z /\ s = R i t /\
  (forall i' t', 0 <= i' < len bank -> 0 <= t' < len z -> R i' t' <= s) /\
  (forall i' t', 0 <= i' < len bank -> 0 <= t' < len z -> i' * len z + t' < i * len z + t -> R i' t' < s).
Proof. exact snr_is_max_inner_product. Qed.
Print Assumptions C13_snr_is_max_inner_product.

(** non-vacuity: ODD data length 5 (the case the form hypothesis used to guard), time-domain transform *)
Example C13_example_odd_length :
  let F := td_fft good5 in
  convolve_templates_run F ex_nm [0; 1; 5; 1; 0] [[5; 5]; [0; 10; 0]] [0; 1]
    = responses_p ex_nm [0; 1; 5; 1; 0] 5 [[5; 5]; [0; 10; 0]] [0; 1] /\
  mf_compute_run F ex_nm [0; 1; 5; 1; 0] [[5; 5]; [0; 10; 0]] [0; 1] = (1, 2, 36).
Proof. vm_compute. split; reflexivity. Qed.

(** the boxcar width ladder of MatchedFilter.get_box_width_spacing(size_max, sp / sq), for every size_max and spacing factor:
    starts at 1, strictly increasing, within [1, max(1, size_max)], maximal (the loop ends by its own tests: after the last width w
    either w >= size_max or max(w + 1, floor(sp w / sq)) > size_max), and independent of the fuel of the model *)
Theorem C13_box_width_ladder : forall size_max sp sq,
  let l := box_width_spacing_run size_max sp sq in
  hd 0 l = 1 /\ StronglySorted Z.lt l /\ Forall (fun w => 1 <= w <= Z.max 1 size_max) l /\
  (let w := List.last l 1 in (w <? size_max) = false \/ (Z.max (w + 1) (sp * w / sq) >? size_max) = true) /\
  (forall fuel, size_max - 1 <= Z.of_nat fuel -> l = 1 :: box_widths_loop fuel size_max sp sq 1).
Proof. exact box_widths_spec. Qed.
Print Assumptions C13_box_width_ladder.

Example C13_example_ladder :
  box_width_spacing_run 32 3 2 = [1; 2; 3; 4; 6; 9; 13; 19; 28] /\ box_width_spacing_run 7 1 1 = [1; 2; 3; 4; 5; 6; 7] /\
  box_width_spacing_run 64 2 1 = [1; 2; 4; 8; 16; 32; 64] /\ box_width_spacing_run 0 3 2 = [1].
Proof. vm_compute. repeat split; reflexivity. Qed.

(** on_pulse = extent of the best template placed at the peak bin, clipped to the data: always inside [0, nbins] ... *)
Theorem C13_on_pulse_inside : forall b width rwidth peak_bin nbins, 0 <= nbins ->
  let '(s, e) := on_pulse_run b width rwidth peak_bin nbins in 0 <= s /\ e <= nbins.
Proof. exact on_pulse_inside. Qed.
Print Assumptions C13_on_pulse_inside.

(** ... and for a peak bin inside the data and a (rounded) width of at least one bin it contains the peak bin and is exactly
    [peak, min(nbins, peak + width)) (start-referenced) resp. [max(0, peak - r), min(nbins, peak + r)), r = round(width) *)
Theorem C13_on_pulse_contains_peak : forall (b : bool) width rwidth peak_bin nbins, 0 <= peak_bin < nbins ->
  (if b then 1 <= width else 1 <= rwidth) ->
  let '(s, e) := on_pulse_run b width rwidth peak_bin nbins in
  0 <= s <= peak_bin /\ peak_bin < e <= nbins /\
  (if b then s = peak_bin /\ e = Z.min nbins (peak_bin + width)
   else s = Z.max 0 (peak_bin - rwidth) /\ e = Z.min nbins (peak_bin + rwidth)).
Proof. exact on_pulse_contains_peak. Qed.
Print Assumptions C13_on_pulse_contains_peak.

Example C13_example_on_pulse :
  on_pulse_run true 9 9 60 64 = (60, 64) /\ on_pulse_run false 3 3 1 64 = (0, 4) /\ on_pulse_run true 4 4 10 64 = (10, 14).
Proof. vm_compute. repeat split; reflexivity. Qed.

(** support of the peak-referenced templates: 2 size + 1 samples on the abscissae -size .. size, symmetric about the reference bin
    (size = ceil(3.5 sigma) resp. ceil(3.5 gamma) is a real-valued computation outside the integer model: tested by the oracle) *)
Theorem C13_peak_template_support_partial : forall size, 0 <= size ->
  gaussian_len size = 2 * size + 1 /\ gaussian_ref_bin size = size /\
  (forall i, gaussian_abscissa size (2 * gaussian_ref_bin size - i) = - gaussian_abscissa size i) /\
  lorentzian_len size = 2 * size + 1 /\ lorentzian_ref_bin size = size /\
  (forall i, lorentzian_abscissa size (2 * lorentzian_ref_bin size - i) = - lorentzian_abscissa size i).
Proof. exact peak_support. Qed.
Print Assumptions C13_peak_template_support_partial.
