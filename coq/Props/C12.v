(** C12 -- FFT-based operations equal their direct time-domain definitions  (PARTIAL).
    Proved here: the bookkeeping sigpyproc adds around the transform (good-size padding, output slice, operand
    reversal and lag convention of correlate, the length handed to the inverse), over the definitions REGENERATED
    from the source in Gen/FftOps.v, for all lengths and all inputs, given the behaviour [fft_laws] of the external
    transform.  Props/C12_dft.v proves that the exact DFT (over any commutative ring with principal roots of unity, e.g. the complex
    numbers) satisfies [fft_laws] -- inversion and the convolution theorem are theorems, not assumptions, about the mathematical
    transform.  NOT proved (no executable model of pocketfft): that pocketfft computes the DFT ("equals the Fourier sum", Parseval) to
    float32 rounding; checked numerically for every length by tools/harness/props/c12.py.
    Only property theorems here; each is closed by [exact] of a lemma of Proofs/C12_conv.v. *)
Require SPP.Props.C12_dft.   (* the DFT satisfies the assumed laws: stated in Props/C12_dft.v, required here so that it is part of this check's cone *)
From Coq Require Import ZArith List Bool.
Require Import SPP.Base.Rt SPP.Model.C12_np SPP.Model.C12_conv SPP.Gen.FftOps SPP.Proofs.C12_conv SPP.Proofs.C12_wrap.
Import ListNotations.
Open Scope Z_scope.

(** linear from circular convolution: pure index arithmetic, no FFT involved *)
Theorem C12_lconv_from_cconv : forall a b N, 1 <= len a -> 1 <= len b -> len a + len b - 1 <= N ->
  np_slice (cconv_list N (pad a N) (pad b N)) 0 (len a + len b - 1) = lconv_list a b.
Proof. exact lconv_from_cconv. Qed.
Print Assumptions C12_lconv_from_cconv.

(** kernels.fftconvolve returns the full linear convolution, for all lengths >= 1 (good size or not) *)
Theorem C12_fftconvolve_spec : forall F, fft_laws F -> forall a b, 1 <= len a -> 1 <= len b ->
  fftconvolve_run F a b = lconv_list a b.
Proof. exact fftconvolve_spec. Qed.
Print Assumptions C12_fftconvolve_spec.

Theorem C12_fftconvolve_empty : forall F a b, len a = 0 \/ len b = 0 -> fftconvolve_run F a b = [].
Proof. exact fftconvolve_empty. Qed.
Print Assumptions C12_fftconvolve_empty.

(** TimeSeries.correlate: n + m - 1 values, entry k is the correlation at lag k - (m - 1), i.e. lags -(m-1) .. n-1,
    in both ways of writing the lag sum: sum_j x[j] y[j-l] and sum_i x[i+l] y[i] *)
Theorem C12_correlate_lags : forall F, fft_laws F -> forall x y, 1 <= len x -> 1 <= len y ->
  correlate_run F x y = xcorr_list x y.
Proof. exact correlate_lags. Qed.
Print Assumptions C12_correlate_lags.

Theorem C12_correlate_lags_shift : forall F, fft_laws F -> forall x y k, 1 <= len x -> 1 <= len y -> 0 <= k < len x + len y - 1 ->
  of_list (correlate_run F x y) k = xcorr_shift (len y) (of_list x) (of_list y) (k - (len y - 1)).
Proof. exact correlate_lags_shift. Qed.
Print Assumptions C12_correlate_lags_shift.

(** TimeSeries.rfft: transform length = good size of the data length, recorded as header.nsamples *)
Theorem C12_rfft_pads : forall F x, ts_rfft_run F x = (fft_rfft F x (fft_good_size F (len x)), fft_good_size F (len x)).
Proof. exact ts_rfft_spec. Qed.
Print Assumptions C12_rfft_pads.

(** the source of FourierSeries.ifft is one of two forms: inverse without a length, or with header.nsamples *)
Theorem C12_ifft_source_form : forall F,
  (forall s h, fs_ifft_run F s h = ifft_default_len F s h) \/ (forall s h, fs_ifft_run F s h = ifft_given_len F s h).
Proof. exact fs_ifft_form. Qed.
Print Assumptions C12_ifft_source_form.

(** rfft then ifft returns the series zero-padded to the transform length.
    PARTIAL: proved over the current source only for EVEN transform lengths (what is missing: odd lengths,
    which the default-length form gets wrong, see [C12_ifft_default_len_refuted]) *)
Theorem C12_rfft_ifft_pad_partial : forall F, fft_laws F -> forall x, 1 <= len x -> Z.even (fft_good_size F (len x)) = true ->
  let '(s, h) := ts_rfft_run F x in
  fs_ifft_run F s h = pad x (fft_good_size F (len x)) /\ ts_check (fs_ifft_run F s h) h = true.
Proof. exact rfft_ifft_roundtrip_even. Qed.
Print Assumptions C12_rfft_ifft_pad_partial.

(** the inverse called without its length returns N - 1 samples for EVERY odd transform length N (N = 1, 3, 5, 9,
    15, 25, 27, 45, ... are good sizes): not the padded series, and TimeSeries(...) rejects it *)
Theorem C12_ifft_default_len_refuted : forall F, fft_laws F -> forall x, 1 <= len x -> Z.odd (fft_good_size F (len x)) = true ->
  let '(s, h) := ts_rfft_run F x in
  len (ifft_default_len F s h) = fft_good_size F (len x) - 1 /\ ts_check (ifft_default_len F s h) h = false /\
  ifft_default_len F s h <> pad x (fft_good_size F (len x)).
Proof. exact ifft_default_len_odd. Qed.
Print Assumptions C12_ifft_default_len_refuted.

(** full strength, for every length, once the source hands header.nsamples to the inverse *)
Theorem C12_rfft_ifft_pad_given_length : forall F, fft_laws F -> forall x, 1 <= len x ->
  (forall s h, fs_ifft_run F s h = ifft_given_len F s h) ->
  let '(s, h) := ts_rfft_run F x in
  fs_ifft_run F s h = pad x (fft_good_size F (len x)) /\ ts_check (fs_ifft_run F s h) h = true.
Proof. exact rfft_ifft_roundtrip_given. Qed.
Print Assumptions C12_rfft_ifft_pad_given_length.

(** amplitude spectrum: one value per bin, the modulus sqrt(re^2 + im^2) of that bin *)
Theorem C12_form_mspec_spec : forall sqrtf fspec, length (form_mspec_run sqrtf fspec) = length fspec /\
  forall i d, (i < length fspec)%nat ->
    nth i (form_mspec_run sqrtf fspec) (sqrtf (fst d * fst d + snd d * snd d)) =
    sqrtf (fst (nth i fspec d) * fst (nth i fspec d) + snd (nth i fspec d) * snd (nth i fspec d)).
Proof. exact form_mspec_spec. Qed.
Print Assumptions C12_form_mspec_spec.

(** which form the CURRENT source of FourierSeries.ifft has is a regenerated definition, [fs_ifft_passes_length] (Gen/FftOps.v: does
    the call hand a length to the inverse), and what either value means for the regenerated [fs_ifft_run] is proved, not probed *)
Theorem C12_ifft_flag_spec :
  if fs_ifft_passes_length then (forall F s h, fs_ifft_run F s h = ifft_given_len F s h)
  else (forall F s h, fs_ifft_run F s h = ifft_default_len F s h).
Proof. exact fs_ifft_flag_spec. Qed.
Print Assumptions C12_ifft_flag_spec.

(** FourierSeries.ifft is the regenerated wrapper kernels.nb_irfft called with header.nsamples, or with no length (NumPy's default
    2 (bins - 1), regenerated with the wrapper) *)
Theorem C12_ifft_is_wrapper : forall F s h,
  fs_ifft_run F s h = nb_irfft_run F s (if fs_ifft_passes_length then Some h else None) /\
  ifft_given_len F s h = nb_irfft_run F s (Some h) /\ ifft_default_len F s h = nb_irfft_run F s None.
Proof. intros F s h. split; [apply fs_ifft_via_wrapper|apply ifft_forms_are_wrapper]. Qed.
Print Assumptions C12_ifft_is_wrapper.

(** the round trip rfft -> ifft through the current source at FULL strength, for every length, with no hypothesis on the source:
    flag set -> the series zero-padded to the transform length, accepted by TimeSeries, for every length;
    flag clear -> that for even transform lengths, and N - 1 samples (rejected, not the padded series) for every odd one *)
Theorem C12_rfft_ifft_pad_live : forall F, fft_laws F -> forall x, 1 <= len x ->
  let '(s, h) := ts_rfft_run F x in
  if fs_ifft_passes_length
  then fs_ifft_run F s h = pad x (fft_good_size F (len x)) /\ ts_check (fs_ifft_run F s h) h = true
  else (Z.even (fft_good_size F (len x)) = true -> fs_ifft_run F s h = pad x (fft_good_size F (len x)) /\ ts_check (fs_ifft_run F s h) h = true) /\
       (Z.odd (fft_good_size F (len x)) = true -> len (fs_ifft_run F s h) = fft_good_size F (len x) - 1 /\ ts_check (fs_ifft_run F s h) h = false /\
                                                  fs_ifft_run F s h <> pad x (fft_good_size F (len x))).
Proof. exact rfft_ifft_roundtrip_live. Qed.
Print Assumptions C12_rfft_ifft_pad_live.

(** the compiled wrappers at the series' OWN length (no good-size padding; any length: prime, FFT-unfriendly):
    nb_rfft(x) transforms at len(x) and has len(x)/2+1 bins; nb_irfft(nb_rfft(x, N), N) is x cropped / zero-padded to N *)
Theorem C12_nb_rfft_default_length : forall F, fft_laws F -> forall x, 1 <= len x ->
  nb_rfft_run F x None = nb_rfft_run F x (Some (len x)) /\ fft_slen F (nb_rfft_run F x None) = len x / 2 + 1.
Proof. intros F L x Hx. split; [apply nb_rfft_default|]. rewrite nb_rfft_default. apply nb_rfft_bins; assumption. Qed.
Print Assumptions C12_nb_rfft_default_length.

Theorem C12_nb_roundtrip_given_length : forall F, fft_laws F -> forall x N, 1 <= N ->
  nb_irfft_run F (nb_rfft_run F x (Some N)) (Some N) = pad x N.
Proof. exact nb_roundtrip_given. Qed.
Print Assumptions C12_nb_roundtrip_given_length.

Theorem C12_nb_roundtrip_own_length : forall F, fft_laws F -> forall x, 1 <= len x ->
  nb_irfft_run F (nb_rfft_run F x None) (Some (len x)) = x.
Proof. exact nb_roundtrip_own_length. Qed.
Print Assumptions C12_nb_roundtrip_own_length.

(** the inverse left to its default length: x itself for every even length, one sample short (so not x) for every odd length *)
Theorem C12_nb_roundtrip_default_length : forall F, fft_laws F -> forall x,
  (1 <= len x -> Z.even (len x) = true -> nb_irfft_run F (nb_rfft_run F x None) None = x) /\
  (Z.odd (len x) = true -> len (nb_irfft_run F (nb_rfft_run F x None) None) = len x - 1 /\ nb_irfft_run F (nb_rfft_run F x None) None <> x).
Proof. intros F L x. split; [apply nb_roundtrip_default_even|apply nb_roundtrip_default_odd]; assumption. Qed.
Print Assumptions C12_nb_roundtrip_default_length.

(** a series correlated with ITSELF (t.correlate(t): both operands are one array): the autocorrelation at lags -(n-1) .. n-1.
    (The model's arrays are values: that no operand is written to is checked by the oracle only.) *)
Theorem C12_correlate_self : forall F, fft_laws F -> forall x, 1 <= len x -> correlate_run F x x = xcorr_list x x.
Proof. exact correlate_self. Qed.
Print Assumptions C12_correlate_self.

(** non-vacuity / the cases the theorems speak about: a prime length (7) with both inverses, an even FFT-unfriendly length (14 = 2 x 7),
    an odd one (default inverse one sample short), the live form of the current source, a self-correlation *)
Example C12_example_wrappers :
  nb_irfft_run (td_fft good5) (nb_rfft_run (td_fft good5) [1; 2; 3; 4; 5; 6; 7] None) (Some 7) = [1; 2; 3; 4; 5; 6; 7] /\
  len (nb_irfft_run (td_fft good5) (nb_rfft_run (td_fft good5) [1; 2; 3; 4; 5; 6; 7] None) None) = 6 /\
  nb_irfft_run (td_fft good5) (nb_rfft_run (td_fft good5) [1; 2; 3; 4; 5; 6; 7; 8; 9; 10; 11; 12; 13; 14] None) None
    = [1; 2; 3; 4; 5; 6; 7; 8; 9; 10; 11; 12; 13; 14] /\
  fft_slen (td_fft good5) (nb_rfft_run (td_fft good5) [1; 2; 3; 4; 5; 6; 7] None) = 4 /\
  nb_irfft_run (td_fft good5) (nb_rfft_run (td_fft good5) [1; 2; 3] (Some 5)) (Some 5) = [1; 2; 3; 0; 0] /\
  correlate_run (td_fft good5) [1; 2; 3] [1; 2; 3] = [3; 8; 14; 8; 3] /\
  (let '(s, h) := ts_rfft_run (td_fft good5) [5; 6; 7] in
   fs_ifft_run (td_fft good5) s h = (if fs_ifft_passes_length then [5; 6; 7] else [5; 6])).
Proof. vm_compute. repeat split; reflexivity. Qed.

(** non-vacuity: the assumed laws are satisfiable (time-domain instance), with good sizes of either parity *)
Theorem C12_fft_laws_satisfiable : forall gs, (forall n, 1 <= n -> n <= gs n) -> fft_laws (td_fft gs).
Proof. exact td_laws. Qed.
Print Assumptions C12_fft_laws_satisfiable.

Example C12_example_conv :
  fftconvolve_run (td_fft good5) [1; 2; 3] [4; 5] = [4; 13; 22; 15] /\
  fftconvolve_run (td_fft good5) [1; 2; 3; 4; 5; 6; 7] [1; -1] = [1; 1; 1; 1; 1; 1; 1; -7] /\
  lconv_list [1; 2; 3] [4; 5] = [4; 13; 22; 15] /\
  map good5 [1; 7; 11; 13; 17] = [1; 8; 12; 15; 18].
Proof. vm_compute. repeat split; reflexivity. Qed.

(** lags: correlating x with a copy of itself delayed by 2 peaks at lag -2, entry (m - 1) - 2 *)
Example C12_example_correlate :
  correlate_run (td_fft good5) [1; 2; 3] [0; 0; 1; 2; 3] = [3; 8; 14; 8; 3; 0; 0] /\
  xcorr_list [1; 2; 3] [0; 0; 1; 2; 3] = [3; 8; 14; 8; 3; 0; 0].
Proof. vm_compute. split; reflexivity. Qed.

(** the hypotheses of the even / odd theorems are both met: length 4 (N = 4) and length 3 (N = 3) *)
Example C12_example_roundtrip :
  (let '(s, h) := ts_rfft_run (td_fft good5) [5; 6; 7; 8] in (h, ifft_default_len (td_fft good5) s h)) = (4, [5; 6; 7; 8]) /\
  (let '(s, h) := ts_rfft_run (td_fft good5) [5; 6; 7] in (h, len (ifft_default_len (td_fft good5) s h), ifft_given_len (td_fft good5) s h))
     = (3, 2, [5; 6; 7]) /\
  (let '(s, h) := ts_rfft_run (td_fft good5) [1; 2; 3; 4; 5; 6; 7] in (h, ifft_given_len (td_fft good5) s h)) = (8, [1; 2; 3; 4; 5; 6; 7; 0]).
Proof. vm_compute. repeat split; reflexivity. Qed.
