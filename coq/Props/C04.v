(** C04 -- what is written is what is read back, for every format and sample depth.
    Only property theorems here, each closed by [exact] of a lemma of Proofs/C04_writer.v.

    Subject: the executable model Model/C04_Writer.v (FileWriter.cwrite, bits.pack, tofile / fromfile, prep_outfile,
    FilReader through the C02 reader, the .tim / .dat / .spec / .fft writers and readers) instantiated with what
    tools/py2coq/gen_c04.py REGENERATES from the source on every run (Gen/C04Io.v): [gen_cfg] (what cwrite hands to
    `pack` and to `tofile`: the array as it is, converted to the file's sample type, or refused; pack's dtype check),
    [file_dtype], [bit_unpack], [bitfact], [bitorder_big], [pack_len], [infer_nsamples], [samp_stride],
    [block_index] / [to_file_index], and per series format whether a SIGPROC header is written and whether the
    reader skips one ([series_formats]).  The bit kernels are Gen/Kernels.v (C03), the reader is Model/Stream.v (C02).

    Every verdict below is a dichotomy that is never vacuous: when the regenerated configuration is sound the first
    branch is the property for ALL depths, shapes, in-memory dtypes and representable values; otherwise the second
    branch is a counterexample of the model (and [..._is_violation] shows it contradicts the first). *)
From Coq Require Import ZArith List Bool.
Require Import SPP.Base.Rt SPP.Gen.Kernels SPP.Gen.C04Io SPP.Model.Bits SPP.Model.Stream SPP.Model.C04_Writer
               SPP.Model.C04_Multi SPP.Proofs.C04_writer SPP.Proofs.C04_multi.
Import ListNotations.
Open Scope Z_scope.

(** ** 1. never written at a width other than the declared one *)

(** for the cwrite the source has today *)
Theorem C04_width_verdict : if sound_cfg gen_cfg then WidthOk gen_cfg else WidthRefuted gen_cfg.
Proof. exact (width_verdict gen_cfg). Qed.
Print Assumptions C04_width_verdict.

(** and for whatever the generator may read after any edit of cwrite / pack *)
Theorem C04_width_verdict_all : forall cfg, if sound_cfg cfg then WidthOk cfg else WidthRefuted cfg.
Proof. exact width_verdict. Qed.
Print Assumptions C04_width_verdict_all.

Theorem C04_width_refuted_is_violation : forall cfg, WidthRefuted cfg -> ~ WidthOk cfg.
Proof. exact width_refuted_not_ok. Qed.
Print Assumptions C04_width_refuted_is_violation.

(** spelled out: if cwrite converts or refuses on the 8/16/32-bit branch, then for every depth, every in-memory dtype
    and ALL values (representable or not) and lengths: cwrite either raises ([None]) or writes exactly n*nbits bits *)
Theorem C04_written_width : sound_cfg gen_cfg = true -> forall nbits a b,
  In nbits depths -> nd_size a mod bitfact nbits = 0 -> cwrite gen_cfg nbits a = Some b ->
  8 * len b = nd_size a * nbits.
Proof. exact (width_sound gen_cfg). Qed.
Print Assumptions C04_written_width.

(** partial (holds for EVERY configuration, hence on the pinned tree too): an array that already has the file's
    sample type is written at the declared width *)
Theorem C04_width_matching_dtype_partial : forall cfg nbits a b, In nbits depths -> nd_size a mod bitfact nbits = 0 ->
  file_dtype nbits = Some (nd_dt a) -> cwrite cfg nbits a = Some b -> 8 * len b = nd_size a * nbits.
Proof. exact width_matching_dtype. Qed.
Print Assumptions C04_width_matching_dtype_partial.

(** ** 2. filterbank data through prep_outfile + cwrite, re-read with FilReader *)

Theorem C04_roundtrip_verdict : if sound_cfg gen_cfg then RoundtripFil gen_cfg else FilRefuted gen_cfg.
Proof. exact (roundtrip_verdict gen_cfg). Qed.
Print Assumptions C04_roundtrip_verdict.

Theorem C04_roundtrip_verdict_all : forall cfg, if sound_cfg cfg then RoundtripFil cfg else FilRefuted cfg.
Proof. exact roundtrip_verdict. Qed.
Print Assumptions C04_roundtrip_verdict_all.

Theorem C04_roundtrip_refuted_is_violation : forall cfg, FilRefuted cfg -> ~ RoundtripFil cfg.
Proof. exact fil_refuted_not_ok. Qed.
Print Assumptions C04_roundtrip_refuted_is_violation.

(** spelled out: for every depth, nchans >= 1 with nchans*nbits a whole number of bytes, nsamps >= 1, every
    in-memory dtype and every array of nsamps*nchans values representable at that depth, and any header bytes:
    either the write is refused -- and then the array's dtype is NOT the file's sample type -- or the file holds the
    header followed by exactly nsamps*nchans*nbits bits, the sample count inferred from the file length is nsamps,
    and read_block(0, nsamples) returns the values written, bit for bit and in the order written (element (c, t) of
    the block is item t*nchans + c: C04_block_shape) *)
Theorem C04_roundtrip_fil : sound_cfg gen_cfg = true -> forall nbits nchans nsamps h a,
  In nbits depths -> 1 <= nchans -> 1 <= nsamps -> (nchans * nbits) mod 8 = 0 ->
  nd_size a = nsamps * nchans -> Forall (repr_at nbits) (nd_vals a) ->
  match write_fil gen_cfg nbits h a with
  | None => file_dtype nbits <> Some (nd_dt a)
  | Some f => hdr f = h /\ 8 * datalen f = nsamps * nchans * nbits /\
              read_fil nbits nchans f = Some (nsamps, nd_vals a)
  end.
Proof. exact (roundtrip_sound gen_cfg). Qed.
Print Assumptions C04_roundtrip_fil.

(** partial (every configuration, pinned tree included): at the packed depths 1, 2, 4 a uint8 array is always
    accepted and reads back *)
Theorem C04_roundtrip_packed_partial : forall cfg nbits nchans nsamps h a,
  In nbits [1; 2; 4] -> In nbits depths -> 1 <= nchans -> 1 <= nsamps -> (nchans * nbits) mod 8 = 0 ->
  nd_size a = nsamps * nchans -> Forall (repr_at nbits) (nd_vals a) -> nd_dt a = U8 ->
  exists f, write_fil cfg nbits h a = Some f /\ read_fil nbits nchans f = Some (nsamps, nd_vals a).
Proof. exact roundtrip_packed_any. Qed.
Print Assumptions C04_roundtrip_packed_partial.

(** the regenerated inference expression returns the number of samples written whenever the data section holds
    exactly nsamps*nchans*nbits bits *)
Theorem C04_inferred_nsamples : forall L nbits nchans nsamps, 1 <= nbits -> 1 <= nchans ->
  8 * L = nsamps * nchans * nbits -> infer_nsamples L nbits nchans = nsamps.
Proof. exact infer_exact. Qed.
Print Assumptions C04_inferred_nsamples.

(** shape and order: the index map of FilReader.read_block (reshape(nsamps, nchans).transpose()) is a bijection
    between (channel, sample) and positions of the file, and FilterbankBlock.to_file (transpose().ravel()) writes
    with the same map *)
Theorem C04_block_shape : forall nchans nsamps c t, 0 <= c < nchans -> 0 <= t < nsamps ->
  0 <= block_index nchans c t < nsamps * nchans /\ block_index nchans c t / nchans = t /\ block_index nchans c t mod nchans = c.
Proof. exact block_index_bij. Qed.
Print Assumptions C04_block_shape.

Theorem C04_to_file_order : forall nchans c t, to_file_index nchans c t = block_index nchans c t.
Proof. exact to_file_order. Qed.
Print Assumptions C04_to_file_order.

(** FilterbankBlock.to_file (float32 block at the regenerated depth 32, through prep_outfile + cwrite), for EVERY
    configuration: accepted, written at the declared width, inferred count and values read back *)
Theorem C04_to_file_roundtrip : forall cfg nchans nsamps h vals, 1 <= nchans -> 1 <= nsamps -> len vals = nsamps * nchans ->
  Forall (in_dtype F32) vals ->
  exists f, write_fil cfg to_file_nbits h (mknd F32 vals) = Some f /\ hdr f = h /\
            8 * datalen f = nsamps * nchans * to_file_nbits /\ read_fil to_file_nbits nchans f = Some (nsamps, vals).
Proof. exact to_file_roundtrip. Qed.
Print Assumptions C04_to_file_roundtrip.

(** ** 2b. SEVERAL cwrite calls on one prepared output file (gulp by gulp: the normal use) *)

(** for EVERY configuration, depth, in-memory dtype and k >= 1 calls: if every call hands over a whole number of bytes
    (and, at 1/2/4 bits, values the depth can hold: the packing kernels are specified for those), the bytes on disk after
    cwrite(a1); ...; cwrite(ak) -- the concatenation of what the calls wrote, [None] if a call raised -- are the bytes
    of ONE cwrite of the concatenated array *)
Theorem C04_calls_are_one_call : forall cfg nbits dt l, In nbits depths -> l <> [] -> Forall (fun a => nd_dt a = dt) l ->
  calls_ok nbits (map nd_vals l) -> cwrite_all cfg nbits l = cwrite cfg nbits (nd_concat dt l).
Proof. exact cwrite_all_is_one_call. Qed.
Print Assumptions C04_calls_are_one_call.

(** two calls, spelled out *)
Theorem C04_cwrite_append : forall cfg nbits dt x y, In nbits depths -> len x mod bitfact nbits = 0 ->
  (bit_unpack nbits = true -> Forall (fun v => 0 <= v < 2 ^ nbits) x /\ Forall (fun v => 0 <= v < 2 ^ nbits) y) ->
  cwrite cfg nbits (mknd dt (x ++ y)) = oapp (cwrite cfg nbits (mknd dt x)) (cwrite cfg nbits (mknd dt y)).
Proof. exact cwrite_app. Qed.
Print Assumptions C04_cwrite_append.

(** and the product read back: k >= 1 calls of whole samples each (any split of the nsamps samples), all arrays of one
    dtype, values representable at the depth: either a call is refused -- and then the dtype is not the file's -- or the
    file is header + nsamps*nchans*nbits bits, the inferred count is nsamps and read_block(0, nsamples) returns the
    concatenation of the arrays, in the order written *)
Theorem C04_roundtrip_many_calls : sound_cfg gen_cfg = true -> forall nbits nchans nsamps h dt l,
  In nbits depths -> 1 <= nchans -> 1 <= nsamps -> (nchans * nbits) mod 8 = 0 ->
  l <> [] -> Forall (fun a => nd_dt a = dt) l -> Forall (fun a => nd_size a mod nchans = 0) l ->
  len (concat (map nd_vals l)) = nsamps * nchans -> Forall (fun a => Forall (repr_at nbits) (nd_vals a)) l ->
  match write_fil_many gen_cfg nbits h l with
  | None => file_dtype nbits <> Some dt
  | Some f => hdr f = h /\ 8 * datalen f = nsamps * nchans * nbits /\
              read_fil nbits nchans f = Some (nsamps, concat (map nd_vals l))
  end.
Proof. exact (roundtrip_many gen_cfg). Qed.
Print Assumptions C04_roundtrip_many_calls.

Theorem C04_roundtrip_many_calls_all : forall cfg, sound_cfg cfg = true -> RoundtripMany cfg.
Proof. exact roundtrip_many. Qed.
Print Assumptions C04_roundtrip_many_calls_all.

(** what the packed depths do when a call does NOT hand over a whole number of bytes (outside the property's quantifier:
    nchans*nbits is a whole number of bytes and calls hand over whole samples): pack allocates size // bitfact bytes, so
    the last size % bitfact samples of that call are dropped, not carried over -- the calls are then NOT one call *)
Theorem C04_packed_call_length : forall cfg nbits a b, In nbits [1; 2; 4] -> In nbits depths -> cwrite cfg nbits a = Some b ->
  len b = nd_size a / bf nbits.
Proof. exact cwrite_packed_len. Qed.
Print Assumptions C04_packed_call_length.

Theorem C04_unaligned_calls_refuted : forall cfg,
  cwrite_all cfg 4 [mknd U8 [1]; mknd U8 [2]] = Some [] /\ cwrite cfg 4 (mknd U8 [1; 2]) = Some [18].
Proof. exact unaligned_calls_differ. Qed.
Print Assumptions C04_unaligned_calls_refuted.

(** ** 2c. the memory layout of the array handed to cwrite: strided and read-only one-dimensional arrays *)

(** for the cwrite the source has today: if it copies an array that is not writable and C-contiguous in front of `pack`
    (regenerated: gen_cw_copies_noncontig), then for EVERY configuration, depth and view -- any buffer, offset, step,
    length, WRITEABLE flag -- cwrite writes exactly the bytes it writes for the contiguous array of the same values
    (so that every theorem above applies to the view's values); otherwise a uint8 array with representable values is
    refused at a packed depth because of its layout alone *)
Theorem C04_layout_verdict : if gen_cw_copies_noncontig then LayoutOk gen_cw_copies_noncontig else LayoutRefuted gen_cw_copies_noncontig.
Proof. exact (layout_verdict gen_cw_copies_noncontig). Qed.
Print Assumptions C04_layout_verdict.

Theorem C04_layout_verdict_all : forall copies : bool, if copies then LayoutOk copies else LayoutRefuted copies.
Proof. exact layout_verdict. Qed.
Print Assumptions C04_layout_verdict_all.

Theorem C04_layout_refuted_is_violation : forall copies : bool, LayoutRefuted copies -> ~ LayoutOk copies.
Proof. exact layout_refuted_not_ok. Qed.
Print Assumptions C04_layout_refuted_is_violation.

(** spelled out *)
Theorem C04_layout_same_bytes : gen_cw_copies_noncontig = true -> forall cfg nbits v,
  cwrite_view gen_cw_copies_noncontig cfg nbits v = cwrite cfg nbits (mknd (vw_dt v) (view_vals v)).
Proof. intros E cfg nbits v. rewrite E. exact (layout_sound cfg nbits v). Qed.
Print Assumptions C04_layout_same_bytes.

(** partial (whatever the source says, the tree before the copy was added included): at 8/16/32 bits every view is
    written like the array of its values *)
Theorem C04_layout_wide_partial : forall copies cfg nbits v, bit_unpack nbits = false ->
  cwrite_view copies cfg nbits v = cwrite cfg nbits (view_nd v).
Proof. exact layout_wide. Qed.
Print Assumptions C04_layout_wide_partial.

(** the tree before the copy was added *)
Theorem C04_pinned_layout_refuted : LayoutRefuted false.
Proof. exact layout_unsound. Qed.
Print Assumptions C04_pinned_layout_refuted.

(** the pinned tree's cwrite (array handed to tofile as it is), independently of what the source says today *)
Theorem C04_pinned_cwrite_refuted : WidthRefuted pinned_cfg /\ FilRefuted pinned_cfg.
Proof. exact pinned_cwrite_refuted. Qed.
Print Assumptions C04_pinned_cwrite_refuted.

(** ** 3. .tim, .dat, .spec, .fft *)

(** for each of the four regenerated formats: if the writer puts a header in front of the samples exactly when the
    reader skips one, then for ALL float32 contents and header bytes the product reads back to the values written
    (same count, same order; for the complex formats the count of float32 words is even), its length is header + 4 bytes per sample, and the inferred sample count is the count
    written; otherwise NO product with a header of >= 4 bytes reads back *)
Theorem C04_series_verdict : forall f, In f series_formats -> if sound_fmt f then SeriesOk f else SeriesBroken f.
Proof. exact series_verdict_generated. Qed.
Print Assumptions C04_series_verdict.

Theorem C04_series_broken_is_violation : forall f, SeriesBroken f -> ~ SeriesOk f.
Proof. exact series_broken_not_ok. Qed.
Print Assumptions C04_series_broken_is_violation.

(** the pinned tree's .dat pair (SIGPROC header written by to_dat, not skipped by from_dat) *)
Theorem C04_pinned_dat_refuted : SeriesBroken pinned_dat.
Proof. exact pinned_dat_refuted. Qed.
Print Assumptions C04_pinned_dat_refuted.

(** ** 4. one sample / one array: bytes and back *)
Theorem C04_sample_roundtrip : forall dt v, in_dtype dt v -> dec dt (enc dt v) = v.
Proof. exact dec_enc. Qed.
Print Assumptions C04_sample_roundtrip.

Theorem C04_fromfile_tofile : forall dt vals, Forall (in_dtype dt) vals -> fromfile dt (tofile (mknd dt vals)) = vals.
Proof. exact fromfile_tofile. Qed.
Print Assumptions C04_fromfile_tofile.

(** ** 5. the header in front of the data (codec external: its round trip is C05's subject, a section hypothesis here) *)
Theorem C04_meta_carried : forall (H : Type) (encode : H -> list Z) (parse : list Z -> option (H * Z)),
  (forall h rest, parse (encode h ++ rest) = Some (h, len (encode h))) ->
  forall cfg nbits h a f, write_fil cfg nbits (encode h) a = Some f ->
    parse (raw f) = Some (h, hdrlen f) /\ cwrite cfg nbits a = Some (dat f).
Proof. exact meta_carried. Qed.
Print Assumptions C04_meta_carried.

(** ** non-vacuity *)
(** hypotheses of C04_roundtrip_fil are satisfiable and the conclusion is the expected file: 4-bit, 2 channels *)
Example C04_example_fil :
  let a := mknd U8 [1; 2; 15; 0] in
  In 4 depths /\ (2 * 4) mod 8 = 0 /\ nd_size a = 2 * 2 /\ Forall (repr_at 4) (nd_vals a) /\
  write_fil (mkcfg AsIs Convert true) 4 [7; 7; 7] a = Some (mkfile [7; 7; 7] [18; 240]) /\
  read_fil 4 2 (mkfile [7; 7; 7] [18; 240]) = Some (2, [1; 2; 15; 0]).
Proof. cbv zeta. split; [vm_compute; auto 10|]. split; [reflexivity|]. split; [reflexivity|]. split.
  - repeat (apply Forall_cons; [vm_compute; split; [discriminate | reflexivity] |]). apply Forall_nil.
  - split; vm_compute; reflexivity. Qed.

(** conversion, refusal and the unconverted write: int64 values into a 16-bit file *)
Example C04_example_modes :
  cwrite (mkcfg AsIs Convert true) 16 (mknd I64 [513; 2]) = Some [1; 2; 2; 0] /\
  cwrite (mkcfg AsIs Refuse true) 16 (mknd I64 [513; 2]) = None /\
  cwrite (mkcfg AsIs Refuse true) 16 (mknd U16 [513; 2]) = Some [1; 2; 2; 0] /\
  cwrite (mkcfg AsIs AsIs true) 16 (mknd I64 [513; 2]) = Some [1; 2; 0; 0; 0; 0; 0; 0; 2; 0; 0; 0; 0; 0; 0; 0] /\
  cwrite (mkcfg AsIs AsIs true) 2 (mknd F32 [1; 2; 3; 0]) = None.
Proof. vm_compute. repeat split; reflexivity. Qed.

(** float32 samples 1.0, -2.0 behind a 4-byte header: read back when the reader skips it, not when it does not *)
Example C04_example_series :
  write_series (mkcfg AsIs Convert true) (mkfmt true true F32 true None false) [9; 9; 9; 9] [1; -2]
    = Some [9; 9; 9; 9; 0; 0; 128; 63; 0; 0; 0; 192] /\
  read_series (mkfmt true true F32 true None false) (Some 4) 32 [9; 9; 9; 9; 0; 0; 128; 63; 0; 0; 0; 192] = Some [1; -2] /\
  (exists l, read_series (mkfmt true true F32 false (Some F32) false) (Some 4) 32 [9; 9; 9; 9; 0; 0; 128; 63; 0; 0; 0; 192] = Some l /\ length l = 3%nat).
Proof. vm_compute. repeat split; try reflexivity. eexists; split; reflexivity. Qed.

(** several calls: hypotheses of C04_roundtrip_many_calls are satisfiable -- a 2-bit file of 4 channels written in three
    calls of 1, 2 and 1 samples; the product is the one of a single call and reads back to the 16 values *)
Example C04_example_many :
  let l := [mknd U8 [1; 2; 3; 0]; mknd U8 [3; 3; 0; 1; 2; 2; 1; 0]; mknd U8 [0; 1; 2; 3]] in
  In 2 depths /\ (4 * 2) mod 8 = 0 /\ l <> [] /\ Forall (fun a => nd_dt a = U8) l /\ Forall (fun a => nd_size a mod 4 = 0) l /\
  len (concat (map nd_vals l)) = 4 * 4 /\ calls_ok 2 (map nd_vals l) /\
  write_fil_many (mkcfg AsIs Convert true) 2 [7; 7] l = Some (mkfile [7; 7] [108; 241; 164; 27]) /\
  write_fil (mkcfg AsIs Convert true) 2 [7; 7] (nd_concat U8 l) = Some (mkfile [7; 7] [108; 241; 164; 27]) /\
  read_fil 2 4 (mkfile [7; 7] [108; 241; 164; 27]) = Some (4, [1; 2; 3; 0; 3; 3; 0; 1; 2; 2; 1; 0; 0; 1; 2; 3]).
Proof. cbv zeta. split; [vm_compute; auto 10|]. split; [reflexivity|]. split; [discriminate|].
  split; [repeat constructor|]. split; [repeat constructor|]. split; [reflexivity|]. split.
  - split; [repeat constructor|]. intros _. repeat (constructor; [repeat (constructor; [vm_compute; split; [discriminate | reflexivity]|]); constructor|]). constructor.
  - split; [|split]; vm_compute; reflexivity. Qed.

(** int64 samples into a 16-bit file in two calls (converted), and refused call by call *)
Example C04_example_many_modes :
  cwrite_all (mkcfg AsIs Convert true) 16 [mknd I64 [513]; mknd I64 [2; 3]] = Some [1; 2; 2; 0; 3; 0] /\
  cwrite (mkcfg AsIs Convert true) 16 (mknd I64 [513; 2; 3]) = Some [1; 2; 2; 0; 3; 0] /\
  cwrite_all (mkcfg AsIs Refuse true) 16 [mknd I64 [513]; mknd I64 [2; 3]] = None.
Proof. vm_compute. repeat split; reflexivity. Qed.

(** the hypothesis of C04_meta_carried is satisfiable by a header codec of the SIGPROC kind (length-prefixed, headers of
    every length), and the theorem then says what it should on a concrete product: a 2-byte header [84; 83] in front of
    three 16-bit samples *)
Example C04_example_meta :
  (forall h rest, lp_parse (lp_encode h ++ rest) = Some (h, len (lp_encode h))) /\
  exists f, write_fil (mkcfg AsIs Convert true) 16 (lp_encode [84; 83]) (mknd I64 [513; 2; 3]) = Some f /\
            raw f = [2; 84; 83; 1; 2; 2; 0; 3; 0] /\
            lp_parse (raw f) = Some ([84; 83], hdrlen f) /\
            cwrite (mkcfg AsIs Convert true) 16 (mknd I64 [513; 2; 3]) = Some (dat f).
Proof. split; [exact lp_codec|]. eexists. split; [vm_compute; reflexivity|]. split; [reflexivity|].
  exact (C04_meta_carried (list Z) lp_encode lp_parse lp_codec (mkcfg AsIs Convert true) 16 [84; 83] (mknd I64 [513; 2; 3]) _ eq_refl). Qed.

(** layouts: every other item of a buffer (strided) and a read-only array, at 4 bits and at 16 bits *)
Example C04_example_layout :
  let strided := mkview U8 [1; 9; 2; 9; 15; 9; 0; 9] 0 2 4 true in
  let readonly := mkview U8 [1; 2; 15; 0] 0 1 4 false in
  view_vals strided = [1; 2; 15; 0] /\ view_contig strided = false /\
  cwrite_view true (mkcfg AsIs Convert true) 4 strided = Some [18; 240] /\
  cwrite_view true (mkcfg AsIs Convert true) 4 readonly = Some [18; 240] /\
  cwrite_view false (mkcfg AsIs Convert true) 4 strided = None /\
  cwrite_view false (mkcfg AsIs Convert true) 4 readonly = None /\
  cwrite_view false (mkcfg AsIs Convert true) 16 strided = Some [1; 0; 2; 0; 15; 0; 0; 0].
Proof. vm_compute. repeat split; reflexivity. Qed.
