(** C04 -- what is written is what is read back, for every format and sample depth.
    Only property theorems here, each closed by [exact] of a lemma of Proofs/C04_writer.v.

    Subject: the executable model Model/C04_Writer.v (FileWriter.cwrite, bits.pack, tofile / fromfile, prep_outfile,
    FilReader through the C02 reader, the .tim / .dat / .spec / .fft writers and readers) instantiated with what
    tools/py2coq/gen_c04.py REGENERATES from the source on every run (Gen/C04Io.v): [gen_cfg] (what cwrite hands to
    `pack` and to `tofile`: the array as it is, converted to the file's sample type, or refused; pack's dtype check),
    [file_dtype], [bit_unpack], [bitfact], [bitorder_big], [pack_len], [infer_nsamples], [samp_stride],
    [block_index] / [to_file_index], and per series format whether a SIGPROC header is written and whether the
    reader skips one ([series_formats]).  The bit kernels are Gen/Kernels.v (C03), the reader is Model/Stream.v (C02).

    Every verdict below is a dichotomy that is never vacuous: when the regenerated configuration is sound the first
    branch is the property for ALL depths, shapes, in-memory dtypes and representable values; otherwise the second
    branch is a counterexample of the model (and [..._is_violation] shows it contradicts the first). *)
From Coq Require Import ZArith List Bool.
Require Import SPP.Base.Rt SPP.Gen.Kernels SPP.Gen.C04Io SPP.Model.Bits SPP.Model.Stream SPP.Model.C04_Writer
               SPP.Proofs.C04_writer.
Import ListNotations.
Open Scope Z_scope.

(** ** 1. never written at a width other than the declared one *)

(** for the cwrite the source has today *)
Theorem C04_width_verdict : if sound_cfg gen_cfg then WidthOk gen_cfg else WidthRefuted gen_cfg.
Proof. exact (width_verdict gen_cfg). Qed.
Print Assumptions C04_width_verdict.

(** and for whatever the generator may read after any edit of cwrite / pack *)
Theorem C04_width_verdict_all : forall cfg, if sound_cfg cfg then WidthOk cfg else WidthRefuted cfg.
Proof. exact width_verdict. Qed.
Print Assumptions C04_width_verdict_all.

Theorem C04_width_refuted_is_violation : forall cfg, WidthRefuted cfg -> ~ WidthOk cfg.
Proof. exact width_refuted_not_ok. Qed.
Print Assumptions C04_width_refuted_is_violation.

(** spelled out: if cwrite converts or refuses on the 8/16/32-bit branch, then for every depth, every in-memory dtype
    and ALL values (representable or not) and lengths: cwrite either raises ([None]) or writes exactly n*nbits bits *)
Theorem C04_written_width : sound_cfg gen_cfg = true -> forall nbits a b,
  In nbits depths -> nd_size a mod bitfact nbits = 0 -> cwrite gen_cfg nbits a = Some b ->
  8 * len b = nd_size a * nbits.
Proof. exact (width_sound gen_cfg). Qed.
Print Assumptions C04_written_width.

(** partial (holds for EVERY configuration, hence on the pinned tree too): an array that already has the file's
    sample type is written at the declared width *)
Theorem C04_width_matching_dtype_partial : forall cfg nbits a b, In nbits depths -> nd_size a mod bitfact nbits = 0 ->
  file_dtype nbits = Some (nd_dt a) -> cwrite cfg nbits a = Some b -> 8 * len b = nd_size a * nbits.
Proof. exact width_matching_dtype. Qed.
Print Assumptions C04_width_matching_dtype_partial.

(** ** 2. filterbank data through prep_outfile + cwrite, re-read with FilReader *)

Theorem C04_roundtrip_verdict : if sound_cfg gen_cfg then RoundtripFil gen_cfg else FilRefuted gen_cfg.
Proof. exact (roundtrip_verdict gen_cfg). Qed.
Print Assumptions C04_roundtrip_verdict.

Theorem C04_roundtrip_verdict_all : forall cfg, if sound_cfg cfg then RoundtripFil cfg else FilRefuted cfg.
Proof. exact roundtrip_verdict. Qed.
Print Assumptions C04_roundtrip_verdict_all.

Theorem C04_roundtrip_refuted_is_violation : forall cfg, FilRefuted cfg -> ~ RoundtripFil cfg.
Proof. exact fil_refuted_not_ok. Qed.
Print Assumptions C04_roundtrip_refuted_is_violation.

(** spelled out: for every depth, nchans >= 1 with nchans*nbits a whole number of bytes, nsamps >= 1, every
    in-memory dtype and every array of nsamps*nchans values representable at that depth, and any header bytes:
    either the write is refused -- and then the array's dtype is NOT the file's sample type -- or the file holds the
    header followed by exactly nsamps*nchans*nbits bits, the sample count inferred from the file length is nsamps,
    and read_block(0, nsamples) returns the values written, bit for bit and in the order written (element (c, t) of
    the block is item t*nchans + c: C04_block_shape) *)
Theorem C04_roundtrip_fil : sound_cfg gen_cfg = true -> forall nbits nchans nsamps h a,
  In nbits depths -> 1 <= nchans -> 1 <= nsamps -> (nchans * nbits) mod 8 = 0 ->
  nd_size a = nsamps * nchans -> Forall (repr_at nbits) (nd_vals a) ->
  match write_fil gen_cfg nbits h a with
  | None => file_dtype nbits <> Some (nd_dt a)
  | Some f => hdr f = h /\ 8 * datalen f = nsamps * nchans * nbits /\
              read_fil nbits nchans f = Some (nsamps, nd_vals a)
  end.
Proof. exact (roundtrip_sound gen_cfg). Qed.
Print Assumptions C04_roundtrip_fil.

(** partial (every configuration, pinned tree included): at the packed depths 1, 2, 4 a uint8 array is always
    accepted and reads back *)
Theorem C04_roundtrip_packed_partial : forall cfg nbits nchans nsamps h a,
  In nbits [1; 2; 4] -> In nbits depths -> 1 <= nchans -> 1 <= nsamps -> (nchans * nbits) mod 8 = 0 ->
  nd_size a = nsamps * nchans -> Forall (repr_at nbits) (nd_vals a) -> nd_dt a = U8 ->
  exists f, write_fil cfg nbits h a = Some f /\ read_fil nbits nchans f = Some (nsamps, nd_vals a).
Proof. exact roundtrip_packed_any. Qed.
Print Assumptions C04_roundtrip_packed_partial.

(** the regenerated inference expression returns the number of samples written whenever the data section holds
    exactly nsamps*nchans*nbits bits *)
Theorem C04_inferred_nsamples : forall L nbits nchans nsamps, 1 <= nbits -> 1 <= nchans ->
  8 * L = nsamps * nchans * nbits -> infer_nsamples L nbits nchans = nsamps.
Proof. exact infer_exact. Qed.
Print Assumptions C04_inferred_nsamples.

(** shape and order: the index map of FilReader.read_block (reshape(nsamps, nchans).transpose()) is a bijection
    between (channel, sample) and positions of the file, and FilterbankBlock.to_file (transpose().ravel()) writes
    with the same map *)
Theorem C04_block_shape : forall nchans nsamps c t, 0 <= c < nchans -> 0 <= t < nsamps ->
  0 <= block_index nchans c t < nsamps * nchans /\ block_index nchans c t / nchans = t /\ block_index nchans c t mod nchans = c.
Proof. exact block_index_bij. Qed.
Print Assumptions C04_block_shape.

Theorem C04_to_file_order : forall nchans c t, to_file_index nchans c t = block_index nchans c t.
Proof. exact to_file_order. Qed.
Print Assumptions C04_to_file_order.

(** FilterbankBlock.to_file (float32 block at the regenerated depth 32, through prep_outfile + cwrite), for EVERY
    configuration: accepted, written at the declared width, inferred count and values read back *)
Theorem C04_to_file_roundtrip : forall cfg nchans nsamps h vals, 1 <= nchans -> 1 <= nsamps -> len vals = nsamps * nchans ->
  Forall (in_dtype F32) vals ->
  exists f, write_fil cfg to_file_nbits h (mknd F32 vals) = Some f /\ hdr f = h /\
            8 * datalen f = nsamps * nchans * to_file_nbits /\ read_fil to_file_nbits nchans f = Some (nsamps, vals).
Proof. exact to_file_roundtrip. Qed.
Print Assumptions C04_to_file_roundtrip.

(** the pinned tree's cwrite (array handed to tofile as it is), independently of what the source says today *)
Theorem C04_pinned_cwrite_refuted : WidthRefuted pinned_cfg /\ FilRefuted pinned_cfg.
Proof. exact pinned_cwrite_refuted. Qed.
Print Assumptions C04_pinned_cwrite_refuted.

(** ** 3. .tim, .dat, .spec, .fft *)

(** for each of the four regenerated formats: if the writer puts a header in front of the samples exactly when the
    reader skips one, then for ALL float32 contents and header bytes the product reads back to the values written
    (same count, same order; for the complex formats the count of float32 words is even), its length is header + 4 bytes per sample, and the inferred sample count is the count
    written; otherwise NO product with a header of >= 4 bytes reads back *)
Theorem C04_series_verdict : forall f, In f series_formats -> if sound_fmt f then SeriesOk f else SeriesBroken f.
Proof. exact series_verdict_generated. Qed.
Print Assumptions C04_series_verdict.

Theorem C04_series_broken_is_violation : forall f, SeriesBroken f -> ~ SeriesOk f.
Proof. exact series_broken_not_ok. Qed.
Print Assumptions C04_series_broken_is_violation.

(** the pinned tree's .dat pair (SIGPROC header written by to_dat, not skipped by from_dat) *)
Theorem C04_pinned_dat_refuted : SeriesBroken pinned_dat.
Proof. exact pinned_dat_refuted. Qed.
Print Assumptions C04_pinned_dat_refuted.

(** ** 4. one sample / one array: bytes and back *)
Theorem C04_sample_roundtrip : forall dt v, in_dtype dt v -> dec dt (enc dt v) = v.
Proof. exact dec_enc. Qed.
Print Assumptions C04_sample_roundtrip.

Theorem C04_fromfile_tofile : forall dt vals, Forall (in_dtype dt) vals -> fromfile dt (tofile (mknd dt vals)) = vals.
Proof. exact fromfile_tofile. Qed.
Print Assumptions C04_fromfile_tofile.

(** ** 5. the header in front of the data (codec external: its round trip is C05's subject, a section hypothesis here) *)
Theorem C04_meta_carried : forall (H : Type) (encode : H -> list Z) (parse : list Z -> option (H * Z)),
  (forall h rest, parse (encode h ++ rest) = Some (h, len (encode h))) ->
  forall cfg nbits h a f, write_fil cfg nbits (encode h) a = Some f ->
    parse (raw f) = Some (h, hdrlen f) /\ cwrite cfg nbits a = Some (dat f).
Proof. exact meta_carried. Qed.
Print Assumptions C04_meta_carried.

(** ** non-vacuity *)
(** hypotheses of C04_roundtrip_fil are satisfiable and the conclusion is the expected file: 4-bit, 2 channels *)
Example C04_example_fil :
  let a := mknd U8 [1; 2; 15; 0] in
  In 4 depths /\ (2 * 4) mod 8 = 0 /\ nd_size a = 2 * 2 /\ Forall (repr_at 4) (nd_vals a) /\
  write_fil (mkcfg AsIs Convert true) 4 [7; 7; 7] a = Some (mkfile [7; 7; 7] [18; 240]) /\
  read_fil 4 2 (mkfile [7; 7; 7] [18; 240]) = Some (2, [1; 2; 15; 0]).
Proof. cbv zeta. split; [vm_compute; auto 10|]. split; [reflexivity|]. split; [reflexivity|]. split.
  - repeat (apply Forall_cons; [vm_compute; split; [discriminate | reflexivity] |]). apply Forall_nil.
  - split; vm_compute; reflexivity. Qed.

(** conversion, refusal and the unconverted write: int64 values into a 16-bit file *)
Example C04_example_modes :
  cwrite (mkcfg AsIs Convert true) 16 (mknd I64 [513; 2]) = Some [1; 2; 2; 0] /\
  cwrite (mkcfg AsIs Refuse true) 16 (mknd I64 [513; 2]) = None /\
  cwrite (mkcfg AsIs Refuse true) 16 (mknd U16 [513; 2]) = Some [1; 2; 2; 0] /\
  cwrite (mkcfg AsIs AsIs true) 16 (mknd I64 [513; 2]) = Some [1; 2; 0; 0; 0; 0; 0; 0; 2; 0; 0; 0; 0; 0; 0; 0] /\
  cwrite (mkcfg AsIs AsIs true) 2 (mknd F32 [1; 2; 3; 0]) = None.
Proof. vm_compute. repeat split; reflexivity. Qed.

(** float32 samples 1.0, -2.0 behind a 4-byte header: read back when the reader skips it, not when it does not *)
Example C04_example_series :
  write_series (mkcfg AsIs Convert true) (mkfmt true true F32 true None false) [9; 9; 9; 9] [1; -2]
    = Some [9; 9; 9; 9; 0; 0; 128; 63; 0; 0; 0; 192] /\
  read_series (mkfmt true true F32 true None false) (Some 4) 32 [9; 9; 9; 9; 0; 0; 128; 63; 0; 0; 0; 192] = Some [1; -2] /\
  (exists l, read_series (mkfmt true true F32 false (Some F32) false) (Some 4) 32 [9; 9; 9; 9; 0; 0; 128; 63; 0; 0; 0; 192] = Some l /\ length l = 3%nat).
Proof. vm_compute. repeat split; try reflexivity. eexists; split; reflexivity. Qed.
