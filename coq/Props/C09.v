(** C09 -- one dispersion law, applied identically by every dedispersion path.
    Only property theorems here; each is closed by [exact] of a lemma from Proofs/C09_*.v.  Their subjects are
    the definitions REGENERATED from the current source into Gen/C09.v (kernels roll_block, roll_block_valid,
    dmt_block, dmt_block_valid; the call sites of block.py with the sign they hand to the kernels; the law of
    params.compute_dmdelays over Q; the loop parameters of FilReader.read_dedisp_block) and Gen/Kernels.v
    (streamed kernel).  All path theorems hold for EVERY integer delay vector d / table D, every number of
    channels and every length. *)
From Coq Require Import ZArith List Bool QArith Lia.
Require Import SPP.Base.Rt SPP.Model.C09_Arr2 SPP.Model.C09_Spec SPP.Gen.Kernels SPP.Gen.C09 SPP.Model.C09_Rdb
  SPP.Model.C09_Pinned SPP.Model.C09_Stream SPP.Proofs.C09_kernels SPP.Proofs.C09_paths SPP.Proofs.C09_rdb SPP.Proofs.C09_law SPP.Proofs.C09_lawx
  SPP.Proofs.C09_stream SPP.Proofs.C09_streamw SPP.Proofs.C09_plan SPP.Proofs.C09_refuted.
Import ListNotations.
Open Scope Z_scope.

(** ===== the law ===================================================================================== *)

(** the reported delay is a nearest integer (the even one on a tie) of 4.148808e3*DM*(f^-2 - fref^-2)/tsamp *)
Theorem C09_law_nearest_sample : forall f dm ts fref : Q,
  nearest_even (dm_constant * dm * (/ (f * f) - / (fref * fref)) / ts)%Q (dmdelay_samples f dm ts fref).
Proof. exact law_nearest. Qed.
Print Assumptions C09_law_nearest_sample.

Theorem C09_law_constant : (dm_constant == 4148808 # 1000)%Q.
Proof. exact dm_constant_value. Qed.
Print Assumptions C09_law_constant.

Theorem C09_law_zero_at_reference : forall fref dm ts : Q, dmdelay_samples fref dm ts fref = 0.
Proof. exact law_zero_at_ref. Qed.
Print Assumptions C09_law_zero_at_reference.

Theorem C09_law_odd_in_dm : forall f dm ts fref : Q, dmdelay_samples f (- dm) ts fref = - dmdelay_samples f dm ts fref.
Proof. exact law_odd. Qed.
Print Assumptions C09_law_odd_in_dm.

Theorem C09_law_monotone_in_frequency : forall f1 f2 dm ts fref : Q, (0 < f1)%Q -> (f1 <= f2)%Q -> (0 <= dm)%Q -> (0 < ts)%Q ->
  dmdelay_samples f2 dm ts fref <= dmdelay_samples f1 dm ts fref.
Proof. exact law_monotone. Qed.
Print Assumptions C09_law_monotone_in_frequency.

Theorem C09_law_monotone_in_frequency_negative_dm : forall f1 f2 dm ts fref : Q, (0 < f1)%Q -> (f1 <= f2)%Q -> (dm <= 0)%Q -> (0 < ts)%Q ->
  dmdelay_samples f1 dm ts fref <= dmdelay_samples f2 dm ts fref.
Proof. exact law_monotone_neg. Qed.
Print Assumptions C09_law_monotone_in_frequency_negative_dm.

(** reference choices of Header.get_dmdelays: "ch1" is channel 0; "max"/"min" are the frequency of one of the
    channels; that channel's delay is zero ("center"/numeric: C09_law_zero_at_reference at that frequency) *)
Theorem C09_ref_ch1 : forall fch1 foff ts dm : Q, hdr_delay fch1 foff ts dm fch1 0 = 0.
Proof. exact ref_ch1_zero. Qed.
Print Assumptions C09_ref_ch1.

Theorem C09_ref_max : forall (fch1 foff ts dm : Q) nchans, 1 <= nchans ->
  exists i, 0 <= i < nchans /\ hdr_delay fch1 foff ts dm (hdr_fmax fch1 foff nchans) i = 0.
Proof. exact ref_max_zero. Qed.
Print Assumptions C09_ref_max.

Theorem C09_ref_min : forall (fch1 foff ts dm : Q) nchans, 1 <= nchans ->
  exists i, 0 <= i < nchans /\ hdr_delay fch1 foff ts dm (hdr_fmin fch1 foff nchans) i = 0.
Proof. exact ref_min_zero. Qed.
Print Assumptions C09_ref_min.

(** the reference frequency is ANY number in the theorems above (inside the band or not).  Its whole effect is the
    subtraction of its own delay against infinite frequency, dm*K/ref^2, which vanishes as ref grows: *)
Theorem C09_law_reference_term : forall f dm ref : Q,
  (dmdelay_sec f dm ref == dm * dm_constant * / (f * f) - dm * dm_constant * / (ref * ref))%Q.
Proof. exact law_reference_term. Qed.
Print Assumptions C09_law_reference_term.

(** ref_freq = +inf: float('inf') ** -2 = 0.0, the value Q gives ref_freq ** -2 at ref_freq := 0; the delays are
    then the nearest samples of 4.148808e3*DM*f^-2/tsamp *)
Theorem C09_law_infinite_reference : forall f dm ts : Q,
  nearest_even (dm_constant * dm * (/ (f * f)) / ts)%Q (dmdelay_samples f dm ts 0).
Proof. exact law_infinite_reference. Qed.
Print Assumptions C09_law_infinite_reference.

(** a numeric reference equal to the frequency of channel i: channel i is not delayed *)
Theorem C09_ref_numeric_channel : forall (fch1 foff ts dm : Q) i, hdr_delay fch1 foff ts dm (hdr_chan_freq fch1 foff i) i = 0.
Proof. exact law_zero_at_channel. Qed.
Print Assumptions C09_ref_numeric_channel.

(** shape of what compute_dmdelays returns: a scalar DM gives one delay per channel -- a 1-D array of length nchans,
    also for nchans = 1 -- and an array of n DMs gives an (n, nchans) table, also for n = 1 or nchans = 1 *)
Theorem C09_delays_shape_scalar_dm : forall ndm nchans, dmdelays_shape true ndm nchans = [nchans].
Proof. exact delays_shape_scalar. Qed.
Print Assumptions C09_delays_shape_scalar_dm.

Theorem C09_delays_shape_dm_table : forall ndm nchans, dmdelays_shape false ndm nchans = [ndm; nchans].
Proof. exact delays_shape_table. Qed.
Print Assumptions C09_delays_shape_dm_table.

(** ===== block rotation: FilterbankBlock.dedisperse ===================================================== *)

(** out[c][t] = x[c][(t + d_c) mod n] over the full length n, whatever np.empty_like returned *)
Theorem C09_block_rotation : forall junk x nchans n d, 0 <= nchans -> 1 <= n ->
  exists out, block_dedisperse_run false junk x nchans n d nchans = Some out /\
    forall c t, 0 <= c < nchans -> 0 <= t < n -> out c t = spec_rot x n d c t.
Proof. exact block_dedisperse_rot. Qed.
Print Assumptions C09_block_rotation.

(** only_valid_samples=True: declared length n - span(d); out[c][t] = x[c][t + t0 + d_c] on all of it;
    ValueError iff that length is <= 0 *)
Theorem C09_block_valid : forall junk x nchans n d, 1 <= nchans -> 0 < n - span_of nchans d ->
  exists out, block_dedisperse_run true junk x nchans n d nchans = Some out /\
    roll_block_valid_shape x nchans n (fun k => - d k) nchans = (nchans, n - span_of nchans d) /\
    forall c t, 0 <= c < nchans -> 0 <= t < n - span_of nchans d -> out c t = spec_valid x nchans d c t.
Proof. exact block_dedisperse_valid. Qed.
Print Assumptions C09_block_valid.

Theorem C09_block_valid_error : forall junk x nchans n d, 1 <= nchans ->
  n - span_of nchans d <= 0 -> block_dedisperse_run true junk x nchans n d nchans = None.
Proof. exact block_dedisperse_valid_error. Qed.
Print Assumptions C09_block_valid_error.

(** the kernels themselves, for any shift vector s (no sign convention involved) *)
Theorem C09_kernel_roll_block : forall junk x nr nc s, 0 <= nr -> 1 <= nc ->
  exists res, roll_block_run junk x nr nc s nr = Some res /\
    forall r c, 0 <= r < nr -> 0 <= c < nc -> res r c = x r ((c - s r) mod nc).
Proof. exact roll_block_spec. Qed.
Print Assumptions C09_kernel_roll_block.

Theorem C09_kernel_roll_block_valid : forall junk x nr nc s, 1 <= nr ->
  0 < nc + Z.min 0 (amin nr s) - Z.max 0 (amax nr s) ->
  exists res, roll_block_valid_run junk x nr nc s nr = Some res /\
    forall r t, 0 <= r < nr -> 0 <= t < nc + Z.min 0 (amin nr s) - Z.max 0 (amax nr s) ->
      res r t = x r (t + Z.max 0 (amax nr s) - s r).
Proof. exact roll_block_valid_spec. Qed.
Print Assumptions C09_kernel_roll_block_valid.

Theorem C09_kernel_dmt_block : forall junk jc x nr nc D nd, 0 <= nd -> 0 <= nr -> 1 <= nc ->
  exists res, dmt_block_run junk jc x nr nc D nd nr = Some res /\
    forall i t, 0 <= i < nd -> 0 <= t < nc -> res i t = sum_n (Z.to_nat nr) (fun c => x c ((t - D i c) mod nc)).
Proof. exact dmt_block_spec. Qed.
Print Assumptions C09_kernel_dmt_block.

(** ===== DM-time transform: FilterbankBlock.dmt_transform ================================================ *)

(** row i = sum over channels of the block dedispersed with the delays of row i, over the full length *)
Theorem C09_dmt_rows : forall junk jc x nchans n D ndms, 0 <= ndms -> 0 <= nchans -> 1 <= n ->
  exists out, dmt_transform_run false junk jc x nchans n D ndms nchans = Some out /\
    forall i t, 0 <= i < ndms -> 0 <= t < n -> out i t = spec_dmt x nchans n D i t.
Proof. exact dmt_transform_rows. Qed.
Print Assumptions C09_dmt_rows.

Theorem C09_dmt_valid_rows : forall junk jc x nchans n D ndms, 1 <= ndms -> 1 <= nchans ->
  0 < n - span_of2 ndms nchans D ->
  exists out, dmt_transform_run true junk jc x nchans n D ndms nchans = Some out /\
    dmt_block_valid_shape x nchans n (fun i k => - D i k) ndms nchans = (ndms, n - span_of2 ndms nchans D) /\
    forall i t, 0 <= i < ndms -> 0 <= t < n - span_of2 ndms nchans D -> out i t = spec_dmt_valid x ndms nchans D i t.
Proof. exact dmt_transform_valid_rows. Qed.
Print Assumptions C09_dmt_valid_rows.

Theorem C09_dmt_valid_error : forall junk jc x nchans n D ndms, 1 <= ndms -> 1 <= nchans ->
  n - span_of2 ndms nchans D <= 0 -> dmt_transform_run true junk jc x nchans n D ndms nchans = None.
Proof. exact dmt_transform_valid_error. Qed.
Print Assumptions C09_dmt_valid_error.

(** ===== reading a dedispersed block: FilReader.read_dedisp_block ========================================= *)

(** out[c][k] = x[c][start + d_c + k] for ALL k < nsamps whenever every channel window lies in the file,
    ValueError before any read otherwise *)
Theorem C09_read_dedisp_block : forall x N nchans d start nsamps, 1 <= nchans -> 1 <= nsamps ->
  (forall c, 0 <= c < nchans -> 0 <= start + d c /\ start + d c + nsamps <= N) ->
  exists out, rdb_run x N nchans d start nsamps = Some out /\
    forall c k, 0 <= c < nchans -> 0 <= k < nsamps -> out c k = spec_rdb x start d c k.
Proof. exact rdb_run_all_samples. Qed.
Print Assumptions C09_read_dedisp_block.

Theorem C09_read_dedisp_block_range_error : forall x N nchans d start nsamps c,
  0 <= c < nchans -> start + d c < 0 \/ N < start + d c + nsamps -> rdb_run x N nchans d start nsamps = None.
Proof. exact rdb_run_range_error. Qed.
Print Assumptions C09_read_dedisp_block_range_error.

(** ===== streamed kernel (kernel level only; the plan and the per-block offsets are C06) ================== *)

Theorem C09_stream_kernel_partial : forall x out0 d maxdelay nchans nsamps index, 0 <= nchans ->
  forall k, dedisperse_run x out0 d maxdelay nchans nsamps index k =
    out0 k + if (index <=? k) && (k <? index + Z.of_nat (Z.to_nat (nsamps - maxdelay)))
             then sum_n (Z.to_nat nchans) (fun c => x (nchans * (k - index + d c) + c)) else 0.
Proof. exact dedisperse_kernel_spec. Qed.
Print Assumptions C09_stream_kernel_partial.

(** ===== streamed dedispersion: the call site of Filterbank.dedisperse (regenerated from base.py) ============
    d = header.get_dmdelays(dm) (reference ch1, so d 0 = 0: C09_ref_ch1); the hypothesis "some delay is >= 0" is
    what the reference channel provides.  Composition over ALL blocks of the read plan is C06; here: every block. *)

(** the kernel is handed delay_c = d_c + t0 (t0 = -min(0, min d)), all within [0, maxdelay], and maxdelay = span *)
Theorem C09_stream_delays_normalised : forall d nchans gulp nsel, 1 <= nchans -> (exists r, 0 <= r < nchans /\ 0 <= d r) ->
  stream_kernel_maxdelay d nchans gulp nsel = span_of nchans d /\
  forall c, 0 <= c < nchans ->
    stream_kernel_delay d nchans gulp nsel c = d c + t0_of nchans d /\
    0 <= stream_kernel_delay d nchans gulp nsel c <= stream_kernel_maxdelay d nchans gulp nsel.
Proof. exact stream_delays_normalised. Qed.
Print Assumptions C09_stream_delays_normalised.

(** hence every element the kernel reads lies inside the block's buffer (what C09_stream_kernel_partial leaves open:
    its arrays are total functions, the compiled kernel wraps a negative index and does not check an overlong one) *)
Theorem C09_stream_reads_in_bounds : forall d nchans gulp nsel nsamps_r t c, 1 <= nchans -> (exists r, 0 <= r < nchans /\ 0 <= d r) ->
  0 <= c < nchans -> 0 <= t < nsamps_r - stream_kernel_maxdelay d nchans gulp nsel ->
  0 <= stream_kernel_nchans d nchans gulp nsel * (t + stream_kernel_delay d nchans gulp nsel c) + c
     < stream_kernel_nchans d nchans gulp nsel * nsamps_r.
Proof. exact stream_reads_in_bounds. Qed.
Print Assumptions C09_stream_reads_in_bounds.

(** the same statement for the kernel alone: 0 <= delay_c <= maxdelay is its precondition *)
Theorem C09_stream_kernel_precondition : forall (dk : arr) maxdelay nchans nsamps t c,
  (forall k, 0 <= k < nchans -> 0 <= dk k <= maxdelay) -> 0 <= c < nchans -> 0 <= t < nsamps - maxdelay ->
  0 <= nchans * (t + dk c) + c < nchans * nsamps.
Proof. exact kernel_reads_in_bounds. Qed.
Print Assumptions C09_stream_kernel_precondition.

(** the returned series has nsamps_sel - span samples and its header declares that length *)
Theorem C09_stream_length : forall d nchans gulp nsel, 1 <= nchans -> (exists r, 0 <= r < nchans /\ 0 <= d r) ->
  stream_out_len d nchans gulp nsel = nsel - span_of nchans d /\
  stream_declared_nsamples d nchans gulp nsel = stream_out_len d nchans gulp nsel.
Proof. exact stream_length. Qed.
Print Assumptions C09_stream_length.

(** the plan is asked for skipback = maxdelay and a read size >= max(2*maxdelay, gulp); block 0 writes at 0 and
    the write position advances by exactly the stride of that plan (read size - skipback), whatever gulp was asked *)
Theorem C09_stream_blocks_tile : forall d nchans gulp nsel, 1 <= nchans ->
  stream_plan_skipback d nchans gulp nsel = stream_kernel_maxdelay d nchans gulp nsel /\
  2 * stream_kernel_maxdelay d nchans gulp nsel <= stream_plan_gulp d nchans gulp nsel /\
  gulp <= stream_plan_gulp d nchans gulp nsel /\
  stream_kernel_nchans d nchans gulp nsel = nchans /\
  stream_kernel_index d nchans gulp nsel 0 = 0 /\
  forall ii, stream_kernel_index d nchans gulp nsel (ii + 1) =
             stream_kernel_index d nchans gulp nsel ii + (stream_plan_gulp d nchans gulp nsel - stream_plan_skipback d nchans gulp nsel).
Proof. exact stream_plan_facts. Qed.
Print Assumptions C09_stream_blocks_tile.

(** block ii of nsamps_r samples, read where the plan puts it (start + its write position), adds
    sum_c x[c][start + t + t0 + d_c] to exactly the output samples t in [index, index + nsamps_r - span) and leaves
    every other sample alone.  Partial: the sum over the blocks of the plan (each t covered exactly once) is C06. *)
Theorem C09_stream_block_partial : forall x d nchans gulp nsel out nsamps_r ii start, 1 <= nchans -> (exists r, 0 <= r < nchans /\ 0 <= d r) ->
  forall k, stream_block x d nchans gulp nsel out (nsamps_r, ii, start + stream_kernel_index d nchans gulp nsel ii) k =
    out k + if (stream_kernel_index d nchans gulp nsel ii <=? k) &&
               (k <? stream_kernel_index d nchans gulp nsel ii + Z.max 0 (nsamps_r - span_of nchans d))
            then spec_stream x nchans start d (t0_of nchans d) k else 0.
Proof. exact stream_block_adds_spec. Qed.
Print Assumptions C09_stream_block_partial.

(** the WHOLE loop, for every requested gulp: over the blocks read_plan yields for a selection of nsel samples
    (plan_blocks with the read size min(nsel, max(2*maxdelay, gulp)) and the skip-back the call site asks for) the returned
    series is sum_c x[c][start + t + t0 + d_c] at every t < nsel - span and stays 0 beyond.  [fuel] only bounds the number of
    blocks (any fuel >= nsel).  Trusted here: that plan_blocks (Model/C09_Stream.v) lists the blocks of FilReader.read_plan --
    block ii of min(G, what is left) samples at start + ii*(G - skipback), a remainder of at most skipback samples not read --
    which C01 proves of the regenerated plan (C01_plan_facts, C01_plan_overlap) and the correspondence shard c09_stream checks
    against the implementation; and the buffer layout [stream_buffer] (sample-major reads: C01/C03). *)
Theorem C09_stream_whole_file : forall x d nchans gulp nsel start, 1 <= nchans -> (exists r, 0 <= r < nchans /\ 0 <= d r) ->
  forall fuel, 1 <= gulp -> span_of nchans d < nsel -> nsel <= Z.of_nat fuel ->
  forall k, stream_run x d nchans gulp nsel
              (plan_blocks fuel start nsel (Z.min nsel (stream_plan_gulp d nchans gulp nsel)) (stream_plan_skipback d nchans gulp nsel) 0) k
            = if (0 <=? k) && (k <? nsel - span_of nchans d) then spec_stream x nchans start d (t0_of nchans d) k else 0.
Proof. exact stream_whole_file. Qed.
Print Assumptions C09_stream_whole_file.

(** plan_blocks IS the regenerated FilReader.read_plan (Gen/Plan.v, as normalised by C01): entry by entry -- number of blocks,
    samples per block (elements / nchans), block ii at start + ii*(read size - skipback) *)
Theorem C09_read_plan_is_plan_blocks : forall gulp0 start nsamps skipback0 N nch fuel,
  1 <= gulp0 -> 1 <= nsamps -> Z.abs skipback0 < Z.min nsamps gulp0 -> 1 <= nch -> nsamps < Z.of_nat fuel ->
  exists g sb blocks, Gen.Plan.fil_plan gulp0 start nsamps skipback0 N (N * nch) nch nch = Some (g, sb, start * nch, blocks) /\
    g = Z.min nsamps gulp0 /\ sb = Z.abs skipback0 /\
    map (plan_entry start g sb nch) blocks = C09_Stream.plan_blocks fuel start nsamps g sb 0.
Proof. exact read_plan_is_plan_blocks. Qed.
Print Assumptions C09_read_plan_is_plan_blocks.

(** hence, over the regenerated plan itself, called with the read size and skip-back of the regenerated call site, the loop returns
    the demanded series for every gulp.  Still trusted: that block ii of the plan begins at file sample start + ii*(read size -
    skipback) (the seeks between reads; C01_plan_sound / C01_plan_overlap state it of the delivered samples) and the sample-major
    layout of a read (stream_buffer; C01/C03); both are exercised by the correspondence shard c09_stream. *)
Theorem C09_stream_over_read_plan : forall x d nchans gulp nsel start N,
  1 <= nchans -> (exists r, 0 <= r < nchans /\ 0 <= d r) -> 1 <= gulp -> span_of nchans d < nsel ->
  exists g sb blocks,
    Gen.Plan.fil_plan (stream_plan_gulp d nchans gulp nsel) start nsel (stream_plan_skipback d nchans gulp nsel) N (N * nchans) nchans nchans
      = Some (g, sb, start * nchans, blocks) /\
    forall k, stream_run x d nchans gulp nsel (map (plan_entry start g sb nchans) blocks) k
              = if (0 <=? k) && (k <? nsel - span_of nchans d) then spec_stream x nchans start d (t0_of nchans d) k else 0.
Proof. exact stream_over_read_plan. Qed.
Print Assumptions C09_stream_over_read_plan.

(** ===== the paths agree; pulse restoration; inverse ===================================================== *)

Theorem C09_valid_is_window_of_rotation : forall x nchans n d c t, 1 <= nchans ->
  0 <= c < nchans -> 0 <= t < n - span_of nchans d ->
  spec_valid x nchans d c t = spec_rot x n d c (t + t0_of nchans d).
Proof. exact valid_is_window_of_rotation. Qed.
Print Assumptions C09_valid_is_window_of_rotation.

Theorem C09_dmt_row_is_sum_of_rotation : forall x nchans n D i t,
  spec_dmt x nchans n D i t = sum_n (Z.to_nat nchans) (fun c => spec_rot x n (D i) c t).
Proof. exact dmt_row_is_sum_of_rotation. Qed.
Print Assumptions C09_dmt_row_is_sum_of_rotation.

(** dedispersing with delays d and then with -d (= the delays of -DM, C09_law_odd_in_dm) is the identity *)
Theorem C09_dedisperse_inverse : forall junk1 junk2 x nchans n d, 0 <= nchans -> 1 <= n ->
  exists y z, block_dedisperse_run false junk1 x nchans n d nchans = Some y /\
              block_dedisperse_run false junk2 y nchans n (fun k => - d k) nchans = Some z /\
              forall c t, 0 <= c < nchans -> 0 <= t < n -> z c t = x c t.
Proof. exact dedisperse_inverse. Qed.
Print Assumptions C09_dedisperse_inverse.

(** a pulse synthesised with the delays d is restored to one column in every channel, hence in the sum *)
Theorem C09_pulse_restored : forall n p d c t, 1 <= n -> 0 <= p < n -> 0 <= t < n ->
  spec_rot (pulse n p d) n d c t = if t =? p then 1 else 0.
Proof. exact pulse_restored. Qed.
Print Assumptions C09_pulse_restored.

Theorem C09_pulse_restored_sum : forall nchans n p d t, 0 <= nchans -> 1 <= n -> 0 <= p < n -> 0 <= t < n ->
  sum_n (Z.to_nat nchans) (fun c => spec_rot (pulse n p d) n d c t) = if t =? p then nchans else 0.
Proof. exact pulse_restored_sum. Qed.
Print Assumptions C09_pulse_restored_sum.

(** ===== what the pinned tree (fc376ec) did instead: witnesses on fixed terms ============================== *)

(** dmt_transform handed +dm_delays to dmt_block: rows are dispersed, not dedispersed *)
Theorem C09_dmt_plus_sign_refuted :
  exists x nchans n D ndms out,
    dmt_block_run (fun _ _ => 0) (fun _ _ _ => 0) x nchans n D ndms nchans = Some out /\
    exists i t, 0 <= i < ndms /\ 0 <= t < n /\ out i t <> spec_dmt x nchans n D i t.
Proof. exact dmt_plus_sign_refuted. Qed.
Print Assumptions C09_dmt_plus_sign_refuted.

(** dmt_block_valid cut every row to its own window: ValueError although valid samples exist *)
Theorem C09_dmt_valid_pinned_refuted :
  exists x nchans n D ndms,
    0 < n - span_of2 ndms nchans D /\
    dmt_block_valid_pinned (fun _ _ => 0) (fun _ _ _ => 0) x nchans n (fun i k => - D i k) ndms nchans = None.
Proof. exact dmt_valid_pinned_refuted. Qed.
Print Assumptions C09_dmt_valid_pinned_refuted.

(** read_dedisp_block swept only [start, start + nsamps): the last d_c samples of channel c stay zero *)
Theorem C09_rdb_pinned_refuted :
  exists x N nchans d start nsamps out,
    (forall c, 0 <= c < nchans -> 0 <= start + d c /\ start + d c + nsamps <= N) /\
    rdb_pinned x N nchans d start nsamps = Some out /\
    exists c k, 0 <= c < nchans /\ 0 <= k < nsamps /\ out c k <> spec_rdb x start d c k.
Proof. exact rdb_pinned_refuted. Qed.
Print Assumptions C09_rdb_pinned_refuted.

(** ===== non-vacuity: concrete instances meeting the hypotheses =========================================== *)
Definition ex_x : arr2 := of_list2 [[1; 2; 3; 4; 5; 6]; [11; 12; 13; 14; 15; 16]; [21; 22; 23; 24; 25; 26]].
Definition ex_d : arr := of_list [0; 1; 3].
Definition ex_dneg : arr := of_list [0; -1; -2].
Definition ex_D : arr2 := of_list2 [[0; 0; 0]; [0; 1; 3]].
Definition J : arr2 := fun _ _ => -99.

Example C09_example_rotation :
  option_map (to_list2 3 6) (block_dedisperse_run false J ex_x 3 6 ex_d 3)
  = Some [[1; 2; 3; 4; 5; 6]; [12; 13; 14; 15; 16; 11]; [24; 25; 26; 21; 22; 23]].
Proof. vm_compute. reflexivity. Qed.

Example C09_example_valid :
  span_of 3 ex_d = 3 /\ t0_of 3 ex_d = 0 /\ span_of 3 ex_dneg = 2 /\ t0_of 3 ex_dneg = 2 /\
  option_map (to_list2 3 3) (block_dedisperse_run true J ex_x 3 6 ex_d 3) = Some [[1; 2; 3]; [12; 13; 14]; [24; 25; 26]] /\
  option_map (to_list2 3 4) (block_dedisperse_run true J ex_x 3 6 ex_dneg 3) = Some [[3; 4; 5; 6]; [12; 13; 14; 15]; [21; 22; 23; 24]] /\
  block_dedisperse_run true J ex_x 3 3 ex_d 3 = None.
Proof. vm_compute. repeat split; reflexivity. Qed.

Example C09_example_dmt :
  option_map (to_list2 2 6) (dmt_transform_run false J (fun _ => J) ex_x 3 6 ex_D 2 3)
  = Some [[33; 36; 39; 42; 45; 48]; [37; 40; 43; 40; 43; 40]] /\
  span_of2 2 3 ex_D = 3 /\
  option_map (to_list2 2 3) (dmt_transform_run true J (fun _ => J) ex_x 3 6 ex_D 2 3) = Some [[33; 36; 39]; [37; 40; 43]] /\
  dmt_transform_run true J (fun _ => J) ex_x 3 3 ex_D 2 3 = None.
Proof. vm_compute. repeat split; reflexivity. Qed.

Example C09_example_rdb :
  (forall c, 0 <= c < 3 -> 0 <= 1 + ex_d c /\ 1 + ex_d c + 2 <= 6) /\
  option_map (to_list2 3 2) (rdb_run ex_x 6 3 ex_d 1 2) = Some [[2; 3]; [13; 14]; [25; 26]] /\
  rdb_run ex_x 6 3 ex_d 2 2 = None.
Proof.
  split; [|vm_compute; split; reflexivity].
  intros c Hc. assert (c = 0 \/ c = 1 \/ c = 2) as [->|[->| ->]] by lia.
  all: vm_compute; split; discriminate.
Qed.

(** 1400 MHz, DM 10, 1 ms against an infinite reference: 21.17 -> 21; against 3000 MHz (above any band): 16.56 -> 17;
    one channel, one DM *)
Example C09_example_law_edges :
  dmdelay_samples 1400 10 (1 # 1000) 0 = 21 /\ dmdelay_samples 1400 10 (1 # 1000) 3000 = 17 /\
  dmdelays_shape true 1 1 = [1] /\ dmdelays_shape false 1 1 = [1; 1] /\ dmdelays_shape false 5 1 = [5; 1].
Proof. vm_compute. repeat split; reflexivity. Qed.

(** streamed call site: delays [0; -1; -2] (ascending band), file of 6 samples from sample 0, gulp 2 < 2*maxdelay = 4:
    normalised delays [2; 1; 0], length 4, read size 4, index of block 1 = 2; the two blocks of the plan give the series *)
Example C09_example_stream :
  (exists r, 0 <= r < 3 /\ 0 <= ex_dneg r) /\
  map (stream_kernel_delay ex_dneg 3 2 6) [0; 1; 2] = [2; 1; 0] /\ stream_kernel_maxdelay ex_dneg 3 2 6 = 2 /\
  stream_out_len ex_dneg 3 2 6 = 4 /\ stream_plan_gulp ex_dneg 3 2 6 = 4 /\ stream_kernel_index ex_dneg 3 2 6 1 = 2 /\
  plan_blocks 10 0 6 4 2 0 = [(4, 0, 0); (4, 1, 2)] /\
  to_list 4 (stream_run ex_x ex_dneg 3 2 6 (plan_blocks 10 0 6 4 2 0)) = to_list 4 (spec_stream ex_x 3 0 ex_dneg 2) /\
  to_list 4 (spec_stream ex_x 3 0 ex_dneg 2) = [36; 39; 42; 45].
Proof. split; [exists 0; split; [lia|vm_compute; discriminate]|]. vm_compute. repeat split; reflexivity. Qed.

(** hypotheses of C09_stream_whole_file: delays [0; -1; -2], 6 samples, gulp 2 (two blocks) and gulp 100 (one block) *)
Example C09_example_stream_whole :
  (exists r, 0 <= r < 3 /\ 0 <= ex_dneg r) /\ span_of 3 ex_dneg < 6 /\ 6 <= Z.of_nat 10 /\
  length (plan_blocks 10 1 6 (Z.min 6 (stream_plan_gulp ex_dneg 3 2 6)) (stream_plan_skipback ex_dneg 3 2 6) 0) = 2%nat /\
  plan_blocks 10 1 6 (Z.min 6 (stream_plan_gulp ex_dneg 3 100 6)) (stream_plan_skipback ex_dneg 3 100 6) 0 = [(6, 0, 1)].
Proof. split; [exists 0; split; [lia|vm_compute; discriminate]|]. vm_compute. repeat split; try reflexivity; discriminate. Qed.

(** the regenerated plan for 6 samples from sample 1, read size 4, skip-back 2, 3 channels: two blocks, as plan_blocks lists them *)
Example C09_example_read_plan :
  Gen.Plan.fil_plan 4 1 6 2 10 30 3 3 = Some (4, 2, 3, [(0, 12, -6); (1, 12, -6)]) /\
  map (plan_entry 1 4 2 3) [(0, 12, -6); (1, 12, -6)] = C09_Stream.plan_blocks 7 1 6 4 2 0 /\
  C09_Stream.plan_blocks 7 1 6 4 2 0 = [(4, 0, 1); (4, 1, 3)].
Proof. vm_compute. repeat split; reflexivity. Qed.

(** the law at 1400 MHz against 1500 MHz, DM 10, 1 ms: exact value 2.728..., and a genuine tie (delay 2.5 -> 2) *)
Example C09_example_law :
  dmdelay_samples 1400 10 (1 # 1000) 1500 = 3 /\ dmdelay_samples 1400 (-10) (1 # 1000) 1500 = -3 /\
  dmdelay_samples 1500 10 (1 # 1000) 1400 = -3 /\
  rhe (5 # 2) = 2 /\ rhe (7 # 2) = 4 /\ rhe (- (5 # 2)) = -2 /\ rhe (1 # 3) = 0.
Proof. vm_compute. repeat split; reflexivity. Qed.

Example C09_example_pulse :
  option_map (to_list2 3 6) (block_dedisperse_run false J (pulse 6 2 ex_d) 3 6 ex_d 3)
  = Some [[0; 0; 1; 0; 0; 0]; [0; 0; 1; 0; 0; 0]; [0; 0; 1; 0; 0; 0]].
Proof. vm_compute. reflexivity. Qed.
