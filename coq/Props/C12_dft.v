(** C12, extension: the two laws the C12 model assumes of the external FFT -- inversion (H2) and the convolution theorem (H3) -- are
    theorems about the discrete Fourier transform itself, over every commutative ring with a principal N-th root of unity in which N
    is invertible (the complex numbers with exp(2 pi i / N); the rationals with -1 for N = 2, see the Example).  The exact transform is
    an instance of the FFT interface and satisfies all five laws, so every C12 theorem stated "for all F with fft_laws F" holds for the
    implementation's bookkeeping composed with the mathematical DFT.  What remains assumed of pocketfft is that it computes the DFT
    and its inverse, to float32 rounding (checked numerically by tools/harness/props/c12.py: "equals the Fourier sum", Parseval).
    Only property theorems here; proofs are in Proofs/C12_dft.v and Proofs/C12_dft_fft.v. *)
From Coq Require Import ZArith Arith List Ring_theory QArith Qcanon Lia.
Require Import SPP.Base.Rt SPP.Model.C12_np SPP.Model.C12_conv SPP.Gen.FftOps SPP.Proofs.C12_dft SPP.Proofs.C12_dft_fft.

(** inverse DFT of the DFT is the signal *)
Theorem C12_dft_inversion : forall (R : Type) (r0 r1 : R) (radd rmul rsub : R -> R -> R) (ropp : R -> R),
  ring_theory r0 r1 radd rmul rsub ropp eq ->
  forall N : nat, (0 < N)%nat -> forall w Ninv : R,
  rpow R r1 rmul w N = r1 -> rmul (rnat R r0 r1 radd N) Ninv = r1 ->
  (forall d : nat, (0 < d < N)%nat -> rsum R r0 radd N (fun k => rpow R r1 rmul w (k * d)) = r0) ->
  forall (a : nat -> R) (j : nat), (j < N)%nat ->
  idft R r0 r1 radd rmul N w Ninv (dft R r0 r1 radd rmul N w a) j = a j.
Proof. exact idft_dft. Qed.
Print Assumptions C12_dft_inversion.

(** the convolution theorem: the inverse DFT of the product of two spectra is the circular convolution of the signals *)
Theorem C12_dft_convolution_theorem : forall (R : Type) (r0 r1 : R) (radd rmul rsub : R -> R -> R) (ropp : R -> R),
  ring_theory r0 r1 radd rmul rsub ropp eq ->
  forall N : nat, (0 < N)%nat -> forall w Ninv : R,
  rpow R r1 rmul w N = r1 -> rmul (rnat R r0 r1 radd N) Ninv = r1 ->
  (forall d : nat, (0 < d < N)%nat -> rsum R r0 radd N (fun k => rpow R r1 rmul w (k * d)) = r0) ->
  forall (a b : nat -> R) (t : nat), (t < N)%nat ->
  idft R r0 r1 radd rmul N w Ninv (fun k => rmul (dft R r0 r1 radd rmul N w a k) (dft R r0 r1 radd rmul N w b k)) t =
  rcconv R r0 radd rmul N a b t.
Proof. exact convolution_theorem. Qed.
Print Assumptions C12_dft_convolution_theorem.

(** Parseval / Plancherel: sum_k X[k] * Y~[k] = N * sum_j x[j] * y[j], where Y~ is the transform with w^-1 (over the complex numbers and
    real signals the complex conjugate of Y); x = y is Parseval's identity of the property text *)
Theorem C12_dft_parseval : forall (R : Type) (r0 r1 : R) (radd rmul rsub : R -> R -> R) (ropp : R -> R),
  ring_theory r0 r1 radd rmul rsub ropp eq ->
  forall N : nat, (0 < N)%nat -> forall w : R,
  rpow R r1 rmul w N = r1 ->
  (forall d : nat, (0 < d < N)%nat -> rsum R r0 radd N (fun k => rpow R r1 rmul w (k * d)) = r0) ->
  forall a b : nat -> R,
  rsum R r0 radd N (fun k => rmul (dft R r0 r1 radd rmul N w a k) (dftc R r0 r1 radd rmul N w b k)) =
  rmul (rnat R r0 r1 radd N) (rsum R r0 radd N (fun j => rmul (a j) (b j))).
Proof. exact plancherel. Qed.
Print Assumptions C12_dft_parseval.

(** the exact transform satisfies the five laws of the FFT interface *)
Theorem C12_dft_satisfies_fft_laws : forall (R : Type) (r0 r1 : R) (radd rmul rsub : R -> R -> R) (ropp : R -> R),
  ring_theory r0 r1 radd rmul rsub ropp eq ->
  forall (inj : Z -> R) (toZ : R -> Z),
  inj 0%Z = r0 -> (forall a b, inj (a + b)%Z = radd (inj a) (inj b)) -> (forall a b, inj (a * b)%Z = rmul (inj a) (inj b)) -> (forall z, toZ (inj z) = z) ->
  forall w ninv : nat -> R,
  (forall n, (0 < n)%nat -> rpow R r1 rmul (w n) n = r1) ->
  (forall n, (0 < n)%nat -> rmul (rnat R r0 r1 radd n) (ninv n) = r1) ->
  (forall n d, (0 < d < n)%nat -> rsum R r0 radd n (fun k => rpow R r1 rmul (w n) (k * d)) = r0) ->
  forall gs : Z -> Z, (forall n, (1 <= n)%Z -> (n <= gs n)%Z) ->
  fft_laws (dft_fft R r0 r1 radd rmul inj toZ w ninv gs).
Proof. exact dft_laws. Qed.
Print Assumptions C12_dft_satisfies_fft_laws.

(** so kernels.fftconvolve, run with the exact DFT in place of the FFT library, is the full linear convolution, and TimeSeries.correlate
    the full correlation, for all lengths *)
Theorem C12_fftconvolve_with_exact_dft : forall (R : Type) (r0 r1 : R) (radd rmul rsub : R -> R -> R) (ropp : R -> R),
  ring_theory r0 r1 radd rmul rsub ropp eq ->
  forall (inj : Z -> R) (toZ : R -> Z),
  inj 0%Z = r0 -> (forall a b, inj (a + b)%Z = radd (inj a) (inj b)) -> (forall a b, inj (a * b)%Z = rmul (inj a) (inj b)) -> (forall z, toZ (inj z) = z) ->
  forall w ninv : nat -> R,
  (forall n, (0 < n)%nat -> rpow R r1 rmul (w n) n = r1) ->
  (forall n, (0 < n)%nat -> rmul (rnat R r0 r1 radd n) (ninv n) = r1) ->
  (forall n d, (0 < d < n)%nat -> rsum R r0 radd n (fun k => rpow R r1 rmul (w n) (k * d)) = r0) ->
  forall (gs : Z -> Z) (a b : list Z), (forall n, (1 <= n)%Z -> (n <= gs n)%Z) -> (1 <= len a)%Z -> (1 <= len b)%Z ->
  fftconvolve_run (dft_fft R r0 r1 radd rmul inj toZ w ninv gs) a b = lconv_list a b /\
  correlate_run (dft_fft R r0 r1 radd rmul inj toZ w ninv gs) a b = xcorr_list a b.
Proof. intros R r0 r1 radd rmul rsub ropp Rth inj toZ I0 Ia Im It w ninv Hw Hn Ho gs a b Hgs Ha Hb. split.
  - exact (dft_fftconvolve R r0 r1 radd rmul rsub ropp Rth inj toZ I0 Ia Im It w ninv Hw Hn Ho gs a b Hgs Ha Hb).
  - exact (dft_correlate R r0 r1 radd rmul rsub ropp Rth inj toZ I0 Ia Im It w ninv Hw Hn Ho gs a b Hgs Ha Hb). Qed.
Print Assumptions C12_fftconvolve_with_exact_dft.

(** the compiled wrapper kernels.nb_rfft (regenerated, Gen/FftOps.v) called WITHOUT a length, run with the exact transform: bin k is the
    discrete Fourier sum of the series at its OWN length -- no cropping, no padding to a good size -- whatever that length is *)
Theorem C12_nb_rfft_own_length_is_fourier_sum : forall (R : Type) (r0 r1 : R) (radd rmul : R -> R -> R)
  (inj : Z -> R) (toZ : R -> Z) (w ninv : nat -> R) (gs : Z -> Z) (x : list Z) (k : nat), (k < length x)%nat ->
  nth k (nb_rfft_run (dft_fft R r0 r1 radd rmul inj toZ w ninv gs) x None) r0 =
  dft R r0 r1 radd rmul (length x) (w (length x)) (sig R inj x) k.
Proof. exact dft_nb_rfft_own_length. Qed.
Print Assumptions C12_nb_rfft_own_length_is_fourier_sum.

(** ... and satisfies Parseval's identity at that length (dftc: the conjugate transform; for real series over the complex numbers the
    complex conjugate of the spectrum, so the left side is sum_k |X_k|^2) *)
Theorem C12_nb_rfft_own_length_parseval : forall (R : Type) (r0 r1 : R) (radd rmul rsub : R -> R -> R) (ropp : R -> R),
  ring_theory r0 r1 radd rmul rsub ropp eq ->
  forall (inj : Z -> R) (toZ : R -> Z) (w ninv : nat -> R),
  (forall n, (0 < n)%nat -> rpow R r1 rmul (w n) n = r1) ->
  (forall n d, (0 < d < n)%nat -> rsum R r0 radd n (fun k => rpow R r1 rmul (w n) (k * d)) = r0) ->
  forall (gs : Z -> Z) (x : list Z), (0 < length x)%nat ->
  rsum R r0 radd (length x) (fun k => rmul (nth k (nb_rfft_run (dft_fft R r0 r1 radd rmul inj toZ w ninv gs) x None) r0)
                                             (dftc R r0 r1 radd rmul (length x) (w (length x)) (sig R inj x) k)) =
  rmul (rnat R r0 r1 radd (length x)) (rsum R r0 radd (length x) (fun j => rmul (sig R inj x j) (sig R inj x j))).
Proof. intros R r0 r1 radd rmul rsub ropp Rth inj toZ w ninv Hw Ho gs x Hx.
  exact (dft_nb_rfft_own_length_parseval R r0 r1 radd rmul rsub ropp Rth inj toZ w ninv Hw Ho gs x Hx). Qed.
Print Assumptions C12_nb_rfft_own_length_parseval.

(** non-vacuity of the hypotheses on the root of unity: the rationals with w = -1, N = 2 (for every N at once: the complex numbers) *)
Example C12_dft_hypotheses_satisfiable :
  ring_theory (Q2Qc 0) (Q2Qc 1) Qcplus Qcmult Qcminus Qcopp eq /\
  rpow Qc (Q2Qc 1) Qcmult (Q2Qc (-1)) 2 = Q2Qc 1 /\
  Qcmult (rnat Qc (Q2Qc 0) (Q2Qc 1) Qcplus 2) (Q2Qc (1 # 2)) = Q2Qc 1 /\
  (forall d, (0 < d < 2)%nat -> rsum Qc (Q2Qc 0) Qcplus 2 (fun k => rpow Qc (Q2Qc 1) Qcmult (Q2Qc (-1)) (k * d)) = Q2Qc 0).
Proof. split; [exact Qcrt|]. split; [|split].
  - apply Qc_is_canon. vm_compute. reflexivity.
  - apply Qc_is_canon. vm_compute. reflexivity.
  - intros d Hd. assert (d = 1%nat) by lia. subst d. apply Qc_is_canon. vm_compute. reflexivity. Qed.
