(** C08 -- output metadata describes the output data.
    Only property theorems here, each closed by [exact] of a lemma from Proofs/C08_*.v.  Their subjects are the header
    updates REGENERATED from the current source into Gen/C08.v by tools/py2coq/gen_c08.py (one [hdr_<api>] per API that
    returns a container or writes a file, the attrs field list, mjd_after_nsamps, read_block with its guards), composed with
    Header.new_header / prep_outfile (Model/C08_rt.v: known keys override, unknown keys are dropped).
    Numbers are exact rationals: fch1, foff of either sign and of any value (-1/10, -1/3 are ordinary values), every
    (start, nsamps), channel selection, decimation factor, sub-band count and DM.  What binary64 evaluation adds is carried by
    [C08_freq_to_index_robust] (any error below half a channel is absorbed) and by the correspondence run.
    The last section records what the pinned tree did ([..._refuted] / [..._partial], over Model/C08_pinned.v). *)
From Coq Require Import ZArith QArith Qround Qabs Qminmax String List Bool PrimFloat Uint63.
Require SPP.Props.C08_ext.     (* DM carried, unchanged headers, delays of either sign, valid samples, file sets: Props/C08_ext.v *)
Require SPP.Props.C08_pulse.   (* PulseExtractor: stated and proved in Props/C08_pulse.v; required here so that it is part of this check's cone *)
Require Import SPP.Model.C08_rt SPP.Model.C08_spec SPP.Model.C08_pinned SPP.Gen.C08
  SPP.Proofs.C08_lib SPP.Proofs.C08_hdr SPP.Proofs.C08_pinned.
Import ListNotations.
Open Scope Z_scope.

(** ===== new_header ===================================================================================== *)

Theorem C08_new_header_drops_unknown : forall fields h k v, known fields k = false -> new_header fields h [(k, v)] = h.
Proof. exact new_header_drops_unknown. Qed.
Print Assumptions C08_new_header_drops_unknown.

(** "refdm" (the SIGPROC keyword) is not a field of Header: an update under that key changes nothing *)
Theorem C08_refdm_is_dropped : forall h v, new_header header_fields h [("refdm"%string, v)] = h.
Proof. exact refdm_is_dropped. Qed.
Print Assumptions C08_refdm_is_dropped.

Theorem C08_modelled_keys_are_fields :
  forallb (known header_fields) ["nchans"; "nbits"; "nsamples"; "fch1"; "foff"; "tsamp"; "tstart"; "dm"; "data_type"]%string = true.
Proof. exact modelled_keys_are_fields. Qed.
Print Assumptions C08_modelled_keys_are_fields.

(** ===== requesting a block by its first-channel frequency ================================================ *)

(** the conversion of the quotient (f - fch1)/foff to a channel index absorbs any error below half a channel *)
Theorem C08_freq_to_index_robust : forall (k : Z) (x : Q), (Qabs (x - inject_Z k) < 1 # 2)%Q -> read_block_to_index x = k.
Proof. exact freq_to_index_robust. Qed.
Print Assumptions C08_freq_to_index_robust.
Example C08_freq_to_index_robust_nonvacuous : (Qabs ((3 - (1 # 1099511627776)) - inject_Z 3) < 1 # 2)%Q.
Proof. vm_compute. reflexivity. Qed.

(** binary64 twin of the quotient, on the non-representable channel widths named by the property *)
Example C08_freq_to_index_tenth_binary64 :
  map (fun k => read_block_chan_start_f (1500 + PrimFloat.of_uint63 k * (-0x1.999999999999ap-4))%float 1500%float (-0x1.999999999999ap-4)%float)
      [0; 1; 2; 3; 4; 5; 6; 7; 100; 1000]%uint63 = [0; 1; 2; 3; 4; 5; 6; 7; 100; 1000].
Proof. vm_compute. reflexivity. Qed.
Example C08_freq_to_index_third_binary64 :
  map (fun k => read_block_chan_start_f (1400 + PrimFloat.of_uint63 k * (-0x1.5555555555555p-2))%float 1400%float (-0x1.5555555555555p-2)%float)
      [0; 1; 2; 3; 4; 5; 6; 7; 100; 1000]%uint63 = [0; 1; 2; 3; 4; 5; 6; 7; 100; 1000].
Proof. vm_compute. reflexivity. Qed.
Example C08_freq_to_index_positive_binary64 :
  map (fun k => read_block_chan_start_f (1200 + PrimFloat.of_uint63 k * (0x1.999999999999ap-4))%float 1200%float (0x1.999999999999ap-4)%float)
      [0; 1; 2; 3; 4; 5; 6; 7; 100; 1000]%uint63 = [0; 1; 2; 3; 4; 5; 6; 7; 100; 1000].
Proof. vm_compute. reflexivity. Qed.

(** the same for the whole of read_block, whatever value x the quotient evaluates to (exactly or in binary64) *)
Theorem C08_read_block_by_frequency_any_rounding : forall h start nsamps f k n nsr x,
  (Qabs (x - inject_Z k) < 1 # 2)%Q -> 0 <= k -> 0 <= n -> k + n <= h_nchans h -> 0 <= start -> start + nsamps <= h_nsamples h ->
  exists h', read_block_model_x h start nsamps f n nsr x = Some (k, n, h') /\ copies_channels h h' k.
Proof. exact read_block_by_frequency_x. Qed.
Print Assumptions C08_read_block_by_frequency_any_rounding.

(** requesting fch1 + k*foff (foff of either sign) is accepted whenever channels k .. k+n-1 exist and returns them:
    n rows starting at channel k, labelled with the labels of those channels *)
Theorem C08_read_block_by_frequency : forall h start nsamps k n nsr,
  ~ (h_foff h == 0)%Q -> 0 <= k -> 0 <= n -> k + n <= h_nchans h -> 0 <= start -> start + nsamps <= h_nsamples h ->
  exists h', read_block_model h start nsamps (label h k) n nsr = Some (k, n, h') /\ copies_channels h h' k.
Proof. exact read_block_by_frequency. Qed.
Print Assumptions C08_read_block_by_frequency.
Example C08_read_block_by_frequency_nonvacuous :
  exists h', read_block_model hB 3 5 (label hB 3) 2 5 = Some (3, 2, h') /\ h_nchans h' = 2 /\ (h_fch1 h' == 12003 # 10)%Q.
Proof. eexists. split; [vm_compute; reflexivity | split; vm_compute; reflexivity]. Qed.

(** whatever is requested: if read_block returns, the container's header describes the rows it holds *)
Theorem C08_read_block_consistent_any_rounding : forall h start nsamps f n nsr x cs rows h',
  0 <= n -> read_block_model_x h start nsamps f n nsr x = Some (cs, rows, h') ->
  cs = read_block_to_index x /\ 0 <= cs /\ cs + n <= h_nchans h /\ rows = n /\ h_nchans h' = n /\ h_nsamples h' = nsr /\
  advanced h h' start /\ copies_channels h h' cs /\ (h_foff h' == h_foff h)%Q /\ (h_tsamp h' == h_tsamp h)%Q /\ (h_dm h' == h_dm h)%Q /\ h_nbits h' = h_nbits h.
Proof. exact read_block_consistent_x. Qed.
Print Assumptions C08_read_block_consistent_any_rounding.

Theorem C08_read_block_consistent : forall h start nsamps f n nsr cs rows h',
  0 <= n -> read_block_model h start nsamps f n nsr = Some (cs, rows, h') ->
  0 <= cs /\ cs + n <= h_nchans h /\ rows = n /\ h_nchans h' = n /\ h_nsamples h' = nsr /\
  advanced h h' start /\ copies_channels h h' cs /\ (h_foff h' == h_foff h)%Q /\ (h_tsamp h' == h_tsamp h)%Q /\ (h_dm h' == h_dm h)%Q /\ h_nbits h' = h_nbits h.
Proof. exact read_block_consistent. Qed.
Print Assumptions C08_read_block_consistent.

Theorem C08_read_dedisp_block : forall h start nsamps dm, let h' := hdr_read_dedisp_block h start nsamps dm in
  h_nsamples h' = datalen_read_dedisp_block h start nsamps dm /\ datalen_read_dedisp_block h start nsamps dm = nsamps /\
  h_nchans h' = datarows_read_dedisp_block h start nsamps dm /\ advanced h h' start /\ copies_channels h h' 0 /\
  (h_tsamp h' == h_tsamp h)%Q /\ (cdm_read_dedisp_block h start nsamps dm == dm)%Q.
Proof. exact read_dedisp_block_hdr. Qed.
Print Assumptions C08_read_dedisp_block.

(** ===== streaming reductions (TimeSeries) ================================================================= *)

Theorem C08_collapse : forall h start nsamps b, let h' := hdr_collapse h start nsamps b in
  h_nsamples h' = datalen_collapse h start nsamps b /\ datalen_collapse h start nsamps false = nsamps /\
  datalen_collapse h start nsamps true = h_nsamples h - start /\
  h_nchans h' = 1 /\ advanced h h' start /\ (h_tsamp h' == h_tsamp h)%Q /\ (h_dm h' == 0)%Q /\ within_band h h'.
Proof. exact collapse_hdr. Qed.
Print Assumptions C08_collapse.

Theorem C08_dedisperse : forall h dm start nsamps b md, let h' := hdr_dedisperse h dm start nsamps b md in
  h_nsamples h' = datalen_dedisperse h dm start nsamps b md /\ datalen_dedisperse h dm start nsamps false md = nsamps - md /\
  datalen_dedisperse h dm start nsamps true md = h_nsamples h - start - md /\
  h_nchans h' = 1 /\ advanced h h' start /\ (h_tsamp h' == h_tsamp h)%Q /\ (h_dm h' == dm)%Q /\ within_band h h'.
Proof. exact dedisperse_hdr. Qed.
Print Assumptions C08_dedisperse.

Theorem C08_read_chan : forall h ichan start nsamps b, let h' := hdr_read_chan h ichan start nsamps b in
  h_nsamples h' = datalen_read_chan h ichan start nsamps b /\ datalen_read_chan h ichan start nsamps false = nsamps /\
  datalen_read_chan h ichan start nsamps true = h_nsamples h - start /\
  h_nchans h' = 1 /\ advanced h h' start /\ (h_tsamp h' == h_tsamp h)%Q /\ (h_dm h' == 0)%Q /\ (label h' 0 == label h ichan)%Q.
Proof. exact read_chan_hdr. Qed.
Print Assumptions C08_read_chan.

Theorem C08_bandpass : forall h start nsamps b, let h' := hdr_bandpass h start nsamps b in
  h_nsamples h' = datalen_bandpass h start nsamps b /\ datalen_bandpass h start nsamps b = h_nchans h /\ h_nchans h' = 1.
Proof. exact bandpass_hdr. Qed.
Print Assumptions C08_bandpass.

(** ===== files written by the streaming transforms ========================================================== *)

Theorem C08_invert_freq : forall h start, let h' := hdr_invert_freq h start in
  reverses_channels h h' /\ (h_foff h' == - h_foff h)%Q /\ h_nchans h' = h_nchans h /\ advanced h h' start /\
  (h_tsamp h' == h_tsamp h)%Q /\ h_nbits h' = h_nbits h /\ depth_invert_freq h start = h_nbits h'.
Proof. exact invert_freq_hdr. Qed.
Print Assumptions C08_invert_freq.

Theorem C08_apply_channel_mask : forall h start, let h' := hdr_apply_channel_mask h start in
  copies_channels h h' 0 /\ h_nchans h' = h_nchans h /\ advanced h h' start /\ (h_tsamp h' == h_tsamp h)%Q /\
  h_nbits h' = h_nbits h /\ depth_apply_channel_mask h start = h_nbits h'.
Proof. exact apply_channel_mask_hdr. Qed.
Print Assumptions C08_apply_channel_mask.

Theorem C08_downsample : forall h tf ff start, let h' := hdr_downsample h tf ff start in
  decimated h h' tf /\ h_nchans h' = h_nchans h / ff /\ sums_channels h h' ff /\ advanced h h' start /\
  h_nbits h' = h_nbits h /\ depth_downsample h tf ff start = h_nbits h'.
Proof. exact downsample_hdr. Qed.
Print Assumptions C08_downsample.

Theorem C08_extract_samps : forall h start nsamps, let h' := hdr_extract_samps h start nsamps in
  copies_channels h h' 0 /\ h_nchans h' = h_nchans h /\ advanced h h' start /\ (h_tsamp h' == h_tsamp h)%Q /\
  h_nbits h' = h_nbits h /\ depth_extract_samps h start nsamps = h_nbits h'.
Proof. exact extract_samps_hdr. Qed.
Print Assumptions C08_extract_samps.

Theorem C08_extract_chans : forall h chan start, let h' := hdr_extract_chans h chan start in
  h_nchans h' = 1 /\ (label h' 0 == label h chan)%Q /\ advanced h h' start /\ (h_tsamp h' == h_tsamp h)%Q /\
  h_nbits h' = 32 /\ depth_extract_chans h chan start = 32 /\ h_dtype h' = 2.
Proof. exact extract_chans_hdr. Qed.
Print Assumptions C08_extract_chans.

Theorem C08_extract_bands : forall h chanstart cps batch_start i start, let h' := hdr_extract_bands h chanstart cps batch_start i start in
  h_nchans h' = cps /\ copies_channels h h' (chanstart + (batch_start + i) * cps) /\ (h_foff h' == h_foff h)%Q /\ advanced h h' start /\
  (h_tsamp h' == h_tsamp h)%Q /\ h_nbits h' = h_nbits h /\ depth_extract_bands h chanstart cps batch_start i start = h_nbits h'.
Proof. exact extract_bands_hdr. Qed.
Print Assumptions C08_extract_bands.

Theorem C08_requantize : forall h nbits_out start, let h' := hdr_requantize h nbits_out start in
  h_nbits h' = nbits_out /\ depth_requantize h nbits_out start = nbits_out /\ copies_channels h h' 0 /\ h_nchans h' = h_nchans h /\
  advanced h h' start /\ (h_tsamp h' == h_tsamp h)%Q.
Proof. exact requantize_hdr. Qed.
Print Assumptions C08_requantize.

Theorem C08_remove_zerodm : forall h start, let h' := hdr_remove_zerodm h start in
  copies_channels h h' 0 /\ h_nchans h' = h_nchans h /\ advanced h h' start /\ (h_tsamp h' == h_tsamp h)%Q /\
  h_nbits h' = h_nbits h /\ depth_remove_zerodm h start = h_nbits h'.
Proof. exact remove_zerodm_hdr. Qed.
Print Assumptions C08_remove_zerodm.

(** nsub sub-bands of sf = nchans/nsub channels: spacing sf*foff, band j labelled inside the span of its sf inputs,
    the DM applied recorded as dm, 32-bit samples *)
Theorem C08_subband : forall h dm nsub sf start, 1 <= nsub -> 1 <= sf -> h_nchans h = nsub * sf ->
  let h' := hdr_subband h dm nsub start in
  h_nchans h' = nsub /\ sums_channels h h' sf /\ (h_dm h' == dm)%Q /\ advanced h h' start /\ (h_tsamp h' == h_tsamp h)%Q /\
  h_nbits h' = 32 /\ depth_subband h dm nsub start = 32.
Proof. exact subband_hdr. Qed.
Print Assumptions C08_subband.
Example C08_subband_nonvacuous : 1 <= 2 /\ 1 <= 4 /\ h_nchans hA = 2 * 4 /\
  (label (hdr_subband hA 10 2 7) 0 == 14998500 # 10000)%Q /\ (h_foff (hdr_subband hA 10 2 7) == - (4 # 10))%Q /\ (h_dm (hdr_subband hA 10 2 7) == 10)%Q.
Proof. repeat split; vm_compute; try reflexivity; discriminate. Qed.

(** ===== blocks and time series ============================================================================== *)

(** padding: the sample count is the padded length and tstart moves BACK by the leading pad (the first column of the padded block
    lies [off] samples before the first sample of the data) *)
Theorem C08_block_pad_samples : forall h n off, let h' := hdr_block_pad_samples h n off in
  h_nsamples h' = n /\ h_nchans h' = h_nchans h /\ advanced h h' (- off) /\ (h_tsamp h' == h_tsamp h)%Q.
Proof. exact block_pad_samples_hdr. Qed.
Print Assumptions C08_block_pad_samples.

(** the blocks BaseBlock.normalise / pad_samples return carry the DM of the block they were made from *)
Theorem C08_block_new_like_keeps_dm : forall d, (cdm_block_new_like d == d)%Q.
Proof. exact block_new_like_dm. Qed.
Print Assumptions C08_block_new_like_keeps_dm.

Theorem C08_block_downsample : forall h ff tf d, let h' := hdr_block_downsample h ff tf d in
  decimated h h' tf /\ h_nsamples h' = h_nsamples h / tf /\ h_nchans h' = h_nchans h / ff /\ sums_channels h h' ff /\
  (h_tstart h' == h_tstart h)%Q /\ (cdm_block_downsample h ff tf d == d)%Q.
Proof. exact block_downsample_hdr. Qed.
Print Assumptions C08_block_downsample.

Theorem C08_block_get_tim : forall h blk_dm, let h' := hdr_block_get_tim h blk_dm in
  (h_dm h' == blk_dm)%Q /\ h_nchans h' = 1 /\ h_nbits h' = 32 /\ h_dtype h' = 2 /\ h_nsamples h' = h_nsamples h /\
  (h_tstart h' == h_tstart h)%Q /\ (h_tsamp h' == h_tsamp h)%Q /\ within_band h h'.
Proof. exact block_get_tim_hdr. Qed.
Print Assumptions C08_block_get_tim.

Theorem C08_block_dedisperse : forall h dm n, let h' := hdr_block_dedisperse h dm n in
  h_nsamples h' = n /\ h_nchans h' = h_nchans h /\ (cdm_block_dedisperse h dm n == dm)%Q /\ copies_channels h h' 0 /\ (h_tsamp h' == h_tsamp h)%Q.
Proof. exact block_dedisperse_hdr. Qed.
Print Assumptions C08_block_dedisperse.

Theorem C08_block_to_file : forall h blk_dm, let h' := hdr_block_to_file h blk_dm in
  h_nbits h' = 32 /\ depth_block_to_file h blk_dm = 32 /\ (h_dm h' == blk_dm)%Q /\ h_nchans h' = h_nchans h /\ copies_channels h h' 0 /\
  (h_tstart h' == h_tstart h)%Q /\ (h_tsamp h' == h_tsamp h)%Q.
Proof. exact block_to_file_hdr. Qed.
Print Assumptions C08_block_to_file.

Theorem C08_ts_downsample : forall h factor n, let h' := hdr_ts_downsample h factor n in
  decimated h h' factor /\ h_nsamples h' = n /\ (h_tstart h' == h_tstart h)%Q /\ (h_dm h' == h_dm h)%Q.
Proof. exact ts_downsample_hdr. Qed.
Print Assumptions C08_ts_downsample.

Theorem C08_ts_lengths : forall h n, h_nsamples (hdr_ts_pad h n) = n /\ h_nsamples (hdr_ts_resample h n) = n /\ h_nsamples (hdr_ts_correlate h n) = n.
Proof. exact ts_lengths_hdr. Qed.
Print Assumptions C08_ts_lengths.

Theorem C08_ts_to_tim : forall h, let h' := hdr_ts_to_tim h in
  h_nbits h' = 32 /\ depth_ts_to_tim h = 32 /\ h_nsamples h' = h_nsamples h /\ (h_tsamp h' == h_tsamp h)%Q /\ (h_tstart h' == h_tstart h)%Q /\ (h_dm h' == h_dm h)%Q.
Proof. exact ts_to_tim_hdr. Qed.
Print Assumptions C08_ts_to_tim.

(** ===== record of the pinned tree (Model/C08_pinned.v) ====================================================== *)

Theorem C08_pinned_freq_to_index_refuted :
  pinned_chan_start_f (1500 + 3 * (-0x1.999999999999ap-4))%float 1500%float (-0x1.999999999999ap-4)%float = 2.
Proof. exact pinned_freq_to_index_refuted. Qed.
Print Assumptions C08_pinned_freq_to_index_refuted.

Theorem C08_pinned_freq_to_index_third_refuted :
  pinned_chan_start_f (1400 + 1 * (-0x1.5555555555555p-2))%float 1400%float (-0x1.5555555555555p-2)%float = 0.
Proof. exact pinned_freq_to_index_third_refuted. Qed.
Print Assumptions C08_pinned_freq_to_index_third_refuted.

Theorem C08_pinned_to_index_not_robust_refuted : exists x : Q, (Qabs (x - inject_Z 3) < 1 # 1000000000000)%Q /\ pinned_to_index x <> 3.
Proof. exact pinned_to_index_not_robust_refuted. Qed.
Print Assumptions C08_pinned_to_index_not_robust_refuted.

Theorem C08_pinned_to_index_partial : forall (k : Z) (x : Q), 0 <= k -> (inject_Z k <= x)%Q -> (x < inject_Z (k + 1))%Q -> pinned_to_index x = k.
Proof. exact pinned_to_index_partial. Qed.
Print Assumptions C08_pinned_to_index_partial.

Theorem C08_pinned_read_block_positive_foff_refuted : forall h start nsamps k n nsr,
  (0 < h_foff h)%Q -> 1 <= k -> pinned_read_block_model h start nsamps (label h k) n nsr = None.
Proof. exact pinned_read_block_positive_foff_general_refuted. Qed.
Print Assumptions C08_pinned_read_block_positive_foff_refuted.

Theorem C08_pinned_read_block_overrun_refuted :
  exists cs rows h', pinned_read_block_model hA 0 10 (label hA 6) 4 10 = Some (cs, rows, h') /\ rows = 2 /\ h_nchans h' = 4.
Proof. exact pinned_read_block_overrun_refuted. Qed.
Print Assumptions C08_pinned_read_block_overrun_refuted.

Theorem C08_pinned_read_block_partial : forall h start nsamps k n nsr,
  (h_foff h < 0)%Q -> 0 <= k -> 0 <= n -> k + n <= h_nchans h -> 0 <= start -> start + nsamps <= h_nsamples h ->
  exists h', pinned_read_block_model h start nsamps (label h k) n nsr = Some (k, n, h') /\ copies_channels h h' k /\ advanced h h' start.
Proof. exact pinned_read_block_partial. Qed.
Print Assumptions C08_pinned_read_block_partial.

Theorem C08_pinned_subband_fch1_refuted :
  let h' := pinned_hdr_subband hA 10 2 0 in
  ~ Qbetween (label hA 0) (label hA 3) (label h' 0) /\ ~ Qbetween (label hA 0) (label hA 7) (label h' 0).
Proof. exact pinned_subband_fch1_refuted. Qed.
Print Assumptions C08_pinned_subband_fch1_refuted.

Theorem C08_pinned_subband_fch1_fixture_refuted : ~ Qbetween (label hC 0) (label hC 63) (label (pinned_hdr_subband hC 10 8 0) 0).
Proof. exact pinned_subband_fch1_fixture_refuted. Qed.
Print Assumptions C08_pinned_subband_fch1_fixture_refuted.

Theorem C08_pinned_subband_foff_refuted : (h_foff (pinned_hdr_subband hA 10 2 0) == -1)%Q /\ ~ (h_foff (pinned_hdr_subband hA 10 2 0) == h_foff hA * 4)%Q.
Proof. exact pinned_subband_foff_refuted. Qed.
Print Assumptions C08_pinned_subband_foff_refuted.

Theorem C08_pinned_subband_foff_partial : forall h dm nsub start (m : Z),
  (h_foff h * inject_Z (h_nchans h) / inject_Z nsub == inject_Z m)%Q -> (h_foff (pinned_hdr_subband h dm nsub start) == inject_Z m)%Q.
Proof. exact pinned_subband_foff_partial. Qed.
Print Assumptions C08_pinned_subband_foff_partial.
Example C08_pinned_subband_foff_partial_nonvacuous : (h_foff hC * inject_Z (h_nchans hC) / inject_Z 8 == inject_Z (-32))%Q.
Proof. vm_compute. reflexivity. Qed.

Theorem C08_pinned_subband_dm_refuted : forall h dm nsub start, (h_dm (pinned_hdr_subband h dm nsub start) == h_dm h)%Q.
Proof. exact pinned_subband_dm_refuted. Qed.
Print Assumptions C08_pinned_subband_dm_refuted.

Theorem C08_pinned_collapse_tstart_refuted : ~ advanced hA (pinned_hdr_collapse hA 10 20 false) 10.
Proof. exact pinned_collapse_not_advanced_refuted. Qed.
Print Assumptions C08_pinned_collapse_tstart_refuted.

Theorem C08_pinned_downsample_tstart_refuted : ~ advanced hA (pinned_hdr_downsample hA 2 2 10) 10.
Proof. exact pinned_downsample_not_advanced_refuted. Qed.
Print Assumptions C08_pinned_downsample_tstart_refuted.

Theorem C08_pinned_collapse_tstart_partial : forall h nsamps b, advanced h (pinned_hdr_collapse h 0 nsamps b) 0.
Proof. exact pinned_collapse_tstart_partial. Qed.
Print Assumptions C08_pinned_collapse_tstart_partial.

Theorem C08_pinned_read_chan_label_refuted : ~ (label (pinned_hdr_read_chan hA 3 0 10 false) 0 == label hA 3)%Q.
Proof. exact pinned_read_chan_label_refuted. Qed.
Print Assumptions C08_pinned_read_chan_label_refuted.

Theorem C08_pinned_extract_chans_label_refuted : ~ (label (pinned_hdr_extract_chans hA 3 0) 0 == label hA 3)%Q.
Proof. exact pinned_extract_chans_label_refuted. Qed.
Print Assumptions C08_pinned_extract_chans_label_refuted.

Theorem C08_pinned_read_chan_label_partial : forall h start nsamps b, (label (pinned_hdr_read_chan h 0 start nsamps b) 0 == label h 0)%Q.
Proof. exact pinned_read_chan_label_partial. Qed.
Print Assumptions C08_pinned_read_chan_label_partial.

Theorem C08_pinned_block_to_file_dm_refuted : ~ (h_dm (pinned_hdr_block_to_file hA 25) == 25)%Q.
Proof. exact pinned_block_to_file_dm_refuted. Qed.
Print Assumptions C08_pinned_block_to_file_dm_refuted.

Theorem C08_pinned_block_to_file_dm_partial : forall h, (h_dm (pinned_hdr_block_to_file h (h_dm h)) == h_dm h)%Q.
Proof. exact pinned_block_to_file_dm_partial. Qed.
Print Assumptions C08_pinned_block_to_file_dm_partial.
