(** C03 -- bit packing and unpacking are exact inverses at every depth and bit order.
    Only property theorems here; each is closed by [exact] of a lemma from Proofs/C03_bits.v, whose
    subject is the kernel text regenerated from sigpyproc/core/kernels.py (Gen/Kernels.v); the public wrappers io/bits.py::unpack / ::pack
    (validation, bit-order decision, output-buffer rule, kernel selected through the f-string name) are regenerated into Gen/BitsApi.v and
    characterised by the C03_api_* theorems (Proofs/C03_api.v). *)
From Coq Require Import ZArith List Bool.
Require Import SPP.Base.Rt SPP.Gen.Kernels SPP.Gen.BitsApi SPP.Model.Bits SPP.Proofs.C03_bits SPP.Proofs.C03_api.
Import ListNotations.
Open Scope Z_scope.

(** unpacking [n] bytes yields 8/nbits values per byte; value [k] of byte [i] is the bit field
    (b / 2^shift) mod 2^nbits with shift = 8-nbits(k+1) for 'big' and nbits*k for 'little';
    positions outside [0, n*8/nbits) of the caller's buffer are untouched, positions inside do not
    depend on the buffer's previous content *)
Theorem C03_unpack_fields : forall nb big n a u, In nb [1; 2; 4] -> 0 <= n ->
  (forall i, 0 <= i < n -> 0 <= a i < 256) ->
  forall j, unpack_run nb big n a u j =
    if (0 <=? j) && (j <? bf nb * n) then field nb big (a (j / bf nb)) (j mod bf nb) else u j.
Proof. exact unpack_run_spec. Qed.
Print Assumptions C03_unpack_fields.

Theorem C03_field_range : forall nb big b k, 0 < nb -> 0 <= field nb big b k < 2 ^ nb.
Proof. exact field_range. Qed.
Print Assumptions C03_field_range.

Theorem C03_field_bits : forall nb big b k i, 0 <= nb -> 0 <= shift_of nb big k -> 0 <= i ->
  Z.testbit (field nb big b k) i = if i <? nb then Z.testbit b (shift_of nb big k + i) else false.
Proof. exact field_testbit. Qed.
Print Assumptions C03_field_bits.

Theorem C03_pack_bytes : forall nb big n v p, In nb [1; 2; 4] -> 0 <= n ->
  (forall i, 0 <= i < bf nb * n -> 0 <= v i < 2 ^ nb) ->
  forall j, pack_run nb big n v p j =
    if (0 <=? j) && (j <? n) then byte_of nb big (fun k => v (j * bf nb + k)) else p j.
Proof. exact pack_run_spec. Qed.
Print Assumptions C03_pack_bytes.

Theorem C03_pack_unpack : forall nb big n a u p, In nb [1; 2; 4] -> 0 <= n ->
  (forall i, 0 <= i < n -> 0 <= a i < 256) ->
  forall i, 0 <= i < n -> pack_run nb big n (unpack_run nb big n a u) p i = a i.
Proof. exact pack_unpack. Qed.
Print Assumptions C03_pack_unpack.

Theorem C03_unpack_pack : forall nb big n v p u, In nb [1; 2; 4] -> 0 <= n ->
  (forall i, 0 <= i < bf nb * n -> 0 <= v i < 2 ^ nb) ->
  forall j, 0 <= j < bf nb * n -> unpack_run nb big n (pack_run nb big n v p) u j = v j.
Proof. exact unpack_pack. Qed.
Print Assumptions C03_unpack_pack.

(** the public wrappers.  [first] is the first character of the bit-order string (None for the empty string; 98 = 'b', 108 = 'l'),
    [is_u8] whether the input array has dtype uint8, [buf] the caller's output buffer with its size; None = ValueError.
    A call is refused exactly when it is malformed ... *)
Theorem C03_api_unpack_refuses : forall is_u8 nb first a n buf,
  unpack_api is_u8 nb first a n buf = None <-> ~ unpack_accepts is_u8 nb first n buf.
Proof. exact unpack_api_refuses. Qed.
Print Assumptions C03_api_unpack_refuses.

(** ... and an accepted call returns the bit fields, most significant first iff the order starts with 'b', the same with or without a
    supplied buffer (of which nothing outside the result positions is touched) *)
Theorem C03_api_unpack_accepts : forall is_u8 nb first a n buf, 0 <= n -> (forall i, 0 <= i < n -> 0 <= a i < 256) ->
  unpack_accepts is_u8 nb first n buf ->
  exists r, unpack_api is_u8 nb first a n buf = Some (r, n * bf nb) /\
    forall j, r j = if (0 <=? j) && (j <? bf nb * n) then field nb (unpack_order_true first) (a (j / bf nb)) (j mod bf nb)
                    else match buf with Some (u, _) => u j | None => 0 end.
Proof. exact unpack_api_accepts. Qed.
Print Assumptions C03_api_unpack_accepts.

Theorem C03_api_pack_refuses : forall is_u8 nb first v n buf,
  pack_api is_u8 nb first v n buf = None <-> ~ pack_accepts is_u8 nb first n buf.
Proof. exact pack_api_refuses. Qed.
Print Assumptions C03_api_pack_refuses.

Theorem C03_api_pack_accepts : forall is_u8 nb first v n buf, 0 <= n -> (forall i, 0 <= i < bf nb * (n / bf nb) -> 0 <= v i < 2 ^ nb) ->
  pack_accepts is_u8 nb first n buf ->
  exists r, pack_api is_u8 nb first v n buf = Some (r, n / bf nb) /\
    forall j, r j = if (0 <=? j) && (j <? n / bf nb) then byte_of nb (pack_order_true first) (fun k => v (j * bf nb + k))
                    else match buf with Some (u, _) => u j | None => 0 end.
Proof. exact pack_api_accepts. Qed.
Print Assumptions C03_api_pack_accepts.

(** non-vacuity of the wrapper theorems: 'little', 2 bytes at 2 bits into a caller buffer of 8; a 7-element buffer is refused *)
Example C03_api_example :
  (match unpack_api true 2 (Some 108) (of_list [27; 228]) 2 (Some (fun _ => 9, 8)) with Some (r, sz) => (to_list 9 r, sz) | None => ([], -1) end)
    = ([3; 2; 1; 0; 0; 1; 2; 3; 9], 8) /\
  unpack_api true 2 (Some 108) (of_list [27; 228]) 2 (Some (fun _ => 9, 7)) = None /\
  unpack_api true 2 (Some 66) (of_list [27; 228]) 2 None = None /\
  unpack_api true 3 (Some 98) (of_list [27; 228]) 2 None = None.
Proof. vm_compute. repeat split; reflexivity. Qed.

(** non-vacuity: a concrete byte array meets the hypotheses and the fields are the expected ones *)
Example C03_example :
  to_list 8 (unpack_run 2 true 2 (of_list [27; 228]) zeros) = [0; 1; 2; 3; 3; 2; 1; 0] /\
  to_list 8 (unpack_run 2 false 2 (of_list [27; 228]) zeros) = [3; 2; 1; 0; 0; 1; 2; 3] /\
  to_list 2 (pack_run 4 true 2 (of_list [1; 2; 15; 0]) zeros) = [18; 240].
Proof. vm_compute. repeat split; reflexivity. Qed.
