(** C02 -- a multi-file stream reads as the concatenation of its data sections.
    Subject: Model/Stream.v (hand model of FileReader; its seek arithmetic is Gen/Plan.v, regenerated from
    io/fileio.py), tied to the implementation by the correspondence run of tools/harness/props/c02.py. *)
From Coq Require Import ZArith List Bool.
Require Import SPP.Base.Rt SPP.Gen.Plan SPP.Model.Stream SPP.Proofs.C02_stream SPP.Proofs.C02_items.
Import ListNotations.
Open Scope Z_scope.

(** every history of absolute/relative seeks, counted reads and buffer reads, on any stream of >= 1 files with
    arbitrary header and data lengths (empty data sections included), returns exactly what the flat byte array
    returns and reports the flat model's position after every operation (byte-wide items) *)
Theorem C02_stream_refines : forall fs ops, 1 <= nfiles fs -> Forall op_ok ops ->
  run fs 1 (init fs) ops = spec_run (flat fs) 1 0 ops.
Proof. exact stream_refines. Qed.
Print Assumptions C02_stream_refines.

(** headers never leak: every byte string returned is a slice of the joined data sections *)
Theorem C02_no_header_leak : forall fs ops, 1 <= nfiles fs -> Forall op_ok ops ->
  Forall (fun r => match fst r with OBytes l => exists a n, l = slice (flat fs) a n | _ => True end) (run fs 1 (init fs) ops).
Proof. exact outputs_are_data_slices. Qed.
Print Assumptions C02_no_header_leak.

(** a buffer read returns only the bytes that exist; a counted read past the end raises (from the spec side
    of the refinement: Creadinto n yields min n (len - p) bytes, Cread n beyond the end yields ValueError) *)
Theorem C02_step : forall fs s o, Inv fs s -> op_ok o ->
  let '(s', r) := step fs 1 s o in
  let '(p', r') := spec_step (flat fs) 1 (absp fs s) o in
  r = r' /\ absp fs s' = p' /\ Inv fs s'.
Proof. exact step_refines. Qed.
Print Assumptions C02_step.

(** the reported position is the model position *)
Theorem C02_position : forall fs s, Inv fs s -> stream_pos fs s = absp fs s.
Proof. exact stream_pos_abs. Qed.
Print Assumptions C02_position.

(** read_block returns the model slice for every in-range request and ValueError for every other *)
Theorem C02_read_block : forall fs nchans nsamples start nsamps,
  1 <= nfiles fs -> 1 <= nchans -> 1 <= nsamps -> total fs = nsamples * nchans ->
  read_block_bytes fs nchans nsamples start nsamps =
    if (0 <=? start) && (start + nsamps <=? nsamples)
    then OBytes (slice (flat fs) (start * nchans) (nchans * nsamps)) else OErr ValueError.
Proof. exact read_block_spec. Qed.
Print Assumptions C02_read_block.

(** 16- and 32-bit samples (items of isz = 2 or 4 bytes; any isz >= 1): on a stream whose data sections hold whole items, a counted read
    of n items at an item-aligned position returns exactly the n*isz bytes of the flat array (crossing any number of file
    boundaries) or raises when fewer exist, and an absolute seek to an aligned offset lands aligned *)
Theorem C02_cread_items : forall fs isz s n, 0 < isz -> whole_items isz fs -> InvA isz fs s -> 0 <= n ->
  (absp fs s + n * isz <= total fs ->
     exists s', cread fs isz s n = (s', OBytes (slice (flat fs) (absp fs s) (n * isz))) /\ InvA isz fs s' /\ absp fs s' = absp fs s + n * isz) /\
  (absp fs s + n * isz > total fs ->
     exists s', cread fs isz s n = (s', OErr ValueError) /\ InvA isz fs s' /\ absp fs s' = total fs).
Proof. exact cread_items_spec. Qed.
Print Assumptions C02_cread_items.

Theorem C02_seek_aligned : forall fs isz s off, 0 < isz -> whole_items isz fs -> 0 <= off < total fs -> off mod isz = 0 ->
  exists s', seek_set_op fs s off = (s', OUnit) /\ InvA isz fs s' /\ absp fs s' = off.
Proof. exact seek_set_aligned. Qed.
Print Assumptions C02_seek_aligned.

Example C02_example_items :
  let fs := [mkfile [224] [1; 0; 2; 0]; mkfile [225; 225] [3; 0]; mkfile [226] [4; 0; 5; 0]] in
  whole_items 2 fs /\
  run fs 2 (init fs) [SeekSet 2; Cread 3; Cread 2] = [(OUnit, 2); (OBytes [2; 0; 3; 0; 4; 0], 8); (OErr ValueError, 10)].
Proof. vm_compute. repeat split; try discriminate; repeat constructor. Qed.

(** non-vacuity: three files (one with an empty data section), a history crossing both boundaries *)
Example C02_example :
  let fs := [mkfile [224] [1; 2]; mkfile [225; 225] []; mkfile [226] [3; 4; 5]] in
  run fs 1 (init fs) [Cread 1; Creadinto 3; SeekCur (-3); Cread 4; Cread 1; SeekSet 5] =
  [(OBytes [1], 1); (OBytes [2; 3; 4], 4); (OUnit, 1); (OBytes [2; 3; 4; 5], 5); (OErr ValueError, 5); (OErr ValueError, 5)]
  /\ 1 <= nfiles fs /\ Forall op_ok [Cread 1; Creadinto 3; SeekCur (-3); Cread 4; Cread 1; SeekSet 5].
Proof. vm_compute. repeat split; try discriminate; repeat constructor; discriminate. Qed.
