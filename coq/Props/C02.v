(** C02 -- a multi-file stream reads as the concatenation of its data sections.
    Subject: Model/Stream.v (hand model of FileReader; its seek arithmetic is Gen/Plan.v, regenerated from
    io/fileio.py), tied to the implementation by the correspondence run of tools/harness/props/c02.py. *)
From Coq Require Import ZArith List Bool.
Require Import SPP.Base.Rt SPP.Gen.Plan SPP.Model.Stream SPP.Model.StreamApi SPP.Proofs.C02_stream SPP.Proofs.C02_items SPP.Proofs.C02_api.
Import ListNotations.
Open Scope Z_scope.

(** every history of absolute/relative seeks, counted reads and buffer reads, on any stream of >= 1 files with
    arbitrary header and data lengths (empty data sections included), returns exactly what the flat byte array
    returns and reports the flat model's position after every operation (byte-wide items) *)
Theorem C02_stream_refines : forall fs ops, 1 <= nfiles fs -> Forall op_ok ops ->
  run fs 1 (init fs) ops = spec_run (flat fs) 1 0 ops.
Proof. exact stream_refines. Qed.
Print Assumptions C02_stream_refines.

(** headers never leak: every byte string returned is a slice of the joined data sections *)
Theorem C02_no_header_leak : forall fs ops, 1 <= nfiles fs -> Forall op_ok ops ->
  Forall (fun r => match fst r with OBytes l => exists a n, l = slice (flat fs) a n | _ => True end) (run fs 1 (init fs) ops).
Proof. exact outputs_are_data_slices. Qed.
Print Assumptions C02_no_header_leak.

(** a buffer read returns only the bytes that exist; a counted read past the end raises (from the spec side
    of the refinement: Creadinto n yields min n (len - p) bytes, Cread n beyond the end yields ValueError) *)
Theorem C02_step : forall fs s o, Inv fs s -> op_ok o ->
  let '(s', r) := step fs 1 s o in
  let '(p', r') := spec_step (flat fs) 1 (absp fs s) o in
  r = r' /\ absp fs s' = p' /\ Inv fs s'.
Proof. exact step_refines. Qed.
Print Assumptions C02_step.

(** the reported position is the model position *)
Theorem C02_position : forall fs s, Inv fs s -> stream_pos fs s = absp fs s.
Proof. exact stream_pos_abs. Qed.
Print Assumptions C02_position.

(** read_block returns the model slice for every in-range request and ValueError for every other *)
Theorem C02_read_block : forall fs nchans nsamples start nsamps,
  1 <= nfiles fs -> 1 <= nchans -> 1 <= nsamps -> total fs = nsamples * nchans ->
  read_block_bytes fs nchans nsamples start nsamps =
    if (0 <=? start) && (start + nsamps <=? nsamples)
    then OBytes (slice (flat fs) (start * nchans) (nchans * nsamps)) else OErr ValueError.
Proof. exact read_block_spec. Qed.
Print Assumptions C02_read_block.

(** 16- and 32-bit samples (items of isz = 2 or 4 bytes; any isz >= 1): on a stream whose data sections hold whole items, a counted read
    of n items at an item-aligned position returns exactly the n*isz bytes of the flat array (crossing any number of file
    boundaries) or raises when fewer exist, and an absolute seek to an aligned offset lands aligned *)
Theorem C02_cread_items : forall fs isz s n, 0 < isz -> whole_items isz fs -> InvA isz fs s -> 0 <= n ->
  (absp fs s + n * isz <= total fs ->
     exists s', cread fs isz s n = (s', OBytes (slice (flat fs) (absp fs s) (n * isz))) /\ InvA isz fs s' /\ absp fs s' = absp fs s + n * isz) /\
  (absp fs s + n * isz > total fs ->
     exists s', cread fs isz s n = (s', OErr ValueError) /\ InvA isz fs s' /\ absp fs s' = total fs).
Proof. exact cread_items_spec. Qed.
Print Assumptions C02_cread_items.

Theorem C02_seek_aligned : forall fs isz s off, 0 < isz -> whole_items isz fs -> 0 <= off < total fs -> off mod isz = 0 ->
  exists s', seek_set_op fs s off = (s', OUnit) /\ InvA isz fs s' /\ absp fs s' = off.
Proof. exact seek_set_aligned. Qed.
Print Assumptions C02_seek_aligned.

Example C02_example_items :
  let fs := [mkfile [224] [1; 0; 2; 0]; mkfile [225; 225] [3; 0]; mkfile [226] [4; 0; 5; 0]] in
  whole_items 2 fs /\
  run fs 2 (init fs) [SeekSet 2; Cread 3; Cread 2] = [(OUnit, 2); (OBytes [2; 0; 3; 0; 4; 0], 8); (OErr ValueError, 10)].
Proof. vm_compute. repeat split; try discriminate; repeat constructor. Qed.

(** non-vacuity: three files (one with an empty data section), a history crossing both boundaries *)
Example C02_example :
  let fs := [mkfile [224] [1; 2]; mkfile [225; 225] []; mkfile [226] [3; 4; 5]] in
  run fs 1 (init fs) [Cread 1; Creadinto 3; SeekCur (-3); Cread 4; Cread 1; SeekSet 5] =
  [(OBytes [1], 1); (OBytes [2; 3; 4], 4); (OUnit, 1); (OBytes [2; 3; 4; 5], 5); (OErr ValueError, 5); (OErr ValueError, 5)]
  /\ 1 <= nfiles fs /\ Forall op_ok [Cread 1; Creadinto 3; SeekCur (-3); Cread 4; Cread 1; SeekSet 5].
Proof. vm_compute. repeat split; try discriminate; repeat constructor; discriminate. Qed.

(** * the API layer (Model/StreamApi.v; the three source-dependent quantities are regenerated from fileio.py into Gen/Plan.v) *)

(** FileReader.__init__ leaves the reader at the first sample of the stream: header end of file 0, stream position 0 *)
Theorem C02_open_reader : forall fs, 1 <= nfiles fs ->
  exists s0, open_reader fs = Some s0 /\ Inv fs s0 /\ absp fs s0 = 0 /\ stream_pos fs s0 = 0.
Proof. exact open_reader_first_sample. Qed.
Print Assumptions C02_open_reader.

(** every history that begins WITHOUT a seek on a freshly opened reader, at every depth (whole bytes, or 1/2/4-bit samples that
    a counted read unpacks), with buffer reads into buffers of any item size, returns exactly what the flat array of packed bytes
    returns (counted reads: the unpacked samples of the bytes) and reports its position after every operation *)
Theorem C02_fresh_history : forall d fs ops, 1 <= nfiles fs -> 0 < bitfact d -> Forall aop_ok ops ->
  api_fresh_run d fs ops = api_spec_run d (flat fs) 0 ops.
Proof. exact api_fresh_refines. Qed.
Print Assumptions C02_fresh_history.

(** ... and a history after seek(0, 0) is the same history *)
Theorem C02_fresh_is_seek0 : forall d fs ops, 1 <= nfiles fs -> 0 < total fs -> 0 < bitfact d -> Forall aop_ok ops ->
  exists s0 s1, open_reader fs = Some s0 /\ seek_set_op fs s0 0 = (s1, OUnit) /\ api_run d fs s1 ops = api_run d fs s0 ops.
Proof. exact fresh_is_seek0. Qed.
Print Assumptions C02_fresh_is_seek0.

(** a buffer of k items of b bytes is read exactly as a buffer of b*k bytes: the byte count is what is compared *)
Theorem C02_typed_buffer : forall d fs s b k, api_step d fs s (ACreadinto b k) = api_step d fs s (ACreadinto 1 (b * k)).
Proof. exact creadinto_typed_bytes. Qed.
Print Assumptions C02_typed_buffer.

(** sub-byte depths: a counted read of n bytes' worth of units returns the unpacked samples of exactly the next n bytes *)
Theorem C02_cread_unpacks : forall d fl p n, 0 < bitfact d ->
  api_spec_step d fl p (ACread (n * bitfact d)) =
    if p + n <=? len fl then (p + n, OBytes (unpack_out d (slice fl p n))) else (len fl, OErr ValueError).
Proof. exact cread_whole_units. Qed.
Print Assumptions C02_cread_unpacks.

(** read_block on a freshly opened reader (files with their real header bytes) *)
Theorem C02_read_block_fresh : forall fs nchans nsamples start nsamps,
  1 <= nfiles fs -> 1 <= nchans -> 1 <= nsamps -> total fs = nsamples * nchans ->
  api_read_block fs nchans nsamples start nsamps =
    if (0 <=? start) && (start + nsamps <=? nsamples)
    then OBytes (slice (flat fs) (start * nchans) (nchans * nsamps)) else OErr ValueError.
Proof. exact api_read_block_spec. Qed.
Print Assumptions C02_read_block_fresh.

(** non-vacuity: 2-bit samples (most significant field first), an empty first data section, a first operation that is a read,
    a uint16 buffer of 2 items crossing a boundary, a float32 buffer at the end of the stream *)
Example C02_example_api :
  let fs := [mkfile [224; 224] []; mkfile [225] [27; 228]; mkfile [226] [1; 2; 3]] in
  let ops := [ACread 4; ACreadinto 2 2; ASeekCur (-3); ACread 8; ACreadinto 4 1; ACread 4] in
  api_fresh_run (DBits 2 true) fs ops =
    [(OBytes [0; 1; 2; 3], 1); (OBytes [228; 1; 2; 3], 5); (OUnit, 2); (OBytes [0; 0; 0; 1; 0; 0; 0; 2], 4); (OBytes [3], 5); (OErr ValueError, 5)]
  /\ 1 <= nfiles fs /\ 0 < bitfact (DBits 2 true) /\ 0 < total fs /\ Forall aop_ok ops.
Proof. cbv zeta. split; [vm_compute; reflexivity|]. split; [vm_compute; discriminate|]. split; [vm_compute; reflexivity|].
  split; [vm_compute; reflexivity|]. repeat (apply Forall_cons || apply Forall_nil); cbn [aop_ok]; try exact I; repeat split; discriminate. Qed.
Example C02_example_read_block_fresh :
  let fs := [mkfile [224; 224; 224] [1; 2; 3; 4]; mkfile [225] [5; 6]] in
  api_read_block fs 2 3 1 2 = OBytes [3; 4; 5; 6] /\ 1 <= nfiles fs /\ total fs = 3 * 2.
Proof. cbv zeta. split; [vm_compute; reflexivity|]. split; [vm_compute; discriminate|]. vm_compute; reflexivity. Qed.

(** 16- and 32-bit samples, every history: on a stream whose data sections hold whole items, every history of item-aligned
    absolute and relative seeks, counted reads of items and buffer reads of whole items (on a fresh reader, no seek first)
    returns what the flat byte array returns and reports its position after every operation *)
Theorem C02_items_history : forall isz fs ops, 1 <= nfiles fs -> 0 < isz -> whole_items isz fs -> Forall (op_aligned isz) ops ->
  run fs isz (init fs) ops = spec_run (flat fs) isz 0 ops.
Proof. exact items_stream_refines. Qed.
Print Assumptions C02_items_history.

Example C02_example_items_history :
  let fs := [mkfile [224] [1; 0; 2; 0]; mkfile [225; 225] [3; 0]; mkfile [226] [4; 0; 5; 0]] in
  let ops := [Cread 1; Creadinto 6; SeekCur (-4); Cread 3; SeekSet 2; Creadinto 20; SeekCur 0] in
  run fs 2 (init fs) ops =
    [(OBytes [1; 0], 2); (OBytes [2; 0; 3; 0; 4; 0], 8); (OUnit, 4); (OBytes [3; 0; 4; 0; 5; 0], 10); (OUnit, 2);
     (OBytes [2; 0; 3; 0; 4; 0; 5; 0], 10); (OErr ValueError, 10)]
  /\ 1 <= nfiles fs /\ whole_items 2 fs /\ Forall (op_aligned 2) ops.
Proof. cbv zeta. split; [vm_compute; reflexivity|]. split; [vm_compute; discriminate|].
  split; [repeat constructor|]. repeat (apply Forall_cons || apply Forall_nil); cbn [op_aligned]; repeat split; try reflexivity; discriminate. Qed.
