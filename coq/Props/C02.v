(** C02 -- a multi-file stream reads as the concatenation of its data sections.
    Subject: Model/Stream.v (hand model of FileReader; its seek arithmetic is Gen/Plan.v, regenerated from
    io/fileio.py), tied to the implementation by the correspondence run of tools/harness/props/c02.py. *)
From Coq Require Import ZArith List Bool.
Require Import SPP.Base.Rt SPP.Gen.Plan SPP.Model.Stream SPP.Proofs.C02_stream.
Import ListNotations.
Open Scope Z_scope.

(** every history of absolute/relative seeks, counted reads and buffer reads, on any stream of >= 1 files with
    arbitrary header and data lengths (empty data sections included), returns exactly what the flat byte array
    returns and reports the flat model's position after every operation (byte-wide items) *)
Theorem C02_stream_refines : forall fs ops, 1 <= nfiles fs -> Forall op_ok ops ->
  run fs 1 (init fs) ops = spec_run (flat fs) 1 0 ops.
Proof. exact stream_refines. Qed.
Print Assumptions C02_stream_refines.

(** headers never leak: every byte string returned is a slice of the joined data sections *)
Theorem C02_no_header_leak : forall fs ops, 1 <= nfiles fs -> Forall op_ok ops ->
  Forall (fun r => match fst r with OBytes l => exists a n, l = slice (flat fs) a n | _ => True end) (run fs 1 (init fs) ops).
Proof. exact outputs_are_data_slices. Qed.
Print Assumptions C02_no_header_leak.

(** a buffer read returns only the bytes that exist; a counted read past the end raises (from the spec side
    of the refinement: Creadinto n yields min n (len - p) bytes, Cread n beyond the end yields ValueError) *)
Theorem C02_step : forall fs s o, Inv fs s -> op_ok o ->
  let '(s', r) := step fs 1 s o in
  let '(p', r') := spec_step (flat fs) 1 (absp fs s) o in
  r = r' /\ absp fs s' = p' /\ Inv fs s'.
Proof. exact step_refines. Qed.
Print Assumptions C02_step.

(** the reported position is the model position *)
Theorem C02_position : forall fs s, Inv fs s -> stream_pos fs s = absp fs s.
Proof. exact stream_pos_abs. Qed.
Print Assumptions C02_position.

(** read_block returns the model slice for every in-range request and ValueError for every other *)
Theorem C02_read_block : forall fs nchans nsamples start nsamps,
  1 <= nfiles fs -> 1 <= nchans -> 1 <= nsamps -> total fs = nsamples * nchans ->
  read_block_bytes fs nchans nsamples start nsamps =
    if (0 <=? start) && (start + nsamps <=? nsamples)
    then OBytes (slice (flat fs) (start * nchans) (nchans * nsamps)) else OErr ValueError.
Proof. exact read_block_spec. Qed.
Print Assumptions C02_read_block.

(** non-vacuity: three files (one with an empty data section), a history crossing both boundaries *)
Example C02_example :
  let fs := [mkfile [224] [1; 2]; mkfile [225; 225] []; mkfile [226] [3; 4; 5]] in
  run fs 1 (init fs) [Cread 1; Creadinto 3; SeekCur (-3); Cread 4; Cread 1; SeekSet 5] =
  [(OBytes [1], 1); (OBytes [2; 3; 4], 4); (OUnit, 1); (OBytes [2; 3; 4; 5], 5); (OErr ValueError, 5); (OErr ValueError, 5)]
  /\ 1 <= nfiles fs /\ Forall op_ok [Cread 1; Creadinto 3; SeekCur (-3); Cread 4; Cread 1; SeekSet 5].
Proof. vm_compute. repeat split; try discriminate; repeat constructor; discriminate. Qed.
