(** C01 -- gulped reading delivers every requested sample exactly once, in order.
    Subject: Gen.Plan.fil_plan (the block arithmetic of FilReader.read_plan, regenerated from readers.py on
    every run) executed by Model/Plan.v (hand model of the loop body) on Model/Stream.v (C02). *)
From Coq Require Import ZArith List Bool Lia.
Require Import SPP.Base.Rt SPP.Gen.Plan SPP.Gen.Kernels SPP.Model.Bits SPP.Model.Stream SPP.Model.Plan SPP.Model.PlanPacked SPP.Model.PlanForms SPP.Proofs.C02_stream SPP.Proofs.C01_plan SPP.Proofs.C01_packed SPP.Proofs.C01_forms.
Import ListNotations.
Open Scope Z_scope.

(** every plan with |skipback| below the effective gulp is honoured, for every stream (any split into files),
    gulp, in-range (start, nsamps): the iteration completes, the blocks stitched together (dropping the leading
    skipback samples of every block after the first) are exactly samples [start, start+nsamps), every block is a
    whole number of samples between 1 and the gulp with len(data) = nsamps_r * nchans, indices are 0,1,2,... *)
Theorem C01_plan_sound : forall fs nch N gulp0 start nsamps skipback0,
  1 <= nfiles fs -> 1 <= nch -> total fs = N * nch ->
  0 <= start -> 1 <= nsamps -> start + nsamps <= N -> 1 <= gulp0 ->
  Z.abs skipback0 < Z.min nsamps gulp0 ->
  exists bl, run_plan fs nch gulp0 start nsamps skipback0 = POk bl /\
    stitch (Z.abs skipback0 * nch) bl = slice (flat fs) (start * nch) (nsamps * nch) /\
    Forall (block_ok nch gulp0) bl /\
    map (fun b => snd (fst b)) bl = zrange (len (map (fun _ => 0) bl)).
Proof. exact plan_sound. Qed.
Print Assumptions C01_plan_sound.

(** [nch] above is the number of BYTES per sample (samp_stride): with nch := nchans for 8-bit and nch := nchans*2 / nchans*4 for
    16/32-bit files the theorem is the byte-level statement at those depths (each block is a whole number of samples, the bytes of
    exactly the selected samples in order); the packed depths are C01_plan_sound_packed below *)
Corollary C01_plan_sound_items : forall fs nchans isz N gulp0 start nsamps skipback0,
  1 <= nfiles fs -> 1 <= nchans -> 1 <= isz -> total fs = N * (nchans * isz) ->
  0 <= start -> 1 <= nsamps -> start + nsamps <= N -> 1 <= gulp0 -> Z.abs skipback0 < Z.min nsamps gulp0 ->
  exists bl, run_plan fs (nchans * isz) gulp0 start nsamps skipback0 = POk bl /\
    stitch (Z.abs skipback0 * (nchans * isz)) bl = slice (flat fs) (start * (nchans * isz)) (nsamps * (nchans * isz)) /\
    Forall (block_ok (nchans * isz) gulp0) bl.
Proof. intros fs nchans isz N gulp0 start nsamps skipback0 H1 H2 H3 H4 H5 H6 H7 H8 H9.
  destruct (plan_sound fs (nchans * isz) N gulp0 start nsamps skipback0 H1 ltac:(nia) H4 H5 H6 H7 H8 H9) as [bl [E [S [F _]]]].
  exists bl. auto. Qed.
Print Assumptions C01_plan_sound_items.

(** a plan whose skipback is not smaller than the effective gulp is rejected before anything is yielded *)
Theorem C01_plan_reject : forall fs nch gulp0 start nsamps skipback0,
  Z.abs skipback0 >= Z.min nsamps gulp0 -> run_plan fs nch gulp0 start nsamps skipback0 = PErr [] ValueError.
Proof. exact plan_reject. Qed.
Print Assumptions C01_plan_reject.

(** the arithmetic facts of the regenerated plan: full blocks inside the range, last block brings new samples,
    everything covered *)
Theorem C01_plan_facts : forall gulp0 start nsamps skipback0 N nch,
  1 <= gulp0 -> 1 <= nsamps -> Z.abs skipback0 < Z.min nsamps gulp0 ->
  exists g sb nreads lastread,
    fil_plan gulp0 start nsamps skipback0 N (N * nch) nch nch =
      Some (g, sb, start * nch, map (mkfull g sb nch) (zrange nreads) ++ (if lastread =? 0 then [] else [(nreads, lastread * nch, 0)]))
    /\ plan_facts gulp0 nsamps skipback0 g sb nreads lastread.
Proof. exact fil_plan_eq. Qed.
Print Assumptions C01_plan_facts.

Theorem C01_stride_exact : forall nbits nchans n, In nbits [1; 2; 4; 8; 16; 32] -> (nchans * nbits) mod 8 = 0 ->
  (n * nchans) * nbits / 8 = n * (nchans * nbits / 8) /\ ((n * nchans) * nbits) mod 8 = 0.
Proof. exact stride_exact. Qed.
Print Assumptions C01_stride_exact.

(** packed depths (1, 2, 4 bits, nchans*nbits a multiple of 8): the blocks, each unpacked by the generated kernels into an arbitrary
    reused buffer, stitch to exactly the unpacked samples [start, start+nsamps) of the set (sample k = bit field k mod (8/nbits) of
    data byte k / (8/nbits), C03), for every split into files, gulp, in-range selection and skipback below the effective gulp *)
Theorem C01_plan_sound_packed : forall fs nch nbits big N gulp0 start nsamps skipback0 junk,
  In nbits [1; 2; 4] -> (nch * nbits) mod 8 = 0 -> 1 <= nch ->
  1 <= nfiles fs -> total fs = N * samp_bytes nch nbits -> Forall is_byte (flat fs) ->
  0 <= start -> 1 <= nsamps -> start + nsamps <= N -> 1 <= gulp0 -> Z.abs skipback0 < Z.min nsamps gulp0 ->
  exists bl, run_plan_packed fs nch nbits big gulp0 start nsamps skipback0 junk = POk bl /\
    stitch (Z.abs skipback0 * nch) bl = map (fun k => packed_sample fs nbits big (start * nch + k)) (zrange (nsamps * nch)) /\
    Forall (block_ok nch gulp0) bl.
Proof. exact plan_sound_packed. Qed.
Print Assumptions C01_plan_sound_packed.

Example C01_example_packed :
  let fs := [mkfile [224] [27; 228]; mkfile [225] [177; 78]] in   (* 2-bit, 4 channels: one byte per sample *)
  run_plan_packed fs 4 2 true 2 1 3 1 (fun _ => 9) = POk [(2, 0, [3; 2; 1; 0; 2; 3; 0; 1]); (2, 1, [2; 3; 0; 1; 1; 0; 3; 2])]
  /\ total fs = 4 * samp_bytes 4 2 /\ Forall is_byte (flat fs).
Proof. vm_compute. repeat split; try reflexivity; repeat constructor; discriminate. Qed.

(** non-vacuity: two files, 7 samples of 2 channels, gulp 3, skipback 2 (more than half the gulp), sub-range [1,6) *)
Example C01_example :
  let fs := [mkfile [224] [10; 11; 20; 21; 30; 31]; mkfile [225] [40; 41; 50; 51; 60; 61; 70; 71]] in
  run_plan fs 2 3 1 5 2 = POk [(3, 0, [20; 21; 30; 31; 40; 41]); (3, 1, [30; 31; 40; 41; 50; 51]); (3, 2, [40; 41; 50; 51; 60; 61])]
  /\ stitch (2 * 2) [(3, 0, [20; 21; 30; 31; 40; 41]); (3, 1, [30; 31; 40; 41; 50; 51]); (3, 2, [40; 41; 50; 51; 60; 61])]
     = slice (flat fs) (1 * 2) (5 * 2)
  /\ total fs = 7 * 2.
Proof. vm_compute. repeat split; reflexivity. Qed.

(** ---- the call forms of read_plan (Model/PlanForms.v; the default of nsamps is Gen.Plan.fil_plan_nsamps, regenerated) ---- *)

(** nsamps left out (None, the default): the plan runs to the end of the set -- the stitched blocks are every sample from
    [start] on, exactly once and in order, for every split into files (members without any sample included: nothing is
    assumed of the members but their total length), every gulp and every skipback, of either sign, below the effective gulp *)
Theorem C01_plan_to_end : forall fs nch N gulp0 start skipback0,
  1 <= nfiles fs -> 1 <= nch -> total fs = N * nch -> 0 <= start < N -> 1 <= gulp0 ->
  Z.abs skipback0 < Z.min (N - start) gulp0 ->
  exists bl, run_plan_opt fs nch gulp0 start None skipback0 = POk bl /\
    stitch (Z.abs skipback0 * nch) bl = skipn (Z.to_nat (start * nch)) (flat fs) /\
    Forall (block_ok nch gulp0) bl /\
    map (fun b => snd (fst b)) bl = zrange (len (map (fun _ => 0) bl)).
Proof. exact plan_to_end_sound. Qed.
Print Assumptions C01_plan_to_end.

(** nsamps given is the plan of C01_plan_sound *)
Theorem C01_plan_given : forall fs nch gulp0 start n skipback0,
  run_plan_opt fs nch gulp0 start (Some n) skipback0 = run_plan fs nch gulp0 start n skipback0.
Proof. exact run_plan_opt_some. Qed.
Print Assumptions C01_plan_given.

(** nsamps left out with nothing left to read (start at or beyond the last sample), or with a skipback, of either sign, not
    below the effective gulp min(N - start, gulp) -- above the nominal gulp included: refused before anything is yielded *)
Theorem C01_plan_to_end_reject : forall fs nch N gulp0 start skipback0, 1 <= nch -> total fs = N * nch ->
  Z.abs skipback0 >= Z.min (N - start) gulp0 -> run_plan_opt fs nch gulp0 start None skipback0 = PErr [] ValueError.
Proof. exact plan_to_end_reject. Qed.
Print Assumptions C01_plan_to_end_reject.

(** the sign of skipback is ignored, whatever the other arguments (honoured and refused plans alike) *)
Theorem C01_plan_skipback_sign : forall fs nch gulp0 start nsamps skipback0,
  run_plan_opt fs nch gulp0 start nsamps (- skipback0) = run_plan_opt fs nch gulp0 start nsamps skipback0.
Proof. exact run_plan_opp. Qed.
Print Assumptions C01_plan_skipback_sign.

(** the overlap clause: in every honoured plan each block after the first begins with the last skipback samples of the block
    before it ("its leading skipback samples, which repeat the tail of the previous block") *)
Theorem C01_plan_overlap : forall fs nch N gulp0 start nsamps skipback0,
  1 <= nfiles fs -> 1 <= nch -> total fs = N * nch ->
  0 <= start -> 1 <= nsamps -> start + nsamps <= N -> 1 <= gulp0 ->
  Z.abs skipback0 < Z.min nsamps gulp0 ->
  exists bl, run_plan fs nch gulp0 start nsamps skipback0 = POk bl /\ overlaps (Z.abs skipback0 * nch) bl.
Proof. exact plan_overlap. Qed.
Print Assumptions C01_plan_overlap.

Theorem C01_plan_to_end_overlap : forall fs nch N gulp0 start skipback0,
  1 <= nfiles fs -> 1 <= nch -> total fs = N * nch -> 0 <= start < N -> 1 <= gulp0 ->
  Z.abs skipback0 < Z.min (N - start) gulp0 ->
  exists bl, run_plan_opt fs nch gulp0 start None skipback0 = POk bl /\ overlaps (Z.abs skipback0 * nch) bl.
Proof. exact plan_to_end_overlap. Qed.
Print Assumptions C01_plan_to_end_overlap.

(** non-vacuity: three members, the first and the middle one without any sample, 5 samples of 2 channels, nsamps left out,
    start 1, gulp 3, skipback -1: blocks of 3 and 2 samples; the second begins with the last sample of the first *)
Example C01_example_to_end :
  let fs := [mkfile [224] []; mkfile [225] [10; 11; 20; 21; 30; 31]; mkfile [226] []; mkfile [227] [40; 41; 50; 51]] in
  run_plan_opt fs 2 3 1 None (-1) = POk [(3, 0, [20; 21; 30; 31; 40; 41]); (2, 1, [40; 41; 50; 51])]
  /\ stitch (Z.abs (-1) * 2) [(3, 0, [20; 21; 30; 31; 40; 41]); (2, 1, [40; 41; 50; 51])] = skipn (Z.to_nat (1 * 2)) (flat fs)
  /\ overlaps (Z.abs (-1) * 2) [(3, 0, [20; 21; 30; 31; 40; 41]); (2, 1, [40; 41; 50; 51])]
  /\ total fs = 5 * 2 /\ 1 <= nfiles fs /\ Z.abs (-1) < Z.min (5 - 1) 3.
Proof. vm_compute. repeat split; try reflexivity; discriminate. Qed.

(** non-vacuity of the refusals: nothing left (start = N), and |skipback| between the effective and the nominal gulp *)
Example C01_example_to_end_reject :
  let fs := [mkfile [224] [10; 11; 20; 21]; mkfile [225] []] in
  run_plan_opt fs 2 3 2 None 0 = PErr [] ValueError /\ run_plan_opt fs 2 5 1 None (-2) = PErr [] ValueError
  /\ total fs = 2 * 2 /\ Z.abs 0 >= Z.min (2 - 2) 3 /\ Z.abs (-2) >= Z.min (2 - 1) 5.
Proof. vm_compute. repeat split; try reflexivity; discriminate. Qed.
