(** C17 -- re-tuning a folded cube depends only on the target DM / period, not on the history.
    Only property theorems here, each closed by [exact] of a lemma of Proofs/C17_foldedcube.v / C17_rot.v.
    Subject: the state machine Model/C17_FoldedCube.v (update_dm / update_period / _get_dmdelays / _get_pdelays,
    statement by statement) instantiated with [gen_refs], the references REGENERATED from sigpyproc/foldedcube.py
    by tools/py2coq/gen_c17.py (Gen/FoldRefs.v): which stored DM / period each delay computation subtracts /
    divides by.  [F] and [T] (the dispersion delays in bins and the linear period drift) are arbitrary functions of
    exactly the arguments the code passes. *)
From Coq Require Import String ZArith QArith Qabs List Bool Permutation.
Require Import SPP.Base.Rt SPP.Gen.FoldRefs SPP.Model.C17_FoldedCube SPP.Model.C17_Int32 SPP.Model.C17_Laws SPP.Model.C17_Header
  SPP.Proofs.C17_rot SPP.Proofs.C17_foldedcube SPP.Proofs.C17_int32 SPP.Proofs.C17_laws SPP.Proofs.C17_header.
Import ListNotations.
Open Scope Z_scope.

(** ** the verdict for the references the source uses today.
    [sound_refs gen_refs] computes to [true] exactly when all four references are the folding values and the
    one-sub-band delay vector is kept one-dimensional; then the first branch is the full property for ALL shapes,
    contents, delay functions and histories; otherwise the second branch is a counterexample of the model.
    Never vacuous: one of the two branches is the statement. *)
Theorem C17_verdict : if sound_refs gen_refs then HistoryIndependent gen_refs else Refuted gen_refs.
Proof. exact (verdict gen_refs). Qed.
Print Assumptions C17_verdict.

(** the same for every conceivable choice of references (what the generator may read after any edit) *)
Theorem C17_verdict_all_refs : forall R, if sound_refs R then HistoryIndependent R else Refuted R.
Proof. exact verdict. Qed.
Print Assumptions C17_verdict_all_refs.

Theorem C17_refuted_is_violation : forall R, Refuted R -> ~ HistoryIndependent R.
Proof. exact refuted_not_independent. Qed.
Print Assumptions C17_refuted_is_violation.

(** ** the property, clause by clause (hypothesis: the source takes the folding values as references) *)

(** after ANY history: no exception, every profile (i, b) of the cube is the folded profile rotated by
    F(dm_final - dm_fold)[b] + T(dbins(period_final, period_fold))[i], and the final targets are reported *)
Theorem C17_history_independent : sound_refs gen_refs = true ->
  forall nsubints nsubbands nbins tobs F T c0 dm0 p0 ops,
    nsubbands <> 0 -> nbins <> 0 -> ~ (p0 == 0)%Q ->
    exists s, run gen_refs nsubints nsubbands nbins tobs F T ops (init c0 dm0 p0) = Some s /\
      data s = expected nbins tobs F T c0 dm0 p0 (final_dm ops dm0) (final_period ops p0) /\
      dm s = final_dm ops dm0 /\ period s = final_period ops p0.
Proof. exact (sound_history_independent gen_refs). Qed.
Print Assumptions C17_history_independent.

(** repeating an update changes nothing *)
Theorem C17_idempotent : forall R nsubints nsubbands nbins tobs F T c0 dm0 p0,
  all_fold R = true -> r_dm_1d R = true \/ nsubbands <> 1 -> nsubbands <> 0 -> nbins <> 0 -> ~ (p0 == 0)%Q ->
  forall ops o, exists s1 s2,
    run R nsubints nsubbands nbins tobs F T (ops ++ [o]) (init c0 dm0 p0) = Some s1 /\
    run R nsubints nsubbands nbins tobs F T (ops ++ [o; o]) (init c0 dm0 p0) = Some s2 /\
    data s1 = data s2 /\ dm s1 = dm s2 /\ period s1 = period s2.
Proof. exact idempotent. Qed.
Print Assumptions C17_idempotent.

(** returning to the folding values restores the folded cube bit for bit *)
Theorem C17_return_to_fold : forall R nsubints nsubbands nbins tobs F T c0 dm0 p0,
  all_fold R = true -> r_dm_1d R = true \/ nsubbands <> 1 -> nsubbands <> 0 -> nbins <> 0 -> ~ (p0 == 0)%Q ->
  forall ops, (final_dm ops dm0 == dm0)%Q -> (final_period ops p0 == p0)%Q ->
    exists s, run R nsubints nsubbands nbins tobs F T ops (init c0 dm0 p0) = Some s /\ data s = c0.
Proof. exact return_to_fold. Qed.
Print Assumptions C17_return_to_fold.

(** intermediate targets do not matter *)
Theorem C17_intermediate_irrelevant : forall R nsubints nsubbands nbins tobs F T c0 dm0 p0,
  all_fold R = true -> r_dm_1d R = true \/ nsubbands <> 1 -> nsubbands <> 0 -> nbins <> 0 -> ~ (p0 == 0)%Q ->
  forall ops1 ops2, final_dm ops1 dm0 = final_dm ops2 dm0 -> final_period ops1 p0 = final_period ops2 p0 ->
    exists s1 s2, run R nsubints nsubbands nbins tobs F T ops1 (init c0 dm0 p0) = Some s1 /\
      run R nsubints nsubbands nbins tobs F T ops2 (init c0 dm0 p0) = Some s2 /\
      data s1 = data s2 /\ dm s1 = dm s2 /\ period s1 = period s2.
Proof. exact intermediate_irrelevant. Qed.
Print Assumptions C17_intermediate_irrelevant.

(** ** partial: what holds for EVERY choice of references, hence on the pinned tree as well *)

(** updates only rotate profiles: after any history that raises no exception the shape is kept and every profile
    is a permutation of the folded profile (it is that profile rotated by the recorded shifts) *)
Theorem C17_multiset_partial : forall R nsubints nsubbands nbins tobs F T c0 dm0 p0 ops s,
  run R nsubints nsubbands nbins tobs F T ops (init c0 dm0 p0) = Some s ->
  length (data s) = length c0 /\
  (forall i, length (nth i (data s) []) = length (nth i c0 [])) /\
  (forall i b, Permutation (prof (data s) i b) (prof c0 i b)).
Proof. exact history_multiset. Qed.
Print Assumptions C17_multiset_partial.

Theorem C17_tracks_shifts_partial : forall R nsubints nsubbands nbins tobs F T c0 dm0 p0 ops s,
  run R nsubints nsubbands nbins tobs F T ops (init c0 dm0 p0) = Some s ->
  data s = rot_cube (fun i b => fph s b + tph s i) c0.
Proof. exact history_tracks. Qed.
Print Assumptions C17_tracks_shifts_partial.

(** the reported values are the last targets (that they DESCRIBE the data is C17_history_independent) *)
Theorem C17_reported_partial : forall R nsubints nsubbands nbins tobs F T c0 dm0 p0 ops s,
  run R nsubints nsubbands nbins tobs F T ops (init c0 dm0 p0) = Some s ->
  dm s = final_dm ops dm0 /\ period s = final_period ops p0.
Proof. exact history_reported. Qed.
Print Assumptions C17_reported_partial.

(** the first DM update followed by the first period update of a fresh cube rotate by the implied shift *)
Theorem C17_fresh_once_partial : forall R nsubints nsubbands nbins tobs F T c0 dm0 p0 d p s,
  run R nsubints nsubbands nbins tobs F T [UDm d; UPeriod p] (init c0 dm0 p0) = Some s ->
  data s = expected nbins tobs F T c0 dm0 p0 d p /\ dm s = d /\ period s = p.
Proof. exact fresh_once. Qed.
Print Assumptions C17_fresh_once_partial.

(** folding references but squeezed one-sub-band delays: the property for every cube with >= 2 sub-bands *)
Theorem C17_history_independent_multiband_partial : forall R, all_fold R = true ->
  forall nsubints nsubbands nbins tobs F T c0 dm0 p0 ops,
    nsubbands <> 0 -> nsubbands <> 1 -> nbins <> 0 -> ~ (p0 == 0)%Q ->
    exists s, run R nsubints nsubbands nbins tobs F T ops (init c0 dm0 p0) = Some s /\
      data s = expected nbins tobs F T c0 dm0 p0 (final_dm ops dm0) (final_period ops p0) /\
      dm s = final_dm ops dm0 /\ period s = final_period ops p0.
Proof. exact fold_history_independent_multiband. Qed.
Print Assumptions C17_history_independent_multiband_partial.

(** ** refuted on the pinned tree (references = current values): witnesses on a real case, delay tables taken from
    the implementation (header nchans=32 foff=-4 fch1=400 tobs=100 s, cube 2x2x8 folded at DM 10, period 0.5 s) *)
Theorem C17_repeat_dm_refuted : exists s, w_run pinned_refs 2 [UDm 20%Q; UDm 20%Q] = Some s /\
  data s = cube_art 2 /\ dm s = 20%Q /\ data s <> w_expected 2 20%Q w_p0 /\
  prof (w_expected 2 20%Q w_p0) 0 1 = [12; 13; 14; 15; 16; 17; 10; 11].
Proof. exact pinned_repeat_dm. Qed.
Print Assumptions C17_repeat_dm_refuted.

Theorem C17_return_dm_refuted : exists s, w_run pinned_refs 2 [UDm 20%Q; UDm 10%Q] = Some s /\
  dm s = w_dm0 /\ data s <> cube_art 2 /\ w_expected 2 10%Q w_p0 = cube_art 2 /\
  prof (data s) 0 1 = [16; 17; 10; 11; 12; 13; 14; 15].
Proof. exact pinned_return_dm. Qed.
Print Assumptions C17_return_dm_refuted.

Theorem C17_repeat_period_refuted : exists s, w_run pinned_refs 2 [UPeriod w_p1; UPeriod w_p1] = Some s /\
  data s = cube_art 2 /\ period s = w_p1 /\ data s <> w_expected 2 w_dm0 w_p1 /\
  prof (w_expected 2 w_dm0 w_p1) 1 0 = [26; 27; 20; 21; 22; 23; 24; 25].
Proof. exact pinned_repeat_period. Qed.
Print Assumptions C17_repeat_period_refuted.

Theorem C17_single_band_refuted : w_run pinned_refs 1 [UDm 20%Q] <> None /\
  w_run pinned_refs 1 [UDm 20%Q; UDm 20%Q] = None /\ w_run pinned_refs 1 [UDm 20%Q; UDm 10%Q] = None.
Proof. exact pinned_single_band. Qed.
Print Assumptions C17_single_band_refuted.

(** ** rotation algebra the proofs rest on *)
Theorem C17_rot_rot : forall a b l, rot a (rot b l) = rot (a + b) l.
Proof. exact rot_rot. Qed.
Print Assumptions C17_rot_rot.
Theorem C17_rot_multiple : forall k l, rot (k * Z.of_nat (length l)) l = l.
Proof. exact rot_mul_length. Qed.
Print Assumptions C17_rot_multiple.
Theorem C17_rot_perm : forall d l, Permutation (rot d l) l.
Proof. exact rot_perm. Qed.
Print Assumptions C17_rot_perm.

(** ** non-vacuity: the hypotheses of the positive theorems are satisfiable (folding references), and on the real
    case the same histories that are refuted above end as the property says *)
Example C17_fold_refs_examples :
  sound_refs fold_refs = true /\
  (exists s, w_run fold_refs 2 [UDm 20%Q; UDm 20%Q] = Some s /\ data s = w_expected 2 20%Q w_p0 /\ data s <> cube_art 2) /\
  (exists s, w_run fold_refs 2 [UDm 20%Q; UPeriod w_p1; UDm 10%Q; UPeriod w_p0] = Some s /\ data s = cube_art 2) /\
  (exists s, w_run fold_refs 1 [UDm 20%Q; UDm 20%Q; UDm 10%Q] = Some s /\ data s = cube_art 1).
Proof. exact fold_examples. Qed.

Example C17_np_roll : rot 3 [0; 1; 2; 3; 4] = [3; 4; 0; 1; 2] /\ rot (-1) [0; 1; 2; 3; 4] = [4; 0; 1; 2; 3] /\
  rot 13 [0; 1; 2; 3; 4] = [3; 4; 0; 1; 2].
Proof. vm_compute. repeat split; reflexivity. Qed.

(** ** the int32 width of the shift bookkeeping ([run32], Model/C17_Int32.v: `drifts - self._xph_shifts`, `-1 * self._xph_shifts`
    and `-delays[k]` wrap modulo 2**32).  While no shift reaches 2**30 bins the int32 machine IS the machine of the theorems
    above (for every choice of references), so the whole property holds for it; beyond, it is history dependent even with the
    folding values as references (the side condition is necessary, not a convenience). *)
Theorem C17_int32_faithful : forall R nsubints nsubbands nbins tobs F T c0 dm0 p0 ops, shifts_bounded F T ->
  run32 R nsubints nsubbands nbins tobs F T ops (init c0 dm0 p0) = run R nsubints nsubbands nbins tobs F T ops (init c0 dm0 p0).
Proof. exact int32_faithful. Qed.
Print Assumptions C17_int32_faithful.

Theorem C17_int32_history_independent : sound_refs gen_refs = true ->
  forall nsubints nsubbands nbins tobs F T c0 dm0 p0 ops, shifts_bounded F T ->
    nsubbands <> 0 -> nbins <> 0 -> ~ (p0 == 0)%Q ->
    exists s, run32 gen_refs nsubints nsubbands nbins tobs F T ops (init c0 dm0 p0) = Some s /\
      data s = expected nbins tobs F T c0 dm0 p0 (final_dm ops dm0) (final_period ops p0) /\
      dm s = final_dm ops dm0 /\ period s = final_period ops p0.
Proof. exact (int32_history_independent gen_refs). Qed.
Print Assumptions C17_int32_history_independent.

(** two period targets whose shifts (+-3*2**29 bins) each fit int32: going through the first one leaves sub-integration 1
    one bin off, with identical bookkeeping and reported period, and the return to the folding period does not restore the cube *)
Theorem C17_int32_wrap_refuted :
  (forall i, Z.abs (w32_T (3 * (w32_up - 1))%Q i) < 2147483648 \/ ~ (0 <= i < 2)) /\
  exists s1 s2 s3, w32_run_fold [UPeriod w32_up; UPeriod w32_down] = Some s1 /\ w32_run_fold [UPeriod w32_down] = Some s2 /\
    w32_run_fold [UPeriod w32_up; UPeriod w32_down; UPeriod 1%Q] = Some s3 /\
    period s1 = period s2 /\ tph s1 1 = tph s2 1 /\ data s1 <> data s2 /\ data s3 <> w32_cube /\
    prof (data s1) 1 0 = [11; 12; 10] /\ prof (data s2) 1 0 = [10; 11; 12].
Proof. exact int32_wrap_witness. Qed.
Print Assumptions C17_int32_wrap_refuted.

Example C17_shifts_bounded_example : shifts_bounded (fun _ _ b => b mod 1000) (fun x i => (i * Qround.Qfloor x) mod 1000 - 500).
Proof. exact shifts_bounded_example. Qed.

(** ** shapes: once the source restores one dimension, _fph_shifts never becomes 0-d, for any references and any history; and a
    cube with ONE sub-band runs every history, ends in the expected cube and keeps its shape *)
Theorem C17_never_0d : forall R nsubints nsubbands nbins tobs F T c0 dm0 p0, r_dm_1d R = true ->
  forall ops s, run R nsubints nsubbands nbins tobs F T ops (init c0 dm0 p0) = Some s -> fph_0d s = false.
Proof. exact never_0d. Qed.
Print Assumptions C17_never_0d.

Theorem C17_one_subband : sound_refs gen_refs = true -> forall nsubints nbins tobs F T c0 dm0 p0 ops, nbins <> 0 -> ~ (p0 == 0)%Q ->
  exists s, run gen_refs nsubints 1 nbins tobs F T ops (init c0 dm0 p0) = Some s /\ fph_0d s = false /\
    data s = expected nbins tobs F T c0 dm0 p0 (final_dm ops dm0) (final_period ops p0) /\
    length (data s) = length c0 /\ (forall i, length (nth i (data s) []) = length (nth i c0 [])).
Proof. exact (one_subband gen_refs). Qed.
Print Assumptions C17_one_subband.

(** ** rotation amounts, and the law anchors: when the delay functions are the dispersion drift / the linear period drift rounded
    to the nearest bin (up to eps), every profile (i, b) after ANY history is the folded profile rotated by zd + zp with zd within
    1/2 + eps of K*(dm_final - dm_fold)*(f_b^-2 - fch1^-2)/(period_fold/nbins) and zp within 1/2 + eps of
    i * ((p_final/p_fold - 1) * tobs * nbins / p_fold) / nsubints (both 0 exactly at the folding values) *)
Theorem C17_rotation_amounts : sound_refs gen_refs = true ->
  forall nsubints nsubbands nbins tobs F T c0 dm0 p0 ops, nsubbands <> 0 -> nbins <> 0 -> ~ (p0 == 0)%Q ->
  exists s, run gen_refs nsubints nsubbands nbins tobs F T ops (init c0 dm0 p0) = Some s /\
    forall i b, prof (data s) i b =
      rot (dm_shift nbins F dm0 p0 (final_dm ops dm0) (Z.of_nat b) + p_shift nbins tobs T p0 (final_period ops p0) (Z.of_nat i))
          (prof c0 i b).
Proof. exact (rotation_amounts gen_refs). Qed.
Print Assumptions C17_rotation_amounts.

Theorem C17_law_anchored : sound_refs gen_refs = true ->
  forall K fch1 chanw eps nsubints nsubbands nbins tobs F T c0 dm0 p0 ops, (0 <= eps)%Q ->
  dm_law K fch1 chanw eps F -> p_law nsubints eps T -> nsubbands <> 0 -> nbins <> 0 -> ~ (p0 == 0)%Q ->
  exists s, run gen_refs nsubints nsubbands nbins tobs F T ops (init c0 dm0 p0) = Some s /\
    forall i b, exists zd zp, prof (data s) i b = rot (zd + zp) (prof c0 i b) /\
      (Qabs (inject_Z zd - dm_exact K fch1 chanw nbins dm0 p0 (final_dm ops dm0) (Z.of_nat b)) <= (1#2) + eps)%Q /\
      (Qabs (inject_Z zp - p_exact nsubints nbins tobs p0 (final_period ops p0) (Z.of_nat i)) <= (1#2) + eps)%Q.
Proof. exact (law_anchored gen_refs). Qed.
Print Assumptions C17_law_anchored.

Example C17_laws_example : forall K fch1 chanw n,
  dm_law K fch1 chanw 0 (fun d t b => Qnearest (dm_drift K fch1 chanw d t b)) /\ p_law n 0 (fun x i => Qnearest (p_drift n x i)).
Proof. exact laws_example. Qed.

(** ** frame condition on the observational metadata.  [header_writes] (Gen/FoldRefs.v) is REGENERATED from the source: every
    place in update_dm / update_period / _get_dmdelays / _get_pdelays that could modify the header.  It is empty, hence: *)
Theorem C17_header_writes_none : header_writes = [].
Proof. reflexivity. Qed.

Theorem C17_header_untouched : forall R nsubints nsubbands nbins FH T ops s h s' h',
  runH header_writes R nsubints nsubbands nbins FH T ops (s, h) = Some (s', h') -> h' = h.
Proof. exact (fun R a b c FH T => header_untouched header_writes R a b c FH T C17_header_writes_none). Qed.
Print Assumptions C17_header_untouched.

Theorem C17_header_frame : sound_refs gen_refs = true ->
  forall nsubints nsubbands nbins FH T c0 dm0 p0 h ops, nsubbands <> 0 -> nbins <> 0 -> ~ (p0 == 0)%Q ->
  exists s, runH header_writes gen_refs nsubints nsubbands nbins FH T ops (init c0 dm0 p0, h) = Some (s, h) /\
    data s = expected nbins (h_tobs h) (FH h) T c0 dm0 p0 (final_dm ops dm0) (final_period ops p0).
Proof. exact (header_frame header_writes gen_refs C17_header_writes_none). Qed.
Print Assumptions C17_header_frame.

(** the hypothesis matters: a source that stored to header.tobs in an update would make a repeated update move the cube *)
Theorem C17_header_write_refuted :
  exists c1 c2 h1 h2, wH_obs ["tobs"%string] [UPeriod wH_p] = Some (c1, h1) /\
    wH_obs ["tobs"%string] [UPeriod wH_p; UPeriod wH_p] = Some (c2, h2) /\ c1 <> c2 /\ h1 <> wH_h /\
    wH_obs [] [UPeriod wH_p; UPeriod wH_p] = Some (c1, wH_h) /\ c1 <> cube_art 2.
Proof. exact header_write_witness. Qed.
Print Assumptions C17_header_write_refuted.
