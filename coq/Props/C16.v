(** C16 -- RFI cleaning masks exactly the flagged channels and nothing else.
    Only property theorems here; each is closed by [exact] of a lemma from Proofs/C16_kernel.v or Proofs/C16_maskalg.v.
    Their subjects are regenerated from the source on every run:
      Gen/Kernels.v   [mask_channels_run]                                     (sigpyproc/core/kernels.py)
      Gen/C16Rfi.v    [apply_mask], [apply_method], [apply_funcn], [clean_rfi], [double_mad_mask], [iqrm_mask],
                      [apply_channel_mask_block], [clean_rfi_written_mask]     (sigpyproc/core/rfi.py, sigpyproc/base.py)
    External: the z-score estimators (arguments [zs], [zi], [dmm], [iqm]) and the custom function.
    Hand-modelled: the block loop around the kernel (Model/C16_File.v), histories of operations (Model/C16_MaskAlg.v). *)
From Coq Require Import ZArith QArith Qabs List Bool.
Require Import SPP.Base.Rt SPP.Gen.Kernels SPP.Gen.C16Rfi SPP.Model.Bits SPP.Model.C16_Vec SPP.Model.C16_File
               SPP.Model.C16_MaskAlg SPP.Proofs.C16_kernel SPP.Proofs.C16_maskalg SPP.Proofs.C16_histx SPP.Proofs.C16_scalefree.
Import ListNotations.
Open Scope Z_scope.

(** * 1. The mask returned by clean_rfi is the union of user, statistics and custom mask *)
(** for every method, threshold, optional range list and optional custom function: if clean_rfi returns a mask [s] then
    chan = user \/ stats \/ custom pointwise; user is the closed-range test (all-false without a range list); stats is the OR of
    the method's decision on variance, skewness, kurtosis; custom is the function applied to (user \/ stats) (all-false
    without a function); and the mask handed to apply_channel_mask is chan. *)
Theorem C16_mask_union : forall dmm iqm n freqs var skew kurt m thr fm cf s,
  clean_rfi dmm iqm n freqs var skew kurt m thr fm cf = Some s ->
  (forall c, chan_mask s c = user_mask s c || stats_mask s c || custom_mask s c) /\
  (forall c, user_mask s c = match fm with Some l => in_ranges (freqs c) l | None => false end) /\
  (exists fn mv ms mk, (m = M_mad /\ fn = dmm \/ m = M_iqrm /\ fn = iqm) /\
      fn var thr = Some mv /\ fn skew thr = Some ms /\ fn kurt thr = Some mk /\
      forall c, stats_mask s c = mv c || ms c || mk c) /\
  (exists seen, (forall c, seen c = user_mask s c || stats_mask s c) /\
      custom_mask s = match cf with Some f => f seen | None => vfalse end) /\
  clean_rfi_written_mask s = chan_mask s.
Proof. exact clean_rfi_union. Qed.
Print Assumptions C16_mask_union.

(** * 2. The user mask: centre frequency in a closed range *)
Theorem C16_user_mask : forall n freqs s fm,
  (forall c, user_mask (apply_mask n freqs s fm) c = in_ranges (freqs c) fm) /\
  (forall c, chan_mask (apply_mask n freqs s fm) c = chan_mask s c || in_ranges (freqs c) fm) /\
  stats_mask (apply_mask n freqs s fm) = stats_mask s /\
  custom_mask (apply_mask n freqs s fm) = custom_mask s.
Proof. exact apply_mask_spec. Qed.
Print Assumptions C16_user_mask.

Theorem C16_user_mask_closed_range : forall f fm,
  in_ranges f fm = true <-> exists lo hi, In (lo, hi) fm /\ (lo <= f)%Q /\ (f <= hi)%Q.
Proof. exact in_ranges_closed. Qed.
Print Assumptions C16_user_mask_closed_range.

(** * 3. The statistics mask: |z| > threshold *)
Theorem C16_mad_decision : forall zs a thr, (0 < thr)%Q ->
  exists v, double_mad_mask zs a thr = Some v /\ forall c, v c = mad_flag zs thr a c.
Proof. exact double_mad_spec. Qed.
Print Assumptions C16_mad_decision.

(** IQRM: a channel is flagged iff for some lag in [-radius, radius] \ {0} the z-score of the lagged difference
    x[c] - x[clamp (c + lag)] exceeds the threshold.  PARTIAL: proved for stride ratio 1, i.e. when the window over
    the padded copy is laid out with the padded copy's own strides (a contiguous input of the same item size);
    see [C16_iqrm_layout] and [C16_as_strided_foreign_stride_refuted] for the other layouts. *)
Theorem C16_iqrm_decision_partial : forall zi n,
  (forall a b, (forall i, 0 <= i < n -> a i = b i) -> forall c, 0 <= c < n -> zi a c = zi b c) ->
  forall a thr radius oob, 0 <= n -> (0 < thr)%Q ->
  exists v, iqrm_mask zi n 1 oob a thr radius = Some v /\ forall c, 0 <= c < n -> v c = iqrm_flag zi n radius thr a c.
Proof. exact iqrm_spec_partial. Qed.
Print Assumptions C16_iqrm_decision_partial.

Theorem C16_iqrm_layout : forall zi n ratio oob a thr radius,
  iqrm_window_uses_input_strides = false \/ ratio = 1 ->
  iqrm_mask zi n ratio oob a thr radius = iqrm_mask zi n 1 oob a thr radius.
Proof. exact iqrm_layout. Qed.
Print Assumptions C16_iqrm_layout.

Theorem C16_as_strided_foreign_stride_refuted :
  exists (base oob : qvec) (len i j : Z), 0 <= i /\ 0 <= j /\ i + j < len /\
    as_strided2 len 2 base oob i j <> as_strided2 len 1 base oob i j.
Proof. exact as_strided_foreign_stride_refuted. Qed.
Print Assumptions C16_as_strided_foreign_stride_refuted.

Theorem C16_threshold_antitone_mad : forall zs a t1 t2 c, (t1 <= t2)%Q ->
  mad_flag zs t2 a c = true -> mad_flag zs t1 a c = true.
Proof. exact mad_flag_antitone. Qed.
Print Assumptions C16_threshold_antitone_mad.

Theorem C16_threshold_antitone_iqrm : forall zi n a radius t1 t2 c, (t1 <= t2)%Q ->
  iqrm_flag zi n radius t2 a c = true -> iqrm_flag zi n radius t1 a c = true.
Proof. exact iqrm_flag_antitone. Qed.
Print Assumptions C16_threshold_antitone_iqrm.

(** all-equal vectors are never flagged, given that the estimator scores a constant vector zero *)
Theorem C16_all_equal_unflagged_mad : forall zs n,
  (forall a v, (forall i, 0 <= i < n -> a i = v) -> forall c, 0 <= c < n -> (zs a c == 0)%Q) ->
  forall a v thr c, (0 < thr)%Q -> (forall i, 0 <= i < n -> a i = v) -> 0 <= c < n -> mad_flag zs thr a c = false.
Proof. exact mad_flag_const. Qed.
Print Assumptions C16_all_equal_unflagged_mad.

Theorem C16_all_equal_unflagged_iqrm : forall zi n,
  (forall a v, (forall i, 0 <= i < n -> a i = v) -> forall c, 0 <= c < n -> (zi a c == 0)%Q) ->
  forall a v radius thr c, (0 < thr)%Q -> (forall i, 0 <= i < n -> a i = v) -> 0 <= c < n ->
  iqrm_flag zi n radius thr a c = false.
Proof. exact iqrm_flag_const. Qed.
Print Assumptions C16_all_equal_unflagged_iqrm.

Theorem C16_nonpositive_threshold_rejected_mad : forall zs a thr, (thr <= 0)%Q -> double_mad_mask zs a thr = None.
Proof. exact double_mad_rejects. Qed.
Print Assumptions C16_nonpositive_threshold_rejected_mad.
Theorem C16_nonpositive_threshold_rejected_iqrm : forall zi n a thr radius ratio oob, (thr <= 0)%Q ->
  iqrm_mask zi n ratio oob a thr radius = None.
Proof. exact iqrm_rejects. Qed.
Print Assumptions C16_nonpositive_threshold_rejected_iqrm.

(** * 3b. The executable estimators (Model/C16_MaskAlg.v, hand models of stats.estimate_zscore with the exact zero tests
       [is_zero] / [zero_scale]) are scale-free: for k > 0 the z-score of element c of k*a is that of a, as rationals.
       Hypothesis, per element: the zero-scale guard does not fire for that element's scale (scale > 2^-126 * largest deviation),
       or the element sits on the location.  [ka k a] is [fun i => k * a i]; [dm_scale] / [iqr_scale] are the scales before the
       guard, [ex_maxdev] the largest deviation, [ex_loc] the median.  Nothing is assumed of n or of a. *)
Theorem C16_doublemad_scale_free : forall k, (0 < k)%Q -> forall n a c,
  zero_scale (dm_scale n a c) (ex_maxdev n a) = false \/ (a c == ex_loc n a)%Q ->
  (zscore_doublemad_exec n (ka k a) c == zscore_doublemad_exec n a c)%Q.
Proof. exact doublemad_scale_free. Qed.
Print Assumptions C16_doublemad_scale_free.

Theorem C16_iqr_scale_free : forall k, (0 < k)%Q -> forall n a c,
  zero_scale (iqr_scale n a) (ex_maxdev n a) = false \/ (a c == ex_loc n a)%Q ->
  (zscore_iqr_exec n (ka k a) c == zscore_iqr_exec n a c)%Q.
Proof. exact iqr_scale_free. Qed.
Print Assumptions C16_iqr_scale_free.

Theorem C16_mad_flag_scale_free : forall k n a thr c, (0 < k)%Q ->
  zero_scale (dm_scale n a c) (ex_maxdev n a) = false \/ (a c == ex_loc n a)%Q ->
  mad_flag (zscore_doublemad_exec n) thr (ka k a) c = mad_flag (zscore_doublemad_exec n) thr a c.
Proof. exact mad_flag_scale_free. Qed.
Print Assumptions C16_mad_flag_scale_free.

(** the side condition is needed for the IQR estimator: with a zero inter-quartile range (here [0;2;0;0;0]) the raw deviation
    is scored; in units twice as small element 1 is flagged at threshold 3, in the original unit it is not *)
Theorem C16_iqr_zero_scale_unit_dependent_refuted :
  exists (k : Q) (n : Z) (a : qvec) (c : Z), (0 < k)%Q /\ 0 <= c < n /\
    zero_scale (iqr_scale n a) (ex_maxdev n a) = true /\ ~ (a c == ex_loc n a)%Q /\
    ~ (zscore_iqr_exec n (ka k a) c == zscore_iqr_exec n a c)%Q /\
    beyond 3 (zscore_iqr_exec n (ka k a) c) = true /\ beyond 3 (zscore_iqr_exec n a c) = false.
Proof. exact iqr_zero_scale_unit_dependent_refuted. Qed.
Print Assumptions C16_iqr_zero_scale_unit_dependent_refuted.

(** the hypothesis is satisfiable for every element of an ordinary vector (both estimators), and of a half-flat one (zero
    one-sided MAD, mean-absolute-deviation fallback) for the double MAD *)
Example C16_scale_free_hypothesis_satisfiable :
  forallb (fun c => negb (zero_scale (dm_scale 6 (qof [1#1; 2#1; 3#1; 4#1; 5#1; 20#1]) c) (ex_maxdev 6 (qof [1#1; 2#1; 3#1; 4#1; 5#1; 20#1])))) (zrange 6) = true /\
  zero_scale (iqr_scale 6 (qof [1#1; 2#1; 3#1; 4#1; 5#1; 20#1])) (ex_maxdev 6 (qof [1#1; 2#1; 3#1; 4#1; 5#1; 20#1])) = false /\
  forallb (fun c => negb (zero_scale (dm_scale 7 (qof [5#1; 5#1; 5#1; 5#1; 4#1; 3#1; 9#1]) c) (ex_maxdev 7 (qof [5#1; 5#1; 5#1; 5#1; 4#1; 3#1; 9#1])))) (zrange 7) = true /\
  blist 6 (mad_flag (zscore_doublemad_exec 6) 3 (ka (1 # 1073741824) (qof [1#1; 2#1; 3#1; 4#1; 5#1; 20#1]))) = [false; false; false; false; false; true].
Proof. vm_compute. repeat split; reflexivity. Qed.

(** * 4. Applying further masks only ever adds channels (every history of public operations) *)
Theorem C16_mask_monotone : forall dmm iqm nchans freqs var skew kurt thr l s c,
  chan_mask s c = true -> chan_mask (run_ops dmm iqm nchans freqs var skew kurt thr s l) c = true.
Proof. exact run_ops_mono. Qed.
Print Assumptions C16_mask_monotone.

(** and chan_mask always contains the three component masks *)
Theorem C16_mask_covers_components : forall dmm iqm nchans freqs var skew kurt thr l,
  covers (run_ops dmm iqm nchans freqs var skew kurt thr RFIMask_init l).
Proof. exact run_ops_covers_init. Qed.
Print Assumptions C16_mask_covers_components.

(** equality with the union is not an invariant of repeated calls (the second apply_mask replaces user_mask) *)
Theorem C16_union_repeated_refuted :
  exists (l : list op) (c : Z),
    let s := run_ops (fun _ _ => Some vfalse) (fun _ _ => Some vfalse) 4 (fun c => inject_Z c) (fun _ => 0%Q) (fun _ => 0%Q) (fun _ => 0%Q) 3%Q
                     RFIMask_init l in
    chan_mask s c = true /\ user_mask s c || stats_mask s c || custom_mask s c = false.
Proof. exact union_repeated_refuted. Qed.
Print Assumptions C16_union_repeated_refuted.

(** * 4b. Extended histories: the threshold attribute assigned between operations ([XThr]), range end points that may be
       infinite ([xq]), any starting mask (e.g. one loaded from a file with channels preset).  [apply_mask_x] is regenerated from
       the same statements of RFIMask.apply_mask as [apply_mask]; the history type [opx] / [run_opsx] is Model/C16_MaskAlg.v *)
Theorem C16_user_mask_x : forall n freqs s fm,
  (forall c, user_mask (apply_mask_x n freqs s fm) c = in_ranges_x (freqs c) fm) /\
  (forall c, chan_mask (apply_mask_x n freqs s fm) c = chan_mask s c || in_ranges_x (freqs c) fm) /\
  stats_mask (apply_mask_x n freqs s fm) = stats_mask s /\
  custom_mask (apply_mask_x n freqs s fm) = custom_mask s.
Proof. exact apply_mask_x_spec. Qed.
Print Assumptions C16_user_mask_x.

Theorem C16_user_mask_x_closed_range : forall f fm,
  in_ranges_x f fm = true <-> exists lo hi, In (lo, hi) fm /\ xq_le lo (XFin f) /\ xq_le (XFin f) hi.
Proof. exact in_ranges_x_closed. Qed.
Print Assumptions C16_user_mask_x_closed_range.

(** with finite end points it is the operation of section 2 *)
Theorem C16_user_mask_x_finite : forall n freqs s fm c,
  chan_mask (apply_mask_x n freqs s (map xfin fm)) c = chan_mask (apply_mask n freqs s fm) c /\
  user_mask (apply_mask_x n freqs s (map xfin fm)) c = user_mask (apply_mask n freqs s fm) c /\
  stats_mask (apply_mask_x n freqs s (map xfin fm)) = stats_mask (apply_mask n freqs s fm) /\
  custom_mask (apply_mask_x n freqs s (map xfin fm)) = custom_mask (apply_mask n freqs s fm).
Proof. exact apply_mask_x_fin. Qed.
Print Assumptions C16_user_mask_x_finite.

(** every extended history, from every starting state, only adds channels *)
Theorem C16_history_monotone : forall dmm iqm nchans freqs var skew kurt l h c,
  chan_mask (h_mask h) c = true -> chan_mask (h_mask (run_opsx dmm iqm nchans freqs var skew kurt h l)) c = true.
Proof. exact run_opsx_mono. Qed.
Print Assumptions C16_history_monotone.

(** and keeps the three component masks inside chan_mask if the starting mask does (a fresh one, or one with extra channels preset) *)
Theorem C16_history_covers : forall dmm iqm nchans freqs var skew kurt l h,
  covers (h_mask h) -> covers (h_mask (run_opsx dmm iqm nchans freqs var skew kurt h l)).
Proof. exact run_opsx_covers. Qed.
Print Assumptions C16_history_covers.

(** the histories of section 4 are the extended histories without [XThr] and with finite end points *)
Theorem C16_history_extends : forall dmm iqm nchans freqs var skew kurt thr s o c,
  let a := h_mask (run_opx dmm iqm nchans freqs var skew kurt (HState s thr) (opx_of o)) in
  let b := run_op dmm iqm nchans freqs var skew kurt thr s o in
  h_thr (run_opx dmm iqm nchans freqs var skew kurt (HState s thr) (opx_of o)) = thr /\
  chan_mask a c = chan_mask b c /\ user_mask a c = user_mask b c /\ stats_mask a = stats_mask b /\ custom_mask a = custom_mask b.
Proof. exact run_opx_of_op. Qed.
Print Assumptions C16_history_extends.

(** * 4c. apply_method after any history uses the threshold the object holds NOW *)
Theorem C16_history_threshold : forall dmm iqm nchans freqs var skew kurt l h,
  h_thr (run_opsx dmm iqm nchans freqs var skew kurt h l) = current_thr (h_thr h) l.
Proof. exact run_opsx_thr. Qed.
Print Assumptions C16_history_threshold.

Theorem C16_stats_mask_current_threshold : forall dmm iqm nchans freqs var skew kurt h l m,
  let h1 := run_opsx dmm iqm nchans freqs var skew kurt h l in
  let t := current_thr (h_thr h) l in
  match apply_method dmm iqm var skew kurt t (h_mask h1) m with
  | Some s' =>
      run_opx dmm iqm nchans freqs var skew kurt h1 (XMethod m) = HState s' t /\
      exists fn mv ms mk, (m = M_mad /\ fn = dmm \/ m = M_iqrm /\ fn = iqm) /\
        fn var t = Some mv /\ fn skew t = Some ms /\ fn kurt t = Some mk /\
        (forall c, stats_mask s' c = mv c || ms c || mk c) /\
        (forall c, chan_mask s' c = chan_mask (h_mask h1) c || stats_mask s' c) /\
        user_mask s' = user_mask (h_mask h1) /\ custom_mask s' = custom_mask (h_mask h1)
  | None => run_opx dmm iqm nchans freqs var skew kurt h1 (XMethod m) = h1
  end.
Proof. exact method_after_history. Qed.
Print Assumptions C16_stats_mask_current_threshold.

(** with the generated double MAD rule: |z| > (current threshold) on variance, skewness or kurtosis *)
Theorem C16_stats_mask_current_threshold_mad : forall zs iqm nchans freqs var skew kurt h l,
  let dmm := mad_fn zs in
  let h1 := run_opsx dmm iqm nchans freqs var skew kurt h l in
  let t := current_thr (h_thr h) l in
  (0 < t)%Q ->
  exists s', run_opx dmm iqm nchans freqs var skew kurt h1 (XMethod M_mad) = HState s' t /\
    forall c, stats_mask s' c = mad_flag zs t var c || mad_flag zs t skew c || mad_flag zs t kurt c.
Proof. exact mad_after_history. Qed.
Print Assumptions C16_stats_mask_current_threshold_mad.

(** non-vacuity: a history that starts with channel 1 preset, applies "mad" at threshold 1000 (nothing), assigns 3 and applies it
    again (channel 4), masks the half line (-inf, 2] (channels 6, 7), applies the integer-valued custom function 6 (1, 5),
    assigns 1000 and applies "iqrm" (statistics mask empty again, chan_mask keeps everything).  Rows: chan_mask, stats_mask
    after every operation, then user_mask and custom_mask *)
Example C16_history_example :
  run_opsx_exec 8 [8#1; 7#1; 6#1; 5#1; 4#1; 3#1; 2#1; 1#1] [1#1; 2#1; 1#1; 3#1; 100#1; 2#1; 1#1; 2#1]
    [0#1; 0#1; 0#1; 0#1; 0#1; 0#1; 0#1; 0#1] [0#1; 0#1; 0#1; 0#1; 0#1; 0#1; 0#1; 0#1] 1000
    [false; true; false; false; false; false; false; false]
    [CXMethod M_mad; CXThr 3; CXMethod M_mad; CXMask [(XNegInf, XFin (2#1))]; CXFuncn 6; CXThr 1000; CXMethod M_iqrm] =
  [[false; true; false; false; false; false; false; false]; [false; false; false; false; false; false; false; false];
   [false; true; false; false; false; false; false; false]; [false; false; false; false; false; false; false; false];
   [false; true; false; false; true; false; false; false];  [false; false; false; false; true; false; false; false];
   [false; true; false; false; true; false; true; true];    [false; false; false; false; true; false; false; false];
   [false; true; false; false; true; true; true; true];     [false; false; false; false; true; false; false; false];
   [false; true; false; false; true; true; true; true];     [false; false; false; false; true; false; false; false];
   [false; true; false; false; true; true; true; true];     [false; false; false; false; false; false; false; false];
   [false; false; false; false; false; false; true; true];  [false; true; false; false; false; true; false; false]].
Proof. vm_compute. reflexivity. Qed.

(** half lines are closed at their finite end and contain everything on the infinite side; an inverted pair is empty *)
Example C16_half_line_example :
  in_ranges_x (2#1) [(XNegInf, XFin (2#1))] = true /\ in_ranges_x (-1000000#1) [(XNegInf, XFin (2#1))] = true /\
  in_ranges_x (5#2) [(XNegInf, XFin (2#1))] = false /\ in_ranges_x (7#1) [(XFin (7#1), XPosInf)] = true /\
  in_ranges_x (7#1) [(XNegInf, XPosInf)] = true /\ in_ranges_x (7#1) [(XPosInf, XNegInf)] = false /\
  current_thr 3 [XMethod M_mad; XThr 5; XMask []; XThr (1#2); XFuncn (fun m => m)] = (1#2)%Q.
Proof. vm_compute. repeat split; reflexivity. Qed.

(** * 5. The kernel: masked channels get the mask value at every sample, everything else is untouched *)
Theorem C16_kernel_spec : forall array mask mv nchans nsamps, 0 <= nchans -> 0 <= nsamps ->
  forall k, mask_channels_run array mask mv nchans nsamps k = clean_spec array mask mv nchans nsamps k.
Proof. exact mask_channels_spec. Qed.
Print Assumptions C16_kernel_spec.

Theorem C16_kernel_masked : forall array mask mv nchans nsamps c s,
  0 <= c < nchans -> 0 <= s < nsamps -> mask c <> 0 ->
  mask_channels_run array mask mv nchans nsamps (nchans * s + c) = mv.
Proof. exact mask_channels_masked. Qed.
Print Assumptions C16_kernel_masked.

Theorem C16_kernel_unmasked : forall array mask mv nchans nsamps c s,
  0 <= nchans -> 0 <= nsamps -> 0 <= c < nchans -> mask c = 0 ->
  mask_channels_run array mask mv nchans nsamps (nchans * s + c) = array (nchans * s + c).
Proof. exact mask_channels_unmasked. Qed.
Print Assumptions C16_kernel_unmasked.

Theorem C16_kernel_outside : forall array mask mv nchans nsamps k,
  0 <= nchans -> 0 <= nsamps -> ~ (0 <= k < nchans * nsamps) ->
  mask_channels_run array mask mv nchans nsamps k = array k.
Proof. exact mask_channels_outside. Qed.
Print Assumptions C16_kernel_outside.

(** * 6. The cleaned file, for every way of cutting the input into blocks (hence every gulp) *)
Theorem C16_cleaned_file_every_partition : forall x stale mask mv nchans lens, 0 < nchans -> Forall (fun n => 0 <= n) lens ->
  forall j, 0 <= j < nchans * total lens ->
  clean_file x stale mask mv nchans lens j = clean_spec x mask mv nchans (total lens) j.
Proof. exact clean_file_spec. Qed.
Print Assumptions C16_cleaned_file_every_partition.

Theorem C16_cleaned_file_every_gulp : forall x stale mask mv nchans n g, 0 < nchans -> 1 <= n -> 1 <= g ->
  forall j, 0 <= j < nchans * n ->
  clean_file x stale mask mv nchans (gulp_lens n g) j = clean_spec x mask mv nchans n j.
Proof. exact clean_file_every_gulp. Qed.
Print Assumptions C16_cleaned_file_every_gulp.

Theorem C16_cleaned_file_length : forall x stale mask mv nchans lens, 0 < nchans -> Forall (fun n => 0 <= n) lens ->
  forall j, ~ (0 <= j < nchans * total lens) -> clean_file x stale mask mv nchans lens j = 0.
Proof. exact clean_file_length. Qed.
Print Assumptions C16_cleaned_file_length.

(** * 7. Sub-byte files (1, 2, 4 bits): unpack, mask, pack; what is re-read is the specification,
       provided the (cast) mask value is representable at the depth *)
Theorem C16_packed_block : forall nb big nbytes bytes mask mv nchans nsamps ubuf pbuf u2,
  In nb [1; 2; 4] -> 0 <= nchans -> 0 <= nsamps -> bf nb * nbytes = nchans * nsamps ->
  (forall i, 0 <= i < nbytes -> 0 <= bytes i < 256) ->
  representable nb mv = true ->
  forall j, 0 <= j < nchans * nsamps ->
  unpack_run nb big nbytes (clean_block_packed nb big nbytes bytes mask mv nchans nsamps ubuf pbuf) u2 j =
  clean_spec (unpack_run nb big nbytes bytes ubuf) mask mv nchans nsamps j.
Proof. exact clean_block_packed_spec. Qed.
Print Assumptions C16_packed_block.

(** the side condition is needed: a mask value outside the depth spills into the neighbouring (unmasked) sample *)
Example C16_packed_unrepresentable_value_refuted :
  representable 2 7 = false /\
  to_list 4 (unpack_run 2 true 1 (clean_block_packed 2 true 1 (of_list [27]) (of_list [0; 1; 0; 0]) 7 4 1 zeros zeros) zeros)
    = [1; 3; 2; 3] /\
  to_list 4 (clean_spec (unpack_run 2 true 1 (of_list [27]) zeros) (of_list [0; 1; 0; 0]) 7 4 1) = [0; 7; 2; 3].
Proof. vm_compute. repeat split; reflexivity. Qed.

(** * Non-vacuity *)
(** clean_rfi returns a mask in which all three sources are non-empty and different *)
Example C16_union_example :
  clean_rfi_exec 8 [8#1; 7#1; 6#1; 5#1; 4#1; 3#1; 2#1; 1#1] [1#1; 2#1; 1#1; 3#1; 100#1; 2#1; 1#1; 2#1]
                 [0#1; 0#1; 0#1; 0#1; 0#1; 0#1; 0#1; 0#1] [0#1; 0#1; 0#1; 0#1; 0#1; 0#1; 0#1; 50#1]
                 M_mad 3 (Some [(2#1, 3#1)]) (Some 1) =
  Some ([true; false; false; false; true; true; true; true],
        [false; false; false; false; false; true; true; false],
        [false; false; false; false; true; false; false; true],
        [true; false; false; false; false; true; true; true]).
Proof. vm_compute. reflexivity. Qed.

(** both ends of a range are inside; a point outside is not *)
Example C16_closed_range_example :
  in_ranges (2#1) [(2#1, 3#1)] = true /\ in_ranges (3#1) [(2#1, 3#1)] = true /\ in_ranges (7#2) [(2#1, 3#1)] = false /\
  in_ranges (5#1) [] = false /\ in_ranges (5#1) [(6#1, 4#1)] = false.
Proof. vm_compute. repeat split; reflexivity. Qed.

(** the locality hypothesis of [C16_iqrm_decision_partial] is met by the executable IQR estimator *)
Example C16_iqrm_hypothesis_satisfiable : forall n a b, (forall i, 0 <= i < n -> a i = b i) ->
  forall c, 0 <= c < n -> zscore_iqr_exec n a c = zscore_iqr_exec n b c.
Proof. exact zscore_iqr_exec_reads_n. Qed.

(** the hypothesis of the all-equal theorems is satisfiable (deviation from the first element), and a planted outlier IS flagged *)
Example C16_all_equal_hypothesis_satisfiable :
  (exists zs : qvec -> qvec, forall (a : qvec) v, (forall i, 0 <= i < 4 -> a i = v) -> forall c, 0 <= c < 4 -> (zs a c == 0)%Q) /\
  blist 6 (mad_flag (zscore_doublemad_exec 6) 3 (qof [1#1; 2#1; 3#1; 4#1; 5#1; 20#1])) = [false; false; false; false; false; true] /\
  blist 6 (mad_flag (zscore_doublemad_exec 6) 3 (qof [5#1; 5#1; 5#1; 5#1; 5#1; 5#1])) = [false; false; false; false; false; false].
Proof. split; [|vm_compute; split; reflexivity].
  exists (fun a c => Qminus (a c) (a 0)). intros a v H c Hc. rewrite (H c Hc), (H 0); [ring|]. split; [apply Z.le_refl|reflexivity]. Qed.

(** the kernel on a concrete block: 3 channels, 2 samples, channel 1 masked; the element after the block is kept *)
Example C16_kernel_example :
  to_list 7 (mask_channels_run (of_list [1; 2; 3; 4; 5; 6; 9]) (of_list [0; 1; 0]) 77 3 2) = [1; 77; 3; 4; 77; 6; 9].
Proof. vm_compute. reflexivity. Qed.

(** the block loop: gulps 1, 3 and 4 on a 4-sample file give the same cleaned file; stale buffer content is never written *)
Example C16_cleaned_file_example :
  let x := of_list [1; 2; 3; 4; 5; 6; 7; 8; 9; 10; 11; 12] in
  gulp_lens 4 3 = [3; 1] /\ gulp_lens 4 9 = [4] /\
  to_list 13 (clean_file x (fun _ => 99) (of_list [0; 1; 0]) 77 3 (gulp_lens 4 1)) = [1; 77; 3; 4; 77; 6; 7; 77; 9; 10; 77; 12; 0] /\
  to_list 13 (clean_file x (fun _ => 99) (of_list [0; 1; 0]) 77 3 (gulp_lens 4 3)) = [1; 77; 3; 4; 77; 6; 7; 77; 9; 10; 77; 12; 0] /\
  to_list 13 (clean_file x (fun _ => 99) (of_list [0; 1; 0]) 77 3 (gulp_lens 4 4)) = [1; 77; 3; 4; 77; 6; 7; 77; 9; 10; 77; 12; 0].
Proof. vm_compute. repeat split; reflexivity. Qed.

(** a 2-bit block: the representable value 3 is written and the neighbours survive the repacking *)
Example C16_packed_example :
  representable 2 3 = true /\
  to_list 4 (unpack_run 2 true 1 (clean_block_packed 2 true 1 (of_list [27]) (of_list [0; 1; 0; 0]) 3 4 1 zeros zeros) zeros) = [0; 3; 2; 3].
Proof. vm_compute. split; reflexivity. Qed.
