(** C10 -- online channel statistics do not depend on how the stream is chunked or merged.
    Only property theorems here; each is closed by [exact] of a lemma from Proofs/C10_moments.v.  Their subject is
    the text of update_moments, update_moments_basic, add_online_moments and the loop structure of
    compute_online_moments(_basic) regenerated from sigpyproc/core/kernels.py (Gen/Moments.v), composed by the hand
    model of ChannelStats (Model/C10_moments.v).  Float arithmetic is modelled exactly over Q (what float32
    rounding adds is bounded by the correspondence and the oracle, not proved); integers wrap as int64/int32.

    Vocabulary:  [hist] = any way of building one channel's accumulator from push_data calls and additions;
    [data h] = the samples it has seen, in order;  [eval full h] = the record it holds (full / basic mode);
    [inv full l s] = count = |l|, m1 = S1/n, m2 = S2 - S1^2/n, m3, m4 the closed forms in raw power sums
    (for the empty stream: all zero);  [hist_ok h] = no integer overflows: every push keeps the count below 2^31 and
    every addition satisfies the side condition [merge_counts_ok] collected by the translator from the integer
    sub-expressions of add_online_moments, and does not add two empty accumulators (0/0);
    [hist_mm full h] = the caller's start indices initialise min/max exactly on the first push of an accumulator
    (what the docstring of push_data prescribes) and both operands of every addition hold samples. *)
From Coq Require Import ZArith QArith List Bool.
Require Import SPP.Model.C10_rt SPP.Gen.Moments SPP.Model.C10_moments SPP.Proofs.C10_moments SPP.Proofs.C10_tree.
Import ListNotations.
Open Scope Q_scope.

(** ** moments: every partition into chunks and every tree of additions *)
Theorem C10_moments_any_history : forall full h, hist_ok h -> inv full (data h) (eval full h).
Proof. exact hist_moments. Qed.
Print Assumptions C10_moments_any_history.

(** two accumulators that have seen the same stream, however chunked or merged, agree: same count, equal m1..m4 *)
Theorem C10_chunking_and_merging_independent : forall full h1 h2, hist_ok h1 -> hist_ok h2 -> data h1 = data h2 ->
  st_agree full (eval full h1) (eval full h2).
Proof. exact hist_independent. Qed.
Print Assumptions C10_chunking_and_merging_independent.

(** the closed forms are the two-pass central sums about the mean *)
Theorem C10_closed_forms_are_two_pass : forall l, l <> [] ->
  let n := z2q (zlen l) in let mu := qmean l in
  c2 n (psum1 l) (psum2 l) == csum2 mu l /\
  c3 n (psum1 l) (psum2 l) (psum3 l) == csum3 mu l /\
  c4 n (psum1 l) (psum2 l) (psum3 l) (psum4 l) == csum4 mu l.
Proof. exact closed_forms_two_pass. Qed.
Print Assumptions C10_closed_forms_are_two_pass.

Theorem C10_record_is_two_pass : forall l s, l <> [] -> inv_full l s ->
  s_cnt s = zlen l /\ s_m1 s == qmean l /\ s_m2 s == csum2 (qmean l) l /\ s_m3 s == csum3 (qmean l) l /\ s_m4 s == csum4 (qmean l) l.
Proof. exact inv_full_two_pass. Qed.
Print Assumptions C10_record_is_two_pass.

Theorem C10_record_is_two_pass_basic : forall l s, l <> [] -> inv_basic l s ->
  s_cnt s = zlen l /\ s_m1 s == qmean l /\ s_m2 s == csum2 (qmean l) l.
Proof. exact inv_basic_two_pass. Qed.
Print Assumptions C10_record_is_two_pass_basic.

(** mean, variance, kurtosis, skewness (square and sign carrier) of ChannelStats(nchans, n) after n samples are the
    two-pass statistics; where the variance is zero the guards yield var = 0, skew = 0, kurtosis = -3 *)
Theorem C10_derived_statistics : forall l s, l <> [] -> inv_full l s ->
  let n := zlen l in let mu := qmean l in
  mean_q s == mu /\ var_q s n == csum2 mu l / z2q n /\
  (~ csum2 mu l == 0 ->
     kurt_q s n == csum4 mu l / (csum2 mu l * csum2 mu l) * z2q n - 3 /\
     skew_sq_q s n == csum3 mu l * csum3 mu l / (csum2 mu l * csum2 mu l * csum2 mu l) * z2q n /\
     skew_num_q s == csum3 mu l) /\
  (csum2 mu l == 0 -> var_q s n == 0 /\ kurt_q s n == - (3) /\ skew_sq_q s n == 0 /\ skew_num_q s == 0).
Proof. exact derived_two_pass. Qed.
Print Assumptions C10_derived_statistics.

Theorem C10_derived_statistics_basic : forall l s, l <> [] -> inv_basic l s ->
  mean_q s == qmean l /\ var_q s (zlen l) == csum2 (qmean l) l / z2q (zlen l).
Proof. exact derived_basic_two_pass. Qed.
Print Assumptions C10_derived_statistics_basic.

(** the guarded divisions of skew / kurtosis never see a zero denominator *)
Theorem C10_guards : forall m, Qeq_bool m 0 = false -> ~ m * m == 0 /\ ~ m * m * m == 0.
Proof. exact guard_denominators. Qed.
Print Assumptions C10_guards.

(** constant channels: m2 = m3 = m4 = 0 exactly, hence zero variance and skewness *)
Theorem C10_constant_channel : forall full c n s, (0 < n)%nat -> inv full (repeat c n) s ->
  s_m1 s == c /\ s_m2 s == 0 /\ (full = true -> s_m3 s == 0 /\ s_m4 s == 0).
Proof. exact constant_zero. Qed.
Print Assumptions C10_constant_channel.

Theorem C10_constant_channel_statistics : forall c n s, (0 < n)%nat -> inv_full (repeat c n) s ->
  var_q s (Z.of_nat n) == 0 /\ skew_sq_q s (Z.of_nat n) == 0 /\ skew_num_q s == 0 /\ kurt_q s (Z.of_nat n) == - (3).
Proof. exact constant_stats. Qed.
Print Assumptions C10_constant_channel_statistics.

(** ** minimum and maximum *)
Theorem C10_minmax_any_history : forall full h, hist_ok h -> hist_mm full h -> data h <> [] ->
  inv_minmax (data h) (eval full h).
Proof. exact hist_minmax. Qed.
Print Assumptions C10_minmax_any_history.

Theorem C10_minmax_independent : forall full h1 h2, hist_ok h1 -> hist_ok h2 -> hist_mm full h1 -> hist_mm full h2 ->
  data h1 = data h2 -> data h1 <> [] ->
  s_min (eval full h1) == s_min (eval full h2) /\ s_max (eval full h1) == s_max (eval full h2).
Proof. exact hist_minmax_independent. Qed.
Print Assumptions C10_minmax_independent.

(** start indices as the docstring prescribes satisfy [hist_mm]: 0 on the first push, non-zero afterwards *)
Theorem C10_conforming_first : forall full k, (0 < k)%Z -> init_of full 0 0 k = true.
Proof. exact init_first. Qed.
Print Assumptions C10_conforming_first.
Theorem C10_conforming_later : forall full f c k, (f <> 0)%Z -> (0 < c)%Z -> (0 < k)%Z -> init_of full f c k = false.
Proof. exact init_later. Qed.
Print Assumptions C10_conforming_later.

(** one accumulator, any partition into non-empty chunks pushed with index 0 first and non-zero indices afterwards *)
Theorem C10_any_partition : forall full f0 c0 cs, f0 = 0%Z -> c0 <> [] -> Forall later_ok cs ->
  (zlen (all_data ((f0, c0) :: cs)) < 2 ^ 31)%Z ->
  let s := push_chunks full ((f0, c0) :: cs) zero_st in
  inv full (all_data ((f0, c0) :: cs)) s /\ inv_minmax (all_data ((f0, c0) :: cs)) s.
Proof. exact chunks_spec. Qed.
Print Assumptions C10_any_partition.

(** ** where the integer side condition of an addition holds: always below 2^21 samples in total ... *)
Theorem C10_merge_ok_below_2p21_partial : forall na nb, (0 <= na)%Z -> (0 <= nb)%Z -> (na + nb < 2 ^ 21)%Z -> merge_counts_ok na nb.
Proof. exact merge_counts_ok_small. Qed.
Print Assumptions C10_merge_ok_below_2p21_partial.

(** ... and up to the int32 range of the count unless the code computes integer powers of the count (pinned tree:
    c["count"] ** 3 wraps in int64 from 2^21 samples on; the second disjunct is then proved by the witness
    2^20 zeros + 2^20 ones, whose merged m4 is not the fourth central sum) *)
Theorem C10_merge_int32_or_refuted :
  (forall na nb, (0 <= na)%Z -> (0 <= nb)%Z -> (na + nb < 2 ^ 31)%Z -> merge_counts_ok na nb) \/ overflow_counterexample.
Proof. exact merge_int32_or_counterexample. Qed.
Print Assumptions C10_merge_int32_or_refuted.

(** ** start index: either min/max are right for every start index of a single accumulator, or (pinned tree:
    initialisation is tied to start_index == 0) a fresh accumulator fed [5] at index 7 reports min 0 *)
Theorem C10_minmax_any_start_or_refuted :
  (forall full h, hist_ok h -> hist_single h -> data h <> [] -> inv_minmax (data h) (eval full h)) \/ start_index_counterexample.
Proof. exact minmax_any_start_or_counterexample. Qed.
Print Assumptions C10_minmax_any_start_or_refuted.

(** ** adding an accumulator without samples: either it is neutral for min/max, or (pinned tree: np.minimum /
    np.maximum with the zero-initialised record) empty + [5] reports min 0 *)
Theorem C10_minmax_empty_side_or_refuted :
  (forall full h, hist_ok h -> hist_mm_e full h -> data h <> [] -> inv_minmax (data h) (eval full h)) \/ empty_side_counterexample.
Proof. exact minmax_empty_side_or_counterexample. Qed.
Print Assumptions C10_minmax_empty_side_or_refuted.

(** ** every history: any tree of additions, any start indices, any chunk lengths (zero-length pushes included), additions
    with one empty side.  [hist_ok] is the hypothesis of the count / moments theorems above: counts below 2^31, the integer side
    condition of the merge, and no addition of two accumulators that are both empty (0/0 in the mean).  Nothing is asked of the
    start indices: the reported minimum / maximum are the minimum / maximum over all samples pushed anywhere in the tree.
    (These three are stated outright, not as dichotomies: on a tree whose kernels tie the extrema to the start index or let an
    empty operand contribute its zeros, Proofs/C10_tree.v stops at gen_init_by_emptiness / gen_empty_neutral_l / _r.) *)
Theorem C10_minmax_any_tree : forall full h, hist_ok h -> data h <> [] -> inv_minmax (data h) (eval full h).
Proof. exact hist_minmax_tree. Qed.
Print Assumptions C10_minmax_any_tree.

Theorem C10_record_any_tree : forall full h, hist_ok h -> data h <> [] ->
  inv full (data h) (eval full h) /\ inv_minmax (data h) (eval full h).
Proof. exact hist_record_tree. Qed.
Print Assumptions C10_record_any_tree.

Theorem C10_minmax_tree_independent : forall full h1 h2, hist_ok h1 -> hist_ok h2 -> data h1 = data h2 -> data h1 <> [] ->
  s_min (eval full h1) == s_min (eval full h2) /\ s_max (eval full h1) == s_max (eval full h2).
Proof. exact hist_minmax_tree_independent. Qed.
Print Assumptions C10_minmax_tree_independent.

(** ** std = np.sqrt(var).  The square root is not rational: [is_std r s n] says that r is a non-negative number whose square
    is the variance the record yields.  For every history the variance is non-negative (the square root is defined: std is never
    NaN), any such r squares to the two-pass variance, it is unique, and it is 0 for a channel without spread.
    Float caveat: ChannelStats.std is the float32 rounding of that root of the float32 variance; what rounding adds is bounded
    by the oracle (std_box in props/c10.py), not proved; existence of r in Q is not claimed. *)
Theorem C10_std_any_history : forall full h, hist_ok h -> data h <> [] ->
  let n := zlen (data h) in let s := eval full h in let v := csum2 (qmean (data h)) (data h) / z2q n in
  0 <= var_q s n /\
  (forall r, is_std r s n -> 0 <= r /\ r * r == v) /\
  (forall r r', is_std r s n -> is_std r' s n -> r == r') /\
  (csum2 (qmean (data h)) (data h) == 0 -> forall r, is_std r s n -> r == 0).
Proof. exact hist_std. Qed.
Print Assumptions C10_std_any_history.

(** ** non-vacuity *)
(** a tree with a zero-length first push at index 3, first samples at index 7, a zero-length push afterwards, an empty left
    operand, and an accumulator that only ever received a zero-length push as right operand *)
Definition ex_t : hist :=
  HAdd (HAdd HNew (HPush 9 [] (HPush 7 [5; 6] (HPush 3 [] HNew)))) (HAdd (HPush 4 [-2 # 1] HNew) (HPush 0 [] HNew)).

Example C10_example_tree :
  hist_ok ex_t /\ data ex_t = [5; 6; -2 # 1] /\ data ex_t <> [] /\
  s_min (eval true ex_t) == -2 # 1 /\ s_max (eval true ex_t) == 6 /\ s_min (eval false ex_t) == -2 # 1 /\ s_max (eval false ex_t) == 6.
Proof.
  split; [|split; [reflexivity|split; [discriminate|vm_compute; repeat split; reflexivity]]].
  cbn [ex_t hist_ok data app].
  assert (M : forall a b, (0 <= a)%Z -> (0 <= b)%Z -> (a + b < 2 ^ 21)%Z -> merge_counts_ok a b) by exact merge_counts_ok_small.
  repeat match goal with
  | |- _ /\ _ => split
  | |- True => exact I
  | |- (_ < _)%Z => vm_compute; reflexivity
  | |- merge_counts_ok _ _ => apply M; vm_compute; try reflexivity; discriminate
  end.
  - right; discriminate.
  - left; discriminate.
  - left; discriminate.
Qed.

(** samples 1 (pushed at index 5) and 3 (pushed at index 2) in two accumulators: variance 1, std 1 *)
Definition ex_s : hist := HAdd (HPush 5 [1] HNew) (HPush 2 [3] HNew).
Example C10_example_std :
  hist_ok ex_s /\ data ex_s <> [] /\ is_std 1 (eval true ex_s) (zlen (data ex_s)) /\ is_std_b 1 (eval false ex_s) 2 = true /\
  csum2 (qmean (data ex_s)) (data ex_s) / z2q 2 == 1.
Proof.
  split; [|split; [discriminate|split; [split; vm_compute; [discriminate|reflexivity]|split; vm_compute; reflexivity]]].
  cbn [ex_s hist_ok data app].
  assert (M : forall a b, (0 <= a)%Z -> (0 <= b)%Z -> (a + b < 2 ^ 21)%Z -> merge_counts_ok a b) by exact merge_counts_ok_small.
  repeat match goal with
  | |- _ /\ _ => split
  | |- True => exact I
  | |- (_ < _)%Z => vm_compute; reflexivity
  | |- merge_counts_ok _ _ => apply M; vm_compute; try reflexivity; discriminate
  end.
  left; discriminate.
Qed.

Definition ex_h : hist :=
  HAdd (HPush 3 [4] (HPush 0 [1; 2] HNew)) (HPush 1 [9 # 2] (HPush 0 [7; -8 # 1] HNew)).

Example C10_example_history :
  hist_ok ex_h /\ hist_mm true ex_h /\ hist_mm false ex_h /\ data ex_h = [1; 2; 4; 7; -8 # 1; 9 # 2] /\
  s_cnt (eval true ex_h) = 6%Z /\ s_m1 (eval true ex_h) == 7 # 4 /\ s_m2 (eval true ex_h) == 1087 # 8 /\
  s_min (eval true ex_h) == -8 # 1 /\ s_max (eval true ex_h) == 7 /\
  s_m2 (eval false ex_h) == 1087 # 8.
Proof.
  split; [|split; [|split]].
  - cbn [ex_h hist_ok data app].
    split; [repeat split; vm_compute; reflexivity|]. split; [repeat split; vm_compute; reflexivity|].
    split; [apply merge_counts_ok_small; vm_compute; try reflexivity; discriminate|left; discriminate].
  - cbn [ex_h hist_mm data app is_nil]. repeat split; try discriminate; vm_compute; reflexivity.
  - cbn [ex_h hist_mm data app is_nil]. repeat split; try discriminate; vm_compute; reflexivity.
  - vm_compute. repeat split; reflexivity.
Qed.

Example C10_example_partition :
  let cs := [(5%Z, [3; 1]); (6%Z, [4])] in
  Forall later_ok cs /\ (zlen (all_data ((0%Z, [2 # 1]) :: cs)) < 2 ^ 31)%Z /\
  s_min (push_chunks true ((0%Z, [2 # 1]) :: cs) zero_st) == 1 /\ s_m2 (push_chunks true ((0%Z, [2 # 1]) :: cs) zero_st) == 5.
Proof.
  cbv zeta. split; [|split; [|split]].
  - repeat constructor; cbn; discriminate.
  - vm_compute. reflexivity.
  - vm_compute. reflexivity.
  - vm_compute. reflexivity.
Qed.

Example C10_example_constant :
  inv_full (repeat (5 # 1) 3) (eval true (HPush 2 [5 # 1] (HPush 0 [5 # 1; 5 # 1] HNew))) /\
  kurt_q (eval true (HPush 2 [5 # 1] (HPush 0 [5 # 1; 5 # 1] HNew))) 3 == - (3).
Proof. split; [|vm_compute; reflexivity]. vm_compute. repeat split; reflexivity. Qed.
