(** C11 -- folding puts every sample in exactly one bin fixed by the phase model.

    Subject: Gen/C11Fold.v, REGENERATED on every run from kernels.fold (loop nest, phase / sub-integration / sub-band
    formulas, float expressions over Q = exact arithmetic), Filterbank.fold (gulp adjustment, skip-back, sub-band clamp,
    the kernel-call arguments: index, total_nsamps, ...; final division; reshape) and TimeSeries.fold; composed with the
    read plan of C01 (Model.Plan.run_plan over Gen.Plan.fil_plan) by the hand glue Model/C11_fold.v.
    [SX fs (t*nchans + c)] is sample t, channel c of the stream; folded sample [a] is counted from the first selected sample
    and reads [SX fs ((start + a + delays c)*nchans + c)].  Only property theorems here, each closed by [exact]. *)
From Coq Require Import ZArith QArith List Bool.
Require Import SPP.Base.Rt SPP.Base.Iter SPP.Gen.Plan SPP.Gen.C11Fold SPP.Model.C11_rt SPP.Model.Stream SPP.Model.Plan SPP.Model.C11_fold
               SPP.Proofs.C11_kernel SPP.Proofs.C11_pipe SPP.Proofs.C11_verdict SPP.Proofs.C11_call SPP.Proofs.C11_train.
Import ListNotations.
Open Scope Z_scope.

(** * the kernel *)

(** kernels.fold adds every (isamp, ichan), isamp < nsamps - maxdelay, to exactly one position of both accumulators:
    cell k gains the sum (resp. the number) of the samples whose pos2 is k -- for all sizes, delays and data *)
Theorem C11_kernel_accumulates : forall inarray f0 c0 delays md tsamp period accel total nsamps nch nbins nints nsubs index k,
  let r := fold_run inarray f0 c0 delays md tsamp period accel total nsamps nch nbins nints nsubs index in
  let pos i c := fold_pos2 tsamp period accel total nch nbins nints nsubs index i c in
  fst r k = f0 k + cellsum nch pos (fun i c => inarray (nch * (i + delays c) + c)) (nsamps - md) k /\
  snd r k = c0 k + cellsum nch pos (fun _ _ => 1) (nsamps - md) k.
Proof. exact fold_run_spec. Qed.
Print Assumptions C11_kernel_accumulates.

(** independent of how bin-edge ties are broken: the same holds for the loop nest with ANY position function *)
Theorem C11_nest_any_binning : forall n m pos val f0 c0 k,
  fst (iter n (acc_out m pos val) (f0, c0)) k = f0 k + sum_n n (fun i => sumif m (fun c => k =? pos i c) (val i)) /\
  snd (iter n (acc_out m pos val) (f0, c0)) k = c0 k + sum_n n (fun i => sumif m (fun c => k =? pos i c) (fun _ => 1)).
Proof. exact acc_out_spec. Qed.
Print Assumptions C11_nest_any_binning.

(** pos2 = subint*nbins*nsubs + phasebin + sub_band*nbins, and it depends on (isamp, index) only through isamp + index *)
Theorem C11_pos2_cell : forall tsamp period accel total nch nbins nints nsubs index isamp ichan,
  0 < total -> 0 < nints -> 0 < nch -> 0 < nsubs ->
  fold_pos2 tsamp period accel total nch nbins nints nsubs index isamp ichan =
  cell_of tsamp period accel total nch nbins nints nsubs (isamp + index) ichan.
Proof. exact fold_pos2_abs. Qed.
Print Assumptions C11_pos2_cell.

(** the sub-integration is floor(a*nints/total): in range for every sample below total -- also when total/nints is
    fractional -- and assigned by time order (sub-integration i holds the consecutive samples i*total <= a*nints < (i+1)*total) *)
Theorem C11_subint_formula : forall total nints index isamp, 0 < total -> 0 < nints ->
  fold_subint total nints index isamp = subint_of total nints (isamp + index).
Proof. exact fold_subint_eq. Qed.
Print Assumptions C11_subint_formula.
Theorem C11_subint_range : forall total nints a, 0 < total -> 0 < nints -> 0 <= a < total -> 0 <= subint_of total nints a < nints.
Proof. exact subint_range. Qed.
Print Assumptions C11_subint_range.
Theorem C11_subint_time_order : forall total nints a i, 0 < total -> subint_of total nints a = i <-> i * total <= a * nints < (i + 1) * total.
Proof. exact subint_iff. Qed.
Print Assumptions C11_subint_time_order.
Theorem C11_subint_monotone : forall total nints a b, 0 < total -> 0 < nints -> a <= b -> subint_of total nints a <= subint_of total nints b.
Proof. exact subint_mono. Qed.
Print Assumptions C11_subint_monotone.

(** the sub-band is floor(c*nsubs/nchans): in range and monotone in the channel for ANY nchans, divisible by nsubs or not;
    with nsubs <= nchans no sub-band stays empty *)
Theorem C11_subband_formula : forall nchans nsubs c, 0 < nchans -> 0 < nsubs -> fold_sub_band nchans nsubs c = subband_of nchans nsubs c.
Proof. exact fold_sub_band_eq. Qed.
Print Assumptions C11_subband_formula.
Theorem C11_subband_range : forall nchans nsubs c, 0 < nchans -> 0 < nsubs -> 0 <= c < nchans -> 0 <= subband_of nchans nsubs c < nsubs.
Proof. exact subband_range. Qed.
Print Assumptions C11_subband_range.
Theorem C11_subband_channel_order : forall nchans nsubs a b, 0 < nchans -> 0 < nsubs -> a <= b -> subband_of nchans nsubs a <= subband_of nchans nsubs b.
Proof. exact subband_mono. Qed.
Print Assumptions C11_subband_channel_order.
Theorem C11_subband_onto : forall nchans nsubs b, 0 < nsubs <= nchans -> 0 <= b < nsubs ->
  exists c, 0 <= c < nchans /\ subband_of nchans nsubs c = b.
Proof. exact subband_onto. Qed.
Print Assumptions C11_subband_onto.

(** the phase bin abs(int(phase)) % nbins is inside [0, nbins) for every phase (any period, acceleration, sign) *)
Theorem C11_phasebin_range : forall tsamp period accel total nbins index isamp, 0 < nbins ->
  0 <= fold_phasebin tsamp period accel total nbins index isamp < nbins.
Proof. exact fold_phasebin_range. Qed.
Print Assumptions C11_phasebin_range.

(** * Filterbank.fold, all gulps and sub-ranges *)

(** accumulator cell k holds the sum / the number of the dedispersed samples (a, c), a < nsamps - maxdelay, whose cell is k;
    any gulp >= 1 (gulp < 2*maxdelay and 2*maxdelay > nsamps included), any delays 0 <= d_c <= maxdelay < nsamps *)
Theorem C11_fold_spec : forall fs nch N gulp start nsamps nn md delays tsamp period accel nbins nints nbands,
  1 <= nfiles fs -> 1 <= nch -> total fs = N * nch -> 0 <= start -> 1 <= nsamps -> start + nsamps <= N -> 1 <= gulp ->
  0 <= md < nsamps -> (forall c, 0 <= c < nch -> 0 <= delays c <= md) -> 1 <= nints -> 1 <= nbands ->
  1 <= fold_total N start nsamps nn ->
  exists f cn, fold_pipe fs nch gulp start nsamps nn md delays tsamp period accel nbins nints nbands = Some (f, cn) /\
    forall k, f k = cellsum nch (pcell nch N start nsamps nn tsamp period accel nbins nints nbands) (pval fs nch start delays) (nsamps - md) k /\
              cn k = cellsum nch (pcell nch N start nsamps nn tsamp period accel nbins nints nbands) (fun _ _ => 1) (nsamps - md) k.
Proof. exact fold_pipe_spec. Qed.
Print Assumptions C11_fold_spec.

(** each (sample, channel) has exactly one cell, inside the arrays: cube[subint, sub_band, phasebin] of the reshaped result *)
Theorem C11_cell_unique : forall nch N start nsamps nn md tsamp period accel nbins nints nbands a c,
  1 <= nch -> 0 <= start -> 1 <= nsamps -> start + nsamps <= N -> (nn = 1 -> nsamps = N - start) -> 0 <= md < nsamps ->
  1 <= nbins -> 1 <= nints -> 1 <= nbands -> 0 <= a < nsamps - md -> 0 <= c < nch ->
  let nb := fold_nbands nbands nch in let tot := fold_total N start nsamps nn in
  let i := subint_of tot nints a in let b := subband_of nch nb c in let p := fold_phasebin tsamp period accel tot nbins 0 a in
  0 <= i < nints /\ 0 <= b < nb /\ 0 <= p < nbins /\
  pcell nch N start nsamps nn tsamp period accel nbins nints nbands a c = cube_index (fold_cube_dims nints nb nbins) i b p /\
  0 <= pcell nch N start nsamps nn tsamp period accel nbins nints nbands a c < fold_ncells nbins nints nb /\
  (forall i' b' p', 0 <= b' < nb -> 0 <= p' < nbins ->
     cube_index (fold_cube_dims nints nb nbins) i' b' p' = pcell nch N start nsamps nn tsamp period accel nbins nints nbands a c -> i' = i /\ b' = b /\ p' = p).
Proof. exact fold_cell_unique. Qed.
Print Assumptions C11_cell_unique.

(** the hit counts sum to the number of samples folded *)
Theorem C11_counts_sum : forall fs nch N gulp start nsamps nn md delays tsamp period accel nbins nints nbands,
  1 <= nfiles fs -> 1 <= nch -> total fs = N * nch -> 0 <= start -> 1 <= nsamps -> start + nsamps <= N -> 1 <= gulp ->
  (nn = 1 -> nsamps = N - start) -> 0 <= md < nsamps -> (forall c, 0 <= c < nch -> 0 <= delays c <= md) ->
  1 <= nbins -> 1 <= nints -> 1 <= nbands ->
  exists f cn, fold_pipe fs nch gulp start nsamps nn md delays tsamp period accel nbins nints nbands = Some (f, cn) /\
    sum_n (Z.to_nat (fold_ncells nbins nints (fold_nbands nbands nch))) cn = (nsamps - md) * nch.
Proof. exact fold_counts_sum. Qed.
Print Assumptions C11_counts_sum.

(** after the final division every cell that received samples is the mean of the samples assigned to it *)
Theorem C11_fold_is_mean : forall fs nch N gulp start nsamps nn md delays tsamp period accel nbins nints nbands,
  1 <= nfiles fs -> 1 <= nch -> total fs = N * nch -> 0 <= start -> 1 <= nsamps -> start + nsamps <= N -> 1 <= gulp ->
  0 <= md < nsamps -> (forall c, 0 <= c < nch -> 0 <= delays c <= md) -> 1 <= nbins -> 1 <= nints -> 1 <= nbands ->
  1 <= fold_total N start nsamps nn ->
  exists f cn, fold_pipe fs nch gulp start nsamps nn md delays tsamp period accel nbins nints nbands = Some (f, cn) /\
    forall k, cn k <> 0 ->
      (cell_mean f cn k * inject_Z (cellsum nch (pcell nch N start nsamps nn tsamp period accel nbins nints nbands) (fun _ _ => 1%Z) (nsamps - md)%Z k)
       == inject_Z (cellsum nch (pcell nch N start nsamps nn tsamp period accel nbins nints nbands) (pval fs nch start delays) (nsamps - md)%Z k))%Q.
Proof. exact fold_is_mean. Qed.
Print Assumptions C11_fold_is_mean.

(** the cube is the same for every gulp *)
Theorem C11_gulp_irrelevant : forall fs nch N g1 g2 start nsamps nn md delays tsamp period accel nbins nints nbands,
  1 <= nfiles fs -> 1 <= nch -> total fs = N * nch -> 0 <= start -> 1 <= nsamps -> start + nsamps <= N -> 1 <= g1 -> 1 <= g2 ->
  0 <= md < nsamps -> (forall c, 0 <= c < nch -> 0 <= delays c <= md) -> 1 <= nbins -> 1 <= nints -> 1 <= nbands ->
  1 <= fold_total N start nsamps nn ->
  exists f1 c1 f2 c2,
    fold_pipe fs nch g1 start nsamps nn md delays tsamp period accel nbins nints nbands = Some (f1, c1) /\
    fold_pipe fs nch g2 start nsamps nn md delays tsamp period accel nbins nints nbands = Some (f2, c2) /\
    forall k, f1 k = f2 k /\ c1 k = c2 k.
Proof. exact fold_gulp_irrelevant. Qed.
Print Assumptions C11_gulp_irrelevant.

(** samples one folding period (L samples, no acceleration) apart share their phase bin ... *)
Theorem C11_phasebin_periodic : forall tsamp L total nbins, (0 < tsamp)%Q -> 0 < L -> 0 < nbins ->
  forall a j period accel, (accel == 0)%Q -> (period == inject_Z L * tsamp)%Q -> 0 <= a -> 0 <= j ->
  fold_phasebin tsamp period accel total nbins 0 (a + j * L) = fold_phasebin tsamp period accel total nbins 0 a.
Proof. exact phasebin_shift. Qed.
Print Assumptions C11_phasebin_periodic.

(** ... so a strictly periodic pulse train in the dedispersed data, folded at its period, leaves every cell outside one
    phase bin empty of signal, in every sub-integration and sub-band *)
Theorem C11_periodic_single_bin : forall fs nch N gulp start nsamps nn md delays tsamp period accel nbins nints nbands,
  1 <= nfiles fs -> 1 <= nch -> total fs = N * nch -> 0 <= start -> 1 <= nsamps -> start + nsamps <= N -> 1 <= gulp ->
  (nn = 1 -> nsamps = N - start) -> 0 <= md < nsamps -> (forall c, 0 <= c < nch -> 0 <= delays c <= md) ->
  1 <= nbins -> 1 <= nints -> 1 <= nbands ->
  forall L a0, (0 < tsamp)%Q -> 0 < L -> (accel == 0)%Q -> (period == inject_Z L * tsamp)%Q -> 0 <= a0 < L ->
  (forall a c, 0 <= a < nsamps - md -> 0 <= c < nch -> a mod L <> a0 -> SX fs ((start + a + delays c) * nch + c) = 0) ->
  exists f cn, fold_pipe fs nch gulp start nsamps nn md delays tsamp period accel nbins nints nbands = Some (f, cn) /\
    forall k, k mod nbins <> fold_phasebin tsamp period accel (fold_total N start nsamps nn) nbins 0 a0 -> f k = 0.
Proof. exact fold_periodic. Qed.
Print Assumptions C11_periodic_single_bin.

(** * which sample count spans the sub-integrations of a sub-range *)

(** a whole-file fold passes the file length ... *)
Theorem C11_full_file_total : forall N nn, 1 <= N -> fold_total N 0 N nn = N.
Proof. exact fold_total_full. Qed.
Print Assumptions C11_full_file_total.

(** ... and in general (verdict over the regenerated call site): either the count passed as total_nsamps is the number of
    selected samples, or the model exhibits a sub-range fold whose last sub-integration receives nothing *)
Theorem C11_subrange_verdict :
  total_is_selection \/
  (fold_total 8 0 4 0 <> 4 /\
   option_map (fun p => to_list 2 (snd p))
     (fold_pipe [mkfile [224] [1; 2; 3; 4; 5; 6; 7; 8]] 1 8 0 4 0 0 (of_list [0]) (1 # 1000) (1 # 100) 0 1 2 1) = Some [4; 0]).
Proof. exact fold_subrange_verdict. Qed.
Print Assumptions C11_subrange_verdict.

(** the delays handed to the kernel satisfy its precondition 0 <= d_c <= maxdelay for every delay vector get_dmdelays can
    return (either band orientation) -- or a negative delay is passed through (verdict over the regenerated call site) *)
Theorem C11_delays_verdict :
  (forall dmin dmax d, dmin <= d <= dmax -> 0 <= fold_delay_of dmin d <= fold_delay_of dmin dmax) \/
  fold_delay_of (-3) (-3) < 0.
Proof. exact fold_delays_verdict. Qed.
Print Assumptions C11_delays_verdict.

(** * TimeSeries.fold *)
Theorem C11_timeseries : forall data size tsamp period accel nbins nints, 1 <= size -> 1 <= nints -> forall k,
  fst (ts_fold data size tsamp period accel nbins nints) k = cellsum 1 (tcell size tsamp period accel nbins nints) (fun a _ => data a) size k /\
  snd (ts_fold data size tsamp period accel nbins nints) k = cellsum 1 (tcell size tsamp period accel nbins nints) (fun _ _ => 1) size k.
Proof. exact ts_fold_spec. Qed.
Print Assumptions C11_timeseries.
Theorem C11_timeseries_counts : forall data size tsamp period accel nbins nints, 1 <= size -> 1 <= nbins -> 1 <= nints ->
  sum_n (Z.to_nat (ts_fold_ncells nbins nints)) (snd (ts_fold data size tsamp period accel nbins nints)) = size.
Proof. exact ts_counts_sum. Qed.
Print Assumptions C11_timeseries_counts.

(** * the whole Filterbank.fold call: from the vector get_dmdelays returns to the accumulators *)

(** [fold_call] = delay shift (regenerated [fold_delay_of], dmin = raw.min()) ; max_delay = max of the shifted delays ; gulp
    adjustment ; skip-back ; read plan over ANY file list ; kernel per block.  [delays_law]: the regenerated shift refers the
    delays to the earliest channel, d - min(0, dmin).  [call_span] = raw.max() - min(0, raw.min()) is the max_delay used. *)
Theorem C11_delays_law_verdict : delays_law \/ fold_delay_of (-3) (-3) < 0.
Proof. exact fold_delays_law_verdict. Qed.
Print Assumptions C11_delays_law_verdict.

(** for every raw delay vector whose smallest entry is not positive -- get_dmdelays is relative to channel 0, raw 0 = 0 -- (entries
    of either sign: either band orientation, positive or negative DM), every file list
    (one file, two files, ...), every gulp >= 1 and every sub-range: accumulator cell k holds the sum / the number of the
    dedispersed samples x[start + a + raw_c - min(0, raw.min()), c], a < nsamps - span, sent to k; the hit counts sum to the
    number of samples folded, (nsamps - span) * nchans, and the cell sums add up to the sum of all samples folded *)
Theorem C11_call_accumulators : forall fs nch N gulp start nsamps nn raw tsamp period accel nbins nints nbands,
  delays_law -> vmin (Z.to_nat nch) raw <= 0 -> 1 <= nfiles fs -> 1 <= nch -> total fs = N * nch -> 0 <= start -> 1 <= nsamps -> start + nsamps <= N -> 1 <= gulp ->
  (nn = 1 -> nsamps = N - start) -> 1 <= nbins -> 1 <= nints -> 1 <= nbands -> call_span nch raw < nsamps ->
  exists f cn, fold_call fs nch gulp start nsamps nn raw tsamp period accel nbins nints nbands = Some (f, cn) /\
    (forall k, f k = cellsum nch (ccell nch N start nsamps nn tsamp period accel nbins nints nbands) (cval fs nch start raw) (nsamps - call_span nch raw) k /\
               cn k = cellsum nch (ccell nch N start nsamps nn tsamp period accel nbins nints nbands) (fun _ _ => 1) (nsamps - call_span nch raw) k) /\
    sum_n (Z.to_nat (fold_ncells nbins nints (fold_nbands nbands nch))) cn = (nsamps - call_span nch raw) * nch /\
    sum_n (Z.to_nat (fold_ncells nbins nints (fold_nbands nbands nch))) f =
      sum_n (Z.to_nat (nsamps - call_span nch raw)) (fun a => sum_n (Z.to_nat nch) (fun c => cval fs nch start raw a c)).
Proof. exact fold_call_spec. Qed.
Print Assumptions C11_call_accumulators.

(** the same without hypothesis on the regenerated call site: it holds, or the shift lets a negative delay through *)
Theorem C11_call_verdict :
  (forall fs nch N gulp start nsamps nn raw tsamp period accel nbins nints nbands,
     vmin (Z.to_nat nch) raw <= 0 -> 1 <= nfiles fs -> 1 <= nch -> total fs = N * nch -> 0 <= start -> 1 <= nsamps -> start + nsamps <= N -> 1 <= gulp ->
     (nn = 1 -> nsamps = N - start) -> 1 <= nbins -> 1 <= nints -> 1 <= nbands -> call_span nch raw < nsamps ->
     exists f cn, fold_call fs nch gulp start nsamps nn raw tsamp period accel nbins nints nbands = Some (f, cn) /\
       (forall k, f k = cellsum nch (ccell nch N start nsamps nn tsamp period accel nbins nints nbands) (cval fs nch start raw) (nsamps - call_span nch raw) k /\
                  cn k = cellsum nch (ccell nch N start nsamps nn tsamp period accel nbins nints nbands) (fun _ _ => 1) (nsamps - call_span nch raw) k) /\
       sum_n (Z.to_nat (fold_ncells nbins nints (fold_nbands nbands nch))) cn = (nsamps - call_span nch raw) * nch /\
       sum_n (Z.to_nat (fold_ncells nbins nints (fold_nbands nbands nch))) f =
         sum_n (Z.to_nat (nsamps - call_span nch raw)) (fun a => sum_n (Z.to_nat nch) (fun c => cval fs nch start raw a c)))
  \/ fold_delay_of (-3) (-3) < 0.
Proof. exact fold_call_verdict. Qed.
Print Assumptions C11_call_verdict.

(** in cube coordinates: element [i, b, p] of the (nints, min(nbands,nchans), nbins) cube holds the sum / the number of exactly
    the samples whose sub-integration (time order) is i, whose channel lies in sub-band b (channel order) and whose phase bin
    (phase formula) is p *)
Theorem C11_call_cube : forall fs nch N gulp start nsamps nn raw tsamp period accel nbins nints nbands,
  delays_law -> vmin (Z.to_nat nch) raw <= 0 -> 1 <= nfiles fs -> 1 <= nch -> total fs = N * nch -> 0 <= start -> 1 <= nsamps -> start + nsamps <= N -> 1 <= gulp ->
  (nn = 1 -> nsamps = N - start) -> 1 <= nbins -> 1 <= nints -> 1 <= nbands -> call_span nch raw < nsamps ->
  exists f cn, fold_call fs nch gulp start nsamps nn raw tsamp period accel nbins nints nbands = Some (f, cn) /\
    forall i b p, 0 <= b < fold_nbands nbands nch -> 0 <= p < nbins ->
      f (cube_index (fold_cube_dims nints (fold_nbands nbands nch) nbins) i b p) =
        cubesum nch (c_si N start nsamps nn nints) (c_sb nch nbands) (c_pb N start nsamps nn tsamp period accel nbins) (cval fs nch start raw) (nsamps - call_span nch raw) i b p /\
      cn (cube_index (fold_cube_dims nints (fold_nbands nbands nch) nbins) i b p) =
        cubesum nch (c_si N start nsamps nn nints) (c_sb nch nbands) (c_pb N start nsamps nn tsamp period accel nbins) (fun _ _ => 1) (nsamps - call_span nch raw) i b p.
Proof. exact fold_call_cube. Qed.
Print Assumptions C11_call_cube.

(** the gulp does not enter the result of the whole call *)
Theorem C11_call_gulp_irrelevant : forall fs nch N gulp start nsamps nn raw tsamp period accel nbins nints nbands,
  delays_law -> vmin (Z.to_nat nch) raw <= 0 -> 1 <= nfiles fs -> 1 <= nch -> total fs = N * nch -> 0 <= start -> 1 <= nsamps -> start + nsamps <= N -> 1 <= gulp ->
  (nn = 1 -> nsamps = N - start) -> 1 <= nbins -> 1 <= nints -> 1 <= nbands -> call_span nch raw < nsamps ->
  forall g2, 1 <= g2 ->
  exists f1 c1 f2 c2,
    fold_call fs nch gulp start nsamps nn raw tsamp period accel nbins nints nbands = Some (f1, c1) /\
    fold_call fs nch g2 start nsamps nn raw tsamp period accel nbins nints nbands = Some (f2, c2) /\
    forall k, f1 k = f2 k /\ c1 k = c2 k.
Proof. exact fold_call_gulp_irrelevant. Qed.
Print Assumptions C11_call_gulp_irrelevant.

(** TimeSeries.fold in cube coordinates (nints, 1, nbins) *)
Theorem C11_timeseries_cube : forall data size tsamp period accel nbins nints, 1 <= size -> 1 <= nbins -> 1 <= nints ->
  forall i p, 0 <= p < nbins ->
  let si a := subint_of size nints a in let pb a := fold_phasebin tsamp period accel size nbins 0 a in
  fst (ts_fold data size tsamp period accel nbins nints) (cube_index (ts_cube_dims nints nbins) i 0 p) = cubesum 1 si (fun _ => 0) pb (fun a _ => data a) size i 0 p /\
  snd (ts_fold data size tsamp period accel nbins nints) (cube_index (ts_cube_dims nints nbins) i 0 p) = cubesum 1 si (fun _ => 0) pb (fun _ _ => 1) size i 0 p.
Proof. exact ts_fold_cube. Qed.
Print Assumptions C11_timeseries_cube.

(** * a strictly periodic pulse train through the whole Filterbank.fold call *)

(** the dedispersed selection x[start + a + raw_c - min(0, raw.min()), c] is zero except at a = a0 (mod L); period = L * tsamp exactly
    (i.e. a float32-exact period/tsamp ratio, as in C11_periodic_single_bin), no acceleration.  For every gulp, every file list and
    delays of either sign: every cell outside one phase bin is empty of signal, whatever nbins *)
Theorem C11_call_periodic : forall fs nch N gulp start nsamps nn raw tsamp period accel nints nbands L a0,
  delays_law -> vmin (Z.to_nat nch) raw <= 0 -> 1 <= nfiles fs -> 1 <= nch -> total fs = N * nch -> 0 <= start -> 1 <= nsamps ->
  start + nsamps <= N -> 1 <= gulp -> (nn = 1 -> nsamps = N - start) -> 1 <= nints -> 1 <= nbands -> call_span nch raw < nsamps ->
  (0 < tsamp)%Q -> 0 < L -> (accel == 0)%Q -> (period == inject_Z L * tsamp)%Q -> 0 <= a0 < L ->
  (forall a c, 0 <= a < nsamps - call_span nch raw -> 0 <= c < nch -> a mod L <> a0 -> cval fs nch start raw a c = 0) ->
  forall nbins, 1 <= nbins ->
  exists f cn, fold_call fs nch gulp start nsamps nn raw tsamp period accel nbins nints nbands = Some (f, cn) /\
    forall k, k mod nbins <> fold_phasebin tsamp period accel (fold_total N start nsamps nn) nbins 0 a0 -> f k = 0.
Proof. exact fold_call_periodic. Qed.
Print Assumptions C11_call_periodic.

(** with nbins = L (one sample of misplacement = one bin): in EVERY (sub-integration i, sub-band b) of the cube every bin p <> a0 is
    empty and bin a0 holds the sum of ALL samples of the selection that fall in (i, b), i.e. of every pulse there -- exactly one bin
    is lit wherever a pulse fell; and the hit count of bin p is the number of samples a = p (mod L) of (i, b) *)
Theorem C11_call_train : forall fs nch N gulp start nsamps nn raw tsamp period accel nints nbands L a0,
  delays_law -> vmin (Z.to_nat nch) raw <= 0 -> 1 <= nfiles fs -> 1 <= nch -> total fs = N * nch -> 0 <= start -> 1 <= nsamps ->
  start + nsamps <= N -> 1 <= gulp -> (nn = 1 -> nsamps = N - start) -> 1 <= nints -> 1 <= nbands -> call_span nch raw < nsamps ->
  (0 < tsamp)%Q -> 0 < L -> (accel == 0)%Q -> (period == inject_Z L * tsamp)%Q -> 0 <= a0 < L ->
  (forall a c, 0 <= a < nsamps - call_span nch raw -> 0 <= c < nch -> a mod L <> a0 -> cval fs nch start raw a c = 0) ->
  exists f cn, fold_call fs nch gulp start nsamps nn raw tsamp period accel L nints nbands = Some (f, cn) /\
    forall i b, 0 <= b < fold_nbands nbands nch ->
      (forall p, 0 <= p < L -> p <> a0 -> f (cube_index (fold_cube_dims nints (fold_nbands nbands nch) L) i b p) = 0) /\
      f (cube_index (fold_cube_dims nints (fold_nbands nbands nch) L) i b a0) =
        cubesum nch (c_si N start nsamps nn nints) (c_sb nch nbands) (fun _ => a0) (cval fs nch start raw) (nsamps - call_span nch raw) i b a0 /\
      (forall p, 0 <= p < L ->
         cn (cube_index (fold_cube_dims nints (fold_nbands nbands nch) L) i b p) =
           cubesum nch (c_si N start nsamps nn nints) (c_sb nch nbands) (fun a => a mod L) (fun _ _ => 1) (nsamps - call_span nch raw) i b p).
Proof. exact fold_call_train. Qed.
Print Assumptions C11_call_train.

(** * non-vacuity *)

(** 12 samples x 2 channels, delays (0,1), gulp 3 (several overlapping blocks), 2 bins x 2 sub-integrations x 2 sub-bands;
    the same cube for gulps 1, 3 and 50; counts sum to (12-1)*2 *)
Example C11_example :
  let fs := [mkfile [224] [1;2;3;4;5;6;7;8;9;10;11;12;13;14;15;16;17;18;19;20;21;22;23;24]] in
  let run g := option_map (fun p => (to_list 8 (fst p), to_list 8 (snd p)))
                 (fold_pipe fs 2 g 0 12 0 1 (of_list [0; 1]) (1 # 1000) (137 # 10000) 0 2 2 2) in
  run 3 = Some ([16; 20; 28; 26; 0; 85; 0; 100], [4; 2; 4; 2; 0; 5; 0; 5]) /\ run 1 = run 3 /\ run 50 = run 3.
Proof. vm_compute. repeat split; reflexivity. Qed.

(** the hypotheses of C11_periodic_single_bin are satisfiable: pulses every 4 samples, period = 4 * tsamp, 4 bins *)
Example C11_example_periodic :
  let fs := [mkfile [224] [0;0;9;0; 0;0;7;0; 0;0;5;0; 0;0;3;0]] in
  option_map (fun p => to_list 8 (fst p)) (fold_pipe fs 1 5 0 16 0 0 (of_list [0]) (1 # 1000) (4 # 1000) 0 4 2 1)
    = Some [0; 0; 16; 0; 0; 0; 8; 0] /\
  fold_phasebin (1 # 1000) (4 # 1000) 0 16 4 0 2 = 2.
Proof. vm_compute. split; reflexivity. Qed.

(** a fractional total/nints and nchans not divisible by nsubs stay inside the arrays *)
Example C11_example_fractional :
  map (subint_of 10 3) [0; 3; 4; 6; 7; 9] = [0; 0; 1; 1; 2; 2] /\ map (subband_of 5 3) [0; 1; 2; 3; 4] = [0; 0; 1; 1; 2].
Proof. vm_compute. split; reflexivity. Qed.

(** the whole call on TWO files (12 samples x 2 channels cut after sample 7), NEGATIVE raw delays (0, -2): shift 2, span 2;
    the hypotheses of C11_call_accumulators hold; gulps 1, 3 and 50 give the same accumulators as the one-file call;
    counts sum to (12 - 2) * 2 and the cell sums to the sum of the samples folded (a dichotomy like the verdicts, so that the file
    still builds when the regenerated call site passes the delays through unshifted) *)
Example C11_example_call :
 (let xs := [1;2;3;4;5;6;7;8;9;10;11;12;13;14;15;16;17;18;19;20;21;22;23;24] in
  let raw := of_list [0; -2] in
  let run fs g := option_map (fun p => (to_list 8 (fst p), to_list 8 (snd p)))
                    (fold_call fs 2 g 0 12 0 raw (1 # 1000) (137 # 10000) 0 2 2 2) in
  let two := split_files xs 14 in
  nfiles two = 2 /\ total two = 12 * 2 /\ vmin 2 raw <= 0 /\ call_shift 2 raw = -2 /\ call_span 2 raw = 2 /\ call_span 2 raw < 12 /\
  run two 3 = Some ([32; 28; 20; 22; 0; 80; 0; 68], [4; 2; 4; 2; 0; 4; 0; 4]) /\
  run two 1 = run two 3 /\ run two 50 = run two 3 /\ run (split_files xs 0) 3 = run two 3 /\
  fold_right Z.add 0 [4; 2; 4; 2; 0; 4; 0; 4] = (12 - 2) * 2)
 \/ fold_delay_of (-3) (-3) < 0.
Proof. first [ left; vm_compute; repeat split; try reflexivity; discriminate | right; vm_compute; reflexivity ]. Qed.

(** one channel (delay vector [0], any DM): 10 samples, 2 bins x 2 sub-integrations x min(3, 1) sub-bands *)
Example C11_example_onechan :
  option_map (fun p => (to_list 4 (fst p), to_list 4 (snd p)))
    (fold_call [mkfile [224] [1;2;3;4;5;6;7;8;9;10]] 1 4 0 10 1 (of_list [0]) (1 # 1000) (137 # 10000) 0 2 2 3)
  = Some ([10; 5; 0; 40], [4; 1; 0; 5]) /\ call_span 1 (of_list [0]) = 0.
Proof. vm_compute. split; reflexivity. Qed.

(** cube coordinates: TimeSeries.fold of 8 samples into (2, 1, 2) *)
Example C11_example_ts_cube :
  let r := ts_fold (of_list [1;2;3;4;5;6;7;8]) 8 (1 # 1000) (137 # 10000) 0 2 2 in
  map (fun ip => fst r (cube_index (ts_cube_dims 2 2) (fst ip) 0 (snd ip))) [(0,0); (0,1); (1,0); (1,1)] =
  map (fun ip => cubesum 1 (fun a => subint_of 8 2 a) (fun _ => 0) (fun a => fold_phasebin (1 # 1000) (137 # 10000) 0 8 2 0 a) (fun a _ => of_list [1;2;3;4;5;6;7;8] a) 8 (fst ip) 0 (snd ip))
      [(0,0); (0,1); (1,0); (1,1)].
Proof. vm_compute. reflexivity. Qed.

(** the hypotheses of C11_call_train are satisfiable: 13 samples x 2 channels in TWO files (cut after sample 5), raw delays (0, -1)
    (shift -1, span 1), pulses every L = 4 dedispersed samples from a0 = 2, period = 4 * tsamp, nbins = 4, 2 sub-integrations x 2
    sub-bands; the train hypothesis holds, and for gulps 1, 3 and 50 bin 2 is positive and every other bin 0 in all four (i, b) *)
Example C11_example_train :
 (let xs := [0;0;0;0;0;3;5;0;0;0;0;0;0;4;7;0;0;0;0;0;0;8;9;0;0;0] in
  let raw := of_list [0; -1] in
  let fs := split_files xs 10 in
  let ok g := match fold_call fs 2 g 0 13 0 raw (1 # 1000) (4 # 1000) 0 4 2 2 with
              | Some (f, _) => forallb (fun i => forallb (fun b => forallb (fun p =>
                                 if p =? 2 then 0 <? f (cube_index (2, 2, 4) i b p) else f (cube_index (2, 2, 4) i b p) =? 0) (zrange 4)) (zrange 2)) (zrange 2)
              | None => false end in
  nfiles fs = 2 /\ total fs = 13 * 2 /\ vmin 2 raw <= 0 /\ call_span 2 raw = 1 /\ ((4 # 1000) == inject_Z 4 * (1 # 1000))%Q /\
  forallb (fun a => forallb (fun c => ((a mod 4) =? 2) || (cval fs 2 0 raw a c =? 0)) (zrange 2)) (zrange 12) = true /\
  existsb (fun a => negb (cval fs 2 0 raw a 0 =? 0)) (zrange 12) = true /\
  ok 1 = true /\ ok 3 = true /\ ok 50 = true)
 \/ fold_delay_of (-3) (-3) < 0.
Proof. first [ left; vm_compute; repeat split; try reflexivity; discriminate | right; vm_compute; reflexivity ]. Qed.
