(** C09 -- generic lemmas about the 2-D prelude (Model/C09_Arr2.v): slice normalisation, loops that may
    raise, row/slice stores, array max/min, circular index arithmetic. *)
From Coq Require Import ZArith List Bool Lia ZifyBool.
Require Import SPP.Base.Rt SPP.Base.Iter SPP.Model.C09_Arr2.
Import ListNotations.
Open Scope Z_scope.

Lemma norm_idx_id dim i : 0 <= i <= dim -> norm_idx dim i = i.
Proof. intro H. unfold norm_idx. destruct (i <? 0) eqn:E; lia. Qed.

Lemma slice_len_id dim lo hi : 0 <= lo -> lo <= hi -> hi <= dim -> slice_len dim lo hi = hi - lo.
Proof. intros. unfold slice_len. rewrite !norm_idx_id by lia. lia. Qed.

Lemma slice_lo_id dim lo hi : 0 <= lo -> lo <= hi -> hi <= dim -> slice_lo dim lo hi = lo.
Proof. intros. unfold slice_lo. now rewrite norm_idx_id by lia. Qed.

(** a loop whose body may raise: if an invariant guarantees that every iteration succeeds and
    re-establishes it, the loop succeeds and the invariant holds at the end *)
Lemma iter_opt_inv {St} (P : Z -> St -> Prop) n (body : Z -> St -> option St) s :
  P 0 s ->
  (forall i t, 0 <= i < Z.of_nat n -> P i t -> exists t', body i t = Some t' /\ P (i + 1) t') ->
  exists r, iter_opt n body s = Some r /\ P (Z.of_nat n) r.
Proof.
  unfold iter_opt. induction n as [|m IH]; intros H0 Hs; cbn [iter].
  - exists s. split; [reflexivity|exact H0].
  - destruct IH as [r [E Pr]]; [exact H0|intros; apply Hs; [lia|assumption]|].
    rewrite E. destruct (Hs (Z.of_nat m) r) as [t' [Eb Pt]]; [lia|exact Pr|].
    exists t'. split; [exact Eb|]. now replace (Z.of_nat (S m)) with (Z.of_nat m + 1) by lia.
Qed.

(** a loop that raises in iteration j (all earlier ones succeeding) raises *)
Lemma iter_opt_fail {St} (P : Z -> St -> Prop) n (body : Z -> St -> option St) s j :
  0 <= j < Z.of_nat n -> P 0 s ->
  (forall i t, 0 <= i < j -> P i t -> exists t', body i t = Some t' /\ P (i + 1) t') ->
  (forall t, P j t -> body j t = None) ->
  iter_opt n body s = None.
Proof.
  intros Hj H0 Hs Hf. unfold iter_opt.
  assert (Hpre : forall m, Z.of_nat m <= j -> exists r, iter m (fun i st => match st with None => None | Some s => body i s end) (Some s) = Some r /\ P (Z.of_nat m) r).
  { induction m as [|m IH]; intro Hm; cbn [iter].
    - exists s; split; [reflexivity|exact H0].
    - destruct IH as [r [E Pr]]; [lia|]. rewrite E.
      destruct (Hs (Z.of_nat m) r) as [t' [Eb Pt]]; [lia|exact Pr|].
      exists t'. split; [exact Eb|]. now replace (Z.of_nat (S m)) with (Z.of_nat m + 1) by lia. }
  assert (Hpost : forall m, j < Z.of_nat m -> iter m (fun i st => match st with None => None | Some s => body i s end) (Some s) = None).
  { induction m as [|m IH]; intro Hm; [lia|]. cbn [iter].
    destruct (Z.eq_dec j (Z.of_nat m)) as [->|Hne].
    - destruct (Hpre m) as [r [E Pr]]; [lia|]. rewrite E. now apply Hf.
    - now rewrite IH by lia. }
  apply Hpost. lia.
Qed.

(** stores *)
Lemma set_slice_row_spec res ncols r lo hi v :
  0 <= lo -> lo <= hi -> hi <= ncols -> fst v = hi - lo ->
  set_slice_row res ncols r lo hi v =
    Some (fun r' c' => if (r' =? r) && (lo <=? c') && (c' <? hi) then snd v (c' - lo) else res r' c').
Proof.
  intros. unfold set_slice_row. rewrite slice_len_id, slice_lo_id by lia.
  replace (hi - lo =? fst v) with true by lia. now replace (lo + (hi - lo)) with hi by lia.
Qed.

Lemma set_slice_row_mismatch res ncols r lo hi v :
  0 <= lo -> lo <= hi -> hi <= ncols -> fst v <> hi - lo -> set_slice_row res ncols r lo hi v = None.
Proof.
  intros. unfold set_slice_row. rewrite slice_len_id by lia. now replace (hi - lo =? fst v) with false by lia.
Qed.

(** the same without function equality: pointwise reading of a successful store *)
Lemma set_row_some res ncols r v : 0 <= ncols -> fst v = ncols ->
  exists res', set_row res ncols r v = Some res' /\
    forall r' c', res' r' c' = if (r' =? r) && (0 <=? c') && (c' <? ncols) then snd v c' else res r' c'.
Proof.
  intros. unfold set_row. rewrite set_slice_row_spec by lia. eexists; split; [reflexivity|].
  intros r' c'. cbv beta. destruct ((r' =? r) && (0 <=? c') && (c' <? ncols)); [f_equal; lia|reflexivity].
Qed.

Lemma set_row_mismatch res ncols r v : 0 <= ncols -> fst v <> ncols -> set_row res ncols r v = None.
Proof. intros. unfold set_row. apply set_slice_row_mismatch; lia. Qed.

Lemma slice_row_spec a ncols r lo hi : 0 <= lo -> lo <= hi -> hi <= ncols ->
  slice_row a ncols r lo hi = (hi - lo, fun k => a r (lo + k)).
Proof. intros. unfold slice_row. now rewrite slice_len_id, slice_lo_id by lia. Qed.

(** np.max / np.min *)
Lemma amax_spec n a : 1 <= n ->
  (forall i, 0 <= i < n -> a i <= amax n a) /\ (exists i, 0 <= i < n /\ amax n a = a i).
Proof.
  intro Hn. unfold amax.
  set (body := fun i m => Z.max m (a (i + 1))).
  assert (G : forall k, (forall i, 0 <= i < Z.of_nat k + 1 -> a i <= iter k body (a 0)) /\
                        (exists i, 0 <= i < Z.of_nat k + 1 /\ iter k body (a 0) = a i)).
  { induction k as [|k [IH1 [j [Hj Ej]]]].
    - cbn [iter]. split; [intros i Hi; assert (i = 0) by lia; subst; lia|exists 0; split; [lia|reflexivity]].
    - cbn [iter]. unfold body at 1. unfold body at 2. split.
      + intros i Hi. destruct (Z.eq_dec i (Z.of_nat k + 1)) as [->|Hne]; [lia|].
        specialize (IH1 i ltac:(lia)). fold body. lia.
      + fold body. destruct (Z.max_spec (iter k body (a 0)) (a (Z.of_nat k + 1))) as [[_ ->]|[_ ->]].
        * exists (Z.of_nat k + 1). split; [lia|reflexivity].
        * exists j. split; [lia|exact Ej]. }
  destruct (G (Z.to_nat (n - 1))) as [G1 G2]. rewrite Z2Nat.id in * by lia.
  replace (n - 1 + 1) with n in * by lia. split; assumption.
Qed.

Lemma amin_neg n a : amin n a = - amax n (fun k => - a k).
Proof.
  unfold amin, amax. induction (Z.to_nat (n - 1)) as [|k IH]; cbn [iter]; [lia|]. rewrite IH. lia.
Qed.

Lemma amax_neg n a : amax n (fun k => - a k) = - amin n a.
Proof. rewrite amin_neg. lia. Qed.

Lemma amin_spec n a : 1 <= n ->
  (forall i, 0 <= i < n -> amin n a <= a i) /\ (exists i, 0 <= i < n /\ amin n a = a i).
Proof.
  intro Hn. rewrite amin_neg. destruct (amax_spec n (fun k => - a k) Hn) as [H1 [j [Hj Ej]]]. split.
  - intros i Hi. specialize (H1 i Hi). cbv beta in H1. lia.
  - exists j. split; [exact Hj|]. rewrite Ej. lia.
Qed.

Lemma amax_ext n a b : 1 <= n -> (forall i, 0 <= i < n -> a i = b i) -> amax n a = amax n b.
Proof.
  intros Hn E. unfold amax. rewrite (E 0) by lia.
  apply iter_ext. intros i t Hi. rewrite E by lia. reflexivity.
Qed.

Lemma amin_ext n a b : 1 <= n -> (forall i, 0 <= i < n -> a i = b i) -> amin n a = amin n b.
Proof.
  intros Hn E. rewrite !amin_neg. f_equal. apply amax_ext; [exact Hn|]. intros i Hi. now rewrite E.
Qed.

(** 2-D max / min *)
Lemma amax2_spec nr nc a : 1 <= nr -> 1 <= nc ->
  (forall i k, 0 <= i < nr -> 0 <= k < nc -> a i k <= amax2 nr nc a) /\
  (exists i k, 0 <= i < nr /\ 0 <= k < nc /\ amax2 nr nc a = a i k).
Proof.
  intros Hr Hc. unfold amax2. destruct (amax_spec nr (fun r => amax nc (a r)) Hr) as [H1 [i [Hi Ei]]]. split.
  - intros r k Hr' Hk. specialize (H1 r Hr'). cbv beta in H1.
    destruct (amax_spec nc (a r) Hc) as [H2 _]. specialize (H2 k Hk). lia.
  - destruct (amax_spec nc (a i) Hc) as [_ [k [Hk Ek]]]. exists i, k. repeat split; lia.
Qed.

Lemma amin2_spec nr nc a : 1 <= nr -> 1 <= nc ->
  (forall i k, 0 <= i < nr -> 0 <= k < nc -> amin2 nr nc a <= a i k) /\
  (exists i k, 0 <= i < nr /\ 0 <= k < nc /\ amin2 nr nc a = a i k).
Proof.
  intros Hr Hc. unfold amin2. destruct (amin_spec nr (fun r => amin nc (a r)) Hr) as [H1 [i [Hi Ei]]]. split.
  - intros r k Hr' Hk. specialize (H1 r Hr'). cbv beta in H1.
    destruct (amin_spec nc (a r) Hc) as [H2 _]. specialize (H2 k Hk). lia.
  - destruct (amin_spec nc (a i) Hc) as [_ [k [Hk Ek]]]. exists i, k. repeat split; lia.
Qed.

Lemma amax2_neg nr nc a : 1 <= nr -> amax2 nr nc (fun i k => - a i k) = - amin2 nr nc a.
Proof.
  intro Hr. unfold amax2, amin2. rewrite <- amax_neg. apply amax_ext; [exact Hr|].
  intros i Hi. apply amax_neg.
Qed.

Lemma amin_negf n a : 1 <= n -> amin n (fun k => - a k) = - amax n a.
Proof. intro Hn. rewrite amin_neg. f_equal. apply amax_ext; [exact Hn|]. intros; lia. Qed.

Lemma amin2_neg nr nc a : 1 <= nr -> 1 <= nc -> amin2 nr nc (fun i k => - a i k) = - amax2 nr nc a.
Proof.
  intros Hr Hc. unfold amax2, amin2. rewrite <- amin_negf by exact Hr. apply amin_ext; [exact Hr|].
  intros i Hi. now apply amin_negf.
Qed.

(** circular index: the two-slice copy of roll_block is the rotation *)
Lemma rot_index s nc c : 1 <= nc -> 0 <= c < nc ->
  (c - s) mod nc = if c <? s mod nc then nc - s mod nc + c else c - s mod nc.
Proof.
  intros Hn Hc. rewrite <- Zminus_mod_idemp_r.
  pose proof (Z.mod_pos_bound s nc ltac:(lia)) as Hb. set (sh := s mod nc) in *.
  destruct (c <? sh) eqn:E.
  - replace (c - sh) with (nc - sh + c + (-1) * nc) by lia. rewrite Z_mod_plus_full. apply Z.mod_small. lia.
  - apply Z.mod_small. lia.
Qed.

Lemma mod_add_cancel a b n : 1 <= n -> ((a + b) mod n - b) mod n = a mod n.
Proof.
  intro Hn. rewrite Zminus_mod_idemp_l. f_equal. lia.
Qed.
