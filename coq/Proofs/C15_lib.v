(** C15 -- lemmas about the array library Model/C15_np.v: multi-indices, lanes, materialisation. *)
From Coq Require Import ZArith List Bool QArith Qcanon Qcabs Lia ZifyBool.
Require Import SPP.Base.Rt SPP.Base.Iter SPP.Model.C15_np.
Import ListNotations.
Open Scope Z_scope.

(** * zrange *)
Lemma zrange_S n : zrange (Z.of_nat (S n)) = zrange (Z.of_nat n) ++ (Z.of_nat n :: nil).
Proof. unfold zrange. rewrite !Nat2Z.id. rewrite seq_S, map_app. reflexivity. Qed.

Lemma nth_zrange n i d : 0 <= i < n -> nth (Z.to_nat i) (zrange n) d = i.
Proof. intro H. unfold zrange.
  rewrite nth_indep with (d' := Z.of_nat 0) by (rewrite map_length, seq_length; lia).
  rewrite map_nth, seq_nth by lia. lia. Qed.

(** * in-range multi-indices *)
Fixpoint in_range (sh idx : list Z) : Prop :=
  match sh, idx with
  | [], [] => True
  | d :: sh', i :: idx' => 0 <= i < d /\ in_range sh' idx'
  | _, _ => False
  end.

Lemma in_rangeb_spec sh : forall idx, in_rangeb sh idx = true <-> in_range sh idx.
Proof. induction sh as [|d sh IH]; intros [|i idx]; cbn; try tauto; try (split; [discriminate|tauto]).
  rewrite !andb_true_iff, IH, Z.leb_le, Z.ltb_lt. tauto. Qed.

Definition prod (sh : list Z) : Z := fold_right Z.mul 1 sh.

Lemma flat_map_length_const {A B} (f : A -> list B) l m :
  (forall x, In x l -> length (f x) = m) -> length (flat_map f l) = (length l * m)%nat.
Proof. induction l as [|x l IH]; intro H; [reflexivity|]. cbn [flat_map length]. rewrite app_length, IH, H.
  - lia. - now left. - intros; apply H; now right. Qed.

Lemma all_idx_length sh : (forall d, In d sh -> 0 <= d) -> Z.of_nat (length (all_idx sh)) = prod sh.
Proof. induction sh as [|d sh IH]; intro Hp; cbn [all_idx prod fold_right]; [reflexivity|].
  assert (Hd : 0 <= d) by (apply Hp; now left).
  assert (IH' := IH (fun x Hx => Hp x (or_intror Hx))). fold (prod sh).
  rewrite (flat_map_length_const _ _ (length (all_idx sh))) by (intros; now rewrite map_length).
  rewrite zrange_length. nia. Qed.

Lemma flat_index_acc sh : forall idx acc, in_range sh idx ->
  flat_index sh idx acc = acc * prod sh + flat_index sh idx 0 /\ 0 <= flat_index sh idx 0 < prod sh.
Proof. induction sh as [|d sh IH]; intros [|i idx] acc H; cbn in H; try tauto.
  - cbn. lia.
  - destruct H as [Hi H]. cbn [flat_index prod fold_right]. fold (prod sh).
    destruct (IH idx (acc * d + i) H) as [E1 B]. destruct (IH idx (0 * d + i) H) as [E2 _].
    rewrite E1, E2. split; [ring|]. nia. Qed.

Lemma nth_flat_map_block {A B} (f : Z -> list B) (g : A) n m (d : B) :
  (forall i, 0 <= i < Z.of_nat n -> length (f i) = m) ->
  forall i j, 0 <= i < Z.of_nat n -> (j < m)%nat ->
  nth (Z.to_nat i * m + j) (flat_map f (zrange (Z.of_nat n))) d = nth j (f i) d.
Proof. intros Hl. induction n as [|n IH]; intros i j Hi Hj; [lia|].
  rewrite zrange_S, flat_map_app. cbn [flat_map]. rewrite app_nil_r.
  assert (Hlen : length (flat_map f (zrange (Z.of_nat n))) = (n * m)%nat).
  { clear IH Hi. assert (Hl' : forall i, 0 <= i < Z.of_nat n -> length (f i) = m) by (intros; apply Hl; lia). clear Hl.
    induction n as [|k IHk]; [reflexivity|]. rewrite zrange_S, flat_map_app, app_length. cbn [flat_map].
    rewrite app_nil_r, IHk, Hl' by (intros; try apply Hl'; lia). lia. }
  destruct (Z.eq_dec i (Z.of_nat n)) as [->|Hne].
  - rewrite app_nth2 by (rewrite Hlen; nia). rewrite Hlen. f_equal. lia.
  - rewrite app_nth1 by (rewrite Hlen; nia). apply IH; [intros; apply Hl; lia|lia|assumption]. Qed.

Lemma all_idx_nth sh : (forall d, In d sh -> 0 <= d) -> forall idx, in_range sh idx ->
  nth (Z.to_nat (flat_index sh idx 0)) (all_idx sh) nil = idx.
Proof. induction sh as [|d sh IH]; intros Hp [|i idx] H; cbn in H; try tauto; try reflexivity.
  destruct H as [Hi H]. cbn [all_idx flat_index].
  assert (Hp' : forall x, In x sh -> 0 <= x) by (intros; apply Hp; now right).
  destruct (flat_index_acc sh idx (0 * d + i) H) as [E B]. rewrite E. clear E.
  pose proof (all_idx_length sh Hp') as HL.
  replace (Z.to_nat ((0 * d + i) * prod sh + flat_index sh idx 0))
    with (Z.to_nat i * length (all_idx sh) + Z.to_nat (flat_index sh idx 0))%nat by nia.
  rewrite <- (Z2Nat.id d) by lia.
  rewrite (nth_flat_map_block (A := unit) (fun i => map (cons i) (all_idx sh)) tt (Z.to_nat d) (length (all_idx sh)))
    by (try (intros; now rewrite map_length); lia).
  rewrite nth_indep with (d' := i :: nil) by (rewrite map_length; lia).
  rewrite (map_nth (cons i)). now rewrite IH. Qed.

(** [nd_memo] preserves the shape and every element (at every multi-index, in range or not) *)
Lemma nd_memo_shape A : shape (nd_memo A) = shape A.
Proof. unfold nd_memo. now destruct (forallb _ _). Qed.

Lemma nd_memo_get A idx : get (nd_memo A) idx = get A idx.
Proof. unfold nd_memo. destruct (forallb (fun d => 0 <=? d) (shape A)) eqn:Hp; [|reflexivity].
  assert (Hp' : forall d, In d (shape A) -> 0 <= d) by (intros d Hd; rewrite forallb_forall in Hp; specialize (Hp d Hd); lia).
  cbn [get]. destruct (in_rangeb (shape A) idx) eqn:E; [|reflexivity].
  apply in_rangeb_spec in E. unfold ravel, nthq.
  destruct (flat_index_acc (shape A) idx 0 E) as [_ B].
  pose proof (all_idx_length (shape A) Hp') as HL.
  rewrite nth_indep with (d' := get A nil) by (rewrite map_length; lia).
  rewrite map_nth. now rewrite all_idx_nth. Qed.

(** * memo-transparent access: everything below is stated for an arbitrary [memo] that preserves shape and
    elements; [nd_memo] (on arrays with non-negative dimensions) and the identity are instances *)
Definition memo_ok (memo : nd -> nd) : Prop :=
  forall A, shape (memo A) = shape A /\ forall idx, get (memo A) idx = get A idx.

Lemma memo_ok_id : memo_ok (fun A => A).
Proof. intro A. split; reflexivity. Qed.
Lemma memo_ok_nd_memo : memo_ok nd_memo.
Proof. intro A. split; [apply nd_memo_shape|apply nd_memo_get]. Qed.

(** pointwise equality of arrays *)
Definition nd_eq (A B : nd) : Prop := shape A = shape B /\ forall idx, get A idx = get B idx.
Lemma nd_eq_refl A : nd_eq A A. Proof. split; reflexivity. Qed.
Lemma nd_eq_sym A B : nd_eq A B -> nd_eq B A. Proof. intros [H1 H2]. split; [now symmetry|intro; now rewrite H2]. Qed.
Lemma nd_eq_trans A B C : nd_eq A B -> nd_eq B C -> nd_eq A C.
Proof. intros [H1 H2] [H3 H4]. split; [congruence|intro; now rewrite H2, H4]. Qed.

Lemma lane_eq A B k idx : nd_eq A B -> lane A k idx = lane B k idx.
Proof. intros [Hs Hg]. unfold lane. rewrite Hs. apply map_ext. intro; apply Hg. Qed.
Lemma ravel_eq A B : nd_eq A B -> ravel A = ravel B.
Proof. intros [Hs Hg]. unfold ravel. rewrite Hs. apply map_ext. intro; apply Hg. Qed.
Lemma ndim_eq A B : nd_eq A B -> ndim A = ndim B.
Proof. intros [Hs _]. unfold ndim. now rewrite Hs. Qed.
Lemma size_eq A B : nd_eq A B -> size A = size B.
Proof. intros [Hs _]. unfold size. now rewrite Hs. Qed.
Lemma norm_axis_eq A B k : nd_eq A B -> norm_axis A k = norm_axis B k.
Proof. intro H. unfold norm_axis. now rewrite (ndim_eq _ _ H). Qed.

Lemma np_reduce_eq f A B axis kd : nd_eq A B -> nd_eq (np_reduce f A axis kd) (np_reduce f B axis kd).
Proof. intro H. pose proof H as [Hs Hg]. destruct axis as [k|]; cbn [np_reduce].
  - unfold reduce_axis. rewrite (norm_axis_eq _ _ k H). destruct kd; (split; cbn [shape get]; [now rewrite Hs|]);
      intro idx; now rewrite (lane_eq _ _ _ _ H).
  - unfold reduce_all. split; cbn [shape get]; [now rewrite Hs|]. intro. now rewrite (ravel_eq _ _ H). Qed.

Lemma nd_map_eq f A B : nd_eq A B -> nd_eq (nd_map f A) (nd_map f B).
Proof. intros [Hs Hg]. split; cbn; [assumption|intro; now rewrite Hg]. Qed.
Lemma nd_map2_eq op A B A' B' : nd_eq A A' -> nd_eq B B' -> nd_eq (nd_map2 op A B) (nd_map2 op A' B').
Proof. intros [Hs Hg] [Hs' Hg']. split; cbn; [now rewrite Hs, Hs'|]. intro. now rewrite Hs, Hs', Hg, Hg'. Qed.
Lemma nd_map3_eq op A B C A' B' C' : nd_eq A A' -> nd_eq B B' -> nd_eq C C' ->
  nd_eq (nd_map3 op A B C) (nd_map3 op A' B' C').
Proof. intros [Hs Hg] [Hs' Hg'] [Hs'' Hg'']. split; cbn; [now rewrite Hs, Hs', Hs''|]. intro.
  now rewrite Hs, Hs', Hs'', Hg, Hg', Hg''. Qed.
Lemma np_any_eq A B : nd_eq A B -> np_any A = np_any B.
Proof. intro H. unfold np_any. now rewrite (ravel_eq _ _ H). Qed.
Lemma np_squeeze_eq A B : nd_eq A B -> nd_eq (np_squeeze A) (np_squeeze B).
Proof. intros [Hs Hg]. split; cbn; [now rewrite Hs|]. intro. now rewrite Hs, Hg. Qed.
Lemma np_squeeze_axis_eq A B ax : nd_eq A B -> nd_eq (np_squeeze_axis A ax) (np_squeeze_axis B ax).
Proof. intro H. destruct ax as [k|]; cbn [np_squeeze_axis]; [|now apply np_squeeze_eq].
  rewrite (norm_axis_eq _ _ k H). destruct H as [Hs Hg]. split; cbn; [now rewrite Hs|]. intro. now rewrite Hg. Qed.

Section Memo.
  Variable memo : nd -> nd.
  Hypothesis Hm : memo_ok memo.
  Lemma memo_eq A : nd_eq (memo A) A.
  Proof. exact (Hm A). Qed.
  Lemma memo_shape A : shape (memo A) = shape A. Proof. apply Hm. Qed.
  Lemma memo_get A idx : get (memo A) idx = get A idx. Proof. apply Hm. Qed.
End Memo.

(** * rank-1 and rank-2 facts *)
Lemma all_idx_1 n : all_idx (n :: nil) = map (fun i => i :: nil) (zrange n).
Proof. cbn. induction (zrange n) as [|x l IH]; [reflexivity|]. cbn. now rewrite IH. Qed.

Lemma zrange_vlen_map {A} (l : list A) (f : Z -> A) :
  (forall i, (i < length l)%nat -> f (Z.of_nat i) = nth i l (f (-1))) ->
  map f (zrange (Z.of_nat (length l))) = l.
Proof. revert f. induction l as [|x l IH] using rev_ind; intros f H; [reflexivity|].
  rewrite app_length. cbn [length]. rewrite Nat.add_1_r, zrange_S, map_app. cbn [map]. f_equal.
  - apply IH. intros i Hi. rewrite (H i) by (rewrite app_length; cbn; lia). now rewrite app_nth1.
  - rewrite (H (length l)) by (rewrite app_length; cbn; lia). rewrite app_nth2, Nat.sub_diag by lia. reflexivity. Qed.

Lemma ravel_of_vec l : ravel (of_vec l) = l.
Proof. unfold ravel, of_vec; cbn [shape get]. rewrite all_idx_1, map_map. cbn [hd]. unfold vlen.
  apply (zrange_vlen_map l (fun x => nthq l x)). intros i Hi. unfold nthq. rewrite Nat2Z.id. apply nth_indep. exact Hi. Qed.

Lemma lane_of_vec l i : lane (of_vec l) 0 (i :: nil) = l.
Proof. unfold lane, of_vec; cbn [shape get nth set_nth hd]. unfold vlen.
  apply (zrange_vlen_map l (fun x => nthq l x)). intros j Hj. unfold nthq. rewrite Nat2Z.id. apply nth_indep. exact Hj. Qed.
