(** C17: (1) the one-sub-band delay vector never becomes 0-d once the source restores one dimension; (2) the rotation
    amount of every profile after any history, stated explicitly, and its distance from the dispersion law / the linear
    period drift when the delay functions are nearest-integer roundings of them (the dm-law / period-law anchors). *)
From Coq Require Import ZArith QArith Qround Qabs List Bool Lia Lqa.
Require Import SPP.Base.Rt SPP.Gen.FoldRefs SPP.Model.C17_FoldedCube SPP.Model.C17_Laws SPP.Proofs.C17_rot SPP.Proofs.C17_foldedcube.
Import ListNotations.
Open Scope Z_scope.

(** * shapes: _fph_shifts stays one-dimensional *)
Lemma step_never_0d R nsubints nsubbands nbins tobs F T s o s' : r_dm_1d R = true -> fph_0d s = false ->
  step R nsubints nsubbands nbins tobs F T s o = Some s' -> fph_0d s' = false.
Proof.
  intros H1 Hz H. destruct o as [d|p]; cbn [step] in H.
  - unfold update_dm, get_dmdelays in H. rewrite H1 in H. destruct (Qeq_bool _ 0).
    + destruct (fph_0d s && (0 <? nsubints)); [discriminate|]. inversion H; subst s'. cbn. exact Hz.
    + destruct ((nsubbands =? 0) || (nbins =? 0)); [discriminate|].
      destruct (fph_0d s && (0 <? nsubints)); [discriminate|]. inversion H; subst s'. cbn. apply andb_false_r.
  - unfold update_period, get_pdelays in H.
    destruct (Qeq_bool _ 0 || Qeq_bool _ 0); [discriminate|].
    destruct (Qeq_bool _ 0); inversion H; subst s'; cbn; exact Hz.
Qed.

Lemma never_0d R nsubints nsubbands nbins tobs F T c0 dm0 p0 : r_dm_1d R = true ->
  forall ops s, run R nsubints nsubbands nbins tobs F T ops (init c0 dm0 p0) = Some s -> fph_0d s = false.
Proof.
  intros H1 ops. remember (init c0 dm0 p0) as s0. assert (Hz : fph_0d s0 = false) by (subst; reflexivity). clear Heqs0.
  revert s0 Hz. induction ops as [|o ops IH]; intros s0 Hz s H; cbn [run] in H.
  - now inversion H; subst.
  - destruct (step R nsubints nsubbands nbins tobs F T s0 o) as [s1|] eqn:E; [|discriminate].
    eapply IH; [|exact H]. eapply step_never_0d; eauto.
Qed.

(** one sub-band, any number of sub-integrations and bins: every history runs and ends in the expected cube *)
Lemma one_subband R : sound_refs R = true -> forall nsubints nbins tobs F T c0 dm0 p0 ops, nbins <> 0 -> ~ (p0 == 0)%Q ->
  exists s, run R nsubints 1 nbins tobs F T ops (init c0 dm0 p0) = Some s /\ fph_0d s = false /\
    data s = expected nbins tobs F T c0 dm0 p0 (final_dm ops dm0) (final_period ops p0) /\
    length (data s) = length c0 /\ (forall i, length (nth i (data s) []) = length (nth i c0 [])).
Proof.
  intros HR nsubints nbins tobs F T c0 dm0 p0 ops Hb Hp.
  destruct (sound_history_independent R HR nsubints 1 nbins tobs F T c0 dm0 p0 ops) as (s & Hr & Hd & _); [lia|exact Hb|exact Hp|].
  exists s. split; [exact Hr|]. split.
  - apply (never_0d R nsubints 1 nbins tobs F T c0 dm0 p0) with (ops := ops); [|exact Hr].
    unfold sound_refs in HR. apply andb_true_iff in HR. tauto.
  - split; [exact Hd|]. destruct (history_multiset R nsubints 1 nbins tobs F T c0 dm0 p0 ops s Hr) as (A & B & _). auto.
Qed.

(** * rotation amounts *)
Lemma rotation_amounts R : sound_refs R = true ->
  forall nsubints nsubbands nbins tobs F T c0 dm0 p0 ops, nsubbands <> 0 -> nbins <> 0 -> ~ (p0 == 0)%Q ->
  exists s, run R nsubints nsubbands nbins tobs F T ops (init c0 dm0 p0) = Some s /\
    forall i b, prof (data s) i b =
      rot (dm_shift nbins F dm0 p0 (final_dm ops dm0) (Z.of_nat b) + p_shift nbins tobs T p0 (final_period ops p0) (Z.of_nat i))
          (prof c0 i b).
Proof.
  intros HR nsubints nsubbands nbins tobs F T c0 dm0 p0 ops H1 H2 H3.
  destruct (sound_history_independent R HR nsubints nsubbands nbins tobs F T c0 dm0 p0 ops H1 H2 H3) as (s & Hr & Hd & _).
  exists s. split; [exact Hr|]. intros i b. rewrite Hd. unfold expected. apply prof_rot_cube.
Qed.

Lemma Qnearest_half x : (Qabs (inject_Z (Qnearest x) - x) <= 1#2)%Q.
Proof.
  unfold Qnearest. pose proof (Qfloor_le (x + (1#2))%Q) as A. pose proof (Qlt_floor (x + (1#2))%Q) as B.
  rewrite inject_Z_plus in B. change (inject_Z 1) with 1%Q in B.
  apply Qabs_case; intros _; lra.
Qed.

Lemma law_anchored R : sound_refs R = true ->
  forall K fch1 chanw eps nsubints nsubbands nbins tobs F T c0 dm0 p0 ops, (0 <= eps)%Q ->
  dm_law K fch1 chanw eps F -> p_law nsubints eps T -> nsubbands <> 0 -> nbins <> 0 -> ~ (p0 == 0)%Q ->
  exists s, run R nsubints nsubbands nbins tobs F T ops (init c0 dm0 p0) = Some s /\
    forall i b, exists zd zp, prof (data s) i b = rot (zd + zp) (prof c0 i b) /\
      (Qabs (inject_Z zd - dm_exact K fch1 chanw nbins dm0 p0 (final_dm ops dm0) (Z.of_nat b)) <= (1#2) + eps)%Q /\
      (Qabs (inject_Z zp - p_exact nsubints nbins tobs p0 (final_period ops p0) (Z.of_nat i)) <= (1#2) + eps)%Q.
Proof.
  intros HR K fch1 chanw eps nsubints nsubbands nbins tobs F T c0 dm0 p0 ops He HF HT H1 H2 H3.
  destruct (rotation_amounts R HR nsubints nsubbands nbins tobs F T c0 dm0 p0 ops H1 H2 H3) as (s & Hr & Hp).
  exists s. split; [exact Hr|]. intros i b. eexists _, _. split; [apply Hp|]. split.
  - unfold dm_shift, dm_exact. destruct (Qeq_bool _ 0); [|apply HF]. replace (Qabs (inject_Z 0 - 0)) with 0%Q by reflexivity. lra.
  - unfold p_shift, p_exact. destruct (Qeq_bool _ 0); [|apply HT]. replace (Qabs (inject_Z 0 - 0)) with 0%Q by reflexivity. lra.
Qed.

(** non-vacuity: the exact roundings satisfy the laws with eps = 0 *)
Lemma laws_example K fch1 chanw n :
  dm_law K fch1 chanw 0 (fun d t b => Qnearest (dm_drift K fch1 chanw d t b)) /\ p_law n 0 (fun x i => Qnearest (p_drift n x i)).
Proof.
  assert (H : ((1#2) <= (1#2) + 0)%Q) by (vm_compute; discriminate).
  split; [intros d t b|intros x i]; (eapply Qle_trans; [apply Qnearest_half|exact H]).
Qed.
