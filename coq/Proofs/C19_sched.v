(** C19 -- schedule independence of a parallel-for from footprint disjointness, at the granularity of single
    loads and stores, with value-dependent control and addresses.  Generic (no kernel in here). *)
From Coq Require Import ZArith List Bool Lia.
Require Import SPP.Model.C19_Prog.
Import ListNotations.
Open Scope Z_scope.

Lemma loc_eqb_spec a b : reflect (a = b) (loc_eqb a b).
Proof. destruct a as [a1 a2], b as [b1 b2]. unfold loc_eqb; cbn.
  destruct (Z.eqb_spec a1 b1), (Z.eqb_spec a2 b2); cbn; constructor; congruence. Qed.
Lemma mupd_same m l v : mupd m l v l = v.
Proof. unfold mupd. destruct (loc_eqb_spec l l); congruence. Qed.
Lemma mupd_other m l v j : j <> l -> mupd m l v j = m j.
Proof. unfold mupd. destruct (loc_eqb_spec j l); congruence. Qed.

(** ** sequential semantics *)
Lemma exec_ext {A} (c : cmd A) : forall m m', ext_eq m m' ->
  fst (exec c m) = fst (exec c m') /\ ext_eq (snd (exec c m)) (snd (exec c m')).
Proof. induction c as [a|l k IH|l v k IH]; intros m m' E; cbn.
  - split; [reflexivity|exact E].
  - rewrite (E l). now apply IH.
  - apply IH. intro j. unfold mupd. destruct (loc_eqb j l); auto. Qed.

Lemma run1_ext p m m' : ext_eq m m' -> ext_eq (run1 p m) (run1 p m').
Proof. intro E. apply (exec_ext p m m' E). Qed.

Lemma exec_bind {A B} (c : cmd A) (f : A -> cmd B) : forall m,
  exec (bind c f) m = exec (f (fst (exec c m))) (snd (exec c m)).
Proof. induction c as [a|l k IH|l v k IH]; intro m; cbn; auto. Qed.

(** a counted loop: the last iteration runs after the first n, on their local state and memory *)
Lemma exec_for_from_S {St} n (body : Z -> St -> cmd St) : forall i0 s m,
  exec (for_from i0 (S n) body s) m =
  exec (body (i0 + Z.of_nat n) (fst (exec (for_from i0 n body s) m))) (snd (exec (for_from i0 n body s) m)).
Proof. induction n as [|n IH]; intros i0 s m.
  - cbn [for_from]. rewrite exec_bind. cbn [exec fst snd]. replace (i0 + Z.of_nat 0) with i0 by lia.
    destruct (exec (body i0 s) m); reflexivity.
  - change (for_from i0 (S (S n)) body s) with (bind (body i0 s) (fun s' => for_from (i0 + 1) (S n) body s')).
    rewrite exec_bind, IH.
    change (for_from i0 (S n) body s) with (bind (body i0 s) (fun s' => for_from (i0 + 1) n body s')).
    rewrite exec_bind. replace (i0 + 1 + Z.of_nat n) with (i0 + Z.of_nat (S n)) by lia. reflexivity. Qed.

Lemma seq_run_ext ps : forall m m', ext_eq m m' -> ext_eq (seq_run ps m) (seq_run ps m').
Proof. induction ps as [|p ps IH]; intros m m' E; cbn; [exact E|]. apply IH. now apply run1_ext. Qed.

Lemma seq_run_app a b m : seq_run (a ++ b) m = seq_run b (seq_run a m).
Proof. unfold seq_run. now rewrite fold_left_app. Qed.

Lemma seq_run_cons p ps m : seq_run (p :: ps) m = seq_run ps (run1 p m).
Proof. reflexivity. Qed.
Lemma run1_Rd l k m : run1 (Rd l k) m = run1 (k (m l)) m.
Proof. reflexivity. Qed.
Lemma run1_Wr l v k m : run1 (Wr l v k) m = run1 k (mupd m l v).
Proof. reflexivity. Qed.

Lemma threads_of_S f n : threads_of f (S n) = threads_of f n ++ [f (Z.of_nat n)].
Proof. unfold threads_of. now rewrite seq_S, map_app. Qed.

Lemma threads_of_length f n : length (threads_of f n) = n.
Proof. unfold threads_of. now rewrite map_length, seq_length. Qed.

Lemma threads_of_nth f n i p : nth_error (threads_of f n) i = Some p -> (i < n)%nat /\ p = f (Z.of_nat i).
Proof. intro H. assert (Hi : (i < n)%nat).
  { rewrite <- (threads_of_length f n). apply nth_error_Some. congruence. }
  split; [exact Hi|]. unfold threads_of in H. rewrite nth_error_map in H.
  rewrite (nth_error_nth' _ 0%nat) in H by now rewrite seq_length.
  rewrite seq_nth in H by assumption. cbn in H. congruence. Qed.

(** ** footprints compose *)
Section Footprint.
  Variable P : loc -> Z -> Prop.
  Variables W R : loc -> Prop.

  Lemma fp_bind {A B} (c : cmd A) (f : A -> cmd B) :
    fp P W R c -> (forall a, fp P W R (f a)) -> fp P W R (bind c f).
  Proof. induction 1 as [a|l k Hl Hk IH|l v k Hl Hk IH]; intro Hf; cbn.
    - apply Hf. - constructor; auto. - constructor; auto. Qed.

  (** a load whose value is used afterwards: the continuation may rely on the invariant of that location *)
  Lemma fp_rd_bind {B} l (f : Z -> cmd B) :
    (R l \/ W l) -> (forall v, P l v -> fp P W R (f v)) -> fp P W R (bind (rd l) f).
  Proof. intros Hl Hf. cbn. constructor; assumption. Qed.

  Lemma fp_wr_bind {B} l v (f : unit -> cmd B) :
    W l -> fp P W R (f tt) -> fp P W R (bind (wr l v) f).
  Proof. intros Hl Hf. cbn. constructor; assumption. Qed.

  Lemma fp_for_from {St} n (body : Z -> St -> cmd St) : forall i0 s,
    (forall j t, i0 <= j < i0 + Z.of_nat n -> fp P W R (body j t)) -> fp P W R (for_from i0 n body s).
  Proof. induction n as [|n IH]; intros i0 s Hb; cbn [for_from]; [constructor|].
    apply fp_bind; [apply Hb; lia|]. intro s'. apply IH. intros; apply Hb; lia. Qed.

  Lemma fp_for {St} n (body : Z -> St -> cmd St) s :
    (forall j t, 0 <= j < Z.of_nat n -> fp P W R (body j t)) -> fp P W R (for_ n body s).
  Proof. intro H. apply fp_for_from. intros; apply H; lia. Qed.

  Lemma fp_thread_of {A} (c : cmd A) : fp P W R c -> fp P W R (thread_of c).
  Proof. intro H. apply fp_bind; [exact H|]. intro; constructor. Qed.

  Hypothesis free : forall l v, W l -> P l v.

  (** a thread leaves locations outside W untouched and keeps the invariant *)
  Lemma exec_frame {A} (p : cmd A) : fp P W R p -> forall m, okm P m ->
    okm P (snd (exec p m)) /\ forall l, ~ W l -> snd (exec p m) l = m l.
  Proof. induction 1 as [a|l k Hl Hk IH|l v k Hl Hk IH]; intros m Hm; cbn.
    - split; auto.
    - apply IH; auto.
    - assert (Hm' : okm P (mupd m l v)).
      { intro j. unfold mupd. destruct (loc_eqb_spec j l) as [->|]; auto. }
      destruct (IH _ Hm') as [H1 H2]. split; [exact H1|].
      intros j Hj. rewrite H2 by assumption. apply mupd_other. intros ->; contradiction. Qed.

  (** a store to a location the thread neither loads nor stores commutes with the thread *)
  Lemma run1_commute_write (p : prog) : fp P W R p -> forall m l v, okm P m -> P l v -> ~ W l -> ~ R l ->
    ext_eq (run1 p (mupd m l v)) (mupd (run1 p m) l v).
  Proof. unfold run1. induction 1 as [a|l0 k Hl Hk IH|l0 v0 k Hl Hk IH]; intros m l v Hm Hv HW HR; cbn.
    - intro; reflexivity.
    - assert (l0 <> l) by (intros ->; tauto).
      rewrite mupd_other by assumption. apply IH; auto.
    - assert (l0 <> l) by (intros ->; tauto).
      assert (Hm' : okm P (mupd m l0 v0)).
      { intro j. unfold mupd. destruct (loc_eqb_spec j l0) as [->|]; auto. }
      intro j. rewrite <- (IH (mupd m l0 v0) l v Hm' Hv HW HR j).
      apply (exec_ext k). intro i. unfold mupd.
      destruct (loc_eqb_spec i l0), (loc_eqb_spec i l); congruence. Qed.
End Footprint.

(** ** the parallel-for *)
Section Par.
  Variable P : loc -> Z -> Prop.
  Variables W R : nat -> loc -> Prop.
  (** pairwise: what thread i stores is neither stored nor loaded by any other thread *)
  Hypothesis disj : forall i j l, i <> j -> W i l -> ~ W j l /\ ~ R j l.
  (** stored locations carry no value invariant *)
  Hypothesis free : forall i l v, W i l -> P l v.

  Definition wf_from (o : nat) (ps : list prog) :=
    forall i p, nth_error ps i = Some p -> fp P (W (o + i)) (R (o + i)) p.

  Lemma prefix_okm o A : wf_from o A -> forall m, okm P m -> okm P (seq_run A m).
  Proof. revert o. induction A as [|p A IH]; intros o Hwf m Hm; cbn; [exact Hm|].
    apply (IH (S o)).
    - intros i q Hq. specialize (Hwf (S i) q Hq). now rewrite Nat.add_succ_r in Hwf.
    - specialize (Hwf 0%nat p eq_refl). eapply exec_frame; eauto. Qed.

  Lemma prefix_write o A : wf_from o A -> forall m l v, okm P m -> P l v ->
     (forall i, (i < length A)%nat -> ~ W (o + i) l /\ ~ R (o + i) l) ->
     ext_eq (seq_run A (mupd m l v)) (mupd (seq_run A m) l v).
  Proof. revert o. induction A as [|p A IH]; intros o Hwf m l v Hm Hv Hd; cbn; [intro; reflexivity|].
    assert (Hp : fp P (W o) (R o) p).
    { specialize (Hwf 0%nat p eq_refl). now rewrite Nat.add_0_r in Hwf. }
    intro j. rewrite <- (IH (S o)).
    - apply seq_run_ext. destruct (Hd 0%nat) as [h1 h2]; [cbn; lia|]. rewrite Nat.add_0_r in *.
      apply run1_commute_write with (P := P) (W := W o) (R := R o); auto. apply free.
    - intros i q Hq. specialize (Hwf (S i) q Hq). now rewrite Nat.add_succ_r in Hwf.
    - eapply exec_frame; eauto.
    - exact Hv.
    - intros i Hi. specialize (Hd (S i)). rewrite Nat.add_succ_r in Hd. apply Hd. cbn; lia. Qed.

  Lemma prefix_frame o A : wf_from o A -> forall m l, okm P m ->
    (forall i, (i < length A)%nat -> ~ W (o + i) l) -> seq_run A m l = m l.
  Proof. revert o. induction A as [|p A IH]; intros o Hwf m l Hm Hd; cbn; [reflexivity|].
    assert (Hp : fp P (W o) (R o) p).
    { specialize (Hwf 0%nat p eq_refl). now rewrite Nat.add_0_r in Hwf. }
    destruct (exec_frame P (W o) (R o) (free o) p Hp m Hm) as [Hok Hfr].
    rewrite (IH (S o)).
    - apply Hfr. specialize (Hd 0%nat). rewrite Nat.add_0_r in Hd. apply Hd. cbn; lia.
    - intros i q Hq. specialize (Hwf (S i) q Hq). now rewrite Nat.add_succ_r in Hwf.
    - exact Hok.
    - intros i Hi. specialize (Hd (S i)). rewrite Nat.add_succ_r in Hd. apply Hd. cbn; lia. Qed.

  Lemma wf_app_inv A p B : wf_from 0 (A ++ p :: B) -> wf_from 0 A /\ fp P (W (length A)) (R (length A)) p.
  Proof. intro H; split.
    - intros i q Hq. apply H. rewrite nth_error_app1; auto. apply nth_error_Some. congruence.
    - specialize (H (length A) p). apply H. rewrite nth_error_app2, Nat.sub_diag by lia. reflexivity. Qed.

  Lemma wf_replace A p p' B : wf_from 0 (A ++ p :: B) -> fp P (W (length A)) (R (length A)) p' ->
    wf_from 0 (A ++ p' :: B).
  Proof. intros H Hp i q Hq. destruct (Nat.lt_ge_cases i (length A)).
    - apply H. rewrite nth_error_app1 in * by assumption. exact Hq.
    - rewrite nth_error_app2 in Hq by assumption. destruct (i - length A)%nat eqn:E.
      + cbn in Hq. injection Hq as <-. replace i with (length A) by lia. exact Hp.
      + apply H. rewrite nth_error_app2 by assumption. rewrite E. exact Hq. Qed.

  (** a scheduler step of any thread preserves well-formedness, the invariant, and the memory that the
      remaining programs would produce if run one after the other *)
  Lemma step_preserves c c' : step c c' -> wf_from 0 (fst c) -> okm P (snd c) ->
    wf_from 0 (fst c') /\ okm P (snd c') /\ ext_eq (seq_run (fst c') (snd c')) (seq_run (fst c) (snd c)).
  Proof. destruct 1 as [A B l k m|A B l v k m]; cbn [fst snd]; intros Hwf Hm;
    destruct (wf_app_inv _ _ _ Hwf) as [HA Hp]; inversion Hp; subst.
    - split; [eapply wf_replace; eauto|]. split; [exact Hm|].
      rewrite !seq_run_app, !seq_run_cons, run1_Rd.
      rewrite (prefix_frame 0 A HA m l Hm); [intro; reflexivity|].
      intros i Hi. cbn. match goal with H : R _ l \/ W _ l |- _ => destruct H as [Hr|Hw] end.
      + intro Hw'. destruct (disj i (length A) l (Nat.lt_neq _ _ Hi) Hw') as [_ h]. contradiction.
      + intro Hw'. destruct (disj i (length A) l (Nat.lt_neq _ _ Hi) Hw') as [h _]. contradiction.
    - assert (Hv : P l v) by (eapply free; eauto).
      split; [eapply wf_replace; eauto|]. split.
      { intro j. unfold mupd. destruct (loc_eqb_spec j l) as [->|]; auto. }
      rewrite !seq_run_app, !seq_run_cons, run1_Wr.
      apply seq_run_ext. apply run1_ext. apply (prefix_write 0 A HA); auto.
      intros i Hi. cbn. destruct (disj (length A) i l) as [h1 h2]; [exact (Nat.neq_sym _ _ (Nat.lt_neq _ _ Hi))|assumption|]. tauto. Qed.

  Theorem schedule_independent ps m ps' m' :
    wf_from 0 ps -> okm P m -> steps (ps, m) (ps', m') -> all_done ps' ->
    ext_eq m' (seq_run ps m).
  Proof. intros Hwf Hm Hs. remember (ps, m) as c eqn:Ec. remember (ps', m') as c' eqn:Ec'.
    revert ps m Ec Hwf Hm ps' m' Ec'. induction Hs as [c|c c1 c2 S1 S2 IH]; intros ps m -> Hwf Hm ps' m' E Hd.
    - injection E as <- <-. clear Hwf Hm. revert m. induction Hd as [|p ps Hp Hd IH]; intro m; cbn; [intro; reflexivity|].
      subst p. cbn. apply IH.
    - destruct c1 as [ps1 m1]. destruct (step_preserves _ _ S1 Hwf Hm) as [Hwf1 [Hm1 Heq]]. cbn [fst snd] in *.
      intro l. rewrite (IH ps1 m1 eq_refl Hwf1 Hm1 ps' m' E Hd l). apply Heq. Qed.
End Par.

(** ** packaged for a [prange] loop with [n] iterations whose body is [f i] *)
Theorem prange_schedule_independent (P : loc -> Z -> Prop) (W R : Z -> loc -> Prop) (f : Z -> prog) (n : nat) :
  (forall i, 0 <= i < Z.of_nat n -> fp P (W i) (R i) (f i)) ->
  (forall i j l, 0 <= i < Z.of_nat n -> 0 <= j < Z.of_nat n -> i <> j -> W i l -> ~ W j l /\ ~ R j l) ->
  (forall i l v, 0 <= i < Z.of_nat n -> W i l -> P l v) ->
  forall m ps' m', okm P m -> steps (threads_of f n, m) (ps', m') -> all_done ps' ->
  ext_eq m' (seq_run (threads_of f n) m).
Proof. intros Hfp Hdisj Hfree m ps' m' Hm Hs Hd.
  set (Wn := fun (i : nat) l => (i < n)%nat /\ W (Z.of_nat i) l).
  set (Rn := fun (i : nat) l => (i < n)%nat /\ R (Z.of_nat i) l).
  apply (schedule_independent P Wn Rn) with (ps' := ps'); auto.
  - intros i j l Hij [Hi Hw]. split; intros [Hj Hx];
      destruct (Hdisj (Z.of_nat i) (Z.of_nat j) l) as [h1 h2]; try lia; auto.
  - intros i l v [Hi Hw]. apply (Hfree (Z.of_nat i)); [lia|exact Hw].
  - intros i p Hp. apply threads_of_nth in Hp. destruct Hp as [Hi ->]. cbn.
    assert (H := Hfp (Z.of_nat i) ltac:(lia)).
    clear - H Hi. induction H; constructor; auto.
    + unfold Rn, Wn. tauto.
    + unfold Wn. tauto. Qed.

(** every finished run exists: the index-order schedule itself is one of the schedules (non-vacuity of [steps]) *)
Lemma run_steps (p : prog) : forall A B m, steps (A ++ p :: B, m) (A ++ Done :: B, run1 p m).
Proof. induction p as [[]|l k IH|l v k IH]; intros A B m; unfold run1; cbn.
  - constructor.
  - eapply st_step; [apply s_read|]. apply IH.
  - eapply st_step; [apply s_write|]. apply IH. Qed.

Lemma steps_trans c1 c2 c3 : steps c1 c2 -> steps c2 c3 -> steps c1 c3.
Proof. induction 1; auto. intro. econstructor; eauto. Qed.

Lemma seq_schedule_exists ps : forall A m, all_done A ->
  exists ps', steps (A ++ ps, m) (ps', seq_run ps m) /\ all_done ps'.
Proof. induction ps as [|p ps IH]; intros A m HA.
  - exists A. rewrite app_nil_r. split; [constructor|exact HA].
  - destruct (IH (A ++ [Done]) (run1 p m)) as [ps' [H1 H2]].
    { apply Forall_app; split; [exact HA|repeat constructor]. }
    exists ps'. split; [|exact H2]. eapply steps_trans; [apply run_steps|].
    rewrite <- app_assoc in H1. exact H1. Qed.
