(** C12: the compiled wrappers kernels.nb_rfft / nb_irfft with their optional length (regenerated in Gen/FftOps.v), at the
    series' OWN length (no good-size padding), and which form of FourierSeries.ifft the current source has -- as a regenerated
    flag [fs_ifft_passes_length] whose meaning is proved here for either value (it replaces a conversion probe). *)
From Coq Require Import ZArith List Bool Lia ZifyBool.
Require Import SPP.Base.Rt SPP.Base.Iter SPP.Model.C12_np SPP.Model.C12_conv SPP.Gen.FftOps SPP.Proofs.C12_conv.
Import ListNotations.
Open Scope Z_scope.
Ltac Zify.zify_post_hook ::= Z.to_euclidean_division_equations.

(** * what the regenerated flag means: for either value, by conversion against the regenerated [fs_ifft_run] *)
Lemma fs_ifft_flag_spec :
  if fs_ifft_passes_length then (forall F s h, fs_ifft_run F s h = ifft_given_len F s h)
  else (forall F s h, fs_ifft_run F s h = ifft_default_len F s h).
Proof. cbv [fs_ifft_passes_length]. intros F s h. reflexivity. Qed.

(** FourierSeries.ifft is the wrapper nb_irfft (its default [ifftn]) called with header.nsamples, or without a length *)
Lemma fs_ifft_via_wrapper F s h :
  fs_ifft_run F s h = nb_irfft_run F s (if fs_ifft_passes_length then Some h else None).
Proof. cbv [fs_ifft_passes_length]. reflexivity. Qed.

(** the two forms of Model/C12_conv.v are the wrapper with / without its length *)
Lemma ifft_forms_are_wrapper F s h :
  ifft_given_len F s h = nb_irfft_run F s (Some h) /\ ifft_default_len F s h = nb_irfft_run F s None.
Proof. split; reflexivity. Qed.

Section Laws.
  Variable F : fft_ops.
  Hypothesis laws : fft_laws F.

  (** the round trip through the CURRENT source, for every length, decided by the regenerated flag:
      flag set: the padded series for every transform length; flag clear: the padded series for even transform lengths, N - 1 samples
      (rejected by TimeSeries) for every odd one *)
  Lemma rfft_ifft_roundtrip_live x : 1 <= len x ->
    let '(s, h) := ts_rfft_run F x in
    if fs_ifft_passes_length
    then fs_ifft_run F s h = pad x (fft_good_size F (len x)) /\ ts_check (fs_ifft_run F s h) h = true
    else (Z.even (fft_good_size F (len x)) = true -> fs_ifft_run F s h = pad x (fft_good_size F (len x)) /\ ts_check (fs_ifft_run F s h) h = true) /\
         (Z.odd (fft_good_size F (len x)) = true -> len (fs_ifft_run F s h) = fft_good_size F (len x) - 1 /\ ts_check (fs_ifft_run F s h) h = false /\
                                                    fs_ifft_run F s h <> pad x (fft_good_size F (len x))).
  Proof. intro Hx. pose proof fs_ifft_flag_spec as E. destruct fs_ifft_passes_length.
    - apply (rfft_ifft_roundtrip_given F laws x Hx). intros s h. apply E.
    - pose proof (rfft_ifft_roundtrip_even F laws x Hx) as A. pose proof (ifft_default_len_odd F laws x Hx) as B.
      rewrite ts_rfft_spec in *. split; [exact A|]. intro Ho. rewrite (E F). apply B. exact Ho. Qed.

  (** * the wrappers at the series' own length *)
  (** nb_rfft(x) is nb_rfft(x, len(x)): the input is neither cropped nor padded; len(x)/2+1 bins *)
  Lemma nb_rfft_default x : nb_rfft_run F x None = nb_rfft_run F x (Some (len x)).
  Proof. reflexivity. Qed.

  Lemma nb_rfft_bins x n : 1 <= n -> fft_slen F (nb_rfft_run F x (Some n)) = n / 2 + 1.
  Proof. intro Hn. destruct laws as (_ & _ & _ & H4 & _). unfold nb_rfft_run. apply (H4 x x n Hn). Qed.

  (** nb_irfft(nb_rfft(x, N), N) = x cropped / zero-padded to N, for every N >= 1 (prime, FFT-unfriendly, anything) *)
  Lemma nb_roundtrip_given x N : 1 <= N -> nb_irfft_run F (nb_rfft_run F x (Some N)) (Some N) = pad x N.
  Proof. intro HN. destruct laws as (_ & H2 & _). unfold nb_irfft_run, nb_rfft_run. apply H2. exact HN. Qed.

  (** at the series' own length: nb_irfft(nb_rfft(x), len(x)) = x *)
  Lemma nb_roundtrip_own_length x : 1 <= len x -> nb_irfft_run F (nb_rfft_run F x None) (Some (len x)) = x.
  Proof. intro Hx. rewrite nb_rfft_default, nb_roundtrip_given by exact Hx. apply pad_full. Qed.

  (** the inverse left to its default length 2 (bins - 1): x itself for every EVEN length ... *)
  Lemma nb_roundtrip_default_even x : 1 <= len x -> Z.even (len x) = true -> nb_irfft_run F (nb_rfft_run F x None) None = x.
  Proof. intros Hx He. rewrite nb_rfft_default. unfold nb_irfft_run at 1. rewrite nb_rfft_bins by exact Hx.
    unfold np_irfft_default_len. rewrite Z.even_spec in He. destruct He as [k Hk].
    replace (2 * (len x / 2 + 1 - 1)) with (len x) by lia.
    change (nb_irfft_run F (nb_rfft_run F x (Some (len x))) (Some (len x)) = x).
    rewrite nb_roundtrip_given by exact Hx. apply pad_full. Qed.

  (** ... and one sample short for every ODD length (so not x) *)
  Lemma nb_roundtrip_default_odd x : Z.odd (len x) = true ->
    len (nb_irfft_run F (nb_rfft_run F x None) None) = len x - 1 /\ nb_irfft_run F (nb_rfft_run F x None) None <> x.
  Proof. intro Ho. assert (Hx : 1 <= len x) by (pose proof (len_nonneg x); destruct (len x) eqn:E; cbn in Ho; try discriminate; lia).
    assert (L : len (nb_irfft_run F (nb_rfft_run F x None) None) = len x - 1).
    { rewrite nb_rfft_default. unfold nb_irfft_run. rewrite nb_rfft_bins by exact Hx. unfold np_irfft_default_len.
      destruct laws as (_ & _ & _ & _ & H5). rewrite Z.odd_spec in Ho. destruct Ho as [k Hk]. rewrite H5 by lia. lia. }
    split; [exact L|]. intro E. rewrite E in L. lia. Qed.

  (** a series correlated with ITSELF (the operand aliased): its autocorrelation at lags -(n-1) .. n-1 *)
  Lemma correlate_self x : 1 <= len x -> correlate_run F x x = xcorr_list x x.
  Proof. intro Hx. apply correlate_lags; assumption. Qed.
End Laws.
