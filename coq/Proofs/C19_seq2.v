(** C19 (c), continued -- the index-order sequential run of the generated threads equals the kernel's own sequential
    definition (the functional terms of Gen/Kernels.v, generated from the same source by py2coq.KernelTranslator) for
    remove_zerodm and for the two parallel decimators.  The decimators are compiled from the Python definitions of
    downsample_1d_mean / downsample_2d_mean_flat (njit(f.py_func, parallel=True, ...)): their functional terms are
    downsample_1d_mean_run / downsample_2d_mean_flat_run.  True division is the ONE uninterpreted function [divcast] shared by
    both sides (sound because the regenerated compile options forbid the reciprocal rewrite:
    Props/C19.v, C19_decimation_divides_like_its_definition). *)
From Coq Require Import ZArith List Bool Lia.
Require Import SPP.Base.Rt SPP.Base.Iter SPP.Gen.Kernels.
Require Import SPP.Model.C19_Prog SPP.Gen.C19Threads SPP.Model.C19_Footprints SPP.Proofs.C19_sched SPP.Proofs.C19_seq.
Require Import SPP.Proofs.C19_kernels.
Import ListNotations.
Open Scope Z_scope.

(** a counted loop whose body only loads: the memory is unchanged and the local state follows the pure loop *)
Lemma exec_for_pure {St} n (body : Z -> St -> cmd St) (g : Z -> St -> St) m :
  (forall j t, 0 <= j < Z.of_nat n -> exec (body j t) m = (g j t, m)) ->
  forall s, exec (for_ n body s) m = (iter n g s, m).
Proof. unfold for_. induction n as [|n IH]; intros H s; [reflexivity|].
  rewrite exec_for_from_S, IH by (intros; apply H; lia). cbn [fst snd].
  rewrite Z.add_0_l, H by lia. reflexivity. Qed.

(** * remove_zerodm *)
Lemma remove_zerodm_seq nchans nsamps m k :
  seq_run (remove_zerodm_threads nchans nsamps) m (remove_zerodm_ID_outarray, k) =
  remove_zerodm_run (arr_of m remove_zerodm_ID_inarray) (arr_of m remove_zerodm_ID_outarray)
     (arr_of m remove_zerodm_ID_bpass) (arr_of m remove_zerodm_ID_chanwts) nchans nsamps k.
Proof. unfold remove_zerodm_threads, remove_zerodm_trip, remove_zerodm_run. cbv zeta.
  set (inarray := arr_of m remove_zerodm_ID_inarray). set (bpass := arr_of m remove_zerodm_ID_bpass).
  set (chanwts := arr_of m remove_zerodm_ID_chanwts).
  set (Z0 := fun isamp => iter (Z.to_nat nchans) (fun ichan zerodm => zerodm + inarray (nchans * isamp + ichan)) 0).
  set (G := fun isamp ichan (outarray : arr) => upd outarray (nchans * isamp + ichan)
               ((inarray (nchans * isamp + ichan) - Z0 isamp * chanwts ichan) + bpass ichan)).
  set (F := fun isamp outarray => iter (Z.to_nat nchans) (G isamp) outarray).
  pose (I := fun (j : Z) (m' : mem) => (forall l, fst l <> remove_zerodm_ID_outarray -> m' l = m l) /\
              forall k, m' (remove_zerodm_ID_outarray, k) = iter (Z.to_nat j) F (arr_of m remove_zerodm_ID_outarray) k).
  assert (H : I (Z.of_nat (Z.to_nat nsamps)) (seq_run (threads_of (remove_zerodm_thread nchans nsamps) (Z.to_nat nsamps)) m)).
  { apply seq_run_threads_inv.
    - split; [reflexivity|]. intro; reflexivity.
    - intros i m' Hi [Hfr Hout]. unfold remove_zerodm_thread, remove_zerodm_body. rewrite run1_thread_of. cbv zeta.
      rewrite exec_bind.
      rewrite (exec_for_pure _ _ (fun ichan zerodm => zerodm + inarray (nchans * i + ichan)) m').
      2:{ intros j t Hj. cbn [bind rd exec]. rewrite (Hfr (remove_zerodm_ID_inarray, nchans * i + j)) by discriminate. reflexivity. }
      cbn [fst snd]. change (iter (Z.to_nat nchans) (fun ichan zerodm => zerodm + inarray (nchans * i + ichan)) 0) with (Z0 i).
      rewrite exec_bind. cbn [exec snd].
      match goal with |- I _ (snd (exec (for_ ?n ?b ?s) m')) =>
        pose proof (exec_for_inv n b (fun j _ m'' => (forall l, fst l <> remove_zerodm_ID_outarray -> m'' l = m l) /\
            forall k, m'' (remove_zerodm_ID_outarray, k) = iter (Z.to_nat j) (G i) (arr_of m' remove_zerodm_ID_outarray) k) s m') as HI end.
      cbv beta in HI. destruct HI as [Hfr2 Hout2].
      + split; [exact Hfr|]. intro; reflexivity.
      + intros j t m'' Hj [Hf Ho]. cbn [exec bind rd wr fst snd]. split.
        * intros l Hl. rewrite mupd_off by assumption. now apply Hf.
        * intro k'. rewrite mupd_at. replace (Z.to_nat (j + 1)) with (S (Z.to_nat j)) by lia. cbn [iter].
          rewrite Z2Nat.id by lia. unfold G at 1, upd. destruct (k' =? nchans * i + j); [|apply Ho].
          rewrite (Hf (remove_zerodm_ID_inarray, nchans * i + j)) by discriminate.
          rewrite (Hf (remove_zerodm_ID_chanwts, j)) by discriminate.
          rewrite (Hf (remove_zerodm_ID_bpass, j)) by discriminate. reflexivity.
      + split; [exact Hfr2|]. intro k'. rewrite Hout2, Nat2Z.id.
        replace (Z.to_nat (i + 1)) with (S (Z.to_nat i)) by lia. cbn [iter]. rewrite Z2Nat.id by lia.
        unfold F at 1. unfold G. apply iter_upd_ext. intro. unfold arr_of. apply Hout. }
  unfold I in H. destruct H as [_ H]. rewrite Nat2Z.id in H. apply H. Qed.

(** * downsample_1d_mean_parallel (python definition: downsample_1d_mean; the fresh result array starts with whatever the
      memory holds there: np.empty) *)
Lemma downsample_1d_seq divcast array_size factor m k :
  seq_run (downsample_1d_mean_parallel_threads divcast array_size factor) m (downsample_1d_mean_parallel_ID_result, k) =
  downsample_1d_mean_run divcast array_size (arr_of m downsample_1d_mean_parallel_ID_result)
     (arr_of m downsample_1d_mean_parallel_ID_array) factor k.
Proof. unfold downsample_1d_mean_parallel_threads, downsample_1d_mean_parallel_trip, downsample_1d_mean_run. cbv zeta.
  set (array := arr_of m downsample_1d_mean_parallel_ID_array).
  set (T := fun isamp => iter (Z.to_nat factor) (fun ifactor temp => temp + array (isamp * factor + ifactor)) 0).
  set (F := fun isamp (result : arr) => upd result isamp (divcast (T isamp) factor)).
  pose (I := fun (j : Z) (m' : mem) => (forall l, fst l <> downsample_1d_mean_parallel_ID_result -> m' l = m l) /\
              forall k, m' (downsample_1d_mean_parallel_ID_result, k) =
                        iter (Z.to_nat j) F (arr_of m downsample_1d_mean_parallel_ID_result) k).
  assert (H : I (Z.of_nat (Z.to_nat (array_size / factor)))
                (seq_run (threads_of (downsample_1d_mean_parallel_thread divcast array_size factor) (Z.to_nat (array_size / factor))) m)).
  { apply seq_run_threads_inv.
    - split; [reflexivity|]. intro; reflexivity.
    - intros i m' Hi [Hfr Hout]. unfold downsample_1d_mean_parallel_thread, downsample_1d_mean_parallel_body.
      rewrite run1_thread_of. cbv zeta. rewrite exec_bind.
      rewrite (exec_for_pure _ _ (fun ifactor temp => temp + array (i * factor + ifactor)) m').
      2:{ intros j t Hj. cbn [bind rd exec].
          rewrite (Hfr (downsample_1d_mean_parallel_ID_array, i * factor + j)) by discriminate. reflexivity. }
      cbn [fst snd bind wr exec]. split.
      + intros l Hl. rewrite mupd_off by assumption. now apply Hfr.
      + intro k'. rewrite mupd_at. replace (Z.to_nat (i + 1)) with (S (Z.to_nat i)) by lia.
        cbn [iter]. rewrite Z2Nat.id by lia. unfold F at 1, upd.
        destruct (k' =? i); [reflexivity|apply Hout]. }
  unfold I in H. destruct H as [_ H]. rewrite Nat2Z.id in H. apply H. Qed.

(** * downsample_2d_mean_parallel (python definition: downsample_2d_mean_flat) *)
Lemma downsample_2d_seq divcast factor1 factor2 dim1 dim2 m k :
  seq_run (downsample_2d_mean_parallel_threads divcast factor1 factor2 dim1 dim2) m (downsample_2d_mean_parallel_ID_result, k) =
  downsample_2d_mean_flat_run divcast (arr_of m downsample_2d_mean_parallel_ID_result)
     (arr_of m downsample_2d_mean_parallel_ID_array) factor1 factor2 dim1 dim2 k.
Proof. unfold downsample_2d_mean_parallel_threads, downsample_2d_mean_parallel_trip, downsample_2d_mean_flat_run. cbv zeta.
  set (array := arr_of m downsample_2d_mean_parallel_ID_array).
  set (T := fun i j => iter (Z.to_nat factor1) (fun ifactor temp =>
                 iter (Z.to_nat factor2) (fun ifactor2 temp => temp + array (dim2 * i * factor1 + j * factor2 + ifactor * dim2 + ifactor2)) temp) 0).
  set (G := fun i j (result : arr) => upd result (dim2 / factor2 * i + j) (divcast (T i j) (factor1 * factor2))).
  set (F := fun i (result : arr) => iter (Z.to_nat (dim2 / factor2)) (G i) result).
  pose (I := fun (j : Z) (m' : mem) => (forall l, fst l <> downsample_2d_mean_parallel_ID_result -> m' l = m l) /\
              forall k, m' (downsample_2d_mean_parallel_ID_result, k) =
                        iter (Z.to_nat j) F (arr_of m downsample_2d_mean_parallel_ID_result) k).
  assert (H : I (Z.of_nat (Z.to_nat (dim1 / factor1)))
                (seq_run (threads_of (downsample_2d_mean_parallel_thread divcast factor1 factor2 dim1 dim2) (Z.to_nat (dim1 / factor1))) m)).
  { apply seq_run_threads_inv.
    - split; [reflexivity|]. intro; reflexivity.
    - intros i m' Hi [Hfr Hout]. unfold downsample_2d_mean_parallel_thread, downsample_2d_mean_parallel_body.
      rewrite run1_thread_of. cbv zeta. rewrite exec_bind. cbn [exec snd].
      match goal with |- I _ (snd (exec (for_ ?n ?b ?s) m')) =>
        pose proof (exec_for_inv n b (fun j _ m'' => (forall l, fst l <> downsample_2d_mean_parallel_ID_result -> m'' l = m l) /\
            forall k, m'' (downsample_2d_mean_parallel_ID_result, k) =
                      iter (Z.to_nat j) (G i) (arr_of m' downsample_2d_mean_parallel_ID_result) k) s m') as HI end.
      cbv beta in HI. destruct HI as [Hfr2 Hout2].
      + split; [exact Hfr|]. intro; reflexivity.
      + intros j t m'' Hj [Hf Ho]. rewrite exec_bind.
        rewrite (exec_for_pure _ _ (fun ifactor temp =>
                   iter (Z.to_nat factor2) (fun ifactor2 temp => temp + array (dim2 * i * factor1 + j * factor2 + ifactor * dim2 + ifactor2)) temp) m'').
        2:{ intros a t' Ha. rewrite exec_bind.
            rewrite (exec_for_pure _ _ (fun ifactor2 temp => temp + array (dim2 * i * factor1 + j * factor2 + a * dim2 + ifactor2)) m'').
            2:{ intros b t'' Hb. cbn [bind rd exec].
                rewrite (Hf (downsample_2d_mean_parallel_ID_array, dim2 * i * factor1 + j * factor2 + a * dim2 + b)) by discriminate.
                reflexivity. }
            reflexivity. }
        cbn [fst snd bind wr exec]. split.
        * intros l Hl. rewrite mupd_off by assumption. now apply Hf.
        * intro k'. rewrite mupd_at. replace (Z.to_nat (j + 1)) with (S (Z.to_nat j)) by lia. cbn [iter].
          rewrite Z2Nat.id by lia. unfold G at 1, upd.
          destruct (k' =? dim2 / factor2 * i + j); [reflexivity|apply Ho].
      + split; [exact Hfr2|]. intro k'. rewrite Hout2, Nat2Z.id.
        replace (Z.to_nat (i + 1)) with (S (Z.to_nat i)) by lia. cbn [iter]. rewrite Z2Nat.id by lia.
        unfold F at 1. unfold G. apply iter_upd_ext. intro. unfold arr_of. apply Hout. }
  unfold I in H. destruct H as [_ H]. rewrite Nat2Z.id in H. apply H. Qed.

(** * every complete schedule of the parallel loop ends with the output the Python definition computes
      (schedule independence of Proofs/C19_kernels.v composed with the three lemmas above) *)
Lemma remove_zerodm_any_schedule nchans nsamps m ps' m' k :
  steps (remove_zerodm_threads nchans nsamps, m) (ps', m') -> all_done ps' ->
  m' (remove_zerodm_ID_outarray, k) =
  remove_zerodm_run (arr_of m remove_zerodm_ID_inarray) (arr_of m remove_zerodm_ID_outarray)
     (arr_of m remove_zerodm_ID_bpass) (arr_of m remove_zerodm_ID_chanwts) nchans nsamps k.
Proof. intros Hs Hd. rewrite (remove_zerodm_sched nchans nsamps m ps' m' Hs Hd). apply remove_zerodm_seq. Qed.

Lemma downsample_1d_any_schedule divcast array_size factor m ps' m' k :
  steps (downsample_1d_mean_parallel_threads divcast array_size factor, m) (ps', m') -> all_done ps' ->
  m' (downsample_1d_mean_parallel_ID_result, k) =
  downsample_1d_mean_run divcast array_size (arr_of m downsample_1d_mean_parallel_ID_result)
     (arr_of m downsample_1d_mean_parallel_ID_array) factor k.
Proof. intros Hs Hd. rewrite (downsample_1d_sched divcast array_size factor m ps' m' Hs Hd). apply downsample_1d_seq. Qed.

Lemma downsample_2d_any_schedule divcast factor1 factor2 dim1 dim2 m ps' m' k :
  steps (downsample_2d_mean_parallel_threads divcast factor1 factor2 dim1 dim2, m) (ps', m') -> all_done ps' ->
  m' (downsample_2d_mean_parallel_ID_result, k) =
  downsample_2d_mean_flat_run divcast (arr_of m downsample_2d_mean_parallel_ID_result)
     (arr_of m downsample_2d_mean_parallel_ID_array) factor1 factor2 dim1 dim2 k.
Proof. intros Hs Hd. rewrite (downsample_2d_sched divcast factor1 factor2 dim1 dim2 m ps' m' Hs Hd). apply downsample_2d_seq. Qed.
