(** C01: the block plan of FilReader.read_plan (Gen.Plan.fil_plan, regenerated from readers.py), executed by
    the loop model against the stream model, delivers exactly samples [start, start+nsamps). *)
From Coq Require Import ZArith List Bool Lia ZifyBool.
Require Import SPP.Base.Rt SPP.Base.Iter SPP.Gen.Plan SPP.Model.Stream SPP.Model.Plan SPP.Proofs.C02_stream.
Import ListNotations.
Open Scope Z_scope.
Ltac Zify.zify_post_hook ::= Z.to_euclidean_division_equations.

(** * the plan arithmetic *)
Definition mkfull (g sb nch : Z) (ii : Z) : Z * Z * Z := (ii, g * nch, (- sb) * nch).

Record plan_facts (gulp0 nsamps skipback0 g sb nreads lastread : Z) : Prop := {
  pf_g : g = Z.min nsamps gulp0;
  pf_sb : sb = Z.abs skipback0;
  pf_sb_lt : 0 <= sb < g;
  pf_nreads : 1 <= nreads;
  pf_fit : (nreads - 1) * (g - sb) + g <= nsamps;                 (* every full block lies inside the range *)
  pf_last : lastread = 0 \/ (sb < lastread < g);                   (* the last block brings at least one new sample *)
  pf_cover : (nreads - 1) * (g - sb) + g + (if lastread =? 0 then 0 else lastread - sb) = nsamps
}.

Lemma fil_plan_eq gulp0 start nsamps skipback0 N nch :
  1 <= gulp0 -> 1 <= nsamps -> Z.abs skipback0 < Z.min nsamps gulp0 ->
  exists g sb nreads lastread,
    fil_plan gulp0 start nsamps skipback0 N (N * nch) nch nch =
      Some (g, sb, start * nch, map (mkfull g sb nch) (zrange nreads) ++ (if lastread =? 0 then [] else [(nreads, lastread * nch, 0)]))
    /\ plan_facts gulp0 nsamps skipback0 g sb nreads lastread.
Proof. intros Hg Hn Hs. unfold fil_plan.
  set (g := Z.min nsamps gulp0). set (sb := Z.abs skipback0).
  replace (sb >=? g) with false by lia.
  replace (negb (N * nch =? N * nch)) with false by (rewrite Z.eqb_refl; reflexivity). rewrite andb_false_r.
  set (nreads := (nsamps - g) / (g - sb) + 1).
  set (lr0 := nsamps - nreads * (g - sb)).
  assert (Hq : 0 <= (nsamps - g) / (g - sb)) by (apply Z.div_pos; lia).
  assert (Hd : (g - sb) * ((nsamps - g) / (g - sb)) <= nsamps - g < (g - sb) * ((nsamps - g) / (g - sb)) + (g - sb)).
  { pose proof (Z.div_mod (nsamps - g) (g - sb) ltac:(lia)). pose proof (Z.mod_pos_bound (nsamps - g) (g - sb) ltac:(lia)). lia. }
  assert (Hlr : sb <= lr0 < g) by (unfold lr0, nreads; nia).
  destruct (Z.eqb_spec lr0 sb) as [E|NE].
  - exists g, sb, nreads, 0. split.
    + change (0 =? 0) with true. cbn [negb]. rewrite app_nil_r. reflexivity.
    + constructor; try reflexivity; try lia; try (unfold nreads; nia). change (0 =? 0) with true. unfold lr0, nreads in *. nia.
  - exists g, sb, nreads, lr0. split.
    + destruct (Z.eqb_spec lr0 0) as [E0|NE0]; cbn [negb].
      * rewrite app_nil_r. reflexivity.
      * reflexivity.
    + constructor; try reflexivity; try lia; try (unfold nreads; nia);
      try solve [destruct (Z.eqb_spec lr0 0); [left; assumption|right; lia]];
      try solve [destruct (Z.eqb_spec lr0 0); unfold lr0, nreads in *; nia]. Qed.

Lemma fil_plan_reject gulp0 start nsamps skipback0 N sn nch :
  Z.abs skipback0 >= Z.min nsamps gulp0 -> fil_plan gulp0 start nsamps skipback0 N sn nch nch = None.
Proof. intro H. unfold fil_plan. replace (Z.abs skipback0 >=? Z.min nsamps gulp0) with true by lia. reflexivity. Qed.

(** * executing the plan *)
Lemma skipn_slice l a n d : 0 <= a -> 0 <= d <= n -> skipn (Z.to_nat d) (slice l a n) = slice l (a + d) (n - d).
Proof. intros Ha Hd. unfold slice.
  rewrite skipn_firstn_comm. rewrite skipn_skipn. f_equal; [lia|]. f_equal. lia. Qed.

Lemma firstn_slice_all l a n : 0 <= a -> 0 <= n -> a + n <= len l -> firstn (Z.to_nat n) (slice l a n) = slice l a n.
Proof. intros. apply firstn_all2. pose proof (slice_len l a n ltac:(lia) ltac:(lia) ltac:(lia)). unfold len in *. lia. Qed.

Section Loop.
  Variables (fs : list file) (nch N start nsamps g sb : Z).
  Hypotheses (Hf : 1 <= nfiles fs) (Hc : 1 <= nch) (Ht : total fs = N * nch)
             (Hs0 : 0 <= start) (Hn : 1 <= nsamps) (Hr : start + nsamps <= N) (Hsb : 0 <= sb < g).

  Definition P (i : Z) : Z := (start + i * (g - sb)) * nch.
  Definition blk (i : Z) : Z * Z * list Z := (g, i, slice (flat fs) (P i) (g * nch)).

  Lemma P_nonneg i : 0 <= i -> 0 <= P i.
  Proof. intro. unfold P. assert (0 <= i * (g - sb)) by nia. nia. Qed.

  Lemma full_block s i r acc : Inv fs s -> absp fs s = P i -> 0 <= i -> i * (g - sb) + g <= nsamps ->
    exists s', plan_loop fs nch s (mkfull g sb nch i :: r) acc = plan_loop fs nch s' r (acc ++ [blk i])
               /\ Inv fs s' /\ absp fs s' = P (i + 1).
  Proof. intros HI Ha Hi Hfit. unfold mkfull. cbn [plan_loop].
    assert (Hin : P i + g * nch <= total fs) by (unfold P; nia).
    assert (HP0 : 0 <= P i) by (unfold P; assert (0 <= i * (g - sb)) by nia; nia).
    destruct (creadinto_spec fs s (g * nch) HI ltac:(nia)) as [s1 [-> [HI1 Ha1]]].
    rewrite Ha in *. replace (Z.min (g * nch) (total fs - P i)) with (g * nch) in * by lia.
    rewrite slice_len by (try rewrite len_flat; nia). rewrite Z.eqb_refl. cbn [negb].
    rewrite Z.div_mul by lia. rewrite firstn_slice_all by (try rewrite len_flat; nia).
    destruct (Z.eqb_spec ((- sb) * nch) 0) as [E|NE].
    - exists s1. split; [reflexivity|]. split; [assumption|]. rewrite Ha1. unfold P. nia.
    - unfold seek_cur_op. rewrite stream_pos_abs by assumption. rewrite Ha1.
      assert (Hsb1 : 1 <= sb) by nia.
      destruct (seek_set_ok fs s1 ((- sb) * nch + (P i + g * nch)) ltac:(unfold P in *; nia)) as [s2 [-> [HI2 Ha2]]].
      exists s2. split; [reflexivity|]. split; [assumption|]. rewrite Ha2. unfold P. nia. Qed.

  Lemma full_blocks r : forall k i0 s acc, Inv fs s -> absp fs s = P (Z.of_nat i0) ->
    (k = 0%nat \/ (Z.of_nat i0 + Z.of_nat k - 1) * (g - sb) + g <= nsamps) ->
    exists s', plan_loop fs nch s (map (mkfull g sb nch) (map Z.of_nat (seq i0 k)) ++ r) acc
                 = plan_loop fs nch s' r (acc ++ map blk (map Z.of_nat (seq i0 k)))
               /\ Inv fs s' /\ absp fs s' = P (Z.of_nat (i0 + k)).
  Proof. induction k as [|k IH]; intros i0 s acc HI Ha Hfit.
    - exists s. cbn [seq map app]. rewrite app_nil_r, Nat.add_0_r. auto.
    - cbn [seq map app]. destruct Hfit as [Hfit|Hfit]; [discriminate|].
      destruct (full_block s (Z.of_nat i0) (map (mkfull g sb nch) (map Z.of_nat (seq (S i0) k)) ++ r) acc HI Ha ltac:(lia) ltac:(nia))
        as [s1 [-> [HI1 Ha1]]].
      replace (Z.of_nat i0 + 1) with (Z.of_nat (S i0)) in Ha1 by lia.
      destruct (IH (S i0) s1 (acc ++ [blk (Z.of_nat i0)]) HI1 Ha1) as [s2 [-> [HI2 Ha2]]].
      { destruct k; [left; reflexivity|right]. nia. }
      exists s2. rewrite <- app_assoc. cbn [app]. replace (i0 + S k)%nat with (S i0 + k)%nat by lia. auto. Qed.

  Lemma last_block s i lr acc : Inv fs s -> absp fs s = P i -> 0 <= i -> 1 <= lr -> i * (g - sb) + lr <= nsamps ->
    plan_loop fs nch s [(i, lr * nch, 0)] acc = POk (acc ++ [(lr, i, slice (flat fs) (P i) (lr * nch))]).
  Proof. intros HI Ha Hi Hlr Hfit. cbn [plan_loop].
    assert (Hin : P i + lr * nch <= total fs) by (unfold P; nia).
    assert (HP0 : 0 <= P i) by (unfold P; assert (0 <= i * (g - sb)) by nia; nia).
    destruct (creadinto_spec fs s (lr * nch) HI ltac:(nia)) as [s1 [-> [HI1 Ha1]]].
    rewrite Ha in *. replace (Z.min (lr * nch) (total fs - P i)) with (lr * nch) in * by lia.
    rewrite slice_len by (try rewrite len_flat; nia). rewrite Z.eqb_refl. cbn [negb Z.eqb].
    rewrite Z.div_mul by lia. rewrite firstn_slice_all by (try rewrite len_flat; nia). reflexivity. Qed.

  (** stitching the full blocks i0 .. i0+k-1 (each minus its leading sb samples) *)
  Lemma stitch_tail_full : forall k i0, (k = 0%nat \/ (Z.of_nat i0 + Z.of_nat k - 1) * (g - sb) + g <= nsamps) ->
    stitch_tail (sb * nch) (map blk (map Z.of_nat (seq i0 k))) = slice (flat fs) (P (Z.of_nat i0) + sb * nch) (Z.of_nat k * (g - sb) * nch).
  Proof. induction k as [|k IH]; intros i0 Hfit; [reflexivity|]. destruct Hfit as [Hfit|Hfit]; [discriminate|].
    cbn [seq map stitch_tail blk]. unfold blk at 1. 
    rewrite skipn_slice by (try (apply P_nonneg; lia); nia). rewrite IH by (destruct k; [left; reflexivity|right; nia]).
    replace (g * nch - sb * nch) with ((g - sb) * nch) by lia.
    replace (P (Z.of_nat (S i0)) + sb * nch) with (P (Z.of_nat i0) + sb * nch + (g - sb) * nch) by (unfold P; nia).
    pose proof (P_nonneg (Z.of_nat i0) ltac:(lia)).
    assert (0 <= sb * nch) by nia. assert (0 <= (g - sb) * nch) by nia. assert (0 <= Z.of_nat k * (g - sb) * nch) by nia.
    rewrite slice_cat by lia. f_equal. nia. Qed.
End Loop.

(** * the theorems *)
Definition block_ok (nch gulp0 : Z) (b : Z * Z * list Z) : Prop :=
  let '(n_r, ii, d) := b in len d = n_r * nch /\ 1 <= n_r <= gulp0.

Lemma blk_ok fs nch N start nsamps g sb gulp0 i : 1 <= nch -> total fs = N * nch -> 0 <= start -> start + nsamps <= N ->
  0 <= sb < g -> g <= gulp0 -> 0 <= i -> i * (g - sb) + g <= nsamps -> block_ok nch gulp0 (blk fs nch start g sb i).
Proof. intros. unfold blk, block_ok. pose proof (P_nonneg nch start g sb ltac:(lia) ltac:(lia) ltac:(lia) i ltac:(lia)).
  rewrite slice_len; [lia| lia | nia |]. rewrite len_flat. unfold P in *. nia. Qed.

Theorem plan_sound fs nch N gulp0 start nsamps skipback0 :
  1 <= nfiles fs -> 1 <= nch -> total fs = N * nch ->
  0 <= start -> 1 <= nsamps -> start + nsamps <= N -> 1 <= gulp0 ->
  Z.abs skipback0 < Z.min nsamps gulp0 ->
  exists bl, run_plan fs nch gulp0 start nsamps skipback0 = POk bl /\
    stitch (Z.abs skipback0 * nch) bl = slice (flat fs) (start * nch) (nsamps * nch) /\
    Forall (block_ok nch gulp0) bl /\
    map (fun b => snd (fst b)) bl = zrange (len (map (fun _ => 0) bl)).
Proof. intros Hf Hc Ht Hs0 Hn Hr Hg Hsb. unfold run_plan.
  replace (total fs / nch) with N by (rewrite Ht; symmetry; apply Z.div_mul; lia). rewrite Ht.
  destruct (fil_plan_eq gulp0 start nsamps skipback0 N nch Hg Hn Hsb) as [g [sb [nreads [lr [-> F]]]]].
  destruct F as [Fg Fsb Fsblt Fnr Ffit Flast Fcov]. rewrite <- Fsb.
  destruct (init_inv fs Hf) as [HI0 Ha0].
  destruct (seek_set_ok fs (init fs) (start * nch) ltac:(nia)) as [s0 [-> [HIs Has]]].
  unfold zrange. set (k := Z.to_nat nreads). assert (Hk : Z.of_nat k = nreads) by lia.
  assert (Has' : absp fs s0 = P nch start g sb (Z.of_nat 0)) by (rewrite Has; unfold P; cbn; lia).
  destruct (full_blocks fs nch N start nsamps g sb Hc Ht Hs0 Hn Hr Fsblt
              (if lr =? 0 then [] else [(nreads, lr * nch, 0)]) k 0%nat s0 [] HIs Has') as [s1 [-> [HI1 Ha1]]].
  { right. rewrite Hk. cbn. lia. }
  cbn [app]. rewrite Nat.add_0_l, Hk in Ha1.
  assert (Hblocks : Forall (block_ok nch gulp0) (map (blk fs nch start g sb) (map Z.of_nat (seq 0 k)))).
  { apply Forall_forall. intros b Hb. apply in_map_iff in Hb as [i [<- Hi]]. apply in_map_iff in Hi as [j [<- Hj]].
    apply in_seq in Hj. apply (blk_ok fs nch N start nsamps g sb gulp0); try lia. nia. }
  assert (Hidx : forall (m : nat) (a : nat), map (fun b => snd (fst b)) (map (blk fs nch start g sb) (map Z.of_nat (seq a m))) = map Z.of_nat (seq a m)).
  { intros m a. rewrite !map_map. apply map_ext. reflexivity. }
  assert (Hst : stitch (sb * nch) (map (blk fs nch start g sb) (map Z.of_nat (seq 0 k))) =
                slice (flat fs) (start * nch) (((nreads - 1) * (g - sb) + g) * nch)).
  { destruct k as [|k']; [lia|]. cbn [seq map stitch]. unfold blk at 1.
    rewrite (stitch_tail_full fs nch start nsamps g sb Hc Hs0 Fsblt k' 1%nat) by (destruct k'; [left; reflexivity|right; nia]).
    replace (P nch start g sb (Z.of_nat 1) + sb * nch) with (P nch start g sb (Z.of_nat 0) + g * nch) by (unfold P; change (Z.of_nat 1) with 1; change (Z.of_nat 0) with 0; ring).
    assert (0 <= g * nch) by nia. assert (0 <= Z.of_nat k' * (g - sb) * nch) by nia.
    pose proof (P_nonneg nch start g sb Hc Hs0 Fsblt (Z.of_nat 0) ltac:(lia)).
    rewrite slice_cat by lia. f_equal; [unfold P; change (Z.of_nat 0) with 0; ring|nia]. }
  destruct (Z.eqb_spec lr 0) as [E|NE].
  - (* no last block *) subst lr. cbn [plan_loop]. eexists. split; [reflexivity|]. repeat split.
    + rewrite Hst. f_equal. change (0 =? 0) with true in Fcov. nia.
    + exact Hblocks.
    + rewrite Hidx. unfold len. rewrite !map_length, seq_length, Nat2Z.id. reflexivity.
  - destruct Flast as [?|Flast]; [contradiction|].
    rewrite (last_block fs nch N start nsamps g sb Hc Ht Hs0 Hr Fsblt s1 nreads lr _ HI1 Ha1) by (try lia; destruct (lr =? 0); nia).
    eexists. split; [reflexivity|]. destruct (lr =? 0) eqn:E0; [lia|]. repeat split.
    + destruct k as [|k']; [lia|]. cbn [seq map app stitch]. cbn [seq map stitch] in Hst.
      assert (Hsplit : forall l b, stitch_tail (sb * nch) (l ++ [b]) = stitch_tail (sb * nch) l ++ stitch_tail (sb * nch) [b]).
      { induction l as [|[[? ?] ?] l IHl]; intro b; cbn [app stitch_tail]; [reflexivity|]. rewrite IHl, <- app_assoc. reflexivity. }
      unfold blk at 1 in Hst. unfold blk at 1. rewrite Hsplit, app_assoc. rewrite Hst.
      cbn [stitch_tail]. rewrite app_nil_r.
      pose proof (P_nonneg nch start g sb ltac:(lia) ltac:(lia) ltac:(lia) nreads ltac:(lia)).
      rewrite skipn_slice by nia.
      replace (P nch start g sb nreads + sb * nch) with (start * nch + ((nreads - 1) * (g - sb) + g) * nch) by (unfold P; nia).
      assert (0 <= ((nreads - 1) * (g - sb) + g) * nch) by nia. assert (0 <= lr * nch - sb * nch) by nia.
      rewrite slice_cat by nia. f_equal. nia.
    + apply Forall_app. split; [exact Hblocks|]. constructor; [|constructor]. unfold block_ok.
      pose proof (P_nonneg nch start g sb ltac:(lia) ltac:(lia) ltac:(lia) nreads ltac:(lia)).
      rewrite slice_len; [lia| lia | nia |]. rewrite len_flat. unfold P in *. nia.
    + rewrite map_app, Hidx. cbn [map fst snd]. unfold len. rewrite map_length, app_length, map_length, map_length, seq_length. cbn [length].
      replace (Z.to_nat (Z.of_nat (k + 1))) with (S k) by lia. rewrite seq_S, map_app. cbn [map]. rewrite Nat.add_0_l, Hk. reflexivity. Qed.

Theorem plan_reject fs nch gulp0 start nsamps skipback0 :
  Z.abs skipback0 >= Z.min nsamps gulp0 -> run_plan fs nch gulp0 start nsamps skipback0 = PErr [] ValueError.
Proof. intro H. unfold run_plan. rewrite fil_plan_reject by assumption. reflexivity. Qed.

(** at every supported depth a whole number of samples is a whole number of bytes: the byte count
    [int(block * chan_stride)] of a block of [n] samples is [n] sample strides *)
Lemma stride_exact nbits nchans n : In nbits [1; 2; 4; 8; 16; 32] -> (nchans * nbits) mod 8 = 0 ->
  (n * nchans) * nbits / 8 = n * (nchans * nbits / 8) /\ ((n * nchans) * nbits) mod 8 = 0.
Proof. intros _ Hm. assert (E : nchans * nbits = 8 * (nchans * nbits / 8)) by (apply Z.div_exact; lia).
  replace (n * nchans * nbits) with ((n * (nchans * nbits / 8)) * 8) by lia.
  rewrite Z.div_mul by lia. rewrite Z.mod_mul by lia. split; reflexivity. Qed.

(** the blocks themselves (used by the streaming reductions of C06/C07) *)
Definition plan_blocks (fs : list file) (nch start g sb nreads lr : Z) : list (Z * Z * list Z) :=
  map (blk fs nch start g sb) (zrange nreads) ++
  (if lr =? 0 then [] else [(lr, nreads, slice (flat fs) (P nch start g sb nreads) (lr * nch))]).

Lemma run_plan_explicit fs nch N gulp0 start nsamps skipback0 :
  1 <= nfiles fs -> 1 <= nch -> total fs = N * nch ->
  0 <= start -> 1 <= nsamps -> start + nsamps <= N -> 1 <= gulp0 ->
  Z.abs skipback0 < Z.min nsamps gulp0 ->
  exists g sb nreads lr, plan_facts gulp0 nsamps skipback0 g sb nreads lr /\
    run_plan fs nch gulp0 start nsamps skipback0 = POk (plan_blocks fs nch start g sb nreads lr).
Proof. intros Hf Hc Ht Hs0 Hn Hr Hg Hsb. unfold run_plan.
  replace (total fs / nch) with N by (rewrite Ht; symmetry; apply Z.div_mul; lia). rewrite Ht.
  destruct (fil_plan_eq gulp0 start nsamps skipback0 N nch Hg Hn Hsb) as [g [sb [nreads [lr [-> F]]]]].
  exists g, sb, nreads, lr. split; [exact F|].
  destruct F as [Fg Fsb Fsblt Fnr Ffit Flast Fcov].
  destruct (init_inv fs Hf) as [HI0 Ha0].
  destruct (seek_set_ok fs (init fs) (start * nch) ltac:(nia)) as [s0 [-> [HIs Has]]].
  unfold plan_blocks, zrange. set (k := Z.to_nat nreads). assert (Hk : Z.of_nat k = nreads) by lia.
  assert (Has' : absp fs s0 = P nch start g sb (Z.of_nat 0)) by (rewrite Has; unfold P; cbn; lia).
  destruct (full_blocks fs nch N start nsamps g sb Hc Ht Hs0 Hn Hr Fsblt
              (if lr =? 0 then [] else [(nreads, lr * nch, 0)]) k 0%nat s0 [] HIs Has') as [s1 [-> [HI1 Ha1]]].
  { right. rewrite Hk. cbn. lia. }
  cbn [app]. rewrite Nat.add_0_l, Hk in Ha1.
  destruct (Z.eqb_spec lr 0) as [E|NE].
  - cbn [plan_loop]. rewrite app_nil_r. reflexivity.
  - destruct Flast as [?|Flast]; [contradiction|].
    rewrite (last_block fs nch N start nsamps g sb Hc Ht Hs0 Hr Fsblt s1 nreads lr _ HI1 Ha1) by (try lia; destruct (lr =? 0); nia).
    reflexivity. Qed.

(** * the plan parameters as explicit functions of the request (used to transfer theorems between readers) *)
Definition plan_params (gulp0 nsamps skipback0 : Z) : Z * Z * Z * Z :=
  let g := Z.min nsamps gulp0 in
  let sb := Z.abs skipback0 in
  let nreads := (nsamps - g) / (g - sb) + 1 in
  let lr0 := nsamps - nreads * (g - sb) in
  (g, sb, nreads, if lr0 =? sb then 0 else lr0).

Lemma fil_plan_params gulp0 start nsamps skipback0 N nch :
  1 <= gulp0 -> 1 <= nsamps -> Z.abs skipback0 < Z.min nsamps gulp0 ->
  let '(g, sb, nreads, lr) := plan_params gulp0 nsamps skipback0 in
  fil_plan gulp0 start nsamps skipback0 N (N * nch) nch nch =
    Some (g, sb, start * nch, map (mkfull g sb nch) (zrange nreads) ++ (if lr =? 0 then [] else [(nreads, lr * nch, 0)]))
  /\ plan_facts gulp0 nsamps skipback0 g sb nreads lr.
Proof. intros Hg Hn Hs. unfold plan_params, fil_plan.
  set (g := Z.min nsamps gulp0). set (sb := Z.abs skipback0).
  replace (sb >=? g) with false by lia.
  replace (negb (N * nch =? N * nch)) with false by (rewrite Z.eqb_refl; reflexivity). rewrite andb_false_r.
  set (nreads := (nsamps - g) / (g - sb) + 1).
  set (lr0 := nsamps - nreads * (g - sb)).
  assert (Hq : 0 <= (nsamps - g) / (g - sb)) by (apply Z.div_pos; lia).
  assert (Hd : (g - sb) * ((nsamps - g) / (g - sb)) <= nsamps - g < (g - sb) * ((nsamps - g) / (g - sb)) + (g - sb)).
  { pose proof (Z.div_mod (nsamps - g) (g - sb) ltac:(lia)). pose proof (Z.mod_pos_bound (nsamps - g) (g - sb) ltac:(lia)). lia. }
  assert (Hlr : sb <= lr0 < g) by (unfold lr0, nreads; nia).
  destruct (Z.eqb_spec lr0 sb) as [E|NE].
  - split.
    + change (0 =? 0) with true. cbn [negb]. rewrite app_nil_r. reflexivity.
    + constructor; try reflexivity; try lia; try (unfold nreads; nia). change (0 =? 0) with true. unfold lr0, nreads in *. nia.
  - split.
    + destruct (Z.eqb_spec lr0 0) as [E0|NE0]; cbn [negb].
      * rewrite app_nil_r. reflexivity.
      * reflexivity.
    + constructor; try reflexivity; try lia; try (unfold nreads; nia);
      try solve [destruct (Z.eqb_spec lr0 0); [left; assumption|right; lia]];
      try solve [destruct (Z.eqb_spec lr0 0); unfold lr0, nreads in *; nia]. Qed.

Lemma run_plan_params fs nch N gulp0 start nsamps skipback0 :
  1 <= nfiles fs -> 1 <= nch -> total fs = N * nch ->
  0 <= start -> 1 <= nsamps -> start + nsamps <= N -> 1 <= gulp0 ->
  Z.abs skipback0 < Z.min nsamps gulp0 ->
  run_plan fs nch gulp0 start nsamps skipback0 =
    POk (let '(g, sb, nreads, lr) := plan_params gulp0 nsamps skipback0 in plan_blocks fs nch start g sb nreads lr).
Proof. intros Hf Hc Ht Hs0 Hn Hr Hg Hsb. unfold run_plan.
  replace (total fs / nch) with N by (rewrite Ht; symmetry; apply Z.div_mul; lia). rewrite Ht.
  pose proof (fil_plan_params gulp0 start nsamps skipback0 N nch Hg Hn Hsb) as L.
  destruct (plan_params gulp0 nsamps skipback0) as [[[g sb] nreads] lr]. destruct L as [-> F].
  destruct F as [Fg Fsb Fsblt Fnr Ffit Flast Fcov].
  destruct (init_inv fs Hf) as [HI0 Ha0].
  destruct (seek_set_ok fs (init fs) (start * nch) ltac:(nia)) as [s0 [-> [HIs Has]]].
  unfold plan_blocks, zrange. set (k := Z.to_nat nreads). assert (Hk : Z.of_nat k = nreads) by lia.
  assert (Has' : absp fs s0 = P nch start g sb (Z.of_nat 0)) by (rewrite Has; unfold P; cbn; lia).
  destruct (full_blocks fs nch N start nsamps g sb Hc Ht Hs0 Hn Hr Fsblt
              (if lr =? 0 then [] else [(nreads, lr * nch, 0)]) k 0%nat s0 [] HIs Has') as [s1 [-> [HI1 Ha1]]].
  { right. rewrite Hk. cbn. lia. }
  cbn [app]. rewrite Nat.add_0_l, Hk in Ha1.
  destruct (Z.eqb_spec lr 0) as [E|NE].
  - cbn [plan_loop]. rewrite app_nil_r. reflexivity.
  - destruct Flast as [?|Flast]; [contradiction|].
    rewrite (last_block fs nch N start nsamps g sb Hc Ht Hs0 Hr Fsblt s1 nreads lr _ HI1 Ha1) by (try lia; destruct (lr =? 0); nia).
    reflexivity. Qed.
