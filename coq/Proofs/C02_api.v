(** C02: the API layer of FileReader (fresh reader, typed buffers, unpacking depths) refines the flat array of packed bytes. *)
From Coq Require Import ZArith List Bool Lia ZifyBool.
Require Import SPP.Base.Rt SPP.Base.Iter SPP.Gen.Plan SPP.Model.Stream SPP.Model.StreamApi SPP.Proofs.C02_stream.
Import ListNotations.
Open Scope Z_scope.
Ltac Zify.zify_post_hook ::= Z.to_euclidean_division_equations.

(** * a freshly opened reader stands at the first sample of the stream *)
Lemma open_reader_init fs : 1 <= nfiles fs -> open_reader fs = Some (init fs).
Proof. intro H. unfold open_reader, reader_init_seek2hdr, seek2hdr.
  replace ((0 <=? 0) && (0 <? nfiles fs)) with true by lia. reflexivity. Qed.

Lemma open_reader_first_sample fs : 1 <= nfiles fs ->
  exists s0, open_reader fs = Some s0 /\ Inv fs s0 /\ absp fs s0 = 0 /\ stream_pos fs s0 = 0.
Proof. intro H. exists (init fs). destruct (init_inv fs H) as [HI Ha]. rewrite open_reader_init by assumption.
  split; [reflexivity|]. split; [exact HI|]. split; [exact Ha|]. rewrite stream_pos_abs; assumption. Qed.

(** * operations *)
Definition aop_ok (o : aop) : Prop :=
  match o with ACread n => 0 <= n | ACreadinto b k => 0 <= b /\ 0 <= k | _ => True end.

Lemma lower_ok d o : 0 < bitfact d -> aop_ok o -> op_ok (lower d o).
Proof. intros Hb Ho. destruct o; cbn [lower op_ok aop_ok] in *; auto.
  - unfold cread_count. apply Z.div_pos; lia.
  - unfold creadinto_view_len. nia. Qed.

Lemma api_spec_lower d fl p o :
  api_spec_step d fl p o = let '(p', r) := spec_step fl 1 p (lower d o) in (p', lift d o r).
Proof. destruct o; cbn [api_spec_step spec_step lower lift].
  - destruct ((0 <=? o) && (o <? len fl)); reflexivity.
  - destruct ((0 <=? o + p) && (o + p <? len fl)); reflexivity.
  - unfold cread_count. rewrite Z.mul_1_r. destruct (p + nunits / bitfact d <=? len fl); reflexivity.
  - unfold creadinto_view_len. reflexivity. Qed.

Lemma api_step_refines d fs s o : Inv fs s -> 0 < bitfact d -> aop_ok o ->
  let '(s', r) := api_step d fs s o in
  let '(p', r') := api_spec_step d (flat fs) (absp fs s) o in
  r = r' /\ absp fs s' = p' /\ Inv fs s'.
Proof. intros HI Hb Ho. unfold api_step. pose proof (step_refines fs s (lower d o) HI (lower_ok d o Hb Ho)) as L.
  rewrite api_spec_lower. destruct (step fs 1 s (lower d o)) as [s' r].
  destruct (spec_step (flat fs) 1 (absp fs s) (lower d o)) as [p' r']. destruct L as [-> [Ha HI']]. auto. Qed.

Lemma api_run_refines d fs : 0 < bitfact d -> forall ops s, Inv fs s -> Forall aop_ok ops ->
  api_run d fs s ops = api_spec_run d (flat fs) (absp fs s) ops.
Proof. intro Hb. induction ops as [|o r IH]; intros s HI Hok; [reflexivity|]. inversion Hok as [|? ? Ho Hr]; subst.
  cbn [api_run api_spec_run]. pose proof (api_step_refines d fs s o HI Hb Ho) as L.
  destruct (api_step d fs s o) as [s' res]. destruct (api_spec_step d (flat fs) (absp fs s) o) as [p' res'].
  destruct L as [-> [Ha HI']]. rewrite stream_pos_abs by assumption. rewrite Ha. f_equal. rewrite <- Ha. apply IH; assumption. Qed.

(** every history on a freshly opened reader (no seek first), at any depth, with buffers of any item size *)
Theorem api_fresh_refines d fs ops : 1 <= nfiles fs -> 0 < bitfact d -> Forall aop_ok ops ->
  api_fresh_run d fs ops = api_spec_run d (flat fs) 0 ops.
Proof. intros H Hb Hok. unfold api_fresh_run. rewrite open_reader_init by assumption.
  destruct (init_inv fs H) as [HI Ha]. rewrite <- Ha. apply api_run_refines; assumption. Qed.

(** the state a fresh reader is in cannot be told from the state after seek(0, 0) *)
Theorem fresh_is_seek0 d fs ops : 1 <= nfiles fs -> 0 < total fs -> 0 < bitfact d -> Forall aop_ok ops ->
  exists s0 s1, open_reader fs = Some s0 /\ seek_set_op fs s0 0 = (s1, OUnit) /\ api_run d fs s1 ops = api_run d fs s0 ops.
Proof. intros H Ht Hb Hok. destruct (init_inv fs H) as [HI Ha].
  destruct (seek_set_ok fs (init fs) 0 ltac:(lia)) as [s1 [E [HI1 Ha1]]].
  exists (init fs), s1. split; [apply open_reader_init; assumption|]. split; [exact E|].
  rewrite !api_run_refines by assumption. rewrite Ha, Ha1. reflexivity. Qed.

(** a buffer read takes the caller's buffer by its byte count, whatever its item size *)
Theorem creadinto_typed_bytes d fs s b k : api_step d fs s (ACreadinto b k) = api_step d fs s (ACreadinto 1 (b * k)).
Proof. unfold api_step, lower, creadinto_view_len. replace (1 * (b * k)) with (b * k) by lia. reflexivity. Qed.

(** a counted read of n bytes' worth of units at an unpacking depth returns the unpacked samples of exactly those n bytes *)
Lemma cread_whole_units d fl p n : 0 < bitfact d ->
  api_spec_step d fl p (ACread (n * bitfact d)) =
    if p + n <=? len fl then (p + n, OBytes (unpack_out d (slice fl p n))) else (len fl, OErr ValueError).
Proof. intro Hb. cbn [api_spec_step]. rewrite Z.div_mul by lia. reflexivity. Qed.

Lemma unpack_bytes_length nbits big l : length (unpack_bytes nbits big l) = (length l * Z.to_nat (8 / nbits))%nat.
Proof. unfold unpack_bytes. induction l as [|b r IH]; [reflexivity|]. cbn [flat_map]. rewrite app_length, IH, map_length, zrange_length. cbn [length Nat.mul]. lia. Qed.

(** read_block from the state a fresh reader is in *)
Theorem api_read_block_spec fs nchans nsamples start nsamps :
  1 <= nfiles fs -> 1 <= nchans -> 1 <= nsamps -> total fs = nsamples * nchans ->
  api_read_block fs nchans nsamples start nsamps =
    if (0 <=? start) && (start + nsamps <=? nsamples)
    then OBytes (slice (flat fs) (start * nchans) (nchans * nsamps)) else OErr ValueError.
Proof. intros Hf Hc Hn Ht. rewrite <- (read_block_spec fs nchans nsamples start nsamps Hf Hc Hn Ht).
  unfold api_read_block, read_block_bytes. rewrite open_reader_init by assumption. reflexivity. Qed.
