(** C15 -- the statements of Props/C15.v (repaired tree), assembled from the other C15 proof files and stated for the
    materialising [nd_memo] that the correspondence run evaluates. *)
From Coq Require Import ZArith List Bool QArith Qcanon Qcabs Lia.
Require Import SPP.Base.Rt SPP.Base.Iter SPP.Model.C15_np SPP.Gen.Stats.
Require Import SPP.Proofs.C15_lib SPP.Proofs.C15_order SPP.Proofs.C15_rel SPP.Proofs.C15_equiv SPP.Proofs.C15_view
               SPP.Proofs.C15_lanes SPP.Proofs.C15_lanes2 SPP.Proofs.C15_glue SPP.Proofs.C15_fixed.
Import ListNotations.
Open Scope Z_scope.

Notation mo := memo_ok_nd_memo.

(** the per-method scale functions behind estimate_scale's dispatch table (all but 'std', which is np.std itself) *)
Definition scale_fn (np_sqrt : Qc -> Qc) (np_pi : Qc) (biweight1 : vec -> Qc) (np_cov01 : vec -> vec -> Qc)
  (m : scale_method) : option (nd -> option Z -> nd) :=
  match m with
  | S_iqr => Some (scale_iqr nd_memo) | S_mad => Some (scale_mad np_sqrt np_pi nd_memo)
  | S_diffcov => Some (scale_diffcov np_sqrt np_cov01 nd_memo) | S_biweight => Some (scale_biweight biweight1)
  | S_qn => Some (scale_qn nd_memo) | S_sn => Some (scale_sn nd_memo) | S_gapper => Some (scale_gapper np_sqrt np_pi nd_memo)
  | _ => None end.

Section Main.
  Variables (np_sqrt : Qc -> Qc) (np_pi : Qc) (np_std1 biweight1 : vec -> Qc) (np_cov01 : vec -> vec -> Qc).
  Notation est := (estimate_scale np_sqrt np_pi np_std1 biweight1 np_cov01 nd_memo).
  Notation sfn := (scale_fn np_sqrt np_pi biweight1 np_cov01).

  (** * equivariance *)
  Section Eq.
    Variables (a b : Qc) (A : nd) (axis : option Z).
    Hypothesis Ha : a <> Q2Qc 0.
    Let A' := nd_map (affine a b) A.
    Let HA : rel_of (affine a b) A A' := rel_of_map (affine a b) A.

    Lemma main_equivariant m F : In m [S_iqr; S_mad; S_qn; S_sn; S_gapper] -> sfn m = Some F -> lanes_nonempty A axis ->
      rel_of (scale (Qcabs a)) (F A axis) (F A' axis).
    Proof. intros Hin HF Hne. cbn in Hin.
      destruct Hin as [<-|[<-|[<-|[<-|[<-|[]]]]]]; cbn in HF; injection HF as <-.
      - now apply (scale_iqr_equivariant nd_memo mo a b Ha).
      - now apply (scale_mad_equivariant np_sqrt np_pi nd_memo mo a b Ha).
      - now apply (scale_qn_equivariant nd_memo mo a b Ha).
      - now apply (scale_sn_equivariant nd_memo mo a b Ha).
      - now apply (scale_gapper_equivariant np_sqrt np_pi nd_memo mo a b Ha). Qed.

    Lemma main_doublemad_equivariant sh I : sh <> nil -> shape A = sh -> lanes_nonempty A axis -> length I = length sh ->
      rd (scale_doublemad np_sqrt np_pi nd_memo A' axis) I = scale (Qcabs a) (rd (scale_doublemad np_sqrt np_pi nd_memo A axis) I).
    Proof. intros Hsh HS Hne HI. now apply (scale_doublemad_equivariant np_sqrt np_pi nd_memo mo a b Ha A A' axis sh HA Hne HS Hsh). Qed.

    Lemma main_loc_equivariant kd : lanes_nonempty A axis ->
      rel_of (affine a b) (np_reduce median1 A axis kd) (np_reduce median1 A' axis kd) /\
      rel_of (affine a b) (np_reduce mean1 A axis kd) (np_reduce mean1 A' axis kd).
    Proof. intro Hne. split; apply (loc_equivariant a b Ha); auto. Qed.

    Lemma main_var_equivariant kd : lanes_nonempty A axis ->
      rel_of (scale (a * a)) (np_reduce var1 A axis kd) (np_reduce var1 A' axis kd).
    Proof. intro Hne. now apply (var_equivariant a b). Qed.
  End Eq.

  (** * lanes *)
  Section Ln.
    Variables (sh : list Z) (A : nd).
    Hypothesis Hsh : sh <> nil.
    Hypothesis HA : shape A = sh.

    Section Axis.
      Variables (k0 : Z) (I0 : list Z).
      Hypothesis HI : in_range sh I0.
      Let k := axis_of sh k0.
      Hypothesis Hn : 1 <= nth k sh 0.
      Let L := lane A k I0.

      Lemma main_lane m F : sfn m = Some F ->
        shape (F A (Some k0)) = remove_nth k sh /\ get (F A (Some k0)) (remove_nth k I0) = get (F (of_vec L) None) nil.
      Proof. intro HF. destruct m; cbn in HF; try discriminate; injection HF as <-.
        - apply scale_iqr_lane; first [exact mo | assumption].
        - apply scale_mad_lane; first [exact mo | assumption].
        - apply scale_diffcov_lane; first [exact mo | assumption].
        - apply scale_biweight_lane; first [exact mo | assumption].
        - apply scale_qn_lane; first [exact mo | assumption].
        - apply scale_sn_lane; first [exact mo | assumption].
        - apply scale_gapper_lane; first [exact mo | assumption]. Qed.

      Lemma main_doublemad_lane j : 0 <= j < nth k sh 0 ->
        shape (scale_doublemad np_sqrt np_pi nd_memo A (Some k0)) = sh /\
        get (scale_doublemad np_sqrt np_pi nd_memo A (Some k0)) (set_nth k j I0)
        = get (scale_doublemad np_sqrt np_pi nd_memo (of_vec L) None) (j :: nil).
      Proof. apply scale_doublemad_lane; first [exact mo | assumption]. Qed.

      (** NumPy's own reductions (np.median, np.mean, np.std): definitionally the lane function *)
      Lemma main_reduce_lane f j : 0 <= j < nth k sh 0 ->
        (shape (np_reduce f A (Some k0) false) = remove_nth k sh /\ get (np_reduce f A (Some k0) false) (remove_nth k I0) = f L) /\
        (shape (np_reduce f A (Some k0) true) = set_nth k 1 sh /\ bc sh (shape (np_reduce f A (Some k0) true)) /\
         rd (np_reduce f A (Some k0) true) (set_nth k j I0) = f L).
      Proof. intro Hj. split; [now apply reduce_lane|now apply reduce_kd_lane]. Qed.
    End Axis.

    (** axis=None: the estimator of the flattened data *)
    Section Flat.
      Hypothesis Hne : all_idx sh <> nil.
      Lemma main_flat m F : sfn m = Some F ->
        shape (F A None) = nil /\ get (F A None) nil = get (F (of_vec (ravel A)) None) nil.
      Proof. intro HF. destruct m; cbn in HF; try discriminate; injection HF as <-.
        - apply scale_iqr_flat; first [exact mo | assumption].
        - apply (scale_mad_flat np_sqrt np_pi nd_memo mo sh); assumption.
        - split; [reflexivity|]. rewrite !(scale_diffcov_flat np_sqrt np_cov01 nd_memo). cbn [get scalar]. now rewrite ravel_of_vec.
        - split; [reflexivity|]. unfold scale_biweight. rewrite reduce_vec. reflexivity.
        - split; [reflexivity|]. rewrite !(scale_qn_flat nd_memo). cbn [get scalar]. now rewrite ravel_of_vec.
        - split; [reflexivity|]. unfold scale_sn. rewrite (apply_along_axes_vec nd_memo). reflexivity.
        - split; [reflexivity|]. rewrite !(scale_gapper_flat np_sqrt np_pi nd_memo). cbn [get scalar]. now rewrite ravel_of_vec. Qed.

      Lemma main_doublemad_flat j : 0 <= j < Z.of_nat (length (all_idx sh)) ->
        shape (scale_doublemad np_sqrt np_pi nd_memo A None) = sh /\
        get (scale_doublemad np_sqrt np_pi nd_memo A None) (nth (Z.to_nat j) (all_idx sh) nil)
        = get (scale_doublemad np_sqrt np_pi nd_memo (of_vec (ravel A)) None) (j :: nil).
      Proof. apply scale_doublemad_flat; first [exact mo | assumption]. Qed.
    End Flat.

  End Ln.

  (** * estimate_scale: dispatch, scalarisation and keepdims reshaping *)
  Lemma est_epilogue D m F ax kd : sfn m = Some F -> est D m ax kd = epilogue nd_memo D false ax kd (F D ax).
  Proof. intro HF. destruct m; cbn in HF; try discriminate; injection HF as <-; reflexivity. Qed.

  (** 1-D data with the defaults (axis=None, keepdims=False): a scalar *)
  Lemma est_vec m F l : sfn m = Some F -> shape (F (of_vec l) None) = nil ->
    est (of_vec l) m None false = Some (scalar (get (F (of_vec l) None) nil)).
  Proof. intros HF HS. rewrite (est_epilogue _ m F None false HF), (epilogue_nokd nd_memo mo). unfold size. rewrite HS. cbn [fold_right Z.eqb].
    unfold item. rewrite nd_memo_shape, nd_memo_get, HS. reflexivity. Qed.

  Section Keep.
    Variables (sh : list Z) (A : nd) (m : scale_method) (F : nd -> option Z -> nd).
    Hypothesis Hsh : sh <> nil.
    Hypothesis HA : shape A = sh.
    Hypothesis HF : sfn m = Some F.

    (** axis=k0, keepdims=True: the result has the input's shape with axis k0 set to 1 (so it broadcasts against the
        input) and, read at any sample of a lane, it is what estimate_scale returns for that lane as a 1-D array *)
    Theorem main_keepdims_axis k0 I0 : in_range sh I0 -> - Z.of_nat (length sh) <= k0 < Z.of_nat (length sh) ->
      let k := axis_of sh k0 in 1 <= nth k sh 0 ->
      exists B v, est A m (Some k0) true = Some B /\ shape B = set_nth k 1 sh /\ bc sh (shape B) /\
                  est (of_vec (lane A k I0)) m None false = Some (scalar v) /\
                  forall j, 0 <= j < nth k sh 0 -> rd B (set_nth k j I0) = v.
    Proof. intros HI Hk0 k Hn.
      destruct (main_lane sh A Hsh HA k0 I0 HI Hn m F HF) as [S G]. fold k in S, G.
      destruct (epilogue_keepdims_axis np_sqrt np_pi nd_memo mo sh k0 A (F A (Some k0)) Hsh HA S Hk0) as [B [E [SB [BB R]]]]. fold k in SB, R.
      exists B, (get (F (of_vec (lane A k I0)) None) nil). split; [now rewrite (est_epilogue _ m F _ _ HF)|].
      split; [exact SB|]. split; [exact BB|]. split.
      - apply est_vec; [exact HF|].
        assert (Hl : 1 <= vlen (lane A k I0)) by (rewrite vlen_lane; rewrite HA; lia).
        destruct (main_flat (vlen (lane A k I0) :: nil) (of_vec (lane A k I0)) ltac:(discriminate) eq_refl) with (m := m) (F := F) as [S0 _]; [|exact HF|exact S0].
        rewrite all_idx_1. intro E0. apply (f_equal (@length _)) in E0. rewrite map_length, zrange_length in E0. cbn in E0. lia.
      - intros j Hj. rewrite R by (now apply in_range_set_nth). rewrite remove_set_nth. exact G. Qed.

    (** axis=None, keepdims=True: an all-ones shape; every sample reads the estimate of the flattened data *)
    Theorem main_keepdims_none : all_idx sh <> nil ->
      exists B v, est A m None true = Some B /\ shape B = map (fun _ => 1) sh /\ bc sh (shape B) /\
                  est (of_vec (ravel A)) m None false = Some (scalar v) /\
                  forall I, length I = length sh -> rd B I = v.
    Proof. intro Hne. destruct (main_flat sh A Hsh HA Hne m F HF) as [S G].
      destruct (epilogue_keepdims_none np_sqrt np_pi nd_memo mo sh A (F A None) HA S) as [B [E [SB [BB R]]]].
      exists B, (get (F (of_vec (ravel A)) None) nil). split; [now rewrite (est_epilogue _ m F _ _ HF)|].
      split; [exact SB|]. split; [exact BB|]. split.
      - apply est_vec; [exact HF|].
        assert (Hl : 1 <= vlen (ravel A)).
        { unfold vlen, ravel. rewrite map_length, HA. destruct (all_idx sh); [congruence|cbn; lia]. }
        destruct (main_flat (vlen (ravel A) :: nil) (of_vec (ravel A)) ltac:(discriminate) eq_refl) with (m := m) (F := F) as [S0 _]; [|exact HF|exact S0].
        rewrite all_idx_1. intro E0. apply (f_equal (@length _)) in E0. rewrite map_length, zrange_length in E0. cbn in E0. lia.
      - intros I HI. rewrite R by exact HI. exact G. Qed.
  End Keep.

  (** * estimate_zscore *)
  Notation zsc := (estimate_zscore np_sqrt np_pi np_std1 biweight1 np_cov01 nd_memo).

  (** finiteness: whenever the location and the scale have been obtained and broadcast against the data, the Z-scores are
      (sample - location) / divisor with a strictly positive divisor, and have the shape of the data *)
  Theorem main_zscore_finite sh data lm sm axis loc scale I : sh <> nil -> shape data = sh ->
    (if loc_method_eqb lm L_norm then Some (const1 (qz 0)) else estimate_loc data lm axis true) = Some loc ->
    (if scale_method_eqb sm S_norm then Some (const1 (qz 1)) else est data sm axis true) = Some scale ->
    bc sh (shape loc) -> bc sh (shape scale) -> in_range sh I ->
    exists z s, zsc data lm sm axis = Some (z, nd_memo loc, s) /\
      (Q2Qc 0 < rd s I)%Qc /\ rd z I = ((rd data I - rd loc I) / rd s I)%Qc /\ shape z = sh.
  Proof. intros Hsh Hd El Es Bl Bs HI. rewrite estimate_zscore_unfold, El, Es.
    pose proof (zscore_divisor_positive nd_memo mo sh data (nd_memo loc) (nd_memo scale) axis Hsh Hd
                  ltac:(now rewrite nd_memo_shape) ltac:(now rewrite nd_memo_shape) I HI) as P.
    destruct (ztail nd_memo data (nd_memo loc) (nd_memo scale) axis) as [[z l] s] eqn:E.
    assert (l = nd_memo loc) by (unfold ztail in E; cbv zeta in E; now injection E). subst l.
    exists z, s. split; [reflexivity|]. destruct P as [P1 [P2 P3]]. repeat split; try assumption.
    rewrite P2. unfold rd at 2. now rewrite nd_memo_shape, nd_memo_get. Qed.

  (** the location of the 'norm' method and of the two estimators broadcasts against the data *)
  Lemma main_loc_bc sh data lm axis loc : sh <> nil -> shape data = sh ->
    (if loc_method_eqb lm L_norm then Some (const1 (qz 0)) else estimate_loc data lm axis true) = Some loc ->
    (forall d, In d sh -> True) -> length sh = 1%nat \/ lm <> L_norm -> bc sh (shape loc).
  Proof. intros Hsh Hd E _ Hr. destruct lm; cbn in E; try discriminate; injection E as <-.
    - rewrite <- Hd. apply bc_reduce. now rewrite Hd.
    - rewrite <- Hd. apply bc_reduce. now rewrite Hd.
    - destruct Hr as [Hr|Hr]; [|congruence]. destruct sh as [|d [|? ?]]; try discriminate. right. constructor; [now left|constructor]. Qed.
End Main.
