(** C05: pointing angles outside the usual ranges.  [to_sigproc] stores [Angle.deg]: a linear map of the number held by
    the Angle, whatever its sign or size -- nothing wraps at a full turn, clips at the horizon or drops a sign.
    Exact rationals; [r] = degrees per radian, any positive number. *)
From Coq Require Import ZArith List Bool QArith Lqa Lia.
Require Import SPP.Gen.C05Header SPP.Model.C05_HeaderCodec SPP.Model.C05_RaDec.
Open Scope Q_scope.

Lemma deg_per_pos r u : 0 < r -> 0 < deg_per r u.
Proof. intros H. destruct u; cbn; try reflexivity; assumption. Qed.

(** the sign of the stored number is the sign of the Angle *)
Lemma deg_of_sign r a : 0 < r ->
  (0 < fst a -> 0 < deg_of r a) /\ (fst a < 0 -> deg_of r a < 0) /\ (fst a == 0 -> deg_of r a == 0).
Proof.
  intros Hr. pose proof (deg_per_pos r (snd a) Hr) as Hd. unfold deg_of. repeat split; intros H.
  - nra.
  - nra.
  - rewrite H. ring.
Qed.

(** additive and homogeneous: a full turn more in the Angle is 360 degrees more in the file (no wrap), twice the angle is
    twice the number (no clip) *)
Lemma deg_of_add r x y u : deg_of r (x + y, u) == deg_of r (x, u) + deg_of r (y, u).
Proof. unfold deg_of. cbn [fst snd]. ring. Qed.

Lemma deg_of_scale r c x u : deg_of r (c * x, u) == c * deg_of r (x, u).
Proof. unfold deg_of. cbn [fst snd]. ring. Qed.

Lemma deg_of_turn r x u : ~ r == 0 -> deg_of r (x + 360 / deg_per r u, u) == deg_of r (x, u) + 360.
Proof.
  intros E. unfold deg_of. cbn [fst snd]. destruct u; cbn [deg_per]; try field; assumption.
Qed.

(** injective: two different Angles (same unit) never share a stored number -- so neither [abs] nor a wrap is hidden in it *)
Lemma deg_of_inj r x y u : 0 < r -> deg_of r (x, u) == deg_of r (y, u) -> x == y.
Proof.
  intros Hr. pose proof (deg_per_pos r u Hr) as Hd. unfold deg_of. cbn [fst snd]. intros H. nra.
Qed.

(** what is written when the source stores degrees ([angle_written true]); and a wrong-unit store differs *)
Lemma angle_written_deg r a : angle_written true r a == deg_of r a.
Proof. reflexivity. Qed.

(** the stored pair of the current source, when the generator read "degrees, keys not crossed" *)
Lemma pointing_written_status :
  if pointing_ok return Prop
  then forall r zen az, za_start_written r zen az == deg_of r zen /\ az_start_written r zen az == deg_of r az
  else True.
Proof.
  remember pointing_ok as b eqn:E. vm_compute in E. subst b. cbv iota.
  first [ intros r zen az; unfold za_start_written, az_start_written; cbn; split; reflexivity | exact I ].
Qed.
