(** C11: corollaries of the pipe theorem (mean, gulp independence, cell uniqueness) and the sub-range verdict. *)
From Coq Require Import ZArith QArith Qfield List Bool Lia ZifyBool.
Require Import SPP.Base.Rt SPP.Base.Iter SPP.Gen.Plan SPP.Gen.C11Fold SPP.Model.C11_rt SPP.Model.Stream SPP.Model.Plan
               SPP.Model.C11_fold SPP.Proofs.C11_kernel SPP.Proofs.C11_pipe.
Import ListNotations.
Open Scope Z_scope.

(** the final [fold_ar /= count_ar]: a cell that received samples holds their mean *)
Lemma cell_mean_spec f cn k : cn k <> 0 -> (cell_mean f cn k * inject_Z (cn k) == inject_Z (f k))%Q.
Proof. intro H. unfold cell_mean. field. apply inject_Z_neq0. exact H. Qed.

Theorem fold_is_mean fs nch N gulp start nsamps nn md delays tsamp period accel nbins nints nbands :
  1 <= nfiles fs -> 1 <= nch -> total fs = N * nch -> 0 <= start -> 1 <= nsamps -> start + nsamps <= N -> 1 <= gulp ->
  0 <= md < nsamps -> (forall c, 0 <= c < nch -> 0 <= delays c <= md) -> 1 <= nbins -> 1 <= nints -> 1 <= nbands ->
  1 <= fold_total N start nsamps nn ->
  exists f cn, fold_pipe fs nch gulp start nsamps nn md delays tsamp period accel nbins nints nbands = Some (f, cn) /\
    forall k, cn k <> 0 ->
      (cell_mean f cn k * inject_Z (cellsum nch (pcell nch N start nsamps nn tsamp period accel nbins nints nbands) (fun _ _ => 1%Z) (nsamps - md)%Z k)
       == inject_Z (cellsum nch (pcell nch N start nsamps nn tsamp period accel nbins nints nbands) (pval fs nch start delays) (nsamps - md)%Z k))%Q.
Proof. intros. destruct (fold_pipe_spec fs nch N gulp start nsamps nn md delays tsamp period accel nbins nints nbands) as [f [cn [E S]]]; try assumption.
  exists f, cn. split; [exact E|]. intros k Hk. destruct (S k) as [Sf Sc]. rewrite <- Sf, <- Sc. apply cell_mean_spec. exact Hk. Qed.

(** changing only the gulp never changes the accumulators *)
Theorem fold_gulp_irrelevant fs nch N g1 g2 start nsamps nn md delays tsamp period accel nbins nints nbands :
  1 <= nfiles fs -> 1 <= nch -> total fs = N * nch -> 0 <= start -> 1 <= nsamps -> start + nsamps <= N -> 1 <= g1 -> 1 <= g2 ->
  0 <= md < nsamps -> (forall c, 0 <= c < nch -> 0 <= delays c <= md) -> 1 <= nbins -> 1 <= nints -> 1 <= nbands ->
  1 <= fold_total N start nsamps nn ->
  exists f1 c1 f2 c2,
    fold_pipe fs nch g1 start nsamps nn md delays tsamp period accel nbins nints nbands = Some (f1, c1) /\
    fold_pipe fs nch g2 start nsamps nn md delays tsamp period accel nbins nints nbands = Some (f2, c2) /\
    forall k, f1 k = f2 k /\ c1 k = c2 k.
Proof. intros.
  destruct (fold_pipe_spec fs nch N g1 start nsamps nn md delays tsamp period accel nbins nints nbands) as [f1 [c1 [E1 S1]]]; try assumption.
  destruct (fold_pipe_spec fs nch N g2 start nsamps nn md delays tsamp period accel nbins nints nbands) as [f2 [c2 [E2 S2]]]; try assumption.
  exists f1, c1, f2, c2. split; [exact E1|]. split; [exact E2|]. intro k.
  destruct (S1 k) as [A1 B1]. destruct (S2 k) as [A2 B2]. rewrite A1, A2, B1, B2. split; reflexivity. Qed.

(** every folded (sample, channel) has exactly one cell: it lies inside the accumulators and is the cube position
    [subint, sub_band, phasebin], each coordinate inside its dimension; distinct coordinates are distinct positions *)
Theorem fold_cell_unique nch N start nsamps nn md tsamp period accel nbins nints nbands a c :
  1 <= nch -> 0 <= start -> 1 <= nsamps -> start + nsamps <= N -> (nn = 1 -> nsamps = N - start) -> 0 <= md < nsamps ->
  1 <= nbins -> 1 <= nints -> 1 <= nbands -> 0 <= a < nsamps - md -> 0 <= c < nch ->
  let nb := fold_nbands nbands nch in let tot := fold_total N start nsamps nn in
  let i := subint_of tot nints a in let b := subband_of nch nb c in let p := fold_phasebin tsamp period accel tot nbins 0 a in
  0 <= i < nints /\ 0 <= b < nb /\ 0 <= p < nbins /\
  pcell nch N start nsamps nn tsamp period accel nbins nints nbands a c = cube_index (fold_cube_dims nints nb nbins) i b p /\
  0 <= pcell nch N start nsamps nn tsamp period accel nbins nints nbands a c < fold_ncells nbins nints nb /\
  (forall i' b' p', 0 <= b' < nb -> 0 <= p' < nbins ->
     cube_index (fold_cube_dims nints nb nbins) i' b' p' = pcell nch N start nsamps nn tsamp period accel nbins nints nbands a c -> i' = i /\ b' = b /\ p' = p).
Proof. intros Hc Hs Hn Hr Hnn Hmd Hnbins Hnints Hnbands Ha Hcx. cbv zeta.
  pose proof (fold_total_ge N start nsamps nn Hs Hn Hr Hnn) as Htg.
  pose proof (fold_nbands_facts nbands nch Hnbands Hc) as Hnb.
  assert (R1 : 0 <= subint_of (fold_total N start nsamps nn) nints a < nints) by (apply subint_range; lia).
  assert (R2 : 0 <= subband_of nch (fold_nbands nbands nch) c < fold_nbands nbands nch) by (apply subband_range; lia).
  assert (R3 : 0 <= fold_phasebin tsamp period accel (fold_total N start nsamps nn) nbins 0 a < nbins) by (apply fold_phasebin_range; lia).
  repeat split; try lia; try apply pcell_cube.
  - apply pcell_range with (md := md); lia.
  - apply pcell_range with (md := md); lia.
  - rewrite pcell_cube, fold_cube_dims_eq in H1. apply cube_index_inj in H1; try lia.
  - rewrite pcell_cube, fold_cube_dims_eq in H1. apply cube_index_inj in H1; try lia.
  - rewrite pcell_cube, fold_cube_dims_eq in H1. apply cube_index_inj in H1; try lia. Qed.

(** * the sub-integration span of a sub-range *)

(** the sample count handed to the kernel as total_nsamps (over which the nints sub-integrations are spread and from
    which the phase formula takes tobs) is the number of selected samples *)
Definition total_is_selection : Prop :=
  forall N start nsamps, fold_total N start nsamps 0 = nsamps /\ fold_total N start nsamps 1 = N - start.

(** either the law holds, or the regenerated call site passes something else and the model exhibits the consequence:
    folding the first 4 of 8 samples into 2 sub-integrations leaves the second sub-integration empty *)
Theorem fold_subrange_verdict :
  total_is_selection \/
  (fold_total 8 0 4 0 <> 4 /\
   option_map (fun p => to_list 2 (snd p))
     (fold_pipe [mkfile [224] [1; 2; 3; 4; 5; 6; 7; 8]] 1 8 0 4 0 0 (of_list [0]) (1 # 1000) (1 # 100) 0 1 2 1) = Some [4; 0]).
Proof. first [ left; intros N start nsamps; split; reflexivity
             | right; split; [vm_compute; discriminate | vm_compute; reflexivity] ]. Qed.

Lemma selection_total N start nsamps nn : total_is_selection -> (nn = 0 \/ (nn = 1 /\ nsamps = N - start)) -> fold_total N start nsamps nn = nsamps.
Proof. intros H [->|[-> ->]]; apply H. Qed.

(** * the delays handed to the kernel *)

(** the kernel's precondition 0 <= delays[c] <= maxdelay holds for EVERY dispersion-delay vector (either band orientation),
    maxdelay being the largest delay handed over -- or the regenerated call site passes a negative delay through *)
Theorem fold_delays_verdict :
  (forall dmin dmax d, dmin <= d <= dmax -> 0 <= fold_delay_of dmin d <= fold_delay_of dmin dmax) \/
  fold_delay_of (-3) (-3) < 0.
Proof. first [ left; intros dmin dmax d H; unfold fold_delay_of; lia | right; vm_compute; reflexivity ]. Qed.
