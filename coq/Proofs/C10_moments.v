(** Lemmas for C10 (online channel statistics) about Gen/Moments.v (regenerated from kernels.py) and
    Model/C10_moments.v. *)
From Coq Require Import ZArith QArith Qfield List Bool Lia.
Require Import SPP.Model.C10_rt SPP.Gen.Moments SPP.Model.C10_moments.
Import ListNotations.
Open Scope Q_scope.

(** * integer wraps disappear when nothing overflows *)
Lemma wrap64_id z : in64 z -> wrap64 z = z.
Proof. unfold in64, wrap64. intros H. rewrite Z.mod_small; lia. Qed.
Lemma wrap32_id z : in32 z -> wrap32 z = z.
Proof. unfold in32, wrap32. intros H. rewrite Z.mod_small; lia. Qed.

Ltac split_ok :=
  repeat match goal with H : _ /\ _ |- _ => destruct H end.
Ltac nowrap :=
  split_ok;
  repeat match goal with
  | |- context [wrap64 ?z] => rewrite (wrap64_id z) by assumption
  | |- context [wrap32 ?z] => rewrite (wrap32_id z) by assumption
  end.

Lemma update_moments_nowrap val m1 m2 m3 m4 n :
  update_moments_ok val m1 m2 m3 m4 n -> update_moments val m1 m2 m3 m4 n = update_moments_ideal val m1 m2 m3 m4 n.
Proof. unfold update_moments_ok, update_moments, update_moments_ideal. cbv zeta. intro H. nowrap. reflexivity. Qed.

Lemma update_moments_basic_nowrap val m1 m2 n :
  update_moments_basic_ok val m1 m2 n -> update_moments_basic val m1 m2 n = update_moments_basic_ideal val m1 m2 n.
Proof. unfold update_moments_basic_ok, update_moments_basic, update_moments_basic_ideal. cbv zeta. intro H. nowrap. reflexivity. Qed.

Lemma add_online_moments_nowrap na a1 a2 a3 a4 alo ahi nb b1 b2 b3 b4 blo bhi :
  add_online_moments_ok na a1 a2 a3 a4 alo ahi nb b1 b2 b3 b4 blo bhi ->
  add_online_moments na a1 a2 a3 a4 alo ahi nb b1 b2 b3 b4 blo bhi =
  add_online_moments_ideal na a1 a2 a3 a4 alo ahi nb b1 b2 b3 b4 blo bhi.
Proof. unfold add_online_moments_ok, add_online_moments, add_online_moments_ideal. cbv zeta. intro H. nowrap. reflexivity. Qed.

(** the side conditions follow from the int32 range of the count *)
Lemma update_moments_ok_of_range val m1 m2 m3 m4 n : (0 <= n < 2 ^ 31)%Z -> update_moments_ok val m1 m2 m3 m4 n.
Proof. intros H. unfold update_moments_ok. cbv zeta. unfold in64. repeat split; try nia. Qed.
Lemma update_moments_basic_ok_of_range val m1 m2 n : (0 <= n < 2 ^ 31)%Z -> update_moments_basic_ok val m1 m2 n.
Proof. intros H. unfold update_moments_basic_ok. cbv zeta. unfold in64. repeat split; try nia. Qed.
Lemma z2q_nz n : (n <> 0)%Z -> ~ z2q n == 0.
Proof. unfold z2q, Qeq; simpl. lia. Qed.

Ltac z2q_push := unfold z2q; repeat (rewrite ?inject_Z_plus, ?inject_Z_mult, ?inject_Z_opp; unfold Z.sub).

Lemma upd_full_alg (n : Z) (x s1 s2 s3 s4 a1 a2 a3 a4 : Q) : (1 <= n)%Z ->
  let N := z2q n in
  a1 == s1 / N -> a2 == c2 N s1 s2 -> a3 == c3 N s1 s2 s3 -> a4 == c4 N s1 s2 s3 s4 ->
  let '(b1, b2, b3, b4, k) := update_moments_ideal x a1 a2 a3 a4 n in
  k = (n + 1)%Z /\ b1 == (s1 + x) / (N + 1) /\ b2 == c2 (N + 1) (s1 + x) (s2 + x * x) /\
  b3 == c3 (N + 1) (s1 + x) (s2 + x * x) (s3 + x * x * x) /\
  b4 == c4 (N + 1) (s1 + x) (s2 + x * x) (s3 + x * x * x) (s4 + x * x * x * x).
Proof.
  intros Hn N H1 H2 H3 H4. unfold update_moments_ideal. cbv zeta.
  assert (HN : ~ N == 0) by (apply z2q_nz; lia).
  assert (HN1 : ~ N + 1 == 0).
  { unfold N, z2q, Qeq; simpl. lia. }
  split; [reflexivity|].
  z2q_push. fold (z2q n). fold N. change (inject_Z 1) with 1. change (inject_Z 3) with 3. change (inject_Z 2) with 2.
  rewrite H1, H2, H3, H4. unfold c2, c3, c4.
  repeat split; field; auto.
Qed.
Lemma upd_full_alg0 (x a1 a2 a3 a4 : Q) :
  a1 == 0 -> a2 == 0 -> a3 == 0 -> a4 == 0 ->
  let '(b1, b2, b3, b4, k) := update_moments_ideal x a1 a2 a3 a4 0 in
  k = 1%Z /\ b1 == x /\ b2 == 0 /\ b3 == 0 /\ b4 == 0.
Proof.
  intros H1 H2 H3 H4. unfold update_moments_ideal. cbv zeta. split; [reflexivity|].
  rewrite H1, H2, H3, H4. simpl. unfold z2q. simpl.
  repeat split; field.
Qed.

Lemma upd_basic_alg (n : Z) (x s1 s2 a1 a2 : Q) : (1 <= n)%Z ->
  let N := z2q n in
  a1 == s1 / N -> a2 == c2 N s1 s2 ->
  let '(b1, b2, k) := update_moments_basic_ideal x a1 a2 n in
  k = (n + 1)%Z /\ b1 == (s1 + x) / (N + 1) /\ b2 == c2 (N + 1) (s1 + x) (s2 + x * x).
Proof.
  intros Hn N H1 H2. unfold update_moments_basic_ideal. cbv zeta.
  assert (HN : ~ N == 0) by (apply z2q_nz; lia).
  assert (HN1 : ~ N + 1 == 0) by (unfold N, z2q, Qeq; simpl; lia).
  split; [reflexivity|].
  z2q_push. fold (z2q n). fold N. change (inject_Z 1) with 1.
  rewrite H1, H2. unfold c2.
  repeat split; field; auto.
Qed.

Lemma upd_basic_alg0 (x a1 a2 : Q) :
  a1 == 0 -> a2 == 0 ->
  let '(b1, b2, k) := update_moments_basic_ideal x a1 a2 0 in
  k = 1%Z /\ b1 == x /\ b2 == 0.
Proof.
  intros H1 H2. unfold update_moments_basic_ideal. cbv zeta. split; [reflexivity|].
  rewrite H1, H2. simpl. unfold z2q. simpl.
  repeat split; field.
Qed.

(** power sums over an appended sample *)
Lemma qsum_app l r : qsum (l ++ r) == qsum l + qsum r.
Proof. induction l as [|y l IH]; simpl; [ring|rewrite IH; ring]. Qed.
Lemma psum1_app l r : psum1 (l ++ r) == psum1 l + psum1 r.
Proof. apply qsum_app. Qed.
Lemma psum2_app l r : psum2 (l ++ r) == psum2 l + psum2 r.
Proof. unfold psum2. rewrite map_app. apply qsum_app. Qed.
Lemma psum3_app l r : psum3 (l ++ r) == psum3 l + psum3 r.
Proof. unfold psum3. rewrite map_app. apply qsum_app. Qed.
Lemma psum4_app l r : psum4 (l ++ r) == psum4 l + psum4 r.
Proof. unfold psum4. rewrite map_app. apply qsum_app. Qed.
Lemma zlen_app {A} (l r : list A) : zlen (l ++ r) = (zlen l + zlen r)%Z.
Proof. unfold zlen. rewrite app_length. lia. Qed.
Lemma zlen_nonneg {A} (l : list A) : (0 <= zlen l)%Z.
Proof. unfold zlen. lia. Qed.
Lemma zlen_cons_pos {A} (x : A) l : (1 <= zlen (x :: l))%Z.
Proof. unfold zlen. simpl length. lia. Qed.

Lemma step_full_inv l a b c d n lo hi x :
  inv_full l (MkSt n a b c d lo hi) -> (zlen l < 2 ^ 31 - 1)%Z ->
  exists a' b' c' d', step_full (a, b, c, d, n, lo, hi) x = (a', b', c', d', (n + 1)%Z, qmin lo x, qmax hi x) /\
    inv_full (l ++ [x]) (MkSt (n + 1) a' b' c' d' (qmin lo x) (qmax hi x)).
Proof.
  intros [Hc Hm] Hb. cbn [s_cnt s_m1 s_m2 s_m3 s_m4] in *. unfold step_full, compute_online_moments_step.
  pose proof (zlen_nonneg l) as Hl0.
  rewrite update_moments_nowrap by (apply update_moments_ok_of_range; lia).
  destruct l as [|y l].
  - destruct Hm as (H1 & H2 & H3 & H4). subst n. change (zlen (@nil Q)) with 0%Z.
    pose proof (upd_full_alg0 x a b c d H1 H2 H3 H4) as A.
    destruct (update_moments_ideal x a b c d 0) as [[[[a' b'] c'] d'] k]. destruct A as (-> & A1 & A2 & A3 & A4).
    exists a', b', c', d'. split; [reflexivity|]. split; [reflexivity|].
    cbn [app s_m1 s_m2 s_m3 s_m4]. cbv zeta.
    unfold psum1, psum2, psum3, psum4, c2, c3, c4, z2q, zlen. cbn [map qsum length Z.of_nat Pos.of_succ_nat].
    change (inject_Z 1) with 1.
    rewrite A1, A2, A3, A4. repeat split; field.
  - cbv zeta in Hm. destruct Hm as (H1 & H2 & H3 & H4).
    pose proof (zlen_cons_pos y l) as Hpos.
    pose proof (upd_full_alg n x (psum1 (y :: l)) (psum2 (y :: l)) (psum3 (y :: l)) (psum4 (y :: l)) a b c d ltac:(lia)) as A.
    cbv zeta in A. rewrite Hc in A.
    specialize (A H1 H2 H3 H4). rewrite <- Hc in A.
    destruct (update_moments_ideal x a b c d n) as [[[[a' b'] c'] d'] k]. destruct A as (-> & A1 & A2 & A3 & A4).
    exists a', b', c', d'. split; [reflexivity|]. split.
    + cbn [s_cnt]. rewrite zlen_app. rewrite Hc. reflexivity.
    + change ((y :: l) ++ [x]) with (y :: (l ++ [x])). cbv iota zeta. cbn [s_m1 s_m2 s_m3 s_m4].
      change (y :: l ++ [x]) with ((y :: l) ++ [x]).
      set (L := y :: l) in *.
      assert (HN1 : ~ z2q (zlen L) + 1 == 0) by (unfold z2q, Qeq; simpl; lia).
      assert (E : z2q (zlen (L ++ [x])) == z2q (zlen L) + 1).
      { rewrite zlen_app. change (zlen [x]) with 1%Z. unfold z2q. rewrite inject_Z_plus. reflexivity. }
      assert (E1 : psum1 (L ++ [x]) == psum1 L + x) by (rewrite psum1_app; unfold psum1; simpl; ring).
      assert (E2 : psum2 (L ++ [x]) == psum2 L + x * x) by (rewrite psum2_app; unfold psum2 at 2; simpl; ring).
      assert (E3 : psum3 (L ++ [x]) == psum3 L + x * x * x) by (rewrite psum3_app; unfold psum3 at 2; simpl; ring).
      assert (E4 : psum4 (L ++ [x]) == psum4 L + x * x * x * x) by (rewrite psum4_app; unfold psum4 at 2; simpl; ring).
      rewrite A1, A2, A3, A4. rewrite Hc. unfold c2, c3, c4. rewrite E, E1, E2, E3, E4.
      repeat split; reflexivity.
Qed.
Lemma step_basic_inv l a b n lo hi m3 m4 x :
  inv_basic l (MkSt n a b m3 m4 lo hi) -> (zlen l < 2 ^ 31 - 1)%Z ->
  exists a' b', step_basic (a, b, n, lo, hi) x = (a', b', (n + 1)%Z, qmin lo x, qmax hi x) /\
    inv_basic (l ++ [x]) (MkSt (n + 1) a' b' m3 m4 (qmin lo x) (qmax hi x)).
Proof.
  intros [Hc Hm] Hb. cbn [s_cnt s_m1 s_m2 s_m3 s_m4] in *. unfold step_basic, compute_online_moments_basic_step.
  pose proof (zlen_nonneg l) as Hl0.
  rewrite update_moments_basic_nowrap by (apply update_moments_basic_ok_of_range; lia).
  destruct l as [|y l].
  - destruct Hm as (H1 & H2). subst n. change (zlen (@nil Q)) with 0%Z.
    pose proof (upd_basic_alg0 x a b H1 H2) as A.
    destruct (update_moments_basic_ideal x a b 0) as [[a' b'] k]. destruct A as (-> & A1 & A2).
    exists a', b'. split; [reflexivity|]. split; [reflexivity|].
    cbn [app s_m1 s_m2 s_m3 s_m4]. cbv zeta.
    unfold psum1, psum2, c2, z2q, zlen. cbn [map qsum length Z.of_nat Pos.of_succ_nat].
    change (inject_Z 1) with 1.
    rewrite A1, A2. repeat split; field.
  - cbv zeta in Hm. destruct Hm as (H1 & H2).
    pose proof (zlen_cons_pos y l) as Hpos.
    pose proof (upd_basic_alg n x (psum1 (y :: l)) (psum2 (y :: l)) a b ltac:(lia)) as A.
    cbv zeta in A. rewrite Hc in A.
    specialize (A H1 H2). rewrite <- Hc in A.
    destruct (update_moments_basic_ideal x a b n) as [[a' b'] k]. destruct A as (-> & A1 & A2).
    exists a', b'. split; [reflexivity|]. split.
    + cbn [s_cnt]. rewrite zlen_app. rewrite Hc. reflexivity.
    + change ((y :: l) ++ [x]) with (y :: (l ++ [x])). cbv iota zeta. cbn [s_m1 s_m2 s_m3 s_m4].
      change (y :: l ++ [x]) with ((y :: l) ++ [x]).
      set (L := y :: l) in *.
      assert (E : z2q (zlen (L ++ [x])) == z2q (zlen L) + 1).
      { rewrite zlen_app. change (zlen [x]) with 1%Z. unfold z2q. rewrite inject_Z_plus. reflexivity. }
      assert (E1 : psum1 (L ++ [x]) == psum1 L + x) by (rewrite psum1_app; unfold psum1; simpl; ring).
      assert (E2 : psum2 (L ++ [x]) == psum2 L + x * x) by (rewrite psum2_app; unfold psum2 at 2; simpl; ring).
      rewrite A1, A2. rewrite Hc. unfold c2. rewrite E, E1, E2.
      repeat split; reflexivity.
Qed.

(** a whole chunk: the moments follow the invariant, min/max fold over the chunk *)
Lemma fold_full_inv chunk : forall l a b c d n lo hi,
  inv_full l (MkSt n a b c d lo hi) -> (zlen l + zlen chunk < 2 ^ 31)%Z ->
  exists a' b' c' d', fold_left step_full chunk (a, b, c, d, n, lo, hi) = (a', b', c', d', (n + zlen chunk)%Z, lmin lo chunk, lmax hi chunk) /\
    inv_full (l ++ chunk) (MkSt (n + zlen chunk) a' b' c' d' (lmin lo chunk) (lmax hi chunk)).
Proof.
  induction chunk as [|x chunk IH]; intros l a b c d n lo hi Hi Hb.
  - exists a, b, c, d. change (zlen (@nil Q)) with 0%Z. rewrite Z.add_0_r, app_nil_r. split; [reflexivity|exact Hi].
  - assert (Hx : zlen (x :: chunk) = (1 + zlen chunk)%Z) by (unfold zlen; simpl length; lia).
    pose proof (zlen_nonneg chunk).
    destruct (step_full_inv l a b c d n lo hi x Hi ltac:(lia)) as (a1 & b1 & c1 & d1 & E1 & I1).
    destruct (IH (l ++ [x]) a1 b1 c1 d1 (n + 1)%Z (qmin lo x) (qmax hi x) I1) as (a2 & b2 & c2' & d2 & E2 & I2).
    { rewrite zlen_app. change (zlen [x]) with 1%Z. lia. }
    exists a2, b2, c2', d2. cbn [fold_left lmin lmax]. rewrite E1, E2. rewrite Hx.
    replace (n + 1 + zlen chunk)%Z with (n + (1 + zlen chunk))%Z in * by lia.
    split; [reflexivity|]. rewrite <- app_assoc in I2. exact I2.
Qed.

Lemma fold_basic_inv chunk : forall l a b n lo hi m3 m4,
  inv_basic l (MkSt n a b m3 m4 lo hi) -> (zlen l + zlen chunk < 2 ^ 31)%Z ->
  exists a' b', fold_left step_basic chunk (a, b, n, lo, hi) = (a', b', (n + zlen chunk)%Z, lmin lo chunk, lmax hi chunk) /\
    inv_basic (l ++ chunk) (MkSt (n + zlen chunk) a' b' m3 m4 (lmin lo chunk) (lmax hi chunk)).
Proof.
  induction chunk as [|x chunk IH]; intros l a b n lo hi m3 m4 Hi Hb.
  - exists a, b. change (zlen (@nil Q)) with 0%Z. rewrite Z.add_0_r, app_nil_r. split; [reflexivity|exact Hi].
  - assert (Hx : zlen (x :: chunk) = (1 + zlen chunk)%Z) by (unfold zlen; simpl length; lia).
    pose proof (zlen_nonneg chunk).
    destruct (step_basic_inv l a b n lo hi m3 m4 x Hi ltac:(lia)) as (a1 & b1 & E1 & I1).
    destruct (IH (l ++ [x]) a1 b1 (n + 1)%Z (qmin lo x) (qmax hi x) m3 m4 I1) as (a2 & b2 & E2 & I2).
    { rewrite zlen_app. change (zlen [x]) with 1%Z. lia. }
    exists a2, b2. cbn [fold_left lmin lmax]. rewrite E1, E2. rewrite Hx.
    replace (n + 1 + zlen chunk)%Z with (n + (1 + zlen chunk))%Z in * by lia.
    split; [reflexivity|]. rewrite <- app_assoc in I2. exact I2.
Qed.
(** * the pairwise merge (ideal arithmetic) in raw power sums *)
Ltac zeqb_cases := repeat match goal with |- context [(?x =? ?y)%Z] => destruct (Z.eqb_spec x y); try lia end; cbn [andb orb negb].
Lemma merge_alg (na nb : Z) (sa1 sa2 sa3 sa4 sb1 sb2 sb3 sb4 a1 a2 a3 a4 b1 b2 b3 b4 alo ahi blo bhi : Q) :
  (1 <= na)%Z -> (1 <= nb)%Z ->
  let NA := z2q na in let NB := z2q nb in
  a1 == sa1 / NA -> a2 == c2 NA sa1 sa2 -> a3 == c3 NA sa1 sa2 sa3 -> a4 == c4 NA sa1 sa2 sa3 sa4 ->
  b1 == sb1 / NB -> b2 == c2 NB sb1 sb2 -> b3 == c3 NB sb1 sb2 sb3 -> b4 == c4 NB sb1 sb2 sb3 sb4 ->
  let '(n, r1, r2, r3, r4, lo, hi) := add_online_moments_ideal na a1 a2 a3 a4 alo ahi nb b1 b2 b3 b4 blo bhi in
  n = (na + nb)%Z /\ r1 == (sa1 + sb1) / (NA + NB) /\ r2 == c2 (NA + NB) (sa1 + sb1) (sa2 + sb2) /\
  r3 == c3 (NA + NB) (sa1 + sb1) (sa2 + sb2) (sa3 + sb3) /\
  r4 == c4 (NA + NB) (sa1 + sb1) (sa2 + sb2) (sa3 + sb3) (sa4 + sb4) /\
  lo = qmin alo blo /\ hi = qmax ahi bhi.
Proof.
  intros Ha Hb NA NB A1 A2 A3 A4 B1 B2 B3 B4. unfold add_online_moments_ideal. cbv zeta.
  assert (HA : ~ NA == 0) by (apply z2q_nz; lia).
  assert (HB : ~ NB == 0) by (apply z2q_nz; lia).
  assert (HAB : ~ NA + NB == 0).
  { unfold NA, NB, z2q. rewrite <- inject_Z_plus. apply z2q_nz. lia. }
  split; [reflexivity|].
  z2q_push. fold (z2q na) (z2q nb). fold NA NB.
  rewrite A1, A2, A3, A4, B1, B2, B3, B4. unfold c2, c3, c4.
  repeat split; try (zeqb_cases; reflexivity); field; auto.
Qed.


(** an empty side (count 0, moments 0) is neutral for the moments *)
Lemma merge_alg_empty_l (nb : Z) (a1 a2 a3 a4 b1 b2 b3 b4 alo ahi blo bhi : Q) :
  (1 <= nb)%Z -> a1 == 0 -> a2 == 0 -> a3 == 0 -> a4 == 0 ->
  let '(n, r1, r2, r3, r4, lo, hi) := add_online_moments_ideal 0 a1 a2 a3 a4 alo ahi nb b1 b2 b3 b4 blo bhi in
  n = nb /\ r1 == b1 /\ r2 == b2 /\ r3 == b3 /\ r4 == b4.
Proof.
  intros Hb A1 A2 A3 A4. unfold add_online_moments_ideal. cbv zeta.
  assert (HB : ~ z2q nb == 0) by (apply z2q_nz; lia).
  split; [reflexivity|].
  rewrite ?Z.add_0_l. z2q_push. rewrite ?Z.add_0_l. fold (z2q nb). change (inject_Z 0) with 0.
  rewrite A1, A2, A3, A4.
  repeat split; field; auto.
Qed.
Lemma merge_alg_empty_r (na : Z) (a1 a2 a3 a4 b1 b2 b3 b4 alo ahi blo bhi : Q) :
  (1 <= na)%Z -> b1 == 0 -> b2 == 0 -> b3 == 0 -> b4 == 0 ->
  let '(n, r1, r2, r3, r4, lo, hi) := add_online_moments_ideal na a1 a2 a3 a4 alo ahi 0 b1 b2 b3 b4 blo bhi in
  n = na /\ r1 == a1 /\ r2 == a2 /\ r3 == a3 /\ r4 == a4.
Proof.
  intros Ha B1 B2 B3 B4. unfold add_online_moments_ideal. cbv zeta.
  assert (HA : ~ z2q na == 0) by (apply z2q_nz; lia).
  split; [apply Z.add_0_r|].
  rewrite ?Z.add_0_r. z2q_push. rewrite ?Z.add_0_r. fold (z2q na). change (inject_Z 0) with 0.
  rewrite B1, B2, B3, B4.
  repeat split; field; auto.
Qed.

(** basic mode: only m1, m2 carry meaning *)
Lemma merge_alg_basic (na nb : Z) (sa1 sa2 sb1 sb2 a1 a2 a3 a4 b1 b2 b3 b4 alo ahi blo bhi : Q) :
  (1 <= na)%Z -> (1 <= nb)%Z ->
  let NA := z2q na in let NB := z2q nb in
  a1 == sa1 / NA -> a2 == c2 NA sa1 sa2 -> b1 == sb1 / NB -> b2 == c2 NB sb1 sb2 ->
  let '(n, r1, r2, r3, r4, lo, hi) := add_online_moments_ideal na a1 a2 a3 a4 alo ahi nb b1 b2 b3 b4 blo bhi in
  n = (na + nb)%Z /\ r1 == (sa1 + sb1) / (NA + NB) /\ r2 == c2 (NA + NB) (sa1 + sb1) (sa2 + sb2).
Proof.
  intros Ha Hb NA NB A1 A2 B1 B2. unfold add_online_moments_ideal. cbv zeta.
  assert (HA : ~ NA == 0) by (apply z2q_nz; lia).
  assert (HB : ~ NB == 0) by (apply z2q_nz; lia).
  assert (HAB : ~ NA + NB == 0).
  { unfold NA, NB, z2q. rewrite <- inject_Z_plus. apply z2q_nz. lia. }
  split; [reflexivity|].
  z2q_push. fold (z2q na) (z2q nb). fold NA NB.
  rewrite A1, A2, B1, B2. unfold c2.
  repeat split; field; auto.
Qed.
Lemma merge_alg_basic_empty_l (nb : Z) (a1 a2 a3 a4 b1 b2 b3 b4 alo ahi blo bhi : Q) :
  (1 <= nb)%Z -> a1 == 0 -> a2 == 0 ->
  let '(n, r1, r2, r3, r4, lo, hi) := add_online_moments_ideal 0 a1 a2 a3 a4 alo ahi nb b1 b2 b3 b4 blo bhi in
  n = nb /\ r1 == b1 /\ r2 == b2.
Proof.
  intros Hb A1 A2. unfold add_online_moments_ideal. cbv zeta.
  assert (HB : ~ z2q nb == 0) by (apply z2q_nz; lia).
  split; [reflexivity|].
  rewrite ?Z.add_0_l. z2q_push. rewrite ?Z.add_0_l. fold (z2q nb). change (inject_Z 0) with 0.
  rewrite A1, A2.
  repeat split; field; auto.
Qed.
Lemma merge_alg_basic_empty_r (na : Z) (a1 a2 a3 a4 b1 b2 b3 b4 alo ahi blo bhi : Q) :
  (1 <= na)%Z -> b1 == 0 -> b2 == 0 ->
  let '(n, r1, r2, r3, r4, lo, hi) := add_online_moments_ideal na a1 a2 a3 a4 alo ahi 0 b1 b2 b3 b4 blo bhi in
  n = na /\ r1 == a1 /\ r2 == a2.
Proof.
  intros Ha B1 B2. unfold add_online_moments_ideal. cbv zeta.
  assert (HA : ~ z2q na == 0) by (apply z2q_nz; lia).
  split; [apply Z.add_0_r|].
  rewrite ?Z.add_0_r. z2q_push. rewrite ?Z.add_0_r. fold (z2q na). change (inject_Z 0) with 0.
  rewrite B1, B2.
  repeat split; field; auto.
Qed.

From Coq Require Import Lqa.
(** * min / max *)
Lemma qle_bool_cases a b : (Qle_bool a b = true /\ a <= b) \/ (Qle_bool a b = false /\ b < a).
Proof. destruct (Qle_bool a b) eqn:E; [left|right]; split; auto.
  - apply Qle_bool_iff; auto.
  - apply Qnot_le_lt. intro H. apply Qle_bool_iff in H. congruence. Qed.
Ltac qmm := unfold qmin, qmax;
  repeat match goal with
  | |- context [Qle_bool ?a ?b] => let E := fresh "E" in destruct (qle_bool_cases a b) as [[E ?]|[E ?]]; rewrite ?E in *; clear E
  | H : context [Qle_bool ?a ?b] |- _ => let E := fresh "E" in destruct (qle_bool_cases a b) as [[E ?]|[E ?]]; rewrite ?E in *; clear E
  end; try lra.

Global Instance qmin_comp : Proper (Qeq ==> Qeq ==> Qeq) qmin.
Proof. intros a a' Ha b b' Hb. qmm. Qed.
Global Instance qmax_comp : Proper (Qeq ==> Qeq ==> Qeq) qmax.
Proof. intros a a' Ha b b' Hb. qmm. Qed.
Lemma qmin_assoc a b c : qmin (qmin a b) c == qmin a (qmin b c).
Proof. qmm. Qed.
Lemma qmax_assoc a b c : qmax (qmax a b) c == qmax a (qmax b c).
Proof. qmm. Qed.
Lemma qmin_idem a : qmin a a = a.
Proof. unfold qmin. destruct (Qle_bool a a); reflexivity. Qed.
Lemma qmax_idem a : qmax a a = a.
Proof. unfold qmax. destruct (Qle_bool a a); reflexivity. Qed.

Lemma lmin_comp l : forall x y, x == y -> lmin x l == lmin y l.
Proof. induction l as [|z l IH]; intros x y H; simpl; auto. apply IH. rewrite H. reflexivity. Qed.
Lemma lmax_comp l : forall x y, x == y -> lmax x l == lmax y l.
Proof. induction l as [|z l IH]; intros x y H; simpl; auto. apply IH. rewrite H. reflexivity. Qed.
Lemma lmin_app l r : forall x, lmin x (l ++ r) = lmin (lmin x l) r.
Proof. induction l as [|z l IH]; intros x; simpl; auto. Qed.
Lemma lmax_app l r : forall x, lmax x (l ++ r) = lmax (lmax x l) r.
Proof. induction l as [|z l IH]; intros x; simpl; auto. Qed.
Lemma lmin_qmin l : forall a b, lmin (qmin a b) l == qmin a (lmin b l).
Proof. induction l as [|z l IH]; intros a b; simpl; [reflexivity|].
  rewrite <- IH. apply lmin_comp. apply qmin_assoc. Qed.
Lemma lmax_qmax l : forall a b, lmax (qmax a b) l == qmax a (lmax b l).
Proof. induction l as [|z l IH]; intros a b; simpl; [reflexivity|].
  rewrite <- IH. apply lmax_comp. apply qmax_assoc. Qed.

(** min/max of a concatenation of two non-empty lists *)
Lemma list_min_app la lb : la <> [] -> lb <> [] -> list_min (la ++ lb) == qmin (list_min la) (list_min lb).
Proof. destruct la as [|x la]; [congruence|]. destruct lb as [|y lb]; [congruence|]. intros _ _.
  cbn [list_min app]. rewrite lmin_app. cbn [lmin]. apply lmin_qmin. Qed.
Lemma list_max_app la lb : la <> [] -> lb <> [] -> list_max (la ++ lb) == qmax (list_max la) (list_max lb).
Proof. destruct la as [|x la]; [congruence|]. destruct lb as [|y lb]; [congruence|]. intros _ _.
  cbn [list_max app]. rewrite lmax_app. cbn [lmax]. apply lmax_qmax. Qed.
(** continuing a non-empty stream *)
Lemma list_min_cont l c : l <> [] -> list_min (l ++ c) = lmin (list_min l) c.
Proof. destruct l as [|x l]; [congruence|]. intros _. cbn [list_min app]. apply lmin_app. Qed.
Lemma list_max_cont l c : l <> [] -> list_max (l ++ c) = lmax (list_max l) c.
Proof. destruct l as [|x l]; [congruence|]. intros _. cbn [list_max app]. apply lmax_app. Qed.
(** starting from the first sample of the chunk *)
Lemma lmin_hd c : c <> [] -> lmin (hd 0 c) c = list_min c.
Proof. destruct c as [|x c]; [congruence|]. intros _. cbn [hd lmin list_min]. rewrite qmin_idem. reflexivity. Qed.
Lemma lmax_hd c : c <> [] -> lmax (hd 0 c) c = list_max c.
Proof. destruct c as [|x c]; [congruence|]. intros _. cbn [hd lmax list_max]. rewrite qmax_idem. reflexivity. Qed.
(** never initialised: the zero of np.zeros takes part *)
Lemma lmin_zero c : c <> [] -> lmin 0 c == qmin 0 (list_min c).
Proof. destruct c as [|x c]; [congruence|]. intros _. cbn [lmin list_min]. apply lmin_qmin. Qed.
Lemma lmax_zero c : c <> [] -> lmax 0 c == qmax 0 (list_max c).
Proof. destruct c as [|x c]; [congruence|]. intros _. cbn [lmax list_max]. apply lmax_qmax. Qed.
(** * push_data on one channel *)
Ltac store_count := unfold compute_online_moments_store_count, compute_online_moments_basic_store_count;
  first [rewrite wrap32_id by (unfold in32; lia) | rewrite wrap64_id by (unfold in64; lia)].

Lemma push_full_spec f chunk l s : inv_full l s -> (zlen l + zlen chunk < 2 ^ 31)%Z ->
  inv_full (l ++ chunk) (push_full f chunk s) /\
  s_min (push_full f chunk s) = lmin (if compute_online_moments_init f (s_cnt s) (zlen chunk) then hd 0 chunk else s_min s) chunk /\
  s_max (push_full f chunk s) = lmax (if compute_online_moments_init f (s_cnt s) (zlen chunk) then hd 0 chunk else s_max s) chunk.
Proof.
  destruct s as [n a b c d lo hi]. intros Hi Hb.
  unfold push_full. cbn [s_cnt s_m1 s_m2 s_m3 s_m4 s_min s_max]. set (ini := compute_online_moments_init f n (zlen chunk)).
  set (lo0 := if ini then hd 0 chunk else lo). set (hi0 := if ini then hd 0 chunk else hi).
  destruct (fold_full_inv chunk l a b c d n lo0 hi0 Hi Hb) as (a' & b' & c' & d' & E & I).
  rewrite E. pose proof (zlen_nonneg l). pose proof (zlen_nonneg chunk).
  assert (Hn : n = zlen l) by apply Hi.
  store_count. cbn [s_min s_max]. split; [exact I|split; reflexivity].
Qed.

Lemma push_basic_spec f chunk l s : inv_basic l s -> (zlen l + zlen chunk < 2 ^ 31)%Z ->
  inv_basic (l ++ chunk) (push_basic f chunk s) /\
  s_min (push_basic f chunk s) = lmin (if compute_online_moments_basic_init f (s_cnt s) (zlen chunk) then hd 0 chunk else s_min s) chunk /\
  s_max (push_basic f chunk s) = lmax (if compute_online_moments_basic_init f (s_cnt s) (zlen chunk) then hd 0 chunk else s_max s) chunk.
Proof.
  destruct s as [n a b c d lo hi]. intros Hi Hb.
  unfold push_basic. cbn [s_cnt s_m1 s_m2 s_m3 s_m4 s_min s_max]. set (ini := compute_online_moments_basic_init f n (zlen chunk)).
  set (lo0 := if ini then hd 0 chunk else lo). set (hi0 := if ini then hd 0 chunk else hi).
  destruct (fold_basic_inv chunk l a b n lo0 hi0 c d Hi Hb) as (a' & b' & E & I).
  rewrite E. pose proof (zlen_nonneg l). pose proof (zlen_nonneg chunk).
  assert (Hn : n = zlen l) by apply Hi.
  store_count. cbn [s_min s_max]. split; [exact I|split; reflexivity].
Qed.

(** * a + b on one channel *)
Definition merge_counts_ok (na nb : Z) : Prop := add_online_moments_ok na 0 0 0 0 0 0 nb 0 0 0 0 0 0.

Lemma merge_ok_any na nb a1 a2 a3 a4 alo ahi b1 b2 b3 b4 blo bhi :
  merge_counts_ok na nb -> add_online_moments_ok na a1 a2 a3 a4 alo ahi nb b1 b2 b3 b4 blo bhi.
Proof. unfold merge_counts_ok, add_online_moments_ok. cbv zeta. intro H. exact H. Qed.

Lemma zlen_nil_inv {A} (l : list A) : zlen l = 0%Z -> l = [].
Proof. destruct l; [reflexivity|]. unfold zlen. simpl length. lia. Qed.

Lemma merge_full_spec la lb a b : inv_full la a -> inv_full lb b ->
  merge_counts_ok (zlen la) (zlen lb) -> (la <> [] \/ lb <> []) ->
  inv_full (la ++ lb) (merge a b).
Proof.
  destruct a as [na a1 a2 a3 a4 alo ahi], b as [nb b1 b2 b3 b4 blo bhi].
  intros [Ha Ia] [Hb Ib] Hok Hne. cbn [s_cnt s_m1 s_m2 s_m3 s_m4] in *. subst na nb.
  unfold merge. cbn [s_cnt s_m1 s_m2 s_m3 s_m4 s_min s_max].
  rewrite add_online_moments_nowrap by (apply merge_ok_any; exact Hok).
  destruct la as [|x la]; [|destruct lb as [|y lb]].
  - destruct lb as [|y lb]; [destruct Hne; congruence|].
    destruct Ia as (A1 & A2 & A3 & A4). change (zlen (@nil Q)) with 0%Z.
    pose proof (merge_alg_empty_l (zlen (y :: lb)) a1 a2 a3 a4 b1 b2 b3 b4 alo ahi blo bhi (zlen_cons_pos y lb) A1 A2 A3 A4) as M.
    destruct (add_online_moments_ideal _ _ _ _ _ _ _ _ _ _ _ _ _ _) as [[[[[[n r1] r2] r3] r4] lo] hi].
    destruct M as (-> & R1 & R2 & R3 & R4). cbn [app]. split; [reflexivity|].
    cbn [s_m1 s_m2 s_m3 s_m4]. cbv zeta in Ib |- *. rewrite R1, R2, R3, R4. exact Ib.
  - destruct Ib as (B1 & B2 & B3 & B4). change (zlen (@nil Q)) with 0%Z. rewrite app_nil_r.
    pose proof (merge_alg_empty_r (zlen (x :: la)) a1 a2 a3 a4 b1 b2 b3 b4 alo ahi blo bhi (zlen_cons_pos x la) B1 B2 B3 B4) as M.
    destruct (add_online_moments_ideal _ _ _ _ _ _ _ _ _ _ _ _ _ _) as [[[[[[n r1] r2] r3] r4] lo] hi].
    destruct M as (-> & R1 & R2 & R3 & R4). split; [reflexivity|].
    cbn [s_m1 s_m2 s_m3 s_m4]. cbv zeta in Ia |- *. rewrite R1, R2, R3, R4. exact Ia.
  - cbv zeta in Ia, Ib. destruct Ia as (A1 & A2 & A3 & A4). destruct Ib as (B1 & B2 & B3 & B4).
    set (LA := x :: la) in *. set (LB := y :: lb) in *.
    pose proof (merge_alg (zlen LA) (zlen LB) _ _ _ _ _ _ _ _ a1 a2 a3 a4 b1 b2 b3 b4 alo ahi blo bhi
                  (zlen_cons_pos x la) (zlen_cons_pos y lb) A1 A2 A3 A4 B1 B2 B3 B4) as M.
    destruct (add_online_moments_ideal _ _ _ _ _ _ _ _ _ _ _ _ _ _) as [[[[[[n r1] r2] r3] r4] lo] hi].
    destruct M as (-> & R1 & R2 & R3 & R4 & _ & _). split.
    + cbn [s_cnt]. rewrite zlen_app. reflexivity.
    + change (LA ++ LB) with (x :: (la ++ LB)). cbv iota zeta. change (x :: la ++ LB) with (LA ++ LB).
      cbn [s_m1 s_m2 s_m3 s_m4].
      assert (E : z2q (zlen (LA ++ LB)) == z2q (zlen LA) + z2q (zlen LB)).
      { rewrite zlen_app. unfold z2q. rewrite inject_Z_plus. reflexivity. }
      rewrite R1, R2, R3, R4. unfold c2, c3, c4. rewrite E, psum1_app, psum2_app, psum3_app, psum4_app.
      repeat split; reflexivity.
Qed.
Lemma merge_basic_spec la lb a b : inv_basic la a -> inv_basic lb b ->
  merge_counts_ok (zlen la) (zlen lb) -> (la <> [] \/ lb <> []) ->
  inv_basic (la ++ lb) (merge a b).
Proof.
  destruct a as [na a1 a2 a3 a4 alo ahi], b as [nb b1 b2 b3 b4 blo bhi].
  intros [Ha Ia] [Hb Ib] Hok Hne. cbn [s_cnt s_m1 s_m2 s_m3 s_m4] in *. subst na nb.
  unfold merge. cbn [s_cnt s_m1 s_m2 s_m3 s_m4 s_min s_max].
  rewrite add_online_moments_nowrap by (apply merge_ok_any; exact Hok).
  destruct la as [|x la]; [|destruct lb as [|y lb]].
  - destruct lb as [|y lb]; [destruct Hne; congruence|].
    destruct Ia as (A1 & A2). change (zlen (@nil Q)) with 0%Z.
    pose proof (merge_alg_basic_empty_l (zlen (y :: lb)) a1 a2 a3 a4 b1 b2 b3 b4 alo ahi blo bhi (zlen_cons_pos y lb) A1 A2) as M.
    destruct (add_online_moments_ideal _ _ _ _ _ _ _ _ _ _ _ _ _ _) as [[[[[[n r1] r2] r3] r4] lo] hi].
    destruct M as (-> & R1 & R2). cbn [app]. split; [reflexivity|].
    cbn [s_m1 s_m2 s_m3 s_m4]. cbv zeta in Ib |- *. rewrite R1, R2. exact Ib.
  - destruct Ib as (B1 & B2). change (zlen (@nil Q)) with 0%Z. rewrite app_nil_r.
    pose proof (merge_alg_basic_empty_r (zlen (x :: la)) a1 a2 a3 a4 b1 b2 b3 b4 alo ahi blo bhi (zlen_cons_pos x la) B1 B2) as M.
    destruct (add_online_moments_ideal _ _ _ _ _ _ _ _ _ _ _ _ _ _) as [[[[[[n r1] r2] r3] r4] lo] hi].
    destruct M as (-> & R1 & R2). split; [reflexivity|].
    cbn [s_m1 s_m2 s_m3 s_m4]. cbv zeta in Ia |- *. rewrite R1, R2. exact Ia.
  - cbv zeta in Ia, Ib. destruct Ia as (A1 & A2). destruct Ib as (B1 & B2).
    set (LA := x :: la) in *. set (LB := y :: lb) in *.
    pose proof (merge_alg_basic (zlen LA) (zlen LB) _ _ _ _ a1 a2 a3 a4 b1 b2 b3 b4 alo ahi blo bhi
                  (zlen_cons_pos x la) (zlen_cons_pos y lb) A1 A2 B1 B2) as M.
    destruct (add_online_moments_ideal _ _ _ _ _ _ _ _ _ _ _ _ _ _) as [[[[[[n r1] r2] r3] r4] lo] hi].
    destruct M as (-> & R1 & R2). split.
    + cbn [s_cnt]. rewrite zlen_app. reflexivity.
    + change (LA ++ LB) with (x :: (la ++ LB)). cbv iota zeta. change (x :: la ++ LB) with (LA ++ LB).
      cbn [s_m1 s_m2 s_m3 s_m4].
      assert (E : z2q (zlen (LA ++ LB)) == z2q (zlen LA) + z2q (zlen LB)).
      { rewrite zlen_app. unfold z2q. rewrite inject_Z_plus. reflexivity. }
      rewrite R1, R2. unfold c2. rewrite E, psum1_app, psum2_app.
      repeat split; reflexivity.
Qed.

(** min/max of a + b when both sides hold samples *)
Lemma merge_minmax_nonempty a b : (1 <= s_cnt a)%Z -> (1 <= s_cnt b)%Z ->
  s_min (merge a b) = qmin (s_min a) (s_min b) /\ s_max (merge a b) = qmax (s_max a) (s_max b).
Proof.
  destruct a as [na a1 a2 a3 a4 alo ahi], b as [nb b1 b2 b3 b4 blo bhi]. cbn [s_cnt s_min s_max]. intros Ha Hb.
  unfold merge, add_online_moments. cbn [s_cnt s_m1 s_m2 s_m3 s_m4 s_min s_max]. cbv zeta. cbn [s_min s_max].
  split; zeqb_cases; reflexivity.
Qed.

(** * histories *)
Fixpoint hist_ok (h : hist) : Prop :=
  match h with
  | HNew => True
  | HPush _ c h' => hist_ok h' /\ (zlen (data h' ++ c) < 2 ^ 31)%Z
  | HAdd a b => hist_ok a /\ hist_ok b /\ merge_counts_ok (zlen (data a)) (zlen (data b)) /\ (data a <> [] \/ data b <> [])
  end.

Lemma inv_zero full : inv full [] zero_st.
Proof. destruct full; repeat split; reflexivity. Qed.

Theorem hist_moments full h : hist_ok h -> inv full (data h) (eval full h).
Proof.
  induction h as [|f c h IH|a IHa b IHb]; cbn [hist_ok data eval].
  - intros _. apply inv_zero.
  - intros [Hh Hb]. rewrite zlen_app in Hb. specialize (IH Hh).
    destruct full; cbn [inv push] in *.
    + apply (push_full_spec f c (data h) _ IH Hb).
    + apply (push_basic_spec f c (data h) _ IH Hb).
  - intros (Ha & Hb & Hok & Hne). specialize (IHa Ha). specialize (IHb Hb).
    destruct full; cbn [inv] in *.
    + apply merge_full_spec; auto.
    + apply merge_basic_spec; auto.
Qed.

From Coq Require Import ZifyBool.
(** * min/max over histories *)
Definition init_of (full : bool) := if full then compute_online_moments_init else compute_online_moments_basic_init.
Definition is_nil {A} (l : list A) : bool := match l with [] => true | _ => false end.

(** the caller's flags initialise min/max exactly on the first non-empty push; additions have samples on both sides *)
Fixpoint hist_mm (full : bool) (h : hist) : Prop :=
  match h with
  | HNew => True
  | HPush f c h' => hist_mm full h' /\ c <> [] /\ init_of full f (zlen (data h')) (zlen c) = is_nil (data h')
  | HAdd a b => hist_mm full a /\ hist_mm full b /\ data a <> [] /\ data b <> []
  end.

Lemma push_minmax full f c s :
  s_min (push full f c s) = s_min (if full then push_full f c s else push_basic f c s) .
Proof. destruct full; reflexivity. Qed.

Lemma zlen_pos_of_ne {A} (l : list A) : l <> [] -> (1 <= zlen l)%Z.
Proof. destruct l; [congruence|]. intros _. apply zlen_cons_pos. Qed.

Theorem hist_minmax full h : hist_ok h -> hist_mm full h -> data h <> [] -> inv_minmax (data h) (eval full h).
Proof.
  induction h as [|f c h IH|a IHa b IHb]; cbn [hist_ok hist_mm data eval].
  - intros _ _ H. congruence.
  - intros [Hh Hb] (Hm & Hc & Hi) _. pose proof (hist_moments full h Hh) as I. rewrite zlen_app in Hb.
    assert (Hcnt : s_cnt (eval full h) = zlen (data h)) by (destruct full; apply I).
    assert (P : s_min (push full f c (eval full h)) = lmin (if init_of full f (zlen (data h)) (zlen c) then hd 0 c else s_min (eval full h)) c /\
                s_max (push full f c (eval full h)) = lmax (if init_of full f (zlen (data h)) (zlen c) then hd 0 c else s_max (eval full h)) c).
    { rewrite <- Hcnt. destruct full; cbn [push init_of inv] in *.
      - apply (push_full_spec f c (data h) _ I Hb).
      - apply (push_basic_spec f c (data h) _ I Hb). }
    destruct P as [P1 P2]. unfold inv_minmax. rewrite P1, P2, Hi.
    destruct (data h) as [|y l] eqn:E.
    + cbn [is_nil app]. rewrite lmin_hd, lmax_hd by assumption. split; reflexivity.
    + cbn [is_nil]. destruct (IH Hh Hm ltac:(congruence)) as [I1 I2].
      rewrite list_min_cont, list_max_cont by congruence. split; [apply lmin_comp|apply lmax_comp]; assumption.
  - intros (Ha & Hb & _ & _) (Ma & Mb & Na & Nb) _.
    pose proof (hist_moments full a Ha) as Ia. pose proof (hist_moments full b Hb) as Ib.
    assert (Ca : s_cnt (eval full a) = zlen (data a)) by (destruct full; apply Ia).
    assert (Cb : s_cnt (eval full b) = zlen (data b)) by (destruct full; apply Ib).
    pose proof (zlen_pos_of_ne _ Na). pose proof (zlen_pos_of_ne _ Nb).
    destruct (merge_minmax_nonempty (eval full a) (eval full b) ltac:(lia) ltac:(lia)) as [M1 M2].
    destruct (IHa Ha Ma Na) as [A1 A2]. destruct (IHb Hb Mb Nb) as [B1 B2].
    unfold inv_minmax. rewrite M1, M2, list_min_app, list_max_app by assumption.
    rewrite A1, A2, B1, B2. split; reflexivity.
Qed.

(** flags that follow the docstring (0 for the first chunk of an accumulator, the sample or block index afterwards) *)
Lemma init_first full k : (0 < k)%Z -> init_of full 0 0 k = true.
Proof. intros H. destruct full; unfold init_of, compute_online_moments_init, compute_online_moments_basic_init; lia. Qed.
Lemma init_later full f c k : (f <> 0)%Z -> (0 < c)%Z -> (0 < k)%Z -> init_of full f c k = false.
Proof. intros Hf Hc Hk. destruct full; unfold init_of, compute_online_moments_init, compute_online_moments_basic_init; lia. Qed.

(** * one accumulator fed a list of chunks *)
Definition hist_of_chunks (cs : list (Z * list Q)) (h : hist) : hist :=
  fold_left (fun h fc => HPush (fst fc) (snd fc) h) cs h.
Definition all_data (cs : list (Z * list Q)) : list Q := concat (map snd cs).

Lemma eval_hist_of_chunks full cs : forall h, eval full (hist_of_chunks cs h) = push_chunks full cs (eval full h).
Proof. induction cs as [|[f c] cs IH]; intros h; [reflexivity|]. cbn [hist_of_chunks fold_left push_chunks fst snd]. apply IH. Qed.
Lemma data_hist_of_chunks cs : forall h, data (hist_of_chunks cs h) = data h ++ all_data cs.
Proof. induction cs as [|[f c] cs IH]; intros h; unfold all_data; cbn [hist_of_chunks fold_left map concat fst snd].
  - rewrite app_nil_r. reflexivity.
  - unfold hist_of_chunks in IH. rewrite IH. cbn [data]. rewrite <- app_assoc. reflexivity. Qed.

Lemma hist_ok_chunks cs : forall h, hist_ok h -> (zlen (data h ++ all_data cs) < 2 ^ 31)%Z -> hist_ok (hist_of_chunks cs h).
Proof. induction cs as [|[f c] cs IH]; intros h Hh Hb; [exact Hh|].
  cbn [hist_of_chunks fold_left fst snd]. apply IH.
  - cbn [hist_ok]. split; [exact Hh|]. unfold all_data in Hb. cbn [map concat snd] in Hb.
    rewrite !zlen_app in Hb. rewrite zlen_app. pose proof (zlen_nonneg (concat (map snd cs))). lia.
  - cbn [data]. unfold all_data in *. cbn [map concat snd] in Hb. rewrite <- app_assoc. exact Hb. Qed.

(** later chunks: non-empty, flag not 0 *)
Definition later_ok (fc : Z * list Q) : Prop := (fst fc <> 0)%Z /\ snd fc <> [].

Lemma hist_mm_chunks full cs : forall h, hist_mm full h -> data h <> [] -> Forall later_ok cs -> hist_mm full (hist_of_chunks cs h).
Proof. induction cs as [|[f c] cs IH]; intros h Hh Hne Hl; [exact Hh|].
  inversion Hl as [|? ? [Hf Hc] Hl']; subst. cbn [fst snd] in *.
  cbn [hist_of_chunks fold_left fst snd]. apply IH; auto.
  - cbn [hist_mm]. split; [exact Hh|]. split; [exact Hc|].
    destruct (data h) as [|y l] eqn:E; [congruence|]. cbn [is_nil].
    apply init_later; [exact Hf | pose proof (zlen_cons_pos y l); lia | apply zlen_pos_of_ne in Hc; lia].
  - cbn [data]. destruct (data h); [congruence|]. discriminate. Qed.

Theorem chunks_spec full f0 c0 cs : f0 = 0%Z -> c0 <> [] -> Forall later_ok cs ->
  (zlen (all_data ((f0, c0) :: cs)) < 2 ^ 31)%Z ->
  let s := push_chunks full ((f0, c0) :: cs) zero_st in
  inv full (all_data ((f0, c0) :: cs)) s /\ inv_minmax (all_data ((f0, c0) :: cs)) s.
Proof.
  intros -> Hc Hl Hb s.
  assert (E : s = eval full (hist_of_chunks ((0%Z, c0) :: cs) HNew)) by (rewrite eval_hist_of_chunks; reflexivity).
  assert (D : all_data ((0%Z, c0) :: cs) = data (hist_of_chunks ((0%Z, c0) :: cs) HNew)) by (rewrite data_hist_of_chunks; reflexivity).
  assert (Hok : hist_ok (hist_of_chunks ((0%Z, c0) :: cs) HNew)) by (apply hist_ok_chunks; [exact I|exact Hb]).
  assert (Hk : (0 < zlen c0)%Z) by (apply zlen_pos_of_ne in Hc; lia).
  assert (M0 : hist_mm full (HPush 0 c0 HNew)).
  { cbn [hist_mm data is_nil]. split; [exact I|]. split; [exact Hc|]. change (zlen (@nil Q)) with 0%Z. apply init_first. exact Hk. }
  assert (N0 : data (HPush 0 c0 HNew) <> []) by (cbn [data app]; exact Hc).
  assert (Hmm : hist_mm full (hist_of_chunks ((0%Z, c0) :: cs) HNew)).
  { cbn [hist_of_chunks fold_left fst snd]. apply hist_mm_chunks; assumption. }
  assert (Hne : data (hist_of_chunks ((0%Z, c0) :: cs) HNew) <> []).
  { rewrite <- D. unfold all_data. cbn [map concat snd]. destruct c0; [congruence|discriminate]. }
  rewrite E, D. split; [apply hist_moments; exact Hok|]. apply hist_minmax; assumption.
Qed.
(** * two accumulators that saw the same stream agree *)
Definition st_agree (full : bool) (s t : mst) : Prop :=
  s_cnt s = s_cnt t /\ s_m1 s == s_m1 t /\ s_m2 s == s_m2 t /\ (full = true -> s_m3 s == s_m3 t /\ s_m4 s == s_m4 t).

Lemma inv_unique full l s t : inv full l s -> inv full l t -> st_agree full s t.
Proof.
  destruct full; cbn [inv]; intros [C1 I1] [C2 I2]; unfold st_agree; (split; [congruence|]); destruct l; cbv zeta in *.
  - destruct I1 as (A1 & A2 & A3 & A4), I2 as (B1 & B2 & B3 & B4). rewrite A1, A2, A3, A4, B1, B2, B3, B4. repeat split; reflexivity.
  - destruct I1 as (A1 & A2 & A3 & A4), I2 as (B1 & B2 & B3 & B4). rewrite A1, A2, A3, A4, B1, B2, B3, B4. repeat split; reflexivity.
  - destruct I1 as (A1 & A2), I2 as (B1 & B2). rewrite A1, A2, B1, B2. repeat split; try reflexivity; discriminate.
  - destruct I1 as (A1 & A2), I2 as (B1 & B2). rewrite A1, A2, B1, B2. repeat split; try reflexivity; discriminate.
Qed.

Theorem hist_independent full h1 h2 : hist_ok h1 -> hist_ok h2 -> data h1 = data h2 ->
  st_agree full (eval full h1) (eval full h2).
Proof. intros H1 H2 E. apply (inv_unique full (data h1)); [apply hist_moments; auto|rewrite E; apply hist_moments; auto]. Qed.

Theorem hist_minmax_independent full h1 h2 : hist_ok h1 -> hist_ok h2 -> hist_mm full h1 -> hist_mm full h2 ->
  data h1 = data h2 -> data h1 <> [] ->
  s_min (eval full h1) == s_min (eval full h2) /\ s_max (eval full h1) == s_max (eval full h2).
Proof. intros O1 O2 M1 M2 E N. destruct (hist_minmax full h1 O1 M1 N) as [A1 A2].
  destruct (hist_minmax full h2 O2 M2 ltac:(rewrite <- E; exact N)) as [B1 B2].
  rewrite A1, A2, B1, B2, E. split; reflexivity. Qed.

(** * the closed forms are the two-pass central sums *)
Lemma z2q_zlen_cons {A} (x : A) l : z2q (zlen (x :: l)) == 1 + z2q (zlen l).
Proof. unfold zlen, z2q. simpl length. rewrite Nat2Z.inj_succ, <- Z.add_1_l, inject_Z_plus. reflexivity. Qed.

Lemma csum2_expand mu l : csum2 mu l == psum2 l - 2 * mu * psum1 l + z2q (zlen l) * mu * mu.
Proof. induction l as [|x l IH].
  - unfold csum2, psum2, psum1, zlen, z2q. simpl. ring.
  - rewrite z2q_zlen_cons. unfold csum2, psum2, psum1 in *. cbn [map qsum]. rewrite IH. ring. Qed.
Lemma csum3_expand mu l : csum3 mu l == psum3 l - 3 * mu * psum2 l + 3 * mu * mu * psum1 l - z2q (zlen l) * mu * mu * mu.
Proof. induction l as [|x l IH].
  - unfold csum3, psum3, psum2, psum1, zlen, z2q. simpl. ring.
  - rewrite z2q_zlen_cons. unfold csum3, psum3, psum2, psum1 in *. cbn [map qsum]. rewrite IH. ring. Qed.
Lemma csum4_expand mu l : csum4 mu l == psum4 l - 4 * mu * psum3 l + 6 * mu * mu * psum2 l - 4 * mu * mu * mu * psum1 l
                                        + z2q (zlen l) * mu * mu * mu * mu.
Proof. induction l as [|x l IH].
  - unfold csum4, psum4, psum3, psum2, psum1, zlen, z2q. simpl. ring.
  - rewrite z2q_zlen_cons. unfold csum4, psum4, psum3, psum2, psum1 in *. cbn [map qsum]. rewrite IH. ring. Qed.

Lemma z2q_zlen_nz {A} (l : list A) : l <> [] -> ~ z2q (zlen l) == 0.
Proof. intros H. apply z2q_nz. apply zlen_pos_of_ne in H. lia. Qed.

Theorem closed_forms_two_pass l : l <> [] ->
  let n := z2q (zlen l) in let mu := qmean l in
  c2 n (psum1 l) (psum2 l) == csum2 mu l /\
  c3 n (psum1 l) (psum2 l) (psum3 l) == csum3 mu l /\
  c4 n (psum1 l) (psum2 l) (psum3 l) (psum4 l) == csum4 mu l.
Proof. intros H n mu. pose proof (z2q_zlen_nz l H) as Hn. fold n in Hn.
  rewrite csum2_expand, csum3_expand, csum4_expand. fold n. unfold mu, qmean, c2, c3, c4. fold n. fold (psum1 l).
  repeat split; field; auto. Qed.

(** what the accumulator holds, in two-pass terms *)
Theorem inv_full_two_pass l s : l <> [] -> inv_full l s ->
  s_cnt s = zlen l /\ s_m1 s == qmean l /\ s_m2 s == csum2 (qmean l) l /\ s_m3 s == csum3 (qmean l) l /\ s_m4 s == csum4 (qmean l) l.
Proof. intros H [C I]. destruct l as [|x l]; [congruence|]. cbv zeta in I. destruct I as (A1 & A2 & A3 & A4).
  destruct (closed_forms_two_pass (x :: l) H) as (T2 & T3 & T4). cbv zeta in *.
  rewrite <- T2, <- T3, <- T4. repeat split; assumption. Qed.
Theorem inv_basic_two_pass l s : l <> [] -> inv_basic l s ->
  s_cnt s = zlen l /\ s_m1 s == qmean l /\ s_m2 s == csum2 (qmean l) l.
Proof. intros H [C I]. destruct l as [|x l]; [congruence|]. cbv zeta in I. destruct I as (A1 & A2).
  destruct (closed_forms_two_pass (x :: l) H) as (T2 & _). cbv zeta in *.
  rewrite <- T2. repeat split; assumption. Qed.

(** * constant channels *)
Lemma psum_repeat c n : psum1 (repeat c n) == z2q (Z.of_nat n) * c /\ psum2 (repeat c n) == z2q (Z.of_nat n) * (c * c) /\
  psum3 (repeat c n) == z2q (Z.of_nat n) * (c * c * c) /\ psum4 (repeat c n) == z2q (Z.of_nat n) * (c * c * c * c).
Proof. induction n as [|n (I1 & I2 & I3 & I4)].
  - unfold psum1, psum2, psum3, psum4, z2q. simpl. repeat split; ring.
  - rewrite Nat2Z.inj_succ, <- Z.add_1_l. unfold z2q in *. rewrite inject_Z_plus. change (inject_Z 1) with 1.
    unfold psum1, psum2, psum3, psum4 in *. cbn [repeat map qsum]. rewrite I1, I2, I3, I4. repeat split; ring. Qed.

Theorem constant_zero full c n s : (0 < n)%nat -> inv full (repeat c n) s ->
  s_m1 s == c /\ s_m2 s == 0 /\ (full = true -> s_m3 s == 0 /\ s_m4 s == 0).
Proof. intros Hn I. destruct n as [|n]; [lia|].
  destruct (psum_repeat c (S n)) as (P1 & P2 & P3 & P4).
  assert (Hz : zlen (repeat c (S n)) = Z.of_nat (S n)) by (unfold zlen; rewrite repeat_length; reflexivity).
  assert (HN : ~ z2q (Z.of_nat (S n)) == 0) by (apply z2q_nz; lia).
  destruct full; cbn [inv] in I; destruct I as [C I]; change (repeat c (S n)) with (c :: repeat c n) in I; cbv iota zeta in I;
    change (c :: repeat c n) with (repeat c (S n)) in I; rewrite Hz in I.
  - destruct I as (A1 & A2 & A3 & A4). rewrite A1, A2. split; [|split; [|intros _; rewrite A3, A4; split]];
      unfold c2, c3, c4; rewrite ?P1, ?P2, ?P3, ?P4; field; auto.
  - destruct I as (A1 & A2). rewrite A1, A2. split; [|split; [|discriminate]];
      unfold c2; rewrite ?P1, ?P2; field; auto.
Qed.

(** * derived statistics of ChannelStats *)
Lemma qeq_bool_false m : Qeq_bool m 0 = false -> ~ m == 0.
Proof. intros H E. apply Qeq_bool_iff in E. congruence. Qed.
(** the guarded divisions never see a zero denominator *)
Lemma guard_denominators m : Qeq_bool m 0 = false -> ~ m * m == 0 /\ ~ m * m * m == 0.
Proof. intros H. apply qeq_bool_false in H. split; intro E.
  - apply Qmult_integral in E. tauto.
  - apply Qmult_integral in E. destruct E as [E|E]; [apply Qmult_integral in E|]; tauto. Qed.

Theorem derived_two_pass l s : l <> [] -> inv_full l s ->
  let n := zlen l in let mu := qmean l in
  mean_q s == mu /\ var_q s n == csum2 mu l / z2q n /\
  (~ csum2 mu l == 0 ->
     kurt_q s n == csum4 mu l / (csum2 mu l * csum2 mu l) * z2q n - 3 /\
     skew_sq_q s n == csum3 mu l * csum3 mu l / (csum2 mu l * csum2 mu l * csum2 mu l) * z2q n /\
     skew_num_q s == csum3 mu l) /\
  (csum2 mu l == 0 -> var_q s n == 0 /\ kurt_q s n == - (3) /\ skew_sq_q s n == 0 /\ skew_num_q s == 0).
Proof.
  intros H I n mu. destruct (inv_full_two_pass l s H I) as (C & A1 & A2 & A3 & A4). fold mu in A1, A2, A3, A4.
  pose proof (z2q_zlen_nz l H) as Hn. fold n in Hn.
  unfold mean_q, var_q, kurt_q, skew_sq_q, skew_num_q.
  split; [exact A1|]. split; [rewrite A2; reflexivity|]. split.
  - intros Hnz. destruct (Qeq_bool (s_m2 s) 0) eqn:E.
    + apply Qeq_bool_iff in E. rewrite A2 in E. contradiction.
    + rewrite A2, A3, A4. repeat split; reflexivity.
  - intros Hz. destruct (Qeq_bool (s_m2 s) 0) eqn:E.
    + rewrite A2, Hz. repeat split; field; auto.
    + apply qeq_bool_false in E. rewrite A2 in E. contradiction.
Qed.

Theorem derived_basic_two_pass l s : l <> [] -> inv_basic l s ->
  mean_q s == qmean l /\ var_q s (zlen l) == csum2 (qmean l) l / z2q (zlen l).
Proof. intros H I. destruct (inv_basic_two_pass l s H I) as (C & A1 & A2). unfold mean_q, var_q. rewrite A2. split; [exact A1|reflexivity]. Qed.

(** constant channel: zero variance and skewness (and the kurtosis is the finite value -3) *)
Theorem constant_stats c n s : (0 < n)%nat -> inv_full (repeat c n) s ->
  var_q s (Z.of_nat n) == 0 /\ skew_sq_q s (Z.of_nat n) == 0 /\ skew_num_q s == 0 /\ kurt_q s (Z.of_nat n) == - (3).
Proof. intros Hn I. destruct (constant_zero true c n s Hn I) as (_ & A2 & _).
  assert (HN : ~ z2q (Z.of_nat n) == 0) by (apply z2q_nz; lia).
  unfold var_q, skew_sq_q, skew_num_q, kurt_q.
  assert (E : Qeq_bool (s_m2 s) 0 = true) by (apply Qeq_bool_iff; exact A2). rewrite E, A2.
  repeat split; field; auto. Qed.
(** * when the merge's integer arithmetic cannot overflow *)
Lemma merge_counts_ok_small na nb : (0 <= na)%Z -> (0 <= nb)%Z -> (na + nb < 2 ^ 21)%Z -> merge_counts_ok na nb.
Proof.
  intros Ha Hb Hn. change (2 ^ 21)%Z with 2097152%Z in Hn.
  assert (H2 : (0 <= (na + nb) * (na + nb) < 2 ^ 42)%Z) by (change (2 ^ 42)%Z with (2097152 * 2097152)%Z; nia).
  assert (H3 : (0 <= (na + nb) * (na + nb) * (na + nb) < 2 ^ 63)%Z).
  { change (2 ^ 63)%Z with (2097152 * 2097152 * 2097152)%Z. change (2 ^ 42)%Z with (2097152 * 2097152)%Z in H2. nia. }
  assert (Ha2 : (0 <= na * na <= (na + nb) * (na + nb))%Z) by nia.
  assert (Hb2 : (0 <= nb * nb <= (na + nb) * (na + nb))%Z) by nia.
  assert (Hab : (0 <= na * nb <= (na + nb) * (na + nb))%Z) by nia.
  change (2 ^ 42)%Z with 4398046511104%Z in H2. change (2 ^ 63)%Z with 9223372036854775808%Z in H3.
  unfold merge_counts_ok, add_online_moments_ok. cbv zeta. unfold in64, in32.
  change (2 ^ 63)%Z with 9223372036854775808%Z. change (2 ^ 31)%Z with 2147483648%Z.
  repeat split; try lia.
Qed.

(** * the three places where the pinned tree departs from the property, as dichotomies:
      either the robust statement holds for the code as it is now, or the stated counterexample exists *)

(** witness data for the count overflow: [k] zeros against [k] ones *)
Lemma inv_full_repeat c n : (0 < n)%nat -> inv_full (repeat c n) (MkSt (Z.of_nat n) c 0 0 0 c c).
Proof. intros Hn. destruct n as [|n]; [lia|].
  destruct (psum_repeat c (S n)) as (P1 & P2 & P3 & P4).
  assert (Hz : zlen (repeat c (S n)) = Z.of_nat (S n)) by (unfold zlen; rewrite repeat_length; reflexivity).
  assert (HN : ~ z2q (Z.of_nat (S n)) == 0) by (apply z2q_nz; lia).
  split; [cbn [s_cnt]; rewrite Hz; reflexivity|].
  change (repeat c (S n)) with (c :: repeat c n). cbv iota zeta. change (c :: repeat c n) with (repeat c (S n)).
  rewrite Hz. cbn [s_m1 s_m2 s_m3 s_m4]. unfold c2, c3, c4. rewrite P1, P2, P3, P4. repeat split; field; auto. Qed.

Definition overflow_counterexample : Prop :=
  exists la lb a b, inv_full la a /\ inv_full lb b /\ (zlen la + zlen lb < 2 ^ 31)%Z /\ ~ inv_full (la ++ lb) (merge a b).

Theorem merge_int32_or_counterexample :
  (forall na nb, (0 <= na)%Z -> (0 <= nb)%Z -> (na + nb < 2 ^ 31)%Z -> merge_counts_ok na nb) \/ overflow_counterexample.
Proof.
  first
  [ left; intros na nb Ha Hb Hn; change (2 ^ 31)%Z with 2147483648%Z in Hn;
    assert (H2 : (0 <= (na + nb) * (na + nb) < 2147483648 * 2147483648)%Z) by nia;
    assert (Ha2 : (0 <= na * na <= (na + nb) * (na + nb))%Z) by nia;
    assert (Hb2 : (0 <= nb * nb <= (na + nb) * (na + nb))%Z) by nia;
    assert (Hab : (0 <= na * nb <= (na + nb) * (na + nb))%Z) by nia;
    unfold merge_counts_ok, add_online_moments_ok; cbv zeta; unfold in64, in32;
    change (2 ^ 63)%Z with 9223372036854775808%Z; change (2 ^ 31)%Z with 2147483648%Z; repeat split; lia
  | right; remember (Z.to_nat (2 ^ 20)) as k eqn:Ek;
    assert (Hk : Z.of_nat k = (2 ^ 20)%Z) by (subst k; apply Z2Nat.id; discriminate);
    assert (Hk0 : (0 < k)%nat) by (apply Nat2Z.inj_lt; rewrite Hk; reflexivity);
    exists (repeat 0 k), (repeat 1 k), (MkSt (Z.of_nat k) 0 0 0 0 0 0), (MkSt (Z.of_nat k) 1 0 0 0 1 1);
    split; [apply inv_full_repeat; exact Hk0|];
    split; [apply inv_full_repeat; exact Hk0|];
    assert (Hza : zlen (repeat 0 k) = (2 ^ 20)%Z) by (unfold zlen; rewrite repeat_length; exact Hk);
    assert (Hzb : zlen (repeat 1 k) = (2 ^ 20)%Z) by (unfold zlen; rewrite repeat_length; exact Hk);
    split; [rewrite Hza, Hzb; reflexivity|];
    intros [_ I];
    destruct k as [|k']; [inversion Hk0|];
    change (repeat 0 (S k') ++ repeat 1 (S k')) with (0 :: (repeat 0 k' ++ repeat 1 (S k'))) in I; cbv iota zeta in I;
    change (0 :: (repeat 0 k' ++ repeat 1 (S k'))) with (repeat 0 (S k') ++ repeat 1 (S k')) in I;
    destruct I as (_ & _ & _ & I4); unfold c4 in I4;
    rewrite zlen_app, Hza, Hzb, psum1_app, psum2_app, psum3_app, psum4_app in I4;
    destruct (psum_repeat 0 (S k')) as (A1 & A2 & A3 & A4); destruct (psum_repeat 1 (S k')) as (B1 & B2 & B3 & B4);
    rewrite A1, A2, A3, A4, B1, B2, B3, B4, Hk in I4;
    vm_compute in I4; discriminate I4 ].
Qed.

(** ** start index of an accumulator *)
Fixpoint hist_single (h : hist) : Prop :=
  match h with HNew => True | HPush _ c h' => c <> [] /\ hist_single h' | HAdd _ _ => False end.

Lemma is_nil_zlen {A} (l : list A) : (zlen l =? 0)%Z = is_nil l.
Proof. destruct l; [reflexivity|]. pose proof (zlen_cons_pos a l). cbn [is_nil]. lia. Qed.

Lemma minmax_any_start_if_init_by_count :
  (forall full f c k, (0 < k)%Z -> init_of full f c k = (c =? 0)%Z) ->
  forall full h, hist_ok h -> hist_single h -> data h <> [] -> inv_minmax (data h) (eval full h).
Proof.
  intros Hinit full h Hok Hs Hne. apply hist_minmax; auto. clear Hne Hok.
  induction h as [|f c h IH|a IHa b IHb]; cbn [hist_single hist_mm] in *; auto; [|contradiction].
  destruct Hs as [Hc Hs]. split; [apply IH; exact Hs|]. split; [exact Hc|].
  rewrite Hinit by (apply zlen_pos_of_ne in Hc; lia). apply is_nil_zlen.
Qed.

Definition start_index_counterexample : Prop :=
  exists f x, (f <> 0)%Z /\ ~ inv_minmax [x] (eval true (HPush f [x] HNew)).

Theorem minmax_any_start_or_counterexample :
  (forall full h, hist_ok h -> hist_single h -> data h <> [] -> inv_minmax (data h) (eval full h)) \/ start_index_counterexample.
Proof.
  first
  [ left; apply minmax_any_start_if_init_by_count; intros [] f c k Hk;
    unfold init_of, compute_online_moments_init, compute_online_moments_basic_init; lia
  | right; exists 7%Z, 5; split; [discriminate|]; intros [H _]; vm_compute in H; discriminate H ].
Qed.

(** ** adding an accumulator that has seen no data *)
Fixpoint hist_mm_e (full : bool) (h : hist) : Prop :=
  match h with
  | HNew => True
  | HPush f c h' => hist_mm_e full h' /\ c <> [] /\ init_of full f (zlen (data h')) (zlen c) = is_nil (data h')
  | HAdd a b => hist_mm_e full a /\ hist_mm_e full b
  end.

Definition empty_neutral_l : Prop := forall a b, s_cnt a = 0%Z -> (1 <= s_cnt b)%Z ->
  s_min (merge a b) = s_min b /\ s_max (merge a b) = s_max b.
Definition empty_neutral_r : Prop := forall a b, (1 <= s_cnt a)%Z -> s_cnt b = 0%Z ->
  s_min (merge a b) = s_min a /\ s_max (merge a b) = s_max a.

Lemma hist_minmax_e : empty_neutral_l -> empty_neutral_r ->
  forall full h, hist_ok h -> hist_mm_e full h -> data h <> [] -> inv_minmax (data h) (eval full h).
Proof.
  intros EL ER full h. induction h as [|f c h IH|a IHa b IHb]; cbn [hist_ok hist_mm_e data eval].
  - intros _ _ H. congruence.
  - intros [Hh Hb] (Hm & Hc & Hi) _. pose proof (hist_moments full h Hh) as I. rewrite zlen_app in Hb.
    assert (Hcnt : s_cnt (eval full h) = zlen (data h)) by (destruct full; apply I).
    assert (P : s_min (push full f c (eval full h)) = lmin (if init_of full f (zlen (data h)) (zlen c) then hd 0 c else s_min (eval full h)) c /\
                s_max (push full f c (eval full h)) = lmax (if init_of full f (zlen (data h)) (zlen c) then hd 0 c else s_max (eval full h)) c).
    { rewrite <- Hcnt. destruct full; cbn [push init_of inv] in *.
      - apply (push_full_spec f c (data h) _ I Hb).
      - apply (push_basic_spec f c (data h) _ I Hb). }
    destruct P as [P1 P2]. unfold inv_minmax. rewrite P1, P2, Hi.
    destruct (data h) as [|y l] eqn:E.
    + cbn [is_nil app]. rewrite lmin_hd, lmax_hd by assumption. split; reflexivity.
    + cbn [is_nil]. destruct (IH Hh Hm ltac:(congruence)) as [I1 I2].
      rewrite list_min_cont, list_max_cont by congruence. split; [apply lmin_comp|apply lmax_comp]; assumption.
  - intros (Ha & Hb & _ & _) (Ma & Mb) Hne.
    pose proof (hist_moments full a Ha) as Ia. pose proof (hist_moments full b Hb) as Ib.
    assert (Ca : s_cnt (eval full a) = zlen (data a)) by (destruct full; apply Ia).
    assert (Cb : s_cnt (eval full b) = zlen (data b)) by (destruct full; apply Ib).
    destruct (data a) as [|xa la] eqn:Ea; [|destruct (data b) as [|xb lb] eqn:Eb].
    + cbn [app] in *. pose proof (zlen_pos_of_ne _ Hne).
      destruct (EL (eval full a) (eval full b) Ca ltac:(lia)) as [M1 M2].
      unfold inv_minmax. rewrite M1, M2. apply IHb; auto.
    + rewrite app_nil_r. pose proof (zlen_cons_pos xa la).
      destruct (ER (eval full a) (eval full b) ltac:(lia) Cb) as [M1 M2].
      unfold inv_minmax. rewrite M1, M2. apply IHa; auto. discriminate.
    + pose proof (zlen_cons_pos xa la). pose proof (zlen_cons_pos xb lb).
      destruct (merge_minmax_nonempty (eval full a) (eval full b) ltac:(lia) ltac:(lia)) as [M1 M2].
      destruct (IHa Ha Ma ltac:(discriminate)) as [A1 A2]. destruct (IHb Hb Mb ltac:(discriminate)) as [B1 B2].
      unfold inv_minmax. rewrite M1, M2, list_min_app, list_max_app by discriminate.
      rewrite A1, A2, B1, B2. split; reflexivity.
Qed.

Definition empty_side_counterexample : Prop :=
  exists x, ~ inv_minmax [x] (eval true (HAdd HNew (HPush 0 [x] HNew))) /\ ~ inv_minmax [x] (eval true (HAdd (HPush 0 [x] HNew) HNew)).

Theorem minmax_empty_side_or_counterexample :
  (forall full h, hist_ok h -> hist_mm_e full h -> data h <> [] -> inv_minmax (data h) (eval full h)) \/ empty_side_counterexample.
Proof.
  first
  [ left; apply hist_minmax_e;
    intros [na a1 a2 a3 a4 alo ahi] [nb b1 b2 b3 b4 blo bhi]; cbn [s_cnt s_min s_max]; intros Ha Hb;
    unfold merge, add_online_moments; cbn [s_cnt s_m1 s_m2 s_m3 s_m4 s_min s_max]; cbv zeta; cbn [s_min s_max];
    subst; split; zeqb_cases; reflexivity
  | right; exists 5; split; intros [H _]; vm_compute in H; discriminate H ].
Qed.
