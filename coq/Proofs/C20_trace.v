(** C20 -- lemmas: the writer trace of every regenerated call site is append-only, and every truncation of the
    final file at or after the header reads back as a prefix of the full result. *)
From Coq Require Import ZArith List Bool Lia ZifyBool.
Require Import SPP.Base.Rt SPP.Gen.Plan SPP.Gen.C20Sites SPP.Model.Stream SPP.Model.C20_Trace SPP.Proofs.C02_stream.
Import ListNotations.
Open Scope Z_scope.
Ltac Zify.zify_post_hook ::= Z.to_euclidean_division_equations.

(** * lists *)
Lemma put_at_end l b : put_at l (len l) b = l ++ b.
Proof. unfold put_at, len. rewrite Nat2Z.id. rewrite firstn_all. rewrite Nat.sub_diag. cbn [repeat app].
  rewrite skipn_all2 by lia. now rewrite app_nil_r. Qed.

Lemma flush_at_end l b o : flush (mkof l b (len l) o) = mkof (l ++ b) [] (len l + len b) o.
Proof. unfold flush. cbn [pend disk fpos isopen]. destruct b as [|x t].
  - rewrite app_nil_r. unfold len at 3. cbn [length]. now rewrite Z.add_0_r.
  - now rewrite put_at_end. Qed.

Lemma concat_snoc {A} (l : list (list A)) b : concat (l ++ [b]) = concat l ++ b.
Proof. rewrite concat_app. cbn. now rewrite app_nil_r. Qed.

Lemma firstn_app_l {A} (a b : list A) n : (n <= length a)%nat -> firstn n (a ++ b) = firstn n a.
Proof. intro H. rewrite firstn_app. replace (n - length a)%nat with 0%nat by lia. cbn. now rewrite app_nil_r. Qed.

Lemma firstn_app_r {A} (a b : list A) n : (length a <= n)%nat -> firstn n (a ++ b) = a ++ firstn (n - length a) b.
Proof. intro H. rewrite firstn_app. now rewrite firstn_all2 by lia. Qed.

(** the first [j] blocks are a byte prefix of all the blocks *)
Lemma concat_firstn_prefix {A} (bs : list (list A)) : forall j,
  concat (firstn j bs) = firstn (length (concat (firstn j bs))) (concat bs).
Proof. induction bs as [|b r IH]; intro j; [now rewrite firstn_nil|]. destruct j; [reflexivity|].
  cbn [firstn concat]. rewrite app_length. rewrite firstn_app_r by lia.
  f_equal. replace (length b + length (concat (firstn j r)) - length b)%nat with (length (concat (firstn j r))) by lia. apply IH. Qed.

Lemma concat_firstn_grows {A} (bs : list (list A)) : forall j j', (j <= j')%nat ->
  exists t, concat (firstn j' bs) = concat (firstn j bs) ++ t.
Proof. induction bs as [|b r IH]; intros j j' H; [exists []; now rewrite !firstn_nil|].
  destruct j; [eexists; reflexivity|]. destruct j'; [lia|]. cbn [firstn concat].
  destruct (IH j j' ltac:(lia)) as [t E]. exists t. now rewrite E, app_assoc. Qed.

(** * the normal trace: open-truncate, header, the blocks in order, optional close *)
Lemma run_blocks old h : forall bs,
  run_prims true old ([POpen MTrunc; PPut h] ++ map PPut bs) = mkof (h ++ concat bs) [] (len (h ++ concat bs)) true.
Proof. intro bs. induction bs as [|b r IH] using rev_ind.
  - unfold run_prims, start_of. cbn [map app fold_left pstep pend disk fpos isopen]. change 0 with (len []) at 1.
    rewrite flush_at_end. cbn [app concat]. rewrite app_nil_r. reflexivity.
  - rewrite map_app, app_assoc. unfold run_prims in *. rewrite fold_left_app, IH. cbn [map fold_left pstep pend disk fpos isopen app].
    rewrite flush_at_end, <- len_app, concat_snoc, app_assoc. reflexivity. Qed.

Lemma run_close old h bs :
  run_prims true old ([POpen MTrunc; PPut h] ++ map PPut bs ++ [PClose]) = mkof (h ++ concat bs) [] (len (h ++ concat bs)) false.
Proof. rewrite app_assoc. unfold run_prims. rewrite fold_left_app. fold (run_prims true old ([POpen MTrunc; PPut h] ++ map PPut bs)).
  rewrite run_blocks. reflexivity. Qed.

Lemma norm_firstn h bs c k : (2 <= k)%nat ->
  firstn k (norm_trace h bs c) = [POpen MTrunc; PPut h] ++ map PPut (firstn (k - 2) bs)
  \/ (c = true /\ (length bs < k - 2)%nat /\ firstn k (norm_trace h bs c) = [POpen MTrunc; PPut h] ++ map PPut bs ++ [PClose]).
Proof. intro Hk. unfold norm_trace. rewrite (firstn_app_r [POpen MTrunc; PPut h]) by (cbn; lia). cbn [length].
  destruct (Nat.le_gt_cases (k - 2) (length bs)) as [Hle|Hgt].
  - left. f_equal. rewrite firstn_app_l by (rewrite map_length; lia). now rewrite firstn_map.
  - rewrite firstn_app_r by (rewrite map_length; lia). rewrite map_length.
    destruct c.
    + right. repeat split; try lia. f_equal. f_equal. destruct (k - 2 - length bs)%nat eqn:E; [lia|]. cbn. now rewrite firstn_nil.
    + left. f_equal. rewrite firstn_nil, app_nil_r. now rewrite firstn_all2 by lia. Qed.

Lemma norm_crash old h bs c k : (2 <= k)%nat ->
  let st := run_prims true old (firstn k (norm_trace h bs c)) in
  disk st = h ++ concat (firstn (k - 2) bs) /\ pend st = [].
Proof. intros Hk st. subst st. destruct (norm_firstn h bs c k Hk) as [E|[_ [Hl E]]]; rewrite E.
  - rewrite run_blocks. split; reflexivity.
  - rewrite run_close. cbn [disk pend]. rewrite firstn_all2 by lia. split; reflexivity. Qed.

Lemma norm_return old h bs c :
  let st := run_prims true old (norm_trace h bs c) in disk st = h ++ concat bs /\ pend st = [].
Proof. unfold norm_trace. destruct c.
  - rewrite run_close. split; reflexivity.
  - rewrite app_nil_r, run_blocks. split; reflexivity. Qed.

(** * the regenerated sites have that normal form.  These proofs compute with the constants of Gen/C20Sites.v
      (opener, opening mode, what write / cwrite / close / prep_outfile do): if any of them changes, they fail. *)
Lemma opener_is_unbuffered : opener_unbuffered = true.
Proof. reflexivity. Qed.

Lemma no_stored_count : header_stores_count = false.
Proof. reflexivity. Qed.

Lemma loop_prims h : forall bs, flat_map (fun b => flat_map (prims_of_call h b) [KCwrite]) bs = map PPut bs.
Proof. intro bs. change (fun b => flat_map (prims_of_call h b) [KCwrite]) with (fun b : list Z => [PPut b]).
  induction bs as [|b r IH]; [reflexivity|]. cbn [flat_map map app]. now rewrite IH. Qed.

Lemma trace_normal s h bs : site_ok s -> trace s h bs = norm_trace h bs (closes s).
Proof. intros (H1 & H2 & H3). unfold trace, closes, norm_trace. rewrite H1, H2, loop_prims.
  destruct H3 as [H3|[H3|H3]]; rewrite H3; reflexivity. Qed.

Lemma all_sites_ok : Forall site_ok all_sites.
Proof. unfold all_sites. repeat apply Forall_cons; try apply Forall_nil;
  (split; [reflexivity|split; [reflexivity|cbn; auto]]). Qed.

(** * writer theorems *)
Lemma append_only s old h bs k : site_ok s -> (2 <= k)%nat ->
  let st := at_crash s old h bs k in
  disk st = h ++ concat (firstn (k - 2) bs) /\ pend st = [] /\
  disk st = h ++ firstn (length (concat (firstn (k - 2) bs))) (concat bs).
Proof. intros Hs Hk st. subst st. unfold at_crash. rewrite opener_is_unbuffered, (trace_normal s h bs Hs).
  destruct (norm_crash old h bs (closes s) k Hk) as [E1 E2]. repeat split; try assumption.
  rewrite E1. f_equal. apply concat_firstn_prefix. Qed.

Lemma before_header s old h bs : site_ok s ->
  disk (at_crash s old h bs 0) = old /\ disk (at_crash s old h bs 1) = [].
Proof. intro Hs. unfold at_crash. rewrite (trace_normal s h bs Hs). split; reflexivity. Qed.

Lemma only_grows s old h bs k k' : site_ok s -> (2 <= k <= k')%nat ->
  exists t, disk (at_crash s old h bs k') = disk (at_crash s old h bs k) ++ t.
Proof. intros Hs Hk. destruct (append_only s old h bs k Hs ltac:(lia)) as [E _].
  destruct (append_only s old h bs k' Hs ltac:(lia)) as [E' _]. cbv zeta in *. rewrite E, E'.
  destruct (concat_firstn_grows bs (k - 2) (k' - 2) ltac:(lia)) as [t Et]. exists t. now rewrite Et, app_assoc. Qed.

Lemma complete_on_return s old h bs : site_ok s ->
  disk (on_return s old h bs) = h ++ concat bs /\ pend (on_return s old h bs) = [].
Proof. intro Hs. unfold on_return. rewrite opener_is_unbuffered, (trace_normal s h bs Hs). apply norm_return. Qed.

(** one block per iteration, in loop order: after the [j]-th pass through the loop body exactly the first [j] blocks
    are on disk (the trace of an ok site spends two operations on open + header and one per block) *)
Lemma block_per_gulp s old h bs j : site_ok s -> (j <= length bs)%nat ->
  disk (at_crash s old h bs (2 + j)) = h ++ concat (firstn j bs).
Proof. intros Hs Hj. destruct (append_only s old h bs (2 + j) Hs ltac:(lia)) as [E _]. cbv zeta in E.
  now replace (2 + j - 2)%nat with j in E by lia. Qed.

(** * the reader on a truncated file *)
Lemma len_firstn l n : 0 <= n <= len l -> len (firstn (Z.to_nat n) l) = n.
Proof. unfold len. intro H. rewrite firstn_length. lia. Qed.

Lemma cut_raw h d L : len h <= L -> raw (cut h d L) = firstn (Z.to_nat L) (h ++ d).
Proof. unfold raw, cut, len. cbn [hdr dat]. intro H. rewrite firstn_app_r by lia. f_equal. f_equal. lia. Qed.

Lemma cut_full h d : cut h d (len h + len d) = mkfile h d.
Proof. unfold cut. f_equal. replace (len h + len d - len h) with (len d) by lia. unfold len. rewrite Nat2Z.id. apply firstn_all. Qed.

Lemma cut_datalen h d L : len h <= L <= len h + len d -> datalen (cut h d L) = L - len h /\ hdrlen (cut h d L) = len h /\ filelen (cut h d L) = L.
Proof. intro H. unfold filelen, datalen, hdrlen, cut. cbn [hdr dat]. fold (len (firstn (Z.to_nat (L - len h)) d)).
  rewrite len_firstn by lia. fold (len h). lia. Qed.

Lemma sbytes_pos nbits nchans : In nbits [1; 2; 4; 8; 16; 32] -> 1 <= nchans -> (nchans * nbits) mod 8 = 0 -> 1 <= sbytes nbits nchans.
Proof. unfold sbytes. intros Hin Hc Hm. assert (1 <= nbits) by (cbn in Hin; lia). assert (1 <= nchans * nbits) by nia. lia. Qed.

Lemma open_nsamples_spec nbits nchans h d L :
  In nbits [1; 2; 4; 8; 16; 32] -> 1 <= nchans -> (nchans * nbits) mod 8 = 0 -> len h <= L <= len h + len d ->
  open_nsamples (cut h d L) nbits nchans = 8 * (L - len h) / (nbits * nchans) /\
  open_nsamples (cut h d L) nbits nchans = (L - len h) / sbytes nbits nchans.
Proof. intros Hin Hc Hm HL. destruct (cut_datalen h d L HL) as (E1 & E2 & E3).
  unfold open_nsamples, infer_nsamples, infer_datalen. rewrite E2, E3.
  assert (Hb : 1 <= nbits) by (cbn in Hin; lia).
  rewrite Z.div_div by lia. split; [reflexivity|].
  unfold sbytes. set (m := L - len h). assert (0 <= m) by (unfold m; lia).
  assert (Eq : nchans * nbits = 8 * (nchans * nbits / 8)) by (apply Z.div_exact; lia).
  set (q := nchans * nbits / 8) in *. assert (1 <= q) by nia.
  replace (nbits * nchans) with (8 * q) by lia. rewrite Z.div_mul_cancel_l by lia. reflexivity. Qed.

(** a counted read that lies inside the one file is one pass through the loop of cread *)
Lemma cread_one f isz s count : 1 <= isz -> 0 <= count -> ifile s = 0 -> hdrlen f <= pos s ->
  pos s + count * isz <= filelen f ->
  snd (cread [f] isz s count) = OBytes (slice (raw f) (pos s) (count * isz)).
Proof. intros Hi Hc Hf Hp Hl. unfold cread. cbn [length cread_loop]. rewrite Hf. unfold fileat. cbn [Z.to_nat nth].
  assert (Hd : 0 <= datalen f) by (unfold datalen; lia).
  assert (Ha : count <= (filelen f - pos s) / isz) by (apply Z.div_le_lower_bound; lia).
  assert (Hc2 : count <= datalen f) by (unfold filelen in *; nia).
  replace (Z.min (Z.min (datalen f) count) (Z.max 0 ((filelen f - pos s) / isz))) with count by lia.
  rewrite Z.sub_diag. cbn [Z.eqb snd app]. reflexivity. Qed.

Lemma units_bytes nbits nchans n : In nbits [1; 2; 4; 8; 16; 32] -> 1 <= nchans -> (nchans * nbits) mod 8 = 0 -> 0 <= n ->
  1 <= itemsize nbits /\
  cread_count (rb_units nchans n) (bitfact nbits) * itemsize nbits = n * sbytes nbits nchans /\
  samp_stride nchans (itemsize nbits) (bitfact nbits) = sbytes nbits nchans.
Proof. intros Hin Hc Hm Hn. unfold cread_count, rb_units, samp_stride, sbytes.
  assert (Eq : nchans * nbits = 8 * (nchans * nbits / 8)) by (apply Z.div_exact; lia).
  set (q := nchans * nbits / 8) in *.
  cbn in Hin. destruct Hin as [<-|[<-|[<-|[<-|[<-|[<-|[]]]]]]]; cbn [itemsize bitfact Z.eqb orb Pos.eqb]; change (8 / 1) with 8; change (8 / 2) with 4; change (8 / 4) with 2.
  - replace nchans with (8 * q) by lia. replace (8 * q * n) with (q * n * 8) by lia. replace (8 * q * 1) with (q * 8) by lia. rewrite !Z.div_mul by lia. lia.
  - replace nchans with (4 * q) by lia. replace (4 * q * n) with (q * n * 4) by lia. replace (4 * q * 1) with (q * 4) by lia. rewrite !Z.div_mul by lia. lia.
  - replace nchans with (2 * q) by lia. replace (2 * q * n) with (q * n * 2) by lia. replace (2 * q * 1) with (q * 2) by lia. rewrite !Z.div_mul by lia. lia.
  - replace nchans with q by lia. rewrite !Z.div_1_r. lia.
  - assert (2 * nchans = q) by lia. rewrite !Z.div_1_r. lia.
  - assert (4 * nchans = q) by lia. rewrite !Z.div_1_r. lia. Qed.

(** read_block(0, k) on a file whose data section holds at least k samples returns the first k samples' bytes *)
Lemma read_first nbits nchans h dd k nsamples :
  In nbits [1; 2; 4; 8; 16; 32] -> 1 <= nchans -> (nchans * nbits) mod 8 = 0 ->
  1 <= k <= nsamples -> k * sbytes nbits nchans <= len dd ->
  read_block_file (mkfile h dd) nbits nchans nsamples 0 k = OBytes (firstn (Z.to_nat (k * sbytes nbits nchans)) dd).
Proof. intros Hin Hc Hm Hk Hl. pose proof (sbytes_pos nbits nchans Hin Hc Hm) as Hsb.
  destruct (units_bytes nbits nchans k Hin Hc Hm ltac:(lia)) as (Hi & Eu & Es).
  unfold read_block_file. replace ((0 <? 0) || (0 + k >? nsamples)) with false by lia.
  rewrite Es. unfold rb_seek. rewrite Z.mul_0_l.
  set (f := mkfile h dd).
  assert (Ht : total [f] = len dd) by (unfold total, datalen, f, len; cbn; lia).
  destruct (seek_set_ok [f] (init [f]) 0 ltac:(nia)) as [s1 [-> [[Hi1 Hp1] Ha1]]].
  assert (Ei : ifile s1 = 0) by (unfold nfiles in Hi1; cbn in Hi1; lia).
  unfold absp in Ha1. rewrite Ei in *. rewrite before_0 in Ha1. unfold fileat in *. cbn [Z.to_nat nth] in *.
  set (cnt := cread_count (rb_units nchans k) (bitfact nbits)) in *.
  assert (Hcnt : 0 <= cnt) by nia.
  assert (Hfl : filelen f = hdrlen f + len dd) by reflexivity.
  rewrite cread_one; try lia.
  rewrite Eu. replace (pos s1) with (hdrlen f + 0) by lia. rewrite raw_slice by lia.
  unfold slice, f. cbn [dat skipn Z.to_nat]. reflexivity. Qed.

Lemma firstn_firstn_le {A} (l : list A) i j : (i <= j)%nat -> firstn i (firstn j l) = firstn i l.
Proof. intro H. rewrite firstn_firstn. f_equal. lia. Qed.

Lemma truncation_readable nbits nchans h d L :
  In nbits [1; 2; 4; 8; 16; 32] -> 1 <= nchans -> (nchans * nbits) mod 8 = 0 -> len h <= L <= len h + len d ->
  let f := cut h d L in
  let k := open_nsamples f nbits nchans in
  let N := open_nsamples (mkfile h d) nbits nchans in
  let sb := sbytes nbits nchans in
  raw f = firstn (Z.to_nat L) (h ++ d) /\ hdr f = h /\
  k = 8 * (L - len h) / (nbits * nchans) /\ 0 <= k <= N /\
  (1 <= k -> exists full,
     read_block_file (mkfile h d) nbits nchans N 0 N = OBytes full /\
     read_block_file f nbits nchans k 0 k = OBytes (firstn (Z.to_nat (k * sb)) full) /\
     firstn (Z.to_nat (k * sb)) full = firstn (Z.to_nat (k * sb)) d).
Proof. intros Hin Hc Hm HL f k N sb. pose proof (sbytes_pos nbits nchans Hin Hc Hm) as Hsb. fold sb in Hsb.
  destruct (open_nsamples_spec nbits nchans h d L Hin Hc Hm HL) as [Ek1 Ek2]. fold f k in Ek1, Ek2. fold sb in Ek2.
  assert (HLf : len h <= len h + len d <= len h + len d) by (pose proof (len_nonneg d); lia).
  destruct (open_nsamples_spec nbits nchans h d (len h + len d) Hin Hc Hm HLf) as [_ En]. rewrite cut_full in En. fold N sb in En.
  replace (len h + len d - len h) with (len d) in En by lia.
  assert (Hk0 : 0 <= k) by (rewrite Ek2; apply Z.div_pos; lia).
  assert (HkN : k <= N) by (rewrite Ek2, En; apply Z.div_le_mono; lia).
  assert (HkL : k * sb <= L - len h) by (rewrite Ek2; pose proof (Z.mul_div_le (L - len h) sb ltac:(lia)); lia).
  assert (HNL : N * sb <= len d) by (rewrite En; pose proof (Z.mul_div_le (len d) sb ltac:(lia)); lia).
  split; [apply cut_raw; lia|]. split; [reflexivity|]. split; [exact Ek1|]. split; [lia|]. intro Hk1.
  exists (firstn (Z.to_nat (N * sb)) d). split; [apply read_first; try assumption; lia|]. split.
  - unfold f, cut. rewrite read_first; try assumption; try lia.
    + rewrite !firstn_firstn_le; [reflexivity| |]; nia.
    + rewrite len_firstn by lia. exact HkL.
  - apply firstn_firstn_le. nia. Qed.

(** any crash point of any ok site leaves a file the reader opens as a prefix of the full result *)
Lemma crash_readable s old h bs k nbits nchans : site_ok s -> (2 <= k)%nat ->
  In nbits [1; 2; 4; 8; 16; 32] -> 1 <= nchans -> (nchans * nbits) mod 8 = 0 ->
  let data := concat bs in
  let m := len (concat (firstn (k - 2) bs)) in
  let f := cut h data (len h + m) in
  let ks := open_nsamples f nbits nchans in
  disk (at_crash s old h bs k) = raw f /\ m <= len data /\ ks = 8 * m / (nbits * nchans) /\
  (1 <= ks -> read_block_file f nbits nchans ks 0 ks = OBytes (firstn (Z.to_nat (ks * sbytes nbits nchans)) data)).
Proof. intros Hs Hk Hin Hc Hm data m f ks.
  destruct (append_only s old h bs k Hs Hk) as (_ & _ & E). cbv zeta in E.
  assert (Hml : m <= len data).
  { unfold m, data. rewrite (concat_firstn_prefix bs (k - 2)). unfold len. rewrite firstn_length. lia. }
  assert (HL : len h <= len h + m <= len h + len data) by (pose proof (len_nonneg (concat (firstn (k - 2) bs))); fold m in H; lia).
  destruct (truncation_readable nbits nchans h data (len h + m) Hin Hc Hm HL) as (R1 & _ & R3 & _ & R5). fold f ks in R1, R3, R5.
  split.
  - rewrite E, R1. rewrite firstn_app_r by (unfold len; lia). f_equal. f_equal. unfold m, len. lia.
  - split; [exact Hml|]. split; [rewrite R3; f_equal; f_equal; lia|]. intro H1. destruct (R5 H1) as (full & _ & Rb & Rc). now rewrite Rb, Rc. Qed.

(** at depth 8 the single-file reader of this model is C02's read_block_bytes *)
Lemma read_block_file_bytes f nchans nsamples start nsamps :
  read_block_file f 8 nchans nsamples start nsamps = read_block_bytes [f] nchans nsamples start nsamps.
Proof. unfold read_block_file, read_block_bytes, rb_seek, rb_units, cread_count, samp_stride. cbn [itemsize bitfact Z.eqb Pos.eqb orb].
  rewrite !Z.div_1_r, Z.mul_1_r. reflexivity. Qed.

(** * the same statements for the sites regenerated from the library *)
Lemma site_in s : In s all_sites -> site_ok s.
Proof. intro H. exact (proj1 (Forall_forall site_ok all_sites) all_sites_ok s H). Qed.

Lemma lib_append_only s old h bs k : In s all_sites -> (2 <= k)%nat ->
  let st := at_crash s old h bs k in
  disk st = h ++ concat (firstn (k - 2) bs) /\ pend st = [] /\
  disk st = h ++ firstn (length (concat (firstn (k - 2) bs))) (concat bs).
Proof. intro H. apply append_only, site_in, H. Qed.

Lemma lib_before_header s old h bs : In s all_sites ->
  disk (at_crash s old h bs 0) = old /\ disk (at_crash s old h bs 1) = [].
Proof. intro H. apply before_header, site_in, H. Qed.

Lemma lib_only_grows s old h bs k k' : In s all_sites -> (2 <= k <= k')%nat ->
  exists t, disk (at_crash s old h bs k') = disk (at_crash s old h bs k) ++ t.
Proof. intro H. apply only_grows, site_in, H. Qed.

Lemma lib_block_per_gulp s old h bs j : In s all_sites -> (j <= length bs)%nat ->
  disk (at_crash s old h bs (2 + j)) = h ++ concat (firstn j bs).
Proof. intro H. apply block_per_gulp, site_in, H. Qed.

Lemma lib_complete_on_return s old h bs : In s all_sites ->
  disk (on_return s old h bs) = h ++ concat bs /\ pend (on_return s old h bs) = [].
Proof. intro H. apply complete_on_return, site_in, H. Qed.

Lemma lib_crash_readable s old h bs k nbits nchans : In s all_sites -> (2 <= k)%nat ->
  In nbits [1; 2; 4; 8; 16; 32] -> 1 <= nchans -> (nchans * nbits) mod 8 = 0 ->
  let data := concat bs in
  let m := len (concat (firstn (k - 2) bs)) in
  let f := cut h data (len h + m) in
  let ks := open_nsamples f nbits nchans in
  disk (at_crash s old h bs k) = raw f /\ m <= len data /\ ks = 8 * m / (nbits * nchans) /\
  (1 <= ks -> read_block_file f nbits nchans ks 0 ks = OBytes (firstn (Z.to_nat (ks * sbytes nbits nchans)) data)).
Proof. intro H. apply crash_readable, site_in, H. Qed.

Lemma trace_length s h bs : site_ok s -> length (trace s h bs) = (2 + length bs + (if closes s then 1 else 0))%nat.
Proof. intro Hs. rewrite (trace_normal s h bs Hs). unfold norm_trace. rewrite !app_length, map_length. destruct (closes s); reflexivity. Qed.

(** * batching of the multi-output writers: `for batch_start in range(0, n, batch_size)` opens filenames[lo:hi].
      The slices of the regenerated arithmetic are valid and partition [0, n): output [i] is opened in batch [i / batch_size]
      and in no other, so every output path is opened (truncated, header written) exactly once per call. *)
Definition batch_partition (lo hi : Z -> Z -> Z -> Z) : Prop :=
  forall n bs k, 1 <= bs -> 0 <= k -> k * bs < n ->
    0 <= lo (k * bs) bs n <= hi (k * bs) bs n /\ hi (k * bs) bs n <= n /\
    forall i, 0 <= i < n -> (lo (k * bs) bs n <= i < hi (k * bs) bs n <-> k = i / bs).

Lemma batch_std : batch_partition (fun b _ _ => b) (fun b bs n => Z.min (b + bs) n).
Proof. intros n bs k Hb Hk Hn. cbv beta. split; [nia|]. split; [lia|]. intros i Hi. split.
  - intro H. apply (Z.div_unique i bs k (i - k * bs)); lia.
  - intros ->. pose proof (Z.mul_div_le i bs ltac:(lia)). pose proof (Z.mod_pos_bound i bs ltac:(lia)).
    pose proof (Z.div_mod i bs ltac:(lia)). nia. Qed.

Lemma batch_extract_chans : batch_partition batch_lo_extract_chans batch_hi_extract_chans.
Proof. exact batch_std. Qed.
Lemma batch_extract_bands : batch_partition batch_lo_extract_bands batch_hi_extract_bands.
Proof. exact batch_std. Qed.

(** * FourierSeries.to_spec: a one-shot writer (prep_outfile; one cwrite of the whole spectrum; __exit__).
      Its site descriptor is regenerated like the others and is a member of [all_sites], so every statement above holds for it;
      spelled out for its single block [b]: the path goes old -> empty -> header -> header ++ b and stays there. *)
Lemma to_spec_in : In site_to_spec all_sites.
Proof. unfold all_sites. repeat (try (left; reflexivity); right). Qed.

Lemma to_spec_prefix old h b :
  In site_to_spec all_sites /\
  map (fun k => disk (at_crash site_to_spec old h [b] k)) [0; 1; 2; 3]%nat = [old; []; h; h ++ b] /\
  (forall k, (3 <= k)%nat -> disk (at_crash site_to_spec old h [b] k) = h ++ b) /\
  (forall k, (2 <= k)%nat -> pend (at_crash site_to_spec old h [b] k) = [] /\
     exists t, h ++ b = disk (at_crash site_to_spec old h [b] k) ++ t) /\
  disk (on_return site_to_spec old h [b]) = h ++ b /\ pend (on_return site_to_spec old h [b]) = [].
Proof.
  pose proof to_spec_in as Hin.
  assert (H3 : forall k, (3 <= k)%nat -> disk (at_crash site_to_spec old h [b] k) = h ++ b).
  { intros k Hk. destruct (lib_append_only site_to_spec old h [b] k Hin ltac:(lia)) as (E & _ & _). rewrite E.
    replace (k - 2)%nat with (S (k - 3)) by lia. cbn [firstn]. rewrite firstn_nil. cbn [concat]. now rewrite app_nil_r. }
  assert (H2 : disk (at_crash site_to_spec old h [b] 2) = h).
  { destruct (lib_append_only site_to_spec old h [b] 2 Hin ltac:(lia)) as (E & _ & _). rewrite E. cbn. now rewrite app_nil_r. }
  destruct (lib_before_header site_to_spec old h [b] Hin) as (E0 & E1).
  destruct (lib_complete_on_return site_to_spec old h [b] Hin) as (Er & Pr).
  split; [exact Hin|]. split.
  { cbn [map]. rewrite E0, E1, H2, (H3 3%nat ltac:(lia)). reflexivity. }
  split; [exact H3|]. split.
  { intros k Hk. split.
    - exact (proj1 (proj2 (lib_append_only site_to_spec old h [b] k Hin Hk))).
    - destruct (Nat.eq_dec k 2) as [->|Hne].
      + exists b. now rewrite H2.
      + exists []. rewrite (H3 k ltac:(lia)). now rewrite app_nil_r. }
  split; [|exact Pr]. rewrite Er. cbn [concat]. now rewrite app_nil_r.
Qed.
