(** C14: what holds and what fails for kernels.detrend_1d as it stood in the pinned tree (Model/C14_pinned.v is a frozen
    copy of its translation).  The live kernel is treated in Proofs/C14_detrend.v. *)
From Coq Require Import ZArith QArith Qfield List Lia.
Require Import SPP.Base.Rt SPP.Gen.C14_stats SPP.Model.C14_filters SPP.Model.C14_pinned SPP.Proofs.C14_qsums.
Import ListNotations.
Open Scope Q_scope.

Lemma wrap64_id z : (- 9223372036854775808 <= z < 9223372036854775808)%Z -> wrap64 z = z.
Proof. unfold wrap64. change (2 ^ 63)%Z with 9223372036854775808%Z. change (2 ^ 64)%Z with 18446744073709551616%Z.
  intro H. rewrite Z.mod_small; lia. Qed.

Lemma sumQ_resid_cast (cast : Q -> Q) n f s c : (forall q, cast q == q) ->
  sumQ n (fun i => cast (f i - cast (s * cast (inject_Z i) + c))) ==
  sumQ n f - s * sumQ n inject_Z - inject_Z (Z.of_nat n) * c.
Proof. intro H. rewrite <- sumQ_resid. apply sumQ_ext. intros i _.
  rewrite (H (f i - _)). rewrite (H (s * _ + c)). rewrite (H (inject_Z i)). reflexivity. Qed.

Lemma sumQ_resid_w_cast (cast : Q -> Q) n f s c : (forall q, cast q == q) ->
  sumQ n (fun i => inject_Z i * cast (f i - cast (s * cast (inject_Z i) + c))) ==
  sumQ n (fun i => inject_Z i * f i) - s * sumQ n (fun i => inject_Z i * inject_Z i) - c * sumQ n inject_Z.
Proof. intro H. rewrite <- sumQ_resid_w. apply sumQ_ext. intros i _.
  rewrite (H (f i - _)). rewrite (H (s * _ + c)). rewrite (H (inject_Z i)). reflexivity. Qed.

Lemma inject_Z_sub1 m : inject_Z (m - 1) == inject_Z m - 1.
Proof. unfold Z.sub. rewrite inject_Z_plus. reflexivity. Qed.

(** the int64 closed forms are exact as long as m (m-1) (2m-1) < 2^63, i.e. m <= 1664511 *)
Lemma pinned_closed_forms m : (2 <= m)%Z -> (m * (m - 1) * (2 * m - 1) < 2 ^ 63)%Z ->
  inject_Z (wrap64 (m * wrap64 (m - 1))) == inject_Z m * (inject_Z m - 1) /\
  inject_Z (wrap64 (wrap64 (m * wrap64 (m - 1)) * wrap64 (wrap64 (2 * m) - 1))) == inject_Z m * (inject_Z m - 1) * (2 * inject_Z m - 1).
Proof. intros H2 Hb. change (2 ^ 63)%Z with 9223372036854775808%Z in Hb.
  assert (Hm1 : (m - 1 <= m * (m - 1))%Z) by nia.
  assert (Hm2 : (m * (m - 1) <= m * (m - 1) * (2 * m - 1))%Z) by nia.
  assert (Hm3 : (2 * m - 1 <= m * (m - 1) * (2 * m - 1))%Z) by nia.
  rewrite (wrap64_id (m - 1)) by lia. rewrite (wrap64_id (m * (m - 1))) by lia.
  rewrite (wrap64_id (2 * m)) by lia. rewrite (wrap64_id (2 * m - 1)) by lia.
  rewrite (wrap64_id (m * (m - 1) * (2 * m - 1))) by lia.
  rewrite !inject_Z_mult, !inject_Z_sub1, inject_Z_mult. split; reflexivity. Qed.

Lemma detrend_pinned_partial (cast : Q -> Q) m arr : (forall q, cast q == q) ->
  (2 <= m)%Z -> (m * (m - 1) * (2 * m - 1) < 2 ^ 63)%Z ->
  sumQ (Z.to_nat m) (detrend_1d_pinned cast m arr) == 0 /\
  sumQ (Z.to_nat m) (fun i => inject_Z i * detrend_1d_pinned cast m arr i) == 0.
Proof. intros Hc Hm Hb. destruct (size_factors m Hm) as (H0 & H1 & H2).
  destruct (pinned_closed_forms m Hm Hb) as [E1 E2].
  unfold detrend_1d_pinned. cbv zeta. destruct (Z.eqb_spec m 1) as [->|_]; [lia|].
  rewrite iter_two_sums. split.
  - rewrite (sumQ_resid_cast cast _ _ _ _ Hc). rewrite E1, E2. rewrite !sumQ_from_eq, sumQ_idx. rewrite Z2Nat.id by lia.
    set (M := inject_Z m) in *.
    match goal with |- context [sumQ ?n (fun i => inject_Z i * @?D i)] => set (XY := sumQ n (fun i => inject_Z i * D i)) end.
    match goal with |- context [sumQ ?n ?D] => set (Y := sumQ n D) end.
    field. nz_side H0 H1 H2.
  - rewrite (sumQ_resid_w_cast cast _ _ _ _ Hc). rewrite E1, E2. rewrite !sumQ_from_eq, sumQ_idx, sumQ_sq. rewrite Z2Nat.id by lia.
    set (M := inject_Z m) in *.
    match goal with |- context [sumQ ?n (fun i => inject_Z i * @?D i)] => set (XY := sumQ n (fun i => inject_Z i * D i)) end.
    match goal with |- context [sumQ ?n ?D] => set (Y := sumQ n D) end.
    field. nz_side H0 H1 H2. Qed.

(** the bound is sharp *)
Lemma pinned_bound_sharp : (1664511 * (1664511 - 1) * (2 * 1664511 - 1) < 2 ^ 63 <= 1664512 * (1664512 - 1) * (2 * 1664512 - 1))%Z.
Proof. split; [reflexivity | intro H; vm_compute in H; discriminate H]. Qed.

(** beyond it the fit is wrong even for a float64 ramp: the residual is not orthogonal to the sample index *)
Lemma detrend_pinned_int64_refuted : exists m arr, (2 <= m)%Z /\
  ~ sumQ (Z.to_nat m) (fun i => inject_Z i * detrend_1d_pinned (fun q => q) m arr i) == 0.
Proof. exists 1664512%Z, inject_Z. split; [lia|].
  remember 1664512%Z as m eqn:Em. assert (Hm : (2 <= m)%Z) by (subst; lia).
  unfold detrend_1d_pinned. cbv zeta. destruct (Z.eqb_spec m 1) as [->|_]; [lia|].
  rewrite iter_two_sums. cbv beta.
  rewrite (sumQ_resid_w (Z.to_nat m) inject_Z). rewrite !sumQ_from_eq, !sumQ_sq, !sumQ_idx. rewrite Z2Nat.id by lia.
  subst m. vm_compute. discriminate. Qed.

(** and for uint8 input the conversions to the input dtype destroy the residual for every length >= 2 that is tried;
    three samples suffice *)
Lemma detrend_pinned_uint8_refuted : exists m arr, (2 <= m)%Z /\ (forall k, (0 <= k < m)%Z -> cast_u8 (arr k) == arr k) /\
  ~ sumQ (Z.to_nat m) (detrend_1d_pinned cast_u8 m arr) == 0.
Proof. exists 3%Z, (fun k => inject_Z (nth (Z.to_nat k) [10; 20; 60]%Z 0%Z)). split; [lia|]. split.
  - intros k Hk. assert (k = 0 \/ k = 1 \/ k = 2)%Z as [->|[->| ->]] by lia; reflexivity.
  - vm_compute. discriminate. Qed.
