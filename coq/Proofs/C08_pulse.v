(** PulseExtractor (readers.py): which samples of the file the extracted block holds.  Subject: Gen/Pulse.v, regenerated from the
    property methods of the class, the body of get_data and BaseBlock.pad_samples. *)
From Coq Require Import ZArith List Bool Lia ZifyBool.
Require Import SPP.Base.Rt SPP.Gen.Pulse.
Open Scope Z_scope.
Ltac Zify.zify_post_hook ::= Z.to_euclidean_division_equations.

Section Geometry.
  Variables (toa pw dd mn N : Z).
  Hypotheses (Hdd : 0 <= dd) (HN : 1 <= N).

  Definition tdec := Z.max 1 (pw / 2).
  Definition bdel := (dd / tdec + 1) * tdec.
  Definition ns := Z.max (2 * bdel) (mn * tdec).
  Definition nst := toa - ns / 2.
  Definition nstf := Z.max 0 nst.
  Definition nsf := Z.min (ns + Z.min 0 nst) (N - Z.max 0 nst).

  Lemma geom_eq : px_geom toa pw dd mn N = (tdec, bdel, ns, nst, nstf, nsf, toa - nst).
  Proof. reflexivity. Qed.

  Lemma tdec_pos : 1 <= tdec. Proof. unfold tdec. lia. Qed.

  (** the half-width of the block exceeds the dispersion sweep, and the block is a whole number of decimation steps *)
  Lemma bdel_gt : dd < bdel.
  Proof. unfold bdel. pose proof tdec_pos as Ht. generalize dependent tdec. intros t Ht.
    pose proof (Z.mod_pos_bound dd t ltac:(lia)) as Hm. pose proof (Z.div_mod dd t ltac:(lia)) as Hd. nia. Qed.

  Lemma bdel_mult : bdel mod tdec = 0.
  Proof. unfold bdel. apply Z.mod_mul. pose proof tdec_pos. lia. Qed.

  Lemma ns_mult : ns mod tdec = 0.
  Proof. unfold ns. pose proof tdec_pos as Ht. destruct (Z.max_spec (2 * bdel) (mn * tdec)) as [[_ ->]|[_ ->]].
    - apply Z.mod_mul. lia.
    - unfold bdel. replace (2 * ((dd / tdec + 1) * tdec)) with ((2 * (dd / tdec + 1)) * tdec) by lia. apply Z.mod_mul. lia. Qed.

  Lemma ns_ge : 2 * bdel <= ns. Proof. unfold ns. lia. Qed.
  Lemma ns_pos : 2 <= ns. Proof. pose proof ns_ge. pose proof bdel_gt. lia. Qed.

  (** the pulse sits at the centre sample of the block *)
  Lemma toa_block : toa - nst = ns / 2 /\ 0 <= ns / 2 < ns.
  Proof. unfold nst. pose proof ns_pos. split; [lia|]. split; [apply Z.div_pos; lia|apply Z.div_lt_upper_bound; lia]. Qed.

  (** the block covers the whole dispersion sweep on both sides of the pulse *)
  Lemma covers : nst <= toa - dd - 1 /\ toa + dd < nst + ns.
  Proof. unfold nst. pose proof ns_ge. pose proof bdel_gt. pose proof ns_pos.
    generalize dependent ns. intros n H1 H2. generalize dependent bdel. intros b H1 H3. lia. Qed.

  Section Overlap.
    (** the block overlaps the file *)
    Hypotheses (Hlo : 0 < nst + ns) (Hhi : nst < N).

    (** the read is in range and non-empty, and the padded copy fits: read_block and the slice assignment cannot fail *)
    Lemma read_ok : 0 <= nstf /\ 1 <= nsf /\ nstf + nsf <= N /\ 0 <= px_offset nst /\ px_offset nst + nsf <= ns.
    Proof. pose proof ns_pos. unfold nstf, nsf, px_offset. lia. Qed.

    Lemma no_pad_len : px_pad_cond nst ns N = false -> nsf = ns /\ nstf = nst.
    Proof. unfold px_pad_cond, nsf, nstf. intro H. lia. Qed.

    Variables (x : arr) (padv : Z).

    Theorem get_row_spec :
      snd (px_get_row x padv toa pw dd mn N) = ns /\
      forall k, 0 <= k < ns ->
        fst (px_get_row x padv toa pw dd mn N) k = if (0 <=? nst + k) && (nst + k <? N) then x (nst + k) else padv.
    Proof. unfold px_get_row. rewrite geom_eq. cbv iota beta. pose proof read_ok as [R1 [R2 [R3 [R4 R5]]]].
      destruct (px_pad_cond nst ns N) eqn:E; cbn [fst snd].
      - split; [reflexivity|]. intros k Hk. unfold pad_row. unfold px_offset, nstf, nsf in *.
        destruct ((Z.abs (Z.min 0 nst) <=? k) && (k <? Z.abs (Z.min 0 nst) + Z.min (ns + Z.min 0 nst) (N - Z.max 0 nst))) eqn:E1;
        destruct ((0 <=? nst + k) && (nst + k <? N)) eqn:E2; try reflexivity; try lia.
        f_equal. lia.
      - destruct (no_pad_len E) as [L1 L2]. split; [exact L1|]. intros k Hk. rewrite L2.
        unfold px_pad_cond in E. replace ((0 <=? nst + k) && (nst + k <? N)) with true by lia. reflexivity. Qed.

    (** the header of the returned block: read_block advances tstart by nstart_file samples, pad_samples moves it back by the leading
        pad (C08_block_pad_samples), so it refers to sample nstart, the sample held by the first column *)
    Lemma header_sample : (if px_pad_cond nst ns N then nstf - px_offset nst else nstf) = nst.
    Proof. unfold px_pad_cond, nstf, px_offset. destruct ((nst <? 0) || (nst + ns >? N)) eqn:E; lia. Qed.

    (** in particular the sample at the centre of the block is the file's sample at the pulse's time of arrival *)
    Corollary centre_is_toa : 0 <= toa < N -> fst (px_get_row x padv toa pw dd mn N) (ns / 2) = x toa.
    Proof. intro Ht. destruct get_row_spec as [_ S]. destruct toa_block as [T1 T2]. rewrite (S (ns / 2) T2).
      replace (nst + ns / 2) with toa by lia. replace ((0 <=? toa) && (toa <? N)) with true by lia. reflexivity. Qed.
  End Overlap.
End Geometry.
