(** C07: file-to-file transforms = read plan o generated per-block functions, concatenated by the writer. *)
From Coq Require Import ZArith List Bool Lia ZifyBool.
Require Import SPP.Base.Rt SPP.Base.Iter SPP.Gen.Kernels SPP.Gen.Plan SPP.Gen.TransformSites
               SPP.Model.Stream SPP.Model.Plan SPP.Model.C07_pipe SPP.Proofs.C02_stream SPP.Proofs.C01_plan SPP.Proofs.C06_reduce SPP.Proofs.C03_bits.
Import ListNotations.
Open Scope Z_scope.
Ltac Zify.zify_post_hook ::= Z.to_euclidean_division_equations.

(** * ranges and row-structured arrays *)
Definition zrange_from (a n : Z) : list Z := map (fun i => a + i) (zrange n).

Lemma map_seq_shift m : forall k, map Z.of_nat (seq k m) = map (fun i => Z.of_nat k + i) (map Z.of_nat (seq 0 m)).
Proof. induction k as [|k IH].
  - rewrite map_map. apply map_ext. intro; lia.
  - rewrite <- seq_shift, map_map. rewrite (map_ext (fun x => Z.of_nat (S x)) (fun x => (fun i => i + 1) (Z.of_nat x))) by (intro; lia).
    rewrite <- (map_map Z.of_nat (fun i => i + 1)), IH. rewrite !map_map. apply map_ext. intro; lia. Qed.

Lemma zrange_app n1 n2 : 0 <= n1 -> 0 <= n2 -> zrange (n1 + n2) = zrange n1 ++ zrange_from n1 n2.
Proof. intros H1 H2. unfold zrange_from, zrange. rewrite Z2Nat.inj_add by lia. rewrite seq_app, map_app. f_equal.
  rewrite Nat.add_0_l, map_seq_shift. apply map_ext. intro; lia. Qed.

Lemma zrange_from_0 n : zrange_from 0 n = zrange n.
Proof. unfold zrange_from. rewrite <- (map_id (zrange n)) at 2. apply map_ext. intro; lia. Qed.

Lemma zrange_from_app a n1 n2 : 0 <= n1 -> 0 <= n2 -> zrange_from a (n1 + n2) = zrange_from a n1 ++ zrange_from (a + n1) n2.
Proof. intros H1 H2. unfold zrange_from at 1. rewrite zrange_app by assumption. rewrite map_app. f_equal.
  unfold zrange_from. rewrite map_map. apply map_ext. intro; lia. Qed.

Lemma In_zrange_from a n t : In t (zrange_from a n) <-> a <= t < a + n.
Proof. unfold zrange_from. rewrite in_map_iff. split.
  - intros [i [<- Hi]]. apply In_zrange in Hi. lia.
  - intro H. exists (t - a). split; [lia|]. apply In_zrange. lia. Qed.

Lemma flat_map_ext_in_ {A B} (f g : A -> list B) l : (forall a, In a l -> f a = g a) -> flat_map f l = flat_map g l.
Proof. induction l as [|x r IH]; intro E; cbn; [reflexivity|]. rewrite E by (left; reflexivity). f_equal. apply IH. intros; apply E; right; assumption. Qed.

Lemma to_list_map n A : to_list n A = map A (zrange n).
Proof. unfold to_list, zrange. rewrite map_map. reflexivity. Qed.

(** an array of [n] rows of width [w], read out row by row *)
Lemma to_list_rows A n w : 0 <= n -> 1 <= w ->
  to_list (n * w) A = flat_map (fun r => map (fun c => A (r * w + c)) (zrange w)) (zrange n).
Proof. intros Hn Hw. rewrite <- (Z2Nat.id n Hn). generalize (Z.to_nat n) as m. clear n Hn.
  induction m as [|m IH]; [reflexivity|].
  replace (Z.of_nat (S m) * w) with (Z.of_nat m * w + w) by lia.
  rewrite to_list_map, zrange_app by nia. rewrite map_app, <- to_list_map, IH.
  replace (Z.of_nat (S m)) with (Z.of_nat m + 1) by lia. rewrite zrange_app by lia. rewrite flat_map_app. f_equal.
  unfold zrange_from. change (zrange 1) with [0]. cbn [map flat_map]. rewrite app_nil_r.
  rewrite (map_map (fun i => Z.of_nat m * w + i) A). apply map_ext. intro; f_equal; lia. Qed.

Lemma flat_map_map_ {A B C} (h : A -> B) (g : B -> list C) l : flat_map g (map h l) = flat_map (fun x => g (h x)) l.
Proof. induction l as [|x r IH]; cbn; [reflexivity|]. now rewrite IH. Qed.

Lemma emit_rows A n w (rowf : Z -> list Z) s0 : 0 <= n -> 1 <= w ->
  (forall r, 0 <= r < n -> map (fun c => A (r * w + c)) (zrange w) = rowf (s0 + r)) ->
  to_list (n * w) A = flat_map rowf (zrange_from s0 n).
Proof. intros Hn Hw E. rewrite to_list_rows by assumption. unfold zrange_from. rewrite flat_map_map_.
  apply flat_map_ext_in_. intros r Hr. apply In_zrange in Hr. apply E. assumption. Qed.

(** * the generic theorem for transforms without skipback: each output row consumes [tf] consecutive samples
      (tf = 1 for sample-wise transforms); the gulp handed to read_plan is a multiple of tf *)
Section StreamMap.
  Variables (fs : list file) (nch N gulp start nsamps tf : Z).
  Hypotheses (Hf : 1 <= nfiles fs) (Hc : 1 <= nch) (Ht : total fs = N * nch)
             (Hs0 : 0 <= start) (Hn : 1 <= nsamps) (Hr : start + nsamps <= N) (Hg : 1 <= gulp)
             (Htf : 1 <= tf) (Hdiv : gulp mod tf = 0).
  Variable f : Z -> arr -> arr * Z.
  Variable rowf : Z -> list Z.
  (** what the per-block function emits for a block of [len_] samples starting at relative sample [s0] (a multiple of tf) *)
  Hypothesis Hblock : forall s0 len_, 0 <= s0 -> s0 mod tf = 0 -> 1 <= len_ -> s0 + len_ <= nsamps ->
    emit (f len_ (of_list (slice (flat fs) ((start + s0) * nch) (len_ * nch)))) = flat_map rowf (zrange_from (s0 / tf) (len_ / tf)).

  Lemma stream_full g : 1 <= g -> g mod tf = 0 -> forall j, (j = 0%nat \/ Z.of_nat j * g <= nsamps) ->
    flat_map (fun b : Z * Z * list Z => let '(n_r, ii, d) := b in emit (f n_r (of_list d))) (map (blk fs nch start g 0) (map Z.of_nat (seq 0 j)))
    = flat_map rowf (zrange (Z.of_nat j * (g / tf))).
  Proof. intros Hg1 Hgd. assert (Eg : g = tf * (g / tf)) by (apply Z.div_exact; lia).
    assert (Hq : 1 <= g / tf) by nia.
    induction j as [|j IH]; intro Hfit; [reflexivity|].
    destruct Hfit as [Hfit|Hfit]; [discriminate|].
    rewrite seq_S, !map_app, flat_map_app. cbn [map flat_map Nat.add]. rewrite app_nil_r.
    rewrite IH by (destruct j; [left; reflexivity|right; nia]).
    rewrite blk_slice. replace (g - 0) with g by lia.
    rewrite (Hblock (Z.of_nat j * g) g); try nia.
    - replace (Z.of_nat j * g / tf) with (Z.of_nat j * (g / tf)).
      + replace (Z.of_nat (S j) * (g / tf)) with (Z.of_nat j * (g / tf) + g / tf) by lia.
        rewrite zrange_app by nia. rewrite flat_map_app. reflexivity.
      + rewrite Eg at 2. replace (Z.of_nat j * (tf * (g / tf))) with ((Z.of_nat j * (g / tf)) * tf) by lia. rewrite Z.div_mul by lia. reflexivity.
    - rewrite Eg. replace (Z.of_nat j * (tf * (g / tf))) with ((Z.of_nat j * (g / tf)) * tf) by lia. apply Z.mod_mul. lia. Qed.

  Theorem stream_map_spec : stream_map f fs nch gulp start nsamps = Some (flat_map rowf (zrange (nsamps / tf))).
  Proof. unfold stream_map.
    destruct (run_plan_explicit fs nch N gulp start nsamps 0 Hf Hc Ht Hs0 Hn Hr Hg ltac:(lia)) as [g [sb [nreads [lr [F ->]]]]].
    destruct F as [Fg Fsb Fsblt Fnr Ffit Flast Fcov]. change (Z.abs 0) with 0 in Fsb. subst sb.
    replace (g - 0) with g in * by lia. f_equal.
    unfold plan_blocks, zrange at 1. rewrite flat_map_app.
    destruct (Z_le_gt_dec gulp nsamps) as [Hle|Hgt].
    - assert (Eg : g = gulp) by lia. assert (Egd : g mod tf = 0) by (rewrite Eg; assumption).
      assert (Eg' : g = tf * (g / tf)) by (apply Z.div_exact; lia).
      rewrite stream_full by (try lia; right; nia). rewrite Z2Nat.id by lia.
      destruct (Z.eqb_spec lr 0) as [E|NE]; cbn [flat_map].
      + rewrite app_nil_r. f_equal. f_equal. replace nsamps with ((nreads * (g / tf)) * tf) by nia. rewrite Z.div_mul by lia. reflexivity.
      + destruct Flast as [?|Flast]; [contradiction|]. rewrite app_nil_r.
        unfold P. replace (g - 0) with g by lia.
        assert (Em : (nreads * g) mod tf = 0) by (rewrite Eg'; replace (nreads * (tf * (g / tf))) with ((nreads * (g / tf)) * tf) by lia; apply Z.mod_mul; lia).
        rewrite (Hblock (nreads * g) lr) by nia.
        assert (Ediv : nreads * g / tf = nreads * (g / tf)).
        { rewrite Eg' at 1. replace (nreads * (tf * (g / tf))) with ((nreads * (g / tf)) * tf) by lia. apply Z.div_mul. lia. }
        rewrite Ediv.
        replace (nsamps / tf) with (nreads * (g / tf) + lr / tf).
        * assert (0 <= lr / tf) by (apply Z.div_pos; lia). rewrite zrange_app by nia. rewrite flat_map_app. reflexivity.
        * replace nsamps with (lr + (nreads * (g / tf)) * tf) by nia. rewrite Z.div_add by lia. lia.
    - assert (Eg : g = nsamps) by lia.
      assert (nreads = 1) by nia. subst nreads.
      assert (lr = 0) by (destruct (Z.eqb_spec lr 0); [assumption|destruct Flast; nia]). subst lr.
      change (Z.to_nat 1) with 1%nat. cbn [seq map flat_map Z.eqb]. rewrite !app_nil_r. change (Z.of_nat 0) with 0.
      rewrite blk_slice. replace (g - 0) with g by lia. replace ((start + 0 * g) * nch) with ((start + 0) * nch) by lia.
      rewrite (Hblock 0 g) by (try lia; apply Z.mod_0_l; lia). rewrite Z.div_0_l by lia. rewrite zrange_from_0. rewrite Eg. reflexivity. Qed.
End StreamMap.

(** * sample-wise transforms (tf = 1) *)
Lemma div1 a : a / 1 = a. Proof. apply Z.div_1_r. Qed.
Lemma mod1 a : a mod 1 = 0. Proof. apply Z.mod_1_r. Qed.

(** an emitted array of [len_] rows of width [w] whose element (r, c) is [val (s0 + r) c] *)
Lemma emit_block A len_ w (val : Z -> Z -> Z) s0 : 1 <= len_ -> 1 <= w ->
  (forall r c, 0 <= r < len_ -> 0 <= c < w -> A (r * w + c) = val (s0 + r) c) ->
  to_list (len_ * w) A = flat_map (fun t => map (val t) (zrange w)) (zrange_from (s0 / 1) (len_ / 1)).
Proof. intros Hl Hw E. rewrite !div1. apply emit_rows; try lia. intros r Hr. apply map_ext_in. intros c Hcx. apply In_zrange in Hcx. apply E; lia. Qed.

Section Samplewise.
  Variables (fs : list file) (nch N gulp start nsamps : Z).
  Hypotheses (Hf : 1 <= nfiles fs) (Hc : 1 <= nch) (Ht : total fs = N * nch)
             (Hs0 : 0 <= start) (Hn : 1 <= nsamps) (Hr : start + nsamps <= N) (Hg : 1 <= gulp).

  (** sample (relative) t, channel c of the selection *)
  Definition Sel (t c : Z) : Z := X fs ((start + t) * nch + c).

  Lemma data_elem s0 len_ r c : 0 <= s0 -> 1 <= len_ -> s0 + len_ <= nsamps -> 0 <= r < len_ -> 0 <= c < nch ->
    of_list (slice (flat fs) ((start + s0) * nch) (len_ * nch)) (r * nch + c) = Sel (s0 + r) c.
  Proof. intros. rewrite of_list_slice; try nia.
    - unfold Sel, X. f_equal. nia.
    - rewrite len_flat. nia. Qed.

  Local Ltac use_generic rf :=
    apply (stream_map_spec fs nch N gulp start nsamps 1 Hf Hc Ht Hs0 Hn Hr Hg ltac:(lia) ltac:(apply mod1) _ rf).

  (** extract_samps: the selected samples, unchanged *)
  Theorem samps_spec : samps_pipe fs nch gulp start nsamps = Some (flat_map (fun t => map (Sel t) (zrange nch)) (zrange nsamps)).
  Proof. unfold samps_pipe. rewrite <- (div1 nsamps) at 2. use_generic (fun t => map (Sel t) (zrange nch)).
    intros s0 len_ H0 _ H1 H2. unfold emit, samps_block, data_size. cbn [fst snd].
    apply emit_block; try lia. intros r c Hr' Hc'. apply data_elem; assumption. Qed.

  (** invert_freq: channel order reversed, whatever the uninitialised output buffer held *)
  Lemma invert_kernel junk data n k : 0 <= n -> 0 <= k < n * nch ->
    invert_freq_run junk data nch n k = data (nch * (k / nch) + (nch - 1 - k mod nch)).
  Proof. intros Hn0 Hk. unfold invert_freq_run. cbv zeta.
    rewrite (SPP.Proofs.C03_bits.iter_blocks nch (Z.to_nat n) _ (fun ii j => data (nch * (ii + 1) - 1 - j))).
    - rewrite Z2Nat.id by lia. replace ((0 <=? k) && (k <? nch * n)) with true by lia. f_equal. nia.
    - lia.
    - intros ii w Hii j. rewrite iter_assign_affine. rewrite Z2Nat.id by nia.
      replace (nch * ii + (nch * (ii + 1) - nch * ii)) with (nch * ii + nch) by lia. reflexivity. Qed.

  Theorem invert_spec junk : invert_pipe fs nch gulp start nsamps junk =
    Some (flat_map (fun t => map (fun c => Sel t (nch - 1 - c)) (zrange nch)) (zrange nsamps)).
  Proof. unfold invert_pipe. rewrite <- (div1 nsamps) at 2. use_generic (fun t => map (fun c => Sel t (nch - 1 - c)) (zrange nch)).
    intros s0 len_ H0 _ H1 H2. unfold emit, invert_block, invert_freq_size, data_size. cbn [fst snd].
    apply emit_block; try lia. intros r c Hr' Hc'. rewrite invert_kernel by nia.
    replace ((r * nch + c) / nch) with r by (apply Z.div_unique with (r := c); lia).
    replace ((r * nch + c) mod nch) with c by (apply Z.mod_unique with (q := r); lia).
    replace (nch * r + (nch - 1 - c)) with (r * nch + (nch - 1 - c)) by lia. apply data_elem; try assumption; lia. Qed.

  (** extract_chans: the file of channel [chan] receives that channel's column *)
  Theorem chans_spec chan : 0 <= chan < nch ->
    chans_pipe fs nch gulp start nsamps chan = Some (flat_map (fun t => [Sel t chan]) (zrange nsamps)).
  Proof. intro Hch. unfold chans_pipe. rewrite <- (div1 nsamps) at 2. use_generic (fun t => [Sel t chan]).
    intros s0 len_ H0 _ H1 H2. unfold emit, chans_block. cbn [fst snd].
    replace len_ with (len_ * 1) at 1 by lia.
    rewrite (emit_block _ len_ 1 (fun t _ => Sel t chan) s0) by (try lia; intros r c Hr' Hc'; replace c with 0 by lia;
      replace (r * 1 + 0) with r by lia; rewrite <- (data_elem s0 len_ r chan) by (assumption || lia); reflexivity).
    reflexivity. Qed.

  (** extract_bands: band [iband] receives channels [c0, c0 + chanpersub), c0 = chanstart + iband * chanpersub *)
  Theorem bands_spec chanstart cps iband : 1 <= cps -> 0 <= chanstart + iband * cps -> chanstart + iband * cps + cps <= nch ->
    bands_pipe fs nch gulp start nsamps chanstart cps iband =
    Some (flat_map (fun t => map (fun c => Sel t (chanstart + iband * cps + c)) (zrange cps)) (zrange nsamps)).
  Proof. intros Hcps Hlo Hhi. unfold bands_pipe. rewrite <- (div1 nsamps) at 2.
    use_generic (fun t => map (fun c => Sel t (chanstart + iband * cps + c)) (zrange cps)).
    intros s0 len_ H0 _ H1 H2. unfold emit, bands_block. cbv zeta. cbn [fst snd].
    apply emit_block; try lia. intros r c Hr' Hc'.
    replace ((r * cps + c) / cps) with r by (apply Z.div_unique with (r := c); lia).
    replace ((r * cps + c) mod cps) with c by (apply Z.mod_unique with (q := r); lia).
    replace (r * nch + (chanstart + iband * cps) + c) with (r * nch + (chanstart + iband * cps + c)) by lia.
    apply data_elem; try assumption; lia. Qed.
End Samplewise.

(** * channel masking (kernel lemma: Proofs/C16_kernel.v) and decimation (kernel lemma: Proofs/C14_decimate.v) *)
Require Import SPP.Model.C16_File SPP.Proofs.C16_kernel SPP.Model.C14_filters SPP.Proofs.C14_decimate.

Section MaskDecimate.
  Variables (fs : list file) (nch N gulp start nsamps : Z).
  Hypotheses (Hf : 1 <= nfiles fs) (Hc : 1 <= nch) (Ht : SPP.Model.Stream.total fs = N * nch)
             (Hs0 : 0 <= start) (Hn : 1 <= nsamps) (Hr : start + nsamps <= N) (Hg : 1 <= gulp).
  Notation Sx := (Sel fs nch start).

  (** every sample of every masked channel is the mask value, every other sample is unchanged *)
  Theorem mask_spec mask mv : mask_pipe fs nch gulp start nsamps mask mv =
    Some (flat_map (fun t => map (fun c => if masked mask c then mv else Sx t c) (zrange nch)) (zrange nsamps)).
  Proof. unfold mask_pipe. rewrite <- (div1 nsamps) at 2.
    apply (stream_map_spec fs nch N gulp start nsamps 1 Hf Hc Ht Hs0 Hn Hr Hg ltac:(lia) ltac:(apply mod1) _
             (fun t => map (fun c => if masked mask c then mv else Sx t c) (zrange nch))).
    intros s0 len_ H0 _ H1 H2. unfold emit, mask_block, data_size. cbn [fst snd].
    apply (emit_block _ len_ nch (fun t c => if masked mask c then mv else Sx t c)); try lia. intros r c Hr' Hc'.
    rewrite mask_channels_spec by lia. unfold clean_spec, in_block.
    replace ((0 <=? r * nch + c) && (r * nch + c <? nch * len_)) with true by nia.
    replace ((r * nch + c) mod nch) with c by (apply Z.mod_unique with (q := r); lia). cbn [andb].
    destruct (masked mask c); [reflexivity|]. apply data_elem with (nsamps := nsamps) (N := N); assumption. Qed.

  (** decimation: output row q, column j is divcast of the sum of the tf x ff group of input samples *)
  Definition dgroup (tf ff q j : Z) : list Z :=
    flat_map (fun a => map (fun b => Sx (q * tf + a) (j * ff + b)) (zrange ff)) (zrange tf).

  Theorem downsample_spec divcast junk tf ff : 1 <= tf -> 1 <= ff -> nch mod ff = 0 ->
    downsample_pipe fs nch gulp start nsamps divcast junk tf ff =
    Some (flat_map (fun q => map (fun j => divcast (sumZ (dgroup tf ff q j)) (tf * ff)) (zrange (nch / ff))) (zrange (nsamps / tf))).
  Proof. intros Htf Hff Hdiv. unfold downsample_pipe.
    assert (Hw : 1 <= nch / ff) by (assert (nch = ff * (nch / ff)) by (apply Z.div_exact; lia); nia).
    assert (Hgp : 1 <= downsample_gulp gulp tf /\ downsample_gulp gulp tf mod tf = 0).
    { unfold downsample_gulp. split; [|apply Z.mod_mul; lia]. assert (1 <= (gulp + tf - 1) / tf) by (apply Z.div_le_lower_bound; lia). nia. }
    apply (stream_map_spec fs nch N (downsample_gulp gulp tf) start nsamps tf Hf Hc Ht Hs0 Hn Hr ltac:(lia) Htf ltac:(lia) _
             (fun q => map (fun j => divcast (sumZ (dgroup tf ff q j)) (tf * ff)) (zrange (nch / ff)))).
    intros s0 len_ H0 Hal H1 H2. unfold emit, downsample_block, downsample_2d_mean_flat_size. cbv zeta. cbn [fst snd].
    assert (Hq : 0 <= len_ / tf) by (apply Z.div_pos; lia).
    assert (Es0 : s0 = tf * (s0 / tf)) by (apply Z.div_exact; lia).
    apply emit_rows; try lia. intros r Hr'. apply map_ext_in. intros j Hj. apply In_zrange in Hj.
    rewrite ds2_kernel_spec by lia.
    replace ((0 <=? r * (nch / ff) + j) && (r * (nch / ff) + j <? len_ / tf * (nch / ff))) with true by nia.
    replace ((r * (nch / ff) + j) / (nch / ff)) with r by (apply Z.div_unique with (r := j); lia).
    replace ((r * (nch / ff) + j) mod (nch / ff)) with j by (apply Z.mod_unique with (q := r); lia).
    f_equal. f_equal. unfold group2, dgroup. apply flat_map_ext_in_. intros a Ha. apply In_zrange in Ha.
    apply map_ext_in. intros b Hb. apply In_zrange in Hb.
    assert (Hlen : (r + 1) * tf <= len_) by (pose proof (Z.mul_div_le len_ tf ltac:(lia)); nia).
    assert (Hch : j * ff + b < nch) by (assert (nch = ff * (nch / ff)) by (apply Z.div_exact; lia); nia).
    replace (nch * (r * tf + a) + (j * ff + b)) with ((r * tf + a) * nch + (j * ff + b)) by lia.
    rewrite (data_elem fs nch N start nsamps Hc Ht Hs0 Hr s0 len_ (r * tf + a) (j * ff + b)) by nia.
    f_equal. nia. Qed.
End MaskDecimate.

(** * sub-banding: skipback = maxdelay, a persistent accumulator *)
Lemma iter2_accum n m (w v : Z -> Z -> Z) a k :
  iter n (fun i s => iter m (fun j s => upd s (w i j) (s (w i j) + v i j)) s) a k
  = a k + sum_n n (fun i => sumif m (fun j => Z.eqb k (w i j)) (v i)).
Proof. induction n as [|n IH]; cbn [iter sum_n]; [lia|]. rewrite iter_accum. rewrite IH. lia. Qed.

Lemma sum_n_single n f t : 0 <= t < Z.of_nat n -> (forall i, 0 <= i < Z.of_nat n -> i <> t -> f i = 0) -> sum_n n f = f t.
Proof. induction n as [|n IH]; intros Ht E; [lia|]. cbn [sum_n]. destruct (Z.eq_dec t (Z.of_nat n)) as [->|NE].
  - rewrite sum_n_0; [lia|]. intros i Hi. apply E; lia.
  - rewrite IH by (try lia; intros; apply E; lia). rewrite (E (Z.of_nat n)) by lia. lia. Qed.

(** the sub-band kernel on a cleared accumulator: element (t, s) is the sum over the channels of sub-band s *)
Lemma subband_kernel inarr out delays c2s md nch nsubs n t s :
  0 <= nch -> 1 <= nsubs -> md <= n -> 0 <= t < n - md -> 0 <= s < nsubs ->
  (forall c, 0 <= c < nch -> 0 <= c2s c < nsubs) ->
  subband_run inarr (zero_prefix out ((n - md) * nsubs)) delays c2s md nch nsubs n (nsubs * t + s)
  = sumif (Z.to_nat nch) (fun c => c2s c =? s) (fun c => inarr (nch * (t + delays c) + c)).
Proof. intros Hc Hs Hn Ht Hsx Hc2s. unfold subband_run.
  rewrite (iter2_accum _ _ (fun i c => nsubs * i + c2s c) (fun i c => inarr (nch * (i + delays c) + c))).
  unfold zero_prefix. replace ((0 <=? nsubs * t + s) && (nsubs * t + s <? (n - md) * nsubs)) with true by nia.
  rewrite (sum_n_single _ _ t).
  2: lia.
  2: { intros i Hi Hne. apply sumif_false. intros c Hcx. pose proof (Hc2s c ltac:(lia)).
       destruct (Z.eqb_spec (nsubs * t + s) (nsubs * i + c2s c)); [exfalso; nia|reflexivity]. }
  cbn [Z.add]. apply sumif_ext. intros c Hcx. pose proof (Hc2s c ltac:(lia)). split; [|reflexivity].
  destruct (Z.eqb_spec (nsubs * t + s) (nsubs * t + c2s c)), (Z.eqb_spec (c2s c) s); try reflexivity; lia. Qed.

Section StreamSkip.
  Variables (fs : list file) (nch N gulp' start nsamps md : Z).
  Hypotheses (Hf : 1 <= nfiles fs) (Hc : 1 <= nch) (Ht : SPP.Model.Stream.total fs = N * nch)
             (Hs0 : 0 <= start) (Hn : 1 <= nsamps) (Hr : start + nsamps <= N) (Hg : 1 <= gulp')
             (Hmd : 0 <= md < nsamps) (Hmdg : md < gulp').
  Variable f : arr -> Z -> arr -> arr * Z.
  Variable rowf : Z -> list Z.
  Hypothesis Hblock : forall st s0 len_, 0 <= s0 -> md <= len_ -> 1 <= len_ -> s0 + len_ <= nsamps ->
    emit (f st len_ (of_list (slice (flat fs) ((start + s0) * nch) (len_ * nch)))) = flat_map rowf (zrange_from s0 (len_ - md)).

  Definition skip_step (st : arr * list Z) (b : Z * Z * list Z) : arr * list Z :=
    let '(n_r, ii, d) := b in let r := f (fst st) n_r (of_list d) in (fst r, snd st ++ emit r).

  Lemma skip_full g : md < g -> forall j st, (j = 0%nat \/ (Z.of_nat j - 1) * (g - md) + g <= nsamps) ->
    snd (fold_left skip_step (map (blk fs nch start g md) (map Z.of_nat (seq 0 j))) st) =
    snd st ++ flat_map rowf (zrange (Z.of_nat j * (g - md))).
  Proof. intros Hlt. induction j as [|j IH]; intros st Hfit; [cbn; now rewrite app_nil_r|].
    destruct Hfit as [Hfit|Hfit]; [discriminate|].
    rewrite seq_S, !map_app, fold_left_app. cbn [map fold_left Nat.add].
    unfold skip_step at 1. rewrite blk_slice. cbv zeta. cbn [snd].
    rewrite IH by (destruct j; [left; reflexivity|right; nia]).
    rewrite (Hblock _ (Z.of_nat j * (g - md)) g) by nia.
    replace (Z.of_nat (S j) * (g - md)) with (Z.of_nat j * (g - md) + (g - md)) by lia.
    rewrite zrange_app by nia. rewrite flat_map_app, app_assoc. reflexivity. Qed.

  Theorem stream_skip_spec st0 :
    exists bl, run_plan fs nch gulp' start nsamps md = POk bl /\
      snd (fold_left skip_step bl (st0, [])) = flat_map rowf (zrange (nsamps - md)).
  Proof.
    destruct (run_plan_explicit fs nch N gulp' start nsamps md Hf Hc Ht Hs0 Hn Hr Hg ltac:(lia)) as [g [sb [nreads [lr [F ->]]]]].
    destruct F as [Fg Fsb Fsblt Fnr Ffit Flast Fcov]. replace (Z.abs md) with md in Fsb by lia. subst sb.
    eexists. split; [reflexivity|]. unfold plan_blocks, zrange at 1. rewrite fold_left_app.
    destruct (Z.eqb_spec lr 0) as [E|NE]; cbn [fold_left].
    - rewrite skip_full by (try lia; right; rewrite Z2Nat.id by lia; lia). rewrite Z2Nat.id by lia. cbn [snd app].
      f_equal. f_equal. nia.
    - destruct Flast as [?|Flast]; [contradiction|].
      unfold skip_step at 1. cbv zeta. cbn [snd].
      rewrite skip_full by (try lia; right; rewrite Z2Nat.id by lia; lia). rewrite Z2Nat.id by lia. cbn [snd app].
      unfold P. rewrite (Hblock _ (nreads * (g - md)) lr) by nia.
      replace (nsamps - md) with (nreads * (g - md) + (lr - md)) by nia.
      rewrite zrange_app by nia. rewrite flat_map_app. reflexivity. Qed.
End StreamSkip.

Section Subband.
  Variables (fs : list file) (nch N gulp start nsamps md nsub : Z) (delays : arr).
  Hypotheses (Hf : 1 <= nfiles fs) (Hc : 1 <= nch) (Ht : SPP.Model.Stream.total fs = N * nch)
             (Hs0 : 0 <= start) (Hn : 1 <= nsamps) (Hr : start + nsamps <= N) (Hg : 1 <= gulp)
             (Hmd : 0 <= md < nsamps) (Hd : forall c, 0 <= c < nch -> 0 <= delays c <= md)
             (Hns : 1 <= nsub) (Hdiv : nch mod nsub = 0).
  Notation Sx := (Sel fs nch start).

  (** output sample t, sub-band s: the delay-shifted channels of that sub-band summed; sub-band of channel c is c / (nch/nsub) *)
  Definition subrow (t : Z) : list Z :=
    map (fun s => sumif (Z.to_nat nch) (fun c => c / (nch / nsub) =? s) (fun c => Sx (t + delays c) c)) (zrange nsub).

  Theorem subband_spec junk : subband_pipe fs nch gulp start nsamps md nsub delays junk = Some (flat_map subrow (zrange (nsamps - md))).
  Proof. unfold subband_pipe.
    assert (Hgp : 1 <= subband_gulp md gulp /\ md < subband_gulp md gulp) by (unfold subband_gulp; lia).
    assert (Hper : nch = nsub * (nch / nsub)) by (apply Z.div_exact; lia).
    assert (Hper1 : 1 <= nch / nsub) by nia.
    assert (Hc2s : forall c, 0 <= c < nch -> 0 <= subband_chan_to_sub nch nsub c < nsub).
    { intros c Hcx. unfold subband_chan_to_sub. split; [apply Z.div_pos; lia|apply Z.div_lt_upper_bound; nia]. }
    destruct (stream_skip_spec fs nch N (subband_gulp md gulp) start nsamps md Hf Hc Ht Hs0 Hn Hr ltac:(lia) Hmd ltac:(lia)
               (fun st n_r d => subband_block st d delays (subband_chan_to_sub nch nsub) md nch nsub n_r) subrow) with (st0 := junk) as [bl [-> E]].
    - intros st s0 len_ H0 H1 H1' H2. unfold emit, subband_block. cbv zeta. cbn [fst snd].
      apply emit_rows; try lia. intros r Hr'. unfold subrow. apply map_ext_in. intros s Hsx. apply In_zrange in Hsx.
      replace (r * nsub + s) with (nsub * r + s) by lia.
      rewrite subband_kernel by (try lia; assumption).
      apply sumif_ext. intros c Hcx. split; [reflexivity|]. intros _.
      pose proof (Hd c ltac:(lia)).
      replace (nch * (r + delays c) + c) with ((r + delays c) * nch + c) by lia.
      rewrite (data_elem fs nch N start nsamps Hc Ht Hs0 Hr s0 len_ (r + delays c) c) by lia. f_equal. lia.
    - f_equal. exact E. Qed.
End Subband.
