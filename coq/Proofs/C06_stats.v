(** C06: compute_stats = the C10 accumulator fed the per-channel columns of the blocks of the (verified) read plan;
    for every gulp its state is the C10 invariant of the selected samples of that channel. *)
From Coq Require Import ZArith QArith List Bool Lia ZifyBool.
Require Import SPP.Base.Rt SPP.Base.Iter SPP.Gen.Kernels SPP.Gen.Plan SPP.Gen.TransformSites SPP.Gen.Moments
               SPP.Model.Stream SPP.Model.Plan SPP.Model.C06_pipe SPP.Model.C07_pipe SPP.Model.C10_rt SPP.Model.C10_moments
               SPP.Proofs.C02_stream SPP.Proofs.C01_plan SPP.Proofs.C06_reduce SPP.Proofs.C07_transforms SPP.Proofs.C10_moments.
Import ListNotations.
Open Scope Z_scope.

Lemma concat_map_map {A B} (f : A -> B) (ls : list (list A)) : concat (map (map f) ls) = map f (concat ls).
Proof. induction ls as [|l r IH]; cbn; [reflexivity|]. now rewrite map_app, IH. Qed.

Section Stats.
  Variables (fs : list file) (nch N gulp start nsamps c : Z) (full : bool).
  Hypotheses (Hf : 1 <= nfiles fs) (Hc : 1 <= nch) (Ht : SPP.Model.Stream.total fs = N * nch)
             (Hs0 : 0 <= start) (Hn : 1 <= nsamps) (Hr : start + nsamps <= N) (Hg : 1 <= gulp) (Hch : 0 <= c < nch)
             (Hsmall : nsamps < 2 ^ 31).

  (** the selected samples of channel c *)
  Definition column : list Q := map (fun t => inject_Z (Sel fs nch start t c)) (zrange nsamps).

  Lemma chunk_is_emit b : snd (stats_chunk nch c b) =
    map inject_Z (let '(n_r, ii, d) := b in emit (chans_block (of_list d) nch n_r c)).
  Proof. destruct b as [[n_r ii] d]. unfold stats_chunk, emit, chans_block. cbn [fst snd].
    rewrite to_list_map, map_map. reflexivity. Qed.

  Theorem stats_spec : exists s, stats_pipe fs nch gulp start nsamps full c = Some s /\
    inv full column s /\ inv_minmax column s.
  Proof. unfold stats_pipe.
    pose proof (chans_spec fs nch N gulp start nsamps Hf Hc Ht Hs0 Hn Hr Hg c Hch) as Hcol.
    unfold chans_pipe, stream_map in Hcol.
    rewrite (run_plan_params fs nch N gulp start nsamps 0 Hf Hc Ht Hs0 Hn Hr Hg ltac:(lia)) in *.
    pose proof (fil_plan_params gulp start nsamps 0 N nch Hg Hn ltac:(lia)) as L.
    destruct (plan_params gulp nsamps 0) as [[[g sb] nreads] lr]. destruct L as [_ F].
    destruct F as [Fg Fsb Fsblt Fnr Ffit Flast Fcov]. change (Z.abs 0) with 0 in Fsb. subst sb.
    injection Hcol as Hcol. eexists. split; [reflexivity|].
    set (bl := plan_blocks fs nch start g 0 nreads lr) in *.
    (* the data seen *)
    assert (Hdata : all_data (map (stats_chunk nch c) bl) = column).
    { unfold all_data. rewrite map_map. rewrite (map_ext _ _ chunk_is_emit). rewrite <- map_map with (g := map inject_Z).
      rewrite concat_map_map. rewrite <- flat_map_concat_map.
      unfold column. rewrite <- (map_map (fun t => Sel fs nch start t c) inject_Z). f_equal.
      rewrite Hcol. rewrite flat_map_concat_map. clear. induction (zrange nsamps) as [|x r IH]; cbn; [reflexivity|]. now rewrite IH. }
    (* the shape of the chunk list: index 0 first, non-zero indices and non-empty chunks afterwards *)
    unfold bl, plan_blocks, zrange in *. destruct (Z.to_nat nreads) as [|k] eqn:Ek; [lia|].
    cbn [seq map app] in *. change (Z.of_nat 0) with 0 in *.
    rewrite <- Hdata.
    apply (chunks_spec full 0 (snd (stats_chunk nch c (blk fs nch start g 0 0)))).
    - reflexivity.
    - unfold stats_chunk, blk. cbn [snd]. intro E. apply (f_equal (@length Q)) in E. rewrite map_length, zrange_length in E. cbn in E. lia.
    - rewrite map_app. apply Forall_app. split.
      + apply Forall_forall. intros fc Hin. apply in_map_iff in Hin as [b [<- Hb]]. apply in_map_iff in Hb as [i [<- Hi]].
        apply in_map_iff in Hi as [j [<- Hj]]. apply in_seq in Hj. unfold later_ok, stats_chunk, blk. cbn [fst snd]. split; [lia|].
        intro E. apply (f_equal (@length Q)) in E. rewrite map_length, zrange_length in E. cbn in E. lia.
      + destruct (Z.eqb_spec lr 0); [constructor|]. constructor; [|constructor]. unfold later_ok, stats_chunk. cbn [fst snd]. split; [lia|].
        destruct Flast as [?|Flast]; [contradiction|].
        intro E. apply (f_equal (@length Q)) in E. rewrite map_length, zrange_length in E. cbn in E. lia.
    - match goal with |- (zlen ?l < _)%Z => replace l with column by (symmetry; exact Hdata) end.
      unfold zlen, column. rewrite map_length, zrange_length. lia. Qed.
End Stats.
