(** C16: the executable estimators of Model/C16_MaskAlg.v are scale-free: multiplying the statistic vector by c > 0 leaves
    every z-score unchanged (as rationals), provided the zero-scale guard does not replace the scale of that element by 1
    while the element deviates from the location. *)
From Coq Require Import ZArith QArith Qabs Qfield List Bool Lia Morphisms Setoid.
Require Import SPP.Base.Rt SPP.Base.Iter SPP.Model.C16_Vec SPP.Gen.C16Rfi SPP.Model.C16_MaskAlg.
Import ListNotations.
Open Scope Q_scope.

Section Scaled.
  Variable k : Q.
  Hypothesis kpos : 0 < k.

  (** [l'] is [l] multiplied by k, element by element, up to == *)
  Definition sc (l l' : list Q) : Prop := Forall2 (fun x y => y == k * x) l l'.

  Lemma kle x y x' y' : x' == k * x -> y' == k * y -> Qle_bool x' y' = Qle_bool x y.
  Proof. intros -> ->. destruct (Qle_bool x y) eqn:E.
    - apply Qle_bool_iff. apply Qle_bool_iff in E. apply Qmult_le_l; assumption.
    - destruct (Qle_bool (k * x) (k * y)) eqn:F; [|reflexivity]. apply Qle_bool_iff in F.
      apply Qmult_le_l in F; [|assumption]. apply Qle_bool_iff in F. congruence. Qed.

  Lemma sc_length l l' : sc l l' -> length l' = length l.
  Proof. induction 1; cbn; congruence. Qed.

  Lemma sc_insert x x' l l' : x' == k * x -> sc l l' -> sc (qinsert x l) (qinsert x' l').
  Proof. intros Hx H. induction H as [|y y' l l' Hy H IH]; cbn [qinsert].
    - constructor; [assumption|constructor].
    - rewrite (kle x y x' y' Hx Hy). destruct (Qle_bool x y).
      + constructor; [assumption|]. constructor; assumption.
      + constructor; assumption. Qed.

  Lemma sc_sort l l' : sc l l' -> sc (qsort l) (qsort l').
  Proof. induction 1 as [|x x' l l' Hx H IH]; cbn [qsort fold_right]; [constructor|].
    apply sc_insert; assumption. Qed.

  Lemma sc_nth l l' : sc l l' -> forall i, nth i l' 0 == k * nth i l 0.
  Proof. induction 1 as [|x x' l l' Hx H IH]; intro i; destruct i; cbn [nth]; try ring; auto. Qed.

  Lemma sc_percentile l l' p : sc l l' -> percentile l' p == k * percentile l p.
  Proof. intro H. unfold percentile. cbv zeta. rewrite (sc_length _ _ H). unfold qnth.
    pose proof (sc_sort _ _ H) as S.
    rewrite (sc_nth _ _ S), (sc_nth _ _ S). ring. Qed.

  Lemma sc_sum l l' : sc l l' -> fold_right Qplus 0 l' == k * fold_right Qplus 0 l.
  Proof. induction 1 as [|x x' l l' Hx H IH]; cbn [fold_right]; [ring|]. rewrite Hx, IH. ring. Qed.

  Lemma sc_mean l l' : sc l l' -> qmean l' == k * qmean l.
  Proof. intro H. unfold qmean. rewrite (sc_length _ _ H), (sc_sum _ _ H). unfold Qdiv. ring. Qed.

  Lemma sc_max l l' : sc l l' -> qmaxl l' == k * qmaxl l.
  Proof. induction 1 as [|x x' l l' Hx H IH]; cbn [qmaxl fold_right]; [ring|]. fold (qmaxl l). fold (qmaxl l').
    rewrite (kle x (qmaxl l) x' (qmaxl l') Hx IH). destruct (Qle_bool x (qmaxl l)); assumption. Qed.

  Lemma sc_filter (p p' : Q -> bool) l l' : (forall x x', x' == k * x -> p' x' = p x) -> sc l l' -> sc (filter p l) (filter p' l').
  Proof. intros Hp. induction 1 as [|x x' l l' Hx H IH]; cbn [filter]; [constructor|].
    rewrite (Hp x x' Hx). destruct (p x); [constructor|]; assumption. Qed.

  Lemma sc_map (f f' : Q -> Q) l l' : (forall x x', x' == k * x -> f' x' == k * f x) -> sc l l' -> sc (map f l) (map f' l').
  Proof. intros Hf. induction 1 as [|x x' l l' Hx H IH]; cbn [map]; constructor; auto. Qed.

  Lemma kabs x : Qabs (k * x) == k * Qabs x.
  Proof. rewrite Qabs_Qmult. rewrite (Qabs_pos k); [reflexivity|]. apply Qlt_le_weak, kpos. Qed.

  Lemma sc_dev loc loc' x x' : loc' == k * loc -> x' == k * x -> Qabs (x' - loc') == k * Qabs (x - loc).
  Proof. intros -> ->. rewrite <- kabs. apply Qabs_wd. ring. Qed.

  Lemma is_zero_sc m m' : m' == k * m -> is_zero m' = is_zero m.
  Proof. intro H. unfold is_zero. destruct (Qeq_bool m 0) eqn:E.
    - apply Qeq_bool_iff in E. apply Qeq_bool_iff. rewrite H, E. ring.
    - destruct (Qeq_bool m' 0) eqn:F; [|reflexivity]. apply Qeq_bool_iff in F. rewrite H in F.
      assert (m == 0). { destruct (Qmult_integral _ _ F) as [K|K]; [|assumption]. rewrite K in kpos. now apply Qlt_irrefl in kpos. }
      apply Qeq_bool_iff in H0. congruence. Qed.

  Lemma sc_side l l' : sc l l' -> side_scale l' == k * side_scale l.
  Proof. intro H. unfold side_scale. cbv zeta.
    assert (M : qmedian l' / norm_mad == k * (qmedian l / norm_mad)).
    { unfold qmedian. rewrite (sc_percentile _ _ 50 H). unfold Qdiv. ring. }
    rewrite (is_zero_sc _ _ M). destruct (is_zero (qmedian l / norm_mad)); [|exact M].
    rewrite (sc_mean _ _ H). unfold Qdiv. ring. Qed.

  Lemma zero_scale_sc s s' m m' : s' == k * s -> m' == k * m -> zero_scale s' m' = zero_scale s m.
  Proof. intros Hs Hm. unfold zero_scale. apply kle; [assumption|]. rewrite Hm. ring. Qed.

  (** the vector a multiplied by k *)
  Variables (n : Z) (a : qvec).
  Definition ka : qvec := fun i => k * a i.

  Lemma sc_vlist : sc (vlist n a) (vlist n ka).
  Proof. unfold vlist, ka. induction (zrange n) as [|i l IH]; cbn [map]; constructor; [reflexivity|assumption]. Qed.

  Lemma sc_loc : ex_loc n ka == k * ex_loc n a.
  Proof. unfold ex_loc, qmedian. apply sc_percentile, sc_vlist. Qed.

  Lemma sc_maxdev : ex_maxdev n ka == k * ex_maxdev n a.
  Proof. unfold ex_maxdev. apply sc_max. apply sc_map; [|apply sc_vlist]. intros x x' Hx. apply sc_dev; [apply sc_loc|assumption]. Qed.

  Lemma sc_iqr_scale : iqr_scale n ka == k * iqr_scale n a.
  Proof. unfold iqr_scale. rewrite (sc_percentile _ _ 75 sc_vlist), (sc_percentile _ _ 25 sc_vlist). unfold Qdiv. ring. Qed.

  Lemma sc_left : sc (dm_left n a) (dm_left n ka).
  Proof. unfold dm_left. apply sc_map; [intros; apply sc_dev; [apply sc_loc|assumption]|].
    apply sc_filter; [|apply sc_vlist]. intros x x' Hx. apply kle; [assumption|apply sc_loc]. Qed.

  Lemma sc_right : sc (dm_right n a) (dm_right n ka).
  Proof. unfold dm_right. apply sc_map; [intros; apply sc_dev; [apply sc_loc|assumption]|].
    apply sc_filter; [|apply sc_vlist]. intros x x' Hx. apply kle; [apply sc_loc|assumption]. Qed.

  Lemma sc_dm_scale c : dm_scale n ka c == k * dm_scale n a c.
  Proof. unfold dm_scale.
    rewrite (kle (ex_loc n a) (a c) (ex_loc n ka) (ka c) sc_loc ltac:(reflexivity)).
    rewrite (kle (a c) (ex_loc n a) (ka c) (ex_loc n ka) ltac:(reflexivity) sc_loc).
    destruct (negb (Qle_bool (ex_loc n a) (a c))); [apply sc_side, sc_left|].
    destruct (negb (Qle_bool (a c) (ex_loc n a))); [apply sc_side, sc_right|].
    rewrite (sc_side _ _ sc_left), (sc_side _ _ sc_right). ring. Qed.

  (** (k x - k loc) / (k s) == (x - loc) / s, also when s == 0 (both sides are then 0) *)
  Lemma ratio_sc x loc s x' loc' s' : x' == k * x -> loc' == k * loc -> s' == k * s -> (x' - loc') / s' == (x - loc) / s.
  Proof. intros -> -> ->. destruct (Qeq_dec s 0) as [Z|NZ].
    - rewrite Z. unfold Qdiv. setoid_replace (k * 0) with 0 by ring. change (/ 0) with 0. ring.
    - field. split; [assumption|]. intro K. rewrite K in kpos. now apply Qlt_irrefl in kpos. Qed.

  (** * double MAD *)
  Lemma doublemad_unfold b c : zscore_doublemad_exec n b c =
    (b c - ex_loc n b) / (if zero_scale (dm_scale n b c) (ex_maxdev n b) then 1 else dm_scale n b c).
  Proof. reflexivity. Qed.

  Lemma doublemad_scale_free c :
    zero_scale (dm_scale n a c) (ex_maxdev n a) = false \/ a c == ex_loc n a ->
    zscore_doublemad_exec n ka c == zscore_doublemad_exec n a c.
  Proof. intro H. rewrite !doublemad_unfold.
    rewrite (zero_scale_sc _ _ _ _ (sc_dm_scale c) sc_maxdev).
    destruct (zero_scale (dm_scale n a c) (ex_maxdev n a)) eqn:E.
    - destruct H as [H|H]; [discriminate|]. unfold ka. rewrite sc_loc, H. unfold Qdiv. ring.
    - apply ratio_sc; [reflexivity|apply sc_loc|apply sc_dm_scale]. Qed.

  (** * IQR *)
  Lemma iqr_unfold b c : zscore_iqr_exec n b c =
    (b c - ex_loc n b) / (if zero_scale (iqr_scale n b) (ex_maxdev n b) then 1 else iqr_scale n b).
  Proof. reflexivity. Qed.

  Lemma iqr_scale_free c :
    zero_scale (iqr_scale n a) (ex_maxdev n a) = false \/ a c == ex_loc n a ->
    zscore_iqr_exec n ka c == zscore_iqr_exec n a c.
  Proof. intro H. rewrite !iqr_unfold.
    rewrite (zero_scale_sc _ _ _ _ sc_iqr_scale sc_maxdev).
    destruct (zero_scale (iqr_scale n a) (ex_maxdev n a)) eqn:E.
    - destruct H as [H|H]; [discriminate|]. unfold ka. rewrite sc_loc, H. unfold Qdiv. ring.
    - apply ratio_sc; [reflexivity|apply sc_loc|apply sc_iqr_scale]. Qed.
End Scaled.

(** consequence for the decisions: the flag |z| > threshold of an element does not depend on the unit *)
Lemma beyond_wd thr z z' : z == z' -> beyond thr z = beyond thr z'.
Proof. intro H. unfold beyond. f_equal. destruct (Qle_bool (Qabs z') thr) eqn:E.
  - apply Qle_bool_iff. apply Qle_bool_iff in E. now rewrite H.
  - destruct (Qle_bool (Qabs z) thr) eqn:F; [|reflexivity]. apply Qle_bool_iff in F. rewrite H in F. apply Qle_bool_iff in F. congruence. Qed.

Lemma mad_flag_scale_free k n a thr c : 0 < k ->
  zero_scale (dm_scale n a c) (ex_maxdev n a) = false \/ a c == ex_loc n a ->
  mad_flag (zscore_doublemad_exec n) thr (ka k a) c = mad_flag (zscore_doublemad_exec n) thr a c.
Proof. intros Hk H. unfold mad_flag. apply beyond_wd. now apply doublemad_scale_free. Qed.

(** the side condition is needed: with a zero inter-quartile range the raw deviation is scored, and that depends on the unit *)
Lemma iqr_zero_scale_unit_dependent_refuted :
  exists (k : Q) (n : Z) (a : qvec) (c : Z), 0 < k /\ (0 <= c < n)%Z /\
    zero_scale (iqr_scale n a) (ex_maxdev n a) = true /\ ~ a c == ex_loc n a /\
    ~ zscore_iqr_exec n (ka k a) c == zscore_iqr_exec n a c /\
    beyond 3 (zscore_iqr_exec n (ka k a) c) = true /\ beyond 3 (zscore_iqr_exec n a c) = false.
Proof. exists 2, 5%Z, (qof [0; 2; 0; 0; 0]), 1%Z. vm_compute. repeat split; try discriminate; try reflexivity; intro H; discriminate H. Qed.
