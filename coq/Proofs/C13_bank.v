(** C13: the current source form of convolve_templates (response formula for every data length without a form hypothesis),
    the boxcar width ladder of MatchedFilter.get_box_width_spacing, the on-pulse extent of Template.get_on_pulse and the support
    of the peak-referenced templates -- all over the definitions regenerated in Gen/MatchedFilter.v. *)
From Coq Require Import ZArith List Bool Lia ZifyBool Sorted.
Require Import SPP.Base.Rt SPP.Base.Iter SPP.Model.C12_np SPP.Model.C12_conv SPP.Model.C13_np SPP.Gen.Kernels
        SPP.Gen.MatchedFilter SPP.Model.C13_mf SPP.Proofs.C12_conv SPP.Proofs.C13_mf.
Import ListNotations.
Open Scope Z_scope.
Ltac Zify.zify_post_hook ::= Z.to_euclidean_division_equations.

(** * the regenerated kernel transforms at the data length and hands that length to the inverse transform *)
Lemma current_form : forall F Nm, src_is F Nm nopad (ilen_given F).
Proof. intros F Nm data bank refs. reflexivity. Qed.

Lemma response_formula_current : forall F Nm, fft_laws F -> forall data bank refs,
  1 <= len data -> (forall k, In k bank -> len k <= len data) ->
  convolve_templates_run F Nm data bank refs = responses_p Nm data (len data) bank refs.
Proof. intros F Nm HF data bank refs Hn Hb. apply response_formula_exact; [exact HF|exact Hn|exact Hb|apply current_form]. Qed.

Lemma snr_is_max_inner_product : forall F Nm, fft_laws F -> forall z bank refs,
  1 <= len z -> 1 <= len bank -> (forall k, In k bank -> len k <= len z) ->
  let R := fun i t => response_p Nm z (nth (Z.to_nat i) bank []) (nth (Z.to_nat i) refs 0) t in
  let '(i, t, s) := mf_compute_run F Nm z bank refs in
  0 <= i < len bank /\ 0 <= t < len z /\ s = R i t /\
  (forall i' t', 0 <= i' < len bank -> 0 <= t' < len z -> R i' t' <= s) /\
  (forall i' t', 0 <= i' < len bank -> 0 <= t' < len z -> i' * len z + t' < i * len z + t -> R i' t' < s).
Proof. intros F Nm HF z bank refs Hz Hb Hfit.
  apply (mf_compute_spec F Nm z bank refs z Hz Hb). apply response_formula_current; assumption. Qed.

(** * the boxcar width ladder *)
Section Ladder.
  Variables size_max sp sq : Z.
  Local Notation loop := (fun fuel last => box_widths_loop fuel size_max sp sq last).

  Lemma loop_sorted : forall fuel last, Sorted Z.lt (last :: box_widths_loop fuel size_max sp sq last).
  Proof. induction fuel as [|fuel IH]; intro last; cbn [box_widths_loop].
    - repeat constructor.
    - destruct (last <? size_max) eqn:Ht; [|repeat constructor].
      cbv zeta. destruct (Z.max (last + 1) (sp * last / sq) >? size_max) eqn:Hs; [repeat constructor|].
      constructor; [apply IH|]. constructor. lia. Qed.

  Lemma loop_bounded : forall fuel last, Forall (fun w => last < w <= size_max) (box_widths_loop fuel size_max sp sq last).
  Proof. induction fuel as [|fuel IH]; intro last; cbn [box_widths_loop]; [constructor|].
    destruct (last <? size_max) eqn:Ht; [|constructor].
    cbv zeta. destruct (Z.max (last + 1) (sp * last / sq) >? size_max) eqn:Hs; [constructor|].
    constructor; [lia|]. eapply Forall_impl; [|apply IH]. cbv beta. intros w Hw. lia. Qed.

  Lemma last_cons : forall (l : list Z) a d, List.last (a :: l) d = List.last l a.
  Proof. induction l as [|b l IH]; intros a d; [reflexivity|].
    change (List.last (a :: b :: l) d) with (List.last (b :: l) d). rewrite (IH b d), (IH b a). reflexivity. Qed.

  (** the loop stops by its own tests, never for lack of fuel: after the last width w either w >= size_max or the next width
      max(w + 1, floor(sp w / sq)) exceeds size_max *)
  Lemma loop_maximal : forall fuel last, size_max - last <= Z.of_nat fuel ->
    let w := List.last (box_widths_loop fuel size_max sp sq last) last in
    (w <? size_max) = false \/ (Z.max (w + 1) (sp * w / sq) >? size_max) = true.
  Proof. induction fuel as [|fuel IH]; intros last Hf; cbn [box_widths_loop].
    - cbn. left. lia.
    - destruct (last <? size_max) eqn:Ht; [|cbn; left; exact Ht].
      cbv zeta. destruct (Z.max (last + 1) (sp * last / sq) >? size_max) eqn:Hs; [cbn; right; exact Hs|].
      rewrite last_cons. apply IH. lia. Qed.

  Lemma loop_fuel : forall f1 f2 last, size_max - last <= Z.of_nat f1 -> size_max - last <= Z.of_nat f2 ->
    box_widths_loop f1 size_max sp sq last = box_widths_loop f2 size_max sp sq last.
  Proof. induction f1 as [|f1 IH]; intros f2 last H1 H2.
    - destruct f2; cbn [box_widths_loop]; [reflexivity|]. destruct (last <? size_max) eqn:Ht; [lia|reflexivity].
    - destruct f2; cbn [box_widths_loop].
      + destruct (last <? size_max) eqn:Ht; [lia|reflexivity].
      + destruct (last <? size_max) eqn:Ht; [|reflexivity].
        cbv zeta. destruct (Z.max (last + 1) (sp * last / sq) >? size_max) eqn:Hs; [reflexivity|].
        f_equal. apply IH; lia. Qed.
End Ladder.

Lemma box_widths_spec : forall size_max sp sq,
  let l := box_width_spacing_run size_max sp sq in
  hd 0 l = 1 /\ StronglySorted Z.lt l /\ Forall (fun w => 1 <= w <= Z.max 1 size_max) l /\
  (let w := List.last l 1 in (w <? size_max) = false \/ (Z.max (w + 1) (sp * w / sq) >? size_max) = true) /\
  (forall fuel, size_max - 1 <= Z.of_nat fuel -> l = 1 :: box_widths_loop fuel size_max sp sq 1).
Proof. intros size_max sp sq. unfold box_width_spacing_run. cbv zeta. repeat split.
  - apply Sorted_StronglySorted; [intros x y z; apply Z.lt_trans|]. apply loop_sorted.
  - constructor; [lia|]. eapply Forall_impl; [|apply loop_bounded]. cbv beta. intros w Hw. lia.
  - rewrite last_cons. apply loop_maximal. lia.
  - intros fuel Hf. f_equal. apply loop_fuel; lia. Qed.

(** * on_pulse *)
Lemma on_pulse_inside : forall b width rwidth peak_bin nbins, 0 <= nbins ->
  let '(s, e) := on_pulse_run b width rwidth peak_bin nbins in 0 <= s /\ e <= nbins.
Proof. intros b width rwidth peak_bin nbins Hn. unfold on_pulse_run. destruct b; cbv zeta; lia. Qed.

Lemma on_pulse_contains_peak : forall (b : bool) width rwidth peak_bin nbins, 0 <= peak_bin < nbins ->
  (if b then 1 <= width else 1 <= rwidth) ->
  let '(s, e) := on_pulse_run b width rwidth peak_bin nbins in
  0 <= s <= peak_bin /\ peak_bin < e <= nbins /\
  (if b then s = peak_bin /\ e = Z.min nbins (peak_bin + width)
   else s = Z.max 0 (peak_bin - rwidth) /\ e = Z.min nbins (peak_bin + rwidth)).
Proof. intros b width rwidth peak_bin nbins Hp Hw. unfold on_pulse_run. destruct b; cbv zeta; lia. Qed.

(** * support of the peak-referenced templates: 2 size + 1 samples at the abscissae -size .. size, reference bin in the middle *)
Lemma peak_support : forall size, 0 <= size ->
  gaussian_len size = 2 * size + 1 /\ gaussian_ref_bin size = size /\
  (forall i, gaussian_abscissa size (2 * gaussian_ref_bin size - i) = - gaussian_abscissa size i) /\
  lorentzian_len size = 2 * size + 1 /\ lorentzian_ref_bin size = size /\
  (forall i, lorentzian_abscissa size (2 * lorentzian_ref_bin size - i) = - lorentzian_abscissa size i).
Proof. intros size Hs. unfold gaussian_len, gaussian_ref_bin, gaussian_abscissa, lorentzian_len, lorentzian_ref_bin, lorentzian_abscissa, gaussian_len, lorentzian_len.
  repeat split; try lia; intro i; lia. Qed.
