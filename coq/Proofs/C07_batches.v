(** C07: the multi-file extractions (extract_chans, extract_bands) open their output files in batches of batch_size.
    Whatever the batch size, the files of the returned list are, in order, the per-channel / per-band whole-array selections. *)
From Coq Require Import ZArith List Bool Lia ZifyBool.
Require Import SPP.Base.Rt SPP.Base.Iter SPP.Gen.Kernels SPP.Gen.Plan SPP.Gen.TransformSites
               SPP.Model.Stream SPP.Model.Plan SPP.Model.C07_pipe SPP.Proofs.C01_packed SPP.Proofs.C07_transforms SPP.Proofs.C14_decimate.
Import ListNotations.
Open Scope Z_scope.
Ltac Zify.zify_post_hook ::= Z.to_euclidean_division_equations.

(** the batching loops visit every index 0 .. n-1 exactly once, in increasing order *)
Lemma batched_prefix {A : Type} (g : Z -> A) n bs : 0 <= n -> 1 <= bs -> forall k : nat, Z.of_nat k <= (n + bs - 1) / bs ->
  flat_map (fun b0 => map (fun i => g (b0 + i)) (zrange (batch_end b0 bs n - b0))) (map (fun b => b * bs) (zrange (Z.of_nat k)))
  = map g (zrange (Z.min (Z.of_nat k * bs) n)).
Proof. intros Hn Hbs. induction k as [|k IH]; intro Hk.
  - replace (Z.min (Z.of_nat 0 * bs) n) with 0 by lia. reflexivity.
  - rewrite zrange_S, map_app, flat_map_app, IH by lia. cbn [map flat_map]. rewrite app_nil_r.
    assert (Hlt : Z.of_nat k * bs < n) by nia.
    unfold batch_end.
    replace (Z.min (Z.of_nat k * bs) n) with (Z.of_nat k * bs) by lia.
    set (m := Z.min (Z.of_nat k * bs + bs) n).
    replace (Z.min (Z.of_nat (S k) * bs) n) with (Z.of_nat k * bs + (m - Z.of_nat k * bs)) by (unfold m; lia).
    rewrite zrange_add by (unfold m; lia). rewrite map_app, map_map. reflexivity. Qed.

Lemma batched_enum {A : Type} (g : Z -> A) n bs : 0 <= n -> 1 <= bs -> batched n bs (fun b0 i => g (b0 + i)) = map g (zrange n).
Proof. intros Hn Hbs. unfold batched, batch_starts.
  assert (H0 : 0 <= (n + bs - 1) / bs) by (apply Z.div_pos; lia).
  rewrite (zrange_nat ((n + bs - 1) / bs)).
  rewrite (batched_prefix g n bs Hn Hbs (Z.to_nat ((n + bs - 1) / bs))) by lia.
  f_equal. f_equal. rewrite Z2Nat.id by lia. nia. Qed.

Lemma map_seq_nth {A B : Type} (f : A -> B) (l : list A) (d : A) : map (fun i => f (nth i l d)) (seq 0 (length l)) = map f l.
Proof. apply nth_ext with (d := f d) (d' := f d).
  - now rewrite !map_length, seq_length.
  - intros n Hn. rewrite map_length, seq_length in Hn.
    rewrite (nth_indep _ (f d) ((fun i => f (nth i l d)) 0%nat)) by (rewrite map_length, seq_length; lia).
    rewrite (map_nth (fun i => f (nth i l d))). rewrite seq_nth by lia. cbn [plus].
    rewrite (map_nth f). reflexivity. Qed.

Lemma map_nth_zrange_all {A B : Type} (f : A -> B) (l : list A) (d : A) :
  map (fun j => f (nth (Z.to_nat j) l d)) (zrange (Z.of_nat (length l))) = map f l.
Proof. unfold zrange. rewrite map_map, Nat2Z.id.
  rewrite (map_ext (fun x => f (nth (Z.to_nat (Z.of_nat x)) l d)) (fun i => f (nth i l d))) by (intro; now rewrite Nat2Z.id).
  apply map_seq_nth. Qed.

Section Files.
  Variables (fs : list file) (nch N gulp start nsamps : Z).
  Hypotheses (Hf : 1 <= nfiles fs) (Hc : 1 <= nch) (Ht : SPP.Model.Stream.total fs = N * nch)
             (Hs0 : 0 <= start) (Hn : 1 <= nsamps) (Hr : start + nsamps <= N) (Hg : 1 <= gulp).

  (** extract_chans: file i of the returned list holds the column of channel chans[i], for every batch size, list length and order *)
  Theorem chans_files_spec bs chans : 1 <= bs -> Forall (fun c => 0 <= c < nch) chans ->
    chans_files fs nch gulp start nsamps bs chans =
    map (fun chan => Some (flat_map (fun t => [Sel fs nch start t chan]) (zrange nsamps))) chans.
  Proof. intros Hbs Hall. unfold chans_files, chans_batch_index.
    rewrite (batched_enum (fun j => chans_pipe fs nch gulp start nsamps (nth (Z.to_nat j) chans 0))) by lia.
    rewrite (map_nth_zrange_all (fun chan => chans_pipe fs nch gulp start nsamps chan)).
    apply map_ext_in. intros chan Hin. rewrite Forall_forall in Hall.
    apply (chans_spec fs nch N gulp start nsamps Hf Hc Ht Hs0 Hn Hr Hg). apply Hall, Hin. Qed.

  (** extract_bands: file i of the returned list holds channels [chanstart + i*chanpersub, +chanpersub), i < nchans/chanpersub, for every batch size *)
  Theorem bands_files_spec bs chanstart nchans_sel cps : 1 <= bs -> 1 <= cps -> 0 <= chanstart -> 0 <= nchans_sel -> chanstart + nchans_sel <= nch ->
    bands_files fs nch gulp start nsamps bs chanstart nchans_sel cps =
    map (fun iband => Some (flat_map (fun t => map (fun c => Sel fs nch start t (chanstart + iband * cps + c)) (zrange cps)) (zrange nsamps)))
        (zrange (nchans_sel / cps)).
  Proof. intros Hbs Hcps Hcs Hsel Hhi. unfold bands_files, bands_batch_c0, bands_count.
    assert (Hq : 0 <= nchans_sel / cps) by (apply Z.div_pos; lia).
    rewrite (batched_enum (fun j => bands_pipe fs nch gulp start nsamps (chanstart + j * cps) cps 0)) by lia.
    apply map_ext_in. intros iband Hin. apply In_zrange in Hin.
    rewrite (bands_spec fs nch N gulp start nsamps Hf Hc Ht Hs0 Hn Hr Hg (chanstart + iband * cps) cps 0) by nia.
    f_equal. apply flat_map_ext. intro t. apply map_ext. intro c. f_equal. lia. Qed.
End Files.
