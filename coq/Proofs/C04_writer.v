(** C04: lemmas about Model/C04_Writer.v over the definitions regenerated into Gen/C04Io.v (cwrite's treatment of
    the array, depth -> sample type, bit order, packed length, nsamples inference, header written / skipped per
    format), the bit kernels of Gen/Kernels.v (through Proofs/C03_bits.v) and the C02 reader (Proofs/C02_stream.v). *)
From Coq Require Import ZArith List Bool Lia ZifyBool.
Require Import SPP.Base.Rt SPP.Base.Iter SPP.Gen.Kernels SPP.Gen.Plan SPP.Gen.C04Io SPP.Model.Bits SPP.Model.Stream
               SPP.Model.C04_Writer SPP.Proofs.C03_bits SPP.Proofs.C02_stream.
Import ListNotations.
Open Scope Z_scope.
Ltac Zify.zify_post_hook ::= Z.to_euclidean_division_equations.

(** * lists *)
Lemma firstn_len_app {A} (x r : list A) : firstn (length x) (x ++ r) = x.
Proof. induction x as [|a x IH]; cbn; [destruct r; reflexivity | f_equal; exact IH]. Qed.
Lemma skipn_len_app {A} (x r : list A) : skipn (length x) (x ++ r) = r.
Proof. induction x as [|a x IH]; cbn; [reflexivity | exact IH]. Qed.

Lemma slice_all l : slice l 0 (len l) = l.
Proof. unfold slice, len. change (Z.to_nat 0) with 0%nat. cbn [skipn]. rewrite Nat2Z.id. apply firstn_all. Qed.

Lemma to_list_eq (a : arr) l : (forall i, 0 <= i < len l -> a i = nth (Z.to_nat i) l 0) -> to_list (len l) a = l.
Proof. intro H. apply nth_ext with (d := 0) (d' := 0).
  - rewrite to_list_length. unfold len. apply Nat2Z.id.
  - intros n Hn. rewrite to_list_length in Hn. unfold len in Hn. rewrite Nat2Z.id in Hn.
    rewrite to_list_nth by (unfold len; rewrite Nat2Z.id; exact Hn).
    rewrite H by (unfold len; lia). rewrite Nat2Z.id. reflexivity. Qed.

Lemma of_list_to_list n (a : arr) i : 0 <= i < n -> of_list (to_list n a) i = a i.
Proof. intro H. unfold of_list. replace (i <? 0) with false by lia.
  rewrite to_list_nth by lia. rewrite Z2Nat.id by lia. reflexivity. Qed.

Lemma of_list_Forall (P : Z -> Prop) l i : Forall P l -> 0 <= i < len l -> P (of_list l i).
Proof. intros HF Hi. unfold of_list. replace (i <? 0) with false by lia.
  rewrite Forall_forall in HF. apply HF. apply nth_In. unfold len in Hi. lia. Qed.

Lemma len_to_list n a : 0 <= n -> len (to_list n a) = n.
Proof. intro H. unfold len. rewrite to_list_length. lia. Qed.

Lemma len_map (g : Z -> Z) l : len (map g l) = len l.
Proof. unfold len. rewrite map_length. reflexivity. Qed.

Lemma map_id_Forall (g : Z -> Z) l : Forall (fun v => g v = v) l -> map g l = l.
Proof. induction 1 as [|x l Hx _ IH]; cbn; [reflexivity | rewrite Hx, IH; reflexivity]. Qed.

(** * little-endian words *)
Lemma le_bytes_length k : forall w, length (le_bytes k w) = k.
Proof. induction k as [|k IH]; intro w; cbn; [reflexivity | rewrite IH; reflexivity]. Qed.

Lemma le_val_le_bytes k : forall w, 0 <= w < 256 ^ Z.of_nat k -> le_val (le_bytes k w) = w.
Proof. induction k as [|k IH]; intros w H.
  - change (256 ^ Z.of_nat 0) with 1 in H. cbn. lia.
  - rewrite Nat2Z.inj_succ, Z.pow_succ_r in H by lia. cbn [le_bytes le_val].
    set (X := 256 ^ Z.of_nat k) in *. assert (0 <= w / 256 < X) by (clearbody X; lia).
    rewrite IH by assumption. lia. Qed.

(** * IEEE words of integers *)
Lemma fl_word_props p eb bias v : 0 < p -> 0 < eb -> 1 <= bias -> p + bias < 2 ^ eb -> Z.abs v < 2 ^ (p + 1) ->
  0 <= fl_word p eb bias v < 2 ^ (p + eb + 1) /\ fl_val p eb bias (fl_word p eb bias v) = v.
Proof. intros Hp Heb Hb Hpb Hv.
  assert (HA : 0 < 2 ^ p) by (apply Z.pow_pos_nonneg; lia).
  assert (HB : 0 < 2 ^ eb) by (apply Z.pow_pos_nonneg; lia).
  assert (HAB : 2 ^ (p + eb) = 2 ^ p * 2 ^ eb) by (apply Z.pow_add_r; lia).
  assert (HAB1 : 2 ^ (p + eb + 1) = 2 * (2 ^ p * 2 ^ eb)) by (rewrite Z.pow_add_r by lia; rewrite HAB; change (2 ^ 1) with 2; ring).
  unfold fl_word. destruct (Z.eqb_spec v 0) as [->|Hv0].
  - split; [rewrite HAB1; nia|]. unfold fl_val. rewrite !Z.div_0_l by lia. rewrite Z.mod_0_l by lia. reflexivity.
  - cbv zeta. set (m := Z.abs v). assert (Hm : 0 < m) by (unfold m; lia).
    set (e := Z.log2 m). destruct (Z.log2_spec m Hm) as [He1 He2]. fold e in He1, He2.
    assert (He0 : 0 <= e) by apply Z.log2_nonneg.
    assert (Hep : e <= p).
    { assert (e < p + 1); [|lia]. apply Z.log2_lt_pow2; [exact Hm | exact Hv]. }
    rewrite Z.pow_succ_r in He2 by lia.
    assert (HD : 0 < 2 ^ (p - e)) by (apply Z.pow_pos_nonneg; lia).
    assert (HeD : 2 ^ e * 2 ^ (p - e) = 2 ^ p) by (rewrite <- Z.pow_add_r by lia; f_equal; lia).
    set (A := 2 ^ p) in *. set (B := 2 ^ eb) in *. set (D := 2 ^ (p - e)) in *. set (T := 2 ^ e) in *.
    set (s := if v <? 0 then 1 else 0).
    replace (if v <? 0 then 2 ^ (p + eb) else 0) with (s * (A * B)) by (unfold s; rewrite HAB; destruct (v <? 0); ring).
    set (f := m * D - A). set (q := e + bias).
    assert (Hf : 0 <= f < A) by (unfold f; nia).
    assert (Hq : 1 <= q < B) by (unfold q; lia).
    assert (Hs : s = 0 \/ s = 1) by (unfold s; destruct (v <? 0); auto).
    set (w := s * (A * B) + q * A + f).
    assert (W1 : w mod A = f) by (symmetry; apply Z.mod_unique with (q := s * B + q); [lia | unfold w; ring]).
    assert (W2 : w / A = s * B + q) by (symmetry; apply Z.div_unique with (r := f); [lia | unfold w; ring]).
    assert (W3 : (s * B + q) mod B = q) by (symmetry; apply Z.mod_unique with (q := s); [lia | ring]).
    assert (W4 : w / (A * B) = s) by (symmetry; apply Z.div_unique with (r := q * A + f); [nia | unfold w; ring]).
    split; [rewrite HAB1; unfold w; nia|].
    unfold fl_val. fold A B. rewrite HAB. fold A B. rewrite W1, W2, W3, W4.
    replace (q =? 0) with false by lia. replace (q - bias) with e by (unfold q; lia). fold D.
    replace (A + f) with (m * D) by (unfold f; ring). rewrite Z.div_mul by lia.
    unfold s, m. destruct (Z.ltb_spec v 0); cbn [Z.eqb]; lia. Qed.

(** * one sample: bytes and back *)
Lemma enc_length dt v : length (enc dt v) = Z.to_nat (itemsize dt).
Proof. destruct dt; cbn [enc itemsize]; rewrite le_bytes_length; reflexivity. Qed.

Lemma dec_enc dt v : in_dtype dt v -> dec dt (enc dt v) = v.
Proof. destruct dt; cbn [in_dtype enc dec]; intro H.
  - rewrite le_val_le_bytes; change (256 ^ Z.of_nat 1) with 256; lia.
  - rewrite le_val_le_bytes; change (256 ^ Z.of_nat 2) with 65536; lia.
  - change (2 ^ 63) with 9223372036854775808 in *. change (2 ^ 64) with 18446744073709551616 in *.
    rewrite le_val_le_bytes by (change (256 ^ Z.of_nat 8) with 18446744073709551616; lia).
    destruct (Z.ltb_spec (v mod 18446744073709551616) 9223372036854775808); lia.
  - destruct (fl_word_props 23 8 127 v ltac:(lia) ltac:(lia) ltac:(lia) ltac:(reflexivity) H) as [R E].
    rewrite le_val_le_bytes; [exact E | exact R].
  - destruct (fl_word_props 52 11 1023 v ltac:(lia) ltac:(lia) ltac:(lia) ltac:(reflexivity) H) as [R E].
    rewrite le_val_le_bytes; [exact E | exact R]. Qed.

Lemma itemsize_pos dt : 1 <= itemsize dt.
Proof. destruct dt; cbn; lia. Qed.

(** * tofile / fromfile *)
Lemma chunks_flat_map (k : nat) (g : Z -> list Z) : (forall v, length (g v) = k) ->
  forall vals, chunks k (length vals) (flat_map g vals) = map g vals.
Proof. intros Hk vals. induction vals as [|v vals IH]; [reflexivity|].
  cbn [length flat_map chunks map].
  assert (E1 : firstn k (g v ++ flat_map g vals) = g v) by (rewrite <- (Hk v); apply firstn_len_app).
  assert (E2 : skipn k (g v ++ flat_map g vals) = flat_map g vals) by (rewrite <- (Hk v); apply skipn_len_app).
  rewrite E1, E2, IH. reflexivity. Qed.

Lemma flat_map_len (k : Z) (g : Z -> list Z) : (forall v, len (g v) = k) -> forall vals, len (flat_map g vals) = k * len vals.
Proof. intros Hk vals. induction vals as [|v vals IH]; [cbn; lia|].
  cbn [flat_map]. rewrite len_app, Hk, IH. unfold len. cbn [length]. lia. Qed.

Lemma len_enc dt v : len (enc dt v) = itemsize dt.
Proof. unfold len. rewrite enc_length. pose proof (itemsize_pos dt). lia. Qed.

Lemma len_tofile a : len (tofile a) = itemsize (nd_dt a) * nd_size a.
Proof. unfold tofile, nd_size. apply flat_map_len. intro v. apply len_enc. Qed.

Lemma chunks_length k : forall n l, length (chunks k n l) = n.
Proof. induction n as [|n IH]; intro l; cbn; [reflexivity | rewrite IH; reflexivity]. Qed.

Lemma fromfile_length dt b : len (fromfile dt b) = len b / itemsize dt.
Proof. unfold fromfile, len. rewrite map_length, chunks_length. pose proof (itemsize_pos dt).
  rewrite Z2Nat.id; [reflexivity|]. apply Z.div_pos; lia. Qed.

Lemma fromfile_tofile dt vals : Forall (in_dtype dt) vals -> fromfile dt (tofile (mknd dt vals)) = vals.
Proof. intro HF. unfold fromfile. rewrite len_tofile. cbn [nd_dt nd_size nd_vals]. unfold nd_size. cbn [nd_vals].
  pose proof (itemsize_pos dt). rewrite Z.mul_comm, Z.div_mul by lia. unfold len at 1. rewrite Nat2Z.id.
  unfold tofile. cbn [nd_dt nd_vals]. rewrite chunks_flat_map by (intro; apply enc_length).
  rewrite map_map. apply map_id_Forall. revert HF. apply Forall_impl. intros v Hv. apply dec_enc. exact Hv. Qed.

(** * the generated tables on the generated list of depths *)
Lemma dtype_eqb_eq a b : dtype_eqb a b = true <-> a = b.
Proof. destruct a, b; cbn; split; intro; try reflexivity; try discriminate. Qed.

(** every generated depth is either packed (uint8 file, 8/nbits samples per byte) or written item by item in a sample
    type of exactly nbits bits that holds every value representable at that depth *)
Inductive depth_kind (nbits : Z) : Prop :=
| DSub : In nbits [1; 2; 4] -> file_dtype nbits = Some U8 -> bit_unpack nbits = true -> bitfact nbits = bf nbits ->
         (forall v, repr_at nbits v -> 0 <= v < 2 ^ nbits) -> depth_kind nbits
| DWide fdt : file_dtype nbits = Some fdt -> bit_unpack nbits = false -> bitfact nbits = 1 -> 8 * itemsize fdt = nbits ->
         (forall v, repr_at nbits v -> in_dtype fdt v /\ cast fdt v = v) -> depth_kind nbits.

Lemma depths_cases nbits : In nbits depths -> depth_kind nbits.
Proof. unfold depths. cbn [In]. intros [<-|[<-|[<-|[<-|[<-|[<-|[]]]]]]].
  - apply DSub; cbn; auto.
  - apply DSub; cbn; auto.
  - apply DSub; cbn; auto.
  - apply (DWide 8 U8); cbn; auto. unfold repr_at; cbn. intros v Hv. change (2 ^ 8) with 256 in Hv. lia.
  - apply (DWide 16 U16); cbn; auto. unfold repr_at; cbn. intros v Hv. change (2 ^ 16) with 65536 in Hv. lia.
  - apply (DWide 32 F32); cbn; auto. Qed.

(** * cwrite: width of what is written *)
Lemma prepare_size m fdt a a' : prepare m fdt a = Some a' -> nd_size a' = nd_size a.
Proof. destruct m; cbn [prepare]; intro H.
  - injection H as <-. reflexivity.
  - injection H as <-. unfold astype, nd_size. cbn [nd_vals]. apply len_map.
  - destruct (dtype_eqb (nd_dt a) fdt); [injection H as <-; reflexivity | discriminate]. Qed.

Lemma prepare_dt m fdt a a' : m <> AsIs -> prepare m fdt a = Some a' -> nd_dt a' = fdt.
Proof. destruct m; cbn [prepare]; intros Hm H; [congruence| |].
  - injection H as <-. reflexivity.
  - destruct (dtype_eqb (nd_dt a) fdt) eqn:E; [|discriminate]. injection H as <-. apply dtype_eqb_eq. exact E. Qed.

(** when every value survives the conversion unchanged, whatever is handed on holds the same values *)
Lemma prepare_vals m fdt a a' : Forall (fun v => cast fdt v = v) (nd_vals a) -> prepare m fdt a = Some a' -> nd_vals a' = nd_vals a.
Proof. destruct m; cbn [prepare]; intros HF H.
  - injection H as <-. reflexivity.
  - injection H as <-. cbn [astype nd_vals]. apply map_id_Forall. exact HF.
  - destruct (dtype_eqb (nd_dt a) fdt); [injection H as <-; reflexivity | discriminate]. Qed.

Lemma prepare_accepts m fdt a : nd_dt a = fdt -> exists a', prepare m fdt a = Some a'.
Proof. intro E. destruct m; cbn [prepare]; eauto. replace (dtype_eqb (nd_dt a) fdt) with true; eauto.
  symmetry. apply dtype_eqb_eq. exact E. Qed.

Definition WidthOk (cfg : wcfg) : Prop := forall nbits a b,
  In nbits depths -> nd_size a mod bitfact nbits = 0 -> cwrite cfg nbits a = Some b -> 8 * len b = nd_size a * nbits.
Definition WidthRefuted (cfg : wcfg) : Prop := exists nbits a b,
  In nbits depths /\ nd_size a mod bitfact nbits = 0 /\ cwrite cfg nbits a = Some b /\ 8 * len b <> nd_size a * nbits.

Lemma nd_size_nonneg a : 0 <= nd_size a.
Proof. unfold nd_size. apply len_nonneg. Qed.

Lemma width_sound cfg : sound_cfg cfg = true -> WidthOk cfg.
Proof. intros Hs nbits a b Hd Hm Hw. unfold cwrite in Hw. pose proof (nd_size_nonneg a) as Hn.
  destruct (depths_cases nbits Hd) as [Hin Hf Hu Hb _ | fdt Hf Hu Hb Hi _]; rewrite Hf, Hu in Hw.
  - destruct (prepare (cw_sub cfg) U8 a) as [a'|] eqn:Ep; [|discriminate].
    destruct (pack_chk cfg && negb (dtype_eqb (nd_dt a') U8)); [discriminate|]. injection Hw as <-.
    rewrite (prepare_size _ _ _ _ Ep). unfold pack_len. rewrite Hb in *.
    destruct (bf_pos nbits Hin) as [Hp H8].
    rewrite len_to_list by (apply Z.div_pos; lia).
    assert (nd_size a = bf nbits * (nd_size a / bf nbits)) by (apply Z.div_exact; lia). nia.
  - destruct (prepare (cw_wide cfg) fdt a) as [a'|] eqn:Ep; [|discriminate]. injection Hw as <-.
    assert (Hne : cw_wide cfg <> AsIs) by (unfold sound_cfg in Hs; destruct (cw_wide cfg); congruence).
    rewrite len_tofile, (prepare_dt _ _ _ _ Hne Ep), (prepare_size _ _ _ _ Ep). nia. Qed.

Lemma width_unsound cfg : sound_cfg cfg = false -> WidthRefuted cfg.
Proof. intro Hs. assert (E : cw_wide cfg = AsIs) by (unfold sound_cfg in Hs; destruct (cw_wide cfg); congruence).
  exists 32, (mknd U8 [1]), [1]. repeat split.
  - unfold depths. cbn. tauto.
  - unfold cwrite. cbn. rewrite E. reflexivity.
  - cbn. lia. Qed.

Lemma width_verdict cfg : if sound_cfg cfg then WidthOk cfg else WidthRefuted cfg.
Proof. destruct (sound_cfg cfg) eqn:E; [apply width_sound | apply width_unsound]; exact E. Qed.

Lemma width_refuted_not_ok cfg : WidthRefuted cfg -> ~ WidthOk cfg.
Proof. intros [nbits [a [b [Hd [Hm [Hw Hne]]]]]] Hok. apply Hne. apply Hok; assumption. Qed.

(** whatever the configuration: an array of the file's own sample type is written at the declared width *)
Lemma width_matching_dtype cfg nbits a b : In nbits depths -> nd_size a mod bitfact nbits = 0 ->
  file_dtype nbits = Some (nd_dt a) -> cwrite cfg nbits a = Some b -> 8 * len b = nd_size a * nbits.
Proof. intros Hd Hm Hdt Hw. unfold cwrite in Hw. pose proof (nd_size_nonneg a) as Hn.
  destruct (depths_cases nbits Hd) as [Hin Hf Hu Hb _ | fdt Hf Hu Hb Hi _]; rewrite Hf, Hu in Hw.
  - destruct (prepare (cw_sub cfg) U8 a) as [a'|] eqn:Ep; [|discriminate].
    destruct (pack_chk cfg && negb (dtype_eqb (nd_dt a') U8)); [discriminate|]. injection Hw as <-.
    rewrite (prepare_size _ _ _ _ Ep). unfold pack_len. rewrite Hb in *.
    destruct (bf_pos nbits Hin) as [Hp H8].
    rewrite len_to_list by (apply Z.div_pos; lia).
    assert (nd_size a = bf nbits * (nd_size a / bf nbits)) by (apply Z.div_exact; lia). nia.
  - destruct (prepare (cw_wide cfg) fdt a) as [a'|] eqn:Ep; [|discriminate]. injection Hw as <-.
    assert (Ed : nd_dt a = fdt) by congruence.
    assert (nd_dt a' = fdt /\ nd_size a' = nd_size a) as [E1 E2].
    { split; [|eapply prepare_size; eassumption]. destruct (cw_wide cfg); cbn [prepare] in Ep.
      - injection Ep as <-. exact Ed.
      - injection Ep as <-. reflexivity.
      - destruct (dtype_eqb (nd_dt a) fdt); [injection Ep as <-; exact Ed | discriminate]. }
    rewrite len_tofile, E1, E2. nia. Qed.

(** * nsamples inference *)
Lemma infer_exact L nbits nchans nsamps : 1 <= nbits -> 1 <= nchans -> 8 * L = nsamps * nchans * nbits ->
  infer_nsamples L nbits nchans = nsamps.
Proof. intros Hb Hc E. unfold infer_nsamples. rewrite E.
  rewrite Z.div_mul by lia. rewrite Z.div_mul by lia. reflexivity. Qed.

(** * packed depths: unpacking what cwrite packed *)
Lemma unpack_packed nb big vals m : In nb [1; 2; 4] -> 0 <= m -> len vals = bf nb * m ->
  Forall (fun v => 0 <= v < 2 ^ nb) vals ->
  let b := to_list m (pack_run nb big m (of_list vals) zeros) in
  len b = m /\ to_list (bf nb * len b) (unpack_run nb big (len b) (of_list b) zeros) = vals.
Proof. intros Hnb Hm Hl HF b. destruct (bf_pos nb Hnb) as [Hbp Hb8].
  assert (Hlb : len b = m) by (apply len_to_list; exact Hm). split; [exact Hlb|].
  rewrite Hlb, <- Hl. apply to_list_eq. rewrite Hl. intros j Hj.
  set (P := pack_run nb big m (of_list vals) zeros) in *.
  assert (Hv : forall i, 0 <= i < bf nb * m -> 0 <= of_list vals i < 2 ^ nb).
  { intros i Hi. apply (of_list_Forall (fun v => 0 <= v < 2 ^ nb)); [exact HF | lia]. }
  assert (HP : forall i, 0 <= i < m -> 0 <= P i < 256).
  { intros i Hi. unfold P. rewrite pack_run_spec by assumption. replace ((0 <=? i) && (i <? m)) with true by lia.
    apply (field_byte_of nb big (fun k => of_list vals (i * bf nb + k)) 0 Hnb); [|lia].
    intros k Hk. apply Hv. nia. }
  assert (Hb : forall i, 0 <= i < m -> of_list b i = P i) by (intros i Hi; unfold b; apply of_list_to_list; exact Hi).
  assert (Hq : 0 <= j / bf nb < m) by (split; [apply Z.div_pos; lia | apply Z.div_lt_upper_bound; lia]).
  pose proof (unpack_pack nb big m (of_list vals) zeros zeros Hnb Hm Hv j Hj) as E. fold P in E.
  rewrite unpack_run_spec in E by assumption.
  rewrite unpack_run_spec; try assumption.
  - rewrite Hb by exact Hq. rewrite E. unfold of_list. replace (j <? 0) with false by lia. reflexivity.
  - intros i Hi. rewrite Hb by exact Hi. apply HP. exact Hi. Qed.

(** * reading the whole data section through the C02 reader *)
Lemma read_whole f stride nsamples : 1 <= stride -> 1 <= nsamples -> datalen f = nsamples * stride ->
  read_block_bytes [f] stride nsamples 0 nsamples = OBytes (dat f).
Proof. intros Hs Hn Hl.
  rewrite read_block_spec; try assumption.
  - replace ((0 <=? 0) && (0 + nsamples <=? nsamples)) with true by lia.
    unfold flat. cbn [map concat]. rewrite app_nil_r. f_equal.
    replace (0 * stride) with 0 by lia. replace (stride * nsamples) with (len (dat f)) by (unfold datalen, len in *; lia).
    apply slice_all.
  - unfold nfiles. cbn. lia.
  - unfold total. cbn. lia. Qed.

(** * filterbank data through a prepared output file *)
Definition RoundtripFil (cfg : wcfg) : Prop := forall nbits nchans nsamps h a,
  In nbits depths -> 1 <= nchans -> 1 <= nsamps -> (nchans * nbits) mod 8 = 0 ->
  nd_size a = nsamps * nchans -> Forall (repr_at nbits) (nd_vals a) ->
  match write_fil cfg nbits h a with
  | None => file_dtype nbits <> Some (nd_dt a)
  | Some f => hdr f = h /\ 8 * datalen f = nsamps * nchans * nbits /\
              read_fil nbits nchans f = Some (nsamps, nd_vals a)
  end.
Definition FilRefuted (cfg : wcfg) : Prop := exists nbits nchans nsamps h a f,
  In nbits depths /\ 1 <= nchans /\ 1 <= nsamps /\ (nchans * nbits) mod 8 = 0 /\ nd_size a = nsamps * nchans /\
  Forall (repr_at nbits) (nd_vals a) /\ write_fil cfg nbits h a = Some f /\
  read_fil nbits nchans f <> Some (nsamps, nd_vals a).

Lemma roundtrip_sound cfg : sound_cfg cfg = true -> RoundtripFil cfg.
Proof. intros Hs nbits nchans nsamps h a Hd Hc Hn Hm Hsz HF. unfold write_fil, cwrite.
  destruct (depths_cases nbits Hd) as [Hin Hf Hu Hb Hr | fdt Hf Hu Hb Hi Hr]; rewrite Hf, Hu.
  - (* packed *)
    destruct (bf_pos nbits Hin) as [Hbp Hb8].
    assert (Hcast : Forall (fun v => cast U8 v = v) (nd_vals a)).
    { revert HF. apply Forall_impl. intros v Hv. apply Hr in Hv. cbn [cast].
      assert (2 ^ nbits <= 256) by (cbn [In] in Hin; destruct Hin as [<-|[<-|[<-|[]]]]; cbn; lia). lia. }
    destruct (prepare (cw_sub cfg) U8 a) as [a'|] eqn:Ep.
    2:{ intro E. injection E as E. destruct (prepare_accepts (cw_sub cfg) U8 a (eq_sym E)) as [x Hx]. congruence. }
    pose proof (prepare_vals _ _ _ _ Hcast Ep) as Ev. pose proof (prepare_size _ _ _ _ Ep) as Es.
    destruct (pack_chk cfg && negb (dtype_eqb (nd_dt a') U8)) eqn:Ec.
    { intro E. injection E as E. apply andb_prop in Ec as [_ Ec].
      assert (nd_dt a' = U8); [|rewrite (proj2 (dtype_eqb_eq (nd_dt a') U8)) in Ec by assumption; discriminate].
      destruct (cw_sub cfg); cbn [prepare] in Ep.
      - injection Ep as <-. auto.
      - injection Ep as <-. reflexivity.
      - destruct (dtype_eqb (nd_dt a) U8) eqn:E2; [injection Ep as <-; auto | discriminate]. }
    rewrite Hb, Es, Ev, Hsz. unfold pack_len.
    set (m := nsamps * nchans / bf nbits).
    assert (Hdiv : nsamps * nchans = bf nbits * m).
    { unfold m. apply Z.div_exact; [lia|].
      assert (nchans mod bf nbits = 0).
      { cbn [In] in Hin. destruct Hin as [<-|[<-|[<-|[]]]]; change (bf 1) with 8; change (bf 2) with 4; change (bf 4) with 2; lia. }
      rewrite Z.mul_mod by lia. rewrite H. rewrite Z.mul_0_r. apply Z.mod_0_l. lia. }
    assert (Hm0 : 1 <= m) by nia.
    assert (HF2 : Forall (fun v => 0 <= v < 2 ^ nbits) (nd_vals a)) by (revert HF; apply Forall_impl; exact Hr).
    destruct (unpack_packed nbits (bitorder_big nbits) (nd_vals a) m Hin ltac:(lia) ltac:(unfold nd_size in Hsz; lia) HF2) as [Hlb Hun].
    set (b := to_list m (pack_run nbits (bitorder_big nbits) m (of_list (nd_vals a)) zeros)) in *.
    cbn [hdr]. split; [reflexivity|]. unfold datalen. cbn [dat]. fold (len b). rewrite Hlb.
    split; [nia|]. unfold read_fil. rewrite Hf. unfold datalen. cbn [dat]. fold (len b). rewrite Hlb.
    assert (Hst : samp_stride nchans (itemsize U8) (bitfact nbits) * nsamps = m /\ 1 <= samp_stride nchans (itemsize U8) (bitfact nbits)).
    { unfold samp_stride. cbn [itemsize]. rewrite Hb, Z.mul_1_r.
      assert (nchans mod bf nbits = 0).
      { cbn [In] in Hin. destruct Hin as [<-|[<-|[<-|[]]]]; change (bf 1) with 8; change (bf 2) with 4; change (bf 4) with 2; lia. }
      assert (nchans = bf nbits * (nchans / bf nbits)) by (apply Z.div_exact; lia). nia. }
    destruct Hst as [Hst1 Hst2].
    rewrite (infer_exact m nbits nchans nsamps) by (cbn [In] in Hin; nia || lia).
    rewrite read_whole; [| exact Hst2 | exact Hn | unfold datalen; cbn [dat]; fold (len b); lia ].
    cbn [dat]. unfold decode. rewrite Hu, Hb, Hun. reflexivity.
  - (* one item per sample *)
    assert (Hne : cw_wide cfg <> AsIs) by (unfold sound_cfg in Hs; destruct (cw_wide cfg); congruence).
    assert (Hcast : Forall (fun v => cast fdt v = v) (nd_vals a)) by (revert HF; apply Forall_impl; intros v Hv; apply Hr; exact Hv).
    assert (Hin : Forall (in_dtype fdt) (nd_vals a)) by (revert HF; apply Forall_impl; intros v Hv; apply Hr; exact Hv).
    destruct (prepare (cw_wide cfg) fdt a) as [a'|] eqn:Ep.
    2:{ intro E. injection E as E. destruct (prepare_accepts (cw_wide cfg) fdt a (eq_sym E)) as [x Hx]. congruence. }
    pose proof (prepare_vals _ _ _ _ Hcast Ep) as Ev. pose proof (prepare_dt _ _ _ _ Hne Ep) as Ed.
    assert (Ea : a' = mknd fdt (nd_vals a)) by (destruct a'; cbn in *; congruence). subst a'.
    cbn [hdr]. split; [reflexivity|].
    set (b := tofile (mknd fdt (nd_vals a))).
    assert (Hlb : len b = itemsize fdt * (nsamps * nchans)).
    { unfold b. rewrite len_tofile. cbn [nd_dt]. unfold nd_size in *. cbn [nd_vals]. rewrite Hsz. reflexivity. }
    unfold datalen. cbn [dat]. fold (len b). rewrite Hlb. split; [nia|].
    unfold read_fil. rewrite Hf. unfold datalen. cbn [dat]. fold (len b). rewrite Hlb.
    pose proof (itemsize_pos fdt) as Hip.
    rewrite (infer_exact _ nbits nchans nsamps) by nia.
    assert (Hst : samp_stride nchans (itemsize fdt) (bitfact nbits) = nchans * itemsize fdt).
    { unfold samp_stride. rewrite Hb. apply Z.div_1_r. }
    rewrite read_whole; [| rewrite Hst; nia | exact Hn | unfold datalen; cbn [dat]; fold (len b); rewrite Hst; lia ].
    cbn [dat]. unfold decode. rewrite Hu. unfold b. rewrite fromfile_tofile by exact Hin. reflexivity. Qed.

Lemma roundtrip_unsound cfg : sound_cfg cfg = false -> FilRefuted cfg.
Proof. intro Hs. destruct cfg as [s w p]. unfold sound_cfg in Hs. cbn [cw_wide] in Hs.
  assert (w = AsIs) as -> by (destruct w; congruence).
  exists 32, 1, 4, [], (mknd U8 [1; 2; 3; 4]), (mkfile [] [1; 2; 3; 4]).
  repeat split; try (cbn; lia); try (unfold depths; cbn; tauto).
  - repeat constructor; unfold repr_at; cbn; lia.
  - destruct s, p; vm_compute; discriminate. Qed.

Lemma roundtrip_verdict cfg : if sound_cfg cfg then RoundtripFil cfg else FilRefuted cfg.
Proof. destruct (sound_cfg cfg) eqn:E; [apply roundtrip_sound | apply roundtrip_unsound]; exact E. Qed.

Lemma fil_refuted_not_ok cfg : FilRefuted cfg -> ~ RoundtripFil cfg.
Proof. intros [nbits [nchans [nsamps [h [a [f [Hd [Hc [Hn [Hm [Hsz [HF [Hw Hr]]]]]]]]]]]]] Hok.
  specialize (Hok nbits nchans nsamps h a Hd Hc Hn Hm Hsz HF). rewrite Hw in Hok. apply Hr. apply Hok. Qed.

(** packed depths need nothing of the configuration: a uint8 array is always packed and reads back *)
Lemma roundtrip_packed_any cfg nbits nchans nsamps h a :
  In nbits [1; 2; 4] -> In nbits depths -> 1 <= nchans -> 1 <= nsamps -> (nchans * nbits) mod 8 = 0 ->
  nd_size a = nsamps * nchans -> Forall (repr_at nbits) (nd_vals a) -> nd_dt a = U8 ->
  exists f, write_fil cfg nbits h a = Some f /\ read_fil nbits nchans f = Some (nsamps, nd_vals a).
Proof. intros Hin Hd Hc Hn Hm Hsz HF Hdt.
  (* the sound configuration with the same sub-byte treatment writes the same bytes *)
  set (cfg' := mkcfg (cw_sub cfg) Convert (pack_chk cfg)).
  assert (Hs : sound_cfg cfg' = true) by reflexivity.
  pose proof (roundtrip_sound cfg' Hs nbits nchans nsamps h a Hd Hc Hn Hm Hsz HF) as R.
  assert (Hsame : write_fil cfg nbits h a = write_fil cfg' nbits h a).
  { unfold write_fil, cwrite. destruct (depths_cases nbits Hd) as [_ Hf Hu _ _ | fdt Hf Hu _ Hi _]; rewrite Hf, Hu; [reflexivity|].
    exfalso. cbn [In] in Hin. destruct Hin as [<-|[<-|[<-|[]]]]; cbn in Hu; discriminate. }
  rewrite Hsame. destruct (write_fil cfg' nbits h a) as [f|].
  - exists f. split; [reflexivity | apply R].
  - exfalso. apply R. destruct (depths_cases nbits Hd) as [_ Hf _ _ _ | fdt Hf Hu _ _ _].
    + rewrite Hf, Hdt. reflexivity.
    + cbn [In] in Hin. destruct Hin as [<-|[<-|[<-|[]]]]; cbn in Hu; discriminate. Qed.

(** * shape and order: FilReader's block and FilterbankBlock.to_file use the same index map, a bijection *)
Lemma block_index_bij nchans nsamps c t : 0 <= c < nchans -> 0 <= t < nsamps ->
  0 <= block_index nchans c t < nsamps * nchans /\ block_index nchans c t / nchans = t /\ block_index nchans c t mod nchans = c.
Proof. intros Hc Ht. unfold block_index. split; [nia|]. split.
  - symmetry. apply Z.div_unique with (r := c); lia.
  - symmetry. apply Z.mod_unique with (q := t); lia. Qed.

Lemma to_file_order nchans c t : to_file_index nchans c t = block_index nchans c t.
Proof. reflexivity. Qed.

(** * series formats *)
Definition fmt_f32 (f : sfmt) : Prop := w_dt f = F32 /\ (r_dt f = Some F32 \/ r_dt f = None).

Lemma cwrite_f32 cfg vals : cwrite cfg 32 (mknd F32 vals) = Some (tofile (mknd F32 vals)).
Proof. assert (Hd : In 32 depths) by (unfold depths; cbn; tauto).
  unfold cwrite. destruct (depths_cases 32 Hd) as [Hin _ _ _ _ | fdt Hf Hu _ Hi _].
  - exfalso. cbn [In] in Hin. lia.
  - rewrite Hf, Hu. assert (fdt = F32) as -> by (cbn in Hf; congruence).
    destruct (cw_wide cfg); cbn [prepare]; try reflexivity.
    unfold astype. cbn [nd_vals cast]. rewrite map_id_Forall; [reflexivity|]. apply Forall_forall. reflexivity. Qed.

Definition SeriesOk (f : sfmt) : Prop := forall cfg h vals, Forall (in_dtype F32) vals ->
  (r_pairs f = true -> Z.even (len vals) = true) ->
  exists p, write_series cfg f h vals = Some p /\
            read_series f (if w_hdr f then Some (len h) else None) 32 p = Some vals /\
            len p = (if w_hdr f then len h else 0) + 4 * len vals /\
            infer_nsamples (4 * len vals) 32 1 = len vals.
Definition SeriesBroken (f : sfmt) : Prop := forall cfg h vals p, 4 <= len h ->
  write_series cfg f h vals = Some p ->
  read_series f (if w_hdr f then Some (len h) else None) 32 p <> Some vals.

Lemma series_write cfg f h vals : w_dt f = F32 ->
  write_series cfg f h vals = Some ((if w_hdr f then h else []) ++ tofile (mknd F32 vals)).
Proof. intro E. unfold write_series. rewrite E. destruct (w_cwrite f); [rewrite cwrite_f32|]; reflexivity. Qed.

Lemma series_reader_dt f : fmt_f32 f -> match r_dt f with Some d => Some d | None => file_dtype 32 end = Some F32.
Proof. intros [_ [->| ->]]; reflexivity. Qed.

Lemma skipn_len_app_z (h b : list Z) : skipn (Z.to_nat (len h)) (h ++ b) = b.
Proof. unfold len. rewrite Nat2Z.id. apply skipn_len_app. Qed.

Lemma series_sound f : fmt_f32 f -> sound_fmt f = true -> SeriesOk f.
Proof. intros Hf Hs cfg h vals HF Hev. destruct Hf as [Hw Hr].
  rewrite series_write by exact Hw. eexists; split; [reflexivity|].
  unfold read_series. rewrite (series_reader_dt f (conj Hw Hr)).
  unfold sound_fmt in Hs. apply eqb_prop in Hs. rewrite <- Hs.
  assert (Hl : len (tofile (mknd F32 vals)) = 4 * len vals) by (rewrite len_tofile; reflexivity).
  assert (Hp : r_pairs f && Z.odd (len vals) = false).
  { destruct (r_pairs f); [|reflexivity]. cbn [andb]. rewrite <- Z.negb_even, Hev by reflexivity. reflexivity. }
  destruct (w_hdr f); repeat split.
  - rewrite skipn_len_app_z. rewrite fromfile_tofile by exact HF. rewrite Hp. reflexivity.
  - rewrite len_app, Hl. reflexivity.
  - apply infer_exact; lia.
  - cbn [app]. rewrite fromfile_tofile by exact HF. rewrite Hp. reflexivity.
  - cbn [app]. rewrite Hl. lia.
  - apply infer_exact; lia. Qed.

Lemma series_unsound f : fmt_f32 f -> sound_fmt f = false -> SeriesBroken f.
Proof. intros Hf Hs cfg h vals p Hh Hw. destruct Hf as [Hwd Hr].
  rewrite series_write in Hw by exact Hwd. injection Hw as <-.
  unfold read_series. rewrite (series_reader_dt f (conj Hwd Hr)).
  unfold sound_fmt in Hs. apply eqb_false_iff in Hs.
  destruct (w_hdr f), (r_skip f); try congruence; try discriminate.
  set (l := fromfile F32 (h ++ tofile (mknd F32 vals))).
  destruct (r_pairs f && Z.odd (len l)); [discriminate|].
  intro E. injection E as E. apply (f_equal len) in E. unfold l in E. rewrite fromfile_length in E.
  rewrite len_app, len_tofile in E. cbn [nd_dt itemsize] in E. unfold nd_size in E. cbn [nd_vals] in E.
  pose proof (len_nonneg vals). lia. Qed.

Lemma series_verdict f : fmt_f32 f -> if sound_fmt f then SeriesOk f else SeriesBroken f.
Proof. intro Hf. destruct (sound_fmt f) eqn:E; [apply series_sound | apply series_unsound]; assumption. Qed.

Lemma series_broken_not_ok f : SeriesBroken f -> ~ SeriesOk f.
Proof. intros Hb Hok. assert (HF : Forall (in_dtype F32) [1]) by (repeat constructor; reflexivity).
  assert (HF2 : Forall (in_dtype F32) [1; 1]) by (repeat constructor; reflexivity).
  destruct (Hok (mkcfg AsIs Convert true) [0; 0; 0; 0] [1; 1] HF2 ltac:(reflexivity)) as [p [Hw [Hr _]]].
  assert (H4 : 4 <= len [0; 0; 0; 0]) by (vm_compute; discriminate).
  exact (Hb _ _ _ _ H4 Hw Hr). Qed.

Lemma generated_formats_f32 : Forall fmt_f32 series_formats.
Proof. unfold series_formats. repeat (apply Forall_cons || apply Forall_nil); (split; [reflexivity | cbn; auto]). Qed.

(** * the header: whatever the (external) SIGPROC header codec, if parsing an encoded header followed by anything
    returns that header and its length, the product of prep_outfile + cwrite parses to the header that was written
    (so tsamp, tstart, DM are the values written) and its data section is exactly what cwrite wrote *)
Section Meta.
  Variables (H : Type) (encode : H -> list Z) (parse : list Z -> option (H * Z)).
  Hypothesis parse_encode : forall h rest, parse (encode h ++ rest) = Some (h, len (encode h)).

  Lemma meta_carried cfg nbits h a f : write_fil cfg nbits (encode h) a = Some f ->
    parse (raw f) = Some (h, hdrlen f) /\ cwrite cfg nbits a = Some (dat f).
  Proof. unfold write_fil. destruct (cwrite cfg nbits a) as [b|]; [|discriminate]. intro E. injection E as <-.
    unfold raw, hdrlen. cbn [hdr dat]. rewrite parse_encode. split; reflexivity. Qed.
End Meta.

Lemma series_verdict_generated f : In f series_formats -> if sound_fmt f then SeriesOk f else SeriesBroken f.
Proof. intro Hin. apply series_verdict. pose proof generated_formats_f32 as HF. rewrite Forall_forall in HF. apply HF. exact Hin. Qed.

(** * FilterbankBlock.to_file: float32 data at the generated depth; needs nothing of the configuration *)
Lemma to_file_roundtrip cfg nchans nsamps h vals : 1 <= nchans -> 1 <= nsamps -> len vals = nsamps * nchans ->
  Forall (in_dtype F32) vals ->
  exists f, write_fil cfg to_file_nbits h (mknd F32 vals) = Some f /\ hdr f = h /\
            8 * datalen f = nsamps * nchans * to_file_nbits /\ read_fil to_file_nbits nchans f = Some (nsamps, vals).
Proof. intros Hc Hn Hl HF. unfold to_file_nbits.
  assert (Hd : In 32 depths) by (unfold depths; cbn; tauto).
  assert (HR : Forall (repr_at 32) (nd_vals (mknd F32 vals))) by (cbn [nd_vals]; revert HF; apply Forall_impl; intros v Hv; exact Hv).
  pose proof (roundtrip_sound (mkcfg AsIs Convert true) eq_refl 32 nchans nsamps h (mknd F32 vals) Hd Hc Hn ltac:(lia) Hl HR) as R.
  unfold write_fil in *. rewrite cwrite_f32 in *. destruct R as [R1 [R2 R3]].
  eexists. split; [reflexivity|]. split; [exact R1|]. split; [exact R2 | exact R3]. Qed.

(** * the configuration of the pinned tree (cwrite hands the array to tofile as it is; to_dat writes a SIGPROC header
    that from_dat does not skip), whatever the source says today *)
Definition pinned_cfg : wcfg := mkcfg AsIs AsIs true.
Definition pinned_dat : sfmt := mkfmt true true F32 false (Some F32) false.
Lemma pinned_cwrite_refuted : WidthRefuted pinned_cfg /\ FilRefuted pinned_cfg.
Proof. split; [apply width_unsound | apply roundtrip_unsound]; reflexivity. Qed.
Lemma pinned_dat_refuted : SeriesBroken pinned_dat.
Proof. apply series_unsound; [split; [reflexivity | left; reflexivity] | reflexivity]. Qed.
