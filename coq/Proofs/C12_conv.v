(** C12 (shared with C13): list/index views, finite-sum re-indexing (rotation, reflection), linear convolution
    from circular convolution, and the specifications of the bookkeeping regenerated in Gen/FftOps.v. *)
From Coq Require Import ZArith List Bool Lia ZifyBool.
Require Import SPP.Base.Rt SPP.Base.Iter SPP.Model.C12_np SPP.Model.C12_conv SPP.Gen.FftOps.
Import ListNotations.
Open Scope Z_scope.
Ltac Zify.zify_post_hook ::= Z.to_euclidean_division_equations.

(** * lists and their index view *)
Lemma len_nonneg {A} (l : list A) : 0 <= len l.
Proof. unfold len. lia. Qed.

Lemma to_list_len n f : 0 <= n -> len (to_list n f) = n.
Proof. intro H. unfold len. rewrite to_list_length. lia. Qed.

Lemma of_list_to_list n f i : of_list (to_list n f) i = if (0 <=? i) && (i <? n) then f i else 0.
Proof. unfold of_list. destruct (i <? 0) eqn:E1.
  - destruct (0 <=? i) eqn:?; [lia|reflexivity].
  - destruct (0 <=? i) eqn:E2; [|lia]. destruct (i <? n) eqn:E3; cbn [andb].
    + rewrite to_list_nth by lia. rewrite Z2Nat.id by lia. reflexivity.
    + apply nth_overflow. rewrite to_list_length. lia.
Qed.

Lemma of_list_outside l i : i < 0 \/ len l <= i -> of_list l i = 0.
Proof. unfold of_list, len. intros [H|H].
  - destruct (i <? 0) eqn:?; [reflexivity|lia].
  - destruct (i <? 0) eqn:?; [reflexivity|]. apply nth_overflow. lia. Qed.

Lemma list_eq_of_list a b : len a = len b -> (forall i, 0 <= i < len a -> of_list a i = of_list b i) -> a = b.
Proof. unfold len. intros Hl H. apply nth_ext with (d := 0) (d' := 0); [lia|].
  intros n Hn. specialize (H (Z.of_nat n) ltac:(lia)). unfold of_list in H.
  destruct (Z.of_nat n <? 0) eqn:?; [lia|]. now rewrite Nat2Z.id in H. Qed.

Lemma to_list_of_list l : to_list (len l) (of_list l) = l.
Proof. apply list_eq_of_list.
  - apply to_list_len, len_nonneg.
  - intros i Hi. rewrite to_list_len in Hi by apply len_nonneg. rewrite of_list_to_list.
    destruct (0 <=? i) eqn:?, (i <? len l) eqn:?; cbn; try reflexivity; lia. Qed.

Lemma to_list_ext n f g : (forall i, 0 <= i < n -> f i = g i) -> to_list n f = to_list n g.
Proof. intro H. unfold to_list. apply map_ext_in. intros k Hk. apply in_seq in Hk. apply H. lia. Qed.

Lemma firstn_seq_le n : forall s N, (n <= N)%nat -> firstn n (seq s N) = seq s n.
Proof. induction n as [|n IH]; intros s N H; [reflexivity|]. destruct N as [|N]; [lia|]. cbn. f_equal. apply IH. lia. Qed.

Lemma np_slice_to_list N n f : 0 <= n <= N -> np_slice (to_list N f) 0 n = to_list n f.
Proof. intro H. unfold np_slice, to_list. rewrite Z.sub_0_r. change (Z.to_nat 0) with 0%nat. cbn [skipn].
  rewrite firstn_map, firstn_seq_le by lia. reflexivity. Qed.

Lemma np_slice_len l n : 0 <= n <= len l -> len (np_slice l 0 n) = n.
Proof. unfold np_slice, len. intro H. rewrite Z.sub_0_r. change (Z.to_nat 0) with 0%nat. cbn [skipn].
  rewrite firstn_length. lia. Qed.

Lemma pad_len l N : 0 <= N -> len (pad l N) = N.
Proof. apply to_list_len. Qed.

Lemma of_list_pad l N i : of_list (pad l N) i = if (0 <=? i) && (i <? N) then of_list l i else 0.
Proof. apply of_list_to_list. Qed.

Lemma pad_full l : pad l (len l) = l.
Proof. apply to_list_of_list. Qed.

Lemma pad_pad l N : pad (pad l N) N = pad l N.
Proof. unfold pad at 1. apply to_list_ext. intros i Hi. rewrite of_list_pad.
  destruct (0 <=? i) eqn:?, (i <? N) eqn:?; cbn; try reflexivity; lia. Qed.

Lemma pad_to_list N g : pad (to_list N g) N = to_list N g.
Proof. unfold pad. apply to_list_ext. intros i Hi. rewrite of_list_to_list.
  destruct (0 <=? i) eqn:?, (i <? N) eqn:?; cbn; try reflexivity; lia. Qed.

Lemma padf_of_list l i : padf (of_list l) (len l) i = of_list l i.
Proof. unfold padf. destruct (0 <=? i) eqn:?, (i <? len l) eqn:?; cbn; try reflexivity;
  symmetry; apply of_list_outside; lia. Qed.

Lemma len_rev l : len (np_rev l) = len l.
Proof. unfold len, np_rev. now rewrite rev_length. Qed.

(** a[::-1][i] = a[len a - 1 - i], for every i (both sides vanish outside the support) *)
Lemma of_list_rev l i : of_list (np_rev l) i = of_list l (len l - 1 - i).
Proof. destruct (Z.lt_ge_cases i 0) as [H|H].
  - rewrite !of_list_outside; auto; lia.
  - destruct (Z.lt_ge_cases i (len l)) as [H2|H2].
    + unfold of_list, np_rev, len in *. destruct (i <? 0) eqn:?; [lia|].
      destruct (Z.of_nat (length l) - 1 - i <? 0) eqn:?; [lia|].
      rewrite rev_nth by lia. f_equal. lia.
    + rewrite !of_list_outside; auto; rewrite ?len_rev; lia. Qed.

(** * finite sums: truncation and re-indexing *)
Lemma sum_n_split n k f : (k <= n)%nat -> sum_n n f = sum_n k f + sum_n (n - k) (fun i => f (Z.of_nat k + i)).
Proof. intro H. replace n with (k + (n - k))%nat at 1 by lia. apply sum_n_app. Qed.

Lemma sum_n_rev n f : sum_n n (fun i => f (Z.of_nat n - 1 - i)) = sum_n n f.
Proof. induction n as [|m IH]; [reflexivity|].
  rewrite (sum_n_split (S m) 1) by lia. cbn [sum_n]. replace (S m - 1)%nat with m by lia.
  rewrite <- IH. replace (Z.of_nat (S m) - 1 - Z.of_nat 0) with (Z.of_nat m) by lia.
  rewrite Z.add_0_l, Z.add_comm. f_equal. apply sum_n_ext. intros i Hi. f_equal. lia. Qed.

(** rotation of the index range: sum_j f((c + j) mod N) = sum_j f(j) *)
Lemma sum_n_rot N c f : 0 < N -> sum_n (Z.to_nat N) (fun j => f ((c + j) mod N)) = sum_n (Z.to_nat N) f.
Proof. intro HN. set (r := c mod N). assert (Hr : 0 <= r < N) by (apply Z.mod_pos_bound; lia).
  rewrite (sum_n_ext _ _ (fun j => f ((r + j) mod N))).
  2:{ intros j Hj. f_equal. unfold r. rewrite Zplus_mod_idemp_l. reflexivity. }
  rewrite (sum_n_split (Z.to_nat N) (Z.to_nat (N - r))) by lia.
  rewrite (sum_n_split (Z.to_nat N) (Z.to_nat r) f) by lia.
  replace (Z.to_nat N - Z.to_nat (N - r))%nat with (Z.to_nat r) by lia.
  replace (Z.to_nat N - Z.to_nat r)%nat with (Z.to_nat (N - r)) by lia.
  rewrite Z.add_comm. f_equal.
  - apply sum_n_ext. intros i Hi. f_equal. rewrite Z2Nat.id by lia.
    symmetry. apply Z.mod_unique with (q := 1); lia.
  - apply sum_n_ext. intros i Hi. f_equal. rewrite Z2Nat.id by lia. apply Z.mod_small. lia. Qed.

(** reflection: sum_j f((c - j) mod N) = sum_j f(j) *)
Lemma sum_n_refl N c f : 0 < N -> sum_n (Z.to_nat N) (fun j => f ((c - j) mod N)) = sum_n (Z.to_nat N) f.
Proof. intro HN. rewrite <- (sum_n_rot N (c + 1 - N) f HN).
  rewrite <- (sum_n_rev (Z.to_nat N) (fun i => f ((c + 1 - N + i) mod N))).
  apply sum_n_ext. intros j Hj. f_equal. f_equal. lia. Qed.

(** * circular and linear convolution *)
Lemma cconv_ext N x x' y y' t : 0 < N ->
  (forall i, 0 <= i < N -> x i = x' i) -> (forall i, 0 <= i < N -> y i = y' i) -> cconv N x y t = cconv N x' y' t.
Proof. intros HN Hx Hy. unfold cconv. apply sum_n_ext. intros j Hj.
  rewrite Hx by lia. rewrite Hy by (apply Z.mod_pos_bound; lia). reflexivity. Qed.

Lemma lconv_ext n a b b' t : (forall i, b i = b' i) -> lconv n a b t = lconv n a b' t.
Proof. intro H. unfold lconv. apply sum_n_ext. intros. now rewrite H. Qed.

(** the first n1+n2-1 outputs of a circular convolution of length N >= n1+n2-1 of the zero-padded signals are
    the full linear convolution *)
Lemma cconv_pad_lconv N n1 n2 a b t : 1 <= n1 -> 1 <= n2 -> n1 + n2 - 1 <= N -> 0 <= t < n1 + n2 - 1 ->
  cconv N (padf a n1) (padf b n2) t = lconv n1 a (padf b n2) t.
Proof. intros H1 H2 HN Ht. unfold cconv, lconv.
  rewrite (sum_n_split (Z.to_nat N) (Z.to_nat n1)) by lia.
  rewrite (sum_n_0 _ (fun i => padf a n1 (Z.of_nat (Z.to_nat n1) + i) * _)).
  2:{ intros i Hi. unfold padf at 1. destruct (0 <=? _) eqn:?, (_ <? n1) eqn:?; cbn [andb]; lia. }
  rewrite Z.add_0_r. apply sum_n_ext. intros j Hj. unfold padf at 1.
  destruct (0 <=? j) eqn:?, (j <? n1) eqn:?; cbn [andb]; try lia. f_equal.
  destruct (Z.le_gt_cases 0 (t - j)) as [Hp|Hn].
  - rewrite Z.mod_small by lia. reflexivity.
  - assert (E : (t - j) mod N = t - j + N) by (symmetry; apply Z.mod_unique with (q := -1); lia).
    rewrite E. unfold padf. destruct (0 <=? t - j + N) eqn:?, (t - j + N <? n2) eqn:?, (0 <=? t - j) eqn:?; cbn [andb]; try reflexivity; lia.
Qed.

(** list form (the statement of DESIGN 5 C12) *)
Lemma lconv_from_cconv a b N : 1 <= len a -> 1 <= len b -> len a + len b - 1 <= N ->
  np_slice (cconv_list N (pad a N) (pad b N)) 0 (len a + len b - 1) = lconv_list a b.
Proof. intros Ha Hb HN. unfold cconv_list. rewrite np_slice_to_list by lia. unfold lconv_list.
  apply to_list_ext. intros t Ht.
  rewrite (cconv_ext N _ (padf (of_list a) (len a)) _ (padf (of_list b) (len b))); try lia.
  - rewrite cconv_pad_lconv by lia. apply lconv_ext. apply padf_of_list.
  - intros i Hi. rewrite of_list_pad, padf_of_list. destruct (0 <=? i) eqn:?, (i <? N) eqn:?; cbn; try reflexivity; lia.
  - intros i Hi. rewrite of_list_pad, padf_of_list. destruct (0 <=? i) eqn:?, (i <? N) eqn:?; cbn; try reflexivity; lia.
Qed.

(** correlation: the two ways of writing the lag sum agree for finitely supported signals *)
Lemma xcorr_shift_eq n m x y l : 0 <= n -> 0 <= m ->
  (forall i, i < 0 \/ n <= i -> x i = 0) -> (forall i, i < 0 \/ m <= i -> y i = 0) ->
  xcorr n x y l = xcorr_shift m x y l.
Proof. intros Hn Hm Hx Hy. unfold xcorr, xcorr_shift.
  (* both equal the sum over the window [lo, hi) of x[i+l] y[i], lo = max 0 (-l), hi = min m (n-l) *)
  set (g := fun i => x (i + l) * y i).
  assert (L : sum_n (Z.to_nat n) (fun j => x j * y (j - l)) = sum_n (Z.to_nat n) (fun j => g (j - l))).
  { apply sum_n_ext. intros j _. unfold g. f_equal. f_equal. lia. }
  rewrite L. clear L.
  assert (G0 : forall i, i < 0 \/ m <= i \/ i + l < 0 \/ n <= i + l -> g i = 0).
  { intros i H. unfold g. destruct H as [H|[H|[H|H]]]; [rewrite (Hy i)|rewrite (Hy i)|rewrite (Hx (i + l))|rewrite (Hx (i + l))]; lia. }
  (* generic window lemma: a sum of g over any interval equals the sum over its intersection with the support box *)
  assert (W : forall (k : nat) (s : Z), sum_n k (fun j => g (s + j)) =
                sum_n k (fun j => if (0 <=? s + j) && (s + j <? m) && (0 <=? s + j + l) && (s + j + l <? n) then g (s + j) else 0)).
  { intros k s. apply sum_n_ext. intros j _.
    destruct (0 <=? s + j) eqn:?, (s + j <? m) eqn:?, (0 <=? s + j + l) eqn:?, (s + j + l <? n) eqn:?; cbn [andb]; try reflexivity; apply G0; lia. }
  set (h := fun i => if (0 <=? i) && (i <? m) && (0 <=? i + l) && (i + l <? n) then g i else 0).
  assert (H0 : forall i, i < 0 \/ m <= i \/ i + l < 0 \/ n <= i + l -> h i = 0).
  { intros i H. unfold h. destruct (0 <=? i) eqn:?, (i <? m) eqn:?, (0 <=? i + l) eqn:?, (i + l <? n) eqn:?; cbn [andb]; try reflexivity; lia. }
  transitivity (sum_n (Z.to_nat n) (fun j => h (j - l))).
  { apply sum_n_ext. intros j _. unfold h.
    destruct (0 <=? j - l) eqn:?, (j - l <? m) eqn:?, (0 <=? j - l + l) eqn:?, (j - l + l <? n) eqn:?; cbn [andb]; try reflexivity; apply G0; lia. }
  transitivity (sum_n (Z.to_nat m) h).
  2:{ apply sum_n_ext. intros i Hi. unfold h.
      destruct (0 <=? i) eqn:?, (i <? m) eqn:?, (0 <=? i + l) eqn:?, (i + l <? n) eqn:?; cbn [andb]; try reflexivity; symmetry; apply G0; lia. }
  (* now a pure statement about h, supported in [0,m) /\ [-l, n-l) *)
  clear W G0. clearbody h. clear g Hx Hy x y.
  (* extend both sums to the common window [-B, B) *)
  set (B := Z.abs l + n + m + 1).
  assert (E1 : sum_n (Z.to_nat n) (fun j => h (j - l)) = sum_n (Z.to_nat (2 * B)) (fun j => h (j - B))).
  { (* [0,n) shifted by -l sits inside [-B,B): skip l + ... *)
    rewrite (sum_n_split (Z.to_nat (2 * B)) (Z.to_nat (B - l))) by lia.
    rewrite (sum_n_0 (Z.to_nat (B - l))) by (intros i Hi; apply H0; lia).
    rewrite Z.add_0_l.
    replace (Z.to_nat (2 * B) - Z.to_nat (B - l))%nat with (Z.to_nat n + Z.to_nat (B + l - n))%nat by lia.
    rewrite sum_n_app.
    rewrite (sum_n_0 (Z.to_nat (B + l - n))) by (intros i Hi; apply H0; lia).
    rewrite Z.add_0_r. apply sum_n_ext. intros j Hj. f_equal. lia. }
  assert (E2 : sum_n (Z.to_nat m) h = sum_n (Z.to_nat (2 * B)) (fun j => h (j - B))).
  { rewrite (sum_n_split (Z.to_nat (2 * B)) (Z.to_nat B)) by lia.
    rewrite (sum_n_0 (Z.to_nat B)) by (intros i Hi; apply H0; lia).
    rewrite Z.add_0_l.
    replace (Z.to_nat (2 * B) - Z.to_nat B)%nat with (Z.to_nat m + Z.to_nat (B - m))%nat by lia.
    rewrite sum_n_app.
    rewrite (sum_n_0 (Z.to_nat (B - m))) by (intros i Hi; apply H0; lia).
    rewrite Z.add_0_r. apply sum_n_ext. intros j Hj. f_equal. lia. }
  rewrite E1, E2. reflexivity.
Qed.

(** * the generated bookkeeping (Gen/FftOps.v) under the assumed FFT laws *)
Section Laws.
  Variable F : fft_ops.
  Hypothesis laws : fft_laws F.

  Lemma fftconvolve_spec a b : 1 <= len a -> 1 <= len b -> fftconvolve_run F a b = lconv_list a b.
  Proof. intros Ha Hb. destruct laws as (H1 & _ & H3 & _).
    unfold fftconvolve_run. cbv zeta.
    destruct ((len a =? 0) || (len b =? 0)) eqn:E; [lia|].
    assert (Hg : len a + len b - 1 <= fft_good_size F (len a + len b - 1)) by (apply H1; lia).
    rewrite H3 by lia. apply lconv_from_cconv; assumption. Qed.

  Lemma fftconvolve_len a b : 1 <= len a -> 1 <= len b -> len (fftconvolve_run F a b) = len a + len b - 1.
  Proof. intros Ha Hb. rewrite fftconvolve_spec by assumption. unfold lconv_list. apply to_list_len. lia. Qed.

  Lemma fftconvolve_empty a b : len a = 0 \/ len b = 0 -> fftconvolve_run F a b = [].
  Proof. intro H. unfold fftconvolve_run. cbv zeta.
    destruct ((len a =? 0) || (len b =? 0)) eqn:E; [reflexivity|lia]. Qed.

  (** entry k of correlate is the correlation at lag k - (m - 1) *)
  Lemma correlate_lags x y : 1 <= len x -> 1 <= len y -> correlate_run F x y = xcorr_list x y.
  Proof. intros Hx Hy. unfold correlate_run. cbv zeta.
    rewrite fftconvolve_spec by (rewrite ?len_rev; assumption).
    unfold lconv_list, xcorr_list. rewrite len_rev. apply to_list_ext. intros k Hk.
    unfold lconv, xcorr. apply sum_n_ext. intros j Hj. f_equal. rewrite of_list_rev. f_equal. lia. Qed.

  Lemma correlate_lags_shift x y k : 1 <= len x -> 1 <= len y -> 0 <= k < len x + len y - 1 ->
    of_list (correlate_run F x y) k = xcorr_shift (len y) (of_list x) (of_list y) (k - (len y - 1)).
  Proof. intros Hx Hy Hk. rewrite correlate_lags by assumption. unfold xcorr_list. rewrite of_list_to_list.
    destruct (0 <=? k) eqn:?, (k <? len x + len y - 1) eqn:?; cbn [andb]; try lia.
    apply xcorr_shift_eq; try lia; intros; apply of_list_outside; lia. Qed.

  (** TimeSeries.rfft transforms at the good size of the data length and records that size in the header *)
  Lemma ts_rfft_spec x : ts_rfft_run F x = (fft_rfft F x (fft_good_size F (len x)), fft_good_size F (len x)).
  Proof. reflexivity. Qed.

  (** FourierSeries.ifft is, textually, one of the two forms of Model/C12_conv.v *)
  Lemma fs_ifft_form : (forall s h, fs_ifft_run F s h = ifft_default_len F s h) \/ (forall s h, fs_ifft_run F s h = ifft_given_len F s h).
  Proof. first [ left; intros; reflexivity | right; intros; reflexivity ]. Qed.

  (** inverse with the recorded length: the padded input for every size *)
  Lemma ifft_given_len_spec x : 1 <= len x ->
    let '(s, h) := ts_rfft_run F x in ifft_given_len F s h = pad x (fft_good_size F (len x)).
  Proof. intro Hx. destruct laws as (H1 & H2 & _). rewrite ts_rfft_spec. unfold ifft_given_len.
    apply H2. specialize (H1 (len x) Hx). lia. Qed.

  (** inverse without a length: right for even transform sizes ... *)
  Lemma ifft_default_len_even x : 1 <= len x -> Z.even (fft_good_size F (len x)) = true ->
    let '(s, h) := ts_rfft_run F x in ifft_default_len F s h = pad x (fft_good_size F (len x)).
  Proof. intros Hx He. destruct laws as (H1 & H2 & _ & H4 & _). rewrite ts_rfft_spec. unfold ifft_default_len.
    specialize (H1 (len x) Hx). destruct (H4 x x (fft_good_size F (len x)) ltac:(lia)) as [-> _].
    unfold np_irfft_default_len. rewrite Z.even_spec in He. destruct He as [k Hk].
    replace (2 * (fft_good_size F (len x) / 2 + 1 - 1)) with (fft_good_size F (len x)) by lia.
    apply H2. lia. Qed.

  (** ... and of the wrong length (N - 1) for every odd transform size *)
  Lemma ifft_default_len_odd x : 1 <= len x -> Z.odd (fft_good_size F (len x)) = true ->
    let '(s, h) := ts_rfft_run F x in
    len (ifft_default_len F s h) = fft_good_size F (len x) - 1 /\ ts_check (ifft_default_len F s h) h = false /\
    ifft_default_len F s h <> pad x (fft_good_size F (len x)).
  Proof. intros Hx Ho. destruct laws as (H1 & H2 & _ & H4 & H5). rewrite ts_rfft_spec.
    specialize (H1 (len x) Hx). set (N := fft_good_size F (len x)) in *.
    assert (L : len (ifft_default_len F (fft_rfft F x N) N) = N - 1).
    { unfold ifft_default_len. destruct (H4 x x N ltac:(lia)) as [-> _]. unfold np_irfft_default_len.
      rewrite Z.odd_spec in Ho. destruct Ho as [k Hk]. rewrite H5 by lia. lia. }
    split; [exact L|]. split.
    - unfold ts_check. rewrite L. lia.
    - intro E. rewrite E in L. rewrite pad_len in L by lia. lia. Qed.

  (** the round trip through the CURRENT source, for the sizes on which both forms agree *)
  Lemma rfft_ifft_roundtrip_even x : 1 <= len x -> Z.even (fft_good_size F (len x)) = true ->
    let '(s, h) := ts_rfft_run F x in fs_ifft_run F s h = pad x (fft_good_size F (len x)) /\ ts_check (fs_ifft_run F s h) h = true.
  Proof. intros Hx He. pose proof (ifft_default_len_even x Hx He) as A. pose proof (ifft_given_len_spec x Hx) as B.
    destruct laws as (H1 & _). specialize (H1 (len x) Hx).
    rewrite ts_rfft_spec in *. destruct fs_ifft_form as [E|E]; rewrite E; [rewrite A|rewrite B];
      (split; [reflexivity|]); unfold ts_check; rewrite pad_len by lia; lia. Qed.

  (** the round trip for every size, provided the source passes the recorded length to the inverse *)
  Lemma rfft_ifft_roundtrip_given x : 1 <= len x -> (forall s h, fs_ifft_run F s h = ifft_given_len F s h) ->
    let '(s, h) := ts_rfft_run F x in fs_ifft_run F s h = pad x (fft_good_size F (len x)) /\ ts_check (fs_ifft_run F s h) h = true.
  Proof. intros Hx E. pose proof (ifft_given_len_spec x Hx) as B. destruct laws as (H1 & _). specialize (H1 (len x) Hx).
    rewrite ts_rfft_spec in *. rewrite E, B. split; [reflexivity|]. unfold ts_check. rewrite pad_len by lia. lia. Qed.
End Laws.

(** form_mspec: one modulus per bin *)
Lemma form_mspec_spec sqrtf fspec : length (form_mspec_run sqrtf fspec) = length fspec /\
  forall i d, (i < length fspec)%nat ->
    nth i (form_mspec_run sqrtf fspec) (sqrtf (fst d * fst d + snd d * snd d)) =
    sqrtf (fst (nth i fspec d) * fst (nth i fspec d) + snd (nth i fspec d) * snd (nth i fspec d)).
Proof. unfold form_mspec_run. split; [apply map_length|]. intros i d Hi.
  rewrite (map_nth (fun z => sqrtf (fst z * fst z + snd z * snd z))). reflexivity. Qed.

(** * the time-domain instance satisfies the laws (non-vacuity; also the model side of the correspondence) *)
Lemma td_laws gs : (forall n, 1 <= n -> n <= gs n) -> fft_laws (td_fft gs).
Proof. intro Hgs. unfold fft_laws. cbn [td_fft fft_good_size fft_rfft fft_irfft fft_smul fft_slen fft_spec].
  repeat split.
  - exact Hgs.
  - intros a N HN. unfold td_irfft, td_rfft. apply pad_pad.
  - intros a b N HN. unfold td_irfft, td_smul, td_rfft. rewrite pad_len by lia.
    unfold cconv_list. apply pad_to_list.
  - unfold td_slen, td_rfft. rewrite pad_len by lia. reflexivity.
  - unfold td_slen, td_smul, td_rfft. rewrite pad_len by lia. unfold cconv_list. rewrite to_list_len by lia. reflexivity.
  - intros s n Hn. unfold td_irfft. apply pad_len. exact Hn.
Qed.
