(** C15 -- lane theorems for the generated definitions that are the same on the pinned and the repaired tree:
    utils.apply_along_axes (Qn, Gapper, diffcov), the reductions NumPy / astropy perform themselves (median, mean,
    std, biweight), and the part of _scale_mad before its last line. *)
From Coq Require Import ZArith List Bool QArith Qcanon Qcabs Lia.
Require Import SPP.Base.Rt SPP.Base.Iter SPP.Model.C15_np SPP.Gen.Stats.
Require Import SPP.Proofs.C15_lib SPP.Proofs.C15_order SPP.Proofs.C15_rel SPP.Proofs.C15_view SPP.Proofs.C15_lanes.
Import ListNotations.
Open Scope Z_scope.

(** the axis number as NumPy normalises it *)
Definition axis_of (sh : list Z) (k0 : Z) : nat := Z.to_nat (k0 mod Z.of_nat (length sh)).

Lemma in_range_remove_nth sh : forall k I, in_range sh I -> in_range (remove_nth k sh) (remove_nth k I).
Proof. induction sh as [|d sh IH]; intros k [|i I] H; cbn in H; try tauto; destruct k; cbn; try tauto.
  split; [tauto|]. apply IH. tauto. Qed.
Lemma bidx_in_range s I : in_range s I -> bidx s I = I.
Proof. intro H. rewrite bidx_eqlen by now apply in_range_length. now apply clamp_in_range. Qed.

Section Lanes.
  Variables (np_sqrt : Qc -> Qc) (np_pi : Qc) (np_std1 biweight1 : vec -> Qc) (np_cov01 : vec -> vec -> Qc) (memo : nd -> nd).
  Hypothesis Hm : memo_ok memo.

  Section Along.
    Variables (sh : list Z) (k0 : Z) (I0 : list Z) (A : nd).
    Hypothesis Hsh : sh <> nil.
    Hypothesis HA : shape A = sh.
    Hypothesis HI : in_range sh I0.
    Let k := axis_of sh k0.

    (** utils.apply_along_axes(func, data, axis=k0): shape of the input without axis k0; each element is func of a lane *)
    Lemma apply_along_axes_lane f :
      shape (apply_along_axes memo f A (Some k0)) = remove_nth k sh /\
      get (apply_along_axes memo f A (Some k0)) (remove_nth k I0) = f (lane A k I0).
    Proof. pose proof (k_lt sh k0 I0 Hsh HI) as Hk. fold (axis_of sh k0) in Hk. fold k in Hk.
      pose proof (in_range_length _ _ HI) as LI.
      unfold apply_along_axes, np_apply_along_axis0, np_reshape_lead, reduce_axis. cbn [shape get].
      rewrite (memo_shape memo Hm). unfold ndim. rewrite HA. fold (axis_of sh k0). fold k.
      cbn [shape np_moveaxis_front remove_nth]. rewrite HA. split; [reflexivity|].
      unfold lane. rewrite (memo_shape memo Hm). cbn [shape np_moveaxis_front nth]. rewrite HA. f_equal.
      apply map_ext. intro j. rewrite (memo_get memo Hm). cbn [get np_moveaxis_front insert_nth set_nth hd tl].
      f_equal. apply insert_remove_nth_val. lia. Qed.

    (** np.median / np.mean / np.std / biweight_scale (data, axis=k0, keepdims=False) *)
    Lemma reduce_lane f :
      shape (np_reduce f A (Some k0) false) = remove_nth k sh /\
      get (np_reduce f A (Some k0) false) (remove_nth k I0) = f (lane A k I0).
    Proof. exact (reduce_nokd_lane sh k0 I0 Hsh HI f A HA). Qed.

    (** ... with keepdims=True: the shape of the input with axis k0 set to 1, and it broadcasts *)
    Lemma reduce_kd_lane f j : 0 <= j < nth k sh 0 ->
      shape (np_reduce f A (Some k0) true) = set_nth k 1 sh /\ bc sh (shape (np_reduce f A (Some k0) true)) /\
      rd (np_reduce f A (Some k0) true) (set_nth k j I0) = f (lane A k I0).
    Proof. intro Hj. destruct (vo_red _ (lane_view_ok sh k0 I0 Hsh HI) f A HA) as [B R]. cbn [v_sh v_axis lane_view] in *.
      repeat split; [|exact B|].
      - unfold np_reduce, reduce_axis, norm_axis, ndim, k, axis_of. cbn [shape]. now rewrite HA.
      - unfold k, axis_of in *. cbn [v_n v_fam lane_view] in R. rewrite (R j Hj). unfold famlist, lane. cbn [v_fam v_n lane_view]. now rewrite HA. Qed.
  End Along.

  (** axis=None on the N-d array = the 1-D function on the flattened array; and the 1-D array itself *)
  Lemma apply_along_axes_flat f A : apply_along_axes memo f A None = scalar (f (ravel A)).
  Proof. reflexivity. Qed.
  Lemma apply_along_axes_vec f l : get (apply_along_axes memo f (of_vec l) None) nil = f l.
  Proof. unfold apply_along_axes. cbn [get scalar]. now rewrite ravel_of_vec. Qed.
  Lemma reduce_flat f A kd : get (np_reduce f A None kd) nil = f (ravel A).
  Proof. reflexivity. Qed.
  Lemma reduce_vec f l : get (np_reduce f (of_vec l) None false) nil = f l.
  Proof. unfold np_reduce, reduce_all. cbn [get]. now rewrite ravel_of_vec. Qed.

  (** * Qn, Gapper, diffcov: computing along an axis is the 1-D estimator on each lane *)
  Section Methods.
    Variables (sh : list Z) (k0 : Z) (I0 : list Z) (A : nd).
    Hypothesis Hsh : sh <> nil.
    Hypothesis HA : shape A = sh.
    Hypothesis HI : in_range sh I0.
    Let k := axis_of sh k0.
    Let L := lane A k I0.

    Theorem scale_qn_lane :
      shape (scale_qn memo A (Some k0)) = remove_nth k sh /\
      get (scale_qn memo A (Some k0)) (remove_nth k I0) = get (scale_qn memo (of_vec L) None) nil.
    Proof. unfold scale_qn. rewrite apply_along_axes_vec. now apply apply_along_axes_lane. Qed.
    Theorem scale_gapper_lane :
      shape (scale_gapper np_sqrt np_pi memo A (Some k0)) = remove_nth k sh /\
      get (scale_gapper np_sqrt np_pi memo A (Some k0)) (remove_nth k I0) = get (scale_gapper np_sqrt np_pi memo (of_vec L) None) nil.
    Proof. unfold scale_gapper. rewrite apply_along_axes_vec. now apply apply_along_axes_lane. Qed.
    Theorem scale_diffcov_lane :
      shape (scale_diffcov np_sqrt np_cov01 memo A (Some k0)) = remove_nth k sh /\
      get (scale_diffcov np_sqrt np_cov01 memo A (Some k0)) (remove_nth k I0) = get (scale_diffcov np_sqrt np_cov01 memo (of_vec L) None) nil.
    Proof. unfold scale_diffcov. rewrite apply_along_axes_vec. now apply apply_along_axes_lane. Qed.
    Theorem scale_biweight_lane :
      shape (scale_biweight biweight1 A (Some k0)) = remove_nth k sh /\
      get (scale_biweight biweight1 A (Some k0)) (remove_nth k I0) = get (scale_biweight biweight1 (of_vec L) None) nil.
    Proof. unfold scale_biweight. rewrite reduce_vec. now apply reduce_lane. Qed.
  End Methods.

  Theorem scale_qn_flat A : scale_qn memo A None = scalar (scale_qn_1d (ravel A)).
  Proof. reflexivity. Qed.
  Theorem scale_gapper_flat A : scale_gapper np_sqrt np_pi memo A None = scalar (scale_gapper_1d np_sqrt np_pi (ravel A)).
  Proof. reflexivity. Qed.
  Theorem scale_diffcov_flat A : scale_diffcov np_sqrt np_cov01 memo A None = scalar (scale_diffcov_1d np_sqrt np_cov01 (ravel A)).
  Proof. reflexivity. Qed.
End Lanes.
