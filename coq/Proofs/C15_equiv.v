(** C15 -- |a|-equivariance of the scale estimators, over exact rationals, for the definitions regenerated from
    sigpyproc/core/stats.py (Gen/Stats.v).  Part 1: the estimators whose text is the same on the pinned and on
    the repaired tree (mad up to its last line, qn, gapper, and the external ones under their stated assumption). *)
From Coq Require Import ZArith List Bool QArith Qcanon Qcabs Lia.
Require Import SPP.Base.Rt SPP.Base.Iter SPP.Model.C15_np SPP.Gen.Stats.
Require Import SPP.Proofs.C15_lib SPP.Proofs.C15_order SPP.Proofs.C15_rel.
Import ListNotations.
Open Scope Z_scope.

Section Equiv.
  Variables (np_sqrt : Qc -> Qc) (np_pi : Qc) (memo : nd -> nd).
  Hypothesis Hm : memo_ok memo.
  Variables a b : Qc.
  Hypothesis Ha : a <> Q2Qc 0.
  Let c := Qcabs a.
  Let Hc : (Q2Qc 0 < c)%Qc := Qcabs_pos_of_neq0 a Ha.
  Let Hc0 : c <> Q2Qc 0.
  Proof. intro E. rewrite E in Hc. now apply (Qclt_not_le _ _ Hc), Qcle_refl. Qed.

  (** elementwise facts *)
  Lemma sub_affine x y : (affine a b x - affine a b y = scale a (x - y))%Qc.
  Proof. unfold affine, scale. ring. Qed.
  Lemma abs_scale x : Qcabs (scale a x) = scale c (Qcabs x).
  Proof. unfold scale, c. apply Qcabs_Qcmult. Qed.
  Lemma div_scale k x y : (scale k x / y = scale k (x / y))%Qc.
  Proof. unfold scale, Qcdiv. ring. Qed.
  Lemma isclose_scale x : qbool (Qceqb (scale c x) (qz 0)) = qbool (Qceqb x (qz 0)).
  Proof. now rewrite scale_eq0. Qed.
  Lemma where_scale (m x y : Qc) : (if qtrue m then scale c x else scale c y) = scale c (if qtrue m then x else y).
  Proof. now destruct (qtrue m). Qed.

  (** |data' - loc'| = |a| |data - loc| *)
  Lemma rel_absdev A A' L L' : rel_of (affine a b) A A' -> rel_of (affine a b) L L' ->
    rel_of (scale c) (np_abs (np_sub A L)) (np_abs (np_sub A' L')).
  Proof. intros HA HL. apply (rel_map1 Qcabs (scale a)); [apply abs_scale|].
    eapply rel_map2; [apply sub_affine|exact HA|exact HL]. Qed.

  Lemma rel_div_const k X X' n : rel_of (scale k) X X' -> rel_of (scale k) (np_div X (scalar n)) (np_div X' (scalar n)).
  Proof. intro H. eapply rel_map2; [intros; apply div_scale|exact H|apply rel_scalar_id]. Qed.

  (** stats._scale_mad *)
  Theorem scale_mad_equivariant A A' axis : rel_of (affine a b) A A' -> lanes_nonempty A axis ->
    rel_of (scale c) (scale_mad np_sqrt np_pi memo A axis) (scale_mad np_sqrt np_pi memo A' axis).
  Proof. intros HA Hne. unfold scale_mad.
    set (norm := qdec _ _). set (naad := np_sqrt _).
    assert (HL : rel_of (affine a b) (memo (np_reduce median1 A axis true)) (memo (np_reduce median1 A' axis true))).
    { apply rel_memo; [exact Hm|]. apply (rel_reduce_ne median1 (affine a b) (affine a b)); [intros; now apply median1_affine|exact Hne|exact HA]. }
    set (loc := memo (np_reduce median1 A axis true)) in *. set (loc' := memo (np_reduce median1 A' axis true)) in *.
    assert (HD := rel_absdev _ _ _ _ HA HL).
    assert (HM : rel_of (scale c) (memo (np_div (np_reduce median1 (np_abs (np_sub A loc)) axis true) (scalar norm)))
                                 (memo (np_div (np_reduce median1 (np_abs (np_sub A' loc')) axis true) (scalar norm)))).
    { apply rel_memo; [exact Hm|]. apply rel_div_const. apply (rel_reduce median1 (scale c) (scale c)); [intro; now apply median1_scale|exact HD]. }
    set (mad := memo (np_div (np_reduce median1 _ axis true) (scalar norm))) in *.
    set (mad' := memo (np_div (np_reduce median1 (np_abs (np_sub A' loc')) axis true) (scalar norm))) in *.
    assert (HZ : rel_of (fun x => x) (memo (np_isclose0 mad)) (memo (np_isclose0 mad'))).
    { apply rel_memo; [exact Hm|]. eapply rel_map1; [|exact HM]. intro; apply isclose_scale. }
    rewrite (rel_any _ _ _ (fun x => eq_refl) HZ).
    assert (Hfin : rel_of (scale c)
       (if np_any (memo (np_isclose0 mad)) then
          memo (np_where (memo (np_isclose0 mad)) (memo (np_div (np_reduce mean1 (np_abs (np_sub A loc)) axis true) (scalar naad))) mad) else mad)
       (if np_any (memo (np_isclose0 mad)) then
          memo (np_where (memo (np_isclose0 mad')) (memo (np_div (np_reduce mean1 (np_abs (np_sub A' loc')) axis true) (scalar naad))) mad') else mad')).
    { destruct (np_any (memo (np_isclose0 mad))); [|exact HM]. apply rel_memo; [exact Hm|].
      eapply rel_map3; [intros; apply where_scale|exact HZ| |exact HM].
      apply rel_memo; [exact Hm|]. apply rel_div_const. apply (rel_reduce mean1 (scale c) (scale c)); [intro; apply mean1_scale|exact HD]. }
    first [apply rel_squeeze | apply rel_squeeze_axis]; exact Hfin. Qed.

  (** ** stats._scale_qn_1d *)
  Lemma outer_sub_affine l : outer_sub (map (affine a b) l) = map (map (scale a)) (outer_sub l).
  Proof. unfold outer_sub. rewrite !map_map. apply map_ext. intro x. rewrite !map_map. apply map_ext. intro y. apply sub_affine. Qed.
  Lemma mabs_scale m : mabs (map (map (scale a)) m) = map (map (scale c)) (mabs m).
  Proof. unfold mabs. rewrite !map_map. apply map_ext. intro r. rewrite !map_map. apply map_ext. intro. apply abs_scale. Qed.
  Lemma triu1_map (f : Qc -> Qc) m : triu1 (map (map f) m) = map f (triu1 m).
  Proof. unfold triu1. rewrite map_length. generalize 0%nat as s. induction m as [|r m IH]; intro s; [reflexivity|].
    cbn [length seq map combine flat_map fst snd]. rewrite map_app, IH. f_equal. apply skipn_map. Qed.

  Theorem scale_qn_1d_equivariant l : scale_qn_1d (map (affine a b) l) = scale c (scale_qn_1d l).
  Proof. unfold scale_qn_1d. rewrite vlen_map, outer_sub_affine, mabs_scale, triu1_map, kth_scale by exact Hc.
    unfold scale, Qcdiv. ring. Qed.

  (** ** stats._scale_gapper_1d *)
  Lemma combine_map_same {X} (f g : X -> Qc) l : combine (map f l) (map g l) = map (fun x => (f x, g x)) l.
  Proof. induction l as [|x l IH]; cbn; [reflexivity|now rewrite IH]. Qed.
  Lemma gapper_weights n : vmul (arange_up 1 n) (arange_down (n - 1) 0) = map (fun i => (qz (1 + i) * qz (n - 1 - i))%Qc) (zrange (n - 1)).
  Proof. unfold vmul, arange_up, arange_down. replace (n - 1 - 0) with (n - 1) by lia. now rewrite combine_map_same, map_map. Qed.
  Lemma gapper_weights_rev n : rev (vmul (arange_up 1 n) (arange_down (n - 1) 0)) = vmul (arange_up 1 n) (arange_down (n - 1) 0).
  Proof. rewrite gapper_weights, <- map_rev, rev_zrange, map_map. apply map_ext. intro i.
    replace (1 + (n - 1 - 1 - i)) with (n - 1 - i) by lia. replace (n - 1 - (n - 1 - 1 - i)) with (1 + i) by lia. ring. Qed.
  Lemma diff1_length l : length (diff1 l) = (length l - 1)%nat.
  Proof. induction l as [|x [|y l] IH]; try reflexivity. rewrite diff1_cons. cbn [length] in *. rewrite IH. lia. Qed.
  Lemma gapper_weights_length n : length (vmul (arange_up 1 n) (arange_down (n - 1) 0)) = Z.to_nat (n - 1).
  Proof. rewrite gapper_weights, map_length. apply zrange_length. Qed.

  Theorem scale_gapper_1d_equivariant l : scale_gapper_1d np_sqrt np_pi (map (affine a b) l) = scale c (scale_gapper_1d np_sqrt np_pi l).
  Proof. unfold scale_gapper_1d. rewrite vlen_map. set (w := vmul _ _).
    assert (E : dot1 w (diff1 (sort (map (affine a b) l))) = scale c (dot1 w (diff1 (sort l)))).
    { destruct (Qclt_le_dec (Q2Qc 0) a) as [Hp|Hn].
      - rewrite sort_map by now apply affine_increasing. rewrite diff1_map_affine, dot1_scale.
        unfold c. now rewrite Qcabs_pos by now apply Qclt_le_weak.
      - assert (Hneg : (a < Q2Qc 0)%Qc) by (destruct (Qcle_lt_or_eq _ _ Hn) as [L|E]; [exact L|congruence]).
        rewrite sort_affine_neg by exact Hneg. rewrite diff1_rev, diff1_map_affine.
        unfold w at 1. rewrite <- gapper_weights_rev. fold w.
        rewrite dot1_rev.
        + rewrite map_map. rewrite (map_ext _ (scale c)); [apply dot1_scale|].
          intro x. unfold scale, c. rewrite Qcabs_neg by exact Hn. ring.
        + unfold w. rewrite gapper_weights_length, !map_length, diff1_length, sort_length. unfold vlen. lia. }
    rewrite E. unfold scale, Qcdiv. ring. Qed.

  (** ** utils.apply_along_axes: a 1-D function that turns [phi] into [psi] does so along every axis *)
  Lemma rel_apply_along_axes f phi psi A A' axis : (forall l, f (map phi l) = psi (f l)) -> rel_of phi A A' ->
    rel_of psi (apply_along_axes memo f A axis) (apply_along_axes memo f A' axis).
  Proof. intros Hf H. unfold apply_along_axes. destruct axis as [ax|].
    - unfold np_apply_along_axis0, np_reshape_lead. rewrite (rel_ndim _ _ _ H).
      apply (rel_reduce_axis f phi psi); [exact Hf|]. apply rel_memo; [exact Hm|]. now apply rel_moveaxis_front.
    - rewrite (rel_ravel _ _ _ H), Hf. apply rel_scalar. Qed.

  Theorem scale_qn_equivariant A A' axis : rel_of (affine a b) A A' ->
    rel_of (scale c) (scale_qn memo A axis) (scale_qn memo A' axis).
  Proof. intro H. unfold scale_qn. apply (rel_apply_along_axes _ (affine a b)); [apply scale_qn_1d_equivariant|exact H]. Qed.

  Theorem scale_gapper_equivariant A A' axis : rel_of (affine a b) A A' ->
    rel_of (scale c) (scale_gapper np_sqrt np_pi memo A axis) (scale_gapper np_sqrt np_pi memo A' axis).
  Proof. intro H. unfold scale_gapper. apply (rel_apply_along_axes _ (affine a b)); [apply scale_gapper_1d_equivariant|exact H]. Qed.

  (** ** np.std through its square: the population variance *)
  Theorem var_equivariant A A' axis kd : rel_of (affine a b) A A' -> lanes_nonempty A axis ->
    rel_of (scale (a * a)) (np_reduce var1 A axis kd) (np_reduce var1 A' axis kd).
  Proof. intros H Hne. apply (rel_reduce_ne var1 (affine a b)); [|exact Hne|exact H]. intros l Hl. now apply var1_affine. Qed.

  (** ** estimate_loc: both location estimators commute with the affine map *)
  Theorem loc_equivariant f A A' axis kd : f = median1 \/ f = mean1 -> rel_of (affine a b) A A' -> lanes_nonempty A axis ->
    rel_of (affine a b) (np_reduce f A axis kd) (np_reduce f A' axis kd).
  Proof. intros Hf H Hne. apply (rel_reduce_ne f (affine a b)); [|exact Hne|exact H]. intros l Hl.
    destruct Hf as [->| ->]; [now apply median1_affine|now apply mean1_affine]. Qed.

  (** ** _scale_doublemad: common part *)
  Lemma dm_side_rel axis C C' X X' : rel_of (fun x => x) C C' -> rel_of (scale c) X X' ->
    rel_of (scale c) (dm_side np_sqrt np_pi memo axis C X) (dm_side np_sqrt np_pi memo axis C' X').
  Proof. intros HC HX. unfold dm_side. set (norm := qdec _ _). set (naad := np_sqrt _).
    assert (HD : orel (scale c) (mk_ndo (memo (omask (np_where_nan C X))) (memo (oval (np_where_nan C X))))
                                (mk_ndo (memo (omask (np_where_nan C' X'))) (memo (oval (np_where_nan C' X'))))).
    { destruct (rel_where_nan (scale c) C C' X X' HC HX) as [H1 H2]. split; cbn [omask oval]; now apply rel_memo. }
    set (d := mk_ndo (memo (omask (np_where_nan C X))) _) in *. set (d' := mk_ndo (memo (omask (np_where_nan C' X'))) _) in *.
    assert (HM : rel_of (scale c) (memo (np_div (np_oreduce nanmedian1 d axis true) (scalar norm)))
                                 (memo (np_div (np_oreduce nanmedian1 d' axis true) (scalar norm)))).
    { apply rel_memo; [exact Hm|]. apply rel_div_const. apply (rel_oreduce nanmedian1 (scale c) (scale c)); [intro; now apply nanmedian1_scale|exact HD]. }
    apply rel_memo; [exact Hm|].
    eapply (rel_map3 _ (fun x => x) (scale c) (scale c) (scale c)); [intros; apply where_scale| | |exact HM].
    - eapply rel_map1; [|exact HM]. intro; now apply isclose_scale.
    - apply rel_div_const. apply (rel_oreduce nanmean1 (scale c) (scale c)); [intro; apply nanmean1_scale|exact HD]. Qed.

  Section DM.
    Variables (A A' : nd) (axis : option Z).
    Hypothesis H : rel_of (affine a b) A A'.
    Hypothesis Hne : lanes_nonempty A axis.
    Let loc := memo (np_reduce median1 A axis true).
    Let loc' := memo (np_reduce median1 A' axis true).
    Lemma dm_loc : rel_of (affine a b) loc loc'.
    Proof. apply rel_memo; [exact Hm|]. apply (rel_reduce_ne median1 (affine a b) (affine a b)); [intros; now apply median1_affine|exact Hne|exact H]. Qed.
    Lemma dm_absdiff : rel_of (scale c) (np_abs (memo (np_sub A loc))) (np_abs (memo (np_sub A' loc'))).
    Proof. apply (rel_map1 Qcabs (scale a)); [apply abs_scale|]. apply rel_memo; [exact Hm|].
      eapply rel_map2; [apply sub_affine|exact H|exact dm_loc]. Qed.
    (** the comparison masks: unchanged for a > 0, exchanged for a < 0 *)
    Lemma dm_mask_pos (op : Qc -> Qc -> bool) : (Q2Qc 0 < a)%Qc ->
      (forall x y, op (affine a b x) (affine a b y) = op x y) ->
      rel_of (fun x => x) (nd_map2 (fun x y => qbool (op x y)) A loc) (nd_map2 (fun x y => qbool (op x y)) A' loc').
    Proof. intros Hp Hop. eapply (rel_map2 _ (affine a b) (affine a b) (fun x => x)); [|exact H|exact dm_loc].
      intros x y. cbv beta. now rewrite Hop. Qed.
    Lemma dm_mask_neg (op op' : Qc -> Qc -> bool) :
      (forall x y, op' (affine a b x) (affine a b y) = op x y) ->
      rel_of (fun x => x) (nd_map2 (fun x y => qbool (op x y)) A loc) (nd_map2 (fun x y => qbool (op' x y)) A' loc').
    Proof. intros Hop. eapply (rel_map2_gen _ _ (affine a b) (affine a b) (fun x => x)); [|exact H|exact dm_loc].
      intros x y. cbv beta. now rewrite Hop. Qed.
  End DM.
End Equiv.
