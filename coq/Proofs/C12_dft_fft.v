(** C12: the exact DFT (over any commutative ring that embeds Z and has principal n-th roots of unity with n invertible, for every n
    -- the complex numbers) is an instance of the FFT interface of Model/C12_np.v and satisfies the five laws of Model/C12_conv.v.
    Hence every theorem of C12 proved "under the assumed FFT laws" holds for the implementation's bookkeeping composed with the
    mathematical transform: what remains assumed of the external library is that it computes the DFT and its inverse (and float32
    rounding). *)
From Coq Require Import ZArith Arith List Lia Ring_theory Ring.
Require Import SPP.Base.Rt SPP.Base.Iter SPP.Model.C12_np SPP.Model.C12_conv SPP.Proofs.C12_conv SPP.Proofs.C12_dft.
Import ListNotations.

Section Instance.
  Variable R : Type.
  Variables (r0 r1 : R) (radd rmul rsub : R -> R -> R) (ropp : R -> R).
  Hypothesis Rth : ring_theory r0 r1 radd rmul rsub ropp (@eq R).
  Local Notation "x [+] y" := (radd x y) (at level 50, left associativity).
  Local Notation "x [*] y" := (rmul x y) (at level 40, left associativity).
  Local Notation rsum := (rsum R r0 radd).
  Local Notation rpow := (rpow R r1 rmul).
  Local Notation rnat := (rnat R r0 r1 radd).

  (** Z embeds in R *)
  Variables (inj : Z -> R) (toZ : R -> Z).
  Hypotheses (inj0 : inj 0%Z = r0) (inj_add : forall a b, inj (a + b)%Z = inj a [+] inj b) (inj_mul : forall a b, inj (a * b)%Z = inj a [*] inj b)
             (toZ_inj : forall z, toZ (inj z) = z).

  (** a principal n-th root of unity and an inverse of n, for every n >= 1 *)
  Variables (w ninv : nat -> R).
  Hypotheses (w_pow : forall n, (0 < n)%nat -> rpow (w n) n = r1)
             (ninv_ok : forall n, (0 < n)%nat -> rnat n [*] ninv n = r1)
             (w_orth : forall n d, (0 < d < n)%nat -> rsum n (fun k => rpow (w n) (k * d)) = r0).

  Local Notation dft n := (dft R r0 r1 radd rmul n (w n)).
  Local Notation idft n := (idft R r0 r1 radd rmul n (w n) (ninv n)).
  Local Notation rcconv n := (rcconv R r0 radd rmul n).

  Definition sig (l : list Z) : nat -> R := fun j => inj (of_list l (Z.of_nat j)).
  Definition d_rfft (a : list Z) (N : Z) : list R := map (dft (Z.to_nat N) (sig (pad a N))) (seq 0 (Z.to_nat N)).
  Definition d_smul (s1 s2 : list R) : list R := map (fun k => nth k s1 r0 [*] nth k s2 r0) (seq 0 (length s1)).
  Definition d_irfft (s : list R) (n : Z) : list Z := map (fun j => toZ (idft (Z.to_nat n) (fun k => nth k s r0) j)) (seq 0 (Z.to_nat n)).
  Definition d_slen (s : list R) : Z := (len s / 2 + 1)%Z.
  Definition dft_fft (gs : Z -> Z) : fft_ops :=
    {| fft_spec := list R; fft_good_size := gs; fft_rfft := d_rfft; fft_irfft := d_irfft; fft_smul := d_smul; fft_slen := d_slen |}.

  Lemma nth_map_seq {A} (g : nat -> A) n k d : (k < n)%nat -> nth k (map g (seq 0 n)) d = g k.
  Proof. intro H. rewrite (nth_indep _ d (g 0%nat)) by (rewrite map_length, seq_length; exact H).
    rewrite (map_nth g). rewrite seq_nth by exact H. reflexivity. Qed.

  Lemma inj_sum m (f : Z -> Z) : inj (sum_n m f) = rsum m (fun i => inj (f (Z.of_nat i))).
  Proof. induction m as [|m IH]; cbn [sum_n C12_dft.rsum]; [exact inj0|]. rewrite inj_add, IH. reflexivity. Qed.

  Lemma idft_ext n s s' j : (forall k, (k < n)%nat -> s k = s' k) -> idft n s j = idft n s' j.
  Proof. intro E. unfold C12_dft.idft. f_equal. apply rsum_ext. intros k Hk. rewrite E by exact Hk. reflexivity. Qed.

  Lemma len_rfft a N : len (d_rfft a N) = Z.of_nat (Z.to_nat N).
  Proof. unfold d_rfft, len. rewrite map_length, seq_length. reflexivity. Qed.

  (** H2: the inverse of the forward transform is the input cropped / zero-padded to the transform length *)
  Lemma irfft_rfft a N : (1 <= N)%Z -> d_irfft (d_rfft a N) N = pad a N.
  Proof. intro HN. unfold d_irfft, d_rfft. set (n := Z.to_nat N). assert (Hn : (0 < n)%nat) by (unfold n; lia).
    unfold pad at 2. unfold to_list. fold n. apply map_ext_in. intros j Hj. apply in_seq in Hj.
    rewrite (idft_ext n _ (dft n (sig (pad a N)))) by (intros k Hk; apply nth_map_seq; exact Hk).
    rewrite (idft_dft R r0 r1 radd rmul rsub ropp Rth n Hn (w n) (ninv n) (w_pow n Hn) (ninv_ok n Hn) (w_orth n)) by lia.
    unfold sig. rewrite toZ_inj. unfold pad. rewrite of_list_to_list.
    replace ((0 <=? Z.of_nat j)%Z && (Z.of_nat j <? N)%Z)%bool with true by lia. reflexivity. Qed.

  (** H3: the convolution theorem, in the form the model assumes it *)
  Lemma irfft_smul a b N : (1 <= N)%Z -> d_irfft (d_smul (d_rfft a N) (d_rfft b N)) N = cconv_list N (pad a N) (pad b N).
  Proof. intro HN. unfold d_irfft. set (n := Z.to_nat N). assert (Hn : (0 < n)%nat) by (unfold n; lia).
    unfold cconv_list, to_list. fold n. apply map_ext_in. intros t Ht. apply in_seq in Ht.
    rewrite (idft_ext n _ (fun k => dft n (sig (pad a N)) k [*] dft n (sig (pad b N)) k)).
    2:{ intros k Hk. unfold d_smul. assert (L : length (d_rfft a N) = n) by (unfold d_rfft; rewrite map_length, seq_length; reflexivity).
        rewrite L. rewrite nth_map_seq by exact Hk. unfold d_rfft. fold n. rewrite !nth_map_seq by exact Hk. reflexivity. }
    rewrite (convolution_theorem R r0 r1 radd rmul rsub ropp Rth n Hn (w n) (ninv n) (w_pow n Hn) (ninv_ok n Hn) (w_orth n)) by lia.
    unfold C12_dft.rcconv, cconv. fold n.
    rewrite <- (toZ_inj (sum_n n _)). f_equal. rewrite inj_sum. apply rsum_ext. intros i Hi.
    rewrite inj_mul. unfold sig. f_equal. f_equal. f_equal.
    assert (EN : N = Z.of_nat n) by (unfold n; lia). rewrite EN.
    rewrite Nat2Z.inj_mod, Nat2Z.inj_add, Nat2Z.inj_sub by lia.
    replace (Z.of_nat t + (Z.of_nat n - Z.of_nat i))%Z with (Z.of_nat t - Z.of_nat i + 1 * Z.of_nat n)%Z by lia.
    rewrite Z.mod_add by lia. reflexivity. Qed.

  Theorem dft_laws gs : (forall n, (1 <= n)%Z -> (n <= gs n)%Z) -> fft_laws (dft_fft gs).
  Proof. intro Hgs. unfold fft_laws. cbn [dft_fft fft_good_size fft_rfft fft_irfft fft_smul fft_slen fft_spec].
    repeat split.
    - exact Hgs.
    - intros a N HN. apply irfft_rfft; exact HN.
    - intros a b N HN. apply irfft_smul; exact HN.
    - unfold d_slen. rewrite len_rfft. rewrite Z2Nat.id by lia. reflexivity.
    - unfold d_slen, d_smul, len. rewrite map_length, seq_length. fold (len (d_rfft a N)). rewrite len_rfft. rewrite Z2Nat.id by lia. reflexivity.
    - intros s n Hn. unfold d_irfft, len. rewrite map_length, seq_length. lia.
  Qed.

  (** consequences for the implementation's bookkeeping (Gen/FftOps.v) composed with the exact transform *)
  Corollary dft_fftconvolve gs a b : (forall n, (1 <= n)%Z -> (n <= gs n)%Z) -> (1 <= len a)%Z -> (1 <= len b)%Z ->
    SPP.Gen.FftOps.fftconvolve_run (dft_fft gs) a b = lconv_list a b.
  Proof. intros Hgs Ha Hb. apply fftconvolve_spec; [apply dft_laws; exact Hgs|exact Ha|exact Hb]. Qed.

  Corollary dft_correlate gs x y : (forall n, (1 <= n)%Z -> (n <= gs n)%Z) -> (1 <= len x)%Z -> (1 <= len y)%Z ->
    SPP.Gen.FftOps.correlate_run (dft_fft gs) x y = xcorr_list x y.
  Proof. intros Hgs Hx Hy. apply correlate_lags; [apply dft_laws; exact Hgs|exact Hx|exact Hy]. Qed.
  (** the compiled wrapper nb_rfft (Gen/FftOps.v) at the series' OWN length, run with the exact transform: bin k is the discrete
      Fourier sum of the series itself -- not cropped, not padded to a good size -- for every length (prime, FFT-unfriendly, ...) *)
  Lemma dft_nb_rfft_own_length gs x k : (k < length x)%nat ->
    nth k (SPP.Gen.FftOps.nb_rfft_run (dft_fft gs) x None) r0 = dft (length x) (sig x) k.
  Proof. intro Hk. unfold SPP.Gen.FftOps.nb_rfft_run. cbn [dft_fft fft_rfft]. unfold d_rfft.
    rewrite pad_full. unfold len. rewrite Nat2Z.id. apply nth_map_seq. exact Hk. Qed.

  (** ... and Parseval's identity at that length (bilinear form of Proofs/C12_dft.v: dftc is the conjugate transform) *)
  Lemma dft_nb_rfft_own_length_parseval gs x : (0 < length x)%nat ->
    rsum (length x) (fun k => nth k (SPP.Gen.FftOps.nb_rfft_run (dft_fft gs) x None) r0 [*]
                              dftc R r0 r1 radd rmul (length x) (w (length x)) (sig x) k) =
    rnat (length x) [*] rsum (length x) (fun j => sig x j [*] sig x j).
  Proof. intro Hn. set (n := length x) in *.
    rewrite (rsum_ext R r0 radd n _ (fun k => dft n (sig x) k [*] dftc R r0 r1 radd rmul n (w n) (sig x) k)).
    2:{ intros k Hk. rewrite dft_nb_rfft_own_length by exact Hk. reflexivity. }
    apply (plancherel R r0 r1 radd rmul rsub ropp Rth n Hn (w n) (w_pow n Hn) (w_orth n)). Qed.
End Instance.
