(** C06, the depths and reductions Proofs/C06_reduce.v leaves out: bandpass / read_chan / statistics at the packed depths,
    every reduction on item-wide samples (w bytes per sample, e.g. float32: w = 4), and gulp-irrelevance of every reduction. *)
From Coq Require Import ZArith QArith List Bool Lia ZifyBool.
Require Import SPP.Base.Rt SPP.Base.Iter SPP.Gen.Kernels SPP.Gen.Plan SPP.Gen.BaseSites SPP.Gen.Moments
               SPP.Model.Stream SPP.Model.Plan SPP.Model.Bits SPP.Model.PlanPacked SPP.Model.C06_pipe SPP.Model.C06_pipe_more
               SPP.Model.C10_rt SPP.Model.C10_moments
               SPP.Proofs.C02_stream SPP.Proofs.C01_plan SPP.Proofs.C03_bits SPP.Proofs.C01_packed SPP.Proofs.C06_reduce SPP.Proofs.C06_stats.
Import ListNotations.
Open Scope Z_scope.
Ltac Zify.zify_post_hook ::= Z.to_euclidean_division_equations.

(** the folds of Model/C06_pipe_more.v over the byte-wide plan are the pipelines of Model/C06_pipe.v *)
Lemma collapse_of_plan fs nch gulp start nsamps :
  collapse_of nch gulp (run_plan fs nch gulp start nsamps collapse_skipback) = collapse_pipe fs nch gulp start nsamps.
Proof. reflexivity. Qed.
Lemma bandpass_of_plan fs nch gulp start nsamps :
  bandpass_of nch (run_plan fs nch gulp start nsamps bandpass_skipback) = bandpass_pipe fs nch gulp start nsamps.
Proof. reflexivity. Qed.
Lemma read_chan_of_plan fs nch gulp start nsamps ichan out0 :
  read_chan_of nch gulp ichan out0 (run_plan fs nch gulp start nsamps 0) = read_chan_pipe fs nch gulp start nsamps ichan out0.
Proof. reflexivity. Qed.
Lemma dedisperse_of_plan fs nch gulp start nsamps md delays :
  dedisperse_of nch (dedisperse_gulp md gulp) md delays (run_plan fs nch (dedisperse_gulp md gulp) start nsamps (dedisperse_skipback md))
  = dedisperse_pipe fs nch gulp start nsamps md delays.
Proof. reflexivity. Qed.
Lemma stats_of_plan fs nch gulp start nsamps full c :
  stats_of nch full c (run_plan fs nch gulp start nsamps 0) = stats_pipe fs nch gulp start nsamps full c.
Proof. reflexivity. Qed.

(** * packed depths *)
Section Packed.
  Variables (fs : list file) (nch nbits : Z) (big : bool) (N gulp start nsamps : Z) (junk : arr).
  Hypotheses (Hnb : In nbits [1; 2; 4]) (Hdiv : (nch * nbits) mod 8 = 0) (Hc : 1 <= nch)
             (Hf : 1 <= nfiles fs) (Ht : total fs = N * samp_bytes nch nbits) (Hbytes : Forall is_byte (flat fs))
             (Hs0 : 0 <= start) (Hn : 1 <= nsamps) (Hr : start + nsamps <= N) (Hg : 1 <= gulp).

  Lemma packed_index_ok k : 0 <= k < N * nch -> 0 <= k < len (flat fs) * bf nbits.
  Proof. intro Hk. destruct (bf_pos nbits Hnb) as [Hb Hb8].
    assert (Hnch : nch * nbits = 8 * samp_bytes nch nbits) by (unfold samp_bytes; apply Z.div_exact; lia).
    assert (Hnb0 : 0 < nbits) by (cbn [In] in Hnb; lia).
    assert (Hn2 : nch = samp_bytes nch nbits * bf nbits) by nia.
    rewrite len_flat, Ht. set (sbs := samp_bytes nch nbits) in *. clearbody sbs. subst nch. nia. Qed.

  Theorem bandpass_spec_packed :
    exists out n, bandpass_pipe_packed fs nch nbits big gulp start nsamps junk = Some (out, n) /\ n = nsamps /\
      forall c, 0 <= c < nch -> out c = sum_n (Z.to_nat nsamps) (fun t => packed_sample fs nbits big ((start + t) * nch + c)).
  Proof.
    destruct (run_plan_packed_as_bytes fs nch nbits big N gulp start nsamps 0 junk Hnb Hdiv Hc Hf Ht Hbytes Hs0 Hn Hr Hg ltac:(lia)) as [E [Hf' Ht']].
    unfold bandpass_pipe_packed, bandpass_skipback. rewrite E. change 0 with bandpass_skipback at 1. rewrite bandpass_of_plan.
    destruct (bandpass_spec (unpacked_set fs nbits big) nch N gulp start nsamps Hf' Hc Ht' Hs0 Hn Hr Hg) as [out [n [Eo [En So]]]].
    exists out, n. split; [exact Eo|]. split; [exact En|]. intros c Hcx. rewrite So by assumption. unfold chancol.
    apply sum_n_ext. intros t Htx. apply X_unpacked; [assumption|]. apply packed_index_ok. nia. Qed.

  Theorem read_chan_spec_packed ichan out0 : 0 <= ichan < nch ->
    exists out, read_chan_pipe_packed fs nch nbits big gulp start nsamps ichan junk out0 = Some out /\
      forall t, 0 <= t < nsamps -> out t = packed_sample fs nbits big ((start + t) * nch + ichan).
  Proof. intro Hi.
    destruct (run_plan_packed_as_bytes fs nch nbits big N gulp start nsamps 0 junk Hnb Hdiv Hc Hf Ht Hbytes Hs0 Hn Hr Hg ltac:(lia)) as [E [Hf' Ht']].
    unfold read_chan_pipe_packed. rewrite E, read_chan_of_plan.
    destruct (read_chan_spec (unpacked_set fs nbits big) nch N gulp start nsamps ichan out0 Hf' Hc Ht' Hs0 Hn Hr Hg Hi) as [out [Eo So]].
    exists out. split; [exact Eo|]. intros t Htx. rewrite So by assumption. apply X_unpacked; [assumption|]. apply packed_index_ok. nia. Qed.

  (** the statistics of channel c are the C10 invariant of the selected unpacked samples of that channel *)
  Theorem stats_spec_packed c full : 0 <= c < nch -> nsamps < 2 ^ 31 ->
    exists s, stats_pipe_packed fs nch nbits big gulp start nsamps full c junk = Some s /\
      inv full (column (unpacked_set fs nbits big) nch start nsamps c) s /\ inv_minmax (column (unpacked_set fs nbits big) nch start nsamps c) s.
  Proof. intros Hch Hsmall.
    destruct (run_plan_packed_as_bytes fs nch nbits big N gulp start nsamps 0 junk Hnb Hdiv Hc Hf Ht Hbytes Hs0 Hn Hr Hg ltac:(lia)) as [E [Hf' Ht']].
    unfold stats_pipe_packed. rewrite E, stats_of_plan.
    exact (stats_spec (unpacked_set fs nbits big) nch N gulp start nsamps c full Hf' Hc Ht' Hs0 Hn Hr Hg Hch Hsmall). Qed.
End Packed.

(** * item-wide samples *)
Lemma slice_slice l a n b m : 0 <= a -> 0 <= b -> 0 <= m -> b + m <= n -> slice (slice l a n) b m = slice l (a + b) m.
Proof. intros Ha Hb Hm Hfit. unfold slice. rewrite skipn_firstn_comm, firstn_firstn, skipn_skipn.
  replace (Init.Nat.min (Z.to_nat m) (Z.to_nat n - Z.to_nat b)) with (Z.to_nat m) by lia.
  f_equal. f_equal. lia. Qed.

Lemma nth_zrange n i : (i < Z.to_nat n)%nat -> nth i (zrange n) 0 = Z.of_nat i.
Proof. intro H. unfold zrange. rewrite (nth_map_in Z.of_nat _ _ 0 0%nat) by (rewrite seq_length; lia). rewrite seq_nth by lia. reflexivity. Qed.

Lemma itemsL_len w dec l : 0 < w -> len (itemsL w dec l) = len l / w.
Proof. intro Hw. unfold itemsL, len. rewrite map_length, zrange_length. pose proof (Z.div_pos (Z.of_nat (length l)) w ltac:(lia) Hw). lia. Qed.

Lemma itemsL_nth w dec l k : 0 < w -> 0 <= k < len l / w -> nth (Z.to_nat k) (itemsL w dec l) 0 = dec (slice l (k * w) w).
Proof. intros Hw Hk. unfold itemsL. rewrite (nth_map_in _ _ _ 0 0) by (rewrite zrange_length; lia).
  rewrite nth_zrange by lia. rewrite Z2Nat.id by lia. reflexivity. Qed.

Lemma itemsL_slice w dec l a n : 0 < w -> 0 <= a -> 0 <= n -> (a + n) * w <= len l ->
  itemsL w dec (slice l (a * w) (n * w)) = slice (itemsL w dec l) a n.
Proof. intros Hw Ha Hn Hfit.
  assert (Hl : len (slice l (a * w) (n * w)) = n * w) by (apply slice_len; nia).
  assert (HM : a + n <= len l / w) by (apply Z.div_le_lower_bound; nia).
  assert (Hnw : n * w / w = n) by (apply Z.div_mul; lia).
  assert (L1 : len (itemsL w dec (slice l (a * w) (n * w))) = n) by (rewrite itemsL_len, Hl by assumption; exact Hnw).
  assert (L2 : len (slice (itemsL w dec l) a n) = n) by (apply slice_len; try lia; rewrite itemsL_len by assumption; lia).
  apply nth_ext with (d := 0) (d' := 0); [unfold len in *; lia|].
  intros i Hi. assert (Hin : 0 <= Z.of_nat i < n) by (unfold len in *; lia).
  rewrite <- (Nat2Z.id i).
  rewrite itemsL_nth by (try assumption; rewrite Hl, Hnw; lia).
  rewrite (slice_nth (itemsL w dec l) a n (Z.of_nat i) 0) by (try lia; rewrite itemsL_len by assumption; lia).
  rewrite itemsL_nth by (try assumption; lia).
  rewrite slice_slice by nia. f_equal. f_equal. lia. Qed.

Lemma scale_le A g N nch w : 0 <= nch -> 0 <= w -> A + g <= N -> (A * nch + g * nch) * w <= N * nch * w.
Proof. intros. assert ((A + g) * nch <= N * nch) by nia. nia. Qed.

Section Items.
  Variables (fs : list file) (nch w : Z) (dec : list Z -> Z) (N gulp start nsamps : Z).
  Hypotheses (Hw : 1 <= w) (Hc : 1 <= nch) (Hf : 1 <= nfiles fs) (Ht : total fs = N * (nch * w))
             (Hs0 : 0 <= start) (Hn : 1 <= nsamps) (Hr : start + nsamps <= N).

  Lemma items_set_ok : 1 <= nfiles (items_set fs w dec) /\ total (items_set fs w dec) = N * nch.
  Proof. split; [unfold nfiles, items_set; cbn; lia|].
    unfold total, items_set, datalen. cbn [map dat fold_right]. fold (len (itemsL w dec (flat fs))).
    rewrite itemsL_len by lia. rewrite len_flat, Ht. replace (N * (nch * w)) with (N * nch * w) by lia.
    rewrite Z.div_mul by lia. lia. Qed.

  Lemma X_items k : 0 <= k < N * nch -> X (items_set fs w dec) k = item_sample fs w dec k.
  Proof. intro Hk. unfold X, items_set, flat at 1. cbn [map dat concat]. rewrite app_nil_r. unfold of_list.
    replace (k <? 0) with false by lia. unfold item_sample. apply itemsL_nth; [lia|].
    rewrite len_flat, Ht. replace (N * (nch * w)) with (N * nch * w) by lia. rewrite Z.div_mul by lia. lia. Qed.

  (** reading an item-wide set = reading the byte-wide set that holds its decoded samples *)
  Theorem run_plan_items_as_samples gulp0 skipback0 : 1 <= gulp0 -> Z.abs skipback0 < Z.min nsamps gulp0 ->
    run_plan_items fs nch w dec gulp0 start nsamps skipback0 = run_plan (items_set fs w dec) nch gulp0 start nsamps skipback0.
  Proof. intros Hg Hsb. destruct items_set_ok as [Hf' Ht'].
    assert (Hcw : 1 <= nch * w) by nia.
    unfold run_plan_items.
    rewrite (run_plan_params fs (nch * w) N gulp0 start nsamps skipback0 Hf Hcw Ht Hs0 Hn Hr Hg Hsb).
    rewrite (run_plan_params (items_set fs w dec) nch N gulp0 start nsamps skipback0 Hf' Hc Ht' Hs0 Hn Hr Hg Hsb).
    pose proof (fil_plan_params gulp0 start nsamps skipback0 N nch Hg Hn Hsb) as L.
    destruct (plan_params gulp0 nsamps skipback0) as [[[g sb] nreads] lr]. destruct L as [_ F].
    destruct F as [Fg Fsb Fsblt Fnr Ffit Flast Fcov].
    assert (Hflat : flat (items_set fs w dec) = itemsL w dec (flat fs)) by (unfold items_set, flat; cbn [map dat concat]; apply app_nil_r).
    assert (Hlen : len (flat fs) = N * nch * w) by (rewrite len_flat, Ht; lia).
    f_equal. unfold plan_blocks. rewrite map_app. f_equal.
    - rewrite map_map. apply map_ext_in. intros i Hi. apply In_zrange in Hi. unfold blk, decode_block.
      assert (HP : 0 <= P nch start g sb i) by (apply P_nonneg; lia).
      f_equal. rewrite Hflat.
      replace (P (nch * w) start g sb i) with (P nch start g sb i * w) by (unfold P; lia).
      replace (g * (nch * w)) with (g * nch * w) by lia.
      apply itemsL_slice; try lia; try nia. rewrite Hlen. unfold P.
      assert (i * (g - sb) <= (nreads - 1) * (g - sb)) by nia. apply scale_le; lia.
    - destruct (lr =? 0) eqn:E; [reflexivity|]. cbn [map decode_block].
      assert (HP : 0 <= P nch start g sb nreads) by (apply P_nonneg; lia).
      destruct Flast as [?|Flast]; [lia|]. replace (lr =? 0) with false in Fcov by lia.
      f_equal. f_equal. rewrite Hflat.
      replace (P (nch * w) start g sb nreads) with (P nch start g sb nreads * w) by (unfold P; lia).
      replace (lr * (nch * w)) with (lr * nch * w) by lia.
      apply itemsL_slice; try lia; try nia. rewrite Hlen. unfold P. apply scale_le; lia. Qed.

  Hypothesis (Hg : 1 <= gulp).

  Theorem collapse_spec_items :
    exists out, collapse_pipe_items fs nch w dec gulp start nsamps = Some out /\
      forall t, 0 <= t < nsamps -> out t = sum_n (Z.to_nat nch) (fun c => item_sample fs w dec ((start + t) * nch + c)).
  Proof. destruct items_set_ok as [Hf' Ht'].
    unfold collapse_pipe_items. rewrite run_plan_items_as_samples by (unfold collapse_skipback; lia). rewrite collapse_of_plan.
    destruct (collapse_spec (items_set fs w dec) nch N gulp start nsamps Hf' Hc Ht' Hs0 Hn Hr Hg) as [out [Eo So]].
    exists out. split; [exact Eo|]. intros t Htx. rewrite So by assumption. unfold chansum. apply sum_n_ext. intros c Hcx. apply X_items. nia. Qed.

  Theorem bandpass_spec_items :
    exists out n, bandpass_pipe_items fs nch w dec gulp start nsamps = Some (out, n) /\ n = nsamps /\
      forall c, 0 <= c < nch -> out c = sum_n (Z.to_nat nsamps) (fun t => item_sample fs w dec ((start + t) * nch + c)).
  Proof. destruct items_set_ok as [Hf' Ht'].
    unfold bandpass_pipe_items. rewrite run_plan_items_as_samples by (unfold bandpass_skipback; lia). rewrite bandpass_of_plan.
    destruct (bandpass_spec (items_set fs w dec) nch N gulp start nsamps Hf' Hc Ht' Hs0 Hn Hr Hg) as [out [n [Eo [En So]]]].
    exists out, n. split; [exact Eo|]. split; [exact En|]. intros c Hcx. rewrite So by assumption. unfold chancol.
    apply sum_n_ext. intros t Htx. apply X_items. nia. Qed.

  Theorem read_chan_spec_items ichan out0 : 0 <= ichan < nch ->
    exists out, read_chan_pipe_items fs nch w dec gulp start nsamps ichan out0 = Some out /\
      forall t, 0 <= t < nsamps -> out t = item_sample fs w dec ((start + t) * nch + ichan).
  Proof. intro Hi. destruct items_set_ok as [Hf' Ht'].
    unfold read_chan_pipe_items. rewrite run_plan_items_as_samples by lia. rewrite read_chan_of_plan.
    destruct (read_chan_spec (items_set fs w dec) nch N gulp start nsamps ichan out0 Hf' Hc Ht' Hs0 Hn Hr Hg Hi) as [out [Eo So]].
    exists out. split; [exact Eo|]. intros t Htx. rewrite So by assumption. apply X_items. nia. Qed.

  Theorem dedisperse_spec_items md delays : 0 <= md < nsamps -> (forall c, 0 <= c < nch -> 0 <= delays c <= md) ->
    exists out, dedisperse_pipe_items fs nch w dec gulp start nsamps md delays = Some out /\
      forall t, 0 <= t < nsamps - md -> out t = sum_n (Z.to_nat nch) (fun c => item_sample fs w dec ((start + t + delays c) * nch + c)).
  Proof. intros Hmd Hd. destruct items_set_ok as [Hf' Ht'].
    unfold dedisperse_pipe_items. cbv zeta.
    rewrite run_plan_items_as_samples by (unfold dedisperse_gulp, dedisperse_skipback; lia). rewrite dedisperse_of_plan.
    destruct (dedisperse_spec (items_set fs w dec) nch N gulp start nsamps md delays Hf' Hc Ht' Hs0 Hn Hr Hg Hmd Hd) as [out [Eo So]].
    exists out. split; [exact Eo|]. intros t Htx. rewrite So by assumption. unfold dedisp. apply sum_n_ext. intros c Hcx.
    pose proof (Hd c ltac:(lia)). apply X_items. nia. Qed.

  Theorem stats_spec_items c full : 0 <= c < nch -> nsamps < 2 ^ 31 ->
    exists s, stats_pipe_items fs nch w dec gulp start nsamps full c = Some s /\
      inv full (column (items_set fs w dec) nch start nsamps c) s /\ inv_minmax (column (items_set fs w dec) nch start nsamps c) s.
  Proof. intros Hch Hsmall. destruct items_set_ok as [Hf' Ht'].
    unfold stats_pipe_items. rewrite run_plan_items_as_samples by lia. rewrite stats_of_plan.
    exact (stats_spec (items_set fs w dec) nch N gulp start nsamps c full Hf' Hc Ht' Hs0 Hn Hr Hg Hch Hsmall). Qed.
End Items.

(** * changing only the gulp never changes the result *)
Section Gulp.
  Variables (fs : list file) (nch N g1 g2 start nsamps : Z).
  Hypotheses (Hf : 1 <= nfiles fs) (Hc : 1 <= nch) (Ht : total fs = N * nch)
             (Hs0 : 0 <= start) (Hn : 1 <= nsamps) (Hr : start + nsamps <= N) (Hg1 : 1 <= g1) (Hg2 : 1 <= g2).

  Theorem gulp_irrelevant_bandpass :
    exists o1 n1 o2 n2, bandpass_pipe fs nch g1 start nsamps = Some (o1, n1) /\ bandpass_pipe fs nch g2 start nsamps = Some (o2, n2) /\
      n1 = n2 /\ forall c, 0 <= c < nch -> o1 c = o2 c.
  Proof. destruct (bandpass_spec fs nch N g1 start nsamps Hf Hc Ht Hs0 Hn Hr Hg1) as [o1 [n1 [E1 [M1 S1]]]].
    destruct (bandpass_spec fs nch N g2 start nsamps Hf Hc Ht Hs0 Hn Hr Hg2) as [o2 [n2 [E2 [M2 S2]]]].
    exists o1, n1, o2, n2. repeat split; try assumption; [lia|]. intros c Hcx. rewrite S1, S2 by assumption. reflexivity. Qed.

  (** also independent of what the uninitialised (np.empty) output held *)
  Theorem gulp_irrelevant_read_chan ichan junk1 junk2 : 0 <= ichan < nch ->
    exists o1 o2, read_chan_pipe fs nch g1 start nsamps ichan junk1 = Some o1 /\ read_chan_pipe fs nch g2 start nsamps ichan junk2 = Some o2 /\
      forall t, 0 <= t < nsamps -> o1 t = o2 t.
  Proof. intro Hi. destruct (read_chan_spec fs nch N g1 start nsamps ichan junk1 Hf Hc Ht Hs0 Hn Hr Hg1 Hi) as [o1 [E1 S1]].
    destruct (read_chan_spec fs nch N g2 start nsamps ichan junk2 Hf Hc Ht Hs0 Hn Hr Hg2 Hi) as [o2 [E2 S2]].
    exists o1, o2. repeat split; try assumption. intros t Htx. rewrite S1, S2 by assumption. reflexivity. Qed.
End Gulp.

(** two accumulator states that satisfy the C10 invariant of the same data agree field by field (as rationals) *)
Definition st_agree (full : bool) (s1 s2 : mst) : Prop :=
  s_cnt s1 = s_cnt s2 /\ s_m1 s1 == s_m1 s2 /\ s_m2 s1 == s_m2 s2 /\ s_min s1 == s_min s2 /\ s_max s1 == s_max s2 /\
  (full = true -> s_m3 s1 == s_m3 s2 /\ s_m4 s1 == s_m4 s2).

Lemma inv_agree full l s1 s2 : inv full l s1 -> inv_minmax l s1 -> inv full l s2 -> inv_minmax l s2 -> st_agree full s1 s2.
Proof. unfold inv_minmax, st_agree. intros I1 [A1 B1] I2 [A2 B2].
  assert (Hmin : s_min s1 == s_min s2) by (rewrite A1, A2; reflexivity).
  assert (Hmax : s_max s1 == s_max s2) by (rewrite B1, B2; reflexivity).
  destruct full; unfold inv, inv_full, inv_basic in I1, I2; destruct I1 as [C1 R1], I2 as [C2 R2]; destruct l as [|x r].
  - destruct R1 as [a1 [b1 [c1 d1]]], R2 as [a2 [b2 [c2 d2]]]. repeat split; try congruence; try assumption;
      [rewrite a1, a2|rewrite b1, b2|rewrite c1, c2|rewrite d1, d2]; reflexivity.
  - cbv zeta in R1, R2. destruct R1 as [a1 [b1 [c1 d1]]], R2 as [a2 [b2 [c2 d2]]]. repeat split; try congruence; try assumption;
      [rewrite a1, a2|rewrite b1, b2|rewrite c1, c2|rewrite d1, d2]; reflexivity.
  - destruct R1 as [a1 b1], R2 as [a2 b2]. repeat split; try congruence; try assumption; try discriminate;
      [rewrite a1, a2|rewrite b1, b2]; reflexivity.
  - cbv zeta in R1, R2. destruct R1 as [a1 b1], R2 as [a2 b2]. repeat split; try congruence; try assumption; try discriminate;
      [rewrite a1, a2|rewrite b1, b2]; reflexivity. Qed.

Theorem gulp_irrelevant_stats fs nch N g1 g2 start nsamps c full :
  1 <= nfiles fs -> 1 <= nch -> total fs = N * nch -> 0 <= start -> 1 <= nsamps -> start + nsamps <= N -> 1 <= g1 -> 1 <= g2 ->
  0 <= c < nch -> nsamps < 2 ^ 31 ->
  exists s1 s2, stats_pipe fs nch g1 start nsamps full c = Some s1 /\ stats_pipe fs nch g2 start nsamps full c = Some s2 /\ st_agree full s1 s2.
Proof. intros Hf Hc Ht Hs0 Hn Hr Hg1 Hg2 Hch Hsmall.
  destruct (stats_spec fs nch N g1 start nsamps c full Hf Hc Ht Hs0 Hn Hr Hg1 Hch Hsmall) as [s1 [E1 [I1 M1]]].
  destruct (stats_spec fs nch N g2 start nsamps c full Hf Hc Ht Hs0 Hn Hr Hg2 Hch Hsmall) as [s2 [E2 [I2 M2]]].
  exists s1, s2. split; [exact E1|]. split; [exact E2|]. exact (inv_agree full _ s1 s2 I1 M1 I2 M2). Qed.

(** gulp-irrelevance at the packed depths and for item-wide samples: each result equals a gulp-free definition *)
Theorem gulp_irrelevant_packed fs nch nbits big N g1 g2 start nsamps md delays ichan junk1 junk2 out1 out2 :
  In nbits [1; 2; 4] -> (nch * nbits) mod 8 = 0 -> 1 <= nch ->
  1 <= nfiles fs -> total fs = N * samp_bytes nch nbits -> Forall is_byte (flat fs) ->
  0 <= start -> 1 <= nsamps -> start + nsamps <= N -> 1 <= g1 -> 1 <= g2 ->
  0 <= md < nsamps -> (forall c, 0 <= c < nch -> 0 <= delays c <= md) -> 0 <= ichan < nch ->
  (exists a b, collapse_pipe_packed fs nch nbits big g1 start nsamps junk1 = Some a /\ collapse_pipe_packed fs nch nbits big g2 start nsamps junk2 = Some b /\
     forall t, 0 <= t < nsamps -> a t = b t) /\
  (exists a n b m, bandpass_pipe_packed fs nch nbits big g1 start nsamps junk1 = Some (a, n) /\ bandpass_pipe_packed fs nch nbits big g2 start nsamps junk2 = Some (b, m) /\
     n = m /\ forall c, 0 <= c < nch -> a c = b c) /\
  (exists a b, read_chan_pipe_packed fs nch nbits big g1 start nsamps ichan junk1 out1 = Some a /\ read_chan_pipe_packed fs nch nbits big g2 start nsamps ichan junk2 out2 = Some b /\
     forall t, 0 <= t < nsamps -> a t = b t) /\
  (exists a b, dedisperse_pipe_packed fs nch nbits big g1 start nsamps md delays junk1 = Some a /\ dedisperse_pipe_packed fs nch nbits big g2 start nsamps md delays junk2 = Some b /\
     forall t, 0 <= t < nsamps - md -> a t = b t).
Proof. intros Hnb Hdiv Hc Hf Ht Hb Hs0 Hn Hr Hg1 Hg2 Hmd Hd Hi. repeat split.
  - destruct (collapse_spec_packed fs nch nbits big N g1 start nsamps junk1 Hnb Hdiv Hc Hf Ht Hb Hs0 Hn Hr Hg1) as [a [Ea Sa]].
    destruct (collapse_spec_packed fs nch nbits big N g2 start nsamps junk2 Hnb Hdiv Hc Hf Ht Hb Hs0 Hn Hr Hg2) as [b [Eb Sb]].
    exists a, b. repeat split; try assumption. intros t Htx. rewrite Sa, Sb by assumption. reflexivity.
  - destruct (bandpass_spec_packed fs nch nbits big N g1 start nsamps junk1 Hnb Hdiv Hc Hf Ht Hb Hs0 Hn Hr Hg1) as [a [n [Ea [Na Sa]]]].
    destruct (bandpass_spec_packed fs nch nbits big N g2 start nsamps junk2 Hnb Hdiv Hc Hf Ht Hb Hs0 Hn Hr Hg2) as [b [m [Eb [Nb Sb]]]].
    exists a, n, b, m. repeat split; try assumption; [lia|]. intros c Hcx. rewrite Sa, Sb by assumption. reflexivity.
  - destruct (read_chan_spec_packed fs nch nbits big N g1 start nsamps junk1 Hnb Hdiv Hc Hf Ht Hb Hs0 Hn Hr Hg1 ichan out1 Hi) as [a [Ea Sa]].
    destruct (read_chan_spec_packed fs nch nbits big N g2 start nsamps junk2 Hnb Hdiv Hc Hf Ht Hb Hs0 Hn Hr Hg2 ichan out2 Hi) as [b [Eb Sb]].
    exists a, b. repeat split; try assumption. intros t Htx. rewrite Sa, Sb by assumption. reflexivity.
  - destruct (dedisperse_spec_packed fs nch nbits big N g1 start nsamps md delays junk1 Hnb Hdiv Hc Hf Ht Hb Hs0 Hn Hr Hg1 Hmd Hd) as [a [Ea Sa]].
    destruct (dedisperse_spec_packed fs nch nbits big N g2 start nsamps md delays junk2 Hnb Hdiv Hc Hf Ht Hb Hs0 Hn Hr Hg2 Hmd Hd) as [b [Eb Sb]].
    exists a, b. repeat split; try assumption. intros t Htx. rewrite Sa, Sb by assumption. reflexivity. Qed.

Theorem gulp_irrelevant_items fs nch w dec N g1 g2 start nsamps md delays ichan out1 out2 :
  1 <= w -> 1 <= nch -> 1 <= nfiles fs -> total fs = N * (nch * w) ->
  0 <= start -> 1 <= nsamps -> start + nsamps <= N -> 1 <= g1 -> 1 <= g2 ->
  0 <= md < nsamps -> (forall c, 0 <= c < nch -> 0 <= delays c <= md) -> 0 <= ichan < nch ->
  (exists a b, collapse_pipe_items fs nch w dec g1 start nsamps = Some a /\ collapse_pipe_items fs nch w dec g2 start nsamps = Some b /\
     forall t, 0 <= t < nsamps -> a t = b t) /\
  (exists a n b m, bandpass_pipe_items fs nch w dec g1 start nsamps = Some (a, n) /\ bandpass_pipe_items fs nch w dec g2 start nsamps = Some (b, m) /\
     n = m /\ forall c, 0 <= c < nch -> a c = b c) /\
  (exists a b, read_chan_pipe_items fs nch w dec g1 start nsamps ichan out1 = Some a /\ read_chan_pipe_items fs nch w dec g2 start nsamps ichan out2 = Some b /\
     forall t, 0 <= t < nsamps -> a t = b t) /\
  (exists a b, dedisperse_pipe_items fs nch w dec g1 start nsamps md delays = Some a /\ dedisperse_pipe_items fs nch w dec g2 start nsamps md delays = Some b /\
     forall t, 0 <= t < nsamps - md -> a t = b t).
Proof. intros Hw Hc Hf Ht Hs0 Hn Hr Hg1 Hg2 Hmd Hd Hi. repeat split.
  - destruct (collapse_spec_items fs nch w dec N g1 start nsamps Hw Hc Hf Ht Hs0 Hn Hr Hg1) as [a [Ea Sa]].
    destruct (collapse_spec_items fs nch w dec N g2 start nsamps Hw Hc Hf Ht Hs0 Hn Hr Hg2) as [b [Eb Sb]].
    exists a, b. repeat split; try assumption. intros t Htx. rewrite Sa, Sb by assumption. reflexivity.
  - destruct (bandpass_spec_items fs nch w dec N g1 start nsamps Hw Hc Hf Ht Hs0 Hn Hr Hg1) as [a [n [Ea [Na Sa]]]].
    destruct (bandpass_spec_items fs nch w dec N g2 start nsamps Hw Hc Hf Ht Hs0 Hn Hr Hg2) as [b [m [Eb [Nb Sb]]]].
    exists a, n, b, m. repeat split; try assumption; [lia|]. intros c Hcx. rewrite Sa, Sb by assumption. reflexivity.
  - destruct (read_chan_spec_items fs nch w dec N g1 start nsamps Hw Hc Hf Ht Hs0 Hn Hr Hg1 ichan out1 Hi) as [a [Ea Sa]].
    destruct (read_chan_spec_items fs nch w dec N g2 start nsamps Hw Hc Hf Ht Hs0 Hn Hr Hg2 ichan out2 Hi) as [b [Eb Sb]].
    exists a, b. repeat split; try assumption. intros t Htx. rewrite Sa, Sb by assumption. reflexivity.
  - destruct (dedisperse_spec_items fs nch w dec N g1 start nsamps Hw Hc Hf Ht Hs0 Hn Hr Hg1 md delays Hmd Hd) as [a [Ea Sa]].
    destruct (dedisperse_spec_items fs nch w dec N g2 start nsamps Hw Hc Hf Ht Hs0 Hn Hr Hg2 md delays Hmd Hd) as [b [Eb Sb]].
    exists a, b. repeat split; try assumption. intros t Htx. rewrite Sa, Sb by assumption. reflexivity. Qed.

(** * the statistics theorems at the packed depths / for item-wide samples, pointwise: the data of channel c is the list of the
      selected samples themselves (packed_sample / item_sample), not the column of an auxiliary byte-wide set *)
Definition packed_column (fs : list file) (nbits : Z) (big : bool) (nch start nsamps c : Z) : list Q :=
  map (fun t => inject_Z (packed_sample fs nbits big ((start + t) * nch + c))) (zrange nsamps).
Definition item_column (fs : list file) (w : Z) (dec : list Z -> Z) (nch start nsamps c : Z) : list Q :=
  map (fun t => inject_Z (item_sample fs w dec ((start + t) * nch + c))) (zrange nsamps).

Lemma column_unpacked fs nch nbits big N start nsamps c :
  In nbits [1; 2; 4] -> (nch * nbits) mod 8 = 0 -> 1 <= nch -> total fs = N * samp_bytes nch nbits ->
  0 <= start -> start + nsamps <= N -> 0 <= c < nch ->
  column (unpacked_set fs nbits big) nch start nsamps c = packed_column fs nbits big nch start nsamps c.
Proof. intros Hnb Hdiv Hc Ht Hs0 Hr Hch. unfold column, packed_column. apply map_ext_in. intros t Hin. apply In_zrange in Hin.
  f_equal. unfold SPP.Proofs.C07_transforms.Sel. apply X_unpacked; [assumption|].
  eapply packed_index_ok; try eassumption. nia. Qed.

Lemma column_items fs nch w dec N start nsamps c :
  1 <= w -> 1 <= nch -> total fs = N * (nch * w) -> 0 <= start -> start + nsamps <= N -> 0 <= c < nch ->
  column (items_set fs w dec) nch start nsamps c = item_column fs w dec nch start nsamps c.
Proof. intros Hw Hc Ht Hs0 Hr Hch. unfold column, item_column. apply map_ext_in. intros t Hin. apply In_zrange in Hin.
  f_equal. unfold SPP.Proofs.C07_transforms.Sel. eapply X_items; try eassumption. nia. Qed.

Theorem stats_pointwise_packed fs nch nbits big N gulp start nsamps junk c full :
  In nbits [1; 2; 4] -> (nch * nbits) mod 8 = 0 -> 1 <= nch ->
  1 <= nfiles fs -> total fs = N * samp_bytes nch nbits -> Forall is_byte (flat fs) ->
  0 <= start -> 1 <= nsamps -> start + nsamps <= N -> 1 <= gulp -> 0 <= c < nch -> nsamps < 2 ^ 31 ->
  exists s, stats_pipe_packed fs nch nbits big gulp start nsamps full c junk = Some s /\
    inv full (packed_column fs nbits big nch start nsamps c) s /\ inv_minmax (packed_column fs nbits big nch start nsamps c) s.
Proof. intros Hnb Hdiv Hc Hf Ht Hb Hs0 Hn Hr Hg Hch Hsmall.
  destruct (stats_spec_packed fs nch nbits big N gulp start nsamps junk Hnb Hdiv Hc Hf Ht Hb Hs0 Hn Hr Hg c full Hch Hsmall) as [s [E [I M]]].
  rewrite (column_unpacked fs nch nbits big N start nsamps c Hnb Hdiv Hc Ht Hs0 Hr Hch) in I, M. exists s. auto. Qed.

Theorem stats_pointwise_items fs nch w dec N gulp start nsamps c full :
  1 <= w -> 1 <= nch -> 1 <= nfiles fs -> total fs = N * (nch * w) ->
  0 <= start -> 1 <= nsamps -> start + nsamps <= N -> 1 <= gulp -> 0 <= c < nch -> nsamps < 2 ^ 31 ->
  exists s, stats_pipe_items fs nch w dec gulp start nsamps full c = Some s /\
    inv full (item_column fs w dec nch start nsamps c) s /\ inv_minmax (item_column fs w dec nch start nsamps c) s.
Proof. intros Hw Hc Hf Ht Hs0 Hn Hr Hg Hch Hsmall.
  destruct (stats_spec_items fs nch w dec N gulp start nsamps Hw Hc Hf Ht Hs0 Hn Hr Hg c full Hch Hsmall) as [s [E [I M]]].
  rewrite (column_items fs nch w dec N start nsamps c Hw Hc Ht Hs0 Hr Hch) in I, M. exists s. auto. Qed.

(** gulp-irrelevance of the statistics at the packed depths and for item-wide samples *)
Theorem gulp_irrelevant_stats_packed fs nch nbits big N g1 g2 start nsamps junk1 junk2 c full :
  In nbits [1; 2; 4] -> (nch * nbits) mod 8 = 0 -> 1 <= nch ->
  1 <= nfiles fs -> total fs = N * samp_bytes nch nbits -> Forall is_byte (flat fs) ->
  0 <= start -> 1 <= nsamps -> start + nsamps <= N -> 1 <= g1 -> 1 <= g2 -> 0 <= c < nch -> nsamps < 2 ^ 31 ->
  exists s1 s2, stats_pipe_packed fs nch nbits big g1 start nsamps full c junk1 = Some s1 /\
                stats_pipe_packed fs nch nbits big g2 start nsamps full c junk2 = Some s2 /\ st_agree full s1 s2.
Proof. intros Hnb Hdiv Hc Hf Ht Hb Hs0 Hn Hr Hg1 Hg2 Hch Hsmall.
  destruct (stats_pointwise_packed fs nch nbits big N g1 start nsamps junk1 c full Hnb Hdiv Hc Hf Ht Hb Hs0 Hn Hr Hg1 Hch Hsmall) as [s1 [E1 [I1 M1]]].
  destruct (stats_pointwise_packed fs nch nbits big N g2 start nsamps junk2 c full Hnb Hdiv Hc Hf Ht Hb Hs0 Hn Hr Hg2 Hch Hsmall) as [s2 [E2 [I2 M2]]].
  exists s1, s2. split; [exact E1|]. split; [exact E2|]. exact (inv_agree full _ s1 s2 I1 M1 I2 M2). Qed.

Theorem gulp_irrelevant_stats_items fs nch w dec N g1 g2 start nsamps c full :
  1 <= w -> 1 <= nch -> 1 <= nfiles fs -> total fs = N * (nch * w) ->
  0 <= start -> 1 <= nsamps -> start + nsamps <= N -> 1 <= g1 -> 1 <= g2 -> 0 <= c < nch -> nsamps < 2 ^ 31 ->
  exists s1 s2, stats_pipe_items fs nch w dec g1 start nsamps full c = Some s1 /\
                stats_pipe_items fs nch w dec g2 start nsamps full c = Some s2 /\ st_agree full s1 s2.
Proof. intros Hw Hc Hf Ht Hs0 Hn Hr Hg1 Hg2 Hch Hsmall.
  destruct (stats_pointwise_items fs nch w dec N g1 start nsamps c full Hw Hc Hf Ht Hs0 Hn Hr Hg1 Hch Hsmall) as [s1 [E1 [I1 M1]]].
  destruct (stats_pointwise_items fs nch w dec N g2 start nsamps c full Hw Hc Hf Ht Hs0 Hn Hr Hg2 Hch Hsmall) as [s2 [E2 [I2 M2]]].
  exists s1, s2. split; [exact E1|]. split; [exact E2|]. exact (inv_agree full _ s1 s2 I1 M1 I2 M2). Qed.

(** * dispersion delays of either sign: what base.py hands to the kernel ([dedisperse_norm], regenerated from Filterbank.dedisperse)
      for law delays [raw] whose smallest value over the band is [mn] is a vector 0 <= d_c, so the dedispersion theorem applies to
      ascending bands and negative DMs; its hypothesis "0 <= delays c" is discharged from the source, not assumed *)
Lemma dedisperse_norm_nonneg raw mn nch : (forall c, 0 <= c < nch -> mn <= raw c) ->
  forall c, 0 <= c < nch -> 0 <= dedisperse_norm mn (raw c).
Proof. intros H c Hc. specialize (H c Hc). unfold dedisperse_norm. lia. Qed.

Theorem dedisperse_spec_anysign fs nch N gulp start nsamps md raw mn :
  1 <= nfiles fs -> 1 <= nch -> total fs = N * nch -> 0 <= start -> 1 <= nsamps -> start + nsamps <= N -> 1 <= gulp ->
  (forall c, 0 <= c < nch -> mn <= raw c) ->
  (forall c, 0 <= c < nch -> dedisperse_norm mn (raw c) <= md) -> 0 <= md < nsamps ->
  exists out, dedisperse_pipe fs nch gulp start nsamps md (fun c => dedisperse_norm mn (raw c)) = Some out /\
    forall t, 0 <= t < nsamps - md -> out t = dedisp fs nch start (fun c => dedisperse_norm mn (raw c)) t.
Proof. intros Hf Hc Ht Hs0 Hn Hr Hg Hmn Hmax Hmd.
  apply (dedisperse_spec fs nch N gulp start nsamps md (fun c => dedisperse_norm mn (raw c)) Hf Hc Ht Hs0 Hn Hr Hg Hmd).
  intros c Hcx. split; [apply (dedisperse_norm_nonneg raw mn nch Hmn c Hcx)|apply Hmax; assumption]. Qed.

Lemma read_chan_len_spec N start nsamps : read_chan_len N start nsamps 0 = nsamps /\ read_chan_len N start nsamps 1 = N - start.
Proof. split; reflexivity. Qed.
