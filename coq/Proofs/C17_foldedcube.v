(** Lemmas for C17 about the FoldedData state machine of Model/C17_FoldedCube.v.
    The invariant: the cube is always the cube as folded, every profile rotated by the recorded shifts
    (for every choice of references); the recorded shifts are those implied by the reported DM / period
    exactly when the delay computations take the FOLDING values as reference. *)
From Coq Require Import ZArith QArith Qround Qfield List Bool Lia Permutation.
Require Import SPP.Base.Rt SPP.Gen.FoldRefs SPP.Model.C17_FoldedCube SPP.Proofs.C17_rot.
Import ListNotations.
Open Scope Z_scope.

Lemma final_dm_app a b d : final_dm (a ++ b) d = final_dm b (final_dm a d).
Proof. revert d. induction a as [|[x|x] a IH]; intro d; cbn; auto. Qed.
Lemma final_period_app a b p : final_period (a ++ b) p = final_period b (final_period a p).
Proof. revert p. induction a as [|[x|x] a IH]; intro p; cbn; auto. Qed.

Lemma Qeq_bool_self_sub x : Qeq_bool (x - x) 0 = true.
Proof. apply Qeq_bool_iff. ring. Qed.

Lemma cube_eqb_refl c : cube_eqb c c = true.
Proof. unfold cube_eqb. destruct (cube_eq_dec c c); congruence. Qed.

Section Machine.
  Variable R : refs.
  Variables nsubints nsubbands nbins : Z.
  Variable tobs : Q.
  Variable F : Q -> Q -> arr.
  Variable T : Q -> arr.
  Variable c0 : cube.
  Variables dm0 p0 : Q.

  Notation step' := (step R nsubints nsubbands nbins tobs F T).
  Notation run' := (run R nsubints nsubbands nbins tobs F T).
  Notation dm_shift' := (dm_shift nbins F dm0 p0).
  Notation p_shift' := (p_shift nbins tobs T p0).
  Notation expected' := (expected nbins tobs F T c0 dm0 p0).

  (** the cube is the cube as folded, rotated by the recorded shifts *)
  Definition tracks (s : fstate) : Prop := data s = rot_cube (fun i b => fph s b + tph s i) c0.

  Lemma p_dbins_self : ~ (p0 == 0)%Q -> Qeq_bool (p_dbins nbins tobs p0 p0) 0 = true.
  Proof. intro H. apply Qeq_bool_iff. unfold p_dbins. field. exact H. Qed.

  (** ** facts valid for EVERY choice of references (so also on a tree whose references are wrong) *)
  Lemma step_tracks s o s' : step' s o = Some s' -> tracks s -> tracks s'.
  Proof.
    unfold tracks. intros H Ht. destruct o as [d|p]; cbn [step] in H.
    - unfold update_dm, get_dmdelays in H.
      destruct (Qeq_bool _ 0).
      + destruct (fph_0d s && (0 <? nsubints)); [discriminate|]. inversion H; subst s'; clear H. cbn.
        rewrite Ht, roll_bands_rot_cube. apply rot_cube_ext. intros; lia.
      + destruct ((nsubbands =? 0) || (nbins =? 0)); [discriminate|].
        destruct (fph_0d s && (0 <? nsubints)); [discriminate|]. inversion H; subst s'; clear H. cbn.
        rewrite Ht, roll_bands_rot_cube. apply rot_cube_ext. intros; lia.
    - unfold update_period, get_pdelays in H.
      destruct (Qeq_bool _ 0 || Qeq_bool _ 0); [discriminate|].
      destruct (Qeq_bool _ 0); inversion H; subst s'; clear H; cbn;
        rewrite Ht, roll_subints_rot_cube; apply rot_cube_ext; intros; lia.
  Qed.

  Lemma step_reported s o s' : step' s o = Some s' ->
    dm s' = final_dm [o] (dm s) /\ period s' = final_period [o] (period s) /\
    fold_dm s' = fold_dm s /\ fold_period s' = fold_period s.
  Proof.
    intro H. destruct o as [d|p]; cbn [step] in H.
    - unfold update_dm, get_dmdelays in H.
      destruct (Qeq_bool _ 0).
      + destruct (fph_0d s && (0 <? nsubints)); [discriminate|]. inversion H; subst s'. cbn. auto.
      + destruct ((nsubbands =? 0) || (nbins =? 0)); [discriminate|].
        destruct (fph_0d s && (0 <? nsubints)); [discriminate|]. inversion H; subst s'. cbn. auto.
    - unfold update_period, get_pdelays in H.
      destruct (Qeq_bool _ 0 || Qeq_bool _ 0); [discriminate|].
      destruct (Qeq_bool _ 0); inversion H; subst s'; cbn; auto.
  Qed.

  Lemma run_tracks ops : forall s s', run' ops s = Some s' -> tracks s -> tracks s'.
  Proof. induction ops as [|o ops IH]; intros s s' H Ht; cbn [run] in H.
    - now inversion H; subst.
    - destruct (step' s o) as [s1|] eqn:E; [|discriminate]. eapply IH; [exact H|]. eapply step_tracks; eauto. Qed.

  Lemma run_reported ops : forall s s', run' ops s = Some s' ->
    dm s' = final_dm ops (dm s) /\ period s' = final_period ops (period s) /\
    fold_dm s' = fold_dm s /\ fold_period s' = fold_period s.
  Proof. induction ops as [|o ops IH]; intros s s' H; cbn [run] in H.
    - inversion H; subst. cbn. auto.
    - destruct (step' s o) as [s1|] eqn:E; [|discriminate].
      destruct (step_reported _ _ _ E) as (A & B & C & D). destruct (IH _ _ H) as (A' & B' & C' & D').
      rewrite A', B', C', D', A, B, C, D. destruct o; cbn; auto. Qed.

  Lemma tracks_init : tracks (init c0 dm0 p0).
  Proof. unfold tracks. cbn. symmetry. apply rot_cube_0. reflexivity. Qed.

  (** whatever the references: after any history that raises no exception the cube is the folded cube with
      every profile rotated by the recorded shifts; hence each profile keeps its multiset and the shape is kept *)
  Lemma history_tracks ops s : run' ops (init c0 dm0 p0) = Some s ->
    data s = rot_cube (fun i b => fph s b + tph s i) c0.
  Proof. intro H. exact (run_tracks _ _ _ H tracks_init). Qed.

  Lemma history_multiset ops s : run' ops (init c0 dm0 p0) = Some s ->
    length (data s) = length c0 /\
    (forall i, length (nth i (data s) []) = length (nth i c0 [])) /\
    (forall i b, Permutation (prof (data s) i b) (prof c0 i b)).
  Proof. intro H. rewrite (history_tracks _ _ H). destruct (rot_cube_shape (fun i b => fph s b + tph s i) c0) as (A & B & _).
    repeat split; auto. intros i b. rewrite prof_rot_cube. apply rot_perm. Qed.

  Lemma history_reported ops s : run' ops (init c0 dm0 p0) = Some s ->
    dm s = final_dm ops dm0 /\ period s = final_period ops p0.
  Proof. intro H. destruct (run_reported _ _ _ H) as (A & B & _). auto. Qed.

  (** whatever the references: the first DM update and the first period update of a fresh cube rotate by the
      shift implied relative to the folding values (the current values ARE the folding values then) *)
  Lemma first_dm_step d s1 : step' (init c0 dm0 p0) (UDm d) = Some s1 ->
    (forall b, fph s1 b = dm_shift' d b) /\ period s1 = p0 /\ fold_period s1 = p0 /\ dm s1 = d.
  Proof.
    cbn [step]. unfold update_dm, get_dmdelays, dm_shift.
    cbn [init fph_0d fold_dm dm period fold_period fph tph data set_fph set_data_dm andb].
    replace (if r_dm_delta R then dm0 else dm0) with dm0 by now destruct (r_dm_delta R).
    replace (if r_dm_tsamp R then p0 else p0) with p0 by now destruct (r_dm_tsamp R).
    destruct (Qeq_bool (d - dm0) 0).
    - intro H; inversion H; subst s1; cbn; auto.
    - destruct ((nsubbands =? 0) || (nbins =? 0)); [discriminate|]. intro H; inversion H; subst s1; cbn; auto.
  Qed.

  Lemma first_period_step p s1 s : period s1 = p0 -> fold_period s1 = p0 -> step' s1 (UPeriod p) = Some s ->
    (forall i, tph s i = p_shift' p i) /\ (forall b, fph s b = fph s1 b) /\ dm s = dm s1 /\ period s = p.
  Proof.
    intros E1 E2. cbn [step]. unfold update_period, get_pdelays, p_shift. rewrite E1, E2.
    replace (if r_p_ratio R then p0 else p0) with p0 by now destruct (r_p_ratio R).
    replace (if r_p_scale R then p0 else p0) with p0 by now destruct (r_p_scale R).
    destruct (Qeq_bool p0 0 || Qeq_bool p0 0); [discriminate|].
    fold (p_dbins nbins tobs p0 p).
    destruct (Qeq_bool (p_dbins nbins tobs p0 p) 0); intro H; inversion H; subst s; cbn; auto.
  Qed.

  Lemma fresh_once d p s :
    run' [UDm d; UPeriod p] (init c0 dm0 p0) = Some s -> data s = expected' d p /\ dm s = d /\ period s = p.
  Proof.
    intro H. pose proof (history_tracks _ _ H) as Ht. cbn [run] in H.
    destruct (step' (init c0 dm0 p0) (UDm d)) as [s1|] eqn:S1; [|discriminate].
    destruct (step' s1 (UPeriod p)) as [s2|] eqn:S2; [|discriminate]. inversion H; subst s2; clear H.
    destruct (first_dm_step _ _ S1) as (A & B & C & D).
    destruct (first_period_step _ _ _ B C S2) as (A' & B' & C' & D').
    split; [|split; congruence].
    rewrite Ht. unfold expected. apply rot_cube_ext. intros i b. now rewrite A', B', A.
  Qed.

  (** ** the invariant that needs the FOLDING values as references *)
  Hypothesis Hfold : all_fold R = true.
  Hypothesis H1d : r_dm_1d R = true \/ nsubbands <> 1.
  Hypothesis Hnb : nsubbands <> 0.
  Hypothesis Hnbins : nbins <> 0.
  Hypothesis Hp0 : ~ (p0 == 0)%Q.

  Definition Inv (s : fstate) : Prop :=
    fold_dm s = dm0 /\ fold_period s = p0 /\ fph_0d s = false /\ tracks s /\
    (forall b, fph s b = dm_shift' (dm s) b) /\ (forall i, tph s i = p_shift' (period s) i).

  Lemma refs_fold : r_dm_delta R = true /\ r_dm_tsamp R = true /\ r_p_ratio R = true /\ r_p_scale R = true.
  Proof. unfold all_fold in Hfold. destruct (r_dm_delta R), (r_dm_tsamp R), (r_p_ratio R), (r_p_scale R); cbn in Hfold; auto; discriminate. Qed.

  Lemma squeeze_off : (nsubbands =? 1) && negb (r_dm_1d R) = false.
  Proof. destruct H1d as [->|H]; [apply andb_false_r|]. destruct (Z.eqb_spec nsubbands 1); [contradiction|reflexivity]. Qed.

  Lemma Qeq_bool_p0 : Qeq_bool p0 0 = false.
  Proof. destruct (Qeq_bool p0 0) eqn:E; [|reflexivity]. apply Qeq_bool_iff in E. contradiction. Qed.

  Lemma Inv_init : Inv (init c0 dm0 p0).
  Proof. unfold Inv. cbn. repeat split; auto using tracks_init.
    - intro b. unfold dm_shift. now rewrite Qeq_bool_self_sub.
    - intro i. unfold p_shift. now rewrite (p_dbins_self Hp0). Qed.

  Lemma step_Inv s o : Inv s -> exists s', step' s o = Some s' /\ Inv s'.
  Proof.
    intros (Hd & Hp & Hz & Ht & Hf & Htp). destruct refs_fold as (R1 & R2 & R3 & R4).
    assert (Hbz : (nsubbands =? 0) || (nbins =? 0) = false).
    { destruct (Z.eqb_spec nsubbands 0), (Z.eqb_spec nbins 0); try contradiction; reflexivity. }
    destruct o as [d|p]; cbn [step].
    - unfold update_dm, get_dmdelays. rewrite R1, R2, Hd, Hp, Hz, Hbz. cbn [andb].
      destruct (Qeq_bool (d - dm0) 0) eqn:E.
      + eexists. split; [reflexivity|]. unfold Inv. cbn. repeat split; auto.
        * apply (step_tracks s (UDm d)); [|exact Ht]. cbn [step]. unfold update_dm, get_dmdelays.
          now rewrite R1, Hd, E, Hz.
        * intro b. unfold dm_shift. now rewrite E.
      + eexists. split; [reflexivity|]. unfold Inv. cbn. repeat split; auto using squeeze_off.
        * apply (step_tracks s (UDm d)); [|exact Ht]. cbn [step]. unfold update_dm, get_dmdelays.
          now rewrite R1, R2, Hd, Hp, E, Hz, Hbz.
        * intro b. unfold dm_shift. now rewrite E.
    - unfold update_period, get_pdelays. rewrite R3, R4, Hp, Qeq_bool_p0. cbn [orb].
      fold (p_dbins nbins tobs p0 p).
      destruct (Qeq_bool (p_dbins nbins tobs p0 p) 0) eqn:E.
      + eexists. split; [reflexivity|]. unfold Inv. cbn. repeat split; auto.
        * apply (step_tracks s (UPeriod p)); [|exact Ht]. cbn [step]. unfold update_period, get_pdelays.
          rewrite R3, R4, Hp, Qeq_bool_p0. cbn [orb]. fold (p_dbins nbins tobs p0 p). now rewrite E.
        * intro i. unfold p_shift. now rewrite E.
      + eexists. split; [reflexivity|]. unfold Inv. cbn. repeat split; auto.
        * apply (step_tracks s (UPeriod p)); [|exact Ht]. cbn [step]. unfold update_period, get_pdelays.
          rewrite R3, R4, Hp, Qeq_bool_p0. cbn [orb]. fold (p_dbins nbins tobs p0 p). now rewrite E.
        * intro i. unfold p_shift. now rewrite E.
  Qed.

  Lemma run_Inv ops : forall s, Inv s -> exists s', run' ops s = Some s' /\ Inv s'.
  Proof. induction ops as [|o ops IH]; intros s Hs; cbn [run]; [eauto|].
    destruct (step_Inv s o Hs) as (s1 & E & H1). rewrite E. apply IH, H1. Qed.

  (** history independence: no exception, the cube is the folded cube rotated by the shift implied by the final
      targets relative to the folding values, and the final targets are reported *)
  Lemma history_independent ops :
    exists s, run' ops (init c0 dm0 p0) = Some s /\
      data s = expected' (final_dm ops dm0) (final_period ops p0) /\
      dm s = final_dm ops dm0 /\ period s = final_period ops p0.
  Proof.
    destruct (run_Inv ops _ Inv_init) as (s & Hr & (_ & _ & _ & Ht & Hf & Htp)).
    destruct (history_reported _ _ Hr) as (A & B). exists s. repeat split; auto.
    unfold tracks in Ht. rewrite Ht. unfold expected. apply rot_cube_ext. intros i b. now rewrite Hf, Htp, A, B.
  Qed.

  (** repeating an update changes nothing *)
  Lemma idempotent ops o :
    exists s1 s2, run' (ops ++ [o]) (init c0 dm0 p0) = Some s1 /\ run' (ops ++ [o; o]) (init c0 dm0 p0) = Some s2 /\
      data s1 = data s2 /\ dm s1 = dm s2 /\ period s1 = period s2.
  Proof.
    destruct (history_independent (ops ++ [o])) as (s1 & H1 & D1 & A1 & B1).
    destruct (history_independent (ops ++ [o; o])) as (s2 & H2 & D2 & A2 & B2).
    exists s1, s2. repeat split; auto; rewrite ?D1, ?D2, ?A1, ?A2, ?B1, ?B2, ?final_dm_app, ?final_period_app;
      destruct o; reflexivity.
  Qed.

  (** intermediate targets do not matter *)
  Lemma intermediate_irrelevant ops1 ops2 :
    final_dm ops1 dm0 = final_dm ops2 dm0 -> final_period ops1 p0 = final_period ops2 p0 ->
    exists s1 s2, run' ops1 (init c0 dm0 p0) = Some s1 /\ run' ops2 (init c0 dm0 p0) = Some s2 /\
      data s1 = data s2 /\ dm s1 = dm s2 /\ period s1 = period s2.
  Proof.
    intros Ed Ep. destruct (history_independent ops1) as (s1 & H1 & D1 & A1 & B1).
    destruct (history_independent ops2) as (s2 & H2 & D2 & A2 & B2).
    exists s1, s2. repeat split; auto; congruence.
  Qed.

  (** returning to the folding values restores the folded cube bit for bit *)
  Lemma return_to_fold ops : (final_dm ops dm0 == dm0)%Q -> (final_period ops p0 == p0)%Q ->
    exists s, run' ops (init c0 dm0 p0) = Some s /\ data s = c0.
  Proof.
    intros Ed Ep. destruct (history_independent ops) as (s & H & D & _). exists s. split; [exact H|].
    rewrite D. unfold expected. apply rot_cube_0. intros i b.
    unfold dm_shift, p_shift.
    assert (E1 : Qeq_bool (final_dm ops dm0 - dm0) 0 = true) by (apply Qeq_bool_iff; rewrite Ed; ring).
    assert (E2 : Qeq_bool (p_dbins nbins tobs p0 (final_period ops p0)) 0 = true).
    { apply Qeq_bool_iff. unfold p_dbins. rewrite Ep. field. exact Hp0. }
    now rewrite E1, E2.
  Qed.
End Machine.

(** * the property for a choice of references *)
Lemma sound_history_independent R : sound_refs R = true -> HistoryIndependent R.
Proof.
  unfold sound_refs. intro H. apply andb_true_iff in H as [Hf H1].
  intros nsubints nsubbands nbins tobs F T c0 dm0 p0 ops Hb Hn Hp.
  apply history_independent; auto.
Qed.

(** with folding references but the squeezed one-sub-band delays stored as they come: every cube with more
    than one sub-band *)
Lemma fold_history_independent_multiband R : all_fold R = true ->
  forall nsubints nsubbands nbins tobs F T c0 dm0 p0 ops,
    nsubbands <> 0 -> nsubbands <> 1 -> nbins <> 0 -> ~ (p0 == 0)%Q ->
    exists s, run R nsubints nsubbands nbins tobs F T ops (init c0 dm0 p0) = Some s /\
      data s = expected nbins tobs F T c0 dm0 p0 (final_dm ops dm0) (final_period ops p0) /\
      dm s = final_dm ops dm0 /\ period s = final_period ops p0.
Proof. intros Hf nsubints nsubbands nbins tobs F T c0 dm0 p0 ops Hb H1 Hn Hp. apply history_independent; auto. Qed.

(** * refutation of every other choice of references *)
Lemma candidates_ok : forallb (fun c : Z * list op => negb (fst c =? 0)) candidates = true.
Proof. reflexivity. Qed.

Lemma has_witness_sound R : has_witness R = true -> Refuted R.
Proof.
  unfold has_witness. intro H. apply existsb_exists in H as ([nb ops] & Hin & Hr).
  pose proof (proj1 (forallb_forall _ _) candidates_ok _ Hin) as Hnb. cbn [fst] in Hnb.
  exists 2, nb, 8, 1%Q, F_art, T_art, (cube_art nb), 1%Q, 1%Q, ops.
  split; [destruct (Z.eqb_spec nb 0); [discriminate|assumption]|].
  split; [discriminate|]. split; [intro E; discriminate E|].
  intros (s & Hrun & Hd). unfold refutes in Hr. rewrite Hrun, Hd, cube_eqb_refl in Hr. discriminate.
Qed.

Lemma refuted_not_independent R : Refuted R -> ~ HistoryIndependent R.
Proof.
  intros (ni & nb & nbins & tobs & F & T & c0 & dm0 & p0 & ops & Hb & Hn & Hp & Hno) HI.
  destruct (HI ni nb nbins tobs F T c0 dm0 p0 ops Hb Hn Hp) as (s & Hr & Hd & _). apply Hno. eauto.
Qed.

(** the dichotomy: the property holds for a choice of references iff every reference is the folding value and the
    one-sub-band delays are kept one-dimensional *)
Lemma verdict R : if sound_refs R then HistoryIndependent R else Refuted R.
Proof.
  destruct (sound_refs R) eqn:E; [now apply sound_history_independent|].
  apply has_witness_sound. destruct R as [[] [] [] [] []]; try discriminate E; vm_compute; reflexivity.
Qed.

(** * witnesses on the real case, with the references of the pinned tree *)
(** update_dm(20) twice: the second call takes 20 as its reference, sees delta = 0 and UNDOES the rotation:
    the cube is the folded one again while DM 20 is reported *)
Lemma pinned_repeat_dm : exists s, w_run pinned_refs 2 [UDm 20%Q; UDm 20%Q] = Some s /\
  data s = cube_art 2 /\ dm s = 20%Q /\ data s <> w_expected 2 20%Q w_p0 /\
  prof (w_expected 2 20%Q w_p0) 0 1 = [12; 13; 14; 15; 16; 17; 10; 11].
Proof. eexists. split; [vm_compute; reflexivity|]. cbn [data dm]. repeat split. intro H. vm_compute in H. discriminate H. Qed.

(** update_dm(20) then back to the folding DM 10: the cube is not restored *)
Lemma pinned_return_dm : exists s, w_run pinned_refs 2 [UDm 20%Q; UDm 10%Q] = Some s /\
  dm s = w_dm0 /\ data s <> cube_art 2 /\ w_expected 2 10%Q w_p0 = cube_art 2 /\
  prof (data s) 0 1 = [16; 17; 10; 11; 12; 13; 14; 15].
Proof. eexists. split; [vm_compute; reflexivity|]. cbn [data dm]. repeat split. intro H. vm_compute in H. discriminate H. Qed.

(** update_period(0.50390625) twice: same mechanism on the sub-integration shifts *)
Lemma pinned_repeat_period : exists s, w_run pinned_refs 2 [UPeriod w_p1; UPeriod w_p1] = Some s /\
  data s = cube_art 2 /\ period s = w_p1 /\ data s <> w_expected 2 w_dm0 w_p1 /\
  prof (w_expected 2 w_dm0 w_p1) 1 0 = [26; 27; 20; 21; 22; 23; 24; 25].
Proof. eexists. split; [vm_compute; reflexivity|]. cbn [data period]. repeat split. intro H. vm_compute in H. discriminate H. Qed.

(** one sub-band: the squeezed delays become a 0-d array and the second update raises IndexError *)
Lemma pinned_single_band : w_run pinned_refs 1 [UDm 20%Q] <> None /\ w_run pinned_refs 1 [UDm 20%Q; UDm 20%Q] = None /\
  w_run pinned_refs 1 [UDm 20%Q; UDm 10%Q] = None.
Proof. repeat split; try (vm_compute; reflexivity). vm_compute. discriminate. Qed.

(** the same histories with folding references end as expected (non-vacuity of the positive theorems) *)
Definition fold_refs : refs := {| r_dm_delta := true; r_dm_tsamp := true; r_p_ratio := true; r_p_scale := true; r_dm_1d := true |}.
Lemma fold_examples :
  sound_refs fold_refs = true /\
  (exists s, w_run fold_refs 2 [UDm 20%Q; UDm 20%Q] = Some s /\ data s = w_expected 2 20%Q w_p0 /\ data s <> cube_art 2) /\
  (exists s, w_run fold_refs 2 [UDm 20%Q; UPeriod w_p1; UDm 10%Q; UPeriod w_p0] = Some s /\ data s = cube_art 2) /\
  (exists s, w_run fold_refs 1 [UDm 20%Q; UDm 20%Q; UDm 10%Q] = Some s /\ data s = cube_art 1).
Proof. split; [reflexivity|]. repeat split; eexists; (split; [vm_compute; reflexivity|]); cbn [data];
  repeat split; try reflexivity. intro H. vm_compute in H. discriminate H. Qed.
