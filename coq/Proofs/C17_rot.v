(** Rotation of a list modulo its length ([np.roll]) and indexed maps: the algebra used by C17.
    rot a (rot b l) = rot (a + b) l, rotation by a multiple of |l| is the identity, rotation permutes. *)
From Coq Require Import ZArith List Bool Lia Permutation.
Require Import SPP.Base.Rt SPP.Model.C17_FoldedCube.
Import ListNotations.
Open Scope Z_scope.

Lemma rot_nil d : rot d [] = [].
Proof. unfold rot. cbn [length]. now rewrite skipn_nil, firstn_nil. Qed.

Lemma rot_length d l : length (rot d l) = length l.
Proof. unfold rot. rewrite app_length, Nat.add_comm, <- app_length, firstn_skipn. reflexivity. Qed.

Lemma rot_perm d l : Permutation (rot d l) l.
Proof. unfold rot. set (k := Z.to_nat _).
  eapply Permutation_trans; [apply Permutation_app_comm|]. now rewrite firstn_skipn. Qed.

(** element k of [rot d l] is element (k + d) mod |l| of l *)
Lemma rot_nth d l k x : (k < length l)%nat ->
  nth k (rot d l) x = nth (Z.to_nat ((Z.of_nat k + d) mod Z.of_nat (length l))) l x.
Proof.
  intro Hk. unfold rot. set (n := Z.of_nat (length l)). assert (Hn : 0 < n) by lia.
  pose proof (Z.mod_pos_bound d n Hn) as Hm. set (m := Z.to_nat (d mod n)).
  assert (Hml : (m <= length l)%nat) by lia.
  assert (Ea : length (firstn m l) = m) by (rewrite firstn_length; lia).
  assert (Eb : length (skipn m l) = (length l - m)%nat) by apply skipn_length.
  rewrite <- (Z.add_mod_idemp_r (Z.of_nat k) d n) by lia.
  replace (d mod n) with (Z.of_nat m) by lia.
  destruct (Nat.lt_ge_cases k (length l - m)) as [Hlt|Hge].
  - rewrite app_nth1 by lia. rewrite Z.mod_small by lia.
    replace (Z.to_nat (Z.of_nat k + Z.of_nat m)) with (m + k)%nat by lia.
    transitivity (nth (m + k) (firstn m l ++ skipn m l) x); [|now rewrite firstn_skipn].
    rewrite app_nth2 by lia. rewrite Ea. f_equal. lia.
  - rewrite app_nth2 by lia. rewrite Eb.
    replace ((Z.of_nat k + Z.of_nat m) mod n) with (Z.of_nat k + Z.of_nat m - n).
    2:{ apply Z.mod_unique with (q := 1); lia. }
    replace (Z.to_nat (Z.of_nat k + Z.of_nat m - n)) with (k - (length l - m))%nat by lia.
    transitivity (nth (k - (length l - m)) (firstn m l ++ skipn m l) x); [|now rewrite firstn_skipn].
    rewrite app_nth1 by lia. reflexivity.
Qed.

Lemma list_ext (a b : list Z) : length a = length b ->
  (forall k, (k < length a)%nat -> nth k a 0 = nth k b 0) -> a = b.
Proof. revert b. induction a as [|x a IH]; intros [|y b] Hl H; cbn in Hl; try discriminate; [reflexivity|].
  f_equal; [apply (H O); cbn; lia|]. apply IH; [lia|]. intros k Hk. apply (H (S k)). cbn. lia. Qed.

(** two rotations whose amounts agree modulo the length are the same list *)
Lemma rot_congr a b l : a mod Z.of_nat (length l) = b mod Z.of_nat (length l) -> rot a l = rot b l.
Proof. intro H. unfold rot. now rewrite H. Qed.

Theorem rot_rot a b l : rot a (rot b l) = rot (a + b) l.
Proof.
  apply list_ext; [now rewrite !rot_length|].
  intros k Hk. rewrite !rot_length in Hk.
  rewrite rot_nth by now rewrite rot_length. rewrite rot_length.
  set (n := Z.of_nat (length l)). assert (Hn : 0 < n) by lia.
  pose proof (Z.mod_pos_bound (Z.of_nat k + a) n Hn).
  rewrite rot_nth by lia. rewrite Z2Nat.id by lia.
  rewrite rot_nth by lia. fold n.
  rewrite Z.add_mod_idemp_l by lia. f_equal. f_equal. f_equal. lia.
Qed.

Theorem rot_0 l : rot 0 l = l.
Proof. unfold rot. rewrite Zmod_0_l. cbn. now rewrite app_nil_r. Qed.

Theorem rot_mul_length k l : rot (k * Z.of_nat (length l)) l = l.
Proof. rewrite <- (rot_0 l) at 3. apply rot_congr.
  destruct (length l) as [|n] eqn:E.
  - cbn. now rewrite Z.mul_0_r.
  - rewrite Z.mod_mul by lia. now rewrite Z.mod_0_l by lia. Qed.

Theorem rot_add_mul_length d k l : rot (d + k * Z.of_nat (length l)) l = rot d l.
Proof. rewrite <- rot_rot, rot_mul_length. reflexivity. Qed.

Theorem rot_inverse d l : rot (- d) (rot d l) = l.
Proof. rewrite rot_rot. replace (- d + d) with 0 by lia. apply rot_0. Qed.

(** * indexed maps *)
Lemma mapi_from_length {A B} k (f : Z -> A -> B) l : length (mapi_from k f l) = length l.
Proof. revert k. induction l as [|x l IH]; intro k; cbn; [reflexivity|]. now rewrite IH. Qed.

Lemma mapi_from_ext {A B} k (f g : Z -> A -> B) l :
  (forall i x, f i x = g i x) -> mapi_from k f l = mapi_from k g l.
Proof. intro H. revert k. induction l as [|x l IH]; intro k; cbn; [reflexivity|]. now rewrite H, IH. Qed.

Lemma mapi_from_fuse {A B C} k (f : Z -> B -> C) (g : Z -> A -> B) l :
  mapi_from k f (mapi_from k g l) = mapi_from k (fun i x => f i (g i x)) l.
Proof. revert k. induction l as [|x l IH]; intro k; cbn; [reflexivity|]. now rewrite IH. Qed.

Lemma mapi_from_id {A} k (f : Z -> A -> A) l : (forall i x, f i x = x) -> mapi_from k f l = l.
Proof. intro H. revert k. induction l as [|x l IH]; intro k; cbn; [reflexivity|]. now rewrite H, IH. Qed.

(** like [map_nth]: valid for every index provided the default is mapped to the default *)
Lemma mapi_from_nth {A B} k (f : Z -> A -> B) l j d d' : (forall i, f i d = d') ->
  nth j (mapi_from k f l) d' = f (k + Z.of_nat j) (nth j l d).
Proof. intro Hd. revert k j. induction l as [|x l IH]; intros k j.
  - destruct j; cbn; now rewrite Hd.
  - destruct j as [|j]; cbn [mapi_from nth].
    + f_equal. lia.
    + rewrite IH. f_equal. lia. Qed.

(** * cubes *)
Lemma rot_cube_ext s s' c : (forall i b, s i b = s' i b) -> rot_cube s c = rot_cube s' c.
Proof. intro H. unfold rot_cube, mapi. apply mapi_from_ext. intros i row.
  apply mapi_from_ext. intros b p. now rewrite H. Qed.

Lemma rot_cube_0 s c : (forall i b, s i b = 0) -> rot_cube s c = c.
Proof. intro H. unfold rot_cube, mapi. apply mapi_from_id. intros i row.
  apply mapi_from_id. intros b p. rewrite H. apply rot_0. Qed.

(** rolling every sub-band by [d b] (the loop of update_dm) on an already rotated cube *)
Lemma roll_bands_rot_cube d s c :
  mapi (fun _ row => mapi (fun b p => rot (d b) p) row) (rot_cube s c) = rot_cube (fun i b => d b + s i b) c.
Proof. unfold rot_cube, mapi. rewrite mapi_from_fuse. apply mapi_from_ext. intros i row.
  rewrite mapi_from_fuse. apply mapi_from_ext. intros b p. apply rot_rot. Qed.

(** rolling every sub-integration by [d i] (the loop of update_period) *)
Lemma roll_subints_rot_cube d s c :
  mapi (fun i row => mapi (fun _ p => rot (d i) p) row) (rot_cube s c) = rot_cube (fun i b => d i + s i b) c.
Proof. unfold rot_cube, mapi. rewrite mapi_from_fuse. apply mapi_from_ext. intros i row.
  rewrite mapi_from_fuse. apply mapi_from_ext. intros b p. apply rot_rot. Qed.

(** profile (i, b) of a rotated cube, for every index (out of range both sides are []) *)
Lemma prof_rot_cube s c i b : prof (rot_cube s c) i b = rot (s (Z.of_nat i) (Z.of_nat b)) (prof c i b).
Proof. unfold prof, rot_cube, mapi.
  rewrite (mapi_from_nth 0 _ c i [] []) by reflexivity.
  rewrite (mapi_from_nth 0 _ (nth i c []) b [] []) by (intro; apply rot_nil).
  reflexivity. Qed.

Lemma rot_cube_shape s c : length (rot_cube s c) = length c /\
  (forall i, length (nth i (rot_cube s c) []) = length (nth i c [])) /\
  (forall i b, length (prof (rot_cube s c) i b) = length (prof c i b)).
Proof. split; [apply mapi_from_length|]. split.
  - intro i. unfold rot_cube, mapi. rewrite (mapi_from_nth 0 _ c i [] []) by reflexivity. apply mapi_from_length.
  - intros i b. rewrite prof_rot_cube. apply rot_length. Qed.
