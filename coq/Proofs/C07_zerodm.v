(** C07, zero-DM removal: the streamed output equals, sample by sample, x[t,c] - (sum_c' x[t,c']) * chanwts[c] + bpass[c],
    whatever the gulp and whatever the persistent output buffer held.  Stated over the integers: the kernel uses only +, -, *
    so the data flow is that of any commutative ring; float32 rounding and the reduction to the output depth are outside (oracle). *)
From Coq Require Import ZArith List Bool Lia ZifyBool.
Require Import SPP.Base.Rt SPP.Base.Iter SPP.Gen.Kernels SPP.Gen.Plan SPP.Gen.TransformSites
               SPP.Model.Stream SPP.Model.Plan SPP.Model.C07_pipe SPP.Proofs.C02_stream SPP.Proofs.C01_plan SPP.Proofs.C06_reduce SPP.Proofs.C03_bits
               SPP.Proofs.C07_transforms.
Import ListNotations.
Open Scope Z_scope.
Ltac Zify.zify_post_hook ::= Z.to_euclidean_division_equations.

Lemma iter_scalar_sum n (v : Z -> Z) z0 : iter n (fun i z => z + v i) z0 = z0 + sum_n n v.
Proof. induction n as [|m IH]; cbn [iter sum_n]; [lia|]. rewrite IH. lia. Qed.

(** the kernel: every element of the first n rows is rewritten; nothing of the incoming buffer survives there *)
Lemma zerodm_kernel data out bp w nch n k : 1 <= nch -> 0 <= n -> 0 <= k < n * nch ->
  remove_zerodm_run data out bp w nch n k =
  data k - sum_n (Z.to_nat nch) (fun c => data (nch * (k / nch) + c)) * w (k mod nch) + bp (k mod nch).
Proof. intros Hc Hn Hk. unfold remove_zerodm_run. cbv zeta.
  rewrite (iter_blocks nch (Z.to_nat n) _
             (fun ii j => data (nch * ii + j) - sum_n (Z.to_nat nch) (fun c => data (nch * ii + c)) * w j + bp j)).
  - rewrite Z2Nat.id by lia. replace ((0 <=? k) && (k <? nch * n)) with true by lia.
    replace (nch * (k / nch) + k mod nch) with k by nia. reflexivity.
  - lia.
  - intros ii wv Hii j. rewrite iter_scalar_sum. rewrite Z.add_0_l.
    rewrite (iter_assign_affine (Z.to_nat nch) (nch * ii)
               (fun i => data (nch * ii + i) - sum_n (Z.to_nat nch) (fun c => data (nch * ii + c)) * w i + bp i)).
    rewrite Z2Nat.id by lia.
    destruct ((nch * ii <=? j) && (j <? nch * ii + nch)) eqn:E; [|reflexivity].
    replace (nch * ii + (j - nch * ii)) with j by lia. reflexivity. Qed.

Lemma zerodm_emit_indep out out' d bp w nch n : 1 <= nch ->
  emit (zerodm_block out d bp w nch n) = emit (zerodm_block out' d bp w nch n).
Proof. intro Hc. unfold emit, zerodm_block. cbn [fst snd].
  destruct (Z_le_gt_dec n 0) as [Hle|Hgt].
  - unfold to_list. replace (Z.to_nat (n * nch)) with 0%nat by nia. reflexivity.
  - rewrite !to_list_map. apply map_ext_in. intros k Hk. apply In_zrange in Hk.
    rewrite !zerodm_kernel by lia. reflexivity. Qed.

(** a persistent buffer that never influences what is emitted can be replaced by any fixed one *)
Lemma fold_emit_indep (f : arr -> Z -> arr -> arr * Z) :
  (forall st st' n d, emit (f st n d) = emit (f st' n d)) ->
  forall junk (bl : list (Z * Z * list Z)) st acc,
  snd (fold_left (fun (st : arr * list Z) (b : Z * Z * list Z) =>
         let '(n_r, ii, d) := b in let r := f (fst st) n_r (of_list d) in (fst r, snd st ++ emit r)) bl (st, acc))
  = acc ++ flat_map (fun b : Z * Z * list Z => let '(n_r, ii, d) := b in emit (f junk n_r (of_list d))) bl.
Proof. intros Hind junk bl. induction bl as [|[[n_r ii] d] r IH]; intros st acc; cbn [fold_left flat_map fst snd].
  - now rewrite app_nil_r.
  - rewrite IH. rewrite <- app_assoc. f_equal. f_equal. apply Hind. Qed.

Lemma stream_fold_map f junk fs nch gulp start nsamps :
  (forall st st' n d, emit (f st n d) = emit (f st' n d)) ->
  stream_fold f junk fs nch gulp start nsamps = stream_map (f junk) fs nch gulp start nsamps.
Proof. intro Hind. unfold stream_fold, stream_map. destruct (run_plan fs nch gulp start nsamps 0) as [bl|e1 e2]; [|reflexivity].
  f_equal. rewrite (fold_emit_indep f Hind junk). reflexivity. Qed.

Section ZeroDM.
  Variables (fs : list file) (nch N gulp start nsamps : Z).
  Hypotheses (Hf : 1 <= nfiles fs) (Hc : 1 <= nch) (Ht : total fs = N * nch)
             (Hs0 : 0 <= start) (Hn : 1 <= nsamps) (Hr : start + nsamps <= N) (Hg : 1 <= gulp).

  (** the zero-DM time series of the selection: sum over channels of relative sample t *)
  Definition zdm (t : Z) : Z := sum_n (Z.to_nat nch) (fun c => Sel fs nch start t c).

  Theorem zerodm_spec junk bp w :
    zerodm_pipe fs nch gulp start nsamps junk bp w =
    Some (flat_map (fun t => map (fun c => Sel fs nch start t c - zdm t * w c + bp c) (zrange nch)) (zrange nsamps)).
  Proof. unfold zerodm_pipe. rewrite stream_fold_map by (intros; apply zerodm_emit_indep; exact Hc).
    rewrite <- (div1 nsamps) at 2.
    apply (stream_map_spec fs nch N gulp start nsamps 1 Hf Hc Ht Hs0 Hn Hr Hg ltac:(lia) ltac:(apply mod1) _
             (fun t => map (fun c => Sel fs nch start t c - zdm t * w c + bp c) (zrange nch))).
    intros s0 len_ H0 _ H1 H2. unfold emit, zerodm_block. cbn [fst snd].
    apply emit_block; try lia. intros r c Hr' Hc'. rewrite zerodm_kernel by nia.
    replace ((r * nch + c) / nch) with r by (apply Z.div_unique with (r := c); lia).
    replace ((r * nch + c) mod nch) with c by (apply Z.mod_unique with (q := r); lia).
    rewrite (data_elem fs nch N start nsamps Hc Ht Hs0 Hr s0 len_ r c) by (assumption || lia).
    unfold zdm. f_equal. f_equal. f_equal. apply sum_n_ext. intros c' Hc''.
    replace (nch * r + c') with (r * nch + c') by lia.
    apply (data_elem fs nch N start nsamps Hc Ht Hs0 Hr s0 len_ r c'); try assumption; lia. Qed.
End ZeroDM.
