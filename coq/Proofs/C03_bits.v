(** C03: the generated bit kernels (Gen/Kernels.v, regenerated from kernels.py on every run)
    implement the bit-field definition, for arrays of every length. *)
From Coq Require Import ZArith List Bool Lia ZifyBool.
Require Import SPP.Base.Rt SPP.Base.Iter SPP.Gen.Kernels SPP.Model.Bits.
Import ListNotations.
Open Scope Z_scope.
Ltac Zify.zify_post_hook ::= Z.to_euclidean_division_equations.

(** * Finite enumeration helpers *)
Lemma range_forall (n : Z) (P : Z -> bool) :
  forallb P (zrange n) = true -> forall x, 0 <= x < n -> P x = true.
Proof. intros H x Hx. rewrite forallb_forall in H. apply H. apply In_zrange. exact Hx. Qed.

Lemma range_forall_eq (n : Z) (F G : Z -> Z) (b : Z) :
  0 <= b < n -> forallb (fun b => F b =? G b) (zrange n) = true -> F b = G b.
Proof. intros Hb H. apply Z.eqb_eq. revert b Hb. apply range_forall. exact H. Qed.

(** close [L = R] where both sides depend on the variable [b], [Hb : 0 <= b < n], by enumeration *)
Ltac enum_eq b Hb n :=
  match goal with |- ?L = ?R =>
    match (eval pattern b in L) with ?f _ =>
      match (eval pattern b in R) with ?g _ =>
        apply (range_forall_eq n f g b Hb); vm_compute; reflexivity end end end.

(** * Block-structured loops *)
(** a loop whose iteration [ii] rewrites exactly the block [c*ii, c*ii+c) *)
Lemma iter_blocks (c : Z) (n : nat) (body : Z -> arr -> arr) (g : Z -> Z -> Z) (u : arr) :
  0 < c ->
  (forall ii w, 0 <= ii < Z.of_nat n -> forall j,
      body ii w j = if (c * ii <=? j) && (j <? c * ii + c) then g ii (j - c * ii) else w j) ->
  forall j, iter n body u j =
    if (0 <=? j) && (j <? c * Z.of_nat n) then g (j / c) (j mod c) else u j.
Proof. intros Hc. induction n as [|m IH]; intros Hb j.
  - cbn [iter]. destruct (0 <=? j) eqn:?, (j <? c * Z.of_nat 0) eqn:?; cbn; try reflexivity; lia.
  - cbn [iter]. rewrite Hb by lia. rewrite IH by (intros; apply Hb; lia).
    destruct (c * Z.of_nat m <=? j) eqn:E1, (j <? c * Z.of_nat m + c) eqn:E2; cbn [andb].
    + assert (j / c = Z.of_nat m) as -> by (symmetry; apply Z.div_unique with (r := j - c * Z.of_nat m); lia).
      assert (j mod c = j - c * Z.of_nat m) as -> by (symmetry; apply Z.mod_unique with (q := Z.of_nat m); lia).
      destruct (0 <=? j) eqn:?, (j <? c * Z.of_nat (S m)) eqn:?; cbn; try reflexivity; lia.
    + destruct (0 <=? j) eqn:?, (j <? c * Z.of_nat m) eqn:?, (j <? c * Z.of_nat (S m)) eqn:?; cbn; try reflexivity; lia.
    + destruct (0 <=? j) eqn:?, (j <? c * Z.of_nat m) eqn:?, (j <? c * Z.of_nat (S m)) eqn:?; cbn; try reflexivity; lia.
    + destruct (0 <=? j) eqn:?, (j <? c * Z.of_nat m) eqn:?, (j <? c * Z.of_nat (S m)) eqn:?; cbn; try reflexivity; lia.
Qed.

(** a loop whose iteration [ii] writes only position [ii] *)
Lemma iter_items (n : nat) (body : Z -> arr -> arr) (g : Z -> Z) (u : arr) :
  (forall ii w, 0 <= ii < Z.of_nat n -> forall j, body ii w j = if j =? ii then g ii else w j) ->
  forall j, iter n body u j = if (0 <=? j) && (j <? Z.of_nat n) then g j else u j.
Proof. induction n as [|m IH]; intros Hb j.
  - cbn [iter]. destruct (0 <=? j) eqn:?, (j <? Z.of_nat 0) eqn:?; cbn; try reflexivity; lia.
  - cbn [iter]. rewrite Hb by lia. rewrite IH by (intros; apply Hb; lia). destruct (Z.eqb_spec j (Z.of_nat m)) as [->|NE].
    + destruct (0 <=? Z.of_nat m) eqn:?, (Z.of_nat m <? Z.of_nat (S m)) eqn:?; cbn; try reflexivity; lia.
    + destruct (0 <=? j) eqn:?, (j <? Z.of_nat m) eqn:?, (j <? Z.of_nat (S m)) eqn:?; cbn; try reflexivity; lia.
Qed.

(** decide a block-body obligation: the generated body is a chain of [upd]s at [pos + const];
    each stored value is compared with [field] over all 256 byte values *)
Ltac block_body a c Ha :=
  let ii := fresh "ii" in let w := fresh "w" in let Hii := fresh "Hii" in let j := fresh "j" in
  intros ii w Hii j; cbv zeta;
  change (Z.to_nat 8) with 8%nat; cbn [iter Z.of_nat Pos.of_succ_nat Pos.succ];
  unfold upd;
  let Hb := fresh "Hb" in assert (0 <= a ii < 256) as Hb by (apply Ha; lia);
  repeat match goal with
         | |- context [Z.eqb j ?y] => destruct (Z.eqb_spec j y);
             [ subst j;
               match goal with |- _ = (if (?lo <=? ?x) && (?x <? ?hi) then _ else _) =>
                   replace ((lo <=? x) && (x <? hi)) with true by lia end;
               match goal with |- _ = field _ _ _ ?e => ring_simplify e end;
               let b := fresh "b" in
               set (b := a ii) in *; clearbody b; enum_eq b Hb 256
             | ]
         end;
  match goal with |- _ = (if (?lo <=? ?x) && (?x <? ?hi) then _ else _) =>
      replace ((lo <=? x) && (x <? hi)) with false by lia end;
  reflexivity.

(** * Each unpack kernel: block [ii] of the output holds the fields of byte [a ii] *)
Section Unpack.
  Variables (n : Z) (a u : arr).
  Hypothesis Hn : 0 <= n.
  Hypothesis Ha : forall i, 0 <= i < n -> 0 <= a i < 256.

  Local Ltac go c nb big :=
    intro j; rewrite (iter_blocks c) with (g := fun ii k => field nb big (a ii) k);
    [rewrite Z2Nat.id by lia; reflexivity | lia | rewrite Z2Nat.id by lia; block_body a c Ha ].

  Lemma unpack1_big_spec : forall j, unpack1_8_big_run n a u j =
    if (0 <=? j) && (j <? 8 * n) then field 1 true (a (j / 8)) (j mod 8) else u j.
  Proof. unfold unpack1_8_big_run. go 8 1 true. Qed.
  Lemma unpack1_little_spec : forall j, unpack1_8_little_run n a u j =
    if (0 <=? j) && (j <? 8 * n) then field 1 false (a (j / 8)) (j mod 8) else u j.
  Proof. unfold unpack1_8_little_run. go 8 1 false. Qed.
  Lemma unpack2_big_spec : forall j, unpack2_8_big_run n a u j =
    if (0 <=? j) && (j <? 4 * n) then field 2 true (a (j / 4)) (j mod 4) else u j.
  Proof. unfold unpack2_8_big_run. go 4 2 true. Qed.
  Lemma unpack2_little_spec : forall j, unpack2_8_little_run n a u j =
    if (0 <=? j) && (j <? 4 * n) then field 2 false (a (j / 4)) (j mod 4) else u j.
  Proof. unfold unpack2_8_little_run. go 4 2 false. Qed.
  Lemma unpack4_big_spec : forall j, unpack4_8_big_run n a u j =
    if (0 <=? j) && (j <? 2 * n) then field 4 true (a (j / 2)) (j mod 2) else u j.
  Proof. unfold unpack4_8_big_run. go 2 4 true. Qed.
  Lemma unpack4_little_spec : forall j, unpack4_8_little_run n a u j =
    if (0 <=? j) && (j <? 2 * n) then field 4 false (a (j / 2)) (j mod 2) else u j.
  Proof. unfold unpack4_8_little_run. go 2 4 false. Qed.
End Unpack.

(** * Each pack kernel: byte [ii] of the output is [byte_of] the fields [v (ii*c) .. v (ii*c+c-1)] *)
Ltac enum_bool x Hx n :=
  match goal with |- ?P = true =>
    match (eval pattern x in P) with ?f _ => refine (range_forall n f _ x Hx) end end.

Ltac gen_field v e lim Hv :=
  let x := fresh "x" in let Hx := fresh "Hx" in
  assert (0 <= v e < lim) as Hx by (apply Hv; lia);
  set (x := v e) in *; clearbody x.

Section Pack.
  Variables (n : Z) (v p : arr).
  Hypothesis Hn : 0 <= n.

  Local Ltac start c nb big :=
    intro j; rewrite iter_items with (g := fun ii => byte_of nb big (fun k => v (ii * c + k)));
    [rewrite Z2Nat.id by lia; reflexivity | rewrite Z2Nat.id by lia];
    let ii := fresh "ii" in let w := fresh "w" in let Hii := fresh "Hii" in let j := fresh "j" in
    intros ii w Hii j; cbv zeta; unfold upd;
    destruct (Z.eqb_spec j ii); [subst j | reflexivity];
    unfold byte_of, bf.

  Section P1.
    Hypothesis Hv : forall i, 0 <= i < 8 * n -> 0 <= v i < 2.
    Local Ltac fin ii :=
      change (Z.to_nat (8 / 1)) with 8%nat; cbn [sum_n Z.of_nat Pos.of_succ_nat Pos.succ];
      gen_field v (ii * 8 + 0) 2 Hv; gen_field v (ii * 8 + 1) 2 Hv; gen_field v (ii * 8 + 2) 2 Hv;
      gen_field v (ii * 8 + 3) 2 Hv; gen_field v (ii * 8 + 4) 2 Hv; gen_field v (ii * 8 + 5) 2 Hv;
      gen_field v (ii * 8 + 6) 2 Hv; gen_field v (ii * 8 + 7) 2 Hv;
      apply Z.eqb_eq;
      repeat match goal with H : 0 <= ?x < 2 |- _ => enum_bool x H 2; clear H end;
      vm_compute; reflexivity.
    Lemma pack1_big_spec : forall j, pack1_8_big_run n v p j =
      if (0 <=? j) && (j <? n) then byte_of 1 true (fun k => v (j * 8 + k)) else p j.
    Proof. unfold pack1_8_big_run. start 8 1 true. fin ii. Qed.
    Lemma pack1_little_spec : forall j, pack1_8_little_run n v p j =
      if (0 <=? j) && (j <? n) then byte_of 1 false (fun k => v (j * 8 + k)) else p j.
    Proof. unfold pack1_8_little_run. start 8 1 false. fin ii. Qed.
  End P1.

  Section P2.
    Hypothesis Hv : forall i, 0 <= i < 4 * n -> 0 <= v i < 4.
    Local Ltac fin ii :=
      change (Z.to_nat (8 / 2)) with 4%nat; cbn [sum_n Z.of_nat Pos.of_succ_nat Pos.succ];
      gen_field v (ii * 4 + 0) 4 Hv; gen_field v (ii * 4 + 1) 4 Hv; gen_field v (ii * 4 + 2) 4 Hv;
      gen_field v (ii * 4 + 3) 4 Hv;
      apply Z.eqb_eq;
      repeat match goal with H : 0 <= ?x < 4 |- _ => enum_bool x H 4; clear H end;
      vm_compute; reflexivity.
    Lemma pack2_big_spec : forall j, pack2_8_big_run n v p j =
      if (0 <=? j) && (j <? n) then byte_of 2 true (fun k => v (j * 4 + k)) else p j.
    Proof. unfold pack2_8_big_run. start 4 2 true. fin ii. Qed.
    Lemma pack2_little_spec : forall j, pack2_8_little_run n v p j =
      if (0 <=? j) && (j <? n) then byte_of 2 false (fun k => v (j * 4 + k)) else p j.
    Proof. unfold pack2_8_little_run. start 4 2 false. fin ii. Qed.
  End P2.

  Section P4.
    Hypothesis Hv : forall i, 0 <= i < 2 * n -> 0 <= v i < 16.
    Local Ltac fin ii :=
      change (Z.to_nat (8 / 4)) with 2%nat; cbn [sum_n Z.of_nat Pos.of_succ_nat Pos.succ];
      gen_field v (ii * 2 + 0) 16 Hv; gen_field v (ii * 2 + 1) 16 Hv;
      apply Z.eqb_eq;
      repeat match goal with H : 0 <= ?x < 16 |- _ => enum_bool x H 16; clear H end;
      vm_compute; reflexivity.
    Lemma pack4_big_spec : forall j, pack4_8_big_run n v p j =
      if (0 <=? j) && (j <? n) then byte_of 4 true (fun k => v (j * 2 + k)) else p j.
    Proof. unfold pack4_8_big_run. start 2 4 true. fin ii. Qed.
    Lemma pack4_little_spec : forall j, pack4_8_little_run n v p j =
      if (0 <=? j) && (j <? n) then byte_of 4 false (fun k => v (j * 2 + k)) else p j.
    Proof. unfold pack4_8_little_run. start 2 4 false. fin ii. Qed.
  End P4.
End Pack.

(** * Properties of the bit-field specification itself *)
Lemma field_range nb big b k : 0 < nb -> 0 <= field nb big b k < 2 ^ nb.
Proof. intro H. unfold field. apply Z.mod_pos_bound. apply Z.pow_pos_nonneg; lia. Qed.

(** field [k] consists of bits [shift, shift+nb) of the byte: most significant field first for
    'big' (shift = 8 - nb(k+1)), least significant first for 'little' (shift = nb k) *)
Lemma field_testbit nb big b k i : 0 <= nb -> 0 <= shift_of nb big k -> 0 <= i ->
  Z.testbit (field nb big b k) i = if i <? nb then Z.testbit b (shift_of nb big k + i) else false.
Proof. intros Hnb Hs Hi. unfold field. destruct (Z.ltb_spec i nb).
  - rewrite Z.mod_pow2_bits_low by lia. rewrite Z.div_pow2_bits by lia. f_equal. lia.
  - apply Z.mod_pow2_bits_high. lia. Qed.

Lemma byte_of_field nb big b : In nb [1; 2; 4] -> 0 <= b < 256 -> byte_of nb big (field nb big b) = b.
Proof. intros Hnb Hb. destruct big; cbn [In] in Hnb; destruct Hnb as [<-|[<-|[<-|[]]]]; enum_eq b Hb 256. Qed.

Definition chk (nb : Z) (big : bool) (l : list Z) : bool :=
  let B := byte_of nb big (fun k => nth (Z.to_nat k) l 0) in
  (0 <=? B) && (B <? 256) &&
  forallb (fun k => field nb big B k =? nth (Z.to_nat k) l 0) (zrange (bf nb)).

Lemma chk1 big x0 x1 x2 x3 x4 x5 x6 x7 :
  0 <= x0 < 2 -> 0 <= x1 < 2 -> 0 <= x2 < 2 -> 0 <= x3 < 2 -> 0 <= x4 < 2 -> 0 <= x5 < 2 -> 0 <= x6 < 2 -> 0 <= x7 < 2 ->
  chk 1 big [x0; x1; x2; x3; x4; x5; x6; x7] = true.
Proof. intros. destruct big;
  repeat match goal with H : 0 <= ?y < 2 |- _ => enum_bool y H 2; clear H end; vm_compute; reflexivity. Qed.
Lemma chk2 big x0 x1 x2 x3 :
  0 <= x0 < 4 -> 0 <= x1 < 4 -> 0 <= x2 < 4 -> 0 <= x3 < 4 -> chk 2 big [x0; x1; x2; x3] = true.
Proof. intros. destruct big;
  repeat match goal with H : 0 <= ?y < 4 |- _ => enum_bool y H 4; clear H end; vm_compute; reflexivity. Qed.
Lemma chk4 big x0 x1 : 0 <= x0 < 16 -> 0 <= x1 < 16 -> chk 4 big [x0; x1] = true.
Proof. intros. destruct big;
  repeat match goal with H : 0 <= ?y < 16 |- _ => enum_bool y H 16; clear H end; vm_compute; reflexivity. Qed.

Lemma byte_of_ext nb big f g : (forall k, 0 <= k < bf nb -> f k = g k) -> 0 <= bf nb -> byte_of nb big f = byte_of nb big g.
Proof. intros E H. unfold byte_of. apply sum_n_ext. intros i Hi. rewrite E by lia. reflexivity. Qed.

Lemma chk_sound nb big l f k : chk nb big l = true -> 0 <= bf nb ->
  (forall i, 0 <= i < bf nb -> f i = nth (Z.to_nat i) l 0) -> 0 <= k < bf nb ->
  field nb big (byte_of nb big f) k = f k /\ 0 <= byte_of nb big f < 256.
Proof. intros H Hb Hf Hk. unfold chk in H.
  rewrite (byte_of_ext nb big f (fun k => nth (Z.to_nat k) l 0)) by assumption.
  apply andb_prop in H as [H1 H2]. apply andb_prop in H1 as [H0 H1].
  rewrite forallb_forall in H2. specialize (H2 k ltac:(apply In_zrange; lia)).
  rewrite Hf by lia. lia. Qed.

Lemma field_byte_of nb big f k : In nb [1; 2; 4] -> (forall i, 0 <= i < bf nb -> 0 <= f i < 2 ^ nb) ->
  0 <= k < bf nb -> field nb big (byte_of nb big f) k = f k /\ 0 <= byte_of nb big f < 256.
Proof. intros Hnb Hf Hk. cbn [In] in Hnb. destruct Hnb as [<-|[<-|[<-|[]]]].
  - change (bf 1) with 8 in *. change (2 ^ 1) with 2 in *.
    apply chk_sound with (l := [f 0; f 1; f 2; f 3; f 4; f 5; f 6; f 7]); try (change (bf 1) with 8; lia).
    + apply chk1; apply Hf; lia.
    + intros i Hi. change (bf 1) with 8 in Hi.
      assert (i = 0 \/ i = 1 \/ i = 2 \/ i = 3 \/ i = 4 \/ i = 5 \/ i = 6 \/ i = 7) as Hc by lia.
      destruct Hc as [->|[->|[->|[->|[->|[->|[->| ->]]]]]]]; reflexivity.
  - change (bf 2) with 4 in *. change (2 ^ 2) with 4 in *.
    apply chk_sound with (l := [f 0; f 1; f 2; f 3]); try (change (bf 2) with 4; lia).
    + apply chk2; apply Hf; lia.
    + intros i Hi. change (bf 2) with 4 in Hi. assert (i = 0 \/ i = 1 \/ i = 2 \/ i = 3) as Hc by lia.
      destruct Hc as [->|[->|[->| ->]]]; reflexivity.
  - change (bf 4) with 2 in *. change (2 ^ 4) with 16 in *.
    apply chk_sound with (l := [f 0; f 1]); try (change (bf 4) with 2; lia).
    + apply chk4; apply Hf; lia.
    + intros i Hi. change (bf 4) with 2 in Hi. assert (i = 0 \/ i = 1) as Hc by lia.
      destruct Hc as [->| ->]; reflexivity.
Qed.

(** * Unified statements over the dispatch used by io/bits.py *)
Lemma bf_pos nb : In nb [1; 2; 4] -> 0 < bf nb /\ bf nb * nb = 8.
Proof. cbn [In]. intros [<-|[<-|[<-|[]]]]; vm_compute; split; reflexivity. Qed.

Lemma unpack_run_spec nb big n a u : In nb [1; 2; 4] -> 0 <= n ->
  (forall i, 0 <= i < n -> 0 <= a i < 256) ->
  forall j, unpack_run nb big n a u j =
    if (0 <=? j) && (j <? bf nb * n) then field nb big (a (j / bf nb)) (j mod bf nb) else u j.
Proof. intros Hnb Hn Ha j. cbn [In] in Hnb. unfold unpack_run.
  destruct Hnb as [<-|[<-|[<-|[]]]]; destruct big; cbn [Z.eqb Pos.eqb];
  [ apply unpack1_big_spec | apply unpack1_little_spec | apply unpack2_big_spec
  | apply unpack2_little_spec | apply unpack4_big_spec | apply unpack4_little_spec ]; assumption. Qed.

Lemma pack_run_spec nb big n v p : In nb [1; 2; 4] -> 0 <= n ->
  (forall i, 0 <= i < bf nb * n -> 0 <= v i < 2 ^ nb) ->
  forall j, pack_run nb big n v p j =
    if (0 <=? j) && (j <? n) then byte_of nb big (fun k => v (j * bf nb + k)) else p j.
Proof. intros Hnb Hn Hv j. cbn [In] in Hnb. unfold pack_run.
  destruct Hnb as [<-|[<-|[<-|[]]]]; destruct big; cbn [Z.eqb Pos.eqb];
  [ apply pack1_big_spec | apply pack1_little_spec | apply pack2_big_spec
  | apply pack2_little_spec | apply pack4_big_spec | apply pack4_little_spec ]; assumption. Qed.

(** packing what was unpacked gives back the bytes, for arrays of every length *)
Lemma pack_unpack nb big n a u p : In nb [1; 2; 4] -> 0 <= n ->
  (forall i, 0 <= i < n -> 0 <= a i < 256) ->
  forall i, 0 <= i < n -> pack_run nb big n (unpack_run nb big n a u) p i = a i.
Proof. intros Hnb Hn Ha i Hi. destruct (bf_pos nb Hnb) as [Hb Hb8].
  assert (Hnbpos : 0 < nb) by (cbn [In] in Hnb; lia).
  rewrite pack_run_spec; try assumption.
  - replace ((0 <=? i) && (i <? n)) with true by lia.
    transitivity (byte_of nb big (field nb big (a i))); [|apply byte_of_field; auto].
    apply byte_of_ext; [|lia]. intros k Hk. rewrite unpack_run_spec by assumption.
    replace ((0 <=? i * bf nb + k) && (i * bf nb + k <? bf nb * n)) with true by nia.
    f_equal; [f_equal|].
    + symmetry. apply Z.div_unique with (r := k); lia.
    + symmetry. apply Z.mod_unique with (q := i); lia.
  - intros j Hj. rewrite unpack_run_spec by assumption.
    replace ((0 <=? j) && (j <? bf nb * n)) with true by lia. apply field_range. lia. Qed.

(** unpacking what was packed gives back the in-range samples *)
Lemma unpack_pack nb big n v p u : In nb [1; 2; 4] -> 0 <= n ->
  (forall i, 0 <= i < bf nb * n -> 0 <= v i < 2 ^ nb) ->
  forall j, 0 <= j < bf nb * n -> unpack_run nb big n (pack_run nb big n v p) u j = v j.
Proof. intros Hnb Hn Hv j Hj. destruct (bf_pos nb Hnb) as [Hb Hb8].
  assert (Hq : 0 <= j / bf nb < n) by (split; [apply Z.div_pos; lia | apply Z.div_lt_upper_bound; lia]).
  assert (Hr : 0 <= j mod bf nb < bf nb) by (apply Z.mod_pos_bound; lia).
  assert (Hfb : forall i, 0 <= i < n -> forall k, 0 <= k < bf nb ->
     field nb big (byte_of nb big (fun k => v (i * bf nb + k))) k = v (i * bf nb + k) /\
     0 <= byte_of nb big (fun k => v (i * bf nb + k)) < 256).
  { intros i Hi k Hk. apply (field_byte_of nb big (fun k => v (i * bf nb + k)) k Hnb); [|assumption].
    intros k' Hk'. apply Hv. nia. }
  rewrite unpack_run_spec; try assumption.
  - replace ((0 <=? j) && (j <? bf nb * n)) with true by lia.
    rewrite pack_run_spec by assumption.
    replace ((0 <=? j / bf nb) && (j / bf nb <? n)) with true by lia.
    destruct (Hfb (j / bf nb) Hq (j mod bf nb) Hr) as [-> _]. f_equal.
    pose proof (Z.div_mod j (bf nb)). lia.
  - intros i Hi. rewrite pack_run_spec by assumption.
    replace ((0 <=? i) && (i <? n)) with true by lia.
    destruct (Hfb i Hi 0 ltac:(lia)) as [_ H]. exact H. Qed.
