(** C05: strings as characters.  [edit_header] pads / truncates a new source name BY CHARACTERS
    ([value[:oldlen] + " " * (oldlen - len(value))], Model/C05_HeaderCodec.v: [pad_name] over [take_chars] / [nchars]) while
    every length prefix of the layout counts BYTES.  This file proves what the character arithmetic does for every byte
    string (multi-byte code points, control characters, anything), and that an edit whose new value has the encoded
    length of the old one is ACCEPTED and rewrites exactly the span of that value. *)
From Coq Require Import ZArith List Bool Lia ZifyBool Arith.
Require Import SPP.Gen.C05Header SPP.Model.C05_HeaderCodec SPP.Proofs.C05_codec.
Import ListNotations.
Open Scope Z_scope.
Ltac Zify.zify_post_hook ::= Z.to_euclidean_division_equations.

(** * characters of a byte string *)
Lemma py_len_nchars s : py_len s = Z.of_nat (nchars s).
Proof. reflexivity. Qed.

Lemma nchars_app a b : nchars (a ++ b) = (nchars a + nchars b)%nat.
Proof. unfold nchars. rewrite filter_app, app_length. reflexivity. Qed.

Lemma nchars_blanks n : nchars (repeat 32 n) = n.
Proof. induction n; cbn; [reflexivity|]. unfold nchars in *. cbn. rewrite IHn. reflexivity. Qed.

Lemma nchars_cons b s : nchars (b :: s) = if is_cont b then nchars s else S (nchars s).
Proof. unfold nchars. cbn. destruct (is_cont b); reflexivity. Qed.

(** the slice holds [min n (characters of s)] characters *)
Lemma nchars_take_chars s : forall n, nchars (take_chars n s) = Nat.min n (nchars s).
Proof.
  induction s as [|b s IH]; intros n; [destruct n; reflexivity|].
  cbn [take_chars]. rewrite (nchars_cons b s). destruct (is_cont b) eqn:Eb.
  - rewrite nchars_cons, Eb. apply IH.
  - destruct n; [reflexivity|]. rewrite nchars_cons, Eb, IH. reflexivity.
Qed.

(** the slice is a prefix that never splits a character: what is left starts with a leading byte *)
Lemma take_chars_boundary s : forall n, exists r, s = take_chars n s ++ r /\ match r with [] => True | b :: _ => is_cont b = false end.
Proof.
  induction s as [|b s IH]; intros n; [exists []; destruct n; auto|].
  cbn [take_chars]. destruct (is_cont b) eqn:Eb.
  - destruct (IH n) as (r & E & B). exists r. split; [cbn; congruence|assumption].
  - destruct n.
    + exists (b :: s). auto.
    + destruct (IH n) as (r & E & B). exists r. split; [cbn; congruence|assumption].
Qed.

Lemma take_chars_all s : take_chars (nchars s) s = s.
Proof.
  induction s as [|b s IH]; [reflexivity|]. rewrite nchars_cons. cbn [take_chars]. destruct (is_cont b); rewrite IH; reflexivity.
Qed.

(** the padded name always has the character count of the old one ... *)
Theorem py_len_pad_name old new : py_len (pad_name old new) = py_len old.
Proof.
  rewrite !py_len_nchars. f_equal. unfold pad_name. rewrite nchars_app, nchars_take_chars, nchars_blanks. lia.
Qed.

(** ... and is the new name itself when that has as many characters as the old one *)
Theorem pad_name_same_chars old new : py_len new = py_len old -> pad_name old new = new.
Proof.
  rewrite !py_len_nchars. intros H. apply Nat2Z.inj in H. unfold pad_name. rewrite <- H, take_chars_all, Nat.sub_diag.
  cbn. apply app_nil_r.
Qed.

(** a shorter name is kept whole and followed by the missing number of blanks *)
Theorem pad_name_shorter old new : py_len new <= py_len old ->
  pad_name old new = new ++ repeat 32 (nchars old - nchars new).
Proof.
  rewrite !py_len_nchars. intros H. unfold pad_name. f_equal.
  destruct (take_chars_boundary new (nchars old)) as (r & E & B).
  assert (N := nchars_take_chars new (nchars old)).
  assert (Hr : nchars r = 0%nat).
  { assert (nchars new = (nchars (take_chars (nchars old) new) + nchars r)%nat) by (rewrite <- nchars_app, <- E; reflexivity). lia. }
  destruct r as [|b r]; [rewrite app_nil_r in E; congruence|]. rewrite nchars_cons, B in Hr. discriminate.
Qed.

(** on names without multi-byte characters this is the byte arithmetic [firstn] / [length] *)
Lemma nchars_ascii s : no_cont s = true -> nchars s = length s.
Proof.
  unfold no_cont. induction s as [|b s IH]; [reflexivity|]. cbn [forallb]. intros H. apply andb_true_iff in H as [Hb H].
  rewrite nchars_cons. destruct (is_cont b); [discriminate|]. cbn. rewrite IH by assumption. reflexivity.
Qed.

Lemma take_chars_ascii s : forall n, no_cont s = true -> take_chars n s = firstn n s.
Proof.
  unfold no_cont. induction s as [|b s IH]; intros n H; [destruct n; reflexivity|]. cbn [forallb] in H.
  apply andb_true_iff in H as [Hb H]. cbn [take_chars]. destruct (is_cont b); [discriminate|].
  destruct n; [reflexivity|]. cbn. rewrite IH by assumption. reflexivity.
Qed.

Theorem pad_name_ascii old new : no_cont old = true -> no_cont new = true ->
  pad_name old new = firstn (length old) new ++ repeat 32 (length old - length new).
Proof. intros Ho Hn. unfold pad_name. rewrite !nchars_ascii, take_chars_ascii by assumption. reflexivity. Qed.

(** * an edit that keeps the encoded length of the value is accepted *)
Lemma dict_set_mid h1 k old h2 v : ~ In k (map fst h1) -> dict_set (h1 ++ (k, old) :: h2) k v = h1 ++ (k, v) :: h2.
Proof.
  induction h1 as [|[k' v'] r IH]; cbn; intros Hn.
  - rewrite bytes_eqb_refl. reflexivity.
  - rewrite bytes_eqb_neq by (intros ->; tauto). rewrite IH by tauto. reflexivity.
Qed.

Lemma lookup_mid {A} h1 k (x : A) h2 : ~ In k (map fst h1) -> lookup k (h1 ++ (k, x) :: h2) = Some x.
Proof.
  induction h1 as [|[k' v'] r IH]; cbn; intros Hn.
  - rewrite bytes_eqb_refl. reflexivity.
  - rewrite bytes_eqb_neq by (intros ->; tauto). apply IH. tauto.
Qed.

Lemma mid_notin (h1 : header) k old h2 : NoDup (map fst (h1 ++ (k, old) :: h2)) -> ~ In k (map fst h1).
Proof.
  rewrite map_app. cbn. intros H%NoDup_remove_2 Hin. apply H. apply in_or_app. auto.
Qed.

Theorem edit_accepts kc vc h1 k old h2 data v v' t :
  wf_header (h1 ++ (k, old) :: h2) -> has_layout (h1 ++ (k, old) :: h2) = true -> lookup k header_keys = Some t ->
  edit_value (h1 ++ (k, old) :: h2) k v = Some v' -> wf_value t v' ->
  length (fmt_value t v') = length (fmt_value t old) ->
  vc = false \/ (header_no_cont (h1 ++ (k, old) :: h2) = true /\ value_no_cont v' = true) ->
  edit_header_with kc vc (fmt_header (h1 ++ (k, old) :: h2) ++ data) k v = Some (fmt_header (h1 ++ (k, v') :: h2) ++ data).
Proof.
  intros Hw Hl Ht Ev Wv Ll Hc. unfold edit_header_with. rewrite Ht, parse_fmt, Ev by assumption.
  pose proof Hw as [Hnd Hwf]. rewrite dict_set_mid by (eapply mid_notin; eassumption).
  destruct (wf_header_app_inv _ _ _ Hw) as (W1 & Wo & W2).
  assert (Wh : wf_header (h1 ++ (k, v') :: h2)).
  { split; [rewrite map_app in *; exact Hnd|]. apply Forall_app. split; [assumption|]. constructor; [exists t; cbn; auto|assumption]. }
  assert (C : vc = false \/ header_no_cont (h1 ++ (k, v') :: h2) = true).
  { destruct Hc as [?|[Hh Hv]]; [auto|right]. rewrite header_no_cont_app in *. apply andb_true_iff in Hh as [H1 H2].
    cbn in *. apply andb_true_iff in H2 as [_ H2]. rewrite H1, Hv, H2. reflexivity. }
  rewrite (encode_fmt kc vc _ Wh C).
  assert (El : length (fmt_header (h1 ++ (k, v') :: h2)) = length (fmt_header (h1 ++ (k, old) :: h2))).
  { rewrite !length_fmt_header_split, (type_of_lookup _ _ Ht). lia. }
  unfold blen. rewrite El, Z.eqb_refl, skipn_app, Nat.sub_diag, skipn_all. reflexivity.
Qed.

(** strings: a new value with the byte length of the old one (for [source_name] also its character count, so that the
    padding leaves it alone) is written over the old one, whatever code points either of them holds *)
Theorem edit_string_same_counts kc h1 k so h2 data sn :
  wf_header (h1 ++ (k, VStr so) :: h2) -> has_layout (h1 ++ (k, VStr so) :: h2) = true -> lookup k header_keys = Some Tstr ->
  blen sn = blen so -> valid_utf8 sn = true -> (k = key_source_name -> py_len sn = py_len so) ->
  edit_header_with kc false (fmt_header (h1 ++ (k, VStr so) :: h2) ++ data) k (VStr sn)
  = Some ((fmt_string kw_header_start ++ fmt_entries h1 ++ fmt_string k) ++ fmt_string sn
          ++ (fmt_entries h2 ++ fmt_string kw_header_end ++ data)).
Proof.
  intros Hw Hl Ht Hb Hu Hp.
  assert (Ev : edit_value (h1 ++ (k, VStr so) :: h2) k (VStr sn) = Some (VStr sn)).
  { unfold edit_value. destruct (bytes_eqb k key_source_name) eqn:E; [|reflexivity].
    apply bytes_eqb_eq in E. rewrite <- E at 1. rewrite lookup_mid by (eapply mid_notin; apply Hw).
    rewrite pad_name_same_chars by auto. reflexivity. }
  destruct (wf_header_app_inv _ _ _ Hw) as (_ & [t' [Ht' Wo]] & _). cbn [fst snd] in *. rewrite Ht in Ht'. injection Ht' as <-.
  cbn in Wo.
  rewrite (edit_accepts kc false h1 k (VStr so) h2 data (VStr sn) (VStr sn) Tstr Hw Hl Ht Ev); auto.
  - rewrite fmt_header_split, (type_of_lookup _ _ Ht). reflexivity.
  - cbn. split; [lia|assumption].
  - cbn [fmt_value]. rewrite !length_fmt_string. unfold blen in Hb. lia.
Qed.

(** the same for the string statement in either length-prefix mode *)
Theorem edit_string_same_counts_gen kc vc h1 k so h2 data sn :
  wf_header (h1 ++ (k, VStr so) :: h2) -> has_layout (h1 ++ (k, VStr so) :: h2) = true -> lookup k header_keys = Some Tstr ->
  blen sn = blen so -> valid_utf8 sn = true -> (k = key_source_name -> py_len sn = py_len so) ->
  vc = false \/ (header_no_cont (h1 ++ (k, VStr so) :: h2) = true /\ no_cont sn = true) ->
  edit_header_with kc vc (fmt_header (h1 ++ (k, VStr so) :: h2) ++ data) k (VStr sn)
  = Some ((fmt_string kw_header_start ++ fmt_entries h1 ++ fmt_string k) ++ fmt_string sn
          ++ (fmt_entries h2 ++ fmt_string kw_header_end ++ data)).
Proof.
  intros Hw Hl Ht Hb Hu Hp Hc.
  assert (Ev : edit_value (h1 ++ (k, VStr so) :: h2) k (VStr sn) = Some (VStr sn)).
  { unfold edit_value. destruct (bytes_eqb k key_source_name) eqn:E; [|reflexivity].
    apply bytes_eqb_eq in E. rewrite <- E at 1. rewrite lookup_mid by (eapply mid_notin; apply Hw).
    rewrite pad_name_same_chars by auto. reflexivity. }
  destruct (wf_header_app_inv _ _ _ Hw) as (_ & [t' [Ht' Wo]] & _). cbn [fst snd] in *. rewrite Ht in Ht'. injection Ht' as <-.
  cbn in Wo.
  rewrite (edit_accepts kc vc h1 k (VStr so) h2 data (VStr sn) (VStr sn) Tstr Hw Hl Ht Ev); auto.
  - rewrite fmt_header_split, (type_of_lookup _ _ Ht). reflexivity.
  - cbn. split; [lia|assumption].
  - cbn [fmt_value]. rewrite !length_fmt_string. unfold blen in Hb. lia.
Qed.

(** * status forms (either mode of [encode_key]'s length prefix, as read from the source) *)
Lemma edit_accepts_status_gen (kc vc : bool) :
  if vc return Prop
  then forall h1 k old h2 data v v' t,
         wf_header (h1 ++ (k, old) :: h2) -> has_layout (h1 ++ (k, old) :: h2) = true -> lookup k header_keys = Some t ->
         edit_value (h1 ++ (k, old) :: h2) k v = Some v' -> wf_value t v' -> length (fmt_value t v') = length (fmt_value t old) ->
         header_no_cont (h1 ++ (k, old) :: h2) = true -> value_no_cont v' = true ->
         edit_header_with kc vc (fmt_header (h1 ++ (k, old) :: h2) ++ data) k v = Some (fmt_header (h1 ++ (k, v') :: h2) ++ data)
  else forall h1 k old h2 data v v' t,
         wf_header (h1 ++ (k, old) :: h2) -> has_layout (h1 ++ (k, old) :: h2) = true -> lookup k header_keys = Some t ->
         edit_value (h1 ++ (k, old) :: h2) k v = Some v' -> wf_value t v' -> length (fmt_value t v') = length (fmt_value t old) ->
         edit_header_with kc vc (fmt_header (h1 ++ (k, old) :: h2) ++ data) k v = Some (fmt_header (h1 ++ (k, v') :: h2) ++ data).
Proof. destruct vc; intros; apply edit_accepts with (t := t); auto. Qed.

Lemma edit_accepts_status :
  if vallen_chars return Prop
  then forall h1 k old h2 data v v' t,
         wf_header (h1 ++ (k, old) :: h2) -> has_layout (h1 ++ (k, old) :: h2) = true -> lookup k header_keys = Some t ->
         edit_value (h1 ++ (k, old) :: h2) k v = Some v' -> wf_value t v' -> length (fmt_value t v') = length (fmt_value t old) ->
         header_no_cont (h1 ++ (k, old) :: h2) = true -> value_no_cont v' = true ->
         edit_header (fmt_header (h1 ++ (k, old) :: h2) ++ data) k v = Some (fmt_header (h1 ++ (k, v') :: h2) ++ data)
  else forall h1 k old h2 data v v' t,
         wf_header (h1 ++ (k, old) :: h2) -> has_layout (h1 ++ (k, old) :: h2) = true -> lookup k header_keys = Some t ->
         edit_value (h1 ++ (k, old) :: h2) k v = Some v' -> wf_value t v' -> length (fmt_value t v') = length (fmt_value t old) ->
         edit_header (fmt_header (h1 ++ (k, old) :: h2) ++ data) k v = Some (fmt_header (h1 ++ (k, v') :: h2) ++ data).
Proof. exact (edit_accepts_status_gen keylen_chars vallen_chars). Qed.

Lemma edit_string_status_gen (kc vc : bool) :
  if vc return Prop
  then forall h1 k so h2 data sn,
         wf_header (h1 ++ (k, VStr so) :: h2) -> has_layout (h1 ++ (k, VStr so) :: h2) = true -> lookup k header_keys = Some Tstr ->
         blen sn = blen so -> valid_utf8 sn = true -> (k = key_source_name -> py_len sn = py_len so) ->
         header_no_cont (h1 ++ (k, VStr so) :: h2) = true -> no_cont sn = true ->
         edit_header_with kc vc (fmt_header (h1 ++ (k, VStr so) :: h2) ++ data) k (VStr sn)
         = Some ((fmt_string kw_header_start ++ fmt_entries h1 ++ fmt_string k) ++ fmt_string sn
                 ++ (fmt_entries h2 ++ fmt_string kw_header_end ++ data))
  else forall h1 k so h2 data sn,
         wf_header (h1 ++ (k, VStr so) :: h2) -> has_layout (h1 ++ (k, VStr so) :: h2) = true -> lookup k header_keys = Some Tstr ->
         blen sn = blen so -> valid_utf8 sn = true -> (k = key_source_name -> py_len sn = py_len so) ->
         edit_header_with kc vc (fmt_header (h1 ++ (k, VStr so) :: h2) ++ data) k (VStr sn)
         = Some ((fmt_string kw_header_start ++ fmt_entries h1 ++ fmt_string k) ++ fmt_string sn
                 ++ (fmt_entries h2 ++ fmt_string kw_header_end ++ data)).
Proof. destruct vc; intros; apply edit_string_same_counts_gen; auto. Qed.

Lemma edit_string_status :
  if vallen_chars return Prop
  then forall h1 k so h2 data sn,
         wf_header (h1 ++ (k, VStr so) :: h2) -> has_layout (h1 ++ (k, VStr so) :: h2) = true -> lookup k header_keys = Some Tstr ->
         blen sn = blen so -> valid_utf8 sn = true -> (k = key_source_name -> py_len sn = py_len so) ->
         header_no_cont (h1 ++ (k, VStr so) :: h2) = true -> no_cont sn = true ->
         edit_header (fmt_header (h1 ++ (k, VStr so) :: h2) ++ data) k (VStr sn)
         = Some ((fmt_string kw_header_start ++ fmt_entries h1 ++ fmt_string k) ++ fmt_string sn
                 ++ (fmt_entries h2 ++ fmt_string kw_header_end ++ data))
  else forall h1 k so h2 data sn,
         wf_header (h1 ++ (k, VStr so) :: h2) -> has_layout (h1 ++ (k, VStr so) :: h2) = true -> lookup k header_keys = Some Tstr ->
         blen sn = blen so -> valid_utf8 sn = true -> (k = key_source_name -> py_len sn = py_len so) ->
         edit_header (fmt_header (h1 ++ (k, VStr so) :: h2) ++ data) k (VStr sn)
         = Some ((fmt_string kw_header_start ++ fmt_entries h1 ++ fmt_string k) ++ fmt_string sn
                 ++ (fmt_entries h2 ++ fmt_string kw_header_end ++ data)).
Proof. exact (edit_string_status_gen keylen_chars vallen_chars). Qed.

(** * witnesses: multi-byte code points and control characters *)
(** source name "é", NUL, "ab" (4 characters, 5 bytes); raw data file "中", LF (2 characters, 4 bytes) *)
Definition h_mb : header :=
  [(key_source_name, VStr [195; 169; 0; 97; 98]); (key_nbits, VInt 8);
   ([114; 97; 119; 100; 97; 116; 97; 102; 105; 108; 101], VStr [228; 184; 173; 10]); (key_nchans, VInt 4)].
Lemma wf_h_mb : wf_header h_mb /\ has_layout h_mb = true /\ header_no_cont h_mb = false.
Proof.
  split; [split|split; reflexivity].
  - repeat constructor; cbn; intuition discriminate.
  - repeat constructor; eexists; split; try reflexivity; cbn; lia.
Qed.
