(** C09 -- Filterbank.dedisperse: the regenerated call-site expressions (Gen/C09.v, stream_...) hand the kernel
    non-negative delays bounded by maxdelay = span, every index the kernel reads lies inside the buffer, the
    returned length is nsamps_sel - span, consecutive blocks write adjacent ranges, and each block adds
    sum_c x[c][start + t + t0 + d_c] at the output samples t it covers. *)
From Coq Require Import ZArith List Bool Lia ZifyBool.
Require Import SPP.Base.Rt SPP.Base.Iter SPP.Model.C09_Arr2 SPP.Model.C09_Spec SPP.Gen.Kernels SPP.Gen.C09
  SPP.Model.C09_Stream SPP.Proofs.C09_arr2 SPP.Proofs.C09_kernels.
Import ListNotations.
Open Scope Z_scope.
Ltac Zify.zify_post_hook ::= Z.to_euclidean_division_equations.

(** ---- the delays handed to the kernel ---------------------------------------------------------------- *)
Lemma stream_delay_shift d nchans gulp nsel c :
  stream_kernel_delay d nchans gulp nsel c = d c + t0_of nchans d.
Proof. unfold stream_kernel_delay, stream_chan_delays, t0_of. change (fun c0 : Z => d c0) with d. lia. Qed.

(** span_of counts from 0; the two agree as soon as some delay is >= 0 -- the reference channel's is 0 *)
Lemma stream_maxdelay_span d nchans gulp nsel : 1 <= nchans -> (exists r, 0 <= r < nchans /\ 0 <= d r) ->
  stream_kernel_maxdelay d nchans gulp nsel = span_of nchans d.
Proof.
  intros Hn [r [Hr Hr0]]. unfold stream_kernel_maxdelay, stream_max_delay, stream_chan_delays, span_of.
  change (fun c : Z => d c) with d.
  set (m := Z.min 0 (amin nchans d)).
  destruct (amax_spec nchans (fun c => d c - m) Hn) as [U [j [Hj Ej]]].
  destruct (amax_spec nchans d Hn) as [U' [j' [Hj' Ej']]].
  destruct (amin_spec nchans d Hn) as [L [i [Hi Ei]]].
  pose proof (U j' Hj') as A. cbv beta in A. pose proof (U' j Hj) as B.
  pose proof (L j' Hj') as C. pose proof (U' r Hr) as D. lia.
Qed.

Lemma stream_delays_bounded d nchans gulp nsel c : 1 <= nchans -> (exists r, 0 <= r < nchans /\ 0 <= d r) -> 0 <= c < nchans ->
  0 <= stream_kernel_delay d nchans gulp nsel c <= stream_kernel_maxdelay d nchans gulp nsel.
Proof.
  intros Hn Href Hc. rewrite stream_maxdelay_span by assumption. rewrite stream_delay_shift. unfold t0_of, span_of.
  destruct (amax_spec nchans d Hn) as [U _]. destruct (amin_spec nchans d Hn) as [L _].
  specialize (U c Hc). specialize (L c Hc). lia.
Qed.

(** ---- sizes ------------------------------------------------------------------------------------------ *)
Lemma stream_length d nchans gulp nsel : 1 <= nchans -> (exists r, 0 <= r < nchans /\ 0 <= d r) ->
  stream_out_len d nchans gulp nsel = nsel - span_of nchans d /\
  stream_declared_nsamples d nchans gulp nsel = stream_out_len d nchans gulp nsel.
Proof.
  intros Hn Href. pose proof (stream_maxdelay_span d nchans gulp nsel Hn Href) as E.
  unfold stream_kernel_maxdelay in E. unfold stream_out_len, stream_declared_nsamples, stream_tim_len. lia.
Qed.

Lemma stream_plan_facts d nchans gulp nsel : 1 <= nchans ->
  stream_plan_skipback d nchans gulp nsel = stream_kernel_maxdelay d nchans gulp nsel /\
  2 * stream_kernel_maxdelay d nchans gulp nsel <= stream_plan_gulp d nchans gulp nsel /\
  gulp <= stream_plan_gulp d nchans gulp nsel /\
  stream_kernel_nchans d nchans gulp nsel = nchans /\
  stream_kernel_index d nchans gulp nsel 0 = 0 /\
  forall ii, stream_kernel_index d nchans gulp nsel (ii + 1) =
             stream_kernel_index d nchans gulp nsel ii + (stream_plan_gulp d nchans gulp nsel - stream_plan_skipback d nchans gulp nsel).
Proof.
  intro Hn. unfold stream_plan_skipback, stream_kernel_maxdelay, stream_plan_gulp, stream_gulp, stream_kernel_nchans, stream_kernel_index.
  repeat split; try lia. intro ii. unfold stream_gulp. lia.
Qed.

(** ---- the kernel never leaves the buffer when 0 <= delay_c <= maxdelay <= nsamps ---------------------- *)
Lemma kernel_reads_in_bounds (dk : arr) maxdelay nchans nsamps t c :
  (forall k, 0 <= k < nchans -> 0 <= dk k <= maxdelay) -> 0 <= c < nchans -> 0 <= t < nsamps - maxdelay ->
  0 <= nchans * (t + dk c) + c < nchans * nsamps.
Proof. intros Hd Hc Ht. specialize (Hd c Hc). nia. Qed.

(** ---- one block ------------------------------------------------------------------------------------ *)
Lemma stream_buffer_at x nchans pos t c : 0 <= c < nchans -> stream_buffer x nchans pos (nchans * t + c) = x c (pos + t).
Proof.
  intro Hc. unfold stream_buffer.
  rewrite (Z.mul_comm nchans t).
  rewrite (Z.add_comm (t * nchans) c), Z_mod_plus_full, Z.mod_small by lia.
  rewrite Z.div_add by lia. rewrite Z.div_small by lia. f_equal; lia.
Qed.

Lemma stream_block_spec x d nchans gulp nsel out nsamps_r ii pos : 1 <= nchans -> (exists r, 0 <= r < nchans /\ 0 <= d r) ->
  forall k, stream_block x d nchans gulp nsel out (nsamps_r, ii, pos) k =
    out k + if (stream_kernel_index d nchans gulp nsel ii <=? k) &&
               (k <? stream_kernel_index d nchans gulp nsel ii + Z.max 0 (nsamps_r - span_of nchans d))
            then sum_n (Z.to_nat nchans) (fun c => x c (pos + (k - stream_kernel_index d nchans gulp nsel ii) + t0_of nchans d + d c))
            else 0.
Proof.
  intros Hn Href k. unfold stream_block.
  assert (En : stream_kernel_nchans d nchans gulp nsel = nchans) by reflexivity. rewrite En.
  rewrite dedisperse_kernel_spec by lia. rewrite stream_maxdelay_span by assumption.
  replace (Z.of_nat (Z.to_nat (nsamps_r - span_of nchans d))) with (Z.max 0 (nsamps_r - span_of nchans d)) by lia.
  destruct ((stream_kernel_index d nchans gulp nsel ii <=? k) && (k <? stream_kernel_index d nchans gulp nsel ii + Z.max 0 (nsamps_r - span_of nchans d))); [|reflexivity].
  f_equal. apply sum_n_ext. intros c Hc. rewrite Z2Nat.id in Hc by lia.
  rewrite stream_buffer_at by lia. rewrite stream_delay_shift. f_equal. lia.
Qed.

(** a block read where the plan puts it (pos = start + index, the stride of the plan being the stride of the
    index: stream_plan_facts) adds exactly the demanded sums at the output samples it covers, and nothing elsewhere *)
Lemma stream_block_adds_spec x d nchans gulp nsel out nsamps_r ii start : 1 <= nchans -> (exists r, 0 <= r < nchans /\ 0 <= d r) ->
  forall k, stream_block x d nchans gulp nsel out (nsamps_r, ii, start + stream_kernel_index d nchans gulp nsel ii) k =
    out k + if (stream_kernel_index d nchans gulp nsel ii <=? k) &&
               (k <? stream_kernel_index d nchans gulp nsel ii + Z.max 0 (nsamps_r - span_of nchans d))
            then spec_stream x nchans start d (t0_of nchans d) k else 0.
Proof.
  intros Hn Href k. rewrite stream_block_spec by assumption.
  destruct ((stream_kernel_index d nchans gulp nsel ii <=? k) && (k <? stream_kernel_index d nchans gulp nsel ii + Z.max 0 (nsamps_r - span_of nchans d))); [|reflexivity].
  f_equal. unfold spec_stream. apply sum_n_ext. intros c _. f_equal. lia.
Qed.

(** the regenerated arguments meet the kernel's precondition: every element the kernel reads for block ii lies in
    the buffer of nsamps_r samples (no negative or overlong index, which numba would wrap or read out of bounds) *)
Lemma stream_reads_in_bounds d nchans gulp nsel nsamps_r t c : 1 <= nchans -> (exists r, 0 <= r < nchans /\ 0 <= d r) ->
  0 <= c < nchans -> 0 <= t < nsamps_r - stream_kernel_maxdelay d nchans gulp nsel ->
  0 <= stream_kernel_nchans d nchans gulp nsel * (t + stream_kernel_delay d nchans gulp nsel c) + c
     < stream_kernel_nchans d nchans gulp nsel * nsamps_r.
Proof.
  intros Hn Href Hc Ht. change (stream_kernel_nchans d nchans gulp nsel) with nchans.
  apply kernel_reads_in_bounds with (maxdelay := stream_kernel_maxdelay d nchans gulp nsel); try assumption.
  intros k Hk. apply stream_delays_bounded; assumption.
Qed.

Lemma stream_delays_normalised d nchans gulp nsel : 1 <= nchans -> (exists r, 0 <= r < nchans /\ 0 <= d r) ->
  stream_kernel_maxdelay d nchans gulp nsel = span_of nchans d /\
  forall c, 0 <= c < nchans ->
    stream_kernel_delay d nchans gulp nsel c = d c + t0_of nchans d /\
    0 <= stream_kernel_delay d nchans gulp nsel c <= stream_kernel_maxdelay d nchans gulp nsel.
Proof.
  intros Hn Href. split; [apply stream_maxdelay_span; assumption|].
  intros c Hc. split; [apply stream_delay_shift|apply stream_delays_bounded; assumption].
Qed.
