(** C05: the statements of Props/C05.v, assembled from Proofs/C05_codec.v and Proofs/C05_radec.v.

    Several behaviours of the source are read off by the generator as booleans ([vallen_chars], [dec_sign_numeric],
    [ra_sec_repr], [dec_sec_repr]) or as functions ([frame_of_flags]).  Each "status" lemma below has the form
    [if <mode of the current source> then <what holds in that mode> else <what holds in the other>], proved for both
    values of the mode, so that the same development compiles against the pinned tree (where it yields the
    refutation witness and the partial theorem) and against a repaired tree (where it yields the full theorem). *)
From Coq Require Import ZArith List Bool Lia ZifyBool.
Require Import SPP.Gen.C05Header SPP.Model.C05_HeaderCodec SPP.Model.C05_RaDec SPP.Proofs.C05_codec SPP.Proofs.C05_radec.
Import ListNotations.
Open Scope Z_scope.

(** * codec *)
Lemma parse_encode_status_gen (kc vc : bool) :
  if vc return Prop
  then (forall h rest, wf_header h -> has_layout h = true -> header_no_cont h = true ->
          exists b, encode_header_with kc vc h = Some b /\ parse_header (b ++ rest) = Some (h, blen b))
       /\ (exists h b, wf_header h /\ has_layout h = true /\ encode_header_with kc vc h = Some b /\ parse_header b = None)
  else forall h rest, wf_header h -> has_layout h = true ->
          exists b, encode_header_with kc vc h = Some b /\ parse_header (b ++ rest) = Some (h, blen b).
Proof.
  destruct vc.
  - split.
    + intros h rest Hw Hl Hc. apply parse_encode; auto.
    + destruct (chars_mode_refuted kc) as (b & E & _ & P). destruct wf_h_nonascii as [W L].
      exists h_nonascii, b. auto.
  - intros h rest Hw Hl. apply parse_encode; auto.
Qed.

Lemma parse_encode_status :
  if vallen_chars return Prop
  then (forall h rest, wf_header h -> has_layout h = true -> header_no_cont h = true ->
          exists b, encode_header h = Some b /\ parse_header (b ++ rest) = Some (h, blen b))
       /\ (exists h b, wf_header h /\ has_layout h = true /\ encode_header h = Some b /\ parse_header b = None)
  else forall h rest, wf_header h -> has_layout h = true ->
          exists b, encode_header h = Some b /\ parse_header (b ++ rest) = Some (h, blen b).
Proof. exact (parse_encode_status_gen keylen_chars vallen_chars). Qed.

Lemma encode_parse_status_gen (kc vc : bool) :
  if vc return Prop
  then (forall h rest, wf_header h -> has_layout h = true -> header_no_cont h = true ->
          exists h' n, parse_header (fmt_header h ++ rest) = Some (h', n) /\ 0 <= n <= blen (fmt_header h ++ rest) /\
                       encode_header_with kc vc h' = Some (firstn (Z.to_nat n) (fmt_header h ++ rest)))
       /\ (exists h h' n b, wf_header h /\ has_layout h = true /\ parse_header (fmt_header h) = Some (h', n) /\
                            encode_header_with kc vc h' = Some b /\ b <> fmt_header h)
  else forall h rest, wf_header h -> has_layout h = true ->
          exists h' n, parse_header (fmt_header h ++ rest) = Some (h', n) /\ 0 <= n <= blen (fmt_header h ++ rest) /\
                       encode_header_with kc vc h' = Some (firstn (Z.to_nat n) (fmt_header h ++ rest)).
Proof.
  destruct vc.
  - split.
    + intros h rest Hw Hl Hc. apply encode_parse; auto.
    + destruct (chars_mode_refuted kc) as (b & E & N & _). destruct wf_h_nonascii as [W L].
      assert (P : parse_header (fmt_header h_nonascii) = Some (h_nonascii, blen (fmt_header h_nonascii))).
      { rewrite <- (app_nil_r (fmt_header h_nonascii)) at 1. apply parse_fmt; assumption. }
      exists h_nonascii, h_nonascii, (blen (fmt_header h_nonascii)), b. repeat split; auto; apply W.
  - intros h rest Hw Hl. apply encode_parse; auto.
Qed.

Lemma encode_parse_status :
  if vallen_chars return Prop
  then (forall h rest, wf_header h -> has_layout h = true -> header_no_cont h = true ->
          exists h' n, parse_header (fmt_header h ++ rest) = Some (h', n) /\ 0 <= n <= blen (fmt_header h ++ rest) /\
                       encode_header h' = Some (firstn (Z.to_nat n) (fmt_header h ++ rest)))
       /\ (exists h h' n b, wf_header h /\ has_layout h = true /\ parse_header (fmt_header h) = Some (h', n) /\
                            encode_header h' = Some b /\ b <> fmt_header h)
  else forall h rest, wf_header h -> has_layout h = true ->
          exists h' n, parse_header (fmt_header h ++ rest) = Some (h', n) /\ 0 <= n <= blen (fmt_header h ++ rest) /\
                       encode_header h' = Some (firstn (Z.to_nat n) (fmt_header h ++ rest)).
Proof. exact (encode_parse_status_gen keylen_chars vallen_chars). Qed.

(** * edit_header *)
Lemma edit_preserves_data_cur h data k v file' : wf_header h -> has_layout h = true ->
  edit_header (fmt_header h ++ data) k v = Some file' ->
  exists nb, file' = nb ++ data /\ length nb = length (fmt_header h).
Proof. apply edit_preserves_data. Qed.

Lemma edit_err file k v : edit_header file k v = None -> file_after_edit file k v = file.
Proof. unfold file_after_edit. intros ->. reflexivity. Qed.

Lemma edit_ok_bytes kc vc h data k v file' : wf_header h -> has_layout h = true ->
  vc = false \/ (header_no_cont h = true /\ value_no_cont v = true) -> value_utf8 v = true ->
  edit_header_with kc vc (fmt_header h ++ data) k v = Some file' -> edit_rewrites_value h data k v file'.
Proof.
  intros Hw Hl Hc Hu He. destruct (edit_ok kc vc h data k v file' Hw Hl Hc Hu He) as (h1 & old & h2 & v' & t & Eh & Ht & Ev & Wo & Wv & Wh & Ll & Ef).
  exists h1, old, h2, v', t. do 8 (split; [assumption|]). cbv zeta. split.
  - rewrite Eh, fmt_header_split, (type_of_lookup _ _ Ht). reflexivity.
  - rewrite Ef, fmt_header_split, (type_of_lookup _ _ Ht). reflexivity.
Qed.

Lemma edit_status_gen (kc vc : bool) :
  if vc return Prop
  then (forall h data k v file', wf_header h -> has_layout h = true -> header_no_cont h = true -> value_no_cont v = true -> value_utf8 v = true ->
          edit_header_with kc vc (fmt_header h ++ data) k v = Some file' -> edit_rewrites_value h data k v file')
       /\ (exists h data k v file', wf_header h /\ has_layout h = true /\
             edit_header_with kc vc (fmt_header h ++ data) k v = Some file' /\ parse_header file' = None)
  else forall h data k v file', wf_header h -> has_layout h = true -> value_utf8 v = true ->
          edit_header_with kc vc (fmt_header h ++ data) k v = Some file' -> edit_rewrites_value h data k v file'.
Proof.
  destruct vc.
  - split.
    + intros h data k v file' Hw Hl C1 C2 Hu. apply edit_ok_bytes; auto.
    + destruct (chars_mode_edit_refuted kc) as (f & E & P). destruct wf_h_ascii as (W & L & _).
      exists h_ascii, [1; 2; 3], k_rawdatafile, (VStr [195; 169; 97; 98]), f. auto.
  - intros h data k v file' Hw Hl Hu. apply edit_ok_bytes; auto.
Qed.

Lemma edit_status :
  if vallen_chars return Prop
  then (forall h data k v file', wf_header h -> has_layout h = true -> header_no_cont h = true -> value_no_cont v = true -> value_utf8 v = true ->
          edit_header (fmt_header h ++ data) k v = Some file' -> edit_rewrites_value h data k v file')
       /\ (exists h data k v file', wf_header h /\ has_layout h = true /\
             edit_header (fmt_header h ++ data) k v = Some file' /\ parse_header file' = None)
  else forall h data k v file', wf_header h -> has_layout h = true -> value_utf8 v = true ->
          edit_header (fmt_header h ++ data) k v = Some file' -> edit_rewrites_value h data k v file'.
Proof. exact (edit_status_gen keylen_chars vallen_chars). Qed.

(** after a returning edit the file parses to the old dictionary with exactly key [k] replaced *)
Lemma edit_reparse h data k v file' : edit_rewrites_value h data k v file' ->
  exists h1 old h2 v', h = h1 ++ (k, old) :: h2 /\ edit_value h k v = Some v' /\
    (has_layout (h1 ++ (k, v') :: h2) = true ->
     parse_header file' = Some (h1 ++ (k, v') :: h2, blen (fmt_header h))).
Proof.
  intros (h1 & old & h2 & v' & t & Eh & Ht & Ev & Wo & Wv & Wh & Ll & Ef & _).
  exists h1, old, h2, v'. do 2 (split; [assumption|]). intros Hl. rewrite Ef, parse_fmt by assumption.
  f_equal. f_equal. unfold blen. f_equal. rewrite Eh, !length_fmt_header_split, (type_of_lookup _ _ Ht). lia.
Qed.

(** * RA / Dec *)
Lemma dec_roundtrip_cur S c : 1 <= S -> wf_sexa S c ->
  dec_sign_numeric = false \/ sx_neg c = false \/ 0 < sx_deg c ->
  dec_sec_repr = false \/ repr_rejected S (Z.abs (pack S c)) = false ->
  exists c', unpack_dec S (pack S c) = Some c' /\ angle S c' = angle S c.
Proof. apply dec_roundtrip. Qed.

Lemma ra_roundtrip_cur S c : 1 <= S -> wf_sexa S c -> sx_neg c = false ->
  ra_sec_repr = false \/ repr_rejected S (pack S c) = false ->
  unpack_ra S (pack S c) = Some c.
Proof. apply ra_roundtrip. Qed.

Lemma dec_status_gen (numeric sec_repr : bool) :
  if numeric || sec_repr return Prop
  then exists S c, 1 <= S /\ wf_sexa S c /\
         ~ exists c', unpack_dec_with numeric sec_repr S (pack S c) = Some c' /\ angle S c' = angle S c
  else forall S c, 1 <= S -> wf_sexa S c ->
         exists c', unpack_dec_with numeric sec_repr S (pack S c) = Some c' /\ angle S c' = angle S c.
Proof.
  destruct numeric; cbn [orb].
  - destruct (numeric_sign_refuted sec_repr) as (W & c' & E & A & N).
    exists S8, c_south. split; [unfold S8; lia|]. split; [exact W|]. intros (c'' & E' & A'). rewrite E in E'. injection E' as <-. lia.
  - destruct sec_repr.
    + destruct (sec_repr_refuted false) as (W & E & _). exists S8, c_tiny. split; [unfold S8; lia|]. split; [exact W|].
      intros (c'' & E' & _). rewrite E in E'. discriminate.
    + intros S c HS Hw. apply dec_roundtrip; auto.
Qed.

Lemma dec_status :
  if dec_sign_numeric || dec_sec_repr return Prop
  then exists S c, 1 <= S /\ wf_sexa S c /\
         ~ exists c', unpack_dec S (pack S c) = Some c' /\ angle S c' = angle S c
  else forall S c, 1 <= S -> wf_sexa S c ->
         exists c', unpack_dec S (pack S c) = Some c' /\ angle S c' = angle S c.
Proof. exact (dec_status_gen dec_sign_numeric dec_sec_repr). Qed.

Lemma ra_status_gen (sec_repr : bool) :
  if sec_repr return Prop
  then exists S c, 1 <= S /\ wf_sexa S c /\ sx_neg c = false /\ unpack_ra_with sec_repr S (pack S c) = None
  else forall S c, 1 <= S -> wf_sexa S c -> sx_neg c = false -> unpack_ra_with sec_repr S (pack S c) = Some c.
Proof.
  destruct sec_repr.
  - destruct (sec_repr_refuted false) as (W & _ & E). exists S8, c_tiny. split; [unfold S8; lia|]. split; [exact W|]. split; [reflexivity|exact E].
  - intros S c HS Hw Hn. apply ra_roundtrip; auto.
Qed.

Lemma ra_status :
  if ra_sec_repr return Prop
  then exists S c, 1 <= S /\ wf_sexa S c /\ sx_neg c = false /\ unpack_ra S (pack S c) = None
  else forall S c, 1 <= S -> wf_sexa S c -> sx_neg c = false -> unpack_ra S (pack S c) = Some c.
Proof. exact (ra_status_gen ra_sec_repr). Qed.
