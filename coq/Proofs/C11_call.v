(** C11, whole-call level: Filterbank.fold from the delay vector get_dmdelays returns (entries of either sign), through the
    regenerated delay shift, max_delay, gulp adjustment, skip-back and read plan (any file list), for every gulp; the
    accumulators in cube coordinates (sub-integration, sub-band, phase bin); the same for TimeSeries.fold. *)
From Coq Require Import ZArith QArith List Bool Lia ZifyBool.
Require Import SPP.Base.Rt SPP.Base.Iter SPP.Gen.Plan SPP.Gen.C11Fold SPP.Model.C11_rt SPP.Model.Stream SPP.Model.Plan
               SPP.Model.C11_fold SPP.Proofs.C11_kernel SPP.Proofs.C11_pipe SPP.Proofs.C11_verdict.
Import ListNotations.
Open Scope Z_scope.
Ltac Zify.zify_post_hook ::= Z.to_euclidean_division_equations.

(** * minimum / maximum of the first n entries *)
Lemma vmin_le n v c : 0 <= c < Z.of_nat n -> vmin n v <= v c.
Proof. induction n as [|n IH]; intro H; [lia|]. cbn [vmin].
  destruct (Z.eq_dec c (Z.of_nat n)) as [->|NE]; [lia|]. specialize (IH ltac:(lia)). lia. Qed.

Lemma vmax_ge n v c : 0 <= c < Z.of_nat n -> v c <= vmax n v.
Proof. induction n as [|n IH]; intro H; [lia|]. cbn [vmax].
  destruct (Z.eq_dec c (Z.of_nat n)) as [->|NE]; [lia|]. specialize (IH ltac:(lia)). lia. Qed.

Lemma vmax_shift n v s : vmax n (fun c => v c - s) = vmax n v - s.
Proof. induction n as [|n IH]; cbn [vmax]; [reflexivity|]. rewrite IH. lia. Qed.

Lemma vmax_ext n v w : (forall c, 0 <= c < Z.of_nat n \/ c = 0 -> v c = w c) -> vmax n v = vmax n w.
Proof. induction n as [|n IH]; intro H; cbn [vmax]; [apply H; lia|]. rewrite IH by (intros; apply H; lia). rewrite H by lia. reflexivity. Qed.

(** * the law of the regenerated delay shift: delays are referred to the earliest channel.
    get_dmdelays is relative to channel 0 (raw 0 = 0), so the smallest entry is never positive; for such vectors every form of the
    shift the translator accepts (d - min(0, dmin), d - dmin) obeys the law *)
Definition delays_law : Prop := forall dmin d, dmin <= 0 -> fold_delay_of dmin d = d - Z.min 0 dmin.

Theorem fold_delays_law_verdict : delays_law \/ fold_delay_of (-3) (-3) < 0.
Proof. first [ left; intros dmin d H; unfold fold_delay_of; lia | right; vm_compute; reflexivity ]. Qed.

Section Call.
  Variables (fs : list file) (nch N gulp start nsamps nn : Z) (raw : arr) (tsamp period accel : Q) (nbins nints nbands : Z).
  Hypotheses (Hlaw : delays_law) (Hmin0 : vmin (Z.to_nat nch) raw <= 0)
             (Hf : 1 <= nfiles fs) (Hc : 1 <= nch) (Ht : total fs = N * nch)
             (Hs0 : 0 <= start) (Hn : 1 <= nsamps) (Hr : start + nsamps <= N) (Hg : 1 <= gulp) (Hnn : nn = 1 -> nsamps = N - start)
             (Hnbins : 1 <= nbins) (Hnints : 1 <= nints) (Hnbands : 1 <= nbands).

  (** the shift and the dispersion span, in terms of the vector get_dmdelays returned *)
  Definition call_shift : Z := Z.min 0 (vmin (Z.to_nat nch) raw).
  Definition call_span : Z := vmax (Z.to_nat nch) raw - call_shift.
  Hypothesis (Hspan : call_span < nsamps).

  Lemma call_delays_eq c : call_delays nch raw c = raw c - call_shift.
  Proof. unfold call_delays, fold_chan_delays, fold_dmin, call_shift. apply Hlaw. exact Hmin0. Qed.

  Lemma call_md_eq : call_md nch raw = call_span.
  Proof. unfold call_md, fold_max_delay, call_span. rewrite <- vmax_shift. apply vmax_ext. intros c _. apply call_delays_eq. Qed.

  Lemma call_delays_range c : 0 <= c < nch -> 0 <= call_delays nch raw c <= call_md nch raw.
  Proof. intro H. rewrite call_md_eq, call_delays_eq. unfold call_span.
    pose proof (vmin_le (Z.to_nat nch) raw c ltac:(lia)). pose proof (vmax_ge (Z.to_nat nch) raw c ltac:(lia)). unfold call_shift. lia. Qed.

  Lemma call_span_nonneg : 0 <= call_span.
  Proof. pose proof (call_delays_range 0 ltac:(lia)). rewrite call_md_eq in H. lia. Qed.

  (** value of folded sample [a] (from the first selected sample) of channel [c]: the sample read [raw c - shift] later *)
  Definition cval (a c : Z) : Z := SX fs ((start + a + (raw c - call_shift)) * nch + c).
  Definition ccell : Z -> Z -> Z := pcell nch N start nsamps nn tsamp period accel nbins nints nbands.

  (** the whole call, every gulp, every file list, delays of either sign: the accumulators hold, cell by cell, the sum and the
      number of the dedispersed samples sent there; the hit counts sum to the number of samples folded and the cell sums to
      the sum of all samples folded *)
  Theorem fold_call_spec :
    exists f cn, fold_call fs nch gulp start nsamps nn raw tsamp period accel nbins nints nbands = Some (f, cn) /\
      (forall k, f k = cellsum nch ccell cval (nsamps - call_span) k /\ cn k = cellsum nch ccell (fun _ _ => 1) (nsamps - call_span) k) /\
      sum_n (Z.to_nat (fold_ncells nbins nints (fold_nbands nbands nch))) cn = (nsamps - call_span) * nch /\
      sum_n (Z.to_nat (fold_ncells nbins nints (fold_nbands nbands nch))) f =
        sum_n (Z.to_nat (nsamps - call_span)) (fun a => sum_n (Z.to_nat nch) (fun c => cval a c)).
  Proof. pose proof call_span_nonneg as Hsp. pose proof (fold_total_ge N start nsamps nn Hs0 Hn Hr Hnn) as Htg.
    unfold fold_call.
    assert (Hmd : 0 <= call_md nch raw < nsamps) by (rewrite call_md_eq; lia).
    assert (Htot : 1 <= fold_total N start nsamps nn) by lia.
    destruct (fold_pipe_spec fs nch N gulp start nsamps nn (call_md nch raw) (call_delays nch raw) tsamp period accel nbins nints nbands)
      as [f [cn [E S]]]; try assumption; try exact call_delays_range.
    rewrite call_md_eq in S. exists f, cn. split; [exact E|].
    assert (S' : forall k, f k = cellsum nch ccell cval (nsamps - call_span) k /\ cn k = cellsum nch ccell (fun _ _ => 1) (nsamps - call_span) k).
    { intro k. destruct (S k) as [Sf Sc]. split; [|exact Sc]. rewrite Sf. apply cellsum_ext. intros a c Ha Hcx. split; [reflexivity|].
      unfold pval, cval. rewrite call_delays_eq. reflexivity. }
    split; [exact S'|].
    assert (Hin : forall a c, 0 <= a < nsamps - call_span -> 0 <= c < nch ->
                   0 <= ccell a c < Z.of_nat (Z.to_nat (fold_ncells nbins nints (fold_nbands nbands nch)))).
    { intros a c Ha Hcx. pose proof (fold_nbands_facts nbands nch Hnbands Hc).
      rewrite Z2Nat.id by (rewrite fold_ncells_eq; nia). unfold ccell. apply pcell_range with (md := call_span); try assumption; lia. }
    split.
    - erewrite sum_n_ext; [|intros k Hk; apply (proj2 (S' k))]. rewrite cellsum_total; try lia; [|exact Hin].
      erewrite sum_n_ext; [|intros a Ha; apply sum_n_const]. rewrite sum_n_const. rewrite !Z2Nat.id by lia. lia.
    - erewrite sum_n_ext; [|intros k Hk; apply (proj1 (S' k))]. rewrite cellsum_total; try lia; try exact Hin. Qed.

  (** the gulp does not enter the result of the whole call *)
  Theorem fold_call_gulp_irrelevant g2 : 1 <= g2 ->
    exists f1 c1 f2 c2,
      fold_call fs nch gulp start nsamps nn raw tsamp period accel nbins nints nbands = Some (f1, c1) /\
      fold_call fs nch g2 start nsamps nn raw tsamp period accel nbins nints nbands = Some (f2, c2) /\
      forall k, f1 k = f2 k /\ c1 k = c2 k.
  Proof. intro Hg2. pose proof call_span_nonneg as Hsp. pose proof (fold_total_ge N start nsamps nn Hs0 Hn Hr Hnn) as Htg. unfold fold_call.
    assert (Hmd : 0 <= call_md nch raw < nsamps) by (rewrite call_md_eq; lia).
    assert (Htot : 1 <= fold_total N start nsamps nn) by lia.
    apply fold_gulp_irrelevant with (N := N); try assumption; try exact call_delays_range. Qed.

  (** * cube coordinates: cell [i, b, p] of the (nints, nbands', nbins) cube holds exactly the samples whose sub-integration is i
      (by time order), whose channel lies in sub-band b (by channel order) and whose phase bin (by the phase formula) is p *)
  Let nb := fold_nbands nbands nch.
  Let tot := fold_total N start nsamps nn.
  Definition c_si (a : Z) : Z := subint_of tot nints a.
  Definition c_sb (c : Z) : Z := subband_of nch nb c.
  Definition c_pb (a : Z) : Z := fold_phasebin tsamp period accel tot nbins 0 a.

  Lemma cellsum_cube v n i b p : 0 <= n <= nsamps -> 0 <= b < nb -> 0 <= p < nbins ->
    cellsum nch ccell v n (cube_index (fold_cube_dims nints nb nbins) i b p) = cubesum nch c_si c_sb c_pb v n i b p.
  Proof. intros Hn' Hb Hp. pose proof (fold_nbands_facts nbands nch Hnbands Hc) as Hnb. fold nb in Hnb.
    pose proof (fold_total_ge N start nsamps nn Hs0 Hn Hr Hnn) as Htg. fold tot in Htg.
    unfold cellsum, cubesum. apply sum_n_ext. intros a Ha. apply sumif_ext. intros c Hcx. split; [|reflexivity].
    unfold ccell. rewrite pcell_cube. fold nb. fold tot. rewrite fold_cube_dims_eq.
    assert (R2 : 0 <= subband_of nch nb c < nb) by (apply subband_range; lia).
    assert (R3 : 0 <= fold_phasebin tsamp period accel tot nbins 0 a < nbins) by (apply fold_phasebin_range; lia).
    apply Bool.eq_iff_eq_true. rewrite !andb_true_iff, !Z.eqb_eq. unfold c_si, c_sb, c_pb. split.
    - intro E. apply cube_index_inj in E; try lia.
    - intros [[-> ->] ->]. reflexivity. Qed.

  Theorem fold_call_cube :
    exists f cn, fold_call fs nch gulp start nsamps nn raw tsamp period accel nbins nints nbands = Some (f, cn) /\
      forall i b p, 0 <= b < nb -> 0 <= p < nbins ->
        f (cube_index (fold_cube_dims nints nb nbins) i b p) = cubesum nch c_si c_sb c_pb cval (nsamps - call_span) i b p /\
        cn (cube_index (fold_cube_dims nints nb nbins) i b p) = cubesum nch c_si c_sb c_pb (fun _ _ => 1) (nsamps - call_span) i b p.
  Proof. pose proof call_span_nonneg as Hsp. destruct fold_call_spec as [f [cn [E [S _]]]]. exists f, cn. split; [exact E|].
    intros i b p Hb Hp. destruct (S (cube_index (fold_cube_dims nints nb nbins) i b p)) as [Sf Sc].
    rewrite Sf, Sc. split; apply cellsum_cube; lia. Qed.
End Call.

(** closed form: the statement holds for the regenerated call site, or the regenerated delay shift lets a negative delay through *)
Theorem fold_call_verdict :
  (forall fs nch N gulp start nsamps nn raw tsamp period accel nbins nints nbands,
     vmin (Z.to_nat nch) raw <= 0 -> 1 <= nfiles fs -> 1 <= nch -> total fs = N * nch -> 0 <= start -> 1 <= nsamps -> start + nsamps <= N -> 1 <= gulp ->
     (nn = 1 -> nsamps = N - start) -> 1 <= nbins -> 1 <= nints -> 1 <= nbands -> call_span nch raw < nsamps ->
     exists f cn, fold_call fs nch gulp start nsamps nn raw tsamp period accel nbins nints nbands = Some (f, cn) /\
       (forall k, f k = cellsum nch (ccell nch N start nsamps nn tsamp period accel nbins nints nbands) (cval fs nch start raw) (nsamps - call_span nch raw) k /\
                  cn k = cellsum nch (ccell nch N start nsamps nn tsamp period accel nbins nints nbands) (fun _ _ => 1) (nsamps - call_span nch raw) k) /\
       sum_n (Z.to_nat (fold_ncells nbins nints (fold_nbands nbands nch))) cn = (nsamps - call_span nch raw) * nch /\
       sum_n (Z.to_nat (fold_ncells nbins nints (fold_nbands nbands nch))) f =
         sum_n (Z.to_nat (nsamps - call_span nch raw)) (fun a => sum_n (Z.to_nat nch) (fun c => cval fs nch start raw a c)))
  \/ fold_delay_of (-3) (-3) < 0.
Proof. destruct fold_delays_law_verdict as [L|R]; [left|right; exact R]. intros. apply fold_call_spec with (N := N); assumption. Qed.

(** * TimeSeries.fold in cube coordinates (nints, 1, nbins) *)
Section TSCube.
  Variables (data : arr) (size : Z) (tsamp period accel : Q) (nbins nints : Z).
  Hypotheses (Hsz : 1 <= size) (Hnbins : 1 <= nbins) (Hnints : 1 <= nints).

  Theorem ts_fold_cube i p : 0 <= p < nbins ->
    let si a := subint_of size nints a in let pb a := fold_phasebin tsamp period accel size nbins 0 a in
    fst (ts_fold data size tsamp period accel nbins nints) (cube_index (ts_cube_dims nints nbins) i 0 p) =
      cubesum 1 si (fun _ => 0) pb (fun a _ => data a) size i 0 p /\
    snd (ts_fold data size tsamp period accel nbins nints) (cube_index (ts_cube_dims nints nbins) i 0 p) =
      cubesum 1 si (fun _ => 0) pb (fun _ _ => 1) size i 0 p.
  Proof. intro Hp. cbv zeta. destruct (ts_fold_spec data size tsamp period accel nbins nints Hsz Hnints (cube_index (ts_cube_dims nints nbins) i 0 p)) as [Sf Sc].
    rewrite Sf, Sc. assert (G : forall v, cellsum 1 (tcell size tsamp period accel nbins nints) v size (cube_index (ts_cube_dims nints nbins) i 0 p) =
        cubesum 1 (fun a => subint_of size nints a) (fun _ => 0) (fun a => fold_phasebin tsamp period accel size nbins 0 a) v size i 0 p).
    { intro v. unfold cellsum, cubesum. apply sum_n_ext. intros a Ha. apply sumif_ext. intros c Hcx. split; [|reflexivity].
      unfold tcell. rewrite cell_of_cube. change (ts_cube_dims nints nbins) with (nints, 1, nbins).
      assert (c = 0) by (change (Z.of_nat (Z.to_nat 1)) with 1 in Hcx; lia). subst c.
      assert (R2 : subband_of 1 1 0 = 0) by reflexivity. rewrite R2.
      assert (R3 : 0 <= fold_phasebin tsamp period accel size nbins 0 a < nbins) by (apply fold_phasebin_range; lia).
      apply Bool.eq_iff_eq_true. rewrite !andb_true_iff, !Z.eqb_eq. split.
      - intro E. apply cube_index_inj in E; try lia.
      - intros [[-> _] ->]. reflexivity. }
    split; apply G. Qed.
End TSCube.
