(** C19 -- per kernel: (a) the translated body of the prange loop has the claimed footprint, (b) the footprints of
    different iterations are disjoint (index arithmetic), hence (c) every interleaving of the iterations, at single
    load/store granularity, ends in the memory of the index-order sequential run. *)
From Coq Require Import ZArith List Bool Lia.
Require Import SPP.Model.C19_Prog SPP.Gen.C19Threads SPP.Model.C19_Footprints SPP.Proofs.C19_sched.
Import ListNotations.
Open Scope Z_scope.

Lemma fp_wr_plain (P : loc -> Z -> Prop) (W R : loc -> Prop) l v : W l -> fp P W R (wr l v).
Proof. intro H. unfold wr. constructor; [exact H|constructor]. Qed.

(** index arithmetic *)
Lemma row_inj w i j x : w * i <= x < w * (i + 1) -> w * j <= x < w * (j + 1) -> i = j.
Proof. intros H1 H2. destruct (Z.lt_trichotomy i j) as [H|[H|H]]; [exfalso|exact H|exfalso]; nia. Qed.

Lemma col_mod w s i : 0 <= i < w -> (w * s + i) mod w = i.
Proof. intro H. rewrite Z.add_comm, Z.mul_comm, Z_mod_plus_full. apply Z.mod_small; exact H. Qed.

Ltac loc_side :=
  unfold at_elem, in_array, in_row, in_col in *; cbn [fst snd] in *;
  repeat match goal with |- _ /\ _ => split end;
  try reflexivity; try assumption; try lia; try nia.

Ltac loc_goal :=
  solve [ loc_side | left; loc_side | right; loc_side | right; left; loc_side | right; right; loc_side ].

(** one structural step of a footprint derivation; leaves location side conditions *)
Ltac fp_step :=
  lazymatch goal with
  | |- fp _ _ _ (thread_of _) => apply fp_thread_of
  | |- fp _ _ _ (Ret _) => constructor
  | |- fp _ _ _ (bind (rd _) _) => apply fp_rd_bind; [ | intros ? ? ]
  | |- fp _ _ _ (bind (wr _ _) _) => apply fp_wr_bind
  | |- fp _ _ _ (wr _ _) => apply fp_wr_plain
  | |- fp _ _ _ (bind (for_ _ _ _) _) => apply fp_bind; [ apply fp_for; intros ? ? ? | intros ? ]
  | |- fp _ _ _ (bind (if ?c then _ else _) _) => apply fp_bind; [ destruct c eqn:? | intros ? ]
  | |- fp _ _ _ (match ?x with _ => _ end) => destruct x
  | |- fp _ _ _ ((fun _ => _) _) => cbv beta
  | |- fp _ _ _ (let _ := _ in _) => cbv zeta
  end.

Ltac fp_go := repeat (cbv beta zeta; fp_step).

(** * extract_tim *)
Lemma extract_tim_fp nchans nsamps index i :
  fp noinv (extract_tim_W index i) (extract_tim_R i) (extract_tim_thread nchans nsamps index i).
Proof. unfold extract_tim_thread, extract_tim_body, extract_tim_W, extract_tim_R. fp_go; loc_goal. Qed.

Lemma extract_tim_disj index i j l : i <> j ->
  extract_tim_W index i l -> ~ extract_tim_W index j l /\ ~ extract_tim_R j l.
Proof. unfold extract_tim_W, extract_tim_R, at_elem, in_array. intros Hij ->. cbn. split; [intros [= E]; lia|discriminate]. Qed.

Theorem extract_tim_sched nchans nsamps index m :
  schedule_independent_from (extract_tim_threads nchans nsamps index) m.
Proof. intros ps' m' Hs Hd. unfold extract_tim_threads in *.
  apply (prange_schedule_independent noinv (extract_tim_W index) extract_tim_R) with (ps' := ps'); auto.
  - intros; apply extract_tim_fp.
  - intros i j l _ _ Hij Hw; eapply extract_tim_disj; eauto.
  - intros; exact I.
  - intro; exact I. Qed.

(** * extract_bpass *)
Lemma extract_bpass_fp nchans nsamps i :
  fp noinv (extract_bpass_W i) (extract_bpass_R i) (extract_bpass_thread nchans nsamps i).
Proof. unfold extract_bpass_thread, extract_bpass_body, extract_bpass_W, extract_bpass_R. fp_go; loc_goal. Qed.

Lemma extract_bpass_disj i j l : i <> j ->
  extract_bpass_W i l -> ~ extract_bpass_W j l /\ ~ extract_bpass_R j l.
Proof. unfold extract_bpass_W, extract_bpass_R, at_elem, in_array. intros Hij ->. cbn. split; [intros [= E]; lia|discriminate]. Qed.

Theorem extract_bpass_sched nchans nsamps m :
  schedule_independent_from (extract_bpass_threads nchans nsamps) m.
Proof. intros ps' m' Hs Hd. unfold extract_bpass_threads in *.
  apply (prange_schedule_independent noinv extract_bpass_W extract_bpass_R) with (ps' := ps'); auto.
  - intros; apply extract_bpass_fp.
  - intros i j l _ _ Hij Hw; eapply extract_bpass_disj; eauto.
  - intros; exact I.
  - intro; exact I. Qed.

(** * mask_channels *)
Lemma mask_channels_fp maskvalue nchans nsamps i : 0 <= i < nchans ->
  fp noinv (mask_channels_W nchans i) (mask_channels_R i) (mask_channels_thread maskvalue nchans nsamps i).
Proof. intro Hi. unfold mask_channels_thread, mask_channels_body, mask_channels_W, mask_channels_R.
  fp_go; try loc_goal.
  unfold in_col; cbn [fst snd]. split; [reflexivity|]. now apply col_mod. Qed.

Lemma mask_channels_disj nchans i j l : i <> j ->
  mask_channels_W nchans i l -> ~ mask_channels_W nchans j l /\ ~ mask_channels_R j l.
Proof. unfold mask_channels_W, mask_channels_R, in_col, at_elem. intros Hij [H1 H2]. split.
  - intros [_ H3]. congruence.
  - intros ->. cbn in H1. discriminate. Qed.

Theorem mask_channels_sched maskvalue nchans nsamps m :
  schedule_independent_from (mask_channels_threads maskvalue nchans nsamps) m.
Proof. intros ps' m' Hs Hd. unfold mask_channels_threads, mask_channels_trip in *.
  apply (prange_schedule_independent noinv (mask_channels_W nchans) mask_channels_R) with (ps' := ps'); auto.
  - intros; apply mask_channels_fp; lia.
  - intros i j l _ _ Hij Hw; eapply mask_channels_disj; eauto.
  - intros; exact I.
  - intro; exact I. Qed.

(** * dedisperse *)
Lemma dedisperse_fp maxdelay nchans nsamps index i :
  fp noinv (dedisperse_W index i) (dedisperse_R i) (dedisperse_thread maxdelay nchans nsamps index i).
Proof. unfold dedisperse_thread, dedisperse_body, dedisperse_W, dedisperse_R. fp_go; loc_goal. Qed.

Lemma dedisperse_disj index i j l : i <> j ->
  dedisperse_W index i l -> ~ dedisperse_W index j l /\ ~ dedisperse_R j l.
Proof. unfold dedisperse_W, dedisperse_R, at_elem. intros Hij ->. cbn. split; [intros [= E]; lia|intros [E|E]; discriminate]. Qed.

Theorem dedisperse_sched maxdelay nchans nsamps index m :
  schedule_independent_from (dedisperse_threads maxdelay nchans nsamps index) m.
Proof. intros ps' m' Hs Hd. unfold dedisperse_threads in *.
  apply (prange_schedule_independent noinv (dedisperse_W index) dedisperse_R) with (ps' := ps'); auto.
  - intros; apply dedisperse_fp.
  - intros i j l _ _ Hij Hw; eapply dedisperse_disj; eauto.
  - intros; exact I.
  - intro; exact I. Qed.

(** * invert_freq *)
Lemma invert_freq_fp nchans nsamps i :
  fp noinv (invert_freq_W nchans i) (invert_freq_R i) (invert_freq_thread nchans nsamps i).
Proof. unfold invert_freq_thread, invert_freq_body, invert_freq_W, invert_freq_R. fp_go; loc_goal. Qed.

Lemma invert_freq_disj nchans i j l : i <> j ->
  invert_freq_W nchans i l -> ~ invert_freq_W nchans j l /\ ~ invert_freq_R j l.
Proof. unfold invert_freq_W, invert_freq_R, in_row, in_array. intros Hij [H1 H2]. split.
  - intros [_ H3]. apply Hij. eapply row_inj; eauto.
  - rewrite H1. discriminate. Qed.

Theorem invert_freq_sched nchans nsamps m :
  schedule_independent_from (invert_freq_threads nchans nsamps) m.
Proof. intros ps' m' Hs Hd. unfold invert_freq_threads in *.
  apply (prange_schedule_independent noinv (invert_freq_W nchans) invert_freq_R) with (ps' := ps'); auto.
  - intros; apply invert_freq_fp.
  - intros i j l _ _ Hij Hw; eapply invert_freq_disj; eauto.
  - intros; exact I.
  - intro; exact I. Qed.

(** * subband: under the caller's obligation that chan_to_sub maps channels to [0, nsubs) *)
Lemma subband_fp maxdelay nchans nsubs nsamps i :
  fp (subband_inv nchans nsubs) (subband_W nsubs i) (subband_R i) (subband_thread maxdelay nchans nsubs nsamps i).
Proof. unfold subband_thread, subband_body, subband_W, subband_R. fp_go; try loc_goal.
  all: match goal with H : subband_inv _ _ (subband_ID_chan_to_sub, _) _ |- _ =>
         specialize (H eq_refl); cbn [snd] in H; specialize (H ltac:(lia)) end.
  all: loc_goal. Qed.

Lemma subband_disj nsubs i j l : i <> j ->
  subband_W nsubs i l -> ~ subband_W nsubs j l /\ ~ subband_R j l.
Proof. unfold subband_W, subband_R, in_row. intros Hij [H1 H2]. split.
  - intros [_ H3]. apply Hij. eapply row_inj; eauto.
  - rewrite H1. intros [E|[E|E]]; discriminate. Qed.

Lemma subband_free nchans nsubs i l v : subband_W nsubs i l -> subband_inv nchans nsubs l v.
Proof. unfold subband_W, in_row, subband_inv. intros [H _] E. rewrite H in E. discriminate. Qed.

Theorem subband_sched maxdelay nchans nsubs nsamps m :
  okm (subband_inv nchans nsubs) m ->
  schedule_independent_from (subband_threads maxdelay nchans nsubs nsamps) m.
Proof. intros Hm ps' m' Hs Hd. unfold subband_threads in *.
  apply (prange_schedule_independent (subband_inv nchans nsubs) (subband_W nsubs) subband_R) with (ps' := ps'); auto.
  - intros; apply subband_fp.
  - intros i j l _ _ Hij Hw; eapply subband_disj; eauto.
  - intros; eapply subband_free; eauto. Qed.

(** * remove_zerodm *)
Lemma remove_zerodm_fp nchans nsamps i :
  fp noinv (remove_zerodm_W nchans i) (remove_zerodm_R i) (remove_zerodm_thread nchans nsamps i).
Proof. unfold remove_zerodm_thread, remove_zerodm_body, remove_zerodm_W, remove_zerodm_R. fp_go; loc_goal. Qed.

Lemma remove_zerodm_disj nchans i j l : i <> j ->
  remove_zerodm_W nchans i l -> ~ remove_zerodm_W nchans j l /\ ~ remove_zerodm_R j l.
Proof. unfold remove_zerodm_W, remove_zerodm_R, in_row. intros Hij [H1 H2]. split.
  - intros [_ H3]. apply Hij. eapply row_inj; eauto.
  - rewrite H1. intros [E|[E|E]]; discriminate. Qed.

Theorem remove_zerodm_sched nchans nsamps m :
  schedule_independent_from (remove_zerodm_threads nchans nsamps) m.
Proof. intros ps' m' Hs Hd. unfold remove_zerodm_threads in *.
  apply (prange_schedule_independent noinv (remove_zerodm_W nchans) remove_zerodm_R) with (ps' := ps'); auto.
  - intros; apply remove_zerodm_fp.
  - intros i j l _ _ Hij Hw; eapply remove_zerodm_disj; eauto.
  - intros; exact I.
  - intro; exact I. Qed.

(** * online moments *)
Lemma moments_fp divcast msize asize startflag i :
  fp noinv (moments_W i) (moments_R i) (compute_online_moments_thread divcast msize asize startflag i).
Proof. unfold compute_online_moments_thread, compute_online_moments_body, moments_W, moments_R. fp_go; loc_goal. Qed.

Lemma moments_disj i j l : i <> j -> moments_W i l -> ~ moments_W j l /\ ~ moments_R j l.
Proof. unfold moments_W, moments_R, in_row, in_array. intros Hij [H1 H2]. split.
  - intros [_ H3]. lia.
  - rewrite H1. discriminate. Qed.

Theorem moments_sched divcast msize asize startflag m :
  schedule_independent_from (compute_online_moments_threads divcast msize asize startflag) m.
Proof. intros ps' m' Hs Hd. unfold compute_online_moments_threads in *.
  apply (prange_schedule_independent noinv moments_W moments_R) with (ps' := ps'); auto.
  - intros; apply moments_fp.
  - intros i j l _ _ Hij Hw; eapply moments_disj; eauto.
  - intros; exact I.
  - intro; exact I. Qed.

Lemma moments_basic_fp divcast msize asize startflag i :
  fp noinv (moments_basic_W i) (moments_basic_R i) (compute_online_moments_basic_thread divcast msize asize startflag i).
Proof. unfold compute_online_moments_basic_thread, compute_online_moments_basic_body, moments_basic_W, moments_basic_R.
  fp_go; loc_goal. Qed.

Lemma moments_basic_disj i j l : i <> j -> moments_basic_W i l -> ~ moments_basic_W j l /\ ~ moments_basic_R j l.
Proof. unfold moments_basic_W, moments_basic_R, in_row, in_array. intros Hij [H1 H2]. split.
  - intros [_ H3]. lia.
  - rewrite H1. discriminate. Qed.

Theorem moments_basic_sched divcast msize asize startflag m :
  schedule_independent_from (compute_online_moments_basic_threads divcast msize asize startflag) m.
Proof. intros ps' m' Hs Hd. unfold compute_online_moments_basic_threads in *.
  apply (prange_schedule_independent noinv moments_basic_W moments_basic_R) with (ps' := ps'); auto.
  - intros; apply moments_basic_fp.
  - intros i j l _ _ Hij Hw; eapply moments_basic_disj; eauto.
  - intros; exact I.
  - intro; exact I. Qed.

(** * decimation *)
Lemma downsample_1d_fp divcast asize factor i :
  fp noinv (downsample_1d_W i) (downsample_1d_R i) (downsample_1d_mean_parallel_thread divcast asize factor i).
Proof. unfold downsample_1d_mean_parallel_thread, downsample_1d_mean_parallel_body, downsample_1d_W, downsample_1d_R.
  fp_go; loc_goal. Qed.

Lemma downsample_1d_disj i j l : i <> j -> downsample_1d_W i l -> ~ downsample_1d_W j l /\ ~ downsample_1d_R j l.
Proof. unfold downsample_1d_W, downsample_1d_R, at_elem, in_array. intros Hij ->. cbn. split; [intros [= E]; lia|discriminate]. Qed.

Theorem downsample_1d_sched divcast asize factor m :
  schedule_independent_from (downsample_1d_mean_parallel_threads divcast asize factor) m.
Proof. intros ps' m' Hs Hd. unfold downsample_1d_mean_parallel_threads in *.
  apply (prange_schedule_independent noinv downsample_1d_W downsample_1d_R) with (ps' := ps'); auto.
  - intros; apply downsample_1d_fp.
  - intros i j l _ _ Hij Hw; eapply downsample_1d_disj; eauto.
  - intros; exact I.
  - intro; exact I. Qed.

Lemma downsample_2d_fp divcast factor1 factor2 dim1 dim2 i :
  fp noinv (downsample_2d_W factor2 dim2 i) (downsample_2d_R i)
     (downsample_2d_mean_parallel_thread divcast factor1 factor2 dim1 dim2 i).
Proof. unfold downsample_2d_mean_parallel_thread, downsample_2d_mean_parallel_body, downsample_2d_W, downsample_2d_R.
  fp_go; loc_goal. Qed.

Lemma downsample_2d_disj factor2 dim2 i j l : i <> j ->
  downsample_2d_W factor2 dim2 i l -> ~ downsample_2d_W factor2 dim2 j l /\ ~ downsample_2d_R j l.
Proof. unfold downsample_2d_W, downsample_2d_R, in_row, in_array. intros Hij [H1 H2]. split.
  - intros [_ H3]. apply Hij. eapply row_inj; eauto.
  - rewrite H1. discriminate. Qed.

Theorem downsample_2d_sched divcast factor1 factor2 dim1 dim2 m :
  schedule_independent_from (downsample_2d_mean_parallel_threads divcast factor1 factor2 dim1 dim2) m.
Proof. intros ps' m' Hs Hd. unfold downsample_2d_mean_parallel_threads in *.
  apply (prange_schedule_independent noinv (downsample_2d_W factor2 dim2) downsample_2d_R) with (ps' := ps'); auto.
  - intros; apply downsample_2d_fp.
  - intros i j l _ _ Hij Hw; eapply downsample_2d_disj; eauto.
  - intros; exact I.
  - intro; exact I. Qed.
