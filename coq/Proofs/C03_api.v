(** C03: the public wrappers io/bits.py::unpack / ::pack (Gen/BitsApi.v, regenerated from the source): exactly which calls are refused
    (ValueError) and what an accepted call returns, in terms of the bit-field specification. *)
From Coq Require Import ZArith List Bool Lia.
Require Import SPP.Base.Rt SPP.Base.Iter SPP.Gen.Kernels SPP.Gen.BitsApi SPP.Model.Bits SPP.Proofs.C03_bits.
Import ListNotations.
Open Scope Z_scope.

(** the kernel selected through the f-string name is the dispatch of Model/Bits.v, with 'b' meaning most-significant field first *)
Lemma unpack_kernel_is nb first n a u : In nb [1; 2; 4] ->
  unpack_kernel nb (unpack_order_true first) n a u = unpack_run nb (unpack_order_true first) n a u.
Proof. cbn [In]. intros [<-|[<-|[<-|[]]]]; reflexivity. Qed.

Lemma pack_kernel_is nb first n v p : In nb [1; 2; 4] ->
  pack_kernel nb (pack_order_true first) n v p = pack_run nb (pack_order_true first) n v p.
Proof. cbn [In]. intros [<-|[<-|[<-|[]]]]; reflexivity. Qed.

Lemma nbits_ok_iff nb : unpack_nbits_ok nb = true <-> In nb [1; 2; 4].
Proof. unfold unpack_nbits_ok. cbn [In]. rewrite !orb_true_iff, !Z.eqb_eq. intuition. Qed.

Lemma pack_nbits_ok_iff nb : pack_nbits_ok nb = true <-> In nb [1; 2; 4].
Proof. unfold pack_nbits_ok. cbn [In]. rewrite !orb_true_iff, !Z.eqb_eq. intuition. Qed.

(** a call is accepted exactly when the array is uint8, the depth is 1, 2 or 4, the bit order starts with 'b' (98) or 'l' (108), and a
    supplied output buffer has exactly the right size *)
Definition unpack_accepts (is_u8 : bool) (nb : Z) (first : option Z) (n : Z) (buf : option (arr * Z)) : Prop :=
  is_u8 = true /\ In nb [1; 2; 4] /\ (first = Some 98 \/ first = Some 108) /\
  match buf with None => True | Some (_, sz) => sz = n * bf nb end.

Lemma order_ok_iff first : unpack_order_ok first = true <-> (first = Some 98 \/ first = Some 108).
Proof. unfold unpack_order_ok. destruct first as [c|]; [|split; [discriminate|intros [H|H]; discriminate]].
  rewrite orb_true_iff, !Z.eqb_eq. split; intros [H|H]; try (left; congruence); try (right; congruence). Qed.

Lemma pack_order_ok_iff first : pack_order_ok first = true <-> (first = Some 98 \/ first = Some 108).
Proof. exact (order_ok_iff first). Qed.

Theorem unpack_api_refuses is_u8 nb first a n buf :
  unpack_api is_u8 nb first a n buf = None <-> ~ unpack_accepts is_u8 nb first n buf.
Proof. unfold unpack_api, unpack_accepts. fold (bf nb).
  destruct is_u8; cbn [negb]; [|split; [intros _ [H _]; discriminate|reflexivity]].
  destruct (unpack_nbits_ok nb) eqn:En; cbn [negb].
  2:{ split; [intros _ [_ [H _]]; apply nbits_ok_iff in H; congruence|reflexivity]. }
  apply nbits_ok_iff in En.
  destruct (unpack_order_ok first) eqn:Eo; cbn [negb].
  2:{ split; [intros _ [_ [_ [H _]]]; apply order_ok_iff in H; congruence|reflexivity]. }
  apply order_ok_iff in Eo. cbv zeta.
  destruct buf as [[u sz]|].
  - destruct (Z.eqb_spec sz (n * bf nb)) as [E|NE]; cbn [negb].
    + split; [discriminate|]. intro H. exfalso. apply H. auto.
    + split; [|reflexivity]. intros _ [_ [_ [_ H]]]. contradiction.
  - split; [discriminate|]. intro H. exfalso. apply H. auto. Qed.

(** an accepted call returns n * (8 / nbits) values: field j mod bf of byte j / bf, most significant field first iff the order starts
    with 'b'; with a supplied buffer nothing outside those positions is touched, without one the result is a fresh zero-filled array *)
Theorem unpack_api_accepts is_u8 nb first a n buf : 0 <= n -> (forall i, 0 <= i < n -> 0 <= a i < 256) ->
  unpack_accepts is_u8 nb first n buf ->
  exists r, unpack_api is_u8 nb first a n buf = Some (r, n * bf nb) /\
    forall j, r j = if (0 <=? j) && (j <? bf nb * n) then field nb (unpack_order_true first) (a (j / bf nb)) (j mod bf nb)
                    else match buf with Some (u, _) => u j | None => 0 end.
Proof. intros Hn Ha [Hu [Hnb [Ho Hb]]]. subst is_u8. unfold unpack_api. fold (bf nb). cbn [negb].
  rewrite (proj2 (nbits_ok_iff nb) Hnb), (proj2 (order_ok_iff first) Ho). cbn [negb]. cbv zeta.
  destruct buf as [[u sz]|].
  - subst sz. rewrite Z.eqb_refl. cbn [negb]. eexists. split; [reflexivity|]. intro j.
    rewrite unpack_kernel_is by exact Hnb. apply unpack_run_spec; assumption.
  - eexists. split; [reflexivity|]. intro j. rewrite unpack_kernel_is by exact Hnb.
    rewrite unpack_run_spec by assumption. destruct ((0 <=? j) && (j <? bf nb * n)); reflexivity. Qed.

(** pack: [n] = number of samples handed in; the output has n / bf bytes (the kernels are called with that count) *)
Definition pack_accepts (is_u8 : bool) (nb : Z) (first : option Z) (n : Z) (buf : option (arr * Z)) : Prop :=
  is_u8 = true /\ In nb [1; 2; 4] /\ (first = Some 98 \/ first = Some 108) /\
  match buf with None => True | Some (_, sz) => sz = n / bf nb end.

Theorem pack_api_refuses is_u8 nb first v n buf :
  pack_api is_u8 nb first v n buf = None <-> ~ pack_accepts is_u8 nb first n buf.
Proof. unfold pack_api, pack_accepts. fold (bf nb).
  destruct is_u8; cbn [negb]; [|split; [intros _ [H _]; discriminate|reflexivity]].
  destruct (pack_nbits_ok nb) eqn:En; cbn [negb].
  2:{ split; [intros _ [_ [H _]]; apply pack_nbits_ok_iff in H; congruence|reflexivity]. }
  apply pack_nbits_ok_iff in En.
  destruct (pack_order_ok first) eqn:Eo; cbn [negb].
  2:{ split; [intros _ [_ [_ [H _]]]; apply pack_order_ok_iff in H; congruence|reflexivity]. }
  apply pack_order_ok_iff in Eo. cbv zeta.
  destruct buf as [[u sz]|].
  - destruct (Z.eqb_spec sz (n / bf nb)) as [E|NE]; cbn [negb].
    + split; [discriminate|]. intro H. exfalso. apply H. auto.
    + split; [|reflexivity]. intros _ [_ [_ [_ H]]]. contradiction.
  - split; [discriminate|]. intro H. exfalso. apply H. auto. Qed.

Theorem pack_api_accepts is_u8 nb first v n buf : 0 <= n -> (forall i, 0 <= i < bf nb * (n / bf nb) -> 0 <= v i < 2 ^ nb) ->
  pack_accepts is_u8 nb first n buf ->
  exists r, pack_api is_u8 nb first v n buf = Some (r, n / bf nb) /\
    forall j, r j = if (0 <=? j) && (j <? n / bf nb) then byte_of nb (pack_order_true first) (fun k => v (j * bf nb + k))
                    else match buf with Some (u, _) => u j | None => 0 end.
Proof. intros Hn Hv [Hu [Hnb [Ho Hb]]]. subst is_u8. unfold pack_api. fold (bf nb). cbn [negb].
  rewrite (proj2 (pack_nbits_ok_iff nb) Hnb), (proj2 (pack_order_ok_iff first) Ho). cbn [negb]. cbv zeta.
  assert (Hq : 0 <= n / bf nb) by (apply Z.div_pos; [lia|destruct (bf_pos nb Hnb); lia]).
  destruct buf as [[u sz]|].
  - subst sz. rewrite Z.eqb_refl. cbn [negb]. eexists. split; [reflexivity|]. intro j.
    rewrite pack_kernel_is by exact Hnb. apply pack_run_spec; assumption.
  - eexists. split; [reflexivity|]. intro j. rewrite pack_kernel_is by exact Hnb.
    rewrite pack_run_spec by assumption. destruct ((0 <=? j) && (j <? n / bf nb)); reflexivity. Qed.
