(** C09 -- witnesses that the forms found in the pinned tree violate the property (vm_compute on concrete
    inputs).  They are statements about fixed terms, so they stay true after the source is repaired. *)
From Coq Require Import ZArith List Bool Lia.
Require Import SPP.Base.Rt SPP.Model.C09_Arr2 SPP.Model.C09_Spec SPP.Gen.C09 SPP.Model.C09_Pinned.
Import ListNotations.
Open Scope Z_scope.

(** handing +dm_delays (instead of -dm_delays) to dmt_block DISPERSES the rows: row i is not the channel sum
    of the block dedispersed with the delays of row i *)
Lemma dmt_plus_sign_refuted :
  exists x nchans n D ndms out,
    dmt_block_run (fun _ _ => 0) (fun _ _ _ => 0) x nchans n D ndms nchans = Some out /\
    exists i t, 0 <= i < ndms /\ 0 <= t < n /\ out i t <> spec_dmt x nchans n D i t.
Proof.
  exists (of_list2 [[5; 0; 0; 0]; [7; 0; 0; 0]]), 2, 4, (of_list2 [[0; 1]]), 1.
  eexists. split; [vm_compute; reflexivity|]. exists 0, 1. vm_compute. repeat split; congruence.
Qed.

(** dmt_block_valid as pinned raises although the declared number of valid samples is positive, as soon as two
    rows of the delay table have different ranges *)
Lemma dmt_valid_pinned_refuted :
  exists x nchans n D ndms,
    0 < n - span_of2 ndms nchans D /\
    dmt_block_valid_pinned (fun _ _ => 0) (fun _ _ _ => 0) x nchans n (fun i k => - D i k) ndms nchans = None.
Proof.
  exists (of_list2 [[1; 2; 3; 4]; [5; 6; 7; 8]]), 2, 4, (of_list2 [[0; 0]; [0; 1]]), 2.
  split; vm_compute; reflexivity.
Qed.
