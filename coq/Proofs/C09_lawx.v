(** C09 -- the law at the edges of its quantifier: a reference frequency outside the band or infinite, a numeric
    reference equal to a channel frequency, the band centre of an odd number of channels, and the shape of the
    array compute_dmdelays returns (one channel, one DM). *)
From Coq Require Import ZArith List Bool QArith Qabs Lia.
Require Import SPP.Base.Rt SPP.Model.C09_Arr2 SPP.Model.C09_Spec SPP.Gen.C09 SPP.Proofs.C09_law.
Import ListNotations.
Open Scope Q_scope.

(** the delay against a reference is the delay against infinite frequency minus the reference's own such delay;
    that term is dm*K/ref^2: it vanishes as ref grows, and no hypothesis places ref inside the band *)
Lemma law_reference_term f dm ref :
  dmdelay_sec f dm ref == dm * dm_constant * / (f * f) - dm * dm_constant * / (ref * ref).
Proof. unfold dmdelay_sec. ring. Qed.

(** float('inf') ** -2 is 0.0; in Q the same value of ref_freq ** -2 is obtained at ref_freq := 0 (Qinv 0 = 0), so
    [dmdelay_samples f dm ts 0] is the model's term for ref_freq = +inf *)
Lemma law_infinite_reference f dm ts :
  nearest_even (dm_constant * dm * (/ (f * f)) / ts) (dmdelay_samples f dm ts 0).
Proof.
  unfold dmdelay_samples. eapply nearest_even_comp; [|apply rhe_nearest].
  unfold dmdelay_sec, Qdiv. change (/ (0 * 0)) with 0. ring.
Qed.

(** a numeric reference equal to a channel's frequency: that channel is not delayed *)
Lemma law_zero_at_channel fch1 foff ts dm i : hdr_delay fch1 foff ts dm (hdr_chan_freq fch1 foff i) i = 0%Z.
Proof. unfold hdr_delay. apply law_zero_at_ref. Qed.

(** shape of the result *)
Lemma delays_shape_scalar ndm nchans : dmdelays_shape true ndm nchans = [nchans].
Proof. reflexivity. Qed.
Lemma delays_shape_table ndm nchans : dmdelays_shape false ndm nchans = [ndm; nchans].
Proof. reflexivity. Qed.
