(** C13: the rows computed by the generated kernels.convolve_templates are the direct response sums (sum
    re-indexing under rotation / reflection), arg-max pick, invariance and the boxcar Cauchy-Schwarz core. *)
From Coq Require Import ZArith List Bool Lia ZifyBool QArith Qfield.
Require Import SPP.Base.Rt SPP.Base.Iter SPP.Model.C12_np SPP.Model.C12_conv SPP.Model.C13_np SPP.Gen.Kernels
        SPP.Gen.MatchedFilter SPP.Model.C13_mf SPP.Proofs.C12_conv.
Import ListNotations.
Open Scope Z_scope.
Ltac Zify.zify_post_hook ::= Z.to_euclidean_division_equations.

(** * list helpers *)
Lemma of_list_map f l i : 0 <= i < len l -> of_list (map f l) i = f (of_list l i).
Proof. unfold of_list, len. intro H. destruct (i <? 0) eqn:?; [lia|].
  rewrite nth_indep with (d' := f 0) by (rewrite map_length; lia). apply map_nth. Qed.

Lemma len_map {A B} (f : A -> B) l : len (map f l) = len l.
Proof. unfold len. now rewrite map_length. Qed.

Lemma len_roll l s : len (np_roll l s) = len l.
Proof. unfold np_roll. apply to_list_len, len_nonneg. Qed.

Lemma of_list_roll l s i : 0 <= i < len l -> of_list (np_roll l s) i = of_list l ((i - s) mod len l).
Proof. intro H. unfold np_roll. rewrite of_list_to_list.
  destruct (0 <=? i) eqn:?, (i <? len l) eqn:?; cbn [andb]; try lia; reflexivity. Qed.

Lemma np_slice_len_min l n : 0 <= n -> len (np_slice l 0 n) = Z.min n (len l).
Proof. unfold np_slice, len. intro H. rewrite Z.sub_0_r. change (Z.to_nat 0) with 0%nat. cbn [skipn].
  rewrite firstn_length. lia. Qed.

Lemma len_zeros n : 0 <= n -> len (np_zeros n) = n.
Proof. intro H. unfold len, np_zeros. rewrite repeat_length. lia. Qed.

Lemma nth_repeat0 m n : nth n (repeat 0 m) 0 = 0.
Proof. revert n. induction m as [|m IH]; intros [|n]; cbn; auto. Qed.

Lemma skipn_repeat0 k m : skipn k (repeat 0 m) = repeat 0 (m - k).
Proof. revert k. induction m as [|m IH]; intros [|k]; cbn; auto. Qed.

Lemma assign_prefix_zeros k N : len k <= N -> np_assign_prefix (np_zeros N) k = pad k N.
Proof. intro H. pose proof (len_nonneg k) as Hk. apply list_eq_of_list.
  - unfold np_assign_prefix, np_zeros. rewrite pad_len by lia. unfold len in *.
    rewrite app_length, skipn_length, repeat_length. lia.
  - intros i Hi. rewrite of_list_pad.
    assert (Hl : len (np_assign_prefix (np_zeros N) k) = N).
    { unfold np_assign_prefix, np_zeros, len in *. rewrite app_length, skipn_length, repeat_length. lia. }
    rewrite Hl in Hi. destruct (0 <=? i) eqn:?, (i <? N) eqn:?; cbn [andb]; try lia.
    unfold np_assign_prefix, of_list, len in *. destruct (i <? 0) eqn:?; [lia|].
    destruct (Z.lt_ge_cases i (Z.of_nat (length k))) as [Hlt|Hge].
    + rewrite app_nth1 by lia. reflexivity.
    + rewrite app_nth2 by lia. rewrite (nth_overflow k) by lia.
      unfold np_zeros. rewrite skipn_repeat0. apply nth_repeat0.
Qed.

(** the generated circular_pad_goodsize (Gen/Kernels.v): entry i is data[i mod n] *)
Lemma circular_pad_spec gs n junk a i :
  circular_pad_goodsize_run gs n junk a i = if (0 <=? i) && (i <? Z.of_nat (Z.to_nat (gs n))) then a (i mod n) else junk i.
Proof. unfold circular_pad_goodsize_run. cbv zeta.
  rewrite (iter_ext _ _ (fun i o => upd o (0 + i) (a (i mod n)))) by (intros; reflexivity).
  rewrite iter_assign_affine. rewrite Z.add_0_l, Z.sub_0_r. reflexivity. Qed.

(** * normalisation commutes with a reflection of the index range *)
Lemma normalize_len Nm l : len (normalize_template_run Nm l) = len l.
Proof. unfold normalize_template_run. cbv zeta. now rewrite !len_map. Qed.

Lemma normalize_index Nm l i : 0 <= i < len l ->
  of_list (normalize_template_run Nm l) i = tnorm Nm (len l) (of_list l) i.
Proof. intro Hi. unfold normalize_template_run. cbv zeta. rewrite of_list_map by (rewrite len_map; exact Hi).
  rewrite of_list_map by exact Hi. unfold tnorm, tnorm2, tmean, len. rewrite Nat2Z.id. f_equal.
  rewrite map_length. apply sum_n_ext. intros k Hk.
  rewrite of_list_map by (unfold len; lia). reflexivity. Qed.

Lemma tnorm_reflect Nm N c (tp h : arr) : 0 < N -> (forall i, 0 <= i < N -> h i = tp ((c - i) mod N)) ->
  forall i, 0 <= i < N -> tnorm Nm N h i = tnorm Nm N tp ((c - i) mod N).
Proof. intros HN Hh i Hi.
  assert (Em : tmean Nm N h = tmean Nm N tp).
  { unfold tmean. f_equal. rewrite <- (sum_n_refl N c tp HN). apply sum_n_ext. intros j Hj. apply Hh. lia. }
  assert (E2 : tnorm2 Nm N h = tnorm2 Nm N tp).
  { unfold tnorm2. rewrite Em. rewrite <- (sum_n_refl N c (fun i => (tp i - tmean Nm N tp) * (tp i - tmean Nm N tp)) HN).
    apply sum_n_ext. intros j Hj. rewrite Hh by lia. reflexivity. }
  unfold tnorm. rewrite Em, E2, Hh by lia. reflexivity. Qed.

(** roll by -ref, reverse, roll by 1: entry i is tp[(ref - i) mod N] *)
Lemma flipped_template l ref i : 0 <= i < len l ->
  of_list (np_roll (np_rev (np_roll l (- ref))) 1) i = of_list l ((ref - i) mod len l).
Proof. intro Hi. set (N := len l) in *.
  rewrite of_list_roll by (rewrite len_rev, len_roll; exact Hi). rewrite len_rev, len_roll. fold N.
  rewrite of_list_rev, len_roll. fold N.
  assert (Hm : 0 <= (i - 1) mod N < N) by (apply Z.mod_pos_bound; lia).
  rewrite of_list_roll by (fold N; lia). fold N. f_equal.
  pose proof (Z.div_mod (i - 1) N ltac:(lia)) as D.
  replace (N - 1 - (i - 1) mod N - - ref) with (ref - i + (1 + (i - 1) / N) * N) by lia.
  apply Z_mod_plus_full. Qed.

(** * the response formula *)
Lemma map_zrange_ext {A} (f g : Z -> A) n : (forall i, 0 <= i < n -> f i = g i) -> map f (zrange n) = map g (zrange n).
Proof. intro H. apply map_ext_in. intros i Hi. apply H. now apply In_zrange. Qed.

Section Response.
  Variable F : fft_ops.
  Variable Nm : norm_ops.
  Hypothesis laws : fft_laws F.

  (** one row, for any padded series P (len P = N >= nbins) and any inverse length equal to N *)
  Lemma ct_row_spec ilen (P : list Z) nbins kernel ref :
    let N := len P in
    1 <= nbins <= N -> len kernel <= N ->
    (forall a b, ilen (fft_smul F (fft_rfft F a N) (fft_rfft F b N)) N = N) ->
    let temp_pad := np_roll (np_rev (np_roll (np_assign_prefix (np_zeros (len P)) kernel) (- ref))) 1 in
    let temp_norm := normalize_template_run Nm temp_pad in
    let prod := fft_smul F (fft_rfft F P (len P)) (fft_rfft F temp_norm (len temp_norm)) in
    np_slice (fft_irfft F prod (ilen prod (len P))) 0 nbins = to_list nbins (response_p Nm P kernel ref).
  Proof. intros N Hn Hk Hil. destruct laws as (_ & _ & H3 & _). assert (N0 : 0 < N) by lia.
    cbv zeta. fold N. rewrite assign_prefix_zeros by exact Hk.
    set (h := np_roll (np_rev (np_roll (pad kernel N) (- ref))) 1).
    assert (Lh : len h = N) by (unfold h; rewrite len_roll, len_rev, len_roll; apply pad_len; lia).
    rewrite normalize_len, Lh. rewrite Hil. rewrite H3 by lia.
    assert (PP : pad P N = P) by apply pad_full.
    assert (Phn : pad (normalize_template_run Nm h) N = normalize_template_run Nm h)
      by (rewrite <- Lh, <- (normalize_len Nm h); apply pad_full).
    rewrite PP, Phn.
    unfold cconv_list. rewrite np_slice_to_list by lia. apply to_list_ext. intros t Ht.
    unfold response_p. fold N. set (tn := tnorm Nm N (of_list (pad kernel N))).
    rewrite (cconv_ext N _ (of_list P) _ (fun i => tn ((ref - i) mod N))); try lia.
    - unfold cconv.
      rewrite <- (sum_n_rot N (ref - t) (fun k => of_list P ((t + k - ref) mod N) * tn k) N0).
      apply sum_n_ext. intros j Hj. rewrite Z2Nat.id in Hj by lia. f_equal.
      + f_equal. pose proof (Z.div_mod (ref - t + j) N ltac:(lia)) as D.
        replace (t + (ref - t + j) mod N - ref) with (j + (- ((ref - t + j) / N)) * N) by lia.
        rewrite Z_mod_plus_full. symmetry. apply Z.mod_small. lia.
      + f_equal. rewrite Zminus_mod_idemp_r. f_equal. lia.
    - intros i Hi. rewrite normalize_index by lia. rewrite Lh.
      apply (tnorm_reflect Nm N ref (of_list (pad kernel N)) (of_list h) N0); [|exact Hi].
      intros k Hk'. unfold h. rewrite flipped_template by (rewrite pad_len; lia). rewrite pad_len by lia. reflexivity.
  Qed.

  (** every row is the direct response sum over the padded series, whenever the inverse returns the padded length *)
  Lemma response_formula_gen padfn ilen data bank refs :
    let P := padfn data in
    1 <= len data <= len P -> (forall k, In k bank -> len k <= len P) ->
    (forall a b, ilen (fft_smul F (fft_rfft F a (len P)) (fft_rfft F b (len P))) (len P) = len P) ->
    ct_rows_gen F Nm padfn ilen data bank refs = responses_p Nm P (len data) bank refs.
  Proof. intros P Hn Hb Hil. unfold ct_rows_gen, responses_p. cbv zeta. apply map_zrange_ext. intros i Hi.
    apply (ct_row_spec ilen (padfn data) (len data) (nth (Z.to_nat i) bank []) (nth (Z.to_nat i) refs 0) Hn); [|exact Hil].
    apply Hb. apply nth_In. unfold len in Hi. lia. Qed.

  (** the source is, textually, one of the four combinations {circular good-size pad, no pad} x {default, given length} *)
  Definition src_is padfn ilen := forall data bank refs, convolve_templates_run F Nm data bank refs = ct_rows_gen F Nm padfn ilen data bank refs.
  Lemma ct_form : src_is (cpad F) (ilen_default F) \/ src_is (cpad F) (ilen_given F) \/ src_is nopad (ilen_default F) \/ src_is nopad (ilen_given F).
  Proof. unfold src_is. first [ left; intros; reflexivity | right; left; intros; reflexivity
                              | right; right; left; intros; reflexivity | right; right; right; intros; reflexivity ]. Qed.

  Lemma ilen_given_ok N : forall a b, ilen_given F (fft_smul F (fft_rfft F a N) (fft_rfft F b N)) N = N.
  Proof. reflexivity. Qed.

  Lemma ilen_default_even N : 1 <= N -> Z.even N = true ->
    forall a b, ilen_default F (fft_smul F (fft_rfft F a N) (fft_rfft F b N)) N = N.
  Proof. intros HN He a b. destruct laws as (_ & _ & _ & H4 & _). unfold ilen_default, np_irfft_default_len.
    destruct (H4 a b N HN) as [_ ->]. rewrite Z.even_spec in He. destruct He as [k Hk]. lia. Qed.

  (** the two paddings *)
  Lemma cpad_len data : 1 <= len data -> len data <= len (cpad F data) /\ len (cpad F data) = fft_good_size F (len data).
  Proof. intro Hn. destruct laws as (H1 & _). specialize (H1 (len data) Hn). unfold cpad. rewrite to_list_len by lia. lia. Qed.

  Lemma cpad_index data j : 1 <= len data -> 0 <= j < fft_good_size F (len data) -> of_list (cpad F data) j = dpad data j.
  Proof. intros Hn Hj. unfold cpad. rewrite of_list_to_list.
    destruct (0 <=? j) eqn:?, (j <? fft_good_size F (len data)) eqn:?; cbn [andb]; try lia.
    rewrite circular_pad_spec. unfold dpad.
    destruct (0 <=? j) eqn:?, (j <? Z.of_nat (Z.to_nat (fft_good_size F (len data)))) eqn:?; cbn [andb]; try reflexivity; lia. Qed.

  (** with the periodic good-size padding the row sums read  sum_k dpad[(t + k - ref) mod N] * tnorm[k] *)
  Lemma response_p_cpad data kernel ref t : 1 <= len data ->
    response_p Nm (cpad F data) kernel ref t = response Nm data kernel ref (fft_good_size F (len data)) t.
  Proof. intro Hn. destruct (cpad_len data Hn) as [Hle HL]. unfold response_p, response. rewrite HL.
    apply sum_n_ext. intros k Hk. f_equal. apply cpad_index; [exact Hn|]. apply Z.mod_pos_bound. lia. Qed.

  (** PARTIAL, over the CURRENT source whichever of the four forms it has: the rows are the direct sums over the padded
      series P the source uses, for every even padded length *)
  Lemma response_formula_even data bank refs :
    1 <= len data -> (forall k, In k bank -> len k <= len data) ->
    exists P, (P = cpad F data \/ P = data) /\
      (Z.even (len P) = true -> convolve_templates_run F Nm data bank refs = responses_p Nm P (len data) bank refs).
  Proof. intros Hn Hb. destruct (cpad_len data Hn) as [Hle HL].
    assert (Hbc : forall k, In k bank -> len k <= len (cpad F data)) by (intros k Hk; specialize (Hb k Hk); lia).
    destruct ct_form as [E|[E|[E|E]]].
    - exists (cpad F data). split; [now left|]. intro He. rewrite E. apply response_formula_gen; try lia; try assumption.
      apply ilen_default_even; [lia|exact He].
    - exists (cpad F data). split; [now left|]. intro He. rewrite E. apply response_formula_gen; try lia; try assumption.
      apply ilen_given_ok.
    - exists data. split; [now right|]. intro He. rewrite E. apply (response_formula_gen nopad); unfold nopad; try lia; try assumption.
      apply ilen_default_even; [lia|exact He].
    - exists data. split; [now right|]. intro He. rewrite E. apply (response_formula_gen nopad); unfold nopad; try lia; try assumption.
      apply ilen_given_ok. Qed.

  (** full strength for every data length, once the source transforms at the data length and hands it to the inverse:
      convs[i][t] = sum_k z[(t + k - ref_i) mod n] * tnorm_i[k], templates normalised over n *)
  Lemma response_formula_exact data bank refs :
    1 <= len data -> (forall k, In k bank -> len k <= len data) -> src_is nopad (ilen_given F) ->
    convolve_templates_run F Nm data bank refs = responses_p Nm data (len data) bank refs.
  Proof. intros Hn Hb E. rewrite E. apply (response_formula_gen nopad); unfold nopad; try lia; try assumption. apply ilen_given_ok. Qed.

  (** the same with the periodic good-size padding kept (form of the pinned source with the inverse length given) *)
  Lemma response_formula_cpad data bank refs :
    1 <= len data -> (forall k, In k bank -> len k <= len data) -> src_is (cpad F) (ilen_given F) ->
    convolve_templates_run F Nm data bank refs =
    map (fun itemp => to_list (len data) (response Nm data (nth (Z.to_nat itemp) bank []) (nth (Z.to_nat itemp) refs 0) (fft_good_size F (len data))))
        (zrange (len bank)).
  Proof. intros Hn Hb E. rewrite E. destruct (cpad_len data Hn) as [Hle HL].
    assert (Hbc : forall k, In k bank -> len k <= len (cpad F data)) by (intros k Hk; specialize (Hb k Hk); lia).
    rewrite (response_formula_gen (cpad F) (ilen_given F) data bank refs ltac:(lia) Hbc (ilen_given_ok _)).
    unfold responses_p. apply map_zrange_ext. intros i Hi. apply to_list_ext. intros t Ht. apply response_p_cpad. exact Hn. Qed.

  (** inverse without a length at an ODD padded length N = nbins: every row has nbins - 1 values *)
  Lemma ct_default_len_odd padfn data bank refs row :
    let N := len (padfn data) in
    1 <= len data -> len data = N -> Z.odd N = true -> (forall k, In k bank -> len k <= N) ->
    In row (ct_rows_gen F Nm padfn (ilen_default F) data bank refs) -> len row = len data - 1.
  Proof. intros N Hn HeqN Ho Hb Hin. destruct laws as (H1 & _ & _ & H4 & H5).
    unfold ct_rows_gen in Hin. cbv zeta in Hin. apply in_map_iff in Hin. destruct Hin as [i [<- Hi]].
    apply In_zrange in Hi. fold N.
    rewrite assign_prefix_zeros by (apply Hb, nth_In; unfold len in Hi; lia).
    rewrite normalize_len, len_roll, len_rev, len_roll, pad_len by lia.
    unfold ilen_default, np_irfft_default_len.
    match goal with |- context [fft_slen F (fft_smul F (fft_rfft F ?a N) (fft_rfft F ?b N))] =>
      destruct (H4 a b N ltac:(lia)) as [_ ->] end.
    rewrite Z.odd_spec in Ho. destruct Ho as [k Hk].
    rewrite np_slice_len_min by lia. rewrite H5 by lia. lia. Qed.
End Response.

(** * arg-max over (template, bin) *)
Lemma len_app {A} (p q : list A) : len (p ++ q) = len p + len q.
Proof. unfold len. rewrite app_length. lia. Qed.

Lemma of_list_app1 p q j : 0 <= j < len p -> of_list (p ++ q) j = of_list p j.
Proof. unfold of_list, len. intro H. destruct (j <? 0) eqn:?; [lia|]. apply app_nth1. lia. Qed.

Lemma of_list_app2 p q j : len p <= j -> of_list (p ++ q) j = of_list q (j - len p).
Proof. unfold of_list, len. intro H. destruct (j <? 0) eqn:?, (j - Z.of_nat (length p) <? 0) eqn:?; try lia.
  rewrite app_nth2 by lia. f_equal. lia. Qed.

Lemma argmax_from_correct r : forall p best besti,
  0 <= besti < len p -> of_list p besti = best ->
  (forall j, 0 <= j < len p -> of_list p j <= best) -> (forall j, 0 <= j < besti -> of_list p j < best) ->
  let k := argmax_from r (len p) best besti in
  0 <= k < len (p ++ r) /\ (forall j, 0 <= j < len (p ++ r) -> of_list (p ++ r) j <= of_list (p ++ r) k) /\
  (forall j, 0 <= j < k -> of_list (p ++ r) j < of_list (p ++ r) k).
Proof. induction r as [|x r IH]; intros p best besti Hb Hv Hall Hfirst; cbn [argmax_from].
  - rewrite app_nil_r. rewrite Hv. auto.
  - assert (E : p ++ x :: r = (p ++ [x]) ++ r) by (rewrite <- app_assoc; reflexivity).
    assert (L : len (p ++ [x]) = len p + 1) by (rewrite len_app; reflexivity).
    assert (Hx : of_list (p ++ [x]) (len p) = x).
    { rewrite of_list_app2 by lia. rewrite Z.sub_diag. reflexivity. }
    rewrite E. rewrite <- L. destruct (best <? x) eqn:C.
    + apply IH.
      * rewrite L. pose proof (len_nonneg p). lia.
      * exact Hx.
      * intros j Hj. rewrite L in Hj. destruct (Z.eq_dec j (len p)) as [->|Hne]; [rewrite Hx; lia|].
        rewrite of_list_app1 by lia. specialize (Hall j ltac:(lia)). lia.
      * intros j Hj. rewrite of_list_app1 by lia. specialize (Hall j ltac:(lia)). lia.
    + apply IH.
      * rewrite L. lia.
      * rewrite of_list_app1 by lia. exact Hv.
      * intros j Hj. rewrite L in Hj. destruct (Z.eq_dec j (len p)) as [->|Hne]; [rewrite Hx; lia|].
        rewrite of_list_app1 by lia. apply Hall. lia.
      * intros j Hj. rewrite of_list_app1 by lia. apply Hfirst. lia.
Qed.

(** np.argmax: a maximal element, and the FIRST one *)
Lemma np_argmax_spec l : 1 <= len l ->
  let k := np_argmax l in
  0 <= k < len l /\ (forall j, 0 <= j < len l -> of_list l j <= of_list l k) /\ (forall j, 0 <= j < k -> of_list l j < of_list l k).
Proof. destruct l as [|x r]; [unfold len; cbn; lia|]. intros _. unfold np_argmax.
  change (x :: r) with ([x] ++ r). change 1 with (len [x]).
  apply argmax_from_correct; unfold len; cbn; try lia.
  intros j Hj. assert (j = 0) as -> by lia. cbn. lia.
Qed.

Lemma concat_rows rows nb : 1 <= nb -> (forall r, In r rows -> len r = nb) ->
  len (concat rows) = len rows * nb /\
  forall i t, 0 <= i < len rows -> 0 <= t < nb -> of_list (concat rows) (i * nb + t) = entry rows i t.
Proof. intros Hnb. induction rows as [|r rows IH]; intro Hr.
  - split; [reflexivity|]. unfold len; cbn; lia.
  - destruct IH as [IL IE]; [intros; apply Hr; now right|]. assert (Lr : len r = nb) by (apply Hr; now left).
    cbn [concat]. split.
    + rewrite len_app, IL, Lr. unfold len. cbn [length]. lia.
    + intros i t Hi Ht. unfold len in Hi. cbn [length] in Hi. destruct (Z.eq_dec i 0) as [->|Hne].
      * rewrite of_list_app1 by lia. reflexivity.
      * rewrite of_list_app2 by nia. rewrite Lr. replace (i * nb + t - nb) with ((i - 1) * nb + t) by lia.
        rewrite IE by (unfold len; lia). unfold entry. replace (Z.to_nat i) with (S (Z.to_nat (i - 1))) by lia. reflexivity.
Qed.

Lemma mf_pick_spec convs nb : 1 <= nb -> 1 <= len convs -> (forall r, In r convs -> len r = nb) ->
  let '(i, t, s) := mf_pick convs nb in
  0 <= i < len convs /\ 0 <= t < nb /\ s = entry convs i t /\
  (forall i' t', 0 <= i' < len convs -> 0 <= t' < nb -> entry convs i' t' <= s) /\
  (forall i' t', 0 <= i' < len convs -> 0 <= t' < nb -> i' * nb + t' < i * nb + t -> entry convs i' t' < s).
Proof. intros Hnb Hc Hr. destruct (concat_rows convs nb Hnb Hr) as [CL CE].
  unfold mf_pick, np_unravel_index. set (k := np_argmax (concat convs)).
  destruct (np_argmax_spec (concat convs)) as (Hk & Hmax & Hfirst); [rewrite CL; nia|]. fold k in Hk, Hmax, Hfirst.
  rewrite CL in Hk, Hmax.
  assert (Hi : 0 <= k / nb < len convs).
  { split; [apply Z.div_pos; lia|]. apply Z.div_lt_upper_bound; lia. }
  assert (Ht : 0 <= k mod nb < nb) by (apply Z.mod_pos_bound; lia).
  assert (Ek : k = (k / nb) * nb + k mod nb) by (pose proof (Z.div_mod k nb ltac:(lia)); lia).
  assert (Es : entry convs (k / nb) (k mod nb) = of_list (concat convs) k) by (rewrite Ek at 3; symmetry; apply CE; assumption).
  repeat split; try lia.
  - intros i' t' Hi' Ht'. rewrite Es, <- (CE i' t') by assumption. apply Hmax. nia.
  - intros i' t' Hi' Ht' Hlt. rewrite Es, <- (CE i' t') by assumption. apply Hfirst. rewrite <- Ek in Hlt. nia.
Qed.

Lemma nth_map_zrange {A} (f : Z -> A) n i d : 0 <= i < n -> nth (Z.to_nat i) (map f (zrange n)) d = f i.
Proof. intro H. unfold zrange. rewrite map_map.
  rewrite nth_indep with (d' := f (Z.of_nat 0)) by (rewrite map_length, seq_length; lia).
  rewrite (map_nth (fun k => f (Z.of_nat k))), seq_nth by lia. f_equal. lia. Qed.

Lemma entry_responses Nm P nb bank refs i t : 0 <= i < len bank -> 0 <= t < nb ->
  entry (responses_p Nm P nb bank refs) i t = response_p Nm P (nth (Z.to_nat i) bank []) (nth (Z.to_nat i) refs 0) t.
Proof. intros Hi Ht. unfold entry, responses_p. rewrite nth_map_zrange by exact Hi. rewrite of_list_to_list.
  destruct (0 <=? t) eqn:?, (t <? nb) eqn:?; cbn [andb]; try lia; reflexivity. Qed.

Lemma responses_rows Nm P nb bank refs r : 0 <= nb -> In r (responses_p Nm P nb bank refs) -> len r = nb.
Proof. unfold responses_p. intros Hnb H. apply in_map_iff in H. destruct H as [i [<- _]]. apply to_list_len, Hnb. Qed.

Lemma len_responses Nm P nb bank refs : len (responses_p Nm P nb bank refs) = len bank.
Proof. unfold responses_p. rewrite len_map. unfold len. rewrite zrange_length. lia. Qed.

(** MatchedFilter._compute over a response matrix equal to the direct sums: S/N is the maximum response, (best template,
    peak bin) its first location in (template, bin) order *)
Lemma mf_compute_spec F Nm z bank refs P : 1 <= len z -> 1 <= len bank ->
  convolve_templates_run F Nm z bank refs = responses_p Nm P (len z) bank refs ->
  let R := fun i t => response_p Nm P (nth (Z.to_nat i) bank []) (nth (Z.to_nat i) refs 0) t in
  let '(i, t, s) := mf_compute_run F Nm z bank refs in
  0 <= i < len bank /\ 0 <= t < len z /\ s = R i t /\
  (forall i' t', 0 <= i' < len bank -> 0 <= t' < len z -> R i' t' <= s) /\
  (forall i' t', 0 <= i' < len bank -> 0 <= t' < len z -> i' * len z + t' < i * len z + t -> R i' t' < s).
Proof. intros Hz Hb E R.
  change (mf_compute_run F Nm z bank refs) with (mf_pick (convolve_templates_run F Nm z bank refs) (len z)). rewrite E.
  pose proof (mf_pick_spec (responses_p Nm P (len z) bank refs) (len z) Hz) as Q.
  rewrite len_responses in Q. specialize (Q Hb (fun r => responses_rows Nm P (len z) bank refs r ltac:(lia))).
  destruct (mf_pick (responses_p Nm P (len z) bank refs) (len z)) as [[i t] s]. destruct Q as (Hi & Ht & Hs & Hmax & Hfirst).
  repeat split; try lia.
  - rewrite Hs. apply entry_responses; assumption.
  - intros i' t' Hi' Ht'. unfold R. rewrite <- (entry_responses Nm P (len z)) by assumption. apply Hmax; assumption.
  - intros i' t' Hi' Ht' Hlt. unfold R. rewrite <- (entry_responses Nm P (len z)) by assumption. apply Hfirst; assumption.
Qed.

(** the result depends on the data only through the standardised series *)
Lemma mf_through_zscores F Nm (std : list Z -> list Z) x x' bank refs :
  std x = std x' -> mf_compute_run F Nm (std x) bank refs = mf_compute_run F Nm (std x') bank refs.
Proof. intros ->. reflexivity. Qed.

(** exact arithmetic: equivariant location and scale estimates make the Z-score invariant under x -> a x + b, a > 0 *)
Lemma zscore_affine_invariant (a b x l s : Q) : (0 < a)%Q -> ~ (s == 0)%Q ->
  (zscore_q (a * x + b) (a * l + b) (a * s) == zscore_q x l s)%Q.
Proof. intros Ha Hs. unfold zscore_q. field. split; [exact Hs|]. intro E. rewrite E in Ha. apply (Qlt_irrefl 0). exact Ha. Qed.

(** * boxcar recovery: the Cauchy-Schwarz core for indicator vectors.
    a = samples in both template and pulse, b = template only, c = pulse only, d = neither *)
Lemma phi_bound a b c d : 0 <= a -> 0 <= b -> 0 <= c -> 0 <= d ->
  (a * d - b * c) * (a * d - b * c) <= (a + b) * (c + d) * (a + c) * (b + d).
Proof. intros Ha Hb Hc Hd.
  assert (E : (a + b) * (c + d) * (a + c) * (b + d) - (a * d - b * c) * (a * d - b * c) =
              a*a*b*c + a*a*c*d + a*a*b*d + a*b*c*c + a*c*c*d + 4*a*b*c*d + a*c*d*d + a*b*b*c + a*b*b*d + a*b*d*d + b*c*c*d + b*b*c*d + b*c*d*d) by ring.
  assert (0 <= a*a*b*c + a*a*c*d + a*a*b*d + a*b*c*c + a*c*c*d + 4*a*b*c*d + a*c*d*d + a*b*b*c + a*b*b*d + a*b*d*d + b*c*c*d + b*b*c*d + b*c*d*d).
  { repeat apply Z.add_nonneg_nonneg; repeat apply Z.mul_nonneg_nonneg; lia. }
  lia. Qed.

Lemma phi_bound_strict a b c d : 0 < a -> 0 <= b -> 0 <= c -> 0 < d -> 0 < b + c ->
  (a * d - b * c) * (a * d - b * c) < (a + b) * (c + d) * (a + c) * (b + d).
Proof. intros Ha Hb Hc Hd Hbc.
  assert (E : (a + b) * (c + d) * (a + c) * (b + d) - (a * d - b * c) * (a * d - b * c) =
              a*a*d*(b + c) + (a*a*b*c + a*b*c*c + a*c*c*d + 4*a*b*c*d + a*c*d*d + a*b*b*c + a*b*b*d + a*b*d*d + b*c*c*d + b*b*c*d + b*c*d*d)) by ring.
  assert (0 <= a*a*b*c + a*b*c*c + a*c*c*d + 4*a*b*c*d + a*c*d*d + a*b*b*c + a*b*b*d + a*b*d*d + b*c*c*d + b*b*c*d + b*c*d*d).
  { repeat apply Z.add_nonneg_nonneg; repeat apply Z.mul_nonneg_nonneg; lia. }
  assert (0 < a*a*d*(b + c)) by (repeat apply Z.mul_pos_pos; lia).
  lia. Qed.

(** in the quantities of the filter: a boxcar template of width v overlapping o samples of a pulse of W samples, padded
    length N.  Squared response of (v, o), cross-multiplied against the squared response of the exact match (W, W) *)
Lemma boxcar_match_is_max N W v o : 0 < W < N -> 0 < v < N -> 0 <= o -> o <= v -> o <= W -> v + W - o <= N ->
  box_num N W v o * box_num N W v o * box_norm2 N W <= box_num N W W W * box_num N W W W * box_norm2 N v.
Proof. intros HW Hv Ho Hov HoW Hu. unfold box_num, box_norm2.
  pose proof (phi_bound o (v - o) (W - o) (N - v - W + o) ltac:(lia) ltac:(lia) ltac:(lia) ltac:(lia)) as P.
  replace (o * (N - v - W + o) - (v - o) * (W - o)) with (o * N - W * v) in P by ring.
  replace (o + (v - o)) with v in P by ring. replace (W - o + (N - v - W + o)) with (N - v) in P by ring.
  replace (o + (W - o)) with W in P by ring. replace (v - o + (N - v - W + o)) with (N - W) in P by ring.
  replace (W * N - W * W) with (W * (N - W)) by ring.
  assert (0 < W * (N - W)) by (apply Z.mul_pos_pos; lia).
  nia. Qed.

Lemma boxcar_mismatch_is_smaller N W v o : 0 < W < N -> 0 < v < N -> 0 < o -> o <= v -> o <= W -> v + W - o < N ->
  (o < v \/ o < W) ->
  box_num N W v o * box_num N W v o * box_norm2 N W < box_num N W W W * box_num N W W W * box_norm2 N v.
Proof. intros HW Hv Ho Hov HoW Hu Hmis. unfold box_num, box_norm2.
  pose proof (phi_bound_strict o (v - o) (W - o) (N - v - W + o) ltac:(lia) ltac:(lia) ltac:(lia) ltac:(lia) ltac:(lia)) as P.
  replace (o * (N - v - W + o) - (v - o) * (W - o)) with (o * N - W * v) in P by ring.
  replace (o + (v - o)) with v in P by ring. replace (W - o + (N - v - W + o)) with (N - v) in P by ring.
  replace (o + (W - o)) with W in P by ring. replace (v - o + (N - v - W + o)) with (N - W) in P by ring.
  replace (W * N - W * W) with (W * (N - W)) by ring.
  assert (0 < W * (N - W)) by (apply Z.mul_pos_pos; lia).
  nia. Qed.

(** * reference bins of the template generators *)
Lemma peak_ref_bins size : 0 <= size ->
  gaussian_abscissa size (gaussian_ref_bin size) = 0 /\ 0 <= gaussian_ref_bin size < gaussian_len size /\
  lorentzian_abscissa size (lorentzian_ref_bin size) = 0 /\ 0 <= lorentzian_ref_bin size < lorentzian_len size.
Proof. intro H. unfold gaussian_abscissa, gaussian_ref_bin, gaussian_len, lorentzian_abscissa, lorentzian_ref_bin, lorentzian_len. lia. Qed.

Lemma nth_repeat_in (x : Z) m : forall n, (n < m)%nat -> nth n (repeat x m) 0 = x.
Proof. induction m as [|m IH]; intros [|n] H; cbn; try lia; auto. apply IH. lia. Qed.

Lemma boxcar_ref_bin w : 1 <= w -> snd (boxcar_template w) = 0 /\ len (fst (boxcar_template w)) = w /\
  forall k, 0 <= k < w -> of_list (fst (boxcar_template w)) k = 1.
Proof. intro H. unfold boxcar_template. cbn [fst snd]. split; [reflexivity|]. split.
  - unfold len. rewrite repeat_length. lia.
  - intros k Hk. unfold of_list. destruct (k <? 0) eqn:?; [lia|]. apply nth_repeat_in. lia. Qed.
