(** C15 -- the estimators whose text differs between the pinned tree (fc376ec) and the repaired tree, PINNED reading:
    _scale_iqr and _scale_mad end in np.squeeze(.), _scale_doublemad assigns the right-hand MAD at the median,
    _scale_sn reduces pairwise differences along the LAST axis before reducing along [axis]. *)
From Coq Require Import ZArith List Bool QArith Qcanon Qcabs Lia.
Require Import SPP.Base.Rt SPP.Base.Iter SPP.Model.C15_np SPP.Gen.Stats.
Require Import SPP.Proofs.C15_lib SPP.Proofs.C15_order SPP.Proofs.C15_rel SPP.Proofs.C15_equiv.
Import ListNotations.
Open Scope Z_scope.

Section Equiv.
  Variables (np_sqrt : Qc -> Qc) (np_pi : Qc) (memo : nd -> nd).
  Hypothesis Hm : memo_ok memo.
  Variables a b : Qc.
  Hypothesis Ha : a <> Q2Qc 0.
  Let c := Qcabs a.
  Let Hc : (Q2Qc 0 < c)%Qc := Qcabs_pos_of_neq0 a Ha.

  Definition quartiles : vec := qz 25 :: qz 75 :: nil.

  Lemma diff0_percentiles A A' axis kd J : rel_of (affine a b) A A' -> lanes_nonempty A axis -> hd 0 J = 0 ->
    get (np_diff0 (memo (np_percentiles quartiles A' axis kd))) J
    = scale c (get (np_diff0 (memo (np_percentiles quartiles A axis kd))) J).
  Proof. intros H Hne HJ. unfold np_diff0. cbn [get]. rewrite !(memo_get memo Hm). unfold np_percentiles. cbn [get hd tl].
    rewrite HJ. change (nthq quartiles (0 + 1)) with (qz 75). change (nthq quartiles 0) with (qz 25).
    destruct (reduce_witness (affine a b) A A' axis kd (tl J) H Hne) as [L [HL [E1 E2]]].
    rewrite !E1, !E2. now apply percentile_pair_affine. Qed.

  Lemma bshape_nil_r sh : bshape sh nil = sh.
  Proof. unfold bshape, lpad. cbn [length]. rewrite Nat.sub_0_r. cbn [Nat.sub repeat app].
    induction sh as [|d sh IH]; [reflexivity|]. cbn [length repeat app zipw]. rewrite IH.
    destruct (d =? 1) eqn:E; [|reflexivity]. f_equal. lia. Qed.

  Lemma hd_bidx_1 S idx : hd 0 (bidx (1 :: S) idx) = 0.
  Proof. unfold bidx. destruct (skipn _ idx); reflexivity. Qed.

  Theorem scale_iqr_equivariant A A' axis : rel_of (affine a b) A A' -> lanes_nonempty A axis ->
    rel_of (scale c) (scale_iqr memo A axis) (scale_iqr memo A' axis).
  Proof. intros H Hne. unfold scale_iqr. fold quartiles. set (norm := qdec _ _). apply rel_squeeze.
    assert (Hs : shape (np_diff0 (memo (np_percentiles quartiles A' axis true))) = shape (np_diff0 (memo (np_percentiles quartiles A axis true)))).
    { unfold np_diff0; cbn [shape]. rewrite !(memo_shape memo Hm). unfold np_percentiles; cbn [shape].
      now rewrite (reduce_shape_rel (affine a b) _ (percentile1 (qz 0)) A A' axis true H). }
    split.
    - cbn [shape np_div nd_map2]. now rewrite Hs.
    - intro idx. cbn [get np_div nd_map2]. rewrite Hs.
      assert (E : exists S, shape (np_diff0 (memo (np_percentiles quartiles A axis true))) = 1 :: S).
      { unfold np_diff0; cbn [shape]. rewrite (memo_shape memo Hm). unfold np_percentiles; cbn [shape]. eexists. reflexivity. }
      destruct E as [S E]. rewrite E. rewrite (diff0_percentiles A A' axis true) by (try assumption; apply hd_bidx_1).
      unfold scale, Qcdiv. ring. Qed.

  (** ** _scale_sn (pinned): equivariant for every axis, although it is not the per-lane Sn (see below) *)
  Lemma rel_pairdiff A A' : rel_of (affine a b) A A' -> rel_of (scale a) (np_pairdiff_last A) (np_pairdiff_last A').
  Proof. intros [Hs Hg]. split; cbn [shape get np_pairdiff_last]; [now rewrite Hs|]. intro idx. rewrite Hs, !Hg. apply sub_affine. Qed.

  Theorem scale_sn_equivariant A A' axis : rel_of (affine a b) A A' ->
    rel_of (scale c) (scale_sn memo A axis) (scale_sn memo A' axis).
  Proof. intro H. unfold scale_sn. set (norm := qdec _ _).
    assert (HD : rel_of (scale c) (memo (np_abs (np_pairdiff_last A))) (memo (np_abs (np_pairdiff_last A')))).
    { apply rel_memo; [exact Hm|]. apply (rel_map1 Qcabs (scale a)); [apply abs_scale|]. now apply rel_pairdiff. }
    assert (HM : rel_of (scale c) (memo (np_reduce median1 (memo (np_abs (np_pairdiff_last A))) (Some (-1)) false))
                                 (memo (np_reduce median1 (memo (np_abs (np_pairdiff_last A'))) (Some (-1)) false))).
    { apply rel_memo; [exact Hm|]. apply (rel_reduce median1 (scale c) (scale c)); [intro; now apply median1_scale|exact HD]. }
    eapply (rel_map2 Qcmult (fun x => x) (scale c) (scale c)); [intros; unfold scale; ring|apply rel_scalar_id|].
    apply (rel_reduce median1 (scale c) (scale c)); [intro; now apply median1_scale|exact HM]. Qed.

  (** ** _scale_doublemad (pinned) *)
  Lemma scale_doublemad_unfold A axis :
    scale_doublemad np_sqrt np_pi memo A axis =
    let loc := memo (np_reduce median1 A axis true) in
    let diff := memo (np_sub A loc) in
    np_where (np_lt A loc) (dm_side np_sqrt np_pi memo axis (np_le A loc) (np_abs diff))
                           (dm_side np_sqrt np_pi memo axis (np_ge A loc) (np_abs diff)).
  Proof. reflexivity. Qed.

  Section DM.
    Variables (A A' : nd) (axis : option Z).
    Hypothesis H : rel_of (affine a b) A A'.
    Hypothesis Hne : lanes_nonempty A axis.
    Let loc := memo (np_reduce median1 A axis true).
    Let loc' := memo (np_reduce median1 A' axis true).
    Let Hloc := dm_loc memo Hm a b Ha A A' axis H Hne.
    Let Hdev := dm_absdiff memo Hm a b Ha A A' axis H Hne.

    (** a > 0: the masks are unchanged *)
    Theorem scale_doublemad_equivariant_pos : (Q2Qc 0 < a)%Qc ->
      rel_of (scale c) (scale_doublemad np_sqrt np_pi memo A axis) (scale_doublemad np_sqrt np_pi memo A' axis).
    Proof. intro Hp. rewrite !scale_doublemad_unfold. cbv zeta. fold loc loc'.
      pose proof (affine_increasing a b Hp) as Hinc.
      eapply (rel_map3 _ (fun x => x) (scale c) (scale c) (scale c)); [intros; apply where_scale| | |].
      - apply (dm_mask_pos memo Hm a b Ha A A' axis H Hne Qcltb Hp). intros x y. rewrite !Qcltb_alt. now rewrite Hinc.
      - apply (dm_side_rel np_sqrt np_pi memo Hm a Ha); [|exact Hdev].
        apply (dm_mask_pos memo Hm a b Ha A A' axis H Hne Qcleb Hp). intros x y. now rewrite Hinc.
      - apply (dm_side_rel np_sqrt np_pi memo Hm a Ha); [|exact Hdev].
        apply (dm_mask_pos memo Hm a b Ha A A' axis H Hne (fun x y => Qcleb y x) Hp). intros x y. now rewrite Hinc. Qed.

    (** a < 0: left and right are exchanged; the estimate is |a| times the original wherever the sample differs
        from the location *)
    Theorem scale_doublemad_equivariant_neg_partial : (a < Q2Qc 0)%Qc -> forall idx,
      (let J := bidx (bshape (shape A) (shape loc)) idx in   (* J = idx for an index in range *)
       get A (bidx (shape A) J) <> get loc (bidx (shape loc) J)) ->
      get (scale_doublemad np_sqrt np_pi memo A' axis) idx = scale c (get (scale_doublemad np_sqrt np_pi memo A axis) idx).
    Proof. intros Hn idx Hd. cbv zeta in Hd. rewrite !scale_doublemad_unfold. cbv zeta. fold loc loc'.
      pose proof (fun x y => affine_decreasing a b x y Hn) as Hdec.
      assert (HL : rel_of (scale c) (dm_side np_sqrt np_pi memo axis (np_ge A loc) (np_abs (memo (np_sub A loc))))
                                   (dm_side np_sqrt np_pi memo axis (np_le A' loc') (np_abs (memo (np_sub A' loc'))))).
      { apply (dm_side_rel np_sqrt np_pi memo Hm a Ha); [|exact Hdev].
        apply (dm_mask_neg memo Hm a b Ha A A' axis H Hne (fun x y => Qcleb y x) Qcleb). intros x y. now rewrite Hdec. }
      assert (HR : rel_of (scale c) (dm_side np_sqrt np_pi memo axis (np_le A loc) (np_abs (memo (np_sub A loc))))
                                   (dm_side np_sqrt np_pi memo axis (np_ge A' loc') (np_abs (memo (np_sub A' loc'))))).
      { apply (dm_side_rel np_sqrt np_pi memo Hm a Ha); [|exact Hdev].
        apply (dm_mask_neg memo Hm a b Ha A A' axis H Hne Qcleb (fun x y => Qcleb y x)). intros x y. now rewrite Hdec. }
      destruct H as [Hs Hg]. destruct Hloc as [Hls Hlg]. destruct HL as [HLs HLg]. destruct HR as [HRs HRg].
      unfold loc, loc' in *. cbn [get np_where nd_map3 np_lt nd_map2 shape]. rewrite Hs, Hls, HLs, HRs, Hg, Hlg, HLg, HRg.
      set (x := get A _) in *. set (m := get (memo (np_reduce median1 A axis true)) _) in *.
      rewrite !Qcltb_alt. rewrite Hdec. rewrite !qtrue_qbool.
      destruct (Qcleb m x) eqn:E1, (Qcleb x m) eqn:E2; cbn [negb]; try reflexivity.
      - exfalso. apply Hd. apply Qcle_antisym; now apply Qcleb_iff.
      - apply Qcleb_false in E1. apply Qcleb_false in E2. exfalso. apply Hd. now apply Qcle_antisym. Qed.
  End DM.
End Equiv.
