(** C08: generic facts about the runtime prelude (Python int()/round() on exact numbers, slices, span membership,
    new_header dropping unknown keys). *)
From Coq Require Import ZArith QArith Qround Qabs Qminmax Qfield Lqa String List Bool Lia ZifyBool.
Require Import SPP.Model.C08_rt SPP.Model.C08_spec.
Import ListNotations.
Open Scope Z_scope.

(** ---- floor / trunc / round --------------------------------------------------------------------------- *)

Lemma Qfloor_unique : forall (x : Q) (k : Z), (inject_Z k <= x)%Q -> (x < inject_Z (k + 1))%Q -> Qfloor x = k.
Proof.
  intros x k H1 H2.
  assert (A : k <= Qfloor x). { rewrite <- (Qfloor_Z k). apply Qfloor_resp_le; exact H1. }
  assert (B : Qfloor x < k + 1).
  { rewrite Zlt_Qlt. eapply Qle_lt_trans; [apply Qfloor_le | exact H2]. }
  lia.
Qed.

Lemma Qround_he_robust : forall (k : Z) (x : Q), (Qabs (x - inject_Z k) < 1 # 2)%Q -> Qround_he x = k.
Proof.
  intros k x H. apply Qabs_Qlt_condition in H. destruct H as [Hlo Hhi].
  assert (Ek : (inject_Z (k + 1) == inject_Z k + 1)%Q) by (rewrite inject_Z_plus; reflexivity).
  assert (Ek' : (inject_Z (k - 1 + 1) == inject_Z k)%Q) by (replace (k - 1 + 1) with k by lia; reflexivity).
  assert (Em : (inject_Z (k - 1) == inject_Z k - 1)%Q) by (unfold Zminus; rewrite inject_Z_plus; reflexivity).
  unfold Qround_he.
  destruct (Qlt_le_dec x (inject_Z k)) as [Hlt | Hge].
  - assert (F : Qfloor x = k - 1). { apply Qfloor_unique; [rewrite Em; lra | rewrite Ek'; exact Hlt]. }
    rewrite F. destruct (Qcompare_spec (x - inject_Z (k - 1)) (1 # 2)) as [E | L | G].
    + rewrite Em in E. lra.
    + rewrite Em in L. lra.
    + lia.
  - assert (F : Qfloor x = k). { apply Qfloor_unique; [exact Hge | rewrite Ek; lra]. }
    rewrite F. destruct (Qcompare_spec (x - inject_Z k) (1 # 2)) as [E | L | G].
    + lra.
    + reflexivity.
    + lra.
Qed.

Lemma Qround_he_exact : forall (k : Z) (x : Q), (x == inject_Z k)%Q -> Qround_he x = k.
Proof.
  intros k x E. apply Qround_he_robust. setoid_rewrite E.
  assert (Z0 : (inject_Z k - inject_Z k == 0)%Q) by ring. rewrite Z0. reflexivity.
Qed.

Lemma Qtrunc_exact : forall (k : Z) (x : Q), (x == inject_Z k)%Q -> Qtrunc x = k.
Proof.
  intros k x E. unfold Qtrunc.
  destruct (Qle_bool 0 x).
  - rewrite E. apply Qfloor_Z.
  - rewrite E. apply Qceiling_Z.
Qed.

(** truncation tolerates an error from above only (k >= 0) ... *)
Lemma Qtrunc_above : forall (k : Z) (x : Q), 0 <= k -> (inject_Z k <= x)%Q -> (x < inject_Z (k + 1))%Q -> Qtrunc x = k.
Proof.
  intros k x Hk H1 H2. unfold Qtrunc.
  assert (P : (0 <= x)%Q). { eapply Qle_trans; [| exact H1]. change 0%Q with (inject_Z 0). rewrite <- Zle_Qle. exact Hk. }
  apply Qle_bool_iff in P. rewrite P. apply Qfloor_unique; assumption.
Qed.

(** ... and none from below: any x in (k-1, k) truncates to k-1 (k >= 1) *)
Lemma Qtrunc_below : forall (k : Z) (x : Q), 1 <= k -> (inject_Z (k - 1) <= x)%Q -> (x < inject_Z k)%Q -> Qtrunc x = k - 1.
Proof.
  intros k x Hk H1 H2. apply Qtrunc_above; [lia | exact H1 | replace (k - 1 + 1) with k by lia; exact H2].
Qed.

(** ---- slices ------------------------------------------------------------------------------------------- *)

Lemma py_slice_len_inrange : forall n lo m, 0 <= lo -> 0 <= m -> lo + m <= n -> py_slice_len n lo (lo + m) = m.
Proof. intros. unfold py_slice_len. destruct (lo + m <? 0) eqn:?; destruct (lo <? 0) eqn:?; lia. Qed.

(** ---- span membership ---------------------------------------------------------------------------------- *)

Lemma Qbetween_left : forall a b x : Q, (x == a)%Q -> Qbetween a b x.
Proof. intros a b x E. unfold Qbetween. rewrite E. split; [apply Q.le_min_l | apply Q.le_max_l]. Qed.

Lemma Qbetween_right : forall a b x : Q, (x == b)%Q -> Qbetween a b x.
Proof. intros a b x E. unfold Qbetween. rewrite E. split; [apply Q.le_min_r | apply Q.le_max_r]. Qed.

Lemma Qbetween_mid : forall a b x : Q, (x == (a + b) * (1 # 2))%Q -> Qbetween a b x.
Proof.
  intros a b x E. unfold Qbetween.
  destruct (Q.min_spec a b) as [[Hlt Hm] | [Hle Hm]]; destruct (Q.max_spec a b) as [[Hlt' HM] | [Hle' HM]];
    rewrite Hm, HM, E; split; lra.
Qed.

Lemma Qbetween_b_spec : forall a b x : Q, Qbetween_b a b x = true <-> Qbetween a b x.
Proof.
  intros. unfold Qbetween_b, Qbetween. rewrite andb_true_iff, !Qle_bool_iff. reflexivity.
Qed.

Lemma Qbetween_b_false : forall a b x : Q, Qbetween_b a b x = false -> ~ Qbetween a b x.
Proof. intros a b x E H. apply Qbetween_b_spec in H. congruence. Qed.

(** ---- new_header ---------------------------------------------------------------------------------------- *)

Lemma new_header_drops_unknown : forall fields h k v, known fields k = false -> new_header fields h [(k, v)] = h.
Proof. intros fields h k v Hk. unfold new_header. simpl. rewrite Hk. reflexivity. Qed.

Lemma new_header_nil : forall fields h, new_header fields h [] = h.
Proof. reflexivity. Qed.

Lemma new_header_app : forall fields h u1 u2, new_header fields h (u1 ++ u2) = new_header fields (new_header fields h u1) u2.
Proof. intros. unfold new_header. apply fold_left_app. Qed.
