(** C11, API level: Filterbank.fold = read plan (C01) o regenerated call site o regenerated kernel, for all gulps
    and sub-ranges; TimeSeries.fold = one kernel call.  The plan is not re-proved: [run_plan_explicit] of C01 is used. *)
From Coq Require Import ZArith QArith Qround List Bool Lia ZifyBool.
Require Import SPP.Base.Rt SPP.Base.Iter SPP.Gen.Plan SPP.Gen.C11Fold SPP.Model.C11_rt SPP.Model.Stream SPP.Model.Plan
               SPP.Model.C11_fold SPP.Proofs.C02_stream SPP.Proofs.C01_plan SPP.Proofs.C11_kernel.
Import ListNotations.
Open Scope Z_scope.
Ltac Zify.zify_post_hook ::= Z.to_euclidean_division_equations.

(** the samples as an array: sample t, channel c of the (multi-file) stream is [SX fs (t * nchans + c)] *)
Definition SX (fs : list file) : arr := of_list (flat fs).

Lemma of_list_slice11 l a n j : 0 <= a -> 0 <= j < n -> a + n <= len l -> of_list (slice l a n) j = of_list l (a + j).
Proof. intros Ha Hj Hl. unfold of_list. replace (j <? 0) with false by lia. replace (a + j <? 0) with false by lia.
  apply slice_nth; lia. Qed.

(** * the regenerated call-site arithmetic *)
Lemma fold_gulp_facts md gulp : 0 <= md -> 1 <= gulp -> 1 <= fold_gulp md gulp /\ md < fold_gulp md gulp.
Proof. unfold fold_gulp. lia. Qed.

Lemma fold_skipback_eq md : fold_skipback md = md.
Proof. reflexivity. Qed.

Lemma fold_nbands_facts nbands nch : 1 <= nbands -> 1 <= nch -> 1 <= fold_nbands nbands nch <= nch.
Proof. unfold fold_nbands. lia. Qed.

Lemma fold_ncells_eq nbins nints nb : fold_ncells nbins nints nb = nints * nb * nbins.
Proof. unfold fold_ncells. ring. Qed.

Lemma fold_cube_dims_eq nints nb nbins : fold_cube_dims nints nb nbins = (nints, nb, nbins).
Proof. reflexivity. Qed.

(** whichever sample count the call site passes as total_nsamps, it covers the selected samples *)
Lemma fold_total_ge N start nsamps nn : 0 <= start -> 1 <= nsamps -> start + nsamps <= N -> (nn = 1 -> nsamps = N - start) ->
  nsamps <= fold_total N start nsamps nn.
Proof. intros. unfold fold_total. cbv zeta. repeat match goal with |- context [if ?b then _ else _] => destruct b eqn:? end; lia. Qed.

(** a whole-file fold passes the file length *)
Lemma fold_total_full N nn : 1 <= N -> fold_total N 0 N nn = N.
Proof. intros. unfold fold_total. cbv zeta. repeat match goal with |- context [if ?b then _ else _] => destruct b eqn:? end; lia. Qed.

Section Pipe.
  Variables (fs : list file) (nch N gulp start nsamps nn md : Z) (delays : arr) (tsamp period accel : Q) (nbins nints nbands : Z).
  Hypotheses (Hf : 1 <= nfiles fs) (Hc : 1 <= nch) (Ht : total fs = N * nch)
             (Hs0 : 0 <= start) (Hn : 1 <= nsamps) (Hr : start + nsamps <= N) (Hg : 1 <= gulp)
             (Hmd : 0 <= md < nsamps) (Hd : forall c, 0 <= c < nch -> 0 <= delays c <= md)
             (Hnbins : 1 <= nbins) (Hnints : 1 <= nints) (Hnbands : 1 <= nbands).

  Let gulp' := fold_gulp md gulp.
  Let nb := fold_nbands nbands nch.
  Let tot := fold_total N start nsamps nn.
  Hypothesis (Htot : 1 <= tot).

  (** cell and value of folded sample [a] (counted from the first selected sample), channel [c] *)
  Definition pcell (a c : Z) : Z := cell_of tsamp period accel tot nch nbins nints nb a c.
  Definition pval (a c : Z) : Z := SX fs ((start + a + delays c) * nch + c).

  Let step := fold_step nch gulp' md tsamp period accel N start nsamps nn nbins nints nb delays.

  Lemma nb_pos : 1 <= nb <= nch.
  Proof. apply fold_nbands_facts; assumption. Qed.

  (** a block of [len_] >= md samples starting at selected sample [s0] = its kernel index adds the samples s0 .. s0+len_-md-1 *)
  Lemma fold_step_block st s0 len_ ii k : 0 <= s0 -> md <= len_ -> 1 <= len_ -> s0 + len_ <= nsamps -> s0 = ii * (gulp' - md) ->
    let st' := step st (len_, ii, slice (flat fs) ((start + s0) * nch) (len_ * nch)) in
    fst st' k = fst st k + cellsum nch (fun a c => pcell (s0 + a) c) (fun a c => pval (s0 + a) c) (len_ - md) k /\
    snd st' k = snd st k + cellsum nch (fun a c => pcell (s0 + a) c) (fun _ _ => 1) (len_ - md) k.
  Proof. intros H0 H1 H1' H2 Hidx. pose proof nb_pos as Hnb. cbv zeta. unfold step, fold_step, fold_block. fold tot.
    destruct (fold_run_spec (of_list (slice (flat fs) ((start + s0) * nch) (len_ * nch))) (fst st) (snd st) delays md tsamp period accel
                tot len_ nch nbins nints nb (ii * (gulp' - md)) k) as [Hfst Hsnd]. cbv zeta in Hfst, Hsnd.
    rewrite Hfst, Hsnd. split; f_equal; apply cellsum_ext; intros a c Ha Hcx; (split; [|try reflexivity]).
    - rewrite fold_pos2_abs by lia. unfold pcell. f_equal. lia.
    - pose proof (Hd c ltac:(lia)) as Hdc. rewrite of_list_slice11; try nia.
      + unfold pval, SX. f_equal. nia.
      + rewrite len_flat. nia.
    - rewrite fold_pos2_abs by lia. unfold pcell. f_equal. lia. Qed.

  Lemma fold_full g : g = gulp' -> md < g -> forall j st k,
    (j = 0%nat \/ (Z.of_nat j - 1) * (g - md) + g <= nsamps) ->
    let st' := fold_left step (map (blk fs nch start g md) (map Z.of_nat (seq 0 j))) st in
    fst st' k = fst st k + cellsum nch pcell pval (Z.of_nat j * (g - md)) k /\
    snd st' k = snd st k + cellsum nch pcell (fun _ _ => 1) (Z.of_nat j * (g - md)) k.
  Proof. intros Eg Hlt. induction j as [|j IH]; intros st k Hfit.
    - cbn. unfold cellsum. cbn. lia.
    - destruct Hfit as [Hfit|Hfit]; [discriminate|].
      rewrite seq_S, !map_app, fold_left_app. cbn [map fold_left Nat.add].
      specialize (IH st k ltac:(destruct j; [left; reflexivity|right; nia])). cbv zeta in IH. destruct IH as [IHf IHc].
      set (st1 := fold_left step (map (blk fs nch start g md) (map Z.of_nat (seq 0 j))) st) in *.
      unfold blk, P.
      destruct (fold_step_block st1 (Z.of_nat j * (g - md)) g (Z.of_nat j) k ltac:(nia) ltac:(lia) ltac:(lia) ltac:(nia) ltac:(rewrite Eg; reflexivity)) as [Bf Bc].
      cbv zeta in Bf, Bc. cbv zeta. rewrite Bf, Bc, IHf, IHc.
      replace (Z.of_nat (S j) * (g - md)) with (Z.of_nat j * (g - md) + (g - md)) by lia.
      rewrite !cellsum_app by nia. lia. Qed.

  (** for every gulp >= 1 (also gulp < 2*maxdelay and 2*maxdelay > nsamps) and every sub-range: accumulator cell k holds
      the sum (resp. the number) of the dedispersed samples (a, c), a < nsamps - maxdelay, whose cell is k *)
  Theorem fold_pipe_spec :
    exists f cn, fold_pipe fs nch gulp start nsamps nn md delays tsamp period accel nbins nints nbands = Some (f, cn) /\
      forall k, f k = cellsum nch pcell pval (nsamps - md) k /\ cn k = cellsum nch pcell (fun _ _ => 1) (nsamps - md) k.
  Proof. unfold fold_pipe. rewrite fold_skipback_eq. fold gulp'.
    replace (total fs / nch) with N by (rewrite Ht; symmetry; apply Z.div_mul; lia). fold nb. fold step.
    destruct (fold_gulp_facts md gulp ltac:(lia) Hg) as [Hg1 Hg2]. fold gulp' in Hg1, Hg2.
    destruct (run_plan_explicit fs nch N gulp' start nsamps md Hf Hc Ht Hs0 Hn Hr ltac:(lia) ltac:(lia)) as [g [sb [nreads [lr [F ->]]]]].
    destruct F as [Fg Fsb Fsblt Fnr Ffit Flast Fcov]. replace (Z.abs md) with md in Fsb by lia. subst sb.
    unfold plan_blocks, zrange. rewrite fold_left_app.
    destruct (Z_le_gt_dec gulp' nsamps) as [Hle|Hgt].
    - assert (Eg : g = gulp') by lia.
      destruct (Z.eqb_spec lr 0) as [E|NE]; cbn [fold_left].
      + match goal with |- exists f cn, Some ?p = _ /\ _ => exists (fst p), (snd p) end. split; [destruct (fold_left _ _ _); reflexivity|].
        intro k. destruct (fold_full g Eg ltac:(lia) (Z.to_nat nreads) (zeros, zeros) k) as [Ff Fc]; [right; rewrite Z2Nat.id by lia; lia|].
        cbv zeta in Ff, Fc. rewrite Ff, Fc. rewrite Z2Nat.id by lia. cbn [fst snd]. unfold zeros.
        try rewrite E in Fcov. try change (0 =? 0) with true in Fcov.
        replace (nreads * (g - md)) with (nsamps - md) by lia. lia.
      + destruct Flast as [?|Flast]; [contradiction|]. try replace (lr =? 0) with false in Fcov by lia.
        match goal with |- exists f cn, Some ?p = _ /\ _ => exists (fst p), (snd p) end. split; [destruct (step _ _); reflexivity|].
        intro k. unfold P.
        set (st1 := fold_left step (map (blk fs nch start g md) (map Z.of_nat (seq 0 (Z.to_nat nreads)))) (zeros, zeros)).
        destruct (fold_step_block st1 (nreads * (g - md)) lr nreads k ltac:(nia) ltac:(lia) ltac:(lia) ltac:(nia) ltac:(rewrite Eg; reflexivity)) as [Bf Bc].
        cbv zeta in Bf, Bc. rewrite Bf, Bc. unfold st1.
        destruct (fold_full g Eg ltac:(lia) (Z.to_nat nreads) (zeros, zeros) k) as [Ff Fc]; [right; rewrite Z2Nat.id by lia; lia|].
        cbv zeta in Ff, Fc. rewrite Ff, Fc. rewrite Z2Nat.id by lia. cbn [fst snd]. unfold zeros.
        replace (nsamps - md) with (nreads * (g - md) + (lr - md)) by lia.
        rewrite !cellsum_app by nia. lia.
    - assert (Eg : g = nsamps) by lia.
      assert (nreads = 1) by nia. subst nreads.
      assert (lr = 0) by (destruct (Z.eqb_spec lr 0); [assumption|destruct Flast; nia]). subst lr.
      change (Z.to_nat 1) with 1%nat. cbn [seq map fold_left Z.eqb]. change (Z.of_nat 0) with 0.
      match goal with |- exists f cn, Some ?p = _ /\ _ => exists (fst p), (snd p) end. split; [destruct (step _ _); reflexivity|].
      intro k. unfold blk, P.
      replace ((start + 0 * (g - md)) * nch) with ((start + 0) * nch) by lia.
      destruct (fold_step_block (zeros, zeros) 0 g 0 k ltac:(lia) ltac:(lia) ltac:(lia) ltac:(lia) ltac:(lia)) as [Bf Bc].
      cbv zeta in Bf, Bc. rewrite Bf, Bc. cbn [fst snd]. unfold zeros. rewrite Eg.
      split; cbn [Z.add]; apply cellsum_ext; intros a c Ha Hcx; split; reflexivity. Qed.

End Pipe.

(** every folded (sample, channel) is sent to exactly one cell, inside the accumulators:
    subint < nints because the sample count passed as total_nsamps covers the selection *)
Lemma pcell_range nch N start nsamps nn md tsamp period accel nbins nints nbands a c :
  1 <= nch -> 1 <= nbins -> 1 <= nints -> 1 <= nbands -> 0 <= md -> 1 <= nsamps <= fold_total N start nsamps nn ->
  0 <= a < nsamps - md -> 0 <= c < nch ->
  0 <= pcell nch N start nsamps nn tsamp period accel nbins nints nbands a c < fold_ncells nbins nints (fold_nbands nbands nch).
Proof. intros Hc Hnbins Hnints Hnbands Hmd Hcov Ha Hcx. pose proof (fold_nbands_facts nbands nch Hnbands Hc).
  rewrite fold_ncells_eq. unfold pcell. apply cell_of_range; lia. Qed.

Lemma pcell_cube nch N start nsamps nn tsamp period accel nbins nints nbands a c :
  pcell nch N start nsamps nn tsamp period accel nbins nints nbands a c =
  cube_index (fold_cube_dims nints (fold_nbands nbands nch) nbins)
    (subint_of (fold_total N start nsamps nn) nints a) (subband_of nch (fold_nbands nbands nch) c)
    (fold_phasebin tsamp period accel (fold_total N start nsamps nn) nbins 0 a).
Proof. unfold pcell. rewrite fold_cube_dims_eq. apply cell_of_cube. Qed.

(** * consequences *)
Section Consequences.
  Variables (fs : list file) (nch N gulp start nsamps nn md : Z) (delays : arr) (tsamp period accel : Q) (nbins nints nbands : Z).
  Hypotheses (Hf : 1 <= nfiles fs) (Hc : 1 <= nch) (Ht : total fs = N * nch)
             (Hs0 : 0 <= start) (Hn : 1 <= nsamps) (Hr : start + nsamps <= N) (Hg : 1 <= gulp) (Hnn : nn = 1 -> nsamps = N - start)
             (Hmd : 0 <= md < nsamps) (Hd : forall c, 0 <= c < nch -> 0 <= delays c <= md)
             (Hnbins : 1 <= nbins) (Hnints : 1 <= nints) (Hnbands : 1 <= nbands).

  Let nb := fold_nbands nbands nch.
  Let tot := fold_total N start nsamps nn.

  Lemma tot_ge : nsamps <= tot.
  Proof. apply fold_total_ge; assumption. Qed.

  Theorem fold_counts_sum : exists f cn,
    fold_pipe fs nch gulp start nsamps nn md delays tsamp period accel nbins nints nbands = Some (f, cn) /\
    sum_n (Z.to_nat (fold_ncells nbins nints nb)) cn = (nsamps - md) * nch.
  Proof. pose proof tot_ge as Htg.
    destruct (fold_pipe_spec fs nch N gulp start nsamps nn md delays tsamp period accel nbins nints nbands) as [f [cn [E S]]]; try assumption; [fold tot; lia|].
    exists f, cn. split; [exact E|].
    erewrite sum_n_ext; [|intros k Hk; apply (proj2 (S k))].
    rewrite cellsum_total; try lia.
    - erewrite sum_n_ext; [|intros a Ha; apply sum_n_const]. rewrite sum_n_const. rewrite !Z2Nat.id by lia. lia.
    - intros a c Ha Hcx. pose proof (fold_nbands_facts nbands nch Hnbands Hc). fold nb in H.
      rewrite Z2Nat.id by (rewrite fold_ncells_eq; nia). unfold nb. apply pcell_range with (md := md); try assumption; try (fold tot; lia). Qed.

  (** a strictly periodic pulse train (period = L samples, no acceleration) in the dedispersed data occupies one phase bin *)
  Theorem fold_periodic L a0 : (0 < tsamp)%Q -> 0 < L -> (accel == 0)%Q -> (period == inject_Z L * tsamp)%Q -> 0 <= a0 < L ->
    (forall a c, 0 <= a < nsamps - md -> 0 <= c < nch -> a mod L <> a0 -> SX fs ((start + a + delays c) * nch + c) = 0) ->
    exists f cn, fold_pipe fs nch gulp start nsamps nn md delays tsamp period accel nbins nints nbands = Some (f, cn) /\
      forall k, k mod nbins <> fold_phasebin tsamp period accel tot nbins 0 a0 -> f k = 0.
  Proof. intros Hts HL Hac Hper Ha0 Hzero. pose proof tot_ge as Htg.
    destruct (fold_pipe_spec fs nch N gulp start nsamps nn md delays tsamp period accel nbins nints nbands) as [f [cn [E S]]]; try assumption; [fold tot; lia|].
    exists f, cn. split; [exact E|]. intros k Hk. rewrite (proj1 (S k)). apply cellsum_zero. intros a c Ha Hcx Hcell.
    unfold pval. apply Hzero; try assumption. intro Hmod. apply Hk. rewrite <- Hcell. unfold pcell. rewrite cell_of_phasebin by lia.
    fold tot. replace a with (a0 + (a / L) * L) by (rewrite <- Hmod; pose proof (Z.div_mod a L ltac:(lia)); lia).
    apply phasebin_shift; try assumption; try lia. apply Z.div_pos; lia. Qed.
End Consequences.

(** * TimeSeries.fold: one kernel call over the whole series, one channel, no delays *)
Section TS.
  Variables (data : arr) (size : Z) (tsamp period accel : Q) (nbins nints : Z).
  Hypotheses (Hsz : 1 <= size) (Hnbins : 1 <= nbins) (Hnints : 1 <= nints).

  Definition tcell (a c : Z) : Z := cell_of tsamp period accel size 1 nbins nints 1 a c.

  Theorem ts_fold_spec k :
    fst (ts_fold data size tsamp period accel nbins nints) k = cellsum 1 tcell (fun a _ => data a) size k /\
    snd (ts_fold data size tsamp period accel nbins nints) k = cellsum 1 tcell (fun _ _ => 1) size k.
  Proof. unfold ts_fold.
    destruct (fold_run_spec data zeros zeros (of_list [0]) 0 tsamp period accel size size 1 nbins nints 1 0 k) as [Hf Hc]. cbv zeta in Hf, Hc.
    rewrite Hf, Hc. unfold zeros. cbn [Z.add]. replace (size - 0) with size by lia.
    split; apply cellsum_ext; intros a c Ha Hcx; (split; [rewrite fold_pos2_abs by lia; unfold tcell; f_equal; lia|try reflexivity]).
    assert (c = 0) by lia. subst c. change (of_list [0] 0) with 0. f_equal. lia. Qed.

  Lemma tcell_range a c : 0 <= a < size -> 0 <= c < 1 -> 0 <= tcell a c < ts_fold_ncells nbins nints.
  Proof. intros. unfold tcell, ts_fold_ncells. replace (nbins * nints) with (nints * 1 * nbins) by ring. apply cell_of_range; lia. Qed.

  Theorem ts_counts_sum : sum_n (Z.to_nat (ts_fold_ncells nbins nints)) (snd (ts_fold data size tsamp period accel nbins nints)) = size.
  Proof. erewrite sum_n_ext; [|intros k Hk; apply (proj2 (ts_fold_spec k))].
    rewrite cellsum_total; try lia.
    - erewrite sum_n_ext; [|intros a Ha; apply sum_n_const]. rewrite sum_n_const. rewrite Z2Nat.id by lia. change (Z.of_nat (Z.to_nat 1)) with 1. lia.
    - intros a c Ha Hcx. rewrite Z2Nat.id by (unfold ts_fold_ncells; nia). apply tcell_range; assumption. Qed.
End TS.
